(** SampleCheck: executable oracles of C16 / C17 evaluated on what the IMPLEMENTATION returned
    ([prop_fail16], [prop_fail17]), and the correspondence of the Impl model with the
    implementation ([corr_ok]) at the binary64 carrier (bit-exact against float.hex() literals).
    Imports only the model and the definitions, never a proof file. *)
From Coq Require Import String.
From Coq Require Import List Ascii ZArith Bool.
From Coq Require Import Floats.PrimFloat Numbers.Cyclic.Int63.Uint63.
From CGV Require Import Base.PyBase Base.PyVal Base.PyGen Base.NxGraph Sample.GenSupport Gen.SamplerGen Gen.HydroGen
     Sample.SampleImpl Sample.SampleDefs Sample.SampleFinal Sample.SampleMassDefs.
From CGV Require Resolve.GraphOps Hydro.Hydrogens.
Import ListNotations.
Open Scope Z_scope.

(** * the binary64 instance of the carrier *)
Definition fc0 (z : Z) : float := if Z.eqb z 0 then 0%float else PrimFloat.of_uint63 (Uint63.of_Z z).
Definition fadd := PrimFloat.add.
Definition fltb := PrimFloat.ltb.
Definition fisz (x : float) : bool := PrimFloat.eqb x 0%float.
Definition feq (x y : float) : bool := PrimFloat.eqb x y.
(** |a - b| <= 1e-9 * max(1, |b|) *)
Definition fclose (a b : float) : bool :=
  let d := PrimFloat.abs (PrimFloat.sub a b) in
  let s := if PrimFloat.ltb 1%float (PrimFloat.abs b) then PrimFloat.abs b else 1%float in
  PrimFloat.leb d (PrimFloat.mul 0x1.12e0be826d695p-30%float s).

Definition fconfig := config float.

(** * one case: the input, and what the implementation did *)
Inductive outcome :=
| OExc (cls : pystr) (stage : nat)          (* 0: constructor, 1: growth, 2: hydrogens/finalisation *)
| ODone (pre : graph) (car : option graph) (final : graph).
(** [pre]: the networkx graph when growth has finished (node and adjacency orders); [car]: the
    graph right after pysmiles.correct_aromatic_rings inside rebuild_h_atoms (all-atom; transcript);
    [final]: the returned molecule *)

Definition tables := (list (pystr * float) * list (pystr * list (pystr * float)) * list pystr
                      * list (pystr * float) * list (pystr * list (pystr * Z)))%type.
Record case := {
  k_aa : bool;
  k_frags : fragdict;
  k_poly : list (pystr * float);
  k_fragreact : list (pystr * list (pystr * float));
  k_term : list pystr;
  k_user_masses : option (list (pystr * float));
  k_target : float;
  k_start : option pystr;
  k_init : option tables;                  (* the sampler's tables after construction *)
  k_picks0 : list nat;                     (* index of the start fragment ([] if given) *)
  k_steps : list (list nat);               (* indices picked inside each add_fragment call *)
  k_obs : list (list (pystr * list Z));    (* open_bonds handed to each add_fragment call *)
  k_added : list pystr;                    (* fragment names add_fragment returned *)
  k_det : list bool;                       (* C17 histories: repeated runs gave identical molecules *)
  k_completed : list (list pystr);         (* PTE masses: per fragment (dict order) the elements of the completed copy inside
                                              compute_mass, in node order, as recorded in the constructor *)
  k_hist : list bool;                      (* C17 histories on the shared generator (construct A; construct B; sample A / sample
                                              after a failed sample): the implementation did what the history machine says *)
  k_exact : list bool;                     (* stop rule judged by the harness in exact rational arithmetic on the
                                              recorded binary64 masses: [sum >= target; sum without the last < target] *)
  k_out : outcome }.

(** * comparison helpers *)
Fixpoint list_eqb {A} (eqb : A -> A -> bool) (a b : list A) : bool :=
  match a, b with [], [] => true | x :: a', y :: b' => eqb x y && list_eqb eqb a' b' | _, _ => false end.
Definition strs_eqb := list_eqb str_eqb.
Definition fdict_eqb (a b : list (pystr * float)) : bool :=
  list_eqb (fun x y => str_eqb (fst x) (fst y) && feq (snd x) (snd y)) a b.
Definition ob_eqb (a b : list (pystr * list Z)) : bool :=
  list_eqb (fun x y => str_eqb (fst x) (fst y) && list_eqb Z.eqb (snd x) (snd y)) a b.
Definition byb_eqb (a b : list (pystr * list (pystr * Z))) : bool :=
  list_eqb (fun x y => str_eqb (fst x) (fst y) &&
              list_eqb (fun p q => str_eqb (fst p) (fst q) && Z.eqb (snd p) (snd q)) (snd x) (snd y)) a b.

(** edges as a set: orient (min, max), insertion sort by endpoints *)
Definition orient (e : Z * Z * attrs) : Z * Z * attrs :=
  let '(u, v, a) := e in if u <=? v then (u, v, a) else (v, u, a).
Definition edge_le (x y : Z * Z * attrs) : bool :=
  let '(u, v, _) := x in let '(u', v', _) := y in (u <? u') || ((u =? u') && (v <=? v')).
Fixpoint ins_edge (x : Z * Z * attrs) (l : list (Z * Z * attrs)) : list (Z * Z * attrs) :=
  match l with [] => [x] | y :: r => if edge_le x y then x :: y :: r else y :: ins_edge x r end.
Definition canon_edges (l : list (Z * Z * attrs)) : list (Z * Z * attrs) := fold_right ins_edge [] (map orient l).
Definition og_eqb (a b : ograph) : bool :=
  nodes_eqb (fst a) (fst b) && edges_eqb (canon_edges (snd a)) (canon_edges (snd b)).

(** * accessors on the observable graph *)
Definition o_fid (a : attrs) : option Z :=
  match aget (S "fragid") a with Some (VList [VInt k]) => Some k | _ => None end.
Definition o_str (k : pystr) (a : attrs) : option pystr :=
  match aget k a with Some (VStr s) => Some s | _ => None end.
Fixpoint vstrs (l : list pyval) : list pystr :=
  match l with [] => [] | VStr s :: r => s :: vstrs r | _ :: r => vstrs r end.
Definition o_bonding (a : attrs) : list pystr :=
  match aget (S "bonding") a with Some (VList l) => vstrs l | _ => [] end.
Definition o_is_h (a : attrs) : bool :=
  match o_str (S "element") a with Some e => str_eqb e (S "H") | None => false end.
Definition e_bond (a : attrs) : option (pystr * pystr) :=
  match aget (S "bonding") a with
  | Some (VTup [VStr x; VStr y]) | Some (VList [VStr x; VStr y]) => Some (x, y)
  | _ => None
  end.
Definition node_attrs_of (g : ograph) (k : Z) : attrs :=
  match assocz k (fst g) with Some a => a | None => [] end.
Definition fid_of (g : ograph) (k : Z) : Z :=
  match o_fid (node_attrs_of g k) with Some f => f | None => -1 end.

(** inter-fragment edges, oriented (older copy, newer copy): (lo, hi, flo, fhi, attrs) *)
Definition inter_edges (g : ograph) : list (Z * Z * Z * Z * attrs) :=
  flat_map (fun e => let '(u, v, a) := e in
              let fu := fid_of g u in let fv := fid_of g v in
              if fu =? fv then [] else if fu <? fv then [(u, v, fu, fv, a)] else [(v, u, fv, fu, a)]) (snd g).
Definition zs_mem (k : Z) (l : list Z) : bool := existsb (Z.eqb k) l.
Definition fids (g : ograph) : list Z :=
  fold_left (fun acc ka => match o_fid (snd ka) with
                           | Some f => if zs_mem f acc then acc else acc ++ [f]
                           | None => acc end) (fst g) [].

(** connected (BFS with fuel) *)
Definition nbrs (g : ograph) (k : Z) : list Z :=
  flat_map (fun e => let '(u, v, _) := e in (if u =? k then [v] else []) ++ (if v =? k then [u] else [])) (snd g).
Fixpoint bfs (fuel : nat) (g : ograph) (front seen : list Z) : list Z :=
  match fuel with
  | O => seen
  | Datatypes.S f =>
      match front with
      | [] => seen
      | x :: r =>
          let nb := nodup Z.eq_dec (filter (fun y => negb (zs_mem y seen)) (nbrs g x)) in
          bfs f g (r ++ nb) (seen ++ nb)
      end
  end.
Definition og_connected (g : ograph) : bool :=
  match fst g with
  | [] => true
  | (k, _) :: _ => Nat.eqb (length (bfs (Datatypes.S (length (fst g))) g [k] [k])) (length (fst g))
  end.

(** sorted keys *)
Fixpoint ins_z (x : Z) (l : list Z) : list Z :=
  match l with [] => [x] | y :: r => if x <=? y then x :: y :: r else y :: ins_z x r end.
Definition sort_z (l : list Z) : list Z := fold_right ins_z [] l.

(** the nodes of copy f by ascending key; the TEMPLATE atoms of the copy: all of them for coarse graphs; for
    all-atom graphs the first |template| of them (canonical numbering: inside a copy the template atoms, explicit
    hydrogens and single-hydrogen fragments included, come first, then the completing hydrogens) *)
Definition copy_all (g : ograph) (f : Z) : list Z :=
  sort_z (map fst (filter (fun ka => match o_fid (snd ka) with Some f' => f =? f' | None => false end) (fst g))).
Definition copy_nodes (fd : fragdict) (aa : bool) (g : ograph) (f : Z) : list Z :=
  let ks := copy_all g f in
  if aa then
    match ks with
    | k0 :: _ =>
        match o_str (S "fragname") (node_attrs_of g k0) with
        | Some nm => match dict_get fd nm with Some t => firstn (length (f_nodes t)) ks | None => ks end
        | None => ks
        end
    | [] => []
    end
  else ks.
Definition tpl_heavy (aa : bool) (t : template) : list tnode := f_nodes t.
Fixpoint first_fail (l : list nat) : nat := match l with [] => 0%nat | 0%nat :: r => first_fail r | n :: _ => n end.
Definition chk (b : bool) (code : nat) : nat := if b then 0%nat else code.

Definition edge_between (g : ograph) (u v : Z) : option attrs :=
  match find (fun e => let '(a, b, _) := e in ((a =? u) && (b =? v)) || ((a =? v) && (b =? u))) (snd g) with
  | Some (_, _, a) => Some a
  | None => None
  end.
Definition opt_pyval_eqb (a b : option pyval) : bool :=
  match a, b with Some x, Some y => pyval_eqb x y | None, None => true | _, _ => false end.

(** ** C16, clause by clause, on the returned molecule [g] *)
Section C16.
  Variables (aa : bool) (fd : fragdict) (nsteps : nat) (g : ograph).
  Let ie := inter_edges g.
  Let fs := fids g.

  (** 2: tree of copies, one attaching bond per added copy *)
  Definition c16_tree : bool :=
    Nat.eqb (length fs) (Datatypes.S nsteps) && Nat.eqb (length ie) nsteps &&
    forallb (fun f => (f =? 0) ||
                      Nat.eqb (length (filter (fun e => let '(_, _, _, fhi, _) := e in fhi =? f) ie)) 1) fs.
  (** 3: complementary descriptors of equal order, edge order = that order *)
  Definition c16_compl : bool :=
    forallb (fun e => let '(_, _, _, _, a) := e in
               match e_bond a with
               | Some (d1, d2) =>
                   kind_in_domain d1 && compl_spec d1 d2 &&
                   match last_char d1, aget (S "order") a with
                   | Some c, Some (VInt o) => is_digit c && (o =? Z.of_nat (digit_val c))
                   | _, _ => false
                   end
               | None => false
               end) ie.
  (** position of node k inside its copy, the template of the copy *)
  Definition tpl_of (k : Z) : option template :=
    match o_str (S "fragname") (node_attrs_of g k) with Some nm => dict_get fd nm | None => None end.
  Definition tnode_of (k : Z) : option tnode :=
    match tpl_of k with
    | Some t => match index_of Z.eqb k (copy_nodes fd aa g (fid_of g k)) 0 with
                | Some p => nth_error (tpl_heavy aa t) p
                | None => None end
    | None => None
    end.
  Definition used_descs (k : Z) : list pystr :=
    flat_map (fun e => let '(lo, hi, _, _, a) := e in
                match e_bond a with
                | Some (d1, d2) => (if lo =? k then [d1] else []) ++ (if hi =? k then [d2] else [])
                | None => [] end) ie.
  (** 4: used + remaining occurrences never exceed what the template wrote on that atom *)
  Definition c16_once : bool :=
    forallb (fun ka =>
      let k := fst ka in
      let u := used_descs k in let rm := o_bonding (snd ka) in
      match tnode_of k with
      | Some tn => let tl := bonding_list (t_bonding tn) in
                   forallb (fun d => Nat.leb (cnt d u + cnt d rm) (cnt d tl)) (u ++ rm)
      | None => match u ++ rm with [] => true | _ => false end
      end) (fst g).
  (** 5: each copy is the template, through the positional (merge) correspondence *)
  Definition copy_iso (f : Z) : bool :=
    let ks := copy_nodes fd aa g f in
    match ks with
    | [] => false
    | k0 :: _ =>
        match tpl_of k0 with
        | None => false
        | Some t =>
            let th := tpl_heavy aa t in
            let corr := combine (map t_key th) ks in
            Nat.eqb (length th) (length ks) &&
            forallb (fun tk => let '(tn, k) := tk in
                       let a := node_attrs_of g k in
                       opt_pyval_eqb (aget (S "fragname") (t_attrs tn)) (aget (S "fragname") a) &&
                       opt_pyval_eqb (aget (S "element") (t_attrs tn)) (aget (S "element") a) &&
                       (aa || opt_pyval_eqb (aget (S "atomname") (t_attrs tn)) (aget (S "atomname") a)))
                    (combine th ks) &&
            forallb (fun e => let '(a, b, at_) := e in
                       match assocz a corr, assocz b corr with
                       | Some ca, Some cb =>
                           (ca =? cb) || match edge_between g ca cb with
                                         | Some at' =>
                                             (* an aromatic (1.5) template bond may be re-kekulised by pysmiles'
                                                correct_aromatic_rings once the ring is substituted: not judged *)
                                             opt_pyval_eqb (aget (S "order") at_) (Some (VFlt (S "1.5")))
                                             || opt_pyval_eqb (aget (S "order") at_) (aget (S "order") at')
                                         | None => false end
                       | _, _ => false
                       end) (f_edges t) &&
            Nat.eqb (length (filter (fun e => let '(u, v, _) := e in zs_mem u ks && zs_mem v ks) (snd g)))
                    (length (filter (fun e => let '(a, b, _) := e in
                                       negb (opt_pyval_eqb (option_map VInt (assocz a corr)) (option_map VInt (assocz b corr)))) (f_edges t)))
        end
    end.
  Definition c16_iso : bool := forallb copy_iso fs.
  (** 6: keys 0..n-1, fragid non-decreasing with the key, fragids 0..k-1 *)
  Fixpoint nondecr (l : list Z) : bool :=
    match l with x :: ((y :: _) as r) => (x <=? y) && nondecr r | _ => true end.
  Definition c16_numbering : bool :=
    let keys := sort_z (map fst (fst g)) in
    list_eqb Z.eqb keys (map Z.of_nat (seq 0 (length (fst g)))) &&
    nondecr (map (fid_of g) keys) &&
    list_eqb Z.eqb (sort_z fs) (map Z.of_nat (seq 0 (length fs))) &&
    forallb (fun ka => match o_fid (snd ka) with Some _ => true | None => false end) (fst g).
  (** 6 (all-atom, canonical numbering inside a copy): by ascending key the template atoms come
      first, then the completing hydrogens in the order of their parent atoms; the atom name is
      element + rank of the key inside the copy (what set_atom_names_atomistic gives when the nodes
      of a copy are iterated in key order) *)
  Definition c16_copy_order : bool :=
    forallb (fun f =>
      let ks := copy_all g f in
      let added := skipn (length (copy_nodes fd true g f)) ks in
      forallb (fun k => o_is_h (node_attrs_of g k)) added &&
      nondecr (map (fun h => match nbrs g h with p :: _ => p | [] => -1 end) added) &&
      forallb (fun ik => match o_str (S "element") (node_attrs_of g (snd ik)), o_str (S "atomname") (node_attrs_of g (snd ik)) with
                         | Some e, Some nm => str_eqb nm (e ++ str_of_nat (fst ik))
                         | _, _ => false end) (combine (seq 0 (length ks)) ks)) fs.
  (** 7: valence completeness (statement of C09) in half-units of bond order *)
  Definition half_order (a : attrs) : option Z :=
    match aget (S "order") a with
    | Some (VInt o) => Some (2 * o)
    | Some (VFlt r) => if str_eqb r (S "1.5") then Some 3 else None
    | None => Some 2
    | _ => None
    end.
  (** an ADDED hydrogen: a hydrogen that is not one of the template atoms of its copy *)
  Definition is_added_h (k : Z) : bool :=
    o_is_h (node_attrs_of g k) && negb (zs_mem k (copy_nodes fd aa g (fid_of g k))).
  Definition c16_valence : bool :=
    forallb (fun ka =>
      let k := fst ka in let a := snd ka in
      if o_is_h a then
        (* an added hydrogen, or a template hydrogen without descriptors: exactly one neighbour, same membership.
           A single-hydrogen fragment with one descriptor of order 1 (an end cap): at most one neighbour.  Any other
           hydrogen on which the input writes bonding descriptors asks for more than one bond: not judged *)
        match (if is_added_h k then None else tnode_of k) with
        | Some tn =>
            let single := match aget (S "single_h_frag") a with Some (VBool true) => true | _ => false end in
            match bonding_list (t_bonding tn) with
            | [] => if single then Nat.leb (length (nbrs g k)) 1     (* a lone hydrogen fragment *)
                    else match nbrs g k with [x] => fid_of g x =? fid_of g k | _ => false end
            | [d] => if single then match last_char d with
                                    | Some c => negb (Ascii.eqb c "1") || Nat.leb (length (nbrs g k)) 1
                                    | None => true end
                     else true
            | _ => true
            end
        | None => match nbrs g k with [x] => fid_of g x =? fid_of g k | _ => false end
        end
      else
        match o_str (S "element") a with
        | None => true
        | Some e =>
            let q := match aget (S "charge") a with Some (VInt z) => z | _ => 0 end in
            match valence_of e q valence_table with
            | None | Some [] => true
            | Some vals =>
                (* the bonds present when the completion starts: to heavy atoms, to explicit hydrogens, to hydrogen
                   fragments; the completing hydrogens are the added ones *)
                let inc := filter (fun ed => let '(u, v, _) := ed in (u =? k) || (v =? k)) (snd g) in
                let pre := filter (fun ed => let '(u, v, _) := ed in negb (is_added_h (if u =? k then v else u))) inc in
                let nh := Z.of_nat (length inc) - Z.of_nat (length pre) in
                let hs := map (fun ed => let '(_, _, at_) := ed in half_order at_) pre in
                if existsb (fun o => match o with None => true | Some _ => false end) hs then true else
                let hb := fold_left (fun acc o => match o with Some x => acc + x | None => acc end) hs 0 in
                if Z.odd hb then true else
                let b := hb / 2 in
                match filter (fun v => b <=? v) vals with
                | v :: _ => nh =? v - b
                | [] => true          (* the bonds present exceed every usual valence: not judged *)
                end
            end
        end) (fst g).

  Definition holds_C16 : nat :=
    first_fail [chk (og_connected g) 1; chk c16_tree 2; chk c16_compl 3; chk c16_once 4; chk c16_iso 5;
                chk (c16_numbering && (negb aa || c16_copy_order)) 6; chk (negb aa || c16_valence) 7].
End C16.

(** * is an exception of the implementation explained by the user's tables (outside the domain)? *)
Definition spec_config (c : case) (masses : list (pystr * float)) : fconfig :=
  {| c_frags := k_frags c; c_poly := dflt_dict (k_poly c); c_fragreact := dflt_fragreact (k_fragreact c);
     c_term := map dflt (k_term c); c_masses := masses; c_byb := fragments_by_bonding (k_frags c) |}.
Definition err_class (e : err) : pystr :=
  match e with
  | EIndex => S "IndexError" | EValue => S "ValueError" | EIO => S "OSError" | EKey => S "KeyError"
  | EType => S "TypeError" | EAssert => S "AssertionError" | _ => S "?"
  end.
Definition last_opt {A} (l : list A) : option A := match rev l with x :: _ => Some x | [] => None end.
Definition all_keys_nonempty (c : case) : bool :=
  forallb (fun kv => match fst kv with [] => false | _ => true end) (k_poly c) &&
  forallb (fun kv => match fst kv with [] => false | _ => true end &&
                     forallb (fun kv2 => match fst kv2 with [] => false | _ => true end) (snd kv)) (k_fragreact c) &&
  forallb (fun s => match s with [] => false | _ => true end) (k_term c).
(** growth is impossible at the last recorded step: no open bond, all eligible weights zero, or
    no complementary descriptor among the fragments *)
Definition dead_end (c : case) (cls : pystr) : bool :=
  match last_opt (k_obs c), last_opt (k_steps c) with
  | Some ob, Some picks =>
      match step_select float fc0 fisz (list nat) pick_list (spec_config c []) picks ob with
      | Err e => (match e with EIndex | EValue | EIO => true | _ => false end) && str_eqb (err_class e) cls
      | Ok _ => false
      end
  | _, _ => false
  end.
Definition exc_outside_domain (c : case) (cls : pystr) (stage : nat) : bool :=
  match stage with
  | O => negb (all_keys_nonempty c)
         || (negb (k_aa c) && match k_user_masses c with Some (_ :: _) => false | _ => true end)
  | Datatypes.S O => dead_end c cls
  | _ => str_eqb cls (S "SyntaxError")     (* pysmiles refuses the chemistry (aromaticity): not a sampler matter *)
  end.

(** unsupported descriptor kinds ('!' is not a kind the property speaks about) *)
Definition frags_in_domain (fd : fragdict) : bool :=
  forallb (fun ft => forallb (fun n => forallb kind_in_domain (bonding_list (t_bonding n))) (f_nodes (snd ft))) fd.

Definition prop_fail16 (c : case) : nat :=
  if negb (frags_in_domain (k_frags c)) then 0%nat else
  match k_out c with
  | OExc cls st => chk (exc_outside_domain c cls st) 9
  | ODone _ _ final => holds_C16 (k_aa c) (k_frags c) (length (k_obs c)) (observe final)
  end.

(** ** C17 *)
Section C17.
  Variable c : case.
  Variable g : ograph.
  Let ie := inter_edges g.
  Let term := map dflt (k_term c).
  Let poly := dflt_dict (k_poly c).
  Let fr := dflt_fragreact (k_fragreact c).
  Definition masses_of : list (pystr * float) :=
    match k_init c with Some (_, _, _, ms, _) => ms | None => [] end.

  (** 1: stop rule on the fragments added during growth *)
  Definition added_masses : option (list float) :=
    fold_right (fun nm acc => match acc, dict_get masses_of nm with
                              | Some l, Some x => Some (x :: l) | _, _ => None end) (Some []) (k_added c).
  Definition fsum (l : list float) : float := fold_left fadd l (fc0 0).
  Definition c17_stop : bool :=
    match added_masses with
    | None => false
    | Some ms =>
        (* a clause fails only when BOTH the binary64 left fold (what the code computes) and the exact
           rational sum of the same masses say so: round-off alone is never reported *)
        (negb (fltb (fsum ms) (k_target c)) || nth 0 (k_exact c) false) &&
        match ms with
        | [] => true
        | _ => fltb (fsum (removelast ms)) (k_target c) || nth 1 (k_exact c) false
        end &&
        (* the fragments named are the copies 1.. of the returned molecule, in order *)
        strs_eqb (k_added c)
                 (flat_map (fun f => match copy_nodes (k_frags c) (k_aa c) g f with
                                     | k :: _ => match o_str (S "fragname") (node_attrs_of g k) with Some s => [s] | None => [] end
                                     | [] => [] end)
                           (map Z.of_nat (seq 1 (length (k_added c)))))
    end.
  (** 2: element-derived masses *)
  Definition c17_masses : bool :=
    match k_user_masses c with
    | Some (_ :: _) => true
    | _ => if negb (k_aa c) then true else
           forallb (fun ft => match compute_mass float fc0 fadd pte_mass_float (snd ft) with
                              | Ok x => match dict_get masses_of (fst ft) with Some y => fclose x y | None => false end
                              | Err _ => true     (* aromatic / unknown element: not judged *)
                              end) (k_frags c)
    end.
  (** 3, 4: zero reactivities *)
  Definition c17_site : bool :=
    match poly with
    | [] => true
    | _ => forallb (fun e => let '(_, _, _, _, a) := e in
                      match e_bond a with Some (d1, _) => negb (fisz (dict_get_default poly d1 (fc0 0))) | None => false end) ie
    end.
  Definition c17_partner : bool :=
    forallb (fun e => let '(_, _, _, _, a) := e in
               match e_bond a with
               | Some (d1, d2) => match dict_get fr d1 with
                                  | Some (kv :: p) => negb (fisz (dict_get_default (kv :: p) d2 (fc0 0)))
                                  | _ => true end
               | None => false end) ie.
  (** 5, 6: terminals, judged at the older (source) end of every inter-fragment bond *)
  Definition c17_terminal (closes : bool) : bool :=
    forallb (fun e => let '(lo, _, _, fhi, a) := e in
      match e_bond a with
      | None => false
      | Some (_, d2) =>
          let later := filter (fun e' => let '(lo', _, _, fhi', _) := e' in (lo' =? lo) && (fhi <? fhi')) ie in
          let na := node_attrs_of g lo in
          if str_in d2 term then
            negb closes || (match later with [] => true | _ => false end && match o_bonding na with [] => true | _ => false end)
          else
            closes || (forallb (fun e' => let '(_, _, _, _, a') := e' in
                                  match e_bond a' with Some (d1', _) => negb (str_in d1' term) | None => false end) later
                       && forallb (fun d => negb (str_in d term)) (o_bonding na))
      end) ie.
  Definition holds_C17 : nat :=
    first_fail [chk c17_stop 1; chk c17_masses 2; chk c17_site 3; chk c17_partner 4;
                chk (c17_terminal true) 5; chk (c17_terminal false) 6; chk (forallb (fun b => b) (k_det c)) 7].
End C17.

Definition prop_fail17 (c : case) : nat :=
  if negb (frags_in_domain (k_frags c)) then 0%nat else
  match k_out c with
  | OExc cls st => chk (exc_outside_domain c cls st) 9
  | ODone _ _ final => holds_C17 c (observe final)
  end.

(** * correspondence: the Impl model, fed with the recorded indices, against the implementation *)
Definition model_masses (c : case) : res (list (pystr * float)) :=
  match k_user_masses c with
  | Some (kv :: r) => Ok (kv :: r)
  | _ => if k_aa c then mass_table float fc0 fadd pte_mass_float (k_frags c) [] else Err EIO
  end.
Definition model_init (c : case) : res fconfig :=
  (* the reactivity tables are patched before the masses are looked at *)
  cfg <- init float (k_frags c) (k_poly c) (k_fragreact c) (k_term c) [] ;;
  ms <- model_masses c ;;
  Ok {| c_frags := c_frags cfg; c_poly := c_poly cfg; c_fragreact := c_fragreact cfg; c_term := c_term cfg;
        c_masses := ms; c_byb := c_byb cfg |}.
(** element-derived masses DERIVED from the hydrogen component's model (Sample/SampleTemplateNx.v,
    [mass_is_hydro_mass]): the fragment satisfies the theorem's hypothesis [mass_wfb]; Hydro's rebuild model run on
    the fragment graph yields the element sequence the implementation's completed copy had (node order), and the
    mass loop over it gives the implementation's fragment mass bit for bit *)
Definition hydro_masses_ok (c : case) (ms : list (pystr * float)) : bool :=
  match k_user_masses c with
  | Some (_ :: _) => true
  | _ =>
      if negb (k_aa c) then true else
      Nat.eqb (length (k_completed c)) (length (k_frags c)) &&
      forallb (fun fe =>
                 let t := snd (fst fe) in
                 mass_wfb t &&
                 match Hydrogens.rebuild_after_car false rebuild_copy_attrs_default (template_nx t) with
                 | Ok g' => list_eqb opt_pyval_eqb (map elt g') (map (fun e => Some (VStr e)) (snd fe)) &&
                            match nx_mass float fc0 fadd pte_mass_float g', dict_get ms (fst (fst fe)) with
                            | Ok x, Some y => feq x y
                            | _, _ => false
                            end
                 | Err _ => false
                 end) (combine (k_frags c) (k_completed c))
  end.

Definition init_eqb (cfg : fconfig) (t : tables) : bool :=
  let '(p, f, tm, ms, byb) := t in
  fdict_eqb (c_poly cfg) p &&
  list_eqb (fun x y => str_eqb (fst x) (fst y) && fdict_eqb (snd x) (snd y)) (c_fragreact cfg) f &&
  strs_eqb (c_term cfg) tm && fdict_eqb (c_masses cfg) ms && byb_eqb (c_byb cfg) byb.

(** graphs are compared with their node (iteration) order, the attribute dicts, and the adjacency
    as a SET per node: the order in which networkx enumerates the edges of a node is not something
    the properties speak about (a change that only permutes edge insertion is not reported) *)
Fixpoint ins_adj (x : Z * attrs) (l : list (Z * attrs)) : list (Z * attrs) :=
  match l with [] => [x] | y :: r => if fst x <=? fst y then x :: y :: r else y :: ins_adj x r end.
Definition canon_nrec (n : nrec) : nrec := {| nk := nk n; na := na n; nadj := fold_right ins_adj [] (nadj n) |}.
Definition graph_eqb_u (a b : graph) : bool := GraphOps.graph_eqb (map canon_nrec a) (map canon_nrec b).

Definition all_picks (c : case) : list nat := k_picks0 c ++ concat (k_steps c).

Definition corr_ok (c : case) : bool :=
  match model_init c, k_init c with
  | Err e, None => match k_out c with OExc cls O => str_eqb (err_class e) cls | _ => false end
  | Ok cfg, Some t =>
      init_eqb cfg t &&
      hydro_masses_ok c (c_masses cfg) &&
      forallb (fun b => b) (k_hist c) &&
      (* hypothesis of the unconditional numbering / valence theorems (Sample/SampleSorted.v) *)
      frags_attrs_okb (k_frags c) &&
      let picks := all_picks c in
      let run := sample_growth float fc0 fadd fltb fisz (list nat) pick_list cfg (k_target c) (Datatypes.S (length picks)) picks (k_start c) in
      match run, k_out c with
      | Ok (_, i0, m, _, log, rest), ODone pre car final =>
          match rest with [] => true | _ => false end &&
          list_eqb Nat.eqb i0 (k_picks0 c) &&
          list_eqb (list_eqb Nat.eqb) (map r_picks log) (k_steps c) &&
          list_eqb ob_eqb (map r_ob log) (k_obs c) &&
          strs_eqb (map r_fragname log) (k_added c) &&
          (* the grown molecule, with networkx' node and adjacency orders *)
          graph_eqb_u (to_nx m) pre &&
          (* hypothesis of the valence corollary (Sample/SampleValence.v): no 'rs_isomer' on the transcript *)
          match car with Some g1 => forallb (fun n => negb (ahas (S "rs_isomer") (na n))) g1 | None => true end &&
          (* hydrogens (Hydro model; aromaticity transcript with its contract), sort, names *)
          (* run on the recorded graph, which equals the model's up to the order of adjacency lists *)
          match finalise_nx (k_aa c) pre car with
          | Ok f => graph_eqb_u f final
          | Err _ => false
          end
      | Ok (_, _, m, _, log, rest), OExc cls (Datatypes.S (Datatypes.S _)) =>
          (* growth finished; pysmiles refused the molecule afterwards *)
          match rest with [] => true | _ => false end && list_eqb ob_eqb (map r_ob log) (k_obs c)
      | Err e, OExc cls (Datatypes.S O) => str_eqb (err_class e) cls
      | _, _ => false
      end
  | _, _ => false
  end.
