(** PyEq: [pyval_eqb] decides equality (soundness direction), for the executable tests of the specifications. *)
From Coq Require Import String.
From Coq Require Import List Ascii ZArith Bool Lia.
From CGV Require Import Base.PyBase Base.PyVal.
Import ListNotations.

Fixpoint pyval_eqb_sound (a b : pyval) {struct a} : pyval_eqb a b = true -> a = b.
Proof.
  assert (Hl : forall l m : list pyval, (forall x, In x l -> forall y, pyval_eqb x y = true -> x = y) ->
     (fix list_eqb (l m : list pyval) : bool :=
        match l, m with [] , [] => true | x :: l', y :: m' => pyval_eqb x y && list_eqb l' m' | _, _ => false end) l m = true -> l = m).
  { induction l as [|x l IHl]; intros [|y m] Hx H; try discriminate; [reflexivity|].
    apply andb_true_iff in H as [H1 H2]. f_equal; [apply Hx; [now left|exact H1]|apply IHl; [intros; apply Hx; [now right|assumption]|exact H2]]. }
  destruct a, b; cbn; try discriminate.
  - reflexivity.
  - intros H. apply Bool.eqb_prop in H. now subst.
  - intros H. apply Z.eqb_eq in H. now subst.
  - intros H. apply str_eqb_eq in H. now subst.
  - intros H. apply str_eqb_eq in H. now subst.
  - intros H. f_equal. apply Hl; [|exact H]. clear H. induction l as [|x l IH]; intros z Hz y; [contradiction|].
    destruct Hz as [<-|Hz]; [apply pyval_eqb_sound|now apply IH].
  - intros H. f_equal. apply Hl; [|exact H]. clear H. induction l as [|x l IH]; intros z Hz y; [contradiction|].
    destruct Hz as [<-|Hz]; [apply pyval_eqb_sound|now apply IH].
  - revert d0. induction d as [|[k v] d IH]; intros [|[k' v'] d0] H; try discriminate; [reflexivity|].
    apply andb_true_iff in H as [H H3]. apply andb_true_iff in H as [H1 H2].
    apply pyval_eqb_sound in H1. apply pyval_eqb_sound in H2. subst. specialize (IH d0 H3). inversion IH. reflexivity.
Qed.
