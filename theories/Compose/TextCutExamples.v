(** TextCutExamples: non-vacuity of Compose/TextCut.v on a real three-fragment string (ethyl acetate cut at both ester
    bonds, the acid part written from the carbonyl oxygen with the methyl group as a branch):

        {[#A][#B][#C]}.{#A=O=C(C)[$a],#B=[$a]O[>b],#C=[<b]CC}

    every hypothesis of [text_level_skeleton] holds (by computation through the sound tests), so the theorem applies; and
    the driver model run on the string by vm_compute returns the graph the theorem describes. *)
From Coq Require Import String.
From Coq Require Import List Ascii ZArith Bool Lia.
From CGV Require Import Base.PyBase Base.PyVal Base.NxGraph Dialect.DialectImpl.
From CGV Require Import Frag.NDict Frag.StripImpl Frag.FragText Frag.TemplateCompose.
From CGV Require Reader.ReaderImpl Reader.Grammar.
From CGV Require Import Resolve.Bonding Resolve.GraphOps Resolve.Pipeline Resolve.PipelineFull.
From CGV Require Hydro.Hydrogens Hydro.Squash.
From CGV Require Import Hydro.SquashDefs.
From CGV Require Import Compose.GraphAdj Compose.CutModel Compose.CutSpecDefs Compose.CutSpecCheck Compose.CutSkeleton Compose.ComposeFlat
     Compose.TextCut.
Import ListNotations.
Open Scope Z_scope.

Definition fo0 : float_oracle := fo_of_table [].
Definition at_ (el : string) (h : Z) : attrs :=
  [(S "element", VStr (S el)); (S "charge", VInt 0); (S "aromatic", VBool false); (S "hcount", VInt h)].
(** CH3-C(=O)-O-CH2-CH3; hcount = what pysmiles' fill_valence leaves on the FRAGMENT (the cut bonds are not counted) *)
Definition ea_cut : cut :=
  {| c_atoms := [(10, at_ "C" 3); (11, at_ "C" 1); (12, at_ "O" 0); (13, at_ "O" 2); (14, at_ "C" 3); (15, at_ "C" 3)];
     c_bonds := [ {| cb_u := 10; cb_v := 11; cb_ord := VInt 1; cb_lab := []; cb_dollar := true |};
                  {| cb_u := 11; cb_v := 12; cb_ord := VInt 2; cb_lab := []; cb_dollar := true |};
                  {| cb_u := 11; cb_v := 13; cb_ord := VInt 1; cb_lab := S "a"; cb_dollar := true |};
                  {| cb_u := 13; cb_v := 14; cb_ord := VInt 1; cb_lab := S "b"; cb_dollar := false |};
                  {| cb_u := 14; cb_v := 15; cb_ord := VInt 1; cb_lab := []; cb_dollar := true |} ];
     c_parts := [(S "A", [12; 11; 10]); (S "B", [13]); (S "C", [14; 15])];
     c_dord := [] |}.
Definition dsc (k : ascii) (l : string) : desc := {| d_kind := k; d_label := S l; d_sym := None |}.
Definition ea_defs : list fdef :=
  [ {| fd_name := S "A";
       fd_toks := [TAtom (S "O"); TBond BDouble; TAtom (S "C"); TOpen; TAtom (S "C"); TClose];
       fd_dc := {| d_lead := []; d_after := [[]; []; []; []; []; [dsc "$" "a"]] |} |};
    {| fd_name := S "B"; fd_toks := [TAtom (S "O")]; fd_dc := {| d_lead := [dsc "$" "a"]; d_after := [[dsc ">" "b"]] |} |};
    {| fd_name := S "C"; fd_toks := [TAtom (S "C"); TAtom (S "C")]; fd_dc := {| d_lead := [dsc "<" "b"]; d_after := [[]; []] |} |} ].
Definition nd (n : string) : Grammar.item := Grammar.Item (S n) [] None None [].
Definition ea_base : Grammar.chain := [nd "A"; nd "B"; nd "C"].
Definition ea_string : pystr := cut_string ea_base ea_defs.

Example ea_string_text : to_string ea_string = "{[#A][#B][#C]}.{#A=O=C(C)[$a],#B=[$a]O[>b],#C=[<b]CC}"%string.
Proof. vm_compute. reflexivity. Qed.

Definition all_atom_payloadb (C : cut) : bool :=
  forallb (fun x => match aget (S "element") (payload C x), aget (S "charge") (payload C x), aget (S "hcount") (payload C x) with
                    | Some _, Some _, Some (VInt _) => negb (Hydrogens.is_H (payload C x)) | _, _, _ => false end) (flat C).
Lemma all_atom_payloadb_sound C : all_atom_payloadb C = true -> forall x, In x (flat C) ->
  (exists e, aget (S "element") (payload C x) = Some e) /\ (exists q, aget (S "charge") (payload C x) = Some q) /\
  (exists h, aget (S "hcount") (payload C x) = Some (VInt h)) /\ Hydrogens.is_H (payload C x) = false.
Proof.
  unfold all_atom_payloadb. rewrite forallb_forall. intros H x Fx. specialize (H x Fx).
  destruct (aget (S "element") (payload C x)) as [e|]; [|discriminate H].
  destruct (aget (S "charge") (payload C x)) as [q|]; [|discriminate H].
  destruct (aget (S "hcount") (payload C x)) as [[]|]; try discriminate H.
  apply negb_true_iff in H. repeat split; eauto.
Qed.

(** every hypothesis of the theorem, by computation *)
Example ea_hypotheses :
  wf_cutb ea_cut = true /\ Grammar.wf fo0 ea_base = true /\ Grammar.has_branch_mult ea_base = false /\
  chars_lackb ["}"%char] (Grammar.print_chain ea_base) = true /\
  (exists B, Grammar.denote fo0 ea_base = Ok B /\ is_baseb ea_cut B = true /\ get_node_attributes B (S "atomname") = []) /\
  defs_okb fo0 ea_cut ea_defs = true /\ all_atom_payloadb ea_cut = true.
Proof.
  split; [vm_compute; reflexivity|]. split; [vm_compute; reflexivity|]. split; [vm_compute; reflexivity|].
  split; [vm_compute; reflexivity|]. split; [|split; vm_compute; reflexivity].
  eexists. split; [vm_compute; reflexivity|]. split; vm_compute; reflexivity.
Qed.

(** the theorem applies to the string *)
Example ea_text_level_skeleton :
  exists st fd m1 fg1 m2 fg2,
    from_text fo0 ea_string = Ok st /\ st_dicts st = [fd] /\ is_all_atom st = true /\ templates_ok ea_cut fd /\
    resolve_disconnected fd (next_meta (st_mol st)) = Ok (m1, fg1) /\
    bonding_step true true (next_meta (st_mol st)) m1 fg1 = Ok (m2, fg2) /\
    skeleton ea_cut true m2 /\ Squash.squash_atoms m2 = Ok m2.
Proof.
  destruct ea_hypotheses as (H1 & H2 & H3 & H4 & (B & HB & Hb & Hn) & H5 & H6).
  destruct (text_level_skeleton fo0 ea_cut ea_base ea_defs B (wf_cutb_sound _ H1) H2 H3
              (chars_lackb_sound _ _ _ H4 (or_introl eq_refl)) HB (is_baseb_sound _ _ Hb) Hn ltac:(discriminate)
              (defs_okb_sound _ _ _ H5) (all_atom_payloadb_sound _ H6))
    as (st & fd & m1 & fg1 & m2 & fg2 & A1 & A2 & A3 & A4 & A5 & A6 & A7 & A8 & _ & _ & A9).
  exists st, fd, m1, fg1, m2, fg2. auto 10.
Qed.

(** and the model, run on the string: ethyl acetate's heavy atoms O C C | O | C C with keys 0..5 and its five bonds *)
Definition run_string (s : pystr) : res graph :=
  st <- from_text fo0 s ;;
  match st_dicts st with
  | [fd] => '(m1, fg1) <- resolve_disconnected fd (next_meta (st_mol st)) ;;
            '(m2, _) <- bonding_step true true (next_meta (st_mol st)) m1 fg1 ;; Ok m2
  | _ => Err EValue
  end.
Example ea_run :
  exists m2, run_string ea_string = Ok m2 /\ skeletonb ea_cut true m2 = true /\
    node_keys m2 = [0; 1; 2; 3; 4; 5] /\
    map (fun k => node_get m2 k (S "element")) [0; 1; 2; 3; 4; 5]
      = map (fun e => Some (VStr (S e))) ["O"; "C"; "C"; "O"; "C"; "C"]%string /\
    map (fun e => (fst (fst e), snd (fst e), aget (S "order") (snd e))) (edges_data m2)
      = [(0, 1, Some (VInt 2)); (1, 2, Some (VInt 1)); (1, 3, Some (VInt 1)); (3, 4, Some (VInt 1)); (4, 5, Some (VInt 1))].
Proof. eexists. split; [vm_compute; reflexivity|]. repeat split; vm_compute; reflexivity. Qed.
