(** CutSpecCheck: executable tests of the specifications of CutModel ([wf_cut], [is_template], [is_base]) and
    their soundness, so that the hypotheses of the composition theorems can be discharged by computation on
    concrete cuts (non-vacuity examples; the canonical graphs [template_of] / [base_of]). *)
From Coq Require Import String.
From Coq Require Import List Ascii ZArith Bool Lia Permutation.
From CGV Require Import Base.PyBase Base.PyVal Base.NxGraph Resolve.Bonding Resolve.BondingDefs Resolve.BondingCheck
     Resolve.CutCheck Resolve.CutBonding Resolve.GraphOps.
From CGV Require Import Compose.PyEq Compose.CutModel Compose.CutPos.
From CGV Require Export Compose.CutSpecDefs.
Import ListNotations.
Open Scope Z_scope.

Lemma oeqb_sound a b : oeqb a b = true -> a = b.
Proof. destruct a, b; cbn; try discriminate; [intros H; f_equal; now apply pyval_eqb_sound|reflexivity]. Qed.
Lemma zlist_eqb_sound a : forall b, zlist_eqb a b = true -> a = b.
Proof.
  induction a as [|x a IH]; intros [|y b]; cbn; try discriminate; [reflexivity|]. intros H. apply andb_true_iff in H as [H1 H2].
  apply Z.eqb_eq in H1. f_equal; auto.
Qed.
Lemma nodupzb_sound l : nodupzb l = true -> NoDup l.
Proof.
  induction l as [|x r IH]; cbn; [constructor|]. intros H. apply andb_true_iff in H as [H1 H2]. constructor; [|auto].
  apply negb_true_iff in H1. now apply zmem_false.
Qed.
Lemma aget_in k a v : aget k a = Some v -> In (k, v) a.
Proof.
  induction a as [|[k' v'] r IH]; cbn; [discriminate|]. destruct (str_eqb_spec k k') as [->|N]; [intros H; inversion H; now left|right; auto].
Qed.
Lemma unordered_nodupb_sound l : pairwise_b pair_distinctb l = true -> unordered_nodup l.
Proof.
  unfold unordered_nodup. induction l as [|e r IH]; cbn; [constructor|]. intros H. apply andb_true_iff in H as [H1 H2].
  constructor; [|auto]. rewrite forallb_forall in H1. rewrite Forall_forall. intros e' He' X. specialize (H1 e' He').
  unfold pair_distinctb in H1. apply negb_true_iff in H1. destruct X as [[A B]|[A B]]; rewrite A, B, !Z.eqb_refl in H1; cbn in H1;
    [discriminate|rewrite orb_true_r in H1; discriminate].
Qed.

(** ---------------------------------------------------------------- wf_cut *)
Lemma cbond_eqb_sound b b' : cbond_eqb b b' = true -> b = b'.
Proof.
  unfold cbond_eqb. intros H. repeat (apply andb_true_iff in H as [H ?]).
  destruct b, b'; cbn in *. apply Z.eqb_eq in H. apply Z.eqb_eq in H3. apply pyval_eqb_sound in H2. apply str_eqb_eq in H1. apply Bool.eqb_prop in H0. now subst.
Qed.
Lemma remove_first_perm x : forall b b', remove_first str_eqb x b = Some b' -> Permutation b (x :: b').
Proof.
  induction b as [|y r IH]; cbn; intros b' H; [discriminate|]. destruct (str_eqb_spec x y) as [->|N]; [inversion H; reflexivity|].
  destruct (remove_first str_eqb x r) as [r'|]; [|discriminate]. inversion H; subst. rewrite (IH r' eq_refl). apply perm_swap.
Qed.
Lemma str_perm_b_sound a : forall b, str_perm_b a b = true -> Permutation a b.
Proof.
  induction a as [|x r IH]; intros b H; cbn in H; [destruct b; [constructor|discriminate]|].
  destruct (remove_first str_eqb x b) as [b'|] eqn:E; [|discriminate]. rewrite (remove_first_perm _ _ _ E). constructor. now apply IH.
Qed.
Theorem wf_cutb_sound C : wf_cutb C = true -> wf_cut C.
Proof.
  unfold wf_cutb. intros H.
  apply andb_true_iff in H as [H Hdord]. apply andb_true_iff in H as [H Hdig]. apply andb_true_iff in H as [H Hlab].
  apply andb_true_iff in H as [H Hsimple]. apply andb_true_iff in H as [H Hends]. apply andb_true_iff in H as [H Hat2]. apply andb_true_iff in H as [Hnd Hat1].
  rewrite forallb_forall in Hdord, Hdig, Hends, Hat1, Hat2.
  constructor.
  - now apply nodupzb_sound.
  - intros x. split; intros Hx; apply zmem_In; auto.
  - intros b Hb. specialize (Hends b Hb). apply andb_true_iff in Hends as [H3 N]. apply andb_true_iff in H3 as [A B'].
    apply zmem_In in A. apply zmem_In in B'. apply negb_true_iff in N. apply Z.eqb_neq in N. auto.
  - clear - Hsimple. induction (c_bonds C) as [|b r IH]; cbn in Hsimple; [constructor|]. apply andb_true_iff in Hsimple as [A B']. constructor; [|auto].
    rewrite forallb_forall in A. rewrite Forall_forall. intros b' Hb' S. specialize (A b' Hb'). apply negb_true_iff in A. unfold same_endsb in A.
    destruct S as [[E1 E2]|[E1 E2]]; rewrite E1, E2, !Z.eqb_refl in A; cbn in A; [discriminate|rewrite orb_true_r in A; discriminate].
  - now apply nodup_strs_sound.
  - intros b Hb. specialize (Hdig b Hb). destruct (digit_of (cb_ord b)); [discriminate|discriminate].
  - intros kv Hkv. apply str_perm_b_sound. now apply Hdord.
Qed.

(** ---------------------------------------------------------------- is_template *)
Lemma tattrs_okb_sound C name x a : tattrs_okb C name x a = true -> tattrs_ok C name x a.
Proof.
  unfold tattrs_okb. intros H. repeat (apply andb_true_iff in H as [H ?]). constructor; try (now apply oeqb_sound).
  intros key v Hv Hr. rewrite forallb_forall in H0. specialize (H0 _ (aget_in _ _ _ Hv)). cbn [fst] in H0.
  apply orb_true_iff in H0 as [R|E]; [exfalso; apply Hr; now apply str_in_In|]. apply oeqb_sound in E. congruence.
Qed.

Lemma combine_seq_nth {A} (l : list A) : forall k i x, nth_error l i = Some x -> In ((k + i)%nat, x) (combine (seq k (length l)) l).
Proof.
  induction l as [|y r IH]; intros k [|i] x H; cbn in *; try discriminate.
  - inversion H; subst. left. f_equal. lia.
  - right. replace (k + Datatypes.S i)%nat with (Datatypes.S k + i)%nat by lia. now apply IH.
Qed.

Theorem is_templateb_sound C name xs T : is_templateb C name xs T = true -> is_template C name xs T.
Proof.
  unfold is_templateb. intros H. repeat (apply andb_true_iff in H as [H ?]). rewrite forallb_forall in *. constructor.
  - now apply zlist_eqb_sound.
  - intros i x Hi. specialize (H3 _ (combine_seq_nth xs 0 i x Hi)). cbn [fst snd Nat.add] in H3.
    destruct (node_attrs T (Z.of_nat i)) as [a|]; [|discriminate]. exists a. split; [reflexivity|now apply tattrs_okb_sound].
  - intros i j d Hin. specialize (H2 _ Hin). cbn in H2. apply andb_true_iff in H2 as [H2 H2']. apply andb_true_iff in H2 as [Pi Pj].
    apply Z.leb_le in Pi. apply Z.leb_le in Pj.
    destruct (nth_error xs (Z.to_nat i)) as [x|] eqn:Ex; [|discriminate]. destruct (nth_error xs (Z.to_nat j)) as [y|] eqn:Ey; [|discriminate].
    destruct (find_bond C x y) as [b|] eqn:Eb; [|discriminate]. apply find_some in Eb as [Hb J].
    apply andb_true_iff in H2' as [H2' Nd]. apply andb_true_iff in H2' as [O Bd].
    exists (Z.to_nat i), (Z.to_nat j), x, y, b. rewrite !Z2Nat.id by assumption.
    repeat split; auto; [now apply oeqb_sound|now apply oeqb_sound|now apply nodup_strs_sound].
  - now apply unordered_nodupb_sound.
  - intros b ni nj Hb Hu Hv.
    assert (ni < length xs)%nat as Li by (apply nth_error_Some; congruence). assert (nj < length xs)%nat as Lj by (apply nth_error_Some; congruence).
    specialize (H0 ni). rewrite forallb_forall in H0. specialize (H0 ltac:(apply in_seq; lia) nj ltac:(apply in_seq; lia)).
    rewrite Hu, Hv in H0. rewrite forallb_forall in H0. specialize (H0 b Hb). rewrite !Z.eqb_refl in H0. cbn in H0.
    apply existsb_exists in H0 as ([a c] & Hin & E). cbn [fst snd] in E.
    apply orb_true_iff in E as [E|E]; apply andb_true_iff in E as [E1 E2]; apply Z.eqb_eq in E1; apply Z.eqb_eq in E2; subst; auto.
Qed.

(** ---------------------------------------------------------------- is_base *)
Theorem is_baseb_sound C B : is_baseb C B = true -> is_base C B.
Proof.
  unfold is_baseb. intros H. repeat (apply andb_true_iff in H as [H ?]). rewrite forallb_forall in *. constructor.
  - now apply zlist_eqb_sound.
  - intros p name xs Hp. specialize (H3 _ (combine_seq_nth (c_parts C) 0 p (name, xs) Hp)). cbn [fst snd Nat.add] in H3.
    destruct (node_attrs B (Z.of_nat p)) as [a|]; [|discriminate]. exists a. split; [reflexivity|now apply oeqb_sound].
  - intros a b d Hin. specialize (H2 _ Hin). cbn in H2. repeat (apply andb_true_iff in H2 as [H2 ?]).
    apply Z.leb_le in H2. apply Z.leb_le in H8. apply negb_true_iff in H7. apply Z.eqb_neq in H7. apply Z.ltb_lt in H6. apply Z.ltb_lt in H5.
    exists (Z.to_nat a), (Z.to_nat b). rewrite !Z2Nat.id by assumption. repeat split; auto; try lia. now apply oeqb_sound.
  - now apply unordered_nodupb_sound.
  - intros b Hb. specialize (H0 b Hb). apply existsb_exists in H0 as ([a c] & Hin & E). cbn [fst snd] in E.
    apply orb_true_iff in E as [E|E]; apply andb_true_iff in E as [E1 E2]; apply Z.eqb_eq in E1; apply Z.eqb_eq in E2; subst; auto.
Qed.

Theorem templates_okb_sound C fd : templates_okb C fd = true -> templates_ok C fd.
Proof.
  unfold templates_okb, templates_ok. rewrite forallb_forall. intros H name xs Hin. specialize (H _ Hin). cbn [fst snd] in H.
  destruct (fd_get name fd) as [T|]; [|discriminate]. exists T. split; [reflexivity|now apply is_templateb_sound].
Qed.
