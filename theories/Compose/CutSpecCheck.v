(** CutSpecCheck: executable tests of the specifications of CutModel ([wf_cut], [is_template], [is_base]) and
    their soundness, so that the hypotheses of the composition theorems can be discharged by computation on
    concrete cuts (non-vacuity examples; the canonical graphs [template_of] / [base_of]). *)
From Coq Require Import String.
From Coq Require Import List Ascii ZArith Bool Lia.
From CGV Require Import Base.PyBase Base.PyVal Base.NxGraph Resolve.Bonding Resolve.BondingDefs Resolve.BondingCheck
     Resolve.CutCheck Resolve.CutBonding Resolve.GraphOps.
From CGV Require Import Compose.PyEq Compose.CutModel Compose.CutPos.
Import ListNotations.
Open Scope Z_scope.

Definition oeqb (a b : option pyval) : bool :=
  match a, b with Some x, Some y => pyval_eqb x y | None, None => true | _, _ => false end.
Lemma oeqb_sound a b : oeqb a b = true -> a = b.
Proof. destruct a, b; cbn; try discriminate; [intros H; f_equal; now apply pyval_eqb_sound|reflexivity]. Qed.
Fixpoint zlist_eqb (a b : list Z) : bool :=
  match a, b with [], [] => true | x :: a', y :: b' => Z.eqb x y && zlist_eqb a' b' | _, _ => false end.
Lemma zlist_eqb_sound a : forall b, zlist_eqb a b = true -> a = b.
Proof.
  induction a as [|x a IH]; intros [|y b]; cbn; try discriminate; [reflexivity|]. intros H. apply andb_true_iff in H as [H1 H2].
  apply Z.eqb_eq in H1. f_equal; auto.
Qed.
Lemma nodupzb_sound l : nodupzb l = true -> NoDup l.
Proof.
  induction l as [|x r IH]; cbn; [constructor|]. intros H. apply andb_true_iff in H as [H1 H2]. constructor; [|auto].
  apply negb_true_iff in H1. now apply zmem_false.
Qed.
Lemma aget_in k a v : aget k a = Some v -> In (k, v) a.
Proof.
  induction a as [|[k' v'] r IH]; cbn; [discriminate|]. destruct (str_eqb_spec k k') as [->|N]; [intros H; inversion H; now left|right; auto].
Qed.
Definition pair_distinctb (e e' : Z * Z) : bool :=
  negb ((Z.eqb (fst e) (fst e') && Z.eqb (snd e) (snd e')) || (Z.eqb (fst e) (snd e') && Z.eqb (snd e) (fst e'))).
Lemma unordered_nodupb_sound l : pairwise_b pair_distinctb l = true -> unordered_nodup l.
Proof.
  unfold unordered_nodup. induction l as [|e r IH]; cbn; [constructor|]. intros H. apply andb_true_iff in H as [H1 H2].
  constructor; [|auto]. rewrite forallb_forall in H1. rewrite Forall_forall. intros e' He' X. specialize (H1 e' He').
  unfold pair_distinctb in H1. apply negb_true_iff in H1. destruct X as [[A B]|[A B]]; rewrite A, B, !Z.eqb_refl in H1; cbn in H1;
    [discriminate|rewrite orb_true_r in H1; discriminate].
Qed.

(** ---------------------------------------------------------------- wf_cut *)
Lemma cbond_eqb_sound b b' : cbond_eqb b b' = true -> b = b'.
Proof.
  unfold cbond_eqb. intros H. repeat (apply andb_true_iff in H as [H ?]).
  destruct b, b'; cbn in *. apply Z.eqb_eq in H. apply Z.eqb_eq in H3. apply pyval_eqb_sound in H2. apply str_eqb_eq in H1. apply Bool.eqb_prop in H0. now subst.
Qed.
Theorem wf_cutb_sound C : wf_cutb C = true -> wf_cut C.
Proof.
  unfold wf_cutb. intros H. repeat (apply andb_true_iff in H as [H ?]). rewrite forallb_forall in *.
  constructor.
  - now apply nodupzb_sound.
  - intros x. split; intros Hx; apply zmem_In; auto.
  - intros b Hb. specialize (H3 b Hb). apply andb_true_iff in H3 as [H3 N]. apply andb_true_iff in H3 as [A B'].
    apply zmem_In in A. apply zmem_In in B'. apply negb_true_iff in N. apply Z.eqb_neq in N. auto.
  - clear - H2. induction (c_bonds C) as [|b r IH]; cbn in H2; [constructor|]. apply andb_true_iff in H2 as [A B']. constructor; [|auto].
    rewrite forallb_forall in A. rewrite Forall_forall. intros b' Hb' S. specialize (A b' Hb'). apply negb_true_iff in A. unfold same_endsb in A.
    destruct S as [[E1 E2]|[E1 E2]]; rewrite E1, E2, !Z.eqb_refl in A; cbn in A; [discriminate|rewrite orb_true_r in A; discriminate].
  - now apply nodup_strs_sound.
  - intros b Hb. specialize (H0 b Hb). destruct (digit_of (cb_ord b)); [discriminate|discriminate].
Qed.

(** ---------------------------------------------------------------- is_template *)
Definition tattrs_okb (C : cut) (name : pystr) (x : Z) (a : attrs) : bool :=
  oeqb (aget (S "fragid") a) (Some (VInt 0)) && oeqb (aget (S "fragname") a) (Some (VStr name))
  && oeqb (aget (S "bonding") a) (bonding_val (descs C x)) && oeqb (aget (S "ez_isomer_atoms") a) None
  && oeqb (aget (S "aromatic") a) (aget (S "aromatic") (payload C x)) && oeqb (aget (S "rs_isomer") a) None
  && forallb (fun kv => str_in (fst kv) reserved || oeqb (aget (fst kv) a) (aget (fst kv) (payload C x))) (payload C x).
Lemma tattrs_okb_sound C name x a : tattrs_okb C name x a = true -> tattrs_ok C name x a.
Proof.
  unfold tattrs_okb. intros H. repeat (apply andb_true_iff in H as [H ?]). constructor; try (now apply oeqb_sound).
  intros key v Hv Hr. rewrite forallb_forall in H0. specialize (H0 _ (aget_in _ _ _ Hv)). cbn [fst] in H0.
  apply orb_true_iff in H0 as [R|E]; [exfalso; apply Hr; now apply str_in_In|]. apply oeqb_sound in E. congruence.
Qed.

Definition edge_okb (C : cut) (xs : list Z) (e : Z * Z * attrs) : bool :=
  let '(i, j, d) := e in
  (0 <=? i) && (0 <=? j) &&
  match nth_error xs (Z.to_nat i), nth_error xs (Z.to_nat j) with
  | Some x, Some y =>
      match find_bond C x y with
      | Some b => oeqb (aget (S "order") d) (Some (cb_ord b)) && oeqb (aget (S "bonding") d) None && nodup_strs (map fst d)
      | None => false
      end
  | _, _ => false
  end.
Definition is_templateb (C : cut) (name : pystr) (xs : list Z) (T : graph) : bool :=
  zlist_eqb (node_keys T) (map Z.of_nat (seq 0 (length xs)))
  && forallb (fun ix => match node_attrs T (Z.of_nat (fst ix)) with Ok a => tattrs_okb C name (snd ix) a | Err _ => false end)
             (combine (seq 0 (length xs)) xs)
  && forallb (edge_okb C xs) (edges_data T)
  && pairwise_b pair_distinctb (edges_list T)
  && forallb (fun ni => forallb (fun nj =>
       match nth_error xs ni, nth_error xs nj with
       | Some x, Some y =>
           forallb (fun b => negb (Z.eqb (cb_u b) x && Z.eqb (cb_v b) y)
                             || existsb (fun e => (Z.eqb (fst e) (Z.of_nat ni) && Z.eqb (snd e) (Z.of_nat nj))
                                                  || (Z.eqb (fst e) (Z.of_nat nj) && Z.eqb (snd e) (Z.of_nat ni))) (edges_list T)) (c_bonds C)
       | _, _ => true
       end) (seq 0 (length xs))) (seq 0 (length xs)).

Lemma combine_seq_nth {A} (l : list A) : forall k i x, nth_error l i = Some x -> In ((k + i)%nat, x) (combine (seq k (length l)) l).
Proof.
  induction l as [|y r IH]; intros k [|i] x H; cbn in *; try discriminate.
  - inversion H; subst. left. f_equal. lia.
  - right. replace (k + Datatypes.S i)%nat with (Datatypes.S k + i)%nat by lia. now apply IH.
Qed.

Theorem is_templateb_sound C name xs T : is_templateb C name xs T = true -> is_template C name xs T.
Proof.
  unfold is_templateb. intros H. repeat (apply andb_true_iff in H as [H ?]). rewrite forallb_forall in *. constructor.
  - now apply zlist_eqb_sound.
  - intros i x Hi. specialize (H3 _ (combine_seq_nth xs 0 i x Hi)). cbn [fst snd Nat.add] in H3.
    destruct (node_attrs T (Z.of_nat i)) as [a|]; [|discriminate]. exists a. split; [reflexivity|now apply tattrs_okb_sound].
  - intros i j d Hin. specialize (H2 _ Hin). cbn in H2. apply andb_true_iff in H2 as [H2 H2']. apply andb_true_iff in H2 as [Pi Pj].
    apply Z.leb_le in Pi. apply Z.leb_le in Pj.
    destruct (nth_error xs (Z.to_nat i)) as [x|] eqn:Ex; [|discriminate]. destruct (nth_error xs (Z.to_nat j)) as [y|] eqn:Ey; [|discriminate].
    destruct (find_bond C x y) as [b|] eqn:Eb; [|discriminate]. apply find_some in Eb as [Hb J].
    apply andb_true_iff in H2' as [H2' Nd]. apply andb_true_iff in H2' as [O Bd].
    exists (Z.to_nat i), (Z.to_nat j), x, y, b. rewrite !Z2Nat.id by assumption.
    repeat split; auto; [now apply oeqb_sound|now apply oeqb_sound|now apply nodup_strs_sound].
  - now apply unordered_nodupb_sound.
  - intros b ni nj Hb Hu Hv.
    assert (ni < length xs)%nat as Li by (apply nth_error_Some; congruence). assert (nj < length xs)%nat as Lj by (apply nth_error_Some; congruence).
    specialize (H0 ni). rewrite forallb_forall in H0. specialize (H0 ltac:(apply in_seq; lia) nj ltac:(apply in_seq; lia)).
    rewrite Hu, Hv in H0. rewrite forallb_forall in H0. specialize (H0 b Hb). rewrite !Z.eqb_refl in H0. cbn in H0.
    apply existsb_exists in H0 as ([a c] & Hin & E). cbn [fst snd] in E.
    apply orb_true_iff in E as [E|E]; apply andb_true_iff in E as [E1 E2]; apply Z.eqb_eq in E1; apply Z.eqb_eq in E2; subst; auto.
Qed.

(** ---------------------------------------------------------------- is_base *)
Definition is_baseb (C : cut) (B : graph) : bool :=
  let P := length (c_parts C) in
  zlist_eqb (node_keys B) (map Z.of_nat (seq 0 P))
  && forallb (fun ip => match node_attrs B (Z.of_nat (fst ip)) with
                        | Ok a => oeqb (aget (S "fragname") a) (Some (VStr (fst (snd ip))))
                        | Err _ => false end) (combine (seq 0 P) (c_parts C))
  && forallb (fun e => let '(a, b, d) := e in
                (0 <=? a) && (0 <=? b) && negb (Z.eqb a b) && (a <? Z.of_nat P) && (b <? Z.of_nat P)
                && oeqb (aget (S "order") d) (Some (VInt (Z.of_nat (length (cutpairs C (Z.to_nat a) (Z.to_nat b))))))) (edges_data B)
  && pairwise_b pair_distinctb (edges_list B)
  && forallb (fun b => existsb (fun e => (Z.eqb (fst e) (Z.of_nat (owner C (cb_u b))) && Z.eqb (snd e) (Z.of_nat (owner C (cb_v b))))
                                         || (Z.eqb (fst e) (Z.of_nat (owner C (cb_v b))) && Z.eqb (snd e) (Z.of_nat (owner C (cb_u b)))))
                               (edges_list B)) (cuts C).

Theorem is_baseb_sound C B : is_baseb C B = true -> is_base C B.
Proof.
  unfold is_baseb. intros H. repeat (apply andb_true_iff in H as [H ?]). rewrite forallb_forall in *. constructor.
  - now apply zlist_eqb_sound.
  - intros p name xs Hp. specialize (H3 _ (combine_seq_nth (c_parts C) 0 p (name, xs) Hp)). cbn [fst snd Nat.add] in H3.
    destruct (node_attrs B (Z.of_nat p)) as [a|]; [|discriminate]. exists a. split; [reflexivity|now apply oeqb_sound].
  - intros a b d Hin. specialize (H2 _ Hin). cbn in H2. repeat (apply andb_true_iff in H2 as [H2 ?]).
    apply Z.leb_le in H2. apply Z.leb_le in H8. apply negb_true_iff in H7. apply Z.eqb_neq in H7. apply Z.ltb_lt in H6. apply Z.ltb_lt in H5.
    exists (Z.to_nat a), (Z.to_nat b). rewrite !Z2Nat.id by assumption. repeat split; auto; try lia. now apply oeqb_sound.
  - now apply unordered_nodupb_sound.
  - intros b Hb. specialize (H0 b Hb). apply existsb_exists in H0 as ([a c] & Hin & E). cbn [fst snd] in E.
    apply orb_true_iff in E as [E|E]; apply andb_true_iff in E as [E1 E2]; apply Z.eqb_eq in E1; apply Z.eqb_eq in E2; subst; auto.
Qed.

Definition templates_okb (C : cut) (fd : fragdict) : bool :=
  forallb (fun p => match fd_get (fst p) fd with Some T => is_templateb C (fst p) (snd p) T | None => false end) (c_parts C).
Theorem templates_okb_sound C fd : templates_okb C fd = true -> templates_ok C fd.
Proof.
  unfold templates_okb, templates_ok. rewrite forallb_forall. intros H name xs Hin. specialize (H _ Hin). cbn [fst snd] in H.
  destruct (fd_get name fd) as [T|]; [|discriminate]. exists T. split; [reflexivity|now apply is_templateb_sound].
Qed.
