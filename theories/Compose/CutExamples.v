(** CutExamples: non-vacuity of [cut_bonding_skeleton].  A six-atom molecule (three-membered ring 10-11-12, exocyclic
    double bond 12=13, 13-O14, 10-N15) cut into three parts A=[11,10,15], B=[12], D=[13,14]: two cut bonds open the
    ring (two descriptors between A and B, `$a` and `>b`/`<b`), one cut bond is the double bond (`$c`, digit 2).
    The hypotheses of the theorem hold for the canonical graphs (decided by the sound executable tests), and the
    theorem's conclusion is instantiated. *)
From Coq Require Import String.
From Coq Require Import List Ascii ZArith Bool Lia.
From CGV Require Import Base.PyBase Base.PyVal Base.NxGraph Resolve.Bonding Resolve.GraphOps.
From CGV Require Import Compose.CutModel Compose.CutPos Compose.CutSpecCheck Compose.CutSkeleton.
Import ListNotations.
Open Scope Z_scope.

Definition atom (e : string) (h : Z) : attrs :=
  [(S "element", VStr (S e)); (S "charge", VInt 0); (S "aromatic", VBool false); (S "hcount", VInt h)].
Definition exC : cut := {|
  c_atoms := [(10, atom "C" 1); (11, atom "C" 2); (12, atom "C" 0); (13, atom "C" 1); (14, atom "O" 1); (15, atom "N" 2)];
  c_bonds := [ {| cb_u := 10; cb_v := 11; cb_ord := VInt 1; cb_lab := []; cb_dollar := true |};
               {| cb_u := 11; cb_v := 12; cb_ord := VInt 1; cb_lab := S "a"; cb_dollar := true |};
               {| cb_u := 12; cb_v := 10; cb_ord := VInt 1; cb_lab := S "b"; cb_dollar := false |};
               {| cb_u := 12; cb_v := 13; cb_ord := VInt 2; cb_lab := S "c"; cb_dollar := true |};
               {| cb_u := 13; cb_v := 14; cb_ord := VInt 1; cb_lab := []; cb_dollar := true |};
               {| cb_u := 10; cb_v := 15; cb_ord := VInt 1; cb_lab := []; cb_dollar := true |} ];
  c_parts := [(S "A", [11; 10; 15]); (S "B", [12]); (S "D", [13; 14])]; c_dord := [] |}.

Example exC_hypotheses :
  wf_cutb exC = true /\ templates_okb exC (fragdict_of exC) = true /\ is_baseb exC (base_of exC) = true.
Proof. vm_compute. auto. Qed.

(** the descriptor tables the theorem computes with *)
Example exC_tables :
  tables exC = [(0, [(0, [S "$a1"]); (1, [S "<b1"])]); (1, [(3, [S "$a1"; S ">b1"; S "$c2"])]); (2, [(4, [S "$c2"])])].
Proof. vm_compute. reflexivity. Qed.

Example cut_bonding_skeleton_nonvacuous : forall aa : bool,
  exists m1 fg1 m2 fg2,
    resolve_disconnected (fragdict_of exC) (base_of exC) = Ok (m1, fg1) /\
    bonding_step true aa (base_of exC) m1 fg1 = Ok (m2, fg2) /\
    node_keys m2 = [0; 1; 2; 3; 4; 5] /\
    (* atom 12 is fine node 3, atom 13 fine node 4: the cut double bond is back with order 2 *)
    edge_get m2 3 4 (S "order") = Some (VInt 2) /\
    (* the two ring-opening cuts 11-12 and 12-10 *)
    edge_get m2 0 3 (S "order") = Some (VInt 1) /\ edge_get m2 3 1 (S "order") = Some (VInt 1) /\
    (* internal bonds 10-11, 10-15, 13-14 *)
    has_edge m2 1 0 = true /\ has_edge m2 1 2 = true /\ has_edge m2 4 5 = true /\
    (* nothing else, e.g. 11-13, 15-12 *)
    has_edge m2 0 4 = false /\ has_edge m2 2 3 = false /\
    node_get m2 5 (S "element") = Some (VStr (S "O")) /\ node_get m2 2 (S "fragid") = Some (VList [VInt 0]).
Proof.
  intros aa. destruct exC_hypotheses as (H1 & H2 & H3).
  destruct (cut_bonding_skeleton exC (wf_cutb_sound _ H1) (fragdict_of exC) (templates_okb_sound _ _ H2) (base_of exC) (is_baseb_sound _ _ H3) aa)
    as (m1 & fg1 & m2 & fg2 & E1 & E2 & [K A E _ _]).
  { intros _ x Hx. cbn in Hx. repeat destruct Hx as [<-|Hx]; try contradiction; split; eexists; vm_compute; reflexivity. }
  exists m1, fg1, m2, fg2. split; [exact E1|]. split; [exact E2|]. split; [exact K|].
  assert (forall x, In x (flat exC) -> In x [11; 10; 15; 12; 13; 14]) as Hf by (intros x Hx; exact Hx).
  assert (P : phi exC 11 = 0 /\ phi exC 10 = 1 /\ phi exC 15 = 2 /\ phi exC 12 = 3 /\ phi exC 13 = 4 /\ phi exC 14 = 5) by (vm_compute; auto 10).
  destruct P as (P11 & P10 & P15 & P12 & P13 & P14).
  assert (I : forall x, In x [11; 10; 15; 12; 13; 14] -> In x (flat exC)) by (intros x Hx; exact Hx).
  pose proof (E 12 13 ltac:(apply I; cbn; tauto) ltac:(apply I; cbn; tauto)) as (_ & O1 & _).
  pose proof (E 11 12 ltac:(apply I; cbn; tauto) ltac:(apply I; cbn; tauto)) as (_ & O2 & _).
  pose proof (E 12 10 ltac:(apply I; cbn; tauto) ltac:(apply I; cbn; tauto)) as (_ & O3 & _).
  pose proof (E 10 11 ltac:(apply I; cbn; tauto) ltac:(apply I; cbn; tauto)) as (B1 & _).
  pose proof (E 10 15 ltac:(apply I; cbn; tauto) ltac:(apply I; cbn; tauto)) as (B2 & _).
  pose proof (E 13 14 ltac:(apply I; cbn; tauto) ltac:(apply I; cbn; tauto)) as (B3 & _).
  pose proof (E 11 13 ltac:(apply I; cbn; tauto) ltac:(apply I; cbn; tauto)) as (B4 & _).
  pose proof (E 15 12 ltac:(apply I; cbn; tauto) ltac:(apply I; cbn; tauto)) as (B5 & _).
  rewrite ?P10, ?P11, ?P12, ?P13, ?P14, ?P15 in *.
  destruct (A 14 ltac:(apply I; cbn; tauto)) as (_ & _ & _ & A14). destruct (A 15 ltac:(apply I; cbn; tauto)) as (F15 & _).
  rewrite ?P14, ?P15 in *.
  repeat split; try assumption.
  - apply (A14 (S "element") (VStr (S "O"))); [reflexivity| |intros _ X; apply str_eqb_eq in X; vm_compute in X; discriminate].
    unfold reserved. cbn [In]. intros X. repeat destruct X as [X|X]; try (apply str_eqb_eq in X; vm_compute in X; discriminate); exact X.
Qed.

(** a cut aromatic bond: written with digit 1, re-created with order 1.5, which is M's order *)
Definition aratom : attrs := [(S "element", VStr (S "C")); (S "charge", VInt 0); (S "aromatic", VBool true); (S "hcount", VInt 1)].
Definition exAr : cut := {|
  c_atoms := [(0, aratom); (1, aratom)];
  c_bonds := [ {| cb_u := 0; cb_v := 1; cb_ord := VFlt (S "1.5"); cb_lab := S "r"; cb_dollar := false |} ];
  c_parts := [(S "X", [0]); (S "Y", [1])]; c_dord := [] |}.
Example aromatic_cut_nonvacuous :
  wf_cutb exAr = true /\ templates_okb exAr (fragdict_of exAr) = true /\ is_baseb exAr (base_of exAr) = true /\
  result_order exAr 0 1 = Some (VFlt (S "1.5")) /\ forallb (cut_faithful exAr) (cuts exAr) = true /\
  forallb (cut_faithful exC) (cuts exC) = true.
Proof. vm_compute. auto 10. Qed.

(** ---------------------------------------------------------------- the hydrogen completion of the example (CutHydrogens) *)
From CGV Require Hydro.Hydrogens Hydro.Squash Hydro.SquashDefs.
From CGV Require Import Compose.CutHydrogens.

Definition exC_run : option (graph * graph * graph) :=
  match resolve_disconnected (fragdict_of exC) (base_of exC) with
  | Ok (m1, fg1) =>
      match bonding_step true true (base_of exC) m1 fg1 with
      | Ok (m2, _) =>
          match Squash.squash_atoms m2 with
          | Ok m3 => match Hydrogens.rebuild_h_atoms_default m3 (Some m3) with
                     | Ok g4 => match sort_nodes_by_attr g4 with Ok g5 => Some (m3, g4, g5) | Err _ => None end
                     | Err _ => None end
          | Err _ => None end
      | Err _ => None end
  | Err _ => None end.

(** the hypotheses of [cut_hydrogens] / [cut_sorted] hold on the example, the run returns, and the atoms receive
    2, 1, 2, 0, 1, 1 hydrogens (C11, C10, N15, C12, C13, O14): thirteen nodes, the skeleton edges unchanged *)
Example cut_hydrogens_nonvacuous :
  (forall x, In x (flat exC) ->
     (exists e, aget (S "element") (payload exC x) = Some e) /\ (exists q, aget (S "charge") (payload exC x) = Some q) /\
     (exists h, aget (S "hcount") (payload exC x) = Some (VInt h)) /\ Hydrogens.is_H (payload exC x) = false) /\
  (forall b, In b (c_bonds exC) -> numeric (cb_ord b)) /\
  match exC_run with
  | Some (m3, g4, g5) =>
      length m3 = 6%nat /\ length g4 = 13%nat /\
      map (fun k => length (neighbors g4 k)) [0; 1; 2; 3; 4; 5] = [4; 4; 3; 3; 3; 2]%nat /\
      map (bond_sum exC) [11; 10; 15; 12; 13; 14] = [4; 6; 2; 8; 6; 2] /\
      SquashDefs.wf_graphb g4 = true /\ map fst (get_node_attributes g4 (S "fragid")) = node_keys g4 /\
      length g5 = 13%nat
  | None => False
  end.
Proof.
  split; [|split].
  - intros x Hx. cbn in Hx. repeat destruct Hx as [<-|Hx]; try contradiction; repeat split; try (eexists; vm_compute; reflexivity); vm_compute; reflexivity.
  - intros b Hb. cbn in Hb. repeat destruct Hb as [<-|Hb]; try contradiction; eexists; vm_compute; reflexivity.
  - vm_compute. repeat split; reflexivity.
Qed.
