(** CompletionCar: Completion.v for an arbitrary aromaticity transcript.  g1 is any [askel] of the cut (the skeleton itself,
    or what correct_aromatic_rings left of it: [Transcript.askel_of_transcript]); g4 = everything rebuild_h_atoms does after
    the aromaticity step, on g1.  The bonds of an atom keep the orders the TRANSCRIPT gives them; the number of hydrogens is
    max(0, missing_of valence b) for the transcript's bond sum b. *)
From Coq Require Import String.
From Coq Require Import List Ascii ZArith Bool Lia Permutation.
From CGV Require Import Base.PyBase Base.PyVal Base.NxGraph Gen.HydroGen Resolve.Bonding Resolve.GraphOps Resolve.MapProofs Resolve.CopyProofs
     Hydro.GraphLemmas Hydro.SquashDefs Hydro.HydroDefs.
From CGV Require Hydro.Hydrogens Hydro.RebuildProofs.
From CGV Require Import Compose.GraphFacts Compose.GraphAdj Compose.CutModel Compose.CutPos Compose.CutTables Compose.CutDisc
     Compose.CutSkeleton Compose.CutWf Compose.CutHydrogens Compose.RebuildWf Compose.CutSorted Compose.SortIdentity Compose.Completion Compose.Transcript.
Import ListNotations.
Open Scope Z_scope.

Definition heavy_atoms (C : cut) : Prop := forall x, In x (flat C) ->
  (exists e, aget (S "element") (payload C x) = Some e) /\ (exists q, aget (S "charge") (payload C x) = Some q) /\
  Hydrogens.is_H (payload C x) = false.

Section CompletionCar.
  Variable C : cut.
  Hypothesis W : wf_cut C.
  Hypothesis Hatoms : heavy_atoms C.
  Variable g1 : graph.
  Hypothesis Ak : askel C g1.
  Variable g4 : graph.
  Hypothesis Hr : Hydrogens.rebuild_after_car false rebuild_copy_attrs_default g1 = Ok g4.
  Let Wf := askel_wf C W g1 Ak.
  Let ca := rebuild_copy_attrs_default.

  Lemma car_no_rs : all_no_rs g1.
  Proof.
    intros i n G. assert (has_node g1 i = true) as Hi by (unfold has_node; now rewrite G).
    destruct (ak_onto C W g1 Ak i Hi) as (x & Fx & <-). unfold RebuildProofs.no_rs. pose proof (ak_rs _ _ Ak x Fx) as R. unfold node_get in R. now rewrite G in R.
  Qed.
  Let Wf4 : wf_graph g4 := rebuild_wf ca g1 g4 Wf car_no_rs Hr.

  Lemma car_heavy_attrs x n : In x (flat C) -> gfind (phi C x) g1 = Some n ->
    Hydrogens.is_H (na n) = false /\ Hydrogens.valence_of (na n) = Hydrogens.valence_of (payload C x).
  Proof.
    intros Fx G. destruct (Hatoms x Fx) as ((e & Ee) & (q & Eq) & NH).
    assert (forall key v, aget key (payload C x) = Some v -> key = S "element" \/ key = S "charge" -> aget key (na n) = Some v) as P.
    { intros key v Hv Hk. pose proof (ak_payload _ _ Ak x key v Fx Hv) as X. unfold node_get in X. rewrite G in X. apply X.
      - unfold reserved. cbn [In]. intros Y. destruct Hk as [-> | ->]; repeat destruct Y as [Y|Y]; try (apply str_eqb_eq in Y; vm_compute in Y; discriminate); exact Y.
      - destruct Hk as [-> | ->]; intros Y; apply str_eqb_eq in Y; vm_compute in Y; discriminate.
      - destruct Hk as [-> | ->]; intros Y; apply str_eqb_eq in Y; vm_compute in Y; discriminate. }
    assert (aget (S "element") (na n) = aget (S "element") (payload C x)) as E1 by (rewrite Ee; apply P; auto).
    assert (aget (S "charge") (na n) = aget (S "charge") (payload C x)) as E2 by (rewrite Eq; apply P; auto).
    split; [|now apply valence_of_ext]. unfold Hydrogens.is_H, Hydrogens.is_elem in *. now rewrite E1.
  Qed.

  Lemma car_heavy_node x : In x (flat C) -> exists n n' val b,
    gfind (phi C x) g1 = Some n /\ gfind (phi C x) g4 = Some n' /\ Hydrogens.valence_of (payload C x) = Ok val /\
    Hydrogens.sum_orders (nadj n) = Ok b /\
    nadj n' = nadj n ++ map (fun j => (j, Hydrogens.h_edge_attrs)) (hyds g1 g4 (phi C x)) /\
    length (hyds g1 g4 (phi C x)) = Z.to_nat (Z.max (Hydrogens.missing_of val b) 0) /\ NoDup (hyds g1 g4 (phi C x)) /\
    (forall attr, attr <> S "hcount" -> aget attr (na n') = aget attr (na n)) /\
    (forall j, In j (hyds g1 g4 (phi C x)) -> has_node g1 j = false /\
       exists h, gfind j g4 = Some h /\ nadj h = [(phi C x, Hydrogens.h_edge_attrs)] /\ Hydrogens.is_H (na h) = true /\
                 RebuildProofs.added_h_attrs ca (na n') (na h)).
  Proof.
    intros Fx. destruct (ak_gfind C g1 Ak x Fx) as [n G].
    destruct (RebuildProofs.wf_graph_structural g1 Wf) as (Hn & Hcl & Hns).
    destruct (RebuildProofs.rebuild_end_to_end ca g1 g4 Hn Hcl Hns car_no_rs Hr) as (R1 & _ & _).
    destruct (car_heavy_attrs x n Fx G) as [NH Ev].
    destruct (R1 _ _ G NH) as (val & b & idxs & n' & V & Sb & L & Nd & Fr & G' & A' & At & Hh). rewrite Ev in V.
    assert (hyds g1 g4 (phi C x) = idxs) as Eh.
    { unfold hyds, nadj_of. rewrite G, G', A', skipn_app_exact. apply map_fst_h. }
    exists n, n', val, b. rewrite Eh. split; [exact G|]. split; [exact G'|]. split; [exact V|]. split; [exact Sb|]. split; [exact A'|]. split; [exact L|]. split; [exact Nd|]. split; [exact At|].
    intros j Hj. split; [unfold has_node; now rewrite (Fr j Hj)|]. destruct (Hh j Hj) as (h & Gh & Ah & Ih & Aa). exists h. auto.
  Qed.

  Lemma car_other_node j : has_node g1 j = false -> has_node g4 j = true -> exists x, In x (flat C) /\ In j (hyds g1 g4 (phi C x)).
  Proof.
    intros Hj Hj4.
    destruct (RebuildProofs.wf_graph_structural g1 Wf) as (Hn & Hcl & Hns).
    destruct (RebuildProofs.rebuild_end_to_end ca g1 g4 Hn Hcl Hns car_no_rs Hr) as (_ & _ & R3).
    assert (gfind j g1 = None) as Gn by (unfold has_node in Hj; destruct (gfind j g1); [discriminate|reflexivity]).
    unfold has_node in Hj4. destruct (gfind j g4) as [nd|] eqn:Gnd; [|discriminate].
    destruct (R3 _ _ Gn Gnd) as (k & Hk & Am & _).
    assert (has_node g1 k = true) as Hk' by (unfold has_node; destruct (gfind k g1); [reflexivity|congruence]).
    destruct (ak_onto C W g1 Ak k Hk') as (x & Fx & <-). exists x. split; [exact Fx|].
    destruct (car_heavy_node x Fx) as (n & n' & val & b & G & G' & _ & _ & A' & _).
    assert (has_edge g4 (phi C x) j = true) as He.
    { rewrite <- (wf_sym _ Wf4). apply has_edge_in. exists nd, Hydrogens.h_edge_attrs. split; [exact Gnd|rewrite Am; now left]. }
    apply has_edge_in in He as (n'' & a & G'' & Hin''). rewrite G' in G''. inversion G''; subst n''. rewrite A' in Hin''.
    apply in_app_or in Hin'' as [Hin''|Hin''].
    - exfalso. apply (Hcl _ _ _ _ G Hin''). exact Gn.
    - apply in_map_iff in Hin'' as (j' & E & Hj'). now inversion E; subst.
  Qed.

  Lemma car_anchor_unique x y j : In x (flat C) -> In y (flat C) -> In j (hyds g1 g4 (phi C x)) -> In j (hyds g1 g4 (phi C y)) -> x = y.
  Proof.
    intros Fx Fy Hx Hy. destruct (car_heavy_node x Fx) as (? & ? & ? & ? & _ & _ & _ & _ & _ & _ & _ & _ & Hhx). destruct (car_heavy_node y Fy) as (? & ? & ? & ? & _ & _ & _ & _ & _ & _ & _ & _ & Hhy).
    destruct (Hhx j Hx) as (_ & h & Gh & Ah & _). destruct (Hhy j Hy) as (_ & h' & Gh' & Ah' & _). rewrite Gh in Gh'. inversion Gh'; subst h'.
    rewrite Ah in Ah'. inversion Ah'. now apply (phi_inj C).
  Qed.

  Lemma car_keys k : has_node g4 k = true <->
    (exists x, In x (flat C) /\ k = phi C x) \/ (exists x, In x (flat C) /\ In k (hyds g1 g4 (phi C x))).
  Proof.
    split.
    - intros H. destruct (has_node g1 k) eqn:Hm.
      + left. destruct (ak_onto C W g1 Ak k Hm) as (x & Fx & <-). eauto.
      + right. now apply car_other_node.
    - intros [(x & Fx & ->)|(x & Fx & Hk)].
      + destruct (car_heavy_node x Fx) as (? & n' & ? & ? & _ & G' & _). unfold has_node. now rewrite G'.
      + destruct (car_heavy_node x Fx) as (? & ? & ? & ? & _ & _ & _ & _ & _ & _ & _ & _ & Hh). destruct (Hh k Hk) as (_ & h & Gh & _). unfold has_node. now rewrite Gh.
  Qed.

  Lemma car_edge_heavy x y key : In x (flat C) -> In y (flat C) ->
    has_edge g4 (phi C x) (phi C y) = bonded C x y /\ edge_get g4 (phi C x) (phi C y) key = edge_get g1 (phi C x) (phi C y) key.
  Proof.
    intros Fx Fy. destruct (car_heavy_node x Fx) as (n & n' & ? & ? & G & G' & _ & _ & A' & _ & _ & _ & Hh).
    assert (adj_get (phi C y) (nadj n') = adj_get (phi C y) (nadj n)) as Ea.
    { rewrite A'. apply adj_get_app_h. intros j Hj ->. destruct (Hh _ Hj) as (Hm & _). rewrite (ak_node C g1 Ak y Fy) in Hm. discriminate. }
    rewrite <- (ak_edges _ _ Ak x y Fx Fy). unfold has_edge, edge_get, edge_attrs. now rewrite G, G', Ea.
  Qed.

  Lemma car_edge_hyd x j : In x (flat C) -> has_node g1 j = false ->
    (has_edge g4 (phi C x) j = true <-> In j (hyds g1 g4 (phi C x))) /\
    (In j (hyds g1 g4 (phi C x)) -> edge_get g4 (phi C x) j (S "order") = Some (VInt 1) /\ edge_get g4 j (phi C x) (S "order") = Some (VInt 1)).
  Proof.
    intros Fx Hj. destruct (car_heavy_node x Fx) as (n & n' & val & b & G & G' & _ & _ & A' & _ & Nd & _ & Hh).
    destruct (RebuildProofs.wf_graph_structural g1 Wf) as (Hn & Hcl & Hns).
    assert (forall d, In (j, d) (nadj n) -> False) as Nold.
    { intros d Hin. apply (Hcl _ _ _ _ G Hin). unfold has_node in Hj. destruct (gfind j g1); [discriminate|reflexivity]. }
    split.
    - rewrite has_edge_in. split.
      + intros (n'' & a & G'' & Hin). rewrite G' in G''. inversion G''; subst n''. rewrite A' in Hin. apply in_app_or in Hin as [Hin|Hin]; [exfalso; eapply Nold; eauto|].
        apply in_map_iff in Hin as (j' & E & Hj'). now inversion E; subst.
      + intros Hin. exists n', Hydrogens.h_edge_attrs. split; [exact G'|]. rewrite A'. apply in_or_app. right. apply in_map_iff. eauto.
    - intros Hin. destruct (Hh j Hin) as (_ & h & Gh & Ah & _). unfold edge_get, edge_attrs. rewrite G', Gh, Ah, A'. cbn [adj_get]. rewrite Z.eqb_refl.
      split; [|reflexivity].
      assert (adj_get j (nadj n ++ map (fun j0 => (j0, Hydrogens.h_edge_attrs)) (hyds g1 g4 (phi C x))) = Some Hydrogens.h_edge_attrs) as ->; [|reflexivity].
      clear -Nold Hin. induction (nadj n) as [|[w a] r IH]; cbn.
      + induction (hyds g1 g4 (phi C x)) as [|j0 l IHl]; [contradiction|]. cbn. destruct (Z.eqb_spec j0 j) as [->|N]; [reflexivity|]. destruct Hin as [E|Hin]; [congruence|auto].
      + destruct (Z.eqb_spec w j) as [->|N]; [exfalso; apply (Nold a); now left|]. apply IH. intros d Hd. apply (Nold d). now right.
  Qed.

  Lemma car_no_edge j k : has_node g1 j = false -> has_node g4 j = true -> has_node g1 k = false -> has_edge g4 j k = false.
  Proof.
    intros Hj Hj4 Hk. destruct (car_other_node j Hj Hj4) as (x & Fx & Hin). destruct (car_heavy_node x Fx) as (? & ? & ? & ? & _ & _ & _ & _ & _ & _ & _ & _ & Hh).
    destruct (Hh j Hin) as (_ & h & Gh & Ah & _). destruct (has_edge g4 j k) eqn:He; [|reflexivity]. apply has_edge_in in He as (h' & a & Gh' & Hin').
    rewrite Gh in Gh'. inversion Gh'; subst h'. rewrite Ah in Hin'. destruct Hin' as [E|[]]. inversion E; subst k.
    rewrite (ak_node C g1 Ak x Fx) in Hk. discriminate.
  Qed.

  Lemma car_order_sym a b : edge_get g4 a b (S "order") = edge_get g4 b a (S "order").
  Proof.
    destruct (has_edge g4 a b) eqn:He.
    - pose proof He as He'. rewrite (wf_sym _ Wf4) in He'.
      pose proof (wf_closed _ Wf4 _ _ He) as Hb. pose proof (wf_closed _ Wf4 _ _ He') as Ha.
      destruct (has_node g1 a) eqn:Ma, (has_node g1 b) eqn:Mb.
      + destruct (ak_onto C W g1 Ak a Ma) as (x & Fx & <-). destruct (ak_onto C W g1 Ak b Mb) as (y & Fy & <-).
        destruct (car_edge_heavy x y (S "order") Fx Fy) as [_ ->]. destruct (car_edge_heavy y x (S "order") Fy Fx) as [_ ->]. apply (ak_sym _ _ Ak).
      + destruct (ak_onto C W g1 Ak a Ma) as (x & Fx & <-). destruct (car_edge_hyd x b Fx Mb) as [I1 I2]. destruct (I2 (proj1 I1 He)) as [-> ->]. reflexivity.
      + destruct (ak_onto C W g1 Ak b Mb) as (x & Fx & <-). destruct (car_edge_hyd x a Fx Ma) as [I1 I2]. destruct (I2 (proj1 I1 He')) as [-> ->]. reflexivity.
      + rewrite (car_no_edge a b Ma Ha Mb) in He. discriminate.
    - rewrite (edge_get_none_ g4 a b _ He). symmetry. apply edge_get_none_. now rewrite <- (wf_sym _ Wf4).
  Qed.

  Lemma car_node_cases nd : In nd g4 ->
    (exists x n, In x (flat C) /\ nk nd = phi C x /\ gfind (phi C x) g1 = Some n /\ nadj nd = nadj n ++ map (fun j => (j, Hydrogens.h_edge_attrs)) (hyds g1 g4 (phi C x)) /\
                 forall attr, attr <> S "hcount" -> aget attr (na nd) = aget attr (na n)) \/
    (exists x n', In x (flat C) /\ gfind (phi C x) g4 = Some n' /\ nadj nd = [(phi C x, Hydrogens.h_edge_attrs)] /\ RebuildProofs.added_h_attrs ca (na n') (na nd)).
  Proof.
    intros Hin. pose proof (gfind_in g4 (wf_nodup _ Wf4) nd Hin) as Gnd.
    assert (has_node g4 (nk nd) = true) as Hk by (unfold has_node; now rewrite Gnd).
    apply car_keys in Hk as [(x & Fx & E)|(x & Fx & Hh)].
    - left. destruct (car_heavy_node x Fx) as (n & n' & ? & ? & G & G' & _ & _ & A' & _ & _ & At & _). rewrite E, G' in Gnd. inversion Gnd; subst n'. exists x, n. auto.
    - right. destruct (car_heavy_node x Fx) as (? & n' & ? & ? & _ & G' & _ & _ & _ & _ & _ & _ & H). destruct (H _ Hh) as (_ & h & Gh & Ah & _ & Aa). rewrite Gnd in Gh. inversion Gh; subst h. exists x, n'. auto.
  Qed.
  Lemma car_adj_nodup : adj_nodup g4.
  Proof.
    intros nd Hin. destruct (car_node_cases nd Hin) as [(x & n & Fx & _ & G & -> & _)|(x & ? & _ & _ & -> & _)]; [|repeat constructor; tauto].
    destruct (car_heavy_node x Fx) as (? & ? & ? & ? & _ & _ & _ & _ & _ & _ & Nd & _ & Hh). destruct (RebuildProofs.wf_graph_structural g1 Wf) as (_ & Hcl & _).
    rewrite map_app, map_fst_h. apply NoDup_app_intro; [exact (ak_adj _ _ Ak n (gfind_In _ _ _ G))|exact Nd|].
    intros k Hk Hk'. apply in_map_iff in Hk as ([k' d] & <- & Hd). destruct (Hh _ Hk') as (Hm & _). unfold has_node in Hm.
    pose proof (Hcl _ _ _ _ G Hd) as X. cbn [fst] in Hm. destruct (gfind k' g1); [discriminate|congruence].
  Qed.
  Lemma car_edge_nodup : edge_nodup g4.
  Proof.
    intros nd Hin w d Hd. destruct (car_node_cases nd Hin) as [(x & n & Fx & _ & G & E & _)|(x & ? & _ & _ & E & _)]; rewrite E in Hd.
    - apply in_app_or in Hd as [Hd|Hd]; [exact (ak_edn _ _ Ak n (gfind_In _ _ _ G) w d Hd)|]. apply in_map_iff in Hd as (j & E' & _). inversion E'; subst. repeat constructor; tauto.
    - destruct Hd as [E'|[]]. inversion E'; subst. repeat constructor; tauto.
  Qed.
  Lemma car_fragid : map fst (get_node_attributes g4 (S "fragid")) = node_keys g4.
  Proof.
    apply gna_all_keys. intros nd Hin. destruct (car_node_cases nd Hin) as [(x & n & Fx & _ & G & _ & At)|(x & n' & Fx & G' & _ & Aa)].
    - rewrite At by (intros E; apply str_eqb_eq in E; vm_compute in E; discriminate). pose proof (ak_fragid _ _ Ak x Fx) as F. unfold node_get in F. now rewrite G in F.
    - rewrite (Aa (S "fragid")). cbn. discriminate.
  Qed.
End CompletionCar.

Record completion_car (C : cut) (g1 g4 : graph) : Prop := {
  cc_wf : wf_graph g4;
  cc_adj : adj_nodup g4;
  cc_edn : edge_nodup g4;
  cc_fragid : map fst (get_node_attributes g4 (S "fragid")) = node_keys g4;
  cc_range : forall k, has_node g1 k = true <-> 0 <= k < Z.of_nat (length (flat C));
  cc_heavy : forall x, In x (flat C) -> exists n n' val b,
    gfind (phi C x) g1 = Some n /\ gfind (phi C x) g4 = Some n' /\ Hydrogens.valence_of (payload C x) = Ok val /\
    Hydrogens.sum_orders (nadj n) = Ok b /\
    nadj n' = nadj n ++ map (fun j => (j, Hydrogens.h_edge_attrs)) (hyds g1 g4 (phi C x)) /\
    length (hyds g1 g4 (phi C x)) = Z.to_nat (Z.max (Hydrogens.missing_of val b) 0) /\ NoDup (hyds g1 g4 (phi C x)) /\
    (forall attr, attr <> S "hcount" -> aget attr (na n') = aget attr (na n)) /\
    (forall j, In j (hyds g1 g4 (phi C x)) -> has_node g1 j = false /\
       exists h, gfind j g4 = Some h /\ nadj h = [(phi C x, Hydrogens.h_edge_attrs)] /\ Hydrogens.is_H (na h) = true /\
                 RebuildProofs.added_h_attrs rebuild_copy_attrs_default (na n') (na h));
  cc_unique : forall x y j, In x (flat C) -> In y (flat C) -> In j (hyds g1 g4 (phi C x)) -> In j (hyds g1 g4 (phi C y)) -> x = y;
  cc_keys : forall k, has_node g4 k = true <->
    (exists x, In x (flat C) /\ k = phi C x) \/ (exists x, In x (flat C) /\ In k (hyds g1 g4 (phi C x)));
  cc_edge_heavy : forall x y key, In x (flat C) -> In y (flat C) ->
    has_edge g4 (phi C x) (phi C y) = bonded C x y /\ edge_get g4 (phi C x) (phi C y) key = edge_get g1 (phi C x) (phi C y) key;
  cc_edge_hyd : forall x j, In x (flat C) -> has_node g1 j = false ->
    (has_edge g4 (phi C x) j = true <-> In j (hyds g1 g4 (phi C x))) /\
    (In j (hyds g1 g4 (phi C x)) -> edge_get g4 (phi C x) j (S "order") = Some (VInt 1) /\ edge_get g4 j (phi C x) (S "order") = Some (VInt 1));
  cc_no_edge : forall j k, has_node g1 j = false -> has_node g4 j = true -> has_node g1 k = false -> has_edge g4 j k = false;
  cc_order_sym : forall a b, edge_get g4 a b (S "order") = edge_get g4 b a (S "order");
  cc_attr : forall x key, In x (flat C) -> key <> S "hcount" -> node_get g4 (phi C x) key = node_get g1 (phi C x) key;
  cc_askel : askel C g1 }.

Theorem completion_car_of C g1 g4 : wf_cut C -> heavy_atoms C -> askel C g1 ->
  Hydrogens.rebuild_after_car false rebuild_copy_attrs_default g1 = Ok g4 -> completion_car C g1 g4.
Proof.
  intros W Hat Ak Hr. constructor.
  - exact (rebuild_wf _ g1 g4 (askel_wf C W g1 Ak) (car_no_rs C W g1 Ak) Hr).
  - exact (car_adj_nodup C W Hat g1 Ak g4 Hr).
  - exact (car_edge_nodup C W Hat g1 Ak g4 Hr).
  - exact (car_fragid C W Hat g1 Ak g4 Hr).
  - exact (ak_range C g1 Ak).
  - exact (car_heavy_node C W Hat g1 Ak g4 Hr).
  - exact (car_anchor_unique C W Hat g1 Ak g4 Hr).
  - exact (car_keys C W Hat g1 Ak g4 Hr).
  - exact (car_edge_heavy C W Hat g1 Ak g4 Hr).
  - exact (car_edge_hyd C W Hat g1 Ak g4 Hr).
  - exact (car_no_edge C W Hat g1 Ak g4 Hr).
  - exact (car_order_sym C W Hat g1 Ak g4 Hr).
  - intros x key Fx Hh. destruct (car_heavy_node C W Hat g1 Ak g4 Hr x Fx) as (n & n' & ? & ? & G & G' & _ & _ & _ & _ & _ & At & _).
    unfold node_get. now rewrite G, G', (At key Hh).
  - exact Ak.
Qed.

(** the hydrogen theorem in the words of the property, for any transcript: atom x receives least-fitting-valence minus
    (the transcript's bond sum) hydrogens when that sum fits *)
Theorem cut_hydrogens_car C g1 g4 x : completion_car C g1 g4 -> In x (flat C) ->
  exists val b idxs, Hydrogens.valence_of (payload C x) = Ok val /\ idxs = hyds g1 g4 (phi C x) /\
    length idxs = Z.to_nat (Z.max (Hydrogens.missing_of val b) 0) /\
    (forall n, gfind (phi C x) g1 = Some n -> Hydrogens.sum_orders (nadj n) = Ok b) /\
    (fits val b -> exists v, least_fitting val b v /\
       (Z.even b = true -> 2 * Z.of_nat (length idxs) = 2 * v - b) /\ (Z.even b = false -> 2 * Z.of_nat (length idxs) = 2 * v - b - 1)).
Proof.
  intros K Fx. destruct (cc_heavy _ _ _ K x Fx) as (n & n' & val & b & G & G' & V & Sb & A' & L & _).
  exists val, b, (hyds g1 g4 (phi C x)). split; [exact V|]. split; [reflexivity|]. split; [exact L|]. split.
  - intros n0 G0. rewrite G in G0. now inversion G0; subst.
  - intros Hf. destruct (RebuildProofs.rebuild_valence_sum (payload C x) val b _ _ (nadj n) V Hf Sb L A') as (v & Lf & E1 & E2).
    exists v. split; [exact Lf|]. split; intros X; [now destruct (E1 X)|now destruct (E2 X)].
Qed.
