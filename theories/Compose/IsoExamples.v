(** IsoExamples: non-vacuity of [base_order_independent] / [layered_flat_returned_iso] / [returned_iso].
    The example cut [exC] (parts A, B, D) against the same cut with the parts listed B, A, D: both all-atom runs are
    executed (instantiation, bonding, squash, hydrogen completion, sort), the explicit map is computed on the thirteen
    returned keys, and adjacency and orders agree through it. *)
From Coq Require Import String.
From Coq Require Import List Ascii ZArith Bool Lia Permutation.
From CGV Require Import Base.PyBase Base.PyVal Base.NxGraph Resolve.Bonding Resolve.GraphOps.
From CGV Require Resolve.CutCheck Resolve.MapDefs.
From CGV Require Hydro.Hydrogens Hydro.Squash.
From CGV Require Import Compose.CutModel Compose.CutPos Compose.CutSpecCheck Compose.CutSkeleton Compose.CutHydrogens Compose.CutExamples
     Compose.ComposeFlat Compose.FlatExamples Compose.PartPerm Compose.Completion Compose.CutIso Compose.OrderIndep.
Import ListNotations.
Open Scope Z_scope.

Definition exCp : cut := {| c_atoms := c_atoms exC; c_bonds := c_bonds exC;
  c_parts := [(S "B", [12]); (S "A", [11; 10; 15]); (S "D", [13; 14])]; c_dord := [] |}.

Example exCp_pperm : pperm exC exCp.
Proof. constructor; try reflexivity. cbn. apply perm_swap. Qed.
Example exCp_base : is_baseb exCp (base_of exCp) = true.
Proof. vm_compute. reflexivity. Qed.

Example exC_heavy_numeric : heavy_payload exC /\ numeric_orders exC.
Proof. destruct cut_hydrogens_nonvacuous as (A & B & _). split; [exact A|exact B]. Qed.

(** the theorem instantiated: two base graphs listing the parts in different orders, the same templates *)
Example base_order_independent_nonvacuous :
  exists a1 afg1 a2 afg2 b1 bfg1 b2 bfg2,
    resolve_disconnected (fragdict_of exC) (base_of exC) = Ok (a1, afg1) /\ bonding_step true true (base_of exC) a1 afg1 = Ok (a2, afg2) /\ Squash.squash_atoms a2 = Ok a2 /\
    resolve_disconnected (fragdict_of exC) (base_of exCp) = Ok (b1, bfg1) /\ bonding_step true true (base_of exCp) b1 bfg1 = Ok (b2, bfg2) /\ Squash.squash_atoms b2 = Ok b2 /\
    forall g1 g2 h1 h2 ms1 ms2,
      Hydrogens.rebuild_h_atoms_default a2 (Some a2) = Ok g1 -> Hydrogens.rebuild_h_atoms_default b2 (Some b2) = Ok g2 ->
      sort_nodes_by_attr g1 = Ok h1 -> sort_nodes_by_attr g2 = Ok h2 -> sort_mapping g1 = Ok ms1 -> sort_mapping g2 = Ok ms2 ->
      completion exC a2 g1 /\ completion exCp b2 g2 /\ returned_iso exC exCp a2 g1 b2 g2 h1 h2 ms1 ms2.
Proof.
  destruct exC_hypotheses as (H1 & H2 & H3). destruct exC_heavy_numeric as [Hh Hn].
  exact (base_order_independent exC exCp (fragdict_of exC) (base_of exC) (base_of exCp) (wf_cutb_sound _ H1) exCp_pperm Hh Hn
           (templates_okb_sound _ _ H2) (is_baseb_sound _ _ H3) (is_baseb_sound _ _ exCp_base)).
Qed.

(** both runs executed; the explicit map on the returned keys; adjacency and orders through it *)
Definition run_aa (C : cut) : option (graph * graph * graph * list (Z * Z)) :=
  match resolve_disconnected (fragdict_of exC) (base_of C) with
  | Ok (m1, fg1) =>
      match bonding_step true true (base_of C) m1 fg1 with
      | Ok (m2, _) =>
          match Hydrogens.rebuild_h_atoms_default m2 (Some m2), sort_mapping m2 with
          | Ok g4, _ => match sort_nodes_by_attr g4, sort_mapping g4 with Ok h, Ok ms => Some (m2, g4, h, ms) | _, _ => None end
          | _, _ => None
          end
      | Err _ => None end
  | Err _ => None end.

Example returned_iso_executed :
  match run_aa exC, run_aa exCp with
  | Some (a2, g1, h1, ms1), Some (b2, g2, h2, ms2) =>
      let F := fun k => map_get ms2 (iso exC exCp a2 g1 b2 g2 (inv_key g1 ms1 k)) in
      length h1 = 13%nat /\ length h2 = 13%nat /\
      (* atoms 11,10,15 | 12 | 13,14 sit at 0,1,2 | 3 | 4,5 in the first listing and at 1,2,3 | 0 | 4,5 in the second *)
      map F (map (fun x => map_get ms1 (phi exC x)) [11; 10; 15; 12; 13; 14]) = map (fun x => map_get ms2 (phi exCp x)) [11; 10; 15; 12; 13; 14] /\
      forallb (fun k => forallb (fun l => Bool.eqb (has_edge h2 (F k) (F l)) (has_edge h1 k l)
                                           && oeqb (edge_get h2 (F k) (F l) (S "order")) (edge_get h1 k l (S "order"))) (node_keys h1)) (node_keys h1) = true /\
      MapDefs.same_set (map F (node_keys h1)) (node_keys h2) = true
  | _, _ => False
  end.
Proof. vm_compute. repeat split; reflexivity. Qed.

(** ---------------------------------------------------------------- whole resolve() calls (ReturnedIso) *)
From CGV Require Import Resolve.Pipeline Resolve.PipelineFull Compose.ReturnedIso.

Definition full_run (C : cut) : option full_out :=
  match run_aa C with
  | Some (m2, _, _, _) => match resolve_step_full true true (fragdict_of exC) (base_of C) (Some m2) with Ok fo => Some fo | Err _ => None end
  | None => None
  end.

(** both all-atom resolve() calls return with the identity transcript (the recorded graph IS the graph after squash_atoms);
    the explicit map between the RETURNED graphs (E/Z step, annotate_fragments, atom names included) preserves adjacency,
    orders and the elements *)
Example returned_graphs_iso_executed :
  match full_run exC, full_run exCp with
  | Some fo1, Some fo2 =>
      graph_eqb (fo_m3 fo1) (fo_m2 fo1) = true /\ graph_eqb (fo_m3 fo2) (fo_m2 fo2) = true /\
      match sort_mapping (fo_m4 fo1), sort_mapping (fo_m4 fo2) with
      | Ok ms1, Ok ms2 =>
          let F := fun k => map_get ms2 (iso exC exCp (fo_m3 fo1) (fo_m4 fo1) (fo_m3 fo2) (fo_m4 fo2) (inv_key (fo_m4 fo1) ms1 k)) in
          length (fo_mol fo1) = 13%nat /\
          forallb (fun k => forallb (fun l => Bool.eqb (has_edge (fo_mol fo2) (F k) (F l)) (has_edge (fo_mol fo1) k l)
                     && oeqb (edge_get (fo_mol fo2) (F k) (F l) (S "order")) (edge_get (fo_mol fo1) k l (S "order"))) (node_keys (fo_mol fo1))) (node_keys (fo_mol fo1)) = true /\
          forallb (fun k => oeqb (node_get (fo_mol fo2) (F k) (S "element")) (node_get (fo_mol fo1) k (S "element"))) (node_keys (fo_mol fo1)) = true /\
          MapDefs.same_set (map F (node_keys (fo_mol fo1))) (node_keys (fo_mol fo2)) = true
      | _, _ => False
      end
  | _, _ => False
  end.
Proof. vm_compute. repeat split; reflexivity. Qed.
