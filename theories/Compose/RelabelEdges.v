(** RelabelEdges: edge attribute VALUES under nx.relabel_nodes(copy=True) and sort_nodes_by_attr (C12's graph theorems give
    the adjacency and the node attributes; the contents of the edge dicts were per-run only).  For a well-formed graph
    without duplicate adjacency entries / dict keys whose attribute [key] reads the same in both directions, the edge
    between the images of a and b carries the value the edge between a and b carried. *)
From Coq Require Import String.
From Coq Require Import List Ascii ZArith Bool Lia Permutation.
From CGV Require Import Base.PyBase Base.PyVal Base.NxGraph Resolve.Bonding Resolve.GraphOps Resolve.MapProofs Resolve.CopyProofs Resolve.SortProofs
     Hydro.GraphLemmas Hydro.SquashDefs.
From CGV Require Resolve.SortGraphProofs Hydro.SquashProofs.
From CGV Require Import Compose.GraphFacts Compose.GraphAdj Compose.CutModel Compose.CutDisc Compose.CutSkeleton Compose.SortIdentity.
Import ListNotations.
Open Scope Z_scope.

Lemma set_nodes_from_edge_attrs a d : forall g x y, edge_attrs (set_nodes_from g a d) x y = edge_attrs g x y.
Proof.
  unfold set_nodes_from. induction d as [|[k v] r IH]; intros g x y; [reflexivity|]. cbn [fold_left]. now rewrite IH, edge_attrs_set_node_attr.
Qed.

Section Relabel.
  Variable g : graph.
  Variable m : list (Z * Z).
  Variable key : pystr.
  Hypothesis Wf : wf_graph g.
  Hypothesis Adj : adj_nodup g.
  Hypothesis Edn : edge_nodup g.
  Hypothesis Inj : SortGraphProofs.inj_on (map_get m) (node_keys g).
  Hypothesis Sym : forall a b, edge_get g a b key = edge_get g b a key.
  Let phi := map_get m.
  Let Hn := wf_nodup _ Wf.

  Theorem relabel_edge_get a b : In a (node_keys g) -> In b (node_keys g) ->
    edge_get (relabel_copy g m) (phi a) (phi b) key = edge_get g a b key.
  Proof.
    intros Ha Hb.
    set (EL := map (fun e : Z * Z * attrs => (phi (eu e), phi (ev e), ed e)) (edges_data g)).
    assert (Hrel : relabel_copy g m = add_edges EL (map (SortGraphProofs.rl phi) g)).
    { rewrite (SortGraphProofs.relabel_closed_form phi m (fun k => eq_refl) g).
      - reflexivity.
      - rewrite SortGraphProofs.pkeys_keys. now apply SortGraphProofs.inj_nodup. }
    assert (Hkeys : forall k, In k (node_keys g) -> has_node (map (SortGraphProofs.rl phi) g) (phi k) = true).
    { intros k Hk. apply gfind_has. rewrite SortGraphProofs.keys_rl, SortGraphProofs.pkeys_keys. now apply in_map. }
    assert (HEL : forall e', In e' EL -> exists e, In e (edges_data g) /\ e' = (phi (eu e), phi (ev e), ed e) /\
               In (eu e) (node_keys g) /\ In (ev e) (node_keys g) /\ eu e <> ev e /\ edge_attrs g (eu e) (ev e) = Ok (ed e)).
    { intros e' He'. apply in_map_iff in He' as (e & <- & He). exists e. destruct (edges_data_pairs g Wf Adj e He) as (Hu & Hv & N & Ea).
      repeat split; auto; now apply gfind_has. }
    destruct (add_edges_spec EL (map (SortGraphProofs.rl phi) g)) as (_ & _ & E).
    - intros e' He'. destruct (HEL e' He') as (e & _ & -> & Hu & Hv & N & _). unfold eu at 1 3, ev at 1 3. cbn [fst snd].
      repeat split; [now apply Hkeys|now apply Hkeys|]. intros X. apply N. now apply Inj.
    - intros e' _. apply SortGraphProofs.has_edge_rl.
    - unfold EL. apply FOP_map. pose proof (edges_data_once g Hn Adj) as Once. unfold unordered_nodup, edges_list in Once. apply FOP_map in Once.
      assert (forall e, In e (edges_data g) -> In (eu e) (node_keys g) /\ In (ev e) (node_keys g)) as Hends.
      { intros e He. destruct (edges_data_pairs g Wf Adj e He) as (Hu & Hv & _). split; now apply gfind_has. }
      eapply FOP_impl; [|exact Once]. cbn [fst snd]. intros e1 e2 H1 H2 Hne. destruct (upair _ _ _ _) eqn:U; [|reflexivity]. exfalso. apply Hne.
      unfold eu at 1 3, ev at 1 3 in U. cbn [fst snd] in U. apply upair_true in U. destruct (Hends e1 H1) as [A1 A2]. destruct (Hends e2 H2) as [B1 B2].
      destruct U as [[X Y]|[X Y]]; apply Inj in X; auto; apply Inj in Y; auto.
    - unfold edge_get at 1. rewrite Hrel, E.
      destruct (find_edge (phi a) (phi b) EL) as [e'|] eqn:F.
      + apply find_some in F as [Hin U]. destruct (HEL e' Hin) as (e & He & -> & Hu & Hv & N & Ea). unfold ed at 1. cbn [snd].
        unfold eu at 1, ev at 1 in U. cbn [fst snd] in U. apply upair_true in U.
        assert (NoDup (map fst (ed e))) as Nd by (destruct e as [[u v] d]; exact (edges_data_nodup g u v d Edn He)).
        rewrite aget_aupdate_nodup by exact Nd. cbn [aget].
        assert (aget key (ed e) = edge_get g (eu e) (ev e) key) as Ev by (unfold edge_get; now rewrite Ea).
        destruct U as [[X Y]|[X Y]]; apply Inj in X; auto; apply Inj in Y; auto; subst a b.
        * rewrite <- Ev. destruct (aget key (ed e)); reflexivity.
        * rewrite (Sym (ev e) (eu e)), <- Ev. destruct (aget key (ed e)); reflexivity.
      + destruct (has_edge g a b) eqn:He.
        * exfalso. destruct (edge_listed g Wf a b He) as [e Fe]. apply find_some in Fe as [Hin U].
          unfold find_edge in F. pose proof (find_none _ _ F (phi (eu e), phi (ev e), ed e)) as X. cbn beta in X.
          assert (In (phi (eu e), phi (ev e), ed e) EL) as HinEL by (unfold EL; apply in_map_iff; exists e; auto). specialize (X HinEL).
          change (upair (phi a) (phi b) (phi (eu e)) (phi (ev e)) = false) in X. apply upair_true in U.
          assert (upair (phi a) (phi b) (phi (eu e)) (phi (ev e)) = true); [|congruence]. apply upair_true. destruct U as [[-> ->]|[-> ->]]; auto.
        * unfold edge_get. rewrite (edge_attrs_err g a b He). now rewrite (edge_attrs_err _ _ _ (SortGraphProofs.has_edge_rl phi g (phi a) (phi b))).
  Qed.
End Relabel.

Theorem sort_edge_get g h key : wf_graph g -> adj_nodup g -> edge_nodup g ->
  map fst (get_node_attributes g (S "fragid")) = node_keys g -> sort_nodes_by_attr g = Ok h ->
  (forall a b, edge_get g a b key = edge_get g b a key) ->
  forall m, sort_mapping g = Ok m -> forall a b, In a (node_keys g) -> In b (node_keys g) ->
    edge_get h (map_get m a) (map_get m b) key = edge_get g a b key.
Proof.
  intros Wf Adj Edn Hfid Hs Sym m Em a b Ha Hb.
  destruct (SortGraphProofs.sort_graph g h Wf Hfid Hs) as (m' & Em' & Inj & _). rewrite Em in Em'. inversion Em'; subst m'.
  unfold sort_nodes_by_attr in Hs. rewrite Em in Hs. cbn [bind] in Hs. destruct (map_res _ _) as [nd|]; cbn [bind] in Hs; [|discriminate]. inversion Hs; subst h.
  unfold edge_get. rewrite set_nodes_from_edge_attrs. exact (relabel_edge_get g m key Wf Adj Edn Inj Sym a b Ha Hb).
Qed.
