(** CutRunCheck: per-run tie of the hypotheses and the conclusion of [cut_bonding_skeleton] to the IMPLEMENTATION
    (executable, NO proofs; imports models, definitions and the executable tests only).  One record per generated cut:
      the cut C as the generator made it (molecule as written, parts in text order, labels, kinds, descriptor order),
      the template dictionary exactly as read_fragments returned it, the base graph exactly as read_cgsmiles returned it,
      the implementation's fine graph right after edges_from_bonding_descrpt.
    [run_fail] decides, on the implementation's own graphs: the templates are templates of the parts (121), the base
    graph is a base of the cut (122), the bonded fine graph is the molecule's skeleton (123) - i.e. the hypotheses of the
    theorem hold of what the implementation built and its conclusion holds of what the implementation returned;
    [run_corr] compares the resolver MODEL run on the same templates and base graph with that fine graph (124). *)
From Coq Require Import String.
From Coq Require Import List Ascii ZArith Bool.
From CGV Require Import Base.PyBase Base.PyVal Base.NxGraph Resolve.Bonding Resolve.BondingCheck Resolve.CutCheck Resolve.GraphOps.
From CGV Require Import Compose.CutModel Compose.CutSpecDefs.
Import ListNotations.
Open Scope Z_scope.

Record run_case := {
  rc_cut : cut;
  rc_fd : fragdict;            (* resolver.fragment_dicts[0] *)
  rc_base : graph;             (* the graph read_cgsmiles returned *)
  rc_aa : bool;
  rc_impl : option graph }.    (* self.molecule right after edges_from_bonding_descrpt; None: it raised *)

Definition model_run (r : run_case) : res graph :=
  '(m1, fg1) <- resolve_disconnected (rc_fd r) (rc_base r) ;;
  '(m2, _) <- bonding_step true (rc_aa r) (rc_base r) m1 fg1 ;;
  Ok m2.

(** 0 holds or not judged (the generator's record is not a well-formed cut: a harness matter, never the code's) *)
Definition run_fail (r : run_case) : nat :=
  let C := rc_cut r in
  if negb (wf_cutb C) then 0%nat
  else if negb (templates_okb C (rc_fd r) && (negb (rc_aa r) || aa_payloadb C)) then 121%nat
  else if negb (is_baseb C (rc_base r)) then 122%nat
  else match rc_impl r with
       | Some g => if skeletonb C (rc_aa r) g then 0%nat else 123%nat
       | None => 0%nat            (* the exception is reported by the bonding-step clauses *)
       end.
Definition run_judged (r : run_case) : bool := wf_cutb (rc_cut r).

Definition run_corr (r : run_case) : bool :=
  match rc_impl r with
  | None => true
  | Some g => match model_run r with Ok m2 => graph_eqb m2 g | Err _ => false end
  end.

(** the C01 case: the bonding-step record of Resolve/CutCheck.v (judged or not) and, when the generator recorded the
    geometry of the cut, the graph-level record *)
Definition c01_case := (cut_case * bool * option run_case)%type.
Definition c01_corr (c : c01_case) : bool :=
  cut_corr (fst (fst c)) && match snd c with Some r => run_corr r | None => true end.
Definition c01_fail (c : c01_case) : nat :=
  match (if snd (fst c) then match cut_fail (fst (fst c)) with 1%nat => 0%nat | n => n end else 0%nat) with
  | 0%nat => match snd c with Some r => run_fail r | None => 0%nat end
  | n => n
  end.
