(** ChainBase: the base-graph hypothesis of TextCut.text_level_skeleton DISCHARGED for base graphs written as a CHAIN
    "{[#n0]s1[#n1]s2...[#nk]}" (s_i the bond symbol of order o_i: nothing, `=`, `#`, `$`, or `.` for 0).
    The reader model on that text returns Write/PathRound.nx_build (Reader's reader_sim_lin + PathRound.m_run_path); here
    that graph is shown to be a Compose [is_base] of every cut whose parts are listed along the chain:
      - the parts are named n0..nk in this order,
      - o_i = the number of cut bonds between part i-1 and part i,
      - every cut bond joins consecutive parts.
    [path_facts]: node keys 0..k in order, attributes of node i = what the node parser gives for n_i, the edge dictionary
    between two nodes (order o_i between i-1 and i, no other edge), well-formedness; by induction over the networkx
    operations add_node / add_edge.  [chain_is_base]; [chain_text_base]: read_cgsmiles of the chain text returns a base
    graph of the cut without `atomname`. *)
From Coq Require Import String.
From Coq Require Import List Ascii ZArith Bool Lia.
From CGV Require Import Base.PyBase Base.PyVal Base.NxGraph Dialect.DialectImpl.
From CGV Require Reader.ReaderImpl Reader.Grammar Reader.Lin Reader.ReaderSim Reader.GraphLemmas Write.PathRound.
From CGV Require Import Resolve.Bonding Resolve.GraphOps Resolve.MapProofs Resolve.CopyProofs Resolve.WfMerged Hydro.SquashDefs.
From CGV Require Resolve.SortGraphProofs Hydro.SquashProofs Resolve.NameStep.
From CGV Require Import Compose.GraphFacts Compose.GraphAdj Compose.CutModel Compose.CutPos Compose.CutTables Compose.ComposeFlat.
Import ListNotations.
Open Scope Z_scope.

Notation chainl := (list (Z * Z * pystr)).
Notation nx_build_from := PathRound.nx_build_from.
Notation nx_build := PathRound.nx_build.
Notation eorder := Grammar.eorder.

(** the order written between nodes x and y, if they are consecutive nodes of the part of the chain built from l *)
Fixpoint step_order (l : chainl) (m : nat) (x y : Z) : option Z :=
  match l with
  | [] => None
  | (o, _, _) :: r =>
      match step_order r (Datatypes.S m) x y with
      | Some o' => Some o'
      | None => if upair x y (Z.of_nat (m - 1)) (Z.of_nat m) then Some o else None
      end
  end.
Lemma step_order_some : forall l m x y o, (0 < m)%nat -> step_order l m x y = Some o ->
  exists i k nm, nth_error l i = Some (o, k, nm) /\ upair x y (Z.of_nat (m + i - 1)) (Z.of_nat (m + i)) = true.
Proof.
  induction l as [|[[o' k'] nm'] r IH]; intros m x y o Hm H; cbn [step_order] in H; [discriminate|].
  destruct (step_order r (Datatypes.S m) x y) as [o2|] eqn:E.
  - inversion H; subst o2. destruct (IH (Datatypes.S m) x y o ltac:(lia) E) as (i & k & nm & Hi & U).
    exists (Datatypes.S i), k, nm. split; [exact Hi|]. replace (m + Datatypes.S i - 1)%nat with (Datatypes.S m + i - 1)%nat by lia.
    replace (m + Datatypes.S i)%nat with (Datatypes.S m + i)%nat by lia. exact U.
  - destruct (upair x y (Z.of_nat (m - 1)) (Z.of_nat m)) eqn:U; [|discriminate]. inversion H; subst o'.
    exists 0%nat, k', nm'. split; [reflexivity|]. now rewrite !Nat.add_0_r.
Qed.
Lemma step_order_small : forall l m x y, (0 < m)%nat -> (x < Z.of_nat (m - 1) \/ y < Z.of_nat (m - 1)) -> step_order l m x y = None.
Proof.
  induction l as [|[[o k] nm] r IH]; intros m x y Hm H; cbn [step_order]; [reflexivity|].
  rewrite IH by first [lia | destruct H; [left|right]; lia].
  assert (upair x y (Z.of_nat (m - 1)) (Z.of_nat m) = false) as ->; [|reflexivity].
  destruct (upair x y (Z.of_nat (m - 1)) (Z.of_nat m)) eqn:U; [|reflexivity]. apply upair_true in U. lia.
Qed.
Lemma step_order_at : forall l m i o k nm, (0 < m)%nat -> nth_error l i = Some (o, k, nm) ->
  step_order l m (Z.of_nat (m + i - 1)) (Z.of_nat (m + i)) = Some o.
Proof.
  induction l as [|[[o' k'] nm'] r IH]; intros m i o k nm Hm Hi; [destruct i; discriminate Hi|]. destruct i as [|i]; cbn [nth_error] in Hi; cbn [step_order].
  - inversion Hi; subst. rewrite Nat.add_0_r. rewrite step_order_small by lia.
    assert (upair (Z.of_nat (m - 1)) (Z.of_nat m) (Z.of_nat (m - 1)) (Z.of_nat m) = true) as -> by (apply upair_true; auto). reflexivity.
  - replace (m + Datatypes.S i - 1)%nat with (Datatypes.S m + i - 1)%nat by lia. replace (m + Datatypes.S i)%nat with (Datatypes.S m + i)%nat by lia.
    now rewrite (IH (Datatypes.S m) i o k nm ltac:(lia) Hi).
Qed.

Lemma step_order_sym : forall l m x y, step_order l m x y = step_order l m y x.
Proof.
  induction l as [|[[o k] nm] r IH]; intros m x y; cbn [step_order]; [reflexivity|]. now rewrite (IH (Datatypes.S m) x y), (upair_flip x y).
Qed.

Section Path.
  Variable A : pystr -> attrs.

  Record pre (g : graph) (m : nat) : Prop := {
    pre_wf : wf_graph g;
    pre_adj : adj_nodup g;
    pre_keys : node_keys g = map Z.of_nat (seq 0 m);
    pre_pos : (0 < m)%nat }.

  Lemma pre_has g m : pre g m -> forall k, has_node g k = true <-> exists p, (p < m)%nat /\ k = Z.of_nat p.
  Proof.
    intros P k. rewrite gfind_has, (pre_keys _ _ P), in_map_iff. split.
    - intros (p & <- & Hp). apply in_seq in Hp. exists p. split; [lia|reflexivity].
    - intros (p & Hp & ->). exists p. split; [reflexivity|apply in_seq; lia].
  Qed.

  (** one step: node m with attributes a, bonded to node m-1 with order o *)
  Lemma step_facts g m a o : pre g m ->
    let g' := add_edge (add_node g (Z.of_nat m) a) (Z.of_nat (m - 1)) (Z.of_nat m) (eorder o) in
    pre g' (Datatypes.S m) /\
    (forall p, (p < m)%nat -> node_attrs g' (Z.of_nat p) = node_attrs g (Z.of_nat p)) /\
    node_attrs g' (Z.of_nat m) = Ok a /\
    (forall x y, edge_attrs g' x y = if upair x y (Z.of_nat (m - 1)) (Z.of_nat m) then Ok (eorder o) else edge_attrs g x y).
  Proof.
    intros P g'. pose proof (pre_pos _ _ P) as Hm.
    assert (Hnew : has_node g (Z.of_nat m) = false).
    { destruct (has_node g (Z.of_nat m)) eqn:E; [|reflexivity]. apply (pre_has g m P) in E as (p & Hp & E). lia. }
    assert (Hprev : has_node g (Z.of_nat (m - 1)) = true) by (apply (pre_has g m P); exists (m - 1)%nat; split; [lia|reflexivity]).
    set (g1 := add_node g (Z.of_nat m) a).
    assert (H1new : has_node g1 (Z.of_nat m) = true) by (unfold g1; rewrite GraphLemmas.has_node_add_node, Z.eqb_refl; apply orb_true_r).
    assert (H1prev : has_node g1 (Z.of_nat (m - 1)) = true) by (unfold g1; rewrite GraphLemmas.has_node_add_node, Hprev; reflexivity).
    assert (Nuv : Z.of_nat (m - 1) <> Z.of_nat m) by lia.
    assert (W1 : wf_graph g1) by (apply wf_add_node; exact (pre_wf _ _ P)).
    assert (Eold : edge_attrs g1 (Z.of_nat (m - 1)) (Z.of_nat m) = Err EKey).
    { apply edge_attrs_err. unfold g1. destruct (has_edge (add_node g (Z.of_nat m) a) (Z.of_nat (m - 1)) (Z.of_nat m)) eqn:E; [|reflexivity].
      rewrite has_edge_attrs, edge_attrs_add_node, <- has_edge_attrs in E. apply (wf_closed _ (pre_wf _ _ P)) in E. congruence. }
    split; [|split; [|split]].
    - constructor.
      + apply wf_add_edge; assumption.
      + apply adj_nodup_add_edge. apply adj_nodup_add_node. exact (pre_adj _ _ P).
      + unfold g'. fold g1. rewrite (keys_add_edge_in g1 _ _ _ H1prev H1new). unfold g1. rewrite keys_add_node, Hnew, (pre_keys _ _ P).
        rewrite seq_S, map_app. reflexivity.
      + lia.
    - intros p Hp. unfold g'. fold g1.
      assert (has_node g (Z.of_nat p) = true) as Hp' by (apply (pre_has g m P); eauto).
      rewrite GraphLemmas.node_attrs_add_edge by (unfold g1; rewrite GraphLemmas.has_node_add_node, Hp'; reflexivity).
      unfold g1. apply GraphLemmas.node_attrs_add_node_other; [lia|exact Hp'].
    - unfold g'. fold g1. rewrite GraphLemmas.node_attrs_add_edge by exact H1new. unfold g1. now apply GraphLemmas.node_attrs_add_node_new.
    - intros x y. unfold g'. fold g1. rewrite (edge_attrs_add_edge g1 _ _ _ x y H1prev H1new Nuv), Eold.
      destruct (upair x y (Z.of_nat (m - 1)) (Z.of_nat m)); [reflexivity|]. unfold g1. apply edge_attrs_add_node.
  Qed.

  Lemma build_facts : forall (l : chainl) g m, pre g m ->
    let G := nx_build_from A g (Z.of_nat m) (Z.of_nat (m - 1)) l in
    pre G (m + length l) /\
    (forall p, (p < m)%nat -> node_attrs G (Z.of_nat p) = node_attrs g (Z.of_nat p)) /\
    (forall i o k nm, nth_error l i = Some (o, k, nm) -> node_attrs G (Z.of_nat (m + i)) = Ok (A nm)) /\
    (forall x y, edge_attrs G x y = match step_order l m x y with Some o => Ok (eorder o) | None => edge_attrs g x y end).
  Proof.
    induction l as [|[[o k] nm] r IH]; intros g m P G.
    - unfold G. cbn [PathRound.nx_build_from length step_order]. rewrite Nat.add_0_r. split; [exact P|]. split; [reflexivity|]. split; [|reflexivity].
      intros i ? ? ? Hi. destruct i; discriminate Hi.
    - destruct (step_facts g m (A nm) o P) as (P' & N1 & N2 & E1).
      set (g' := add_edge (add_node g (Z.of_nat m) (A nm)) (Z.of_nat (m - 1)) (Z.of_nat m) (eorder o)) in *.
      assert (EG : G = nx_build_from A g' (Z.of_nat (Datatypes.S m)) (Z.of_nat (Datatypes.S m - 1)) r).
      { unfold G. cbn [PathRound.nx_build_from]. fold g'. f_equal; lia. }
      destruct (IH g' (Datatypes.S m) P') as (P2 & M1 & M2 & E2). rewrite <- EG in P2, M1, M2, E2.
      split; [|split; [|split]].
      + replace (m + length ((o, k, nm) :: r))%nat with (Datatypes.S m + length r)%nat by (cbn [length]; lia). exact P2.
      + intros p Hp. rewrite M1 by lia. now apply N1.
      + intros i o' k' nm' Hi. destruct i as [|i]; cbn [nth_error] in Hi.
        * inversion Hi; subst. rewrite Nat.add_0_r, M1 by lia. exact N2.
        * replace (m + Datatypes.S i)%nat with (Datatypes.S m + i)%nat by lia. exact (M2 i o' k' nm' Hi).
      + intros x y. rewrite E2. cbn [step_order]. destruct (step_order r (Datatypes.S m) x y); [reflexivity|]. rewrite E1.
        destruct (upair x y (Z.of_nat (m - 1)) (Z.of_nat m)); reflexivity.
  Qed.

  Lemma wf_gempty : wf_graph gempty.
  Proof. constructor; [constructor|intros ? ? H; discriminate H|reflexivity|reflexivity]. Qed.

  (** the path graph the reader builds *)
  Theorem path_facts nm0 (l : chainl) :
    let G := nx_build A nm0 l in
    wf_graph G /\ adj_nodup G /\ node_keys G = map Z.of_nat (seq 0 (Datatypes.S (length l))) /\
    node_attrs G 0 = Ok (A nm0) /\
    (forall i o k nm, nth_error l i = Some (o, k, nm) -> node_attrs G (Z.of_nat (Datatypes.S i)) = Ok (A nm)) /\
    (forall x y, edge_attrs G x y = match step_order l 1 x y with Some o => Ok (eorder o) | None => Err EKey end).
  Proof.
    intros G. set (g0 := add_node gempty 0 (A nm0)).
    assert (P0 : pre g0 1).
    { constructor; [apply wf_add_node, wf_gempty|apply adj_nodup_add_node; intros n []|reflexivity|lia]. }
    destruct (build_facts l g0 1 P0) as (P & M1 & M2 & E). change (nx_build_from A g0 (Z.of_nat 1) (Z.of_nat (1 - 1)) l) with G in *.
    split; [exact (pre_wf _ _ P)|]. split; [exact (pre_adj _ _ P)|]. split; [exact (pre_keys _ _ P)|]. split; [|split].
    - exact (M1 0%nat ltac:(lia)).
    - intros i o k nm Hi. exact (M2 i o k nm Hi).
    - intros x y. rewrite E. destruct (step_order l 1 x y); [reflexivity|]. unfold g0, edge_attrs, add_node, gempty. cbn. destruct x; reflexivity.
  Qed.
End Path.

(** ---------------------------------------------------------------- a chain of parts *)
Record chain_cut (C : cut) (nm0 : pystr) (l : chainl) : Prop := {
  cc_names : map fst (c_parts C) = PathRound.path_names nm0 l;
  cc_orders : forall i o k nm, nth_error l i = Some (o, k, nm) -> o = Z.of_nat (length (cutpairs C i (Datatypes.S i)));
  cc_consecutive : forall b, In b (cuts C) ->
     owner C (cb_v b) = Datatypes.S (owner C (cb_u b)) \/ owner C (cb_u b) = Datatypes.S (owner C (cb_v b)) }.

Theorem chain_is_base C A nm0 l : wf_cut C -> chain_cut C nm0 l ->
  (forall n, In n (PathRound.path_names nm0 l) -> aget (S "fragname") (A n) = Some (VStr n)) ->
  is_base C (nx_build A nm0 l).
Proof.
  intros W [Hn Ho Hc] HA. destruct (path_facts A nm0 l) as (Wf & Adj & Keys & N0 & Ni & E). set (G := nx_build A nm0 l) in *.
  assert (Hlen : length (c_parts C) = Datatypes.S (length l)).
  { rewrite <- (map_length fst), Hn. unfold PathRound.path_names. cbn [length]. now rewrite map_length. }
  assert (Hstep : forall a b d, edge_attrs G a b = Ok d -> exists i o k nm, nth_error l i = Some (o, k, nm) /\ d = eorder o /\
            ((a = Z.of_nat i /\ b = Z.of_nat (Datatypes.S i)) \/ (a = Z.of_nat (Datatypes.S i) /\ b = Z.of_nat i))).
  { intros a b d Ed. rewrite E in Ed. destruct (step_order l 1 a b) as [o|] eqn:Es; [|discriminate Ed]. inversion Ed; subst d.
    destruct (step_order_some l 1 a b o ltac:(lia) Es) as (i & k & nm & Hi & U). exists i, o, k, nm. split; [exact Hi|]. split; [reflexivity|].
    apply upair_true in U. replace (1 + i - 1)%nat with i in U by lia. replace (1 + i)%nat with (Datatypes.S i) in U by lia. exact U. }
  constructor.
  - rewrite Keys, Hlen. reflexivity.
  - intros p name xs Hp.
    assert (nth_error (PathRound.path_names nm0 l) p = Some name) as Hname by (rewrite <- Hn; now rewrite (map_nth_error fst _ _ Hp)).
    assert (In name (PathRound.path_names nm0 l)) as Hin by (eapply nth_error_In; eauto).
    exists (A name). split; [|now apply HA]. unfold PathRound.path_names in Hname. destruct p as [|p]; cbn [nth_error] in Hname.
    + inversion Hname; subst. exact N0.
    + destruct (nth_error l p) as [[[o k] nm]|] eqn:El; [|rewrite nth_error_map, El in Hname; discriminate Hname].
      rewrite (map_nth_error snd _ _ El) in Hname. inversion Hname; subst. exact (Ni p o k name El).
  - intros a b d Hin. pose proof (edges_data_attrs G a b d (wf_nodup _ Wf) Adj Hin) as Ed.
    destruct (Hstep a b d Ed) as (i & o & k & nm & Hi & -> & Hab).
    assert (i < length l)%nat as Li by (apply nth_error_Some; congruence).
    destruct Hab as [[-> ->]|[-> ->]]; [exists i, (Datatypes.S i)|exists (Datatypes.S i), i]; (split; [reflexivity|]); (split; [reflexivity|]);
      (split; [lia|]); (split; [lia|]); (split; [lia|]); cbn [eorder aget]; change (str_eqb (S "order") (S "order")) with true; cbv iota.
    + now rewrite (Ho i o k nm Hi).
    + rewrite (Ho i o k nm Hi). now rewrite (cutpairs_len_sym C W).
  - exact (edges_data_once G (wf_nodup _ Wf) Adj).
  - intros b Hb. destruct (cut_ends C W b Hb) as (Fu & Fv & _).
    pose proof (owner_lt C (wc_nodup C W) _ Fu) as Lu. pose proof (owner_lt C (wc_nodup C W) _ Fv) as Lv.
    assert (has_edge G (Z.of_nat (owner C (cb_u b))) (Z.of_nat (owner C (cb_v b))) = true) as He.
    { rewrite has_edge_attrs, E.
      destruct (Hc b Hb) as [Q|Q]; rewrite Q.
      - destruct (nth_error l (owner C (cb_u b))) as [[[o k] nm]|] eqn:El; [|apply nth_error_None in El; lia].
        pose proof (step_order_at l 1 _ o k nm ltac:(lia) El) as St. replace (1 + owner C (cb_u b) - 1)%nat with (owner C (cb_u b)) in St by lia.
        replace (1 + owner C (cb_u b))%nat with (Datatypes.S (owner C (cb_u b))) in St by lia. now rewrite St.
      - destruct (nth_error l (owner C (cb_v b))) as [[[o k] nm]|] eqn:El; [|apply nth_error_None in El; lia].
        pose proof (step_order_at l 1 _ o k nm ltac:(lia) El) as St. replace (1 + owner C (cb_v b) - 1)%nat with (owner C (cb_v b)) in St by lia.
        replace (1 + owner C (cb_v b))%nat with (Datatypes.S (owner C (cb_v b))) in St by lia.
        assert (step_order l 1 (Z.of_nat (Datatypes.S (owner C (cb_v b)))) (Z.of_nat (owner C (cb_v b))) = Some o) as St' by (now rewrite step_order_sym).
        now rewrite St'. }
    rewrite <- (SortGraphProofs.edges_data_spec G Wf) in He. apply existsb_exists in He as ([[u v] d] & Hin & U). cbn [fst snd] in U.
    unfold SquashProofs.eqpair in U. unfold edges_list.
    apply orb_true_iff in U as [U|U]; apply andb_true_iff in U as [U1 U2]; apply Z.eqb_eq in U1; apply Z.eqb_eq in U2; subst u v;
      [left|right]; apply in_map_iff; eexists; (split; [|exact Hin]); reflexivity.
Qed.

(** ---------------------------------------------------------------- the chain TEXT *)
From CGV Require Import Resolve.Pipeline Resolve.PipelineFull Dialect.DriverFaults.
From CGV Require Hydro.Squash.
From CGV Require Import Compose.CutSkeleton Compose.TextCut.

Definition chain_body (nm0 : pystr) (l : chainl) : pystr := Lin.lins_str (PathRound.path_lins nm0 l).

(** what is asked of a node name n: the grammar accepts it, the node parser returns A n, whose fragname is n and which
    has no atomname; no closing brace in it (plain names: Write/PathRound.plain_attrs) *)
Record name_plain (fo : float_oracle) (A : pystr -> attrs) (n : pystr) : Prop := {
  np_ok : Grammar.name_ok fo n = true;
  np_parse : parse_graph_base_node fo n = Ok (A n);
  np_fragname : aget (S "fragname") (A n) = Some (VStr n);
  np_atomname : aget (S "atomname") (A n) = None;
  np_brace : ~ In "}"%char n }.

Lemma chain_read fo A nm0 l :
  Forall (fun x => 0 <= fst (fst x) <= 4) l -> Forall (name_plain fo A) (PathRound.path_names nm0 l) ->
  ReaderImpl.read_cgsmiles fo (block_of (chain_body nm0 l)) = Ok (nx_build A nm0 l).
Proof.
  intros Ho Hn.
  assert (Hn1 : Forall (fun n => Grammar.name_ok fo n = true) (PathRound.path_names nm0 l)) by (eapply Forall_impl; [|exact Hn]; intros n H; exact (np_ok _ _ _ H)).
  assert (Hp : Forall (fun n => parse_graph_base_node fo n = Ok (A n)) (PathRound.path_names nm0 l)) by (eapply Forall_impl; [|exact Hn]; intros n H; exact (np_parse _ _ _ H)).
  destruct (PathRound.path_lins_ok fo l nm0 Hn1) as [A1 [A2 A3]].
  unfold block_of, chain_body. rewrite ReaderSim.reader_sim_lin.
  - unfold Lin.denote_lin. rewrite (PathRound.m_run_path fo A l nm0 Grammar.m_init Hp Ho). reflexivity.
  - unfold Lin.lins_ok. rewrite A1, A2. cbn [andb]. destruct (PathRound.path_lins nm0 l) as [|i t]; [reflexivity|]. now rewrite A3.
Qed.

Lemma osym_nobrace b : ~ In "}"%char (Grammar.osym_str b).
Proof. destruct b as [[]|]; cbn; intuition discriminate. Qed.
Lemma chain_body_nobrace : forall l nm0, Forall (fun n => ~ In "}"%char n) (PathRound.path_names nm0 l) -> ~ In "}"%char (chain_body nm0 l).
Proof.
  unfold chain_body, Lin.lins_str.
  assert (X : forall nm b, ~ In "}"%char nm -> ~ In "}"%char (Lin.lin_str (PathRound.plin nm b))).
  { intros nm b H. rewrite PathRound.lin_str_plin. intros Hin. apply in_app_or in Hin as [Hin|Hin]; [cbn in Hin; intuition discriminate|].
    apply in_app_or in Hin as [Hin|Hin]; [contradiction|]. apply in_app_or in Hin as [Hin|Hin]; [cbn in Hin; intuition discriminate|].
    exact (osym_nobrace b Hin). }
  induction l as [|[[o k] nm'] r IH]; intros nm0 F; unfold PathRound.path_names in F; cbn [PathRound.path_lins flat_map].
  - rewrite app_nil_r. apply X. exact (Forall_inv F).
  - intros Hin. apply in_app_or in Hin as [Hin|Hin]; [exact (X _ _ (Forall_inv F) Hin)|]. exact (IH nm' (Forall_inv_tail F) Hin).
Qed.
Lemma chain_body_nonempty l nm0 : chain_body nm0 l <> [].
Proof. unfold chain_body, Lin.lins_str. destruct l as [|[[o k] nm'] r]; cbn [PathRound.path_lins flat_map]; rewrite PathRound.lin_str_plin; discriminate. Qed.

Lemma chain_no_atomname A nm0 l : (forall n, In n (PathRound.path_names nm0 l) -> aget (S "atomname") (A n) = None) ->
  get_node_attributes (nx_build A nm0 l) (S "atomname") = [].
Proof.
  intros H. destruct (path_facts A nm0 l) as (Wf & _ & Keys & N0 & Ni & _). rewrite (gna_by_keys _ _ (wf_nodup _ Wf)), Keys.
  assert (X : forall p, In p (seq 0 (Datatypes.S (length l))) -> node_get (nx_build A nm0 l) (Z.of_nat p) (S "atomname") = None).
  { intros p Hp. apply in_seq in Hp. destruct p as [|p].
    - rewrite (node_get_attrs _ _ _ _ N0). apply H. now left.
    - destruct (nth_error l p) as [[[o k] nm]|] eqn:El; [|apply nth_error_None in El; lia].
      rewrite (node_get_attrs _ _ _ _ (Ni p o k nm El)). apply H. right. apply in_map_iff. exists (o, k, nm). split; [reflexivity|eapply nth_error_In; eauto]. }
  revert X. generalize (seq 0 (Datatypes.S (length l))). intros L. induction L as [|p r IH]; intros X; [reflexivity|]. cbn [map flat_map].
  rewrite (X p (or_introl eq_refl)). cbn [app]. apply IH. intros q Hq. apply X. now right.
Qed.

(** C01 at text level for a chain of parts: NO hypothesis on the base graph is left to compute *)
Theorem chain_text_level_skeleton fo A C nm0 l defs : wf_cut C -> chain_cut C nm0 l ->
  Forall (fun x => 0 <= fst (fst x) <= 4) l -> Forall (name_plain fo A) (PathRound.path_names nm0 l) ->
  defs <> [] -> defs_ok fo C defs -> heavy_atoms C ->
  exists st fd m1 fg1 m2 fg2,
    from_text fo (cut_string_of (chain_body nm0 l) defs) = Ok st /\ st_mol st = nx_build A nm0 l /\ st_dicts st = [fd] /\ is_all_atom st = true /\
    st_legacy st = true /\ templates_ok C fd /\
    resolve_disconnected fd (next_meta (st_mol st)) = Ok (m1, fg1) /\
    bonding_step true true (next_meta (st_mol st)) m1 fg1 = Ok (m2, fg2) /\
    skeleton C true m2 /\ adj_nodup m2 /\ wf_graph m2 /\ Squash.squash_atoms m2 = Ok m2.
Proof.
  intros W CC Ho Hn Hne Hdefs Hat. rewrite Forall_forall in Hn.
  apply (text_level_skeleton_body fo C (chain_body nm0 l) defs (nx_build A nm0 l) W); auto.
  - apply chain_body_nonempty.
  - apply chain_body_nobrace. apply Forall_forall. intros n Hin. exact (np_brace _ _ _ (Hn n Hin)).
  - apply chain_read; [exact Ho|now apply Forall_forall].
  - apply chain_is_base; [exact W|exact CC|]. intros n Hin. exact (np_fragname _ _ _ (Hn n Hin)).
  - apply chain_no_atomname. intros n Hin. exact (np_atomname _ _ _ (Hn n Hin)).
Qed.

(** ---------------------------------------------------------------- non-vacuity: ethyl acetate along the chain A - B - C *)
From CGV Require Import Compose.CutSpecDefs Compose.CutSpecCheck Compose.TextCutExamples.
Definition ea_chain : chainl := [(1, 0, S "B"); (1, 0, S "C")].
Lemma ea_names_plain : Forall (name_plain fo0 PathRound.plain_attrs) (PathRound.path_names (S "A") ea_chain).
Proof.
  repeat constructor; try (vm_compute; reflexivity); intros H; cbn in H; intuition discriminate.
Qed.
Lemma ea_chain_cut : chain_cut ea_cut (S "A") ea_chain.
Proof.
  constructor.
  - reflexivity.
  - intros i o k nm Hi. destruct i as [|[|i]]; cbn in Hi; [inversion Hi; subst; vm_compute; reflexivity|inversion Hi; subst; vm_compute; reflexivity|destruct i; discriminate Hi].
  - intros b Hb. vm_compute in Hb. destruct Hb as [<-|[<-|[]]]; vm_compute; auto.
Qed.
Example ea_chain_text_level_skeleton :
  to_string (cut_string_of (chain_body (S "A") ea_chain) ea_defs) = "{[#A][#B][#C]}.{#A=O=C(C)[$a],#B=[$a]O[>b],#C=[<b]CC}"%string /\
  exists st fd m1 fg1 m2 fg2,
    from_text fo0 (cut_string_of (chain_body (S "A") ea_chain) ea_defs) = Ok st /\ st_dicts st = [fd] /\ templates_ok ea_cut fd /\
    resolve_disconnected fd (next_meta (st_mol st)) = Ok (m1, fg1) /\
    bonding_step true true (next_meta (st_mol st)) m1 fg1 = Ok (m2, fg2) /\ skeleton ea_cut true m2.
Proof.
  split; [vm_compute; reflexivity|].
  destruct ea_hypotheses as (H1 & _ & _ & _ & _ & H5 & H6).
  destruct (chain_text_level_skeleton fo0 PathRound.plain_attrs ea_cut (S "A") ea_chain ea_defs (wf_cutb_sound _ H1) ea_chain_cut
              ltac:(repeat constructor; cbn; lia) ea_names_plain ltac:(discriminate) (defs_okb_sound _ _ _ H5) (all_atom_payloadb_sound _ H6))
    as (st & fd & m1 & fg1 & m2 & fg2 & A1 & _ & A3 & _ & _ & A5 & A6 & A7 & A8 & _).
  exists st, fd, m1, fg1, m2, fg2. auto 10.
Qed.
