(** TextIso: C01's last sentence at TEXT level.  Two CGsmiles strings that describe ONE molecule - two well-formed cuts
    related by AnyCut.same_mol: any two partitions into fragments (cuts placed anywhere), the parts listed in any order in
    the base graph, every fragment written from any start atom with any branch order / ring digits / descriptor positions
    the renderer admits - are read by the string-level driver model (TextCut.from_text) into states whose first all-atom
    resolve(), whenever both return, give ISOMORPHIC molecules: the explicit map (atom x of string 1 |-> atom x of string 2,
    i-th fresh hydrogen of x |-> i-th fresh hydrogen of x, composed with the two sorting permutations) preserves adjacency,
    bond orders and the atoms' attributes.  Hypothesis kept between the runs: the aromaticity transcripts of the two runs
    satisfy Hydro's contract ([transcript_ok]) and give the same order to the same bond ([corr_orders]); the identity
    transcripts are an instance when no atom is aromatic (ReturnedIsoCar.transcript_ok_id / corr_orders_id). *)
From Coq Require Import String.
From Coq Require Import List Ascii ZArith Bool Lia Permutation.
From CGV Require Import Base.PyBase Base.PyVal Base.NxGraph Dialect.DialectImpl.
From CGV Require Reader.Grammar.
From CGV Require Import Resolve.Bonding Resolve.GraphOps Resolve.Pipeline Resolve.PipelineFull Resolve.CopyProofs.
From CGV Require Hydro.Hydrogens.
From CGV Require Import Compose.CutModel Compose.CutPos Compose.CutSpecDefs Compose.CutSpecCheck Compose.PyEq Compose.ComposeFlat Compose.OrderIndep
     Compose.Transcript Compose.CutIsoCar Compose.ReturnedIso Compose.AnyCut Compose.TextCut.
Import ListNotations.
Open Scope Z_scope.

(** a cut written as a string: the text hypotheses of TextCut.text_level_skeleton, as one record *)
Record written (fo : float_oracle) (C : cut) (a : Grammar.chain) (defs : list fdef) (B : graph) : Prop := {
  wr_wf : Grammar.wf fo a = true;
  wr_nomult : Grammar.has_branch_mult a = false;
  wr_nobrace : ~ In "}"%char (Grammar.print_chain a);
  wr_denote : Grammar.denote fo a = Ok B;
  wr_base : is_base C B;
  wr_names : get_node_attributes B (S "atomname") = [];
  wr_nonempty : defs <> [];
  wr_defs : defs_ok fo C defs }.
Definition writtenb (fo : float_oracle) (C : cut) (a : Grammar.chain) (defs : list fdef) : bool :=
  Grammar.wf fo a && negb (Grammar.has_branch_mult a) && chars_lackb ["}"%char] (Grammar.print_chain a)
  && match Grammar.denote fo a with
     | Ok B => is_baseb C B && match get_node_attributes B (S "atomname") with [] => true | _ => false end
     | Err _ => false end
  && match defs with [] => false | _ => true end && defs_okb fo C defs.
Lemma writtenb_sound fo C a defs : writtenb fo C a defs = true -> exists B, written fo C a defs B.
Proof.
  unfold writtenb. intros H. apply andb_prop in H as [H H6]. apply andb_prop in H as [H H5]. apply andb_prop in H as [H H4].
  apply andb_prop in H as [H H3]. apply andb_prop in H as [H1 H2]. apply negb_true_iff in H2.
  destruct (Grammar.denote fo a) as [B|] eqn:ED; [|discriminate H4]. apply andb_prop in H4 as [Hb Hn]. exists B. constructor; auto.
  - apply (chars_lackb_sound _ _ _ H3). now left.
  - now apply is_baseb_sound.
  - destruct (get_node_attributes B (S "atomname")); [reflexivity|discriminate Hn].
  - destruct defs; [discriminate H5|discriminate].
  - now apply defs_okb_sound.
Qed.

Theorem written_from_text fo C a defs B : wf_cut C -> written fo C a defs B ->
  exists fd, from_text fo (cut_string a defs) = Ok (init B [fd] true true) /\ templates_ok C fd /\ is_base C (next_meta B).
Proof.
  intros W [H1 H2 H3 H4 H5 H6 H7 H8]. destruct (text_from_string fo C a defs B H1 H2 H3 H4 H7 H8) as (fd & Hs & HT).
  exists fd. split; [exact Hs|]. split; [exact HT|]. unfold next_meta. rewrite H6. exact H5.
Qed.

(** two strings, one molecule *)
Theorem text_returned_iso fo C1 C2 a1 defs1 B1 a2 defs2 B2 :
  wf_cut C1 -> wf_cut C2 -> same_mol C1 C2 -> heavy_payload C1 -> heavy_payload C2 ->
  written fo C1 a1 defs1 B1 -> written fo C2 a2 defs2 B2 ->
  exists st1 fd1 st2 fd2,
    from_text fo (cut_string a1 defs1) = Ok st1 /\ st_dicts st1 = [fd1] /\
    from_text fo (cut_string a2 defs2) = Ok st2 /\ st_dicts st2 = [fd2] /\
    forall car1 car2 fo1 fo2 ms1 ms2,
      resolve_step_full (st_legacy st1) (is_all_atom st1) fd1 (st_mol st1) (Some car1) = Ok fo1 ->
      resolve_step_full (st_legacy st2) (is_all_atom st2) fd2 (st_mol st2) (Some car2) = Ok fo2 ->
      transcript_ok (fo_m3 fo1) car1 -> transcript_ok (fo_m3 fo2) car2 -> corr_orders C1 C2 car1 car2 ->
      sort_mapping (fo_m4 fo1) = Ok ms1 -> sort_mapping (fo_m4 fo2) = Ok ms2 ->
      returned_iso_car after_sort_key C1 C2 car1 (fo_m4 fo1) car2 (fo_m4 fo2) (fo_mol fo1) (fo_mol fo2) ms1 ms2.
Proof.
  intros W1 W2 SM P1 P2 Wr1 Wr2.
  destruct (written_from_text fo C1 a1 defs1 B1 W1 Wr1) as (fd1 & S1 & T1 & Bs1).
  destruct (written_from_text fo C2 a2 defs2 B2 W2 Wr2) as (fd2 & S2 & T2 & Bs2).
  exists (init B1 [fd1] true true), fd1, (init B2 [fd2] true true), fd2.
  split; [exact S1|]. split; [reflexivity|]. split; [exact S2|]. split; [reflexivity|].
  intros car1 car2 fo1 fo2 ms1 ms2 R1 R2 K1 K2 Corr M1 M2.
  change (resolve_step_full true true fd1 B1 (Some car1) = Ok fo1) in R1. change (resolve_step_full true true fd2 B2 (Some car2) = Ok fo2) in R2.
  now destruct (returned_graphs_iso_any C1 C2 fd1 fd2 B1 B2 car1 car2 fo1 fo2 ms1 ms2 W1 SM W2 P1 P2 T1 Bs1 T2 Bs2 R1 R2 K1 K2 Corr M1 M2) as (_ & _ & H).
Qed.

(** ---------------------------------------------------------------- a test for same_mol *)
Definition attrs_but_h_eqb (a b : attrs) : bool :=
  forallb (fun k => str_eqb k (S "hcount") || oeqb (aget k a) (aget k b)) (map fst a ++ map fst b).
Lemma aget_notin k a : ~ In k (map fst a) -> aget k a = None.
Proof.
  induction a as [|[k' v] r IH]; cbn [aget map fst]; intros H; [reflexivity|].
  destruct (str_eqb_spec k k') as [->|N]; [exfalso; apply H; now left|]. apply IH. intros Hin. apply H. now right.
Qed.
Lemma attrs_but_h_eqb_sound a b : attrs_but_h_eqb a b = true -> forall key, key <> S "hcount" -> aget key a = aget key b.
Proof.
  unfold attrs_but_h_eqb. rewrite forallb_forall. intros H key Hk.
  destruct (in_dec (list_eq_dec Ascii.ascii_dec) key (map fst a ++ map fst b)) as [Hin|Hn].
  - specialize (H key Hin). apply orb_prop in H as [H|H]; [apply str_eqb_eq in H; contradiction|now apply oeqb_sound].
  - rewrite !aget_notin; [reflexivity| |]; intros X; apply Hn; apply in_or_app; auto.
Qed.
Definition bond_simb (b b' : cbond) : bool :=
  Z.eqb (cb_u b') (cb_u b) && Z.eqb (cb_v b') (cb_v b) && pyval_eqb (cb_ord b') (cb_ord b).
Definition same_molb (C1 C2 : cut) : bool :=
  forallb (fun x => attrs_but_h_eqb (payload C2 x) (payload C1 x)) (map fst (c_atoms C1) ++ map fst (c_atoms C2))
  && (Nat.eqb (length (c_bonds C1)) (length (c_bonds C2)) && forallb (fun bb => bond_simb (fst bb) (snd bb)) (combine (c_bonds C1) (c_bonds C2)))
  && nodupzb (flat C1) && nodupzb (flat C2)
  && forallb (fun x => zmem x (flat C1)) (flat C2) && forallb (fun x => zmem x (flat C2)) (flat C1).
Lemma payload_notin C x : ~ In x (map fst (c_atoms C)) -> payload C x = [].
Proof.
  unfold payload. intros H. destruct (find (fun kv => Z.eqb (fst kv) x) (c_atoms C)) as [kv|] eqn:F; [|reflexivity].
  apply find_some in F as [Hin E]. apply Z.eqb_eq in E. exfalso. apply H. rewrite <- E. now apply in_map.
Qed.
Lemma same_molb_sound C1 C2 : same_molb C1 C2 = true -> same_mol C1 C2.
Proof.
  unfold same_molb. intros H. apply andb_prop in H as [H H6]. apply andb_prop in H as [H H5]. apply andb_prop in H as [H H4].
  apply andb_prop in H as [H H3]. apply andb_prop in H as [H1 H2]. constructor.
  - intros x key Hk. destruct (in_dec Z.eq_dec x (map fst (c_atoms C1) ++ map fst (c_atoms C2))) as [Hin|Hn].
    + rewrite forallb_forall in H1. exact (attrs_but_h_eqb_sound _ _ (H1 x Hin) key Hk).
    + rewrite !payload_notin; [reflexivity| |]; intros X; apply Hn; apply in_or_app; auto.
  - apply andb_prop in H2 as [HL HF]. apply Nat.eqb_eq in HL. revert HL HF. generalize (c_bonds C2). induction (c_bonds C1) as [|b r IH]; intros [|b' r'] HL HF; try discriminate; [constructor|].
    cbn [combine forallb fst snd] in HF. apply andb_prop in HF as [E HF]. constructor; [|apply IH; [now inversion HL|exact HF]].
    unfold bond_simb in E. apply andb_prop in E as [E E3]. apply andb_prop in E as [E1 E2]. apply Z.eqb_eq in E1. apply Z.eqb_eq in E2.
    apply pyval_eqb_sound in E3. repeat split; assumption.
  - apply NoDup_Permutation; [now apply nodupzb_sound|now apply nodupzb_sound|]. rewrite forallb_forall in H5, H6.
    intros x. split; intros Hx; apply zmem_In; auto.
Qed.

(** ---------------------------------------------------------------- the identity transcript: no hypothesis between the runs
    When the aromaticity pass changes nothing (the recorded graph IS the graph after squash_atoms; no aromatic atom) and
    every cut bond is re-created with the molecule's own order ([faithful]: an integer order between atoms that are not
    both aromatic), the two transcript hypotheses and [corr_orders] hold by themselves. *)
From CGV Require Import Compose.CutSkeleton Compose.CutWf Compose.ReturnedIsoCar.
Definition faithful (C : cut) : Prop := forall b, In b (cuts C) -> cut_faithful C b = true.
Definition faithfulb (C : cut) : bool := forallb (cut_faithful C) (cuts C).
Lemma faithfulb_sound C : faithfulb C = true -> faithful C.
Proof. unfold faithfulb, faithful. rewrite forallb_forall. auto. Qed.
Lemma result_order_faithful C x y : faithful C -> result_order C x y = option_map cb_ord (find_bond C x y).
Proof.
  intros F. unfold result_order. destruct (find_bond C x y) as [b|] eqn:E; [|reflexivity]. cbn [option_map]. f_equal.
  destruct (is_cut C b) eqn:Ic; [|reflexivity]. apply find_some in E as [Hb _].
  assert (In b (cuts C)) as Hc by (unfold cuts; apply filter_In; auto). specialize (F b Hc). unfold cut_faithful in F. now apply pyval_eqb_sound.
Qed.
Lemma corr_orders_id_any C1 C2 m1 m2 : same_mol C1 C2 -> faithful C1 -> faithful C2 ->
  skeleton C1 true m1 -> skeleton C2 true m2 -> corr_orders C1 C2 m1 m2.
Proof.
  intros SM F1 F2 S1 S2 x y Fx Fy. destruct (sk_edges _ _ _ S1 x y Fx Fy) as (_ & -> & _).
  assert (In x (flat C2) /\ In y (flat C2)) as [Fx2 Fy2] by (split; eapply sm_flat_in; eauto).
  destruct (sk_edges _ _ _ S2 x y Fx2 Fy2) as (_ & -> & _). rewrite !result_order_faithful by assumption.
  pose proof (sm_find_bond C1 C2 SM x y) as H. destruct (find_bond C1 x y) as [b|], (find_bond C2 x y) as [b'|]; try contradiction; [|reflexivity].
  destruct H as (_ & _ & E). cbn [option_map]. now rewrite E.
Qed.

Theorem text_returned_iso_id fo C1 C2 a1 defs1 B1 a2 defs2 B2 :
  wf_cut C1 -> wf_cut C2 -> same_mol C1 C2 -> heavy_payload C1 -> heavy_payload C2 -> faithful C1 -> faithful C2 ->
  written fo C1 a1 defs1 B1 -> written fo C2 a2 defs2 B2 ->
  exists st1 fd1 st2 fd2,
    from_text fo (cut_string a1 defs1) = Ok st1 /\ st_dicts st1 = [fd1] /\
    from_text fo (cut_string a2 defs2) = Ok st2 /\ st_dicts st2 = [fd2] /\
    forall fo1 fo2 ms1 ms2,
      resolve_step_full (st_legacy st1) (is_all_atom st1) fd1 (st_mol st1) (Some (fo_m3 fo1)) = Ok fo1 ->
      resolve_step_full (st_legacy st2) (is_all_atom st2) fd2 (st_mol st2) (Some (fo_m3 fo2)) = Ok fo2 ->
      sort_mapping (fo_m4 fo1) = Ok ms1 -> sort_mapping (fo_m4 fo2) = Ok ms2 ->
      returned_iso_car after_sort_key C1 C2 (fo_m3 fo1) (fo_m4 fo1) (fo_m3 fo2) (fo_m4 fo2) (fo_mol fo1) (fo_mol fo2) ms1 ms2.
Proof.
  intros W1 W2 SM P1 P2 F1 F2 Wr1 Wr2.
  destruct (written_from_text fo C1 a1 defs1 B1 W1 Wr1) as (fd1 & S1 & T1 & Bs1).
  destruct (written_from_text fo C2 a2 defs2 B2 W2 Wr2) as (fd2 & S2 & T2 & Bs2).
  exists (init B1 [fd1] true true), fd1, (init B2 [fd2] true true), fd2.
  split; [exact S1|]. split; [reflexivity|]. split; [exact S2|]. split; [reflexivity|].
  intros fo1 fo2 ms1 ms2 R1 R2 M1 M2.
  change (resolve_step_full true true fd1 B1 (Some (fo_m3 fo1)) = Ok fo1) in R1. change (resolve_step_full true true fd2 B2 (Some (fo_m3 fo2)) = Ok fo2) in R2.
  destruct (all_atom_step_car C1 fd1 B1 _ fo1 W1 T1 Bs1 P1 R1) as (Sk1 & E1 & Ak1 & _).
  destruct (all_atom_step_car C2 fd2 B2 _ fo2 W2 T2 Bs2 P2 R2) as (Sk2 & E2 & Ak2 & _).
  assert (corr_orders C1 C2 (fo_m3 fo1) (fo_m3 fo2)) as Corr by (rewrite E1, E2; now apply corr_orders_id_any).
  now destruct (returned_graphs_iso_any C1 C2 fd1 fd2 B1 B2 _ _ fo1 fo2 ms1 ms2 W1 SM W2 P1 P2 T1 Bs1 T2 Bs2 R1 R2
                  (transcript_ok_id C1 _ Ak1) (transcript_ok_id C2 _ Ak2) Corr M1 M2) as (_ & _ & H).
Qed.
