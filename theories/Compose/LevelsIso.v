(** LevelsIso: any number of coarse levels followed by the all-atom level, against the flat description.
    [compose_levels_resolve_iso]: the coarse levels of the layered description return on the driver machine
    ([compose_levels_all_atom]); the last call is the all-atom step from the fine graph they leave; when it and the flat
    all-atom call return (identity aromaticity transcripts), the two RETURNED molecules are isomorphic by the explicit map
    ([ReturnedIso.returned_graphs_iso]): atoms through phi C0 x |-> phi (perm_cut C0 (last_eff U Cs)) x and the two sorting
    permutations, hydrogens through (anchor, rank). *)
From Coq Require Import String.
From Coq Require Import List Ascii ZArith Bool Lia Permutation.
From CGV Require Import Base.PyBase Base.PyVal Base.NxGraph Resolve.Bonding Resolve.GraphOps Resolve.Pipeline Resolve.PipelineFull Resolve.Drivers.
From CGV Require Hydro.Hydrogens.
From CGV Require Import Compose.GraphAdj Compose.CutModel Compose.CutPos Compose.CutSkeleton Compose.CutHydrogens Compose.ComposeFlat Compose.LayeredStep
     Compose.Levels Compose.PartPerm Compose.Completion Compose.CutIso Compose.OrderIndep Compose.ReturnedIso.
Import ListNotations.
Open Scope Z_scope.

Theorem compose_levels_resolve_iso U Cs C0 (lvU : level) (lv : list level) (lv0 : level) Btop fgs0 Bflat fol fof msl msf :
  wf_cut U -> templates_ok U (fst lvU) -> is_base U (next_meta Btop) -> raw_chain U Cs ->
  Forall2 (fun C (l : level) => templates_ok C (fst l)) Cs lv ->
  wf_cut C0 -> coarse_of C0 (last Cs U) -> templates_ok C0 (fst lv0) -> heavy_payload C0 -> numeric_orders C0 ->
  is_base C0 (next_meta Bflat) ->
  exists st' outs,
    (* the coarse levels return *)
    resolve_n level amol dstep (Datatypes.S (length Cs)) (fresh level amol (Btop, fgs0) (lvU :: lv ++ [lv0]) true) = Ok (st', outs) /\
    Forall2 level_ok (U :: effs U Cs) outs /\
    (* the next call is the all-atom step on the last dictionary *)
    uses level amol st' = (Datatypes.S (length Cs), true) /\ nth_error (dicts st') (counter st') = Some lv0 /\
    (* … and when it and the flat call return, the returned molecules are isomorphic *)
    (resolve_step_full true true (fst lv0) Bflat (Some (fo_m3 fof)) = Ok fof ->
     resolve_step_full true true (fst lv0) (fst (molecule st')) (Some (fo_m3 fol)) = Ok fol ->
     sort_mapping (fo_m4 fof) = Ok msf -> sort_mapping (fo_m4 fol) = Ok msl ->
     returned_iso_gen after_sort_key C0 (perm_cut C0 (last_eff U Cs)) (fo_m3 fof) (fo_m4 fof) (fo_m3 fol) (fo_m4 fol) (fo_mol fof) (fo_mol fol) msf msl).
Proof.
  intros WU HTU HBU Hraw Hlv W0 Co0 HT0 Hat Hnum HBf.
  destruct (compose_levels_all_atom U Cs C0 lvU lv lv0 Btop fgs0 WU HTU HBU Hraw Hlv W0 Co0 HT0) as (st' & outs & Er & A5 & Us & Nth & Rest).
  { intros x Fx. destruct (Hat x Fx) as (A & _ & B & _). auto. }
  cbn zeta in Rest. destruct Rest as (WE0 & HB0 & HTE0 & _).
  exists st', outs. split; [exact Er|]. split; [exact A5|]. split; [exact Us|]. split; [exact Nth|]. intros Rf Rl Mf Ml.
  (* perm_cut C0 E is C0 with its parts in another order *)
  assert (pperm C0 (perm_cut C0 (last_eff U Cs))) as PP.
  { constructor; try reflexivity. unfold perm_cut. cbn [c_parts].
    (* the parts list of a well-formed regrouping is a permutation: from the flat lists *)
    pose proof (wc_nodup _ WE0) as Hnd. clear -HB0 WE0 HTE0 W0 Co0 WU Hraw.
    assert (coarse_of C0 (last_eff U Cs)) as Co'.
    { pose proof (raw_eff Cs U U (psim_refl U) Hraw) as Heff. destruct Cs as [|C r] eqn:ECs; [exact Co0|].
      destruct (eff_chain_last (C :: r) U Heff ltac:(discriminate)) as (E1 & EE & _ & CoL). rewrite EE. eapply coarse_of_psim; [apply psim_perm_cut; exact CoL|exact Co0]. }
    exact (parts_perm C0 (last_eff U Cs) Co'). }
  now destruct (returned_graphs_iso C0 _ (fst lv0) (fst lv0) Bflat (fst (molecule st')) fof fol msf msl W0 PP Hat Hnum HT0 HBf HTE0 HB0 Rf Rl Mf Ml) as (_ & _ & _ & _ & _ & _ & H).
Qed.
