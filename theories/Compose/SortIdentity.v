(** SortIdentity: sort_nodes_by_attr on a fine graph that is already in sorted order (keys 0..n-1, fragid non-decreasing
    with the key, no E/Z references) - the situation after the bonding step of a cut, whose fine keys are laid out part
    by part.  The sorting permutation is the identity, so the function returns [rebuilt g]: the same nodes in the same
    order with the same attributes, the edges re-inserted in G.edges order (nx.relabel_nodes(copy=True)); and [rebuilt]
    keeps the [skeleton] of a cut (same edges, same `order` / `bonding` values). *)
From Coq Require Import String.
From Coq Require Import List Ascii ZArith Bool Lia Permutation Sorting.Sorted.
From CGV Require Import Base.PyBase Base.PyVal Base.NxGraph Resolve.Bonding Resolve.GraphOps Resolve.MapProofs Resolve.CopyProofs Resolve.SortProofs
     Hydro.GraphLemmas Hydro.SquashDefs.
From CGV Require Resolve.SortGraphProofs Hydro.SquashProofs.
From CGV Require Import Compose.GraphFacts Compose.GraphAdj Compose.CutModel Compose.CutPos Compose.CutTables Compose.CutDisc Compose.CutSkeleton Compose.CutWf.
Import ListNotations.
Open Scope Z_scope.

Definition rebuilt (g : graph) : graph := add_edges (edges_data g) (map SquashProofs.strip g).

Lemma map_get_diag l k : map_get (combine l l) k = k.
Proof.
  unfold map_get. induction l as [|x r IH]; cbn; [reflexivity|]. destruct (Z.eqb_spec x k) as [->|N]; [reflexivity|exact IH].
Qed.
Lemma gna_nil g a : (forall n, In n g -> aget a (na n) = None) -> get_node_attributes g a = [].
Proof.
  unfold get_node_attributes. induction g as [|n r IH]; intros H; [reflexivity|]. cbn. rewrite (H n (or_introl eq_refl)). cbn. apply IH. intros; apply H; now right.
Qed.

Section Rebuilt.
  Variable g : graph.
  Hypothesis Wf : wf_graph g.
  Hypothesis Adj : adj_nodup g.
  Let Hn := wf_nodup _ Wf.

  Lemma edges_data_pairs e : In e (edges_data g) -> has_node g (eu e) = true /\ has_node g (ev e) = true /\ eu e <> ev e /\ edge_attrs g (eu e) (ev e) = Ok (ed e).
  Proof.
    destruct e as [[u v] d]. unfold eu, ev, ed. cbn [fst snd]. intros Hin. destruct (SortGraphProofs.edges_endpoints g u v d Wf Hin) as [Hu Hv].
    pose proof (edges_data_attrs g u v d Hn Adj Hin) as Ea. repeat split; auto. intros ->. pose proof (edge_attrs_ok_has _ _ _ _ Ea) as He.
    rewrite (wf_loopfree _ Wf) in He. discriminate.
  Qed.

  Lemma rebuilt_spec : node_keys (rebuilt g) = node_keys g /\ (forall k, node_attrs (rebuilt g) k = node_attrs g k) /\
    forall x y, edge_attrs (rebuilt g) x y = match find_edge x y (edges_data g) with Some e => Ok (aupdate [] (ed e)) | None => Err EKey end.
  Proof.
    unfold rebuilt. destruct (add_edges_spec (edges_data g) (map SquashProofs.strip g)) as (K & A & E).
    - intros e He. destruct (edges_data_pairs e He) as (Hu & Hv & N & _).
      repeat split; [| |exact N]; apply gfind_has; rewrite SquashProofs.keys_strip; now apply gfind_has.
    - intros e _. apply SquashProofs.has_edge_strip.
    - pose proof (edges_data_once g Hn Adj) as Once. unfold unordered_nodup, edges_list in Once. apply FOP_map in Once.
      eapply FOP_impl; [|exact Once]. cbn [fst snd]. intros a b _ _ Hne. destruct (upair _ _ _ _) eqn:U; [|reflexivity]. exfalso. apply Hne.
      apply upair_true in U. exact U.
    - split; [rewrite K; apply SquashProofs.keys_strip|]. split.
      + intros k. rewrite A. pose proof (SquashProofs.nattrs_strip g k) as X. unfold nattrs in X. unfold node_attrs.
        destruct (gfind k (map SquashProofs.strip g)), (gfind k g); cbn in X; inversion X; reflexivity.
      + intros x y. rewrite E. destruct (find_edge x y (edges_data g)); [reflexivity|]. apply edge_attrs_err. apply SquashProofs.has_edge_strip.
  Qed.

  Lemma rebuilt_node_get k key : node_get (rebuilt g) k key = node_get g k key.
  Proof. destruct rebuilt_spec as (_ & A & _). now rewrite !node_get_via, A. Qed.
  Lemma rebuilt_adj_nodup : adj_nodup (rebuilt g).
  Proof.
    unfold rebuilt, add_edges. apply fold_left_inv; [intros a e Ha; now apply adj_nodup_add_edge|].
    intros n Hin. apply in_map_iff in Hin as (m & <- & _). constructor.
  Qed.
  Lemma rebuilt_has_node k : has_node (rebuilt g) k = has_node g k.
  Proof. destruct rebuilt_spec as (K & _). now apply has_node_keys_eq. Qed.

  (** an edge of g is listed by G.edges in one of the two directions *)
  Lemma edge_listed x y : has_edge g x y = true -> exists e, find_edge x y (edges_data g) = Some e.
  Proof.
    intros H. rewrite <- (SortGraphProofs.edges_data_spec g Wf) in H. apply existsb_exists in H as (e & Hin & U).
    destruct (find_edge x y (edges_data g)) as [e'|] eqn:F; [eauto|]. unfold find_edge in F. pose proof (find_none _ _ F e Hin) as X. cbn beta in X.
    unfold SquashProofs.eqpair in U. unfold upair, eu, ev in X. congruence.
  Qed.
End Rebuilt.

(** ---------------------------------------------------------------- the skeleton survives *)
Lemma result_order_sym C x y : result_order C x y = result_order C y x.
Proof. unfold result_order. now rewrite (find_bond_sym C x y). Qed.

Theorem skeleton_rebuilt C aa g : wf_cut C -> skeleton C aa g -> adj_nodup g -> edge_nodup g -> skeleton C aa (rebuilt g).
Proof.
  intros W Sk Adj Edn. pose proof (cut_skeleton_wf C W aa g Sk) as Wf. destruct (rebuilt_spec g Wf Adj) as (K & A & E).
  assert (Hval : forall x y e key, In x (flat C) -> In y (flat C) -> find_edge (phi C x) (phi C y) (edges_data g) = Some e ->
            (aget key (aupdate [] (ed e)) = edge_get g (phi C x) (phi C y) key \/ aget key (aupdate [] (ed e)) = edge_get g (phi C y) (phi C x) key) /\
            has_edge g (eu e) (ev e) = true /\ ((eu e = phi C x /\ ev e = phi C y) \/ (eu e = phi C y /\ ev e = phi C x))).
  { intros x y e key Fx Fy F. apply find_some in F as [Hin U]. destruct (edges_data_pairs g Wf Adj e Hin) as (_ & _ & _ & Ea).
    assert (NoDup (map fst (ed e))) as Nd by (destruct e as [[u v] d]; exact (edges_data_nodup g u v d Edn Hin)).
    rewrite aget_aupdate_nodup by exact Nd. cbn [aget]. apply upair_true in U.
    split; [|split; [exact (edge_attrs_ok_has _ _ _ _ Ea)|destruct U as [[-> ->]|[-> ->]]; auto]].
    unfold edge_get. destruct U as [[E1 E2]|[E1 E2]]; rewrite E1, E2, Ea; destruct (aget key (ed e)); auto. }
  constructor.
  - rewrite K. exact (sk_keys _ _ _ Sk).
  - intros x Fx. rewrite !(rebuilt_node_get g Wf Adj). destruct (sk_attrs _ _ _ Sk x Fx) as (A1 & A2 & A3 & A4). repeat split; auto.
    intros key v Hv Hr Hh. rewrite (rebuilt_node_get g Wf Adj). now apply A4.
  - intros x y Fx Fy. destruct (sk_edges _ _ _ Sk x y Fx Fy) as (B1 & B2 & B3 & B4). destruct (sk_edges _ _ _ Sk y x Fy Fx) as (B1' & B2' & B3' & B4').
    rewrite (bonded_sym C) in B1'. rewrite (result_order_sym C y x) in B2'.
    unfold edge_get. rewrite has_edge_attrs, E. destruct (find_edge (phi C x) (phi C y) (edges_data g)) as [e|] eqn:F.
    + destruct (Hval x y e (S "order") Fx Fy F) as (Vo & He & Ends). destruct (Hval x y e (S "bonding") Fx Fy F) as (Vb & _ & _).
      assert (bonded C x y = true) as Hb. { destruct Ends as [[E1 E2]|[E1 E2]]; rewrite E1, E2 in He; congruence. }
      split; [now rewrite Hb|]. split; [destruct Vo as [->| ->]; assumption|]. split.
      * intros b Eb Hc. destruct Vb as [->| ->]; [now apply (B3 b)|apply (B3' b); [now rewrite (find_bond_sym C y x)|exact Hc]].
      * intros bv Ebv. destruct Vb as [Vb|Vb]; rewrite Vb in Ebv; [exact (B4 bv Ebv)|].
        destruct (B4' bv Ebv) as (b & s & Eb & Hc & ->). exists b, s. rewrite (find_bond_sym C x y). auto.
    + assert (bonded C x y = false) as Hb.
      { destruct (bonded C x y) eqn:Hb; [|reflexivity]. destruct (edge_listed g Wf _ _ B1) as [e Fe]. congruence. }
      split; [now rewrite Hb|]. unfold bonded in Hb. unfold result_order. destruct (find_bond C x y); [discriminate|].
      split; [reflexivity|]. split; [intros b Eb; discriminate|intros bv Ebv; discriminate].
  - intros k1 k2 H. rewrite has_edge_attrs, E in H. destruct (find_edge k1 k2 (edges_data g)) as [e|] eqn:F; [|discriminate].
    apply find_some in F as [Hin U]. destruct (edges_data_pairs g Wf Adj e Hin) as (Hu & Hv & _). apply upair_true in U.
    rewrite !(rebuilt_has_node g Wf Adj). destruct U as [[-> ->]|[-> ->]]; auto.
  - intros x Fx. rewrite (rebuilt_node_get g Wf Adj). exact (sk_ez _ _ _ Sk x Fx).
Qed.

(** ---------------------------------------------------------------- sorting a graph that is in sorted order *)
Lemma sorted_keys_items (f : Z -> Z) l : StronglySorted Z.lt l -> (forall a b, In a l -> In b l -> a < b -> f a <= f b) ->
  StronglySorted key_lt (map (fun k => ([f k], k)) l).
Proof.
  induction 1 as [|x r Hr IH Hx]; intros Hf; cbn; constructor.
  - apply IH. intros a b Ha Hb. apply Hf; now right.
  - rewrite Forall_forall in *. intros y Hy. apply in_map_iff in Hy as (k & <- & Hk). specialize (Hx k Hk).
    unfold key_lt, key_cmp. cbn [fst snd lex_cmp]. pose proof (Hf x k (or_introl eq_refl) (or_intror Hk) Hx) as Hle.
    destruct (Z.compare_spec (f x) (f k)); [|reflexivity|lia]. now apply Z.compare_lt_iff.
Qed.
Lemma seq_nat_sorted n : forall s, StronglySorted Z.lt (map Z.of_nat (seq s n)).
Proof.
  induction n as [|n IH]; intros s; cbn; constructor; [apply IH|]. rewrite Forall_forall. intros y Hy.
  apply in_map_iff in Hy as (i & <- & Hi). apply in_seq in Hi. lia.
Qed.

Lemma flat_map_known g a (val : Z -> pyval) l : (forall k, In k l -> node_get g k a = Some (val k)) ->
  flat_map (fun k => match node_get g k a with Some v => [(k, v)] | None => [] end) l = map (fun k => (k, val k)) l.
Proof.
  induction l as [|k r IH]; intros Hl; [reflexivity|]. cbn [flat_map map]. rewrite (Hl k (or_introl eq_refl)). cbn. f_equal. apply IH. intros; apply Hl; now right.
Qed.

Theorem sort_in_order g (f : Z -> Z) n : wf_graph g -> adj_nodup g ->
  node_keys g = map Z.of_nat (seq 0 n) ->
  (forall k, In k (node_keys g) -> node_get g k (S "fragid") = Some (VList [VInt (f k)])) ->
  (forall a b, In a (node_keys g) -> In b (node_keys g) -> a < b -> f a <= f b) ->
  (forall k, In k (node_keys g) -> node_get g k (S "ez_isomer_atoms") = None) ->
  sort_nodes_by_attr g = Ok (rebuilt g).
Proof.
  intros Wf Adj K Hfid Hmono Hez. pose proof (wf_nodup _ Wf) as Hn.
  set (ks := map (fun k => ([f k], k)) (node_keys g)).
  assert (Hitems : sort_items g = Ok ks).
  { unfold sort_items. rewrite (gna_by_keys g (S "fragid") Hn).
    assert (flat_map (fun k => match node_get g k (S "fragid") with Some v => [(k, v)] | None => [] end) (node_keys g)
            = map (fun k => (k, (fun k => VList [VInt (f k)]) k)) (node_keys g)) as ->.
    { apply flat_map_known. exact Hfid. }
    unfold ks. rewrite <- (map_map (fun k => (k, VList [VInt (f k)])) (fun kv => ([f (fst kv)], fst kv))).
    apply map_res_map. intros [k v] Hin. apply in_map_iff in Hin as (k' & E & _). inversion E; subst. reflexivity. }
  assert (Hsorted : isort ks = ks).
  { apply sorted_unique; [apply isort_perm| |].
    - apply isort_sorted. unfold ks. apply FinFun.Injective_map_NoDup; [intros a b E; now inversion E|exact Hn].
    - unfold ks. apply sorted_keys_items; [rewrite K; apply seq_nat_sorted|exact Hmono]. }
  assert (Hmap : sort_mapping g = Ok (combine (node_keys g) (node_keys g))).
  { unfold sort_mapping. rewrite Hitems. cbn [bind]. rewrite Hsorted. unfold mapping_of, ks. rewrite map_map, map_length. cbn [snd].
    rewrite map_id. f_equal. f_equal. rewrite K at 2. rewrite K, map_length, seq_length. reflexivity. }
  set (m := combine (node_keys g) (node_keys g)).
  assert (Hrel : relabel_copy g m = rebuilt g).
  { rewrite (SortGraphProofs.relabel_closed_form (fun k => k) m (fun k => eq_sym (map_get_diag _ k)) g).
    - unfold rebuilt, SquashProofs.add_edges, add_edges, SortGraphProofs.redges.
      assert (map (fun e : Z * Z * attrs => (fst (fst e), snd (fst e), snd e)) (edges_data g) = edges_data g) as ->.
      { erewrite map_ext; [apply map_id|]. intros [[u v] d]. reflexivity. }
      reflexivity.
    - unfold SortGraphProofs.pkeys. exact Hn. }
  unfold sort_nodes_by_attr. rewrite Hmap. cbn [bind]. fold m. rewrite Hrel.
  assert (get_node_attributes (rebuilt g) (S "ez_isomer_atoms") = []) as ->.
  { apply gna_nil. intros nd Hin. destruct (rebuilt_spec g Wf Adj) as (Kr & Ar & _).
    assert (NoDup (node_keys (rebuilt g))) as Hnr by (rewrite Kr; exact Hn).
    pose proof (gfind_in (rebuilt g) Hnr nd Hin) as G. pose proof (rebuilt_node_get g Wf Adj (nk nd) (S "ez_isomer_atoms")) as X.
    unfold node_get at 1 in X. rewrite G in X. rewrite X. apply Hez. rewrite <- Kr. now apply in_map. }
  reflexivity.
Qed.
