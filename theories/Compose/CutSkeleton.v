(** CutSkeleton: theorem [cut_bonding_skeleton].  For a well-formed cut of a molecule M, ANY base graph and
    ANY template graphs meeting the specifications of CutModel (whatever insertion orders the parsers
    produced), the resolver model's instantiation loop followed by the graph-level bonding step (legacy
    matching, the default) returns a fine graph on the keys 0..N-1 in which atom x of M sits at key
    [phi x] = offset(part) + index with M's payload attributes, and whose edges are exactly M's bonds:
    bonds inside a part through the template copies, cut bonds re-created by the descriptor fold
    (CutFold.forced_fold on the tables the step reads), nothing else. *)
From Coq Require Import String.
From Coq Require Import List Ascii ZArith Bool Lia Permutation.
From CGV Require Import Base.PyBase Base.PyVal Base.NxGraph Gen.ResolveGen Resolve.Bonding Resolve.BondingDefs
     Resolve.BondingSpec Resolve.BondingProofs Resolve.BondingCheck Resolve.CutCheck Resolve.CutBonding Resolve.CutFold
     Resolve.GraphOps Resolve.MapProofs Resolve.CopyProofs Hydro.GraphLemmas.
From CGV Require Import Compose.GraphFacts Compose.CutModel Compose.CutPos Compose.CutTables Compose.CutDisc Compose.HalfVal.
Import ListNotations.
Open Scope Z_scope.

(** ---------------------------------------------------------------- node attributes through lookups *)
Lemma node_get_via g k key : node_get g k key = match node_attrs g k with Ok a => aget key a | Err _ => None end.
Proof. unfold node_get, node_attrs. destruct (gfind k g); reflexivity. Qed.
Lemma node_get_add_edge g u v d k key : has_node g u = true -> has_node g v = true ->
  node_get (add_edge g u v d) k key = node_get g k key.
Proof. intros Hu Hv. now rewrite !node_get_via, attrs_add_edge. Qed.
Lemma node_get_set_other_key g j a v k key : key <> a -> node_get (set_node_attr g j a v) k key = node_get g k key.
Proof.
  intros N. unfold node_get. rewrite gfind_set_node_attr. destruct (Z.eqb k j); [|reflexivity].
  destruct (gfind k g); cbn; [now apply aget_aset_other|reflexivity].
Qed.
Lemma node_get_set_other_node g j a v k key : k <> j -> node_get (set_node_attr g j a v) k key = node_get g k key.
Proof. intros N. unfold node_get. rewrite gfind_set_node_attr. destruct (Z.eqb_spec k j); [contradiction|reflexivity]. Qed.
Lemma node_get_set_same g j a v : has_node g j = true -> node_get (set_node_attr g j a v) j a = Some v.
Proof.
  unfold has_node, node_get. rewrite gfind_set_node_attr, Z.eqb_refl. destruct (gfind j g); [|discriminate].
  intros _. cbn. apply aget_aset_same.
Qed.
Lemma has_node_keys_eq g h k : node_keys g = node_keys h -> has_node g k = has_node h k.
Proof.
  intros E. destruct (has_node g k) eqn:A, (has_node h k) eqn:B; try reflexivity.
  - apply gfind_has in A. rewrite E in A. apply gfind_has in A. congruence.
  - apply gfind_has in B. rewrite <- E in B. apply gfind_has in B. congruence.
Qed.

Lemma map_res_map {A B} (f : A -> res B) (g : A -> B) l : (forall x, In x l -> f x = Ok (g x)) -> map_res f l = Ok (map g l).
Proof.
  induction l as [|x r IH]; intros H; [reflexivity|]. cbn. rewrite (H x (or_introl eq_refl)). cbn [bind].
  rewrite IH by (intros; apply H; now right). reflexivity.
Qed.
Lemma NoDup_FOP {A B} (f : A -> B) l : NoDup (map f l) -> ForallOrdPairs (fun a b => f a <> f b) l.
Proof.
  induction l as [|x r IH]; cbn; intros H; [constructor|]. inversion H as [|? ? Hx Hr]; subst. constructor; [|now apply IH].
  rewrite Forall_forall. intros y Hy E. apply Hx. rewrite E. now apply in_map.
Qed.

(** ---------------------------------------------------------------- the hydrogen-count side effect of the all-atom step *)
Definition aa_inv (m : graph) : Prop :=
  forall k, has_node m k = true -> (exists e, node_get m k (S "element") = Some e) /\ exists v, node_get m k (S "hcount") = Some v /\ hval v.
Definition dec_node (m : graph) (n : Z) : res graph :=
  el <- of_option (node_get m n (S "element")) EKey ;;
  if pyval_eqb el (VStr (S "H")) then Ok m else
  hc <- of_option (node_get m n (S "hcount")) EKey ;;
  let ar := match node_get m n (S "aromatic") with Some v => truthy v | None => true end in
  hc' <- dec_hcount ar hc ;;
  Ok (set_node_attr m n (S "hcount") hc').

Lemma hcount_ne_element : S "element" <> S "hcount".
Proof. intros H. apply str_eqb_eq in H. vm_compute in H. discriminate. Qed.

Lemma dec_node_total m n : aa_inv m -> has_node m n = true ->
  exists m', dec_node m n = Ok m' /\ node_keys m' = node_keys m /\ (forall x y, edge_attrs m' x y = edge_attrs m x y) /\
    (forall k key, key <> S "hcount" -> node_get m' k key = node_get m k key) /\ aa_inv m'.
Proof.
  intros I Hn. destruct (I n Hn) as ((e & Ee) & v & Ev & Hv). unfold dec_node. rewrite Ee. cbn [of_option bind].
  destruct (pyval_eqb e (VStr (S "H"))); [exists m; split; [reflexivity|split; [reflexivity|split; [reflexivity|split; [reflexivity|exact I]]]]|].
  rewrite Ev. cbn [of_option bind].
  destruct (dec_hcount_total (match node_get m n (S "aromatic") with Some v0 => truthy v0 | None => true end) v Hv) as (v' & -> & Hv').
  cbn [bind]. eexists. split; [reflexivity|]. split; [apply keys_set|]. split; [intros; apply edge_attrs_set_node_attr|]. split.
  - intros k key Hk. now apply node_get_set_other_key.
  - intros k Hk. assert (has_node m k = true) as Hk' by (rewrite <- Hk; apply has_node_keys_eq; symmetry; apply keys_set).
    destruct (I k Hk') as ((e' & Ee') & w & Ew & Hw). split.
    + exists e'. rewrite node_get_set_other_key by exact hcount_ne_element. exact Ee'.
    + destruct (Z.eq_dec k n) as [->|N]; [exists v'; split; [now apply node_get_set_same|exact Hv']|].
      exists w. split; [now rewrite node_get_set_other_node|exact Hw].
Qed.

Definition bond_edge (b : bond) : Z * Z * attrs := (b_u b, b_v b, bond_attrs b).

Lemma apply_bonds_spec aa bonds : forall m h,
  node_keys m = node_keys h -> (forall x y, edge_attrs m x y = edge_attrs h x y) ->
  (forall bd, In bd bonds -> has_node h (b_u bd) = true /\ has_node h (b_v bd) = true /\ b_u bd <> b_v bd) ->
  (aa = true -> aa_inv m) ->
  exists m', fold_res (apply_bond aa) bonds m = Ok m' /\ node_keys m' = node_keys m /\
    (forall k key, (aa = true -> key <> S "hcount") -> node_get m' k key = node_get m k key) /\
    (forall x y, edge_attrs m' x y = edge_attrs (add_edges (map bond_edge bonds) h) x y).
Proof.
  induction bonds as [|bd r IH]; intros m h K E Hn Ha.
  - exists m. cbn. auto.
  - destruct (Hn bd (or_introl eq_refl)) as (Hu & Hv & Nuv).
    assert (has_node m (b_u bd) = true) as Hu' by (now rewrite (has_node_keys_eq m h)).
    assert (has_node m (b_v bd) = true) as Hv' by (now rewrite (has_node_keys_eq m h)).
    set (m1 := add_edge m (b_u bd) (b_v bd) (bond_attrs bd)).
    set (h1 := add_edge h (b_u bd) (b_v bd) (bond_attrs bd)).
    assert (node_keys m1 = node_keys m) as K1 by (apply keys_add_edge_in; assumption).
    assert (node_keys h1 = node_keys h) as K1h by (apply keys_add_edge_in; assumption).
    assert (forall x y, edge_attrs m1 x y = edge_attrs h1 x y) as E1.
    { intros x y. unfold m1, h1. rewrite !edge_attrs_add_edge by assumption. rewrite !E. reflexivity. }
    assert (exists m2, apply_bond aa m bd = Ok m2 /\ node_keys m2 = node_keys m /\ (forall x y, edge_attrs m2 x y = edge_attrs m1 x y) /\
              (forall k key, (aa = true -> key <> S "hcount") -> node_get m2 k key = node_get m k key) /\ (aa = true -> aa_inv m2)) as (m2 & Eap & K2 & E2 & G2 & I2).
    { unfold apply_bond. fold m1. destruct aa.
      - assert (aa_inv m1) as I1.
        { intros k Hk. assert (has_node m k = true) as Hk' by (rewrite <- Hk; apply has_node_keys_eq; now symmetry).
          destruct (Ha eq_refl k Hk') as (A1 & A2). unfold m1. rewrite !node_get_add_edge by assumption. auto. }
        change (fold_res _ [b_u bd; b_v bd] m1) with (fold_res dec_node [b_u bd; b_v bd] m1). cbn [fold_res].
        destruct (dec_node_total m1 (b_u bd) I1) as (ma & -> & Ka & Ea & Ga & Ia); [now rewrite (has_node_keys_eq m1 m _ K1)|]. cbn [bind].
        destruct (dec_node_total ma (b_v bd) Ia) as (mb & -> & Kb & Eb & Gb & Ib); [rewrite (has_node_keys_eq ma m); [assumption|congruence]|]. cbn [bind].
        exists mb. split; [reflexivity|]. split; [congruence|]. split; [intros; now rewrite Eb, Ea|]. split; [|auto].
        intros k key Hkey. specialize (Hkey eq_refl). rewrite Gb, Ga by assumption. unfold m1. now apply node_get_add_edge.
      - exists m1. split; [reflexivity|]. split; [exact K1|]. split; [reflexivity|]. split; [|discriminate].
        intros k key _. unfold m1. now apply node_get_add_edge. }
    cbn [fold_res]. rewrite Eap. cbn [bind].
    destruct (IH m2 h1) as (m' & Ef & K' & G' & E').
    + congruence.
    + intros x y. now rewrite E2, E1.
    + intros bd' Hbd'. destruct (Hn bd' (or_intror Hbd')) as (A & B & N). repeat split; [| |exact N]; unfold h1; apply has_node_add_edge; now left.
    + exact I2.
    + exists m'. split; [exact Ef|]. split; [congruence|]. split; [intros; rewrite G', G2 by assumption; reflexivity|].
      intros x y. rewrite E'. reflexivity.
Qed.

Section Skeleton.
  Variable C : cut.
  Hypothesis W : wf_cut C.
  Variable fd : fragdict.
  Hypothesis HT : templates_ok C fd.
  Variable B : graph.
  Hypothesis HB : is_base C B.
  Variable aa : bool.
  (** an all-atom step reads `element` and `hcount` of the two bonded atoms *)
  Hypothesis Haa : aa = true -> forall x, In x (flat C) ->
    (exists e, aget (S "element") (payload C x) = Some e) /\ exists h, aget (S "hcount") (payload C x) = Some (VInt h).
  Let Hnd := wc_nodup C W.

  Definition base_pq : list (nat * nat) := map (fun e => (Z.to_nat (eu e), Z.to_nat (ev e))) (edges_data B).
  Definition ES : list cutedge := map (fun pq => cedge C (fst pq) (snd pq)) base_pq.

  Lemma base_pq_spec pq : In pq base_pq -> fst pq <> snd pq /\ (fst pq < length (c_parts C))%nat /\ (snd pq < length (c_parts C))%nat /\
    exists d, In (Z.of_nat (fst pq), Z.of_nat (snd pq), d) (edges_data B).
  Proof.
    unfold base_pq. intros H. apply in_map_iff in H as ([[a b] d] & <- & Hin). unfold eu, ev. cbn [fst snd].
    destruct (ib_edges _ _ HB a b d Hin) as (p & q & -> & -> & N & Hp & Hq & _). rewrite !Nat2Z.id. repeat split; auto. eauto.
  Qed.
  Lemma base_edges_ok : base_edges B = Ok (map edge_of ES).
  Proof.
    unfold base_edges, ES, base_pq. rewrite !map_map. apply map_res_map. intros [[a b] d] Hin.
    destruct (ib_edges _ _ HB a b d Hin) as (p & q & -> & -> & N & Hp & Hq & Ho). cbn [fst snd]. rewrite Ho. cbn [of_option bind as_int_strict].
    unfold edge_of, cedge, ce_a, ce_b, ce_L, eu, ev. cbn [fst snd]. now rewrite !Nat2Z.id.
  Qed.
  Lemma base_pq_distinct : ForallOrdPairs (fun a b => ~ ((fst a = fst b /\ snd a = snd b) \/ (fst a = snd b /\ snd a = fst b))) base_pq.
  Proof.
    unfold base_pq. apply FOP_map. pose proof (ib_once _ _ HB) as Once. unfold unordered_nodup, edges_list in Once. apply FOP_map in Once.
    eapply FOP_impl; [|exact Once]. cbn [fst snd]. intros [[a b] d] [[a' b'] d'] Ha Hb Hne X. apply Hne. unfold eu, ev in X. cbn [fst snd] in *.
    destruct (ib_edges _ _ HB a b d Ha) as (p & q & -> & -> & _). destruct (ib_edges _ _ HB a' b' d' Hb) as (p' & q' & -> & -> & _).
    rewrite !Nat2Z.id in X. destruct X as [[-> ->]|[-> ->]]; auto.
  Qed.

  (** every cut pair of the fold comes from one cut bond, and every cut bond gives one *)
  Definition pair_of (b : cbond) (s : bool) : cutpair := (phi C (bend s b), dtext s b, phi C (bend (negb s) b), dtext (negb s) b).
  Lemma cutpair_bond c : In c (concat (map ce_L ES)) -> exists b s, In b (cuts C) /\ c = pair_of b s.
  Proof.
    intros H. apply in_concat in H as (L & HL & Hc). apply in_map_iff in HL as (e & <- & He). unfold ES in He.
    apply in_map_iff in He as (pq & <- & _). unfold cedge, ce_L in Hc. cbn [snd] in Hc.
    apply (cutpairs_in C) in Hc as (b & s & Hb & _ & _ & -> & _). exists b, s. split; [exact Hb|reflexivity].
  Qed.
  Lemma bond_cutpair b : In b (cuts C) -> exists s, In (pair_of b s) (concat (map ce_L ES)).
  Proof.
    intros Hb. destruct (cut_ends C W b Hb) as (_ & _ & Nuv).
    assert (forall p q s, In (p, q) base_pq -> owner C (bend s b) = p -> owner C (bend (negb s) b) = q ->
              (s = false -> ~ (owner C (cb_u b) = p /\ owner C (cb_v b) = q)) -> In (pair_of b s) (concat (map ce_L ES))) as X.
    { intros p q s Hin E1 E2 E3. apply in_concat. exists (cutpairs C p q). split.
      - apply in_map_iff. exists (cedge C p q). split; [reflexivity|]. unfold ES. apply in_map_iff. exists (p, q). auto.
      - apply (cutpairs_in C). exists b, s. repeat split; auto. }
    destruct (ib_all _ _ HB b Hb) as [Hin|Hin]; unfold edges_list in Hin; apply in_map_iff in Hin as ([[a b'] d] & E & Hin); cbn [fst snd] in E; inversion E; subst a b'.
    - exists true. apply (X (owner C (cb_u b)) (owner C (cb_v b))); auto; [|discriminate].
      unfold base_pq. apply in_map_iff. eexists. split; [|exact Hin]. unfold eu, ev. cbn [fst snd]. now rewrite !Nat2Z.id.
    - exists false. apply (X (owner C (cb_v b)) (owner C (cb_u b))); auto.
      + unfold base_pq. apply in_map_iff. eexists. split; [|exact Hin]. unfold eu, ev. cbn [fst snd]. now rewrite !Nat2Z.id.
      + intros _ [A _]. apply Nuv. exact A.
  Qed.

  Definition cp_lab (c : cutpair) : pystr := removelast (tl (cp_d c)).
  Lemma cp_lab_pair b s : cp_lab (pair_of b s) = cb_lab b.
  Proof. unfold cp_lab, pair_of, cp_d, dtext, dtail. cbn [fst snd tl]. apply removelast_last. Qed.
  Lemma cutpairs_labs_nodup p q : NoDup (map cp_lab (cutpairs C p q)).
  Proof.
    unfold cutpairs. generalize (wc_labels C W). generalize (cuts C) as l.
    assert (forall l x, In x (map cp_lab (flat_map (cp_of C p q) l)) -> In x (map cb_lab l)) as Hsub.
    { intros l x H. apply in_map_iff in H as (c & <- & Hc). apply in_flat_map in Hc as (b & Hb & Hc).
      destruct (cp_of_cases C p q b) as [E|[s E]]; rewrite E in Hc; [contradiction|]. destruct Hc as [<-|[]].
      fold (pair_of b s). rewrite cp_lab_pair. now apply in_map. }
    induction l as [|b r IH]; intros Hl; cbn [flat_map]; [constructor|]. inversion Hl as [|? ? Hb Hr]; subst.
    destruct (cp_of_cases C p q b) as [E|[s E]]; rewrite E; cbn [app map]; [now apply IH|].
    constructor; [|now apply IH]. fold (pair_of b s). rewrite cp_lab_pair. intros X. apply Hb. now apply Hsub.
  Qed.
  Lemma concat_labs_nodup : NoDup (map cp_lab (concat (map ce_L ES))).
  Proof.
    unfold ES. rewrite map_map. cbn [ce_L cedge snd]. pose proof base_pq_distinct as D.
    assert (forall pq, In pq base_pq -> fst pq <> snd pq) as Hne by (intros pq Hpq; now destruct (base_pq_spec pq Hpq)).
    induction base_pq as [|pq r IH]; cbn [map concat]; [constructor|]. inversion D as [|? ? Dh Dt]; subst.
    rewrite map_app. apply NoDup_app_intro; [apply cutpairs_labs_nodup|apply IH; [exact Dt|intros; apply Hne; now right]|].
    intros x Hx Hx'. apply in_map_iff in Hx as (c & <- & Hc). apply in_map_iff in Hx' as (c' & El & Hc').
    apply in_concat in Hc' as (L & HL & Hc'). apply in_map_iff in HL as (pq' & <- & Hpq').
    apply (cutpairs_in C) in Hc as (b & s & Hb & E1 & E2 & -> & _). apply (cutpairs_in C) in Hc' as (b' & s' & Hb' & E1' & E2' & -> & _).
    fold (pair_of b s) in El. fold (pair_of b' s') in El. rewrite !cp_lab_pair in El.
    pose proof (lab_unique C W b' b Hb' Hb El). subst b'. rewrite Forall_forall in Dh. apply (Dh pq' Hpq').
    destruct s, s'; cbn in *; [left|right|right|left]; split; congruence.
  Qed.

  (** two cut pairs with different labels join different pairs of atoms *)
  Lemma labs_distinct_pairs c c' : In c (concat (map ce_L ES)) -> In c' (concat (map ce_L ES)) -> cp_lab c <> cp_lab c' ->
    upair (cp_u c) (cp_v c) (cp_u c') (cp_v c') = false.
  Proof.
    intros Hc Hc' Nl. destruct (cutpair_bond c Hc) as (b & s & Hb & ->). destruct (cutpair_bond c' Hc') as (b' & s' & Hb' & ->).
    rewrite !cp_lab_pair in Nl. destruct (upair _ _ _ _) eqn:U; [|reflexivity]. exfalso. apply Nl. f_equal.
    unfold pair_of, cp_u, cp_v in U. cbn [fst snd] in U. apply upair_true in U.
    destruct (cut_ends C W b Hb) as (Fu & Fv & _). destruct (cut_ends C W b' Hb') as (Fu' & Fv' & _).
    apply (cuts_in C) in Hb as [Hb _]. apply (cuts_in C) in Hb' as [Hb' _]. apply (bonds_simple C W b b' Hb Hb').
    assert (forall t b0, In (cb_u b0) (flat C) -> In (cb_v b0) (flat C) -> In (bend t b0) (flat C)) as Fb by (intros [] ? ? ?; assumption).
    destruct U as [[A1 A2]|[A1 A2]]; apply (phi_inj C) in A1; auto; apply (phi_inj C) in A2; auto;
      unfold same_ends; destruct s, s'; cbn in A1, A2; auto.
  Qed.

  Lemma tables_from_tbls ps : forall p0 k0 a t, In (a, t) (tables_from C p0 k0 ps) -> exists k xs, t = tbl_from C k xs.
  Proof.
    induction ps as [|q r IH]; intros p0 k0 a t H; cbn in H; [contradiction|]. destruct H as [E|H]; [inversion E; eauto|eauto].
  Qed.
  Lemma tables_good : good_state (tables C).
  Proof.
    intros a t H u ds d Hin Hd. destruct (tables_from_tbls _ _ _ _ _ H) as (k & xs & ->).
    apply (tbl_from_rows C) in Hin as (i & x & _ & _ & -> & _). apply (descs_in C W) in Hd as (b & s & _ & _ & ->). apply dtext_good.
  Qed.

  (** what the theorem says about the fine graph [m2] *)
  Record skeleton (m2 : graph) : Prop := {
    sk_keys : node_keys m2 = map Z.of_nat (seq 0 (length (flat C)));
    sk_attrs : forall x, In x (flat C) ->
         node_get m2 (phi C x) (S "fragid") = Some (VList [VInt (Z.of_nat (owner C x))]) /\
         node_get m2 (phi C x) (S "aromatic") = aget (S "aromatic") (payload C x) /\
         node_get m2 (phi C x) (S "rs_isomer") = None /\
         forall key v, aget key (payload C x) = Some v -> ~ In key reserved -> (aa = true -> key <> S "hcount") ->
                       node_get m2 (phi C x) key = Some v;
    sk_edges : forall x y, In x (flat C) -> In y (flat C) ->
         has_edge m2 (phi C x) (phi C y) = bonded C x y /\ edge_get m2 (phi C x) (phi C y) (S "order") = result_order C x y /\
         (forall b, find_bond C x y = Some b -> is_cut C b = true -> edge_get m2 (phi C x) (phi C y) (S "bonding") <> None) /\
         (forall bv, edge_get m2 (phi C x) (phi C y) (S "bonding") = Some bv ->
            exists b s, find_bond C x y = Some b /\ is_cut C b = true /\ bv = VTup [VStr (dtext s b); VStr (dtext (negb s) b)]);
    sk_closed : forall k1 k2, has_edge m2 k1 k2 = true -> has_node m2 k1 = true /\ has_node m2 k2 = true;
    sk_ez : forall x, In x (flat C) -> node_get m2 (phi C x) (S "ez_isomer_atoms") = None }.

  Theorem cut_bonding_skeleton :
    exists m1 fg1 m2 fg2,
      resolve_disconnected fd B = Ok (m1, fg1) /\ bonding_step true aa B m1 fg1 = Ok (m2, fg2) /\ skeleton m2.
  Proof.
    destruct (disconnected_total C W fd HT B HB) as (m1 & fg1 & Hdisc & I).
    assert (Htab : tables_of fg1 = Ok (tables C)) by (rewrite (i_tables _ _ _ _ I), firstn_all; reflexivity).
    assert (Hkeys1 : node_keys m1 = map Z.of_nat (seq 0 (length (flat C)))) by (rewrite (i_keys _ _ _ _ I), off_total; reflexivity).
    assert (Hattr1 : forall x, In x (flat C) -> exists a, node_attrs m1 (phi C x) = Ok a /\ fattrs_ok C x a).
    { intros x Hx. apply (i_attrs _ _ _ _ I x Hx). apply owner_lt; [exact Hnd|exact Hx]. }
    assert (Hnode1 : forall x, In x (flat C) -> has_node m1 (phi C x) = true).
    { intros x Hx. destruct (Hattr1 x Hx) as (a & Ea & _). eapply node_attrs_has; eauto. }
    assert (Harom : forall x, In x (flat C) -> arom_fn m1 (phi C x) = arom C x).
    { intros x Hx. destruct (Hattr1 x Hx) as (a & Ea & Fa). unfold arom_fn, arom. now rewrite node_get_via, Ea, (fa_arom _ _ _ Fa). }
    assert (Hpq : forall e, In e (map edge_of ES) -> exists p q, In (p, q) base_pq /\ e = (Z.of_nat p, Z.of_nat q, Z.of_nat (length (cutpairs C p q)))).
    { intros e He. apply in_map_iff in He as (ce & <- & Hce). unfold ES in Hce. apply in_map_iff in Hce as ([p q] & <- & Hin). exists p, q. auto. }
    destruct (edges_from_bonding_total (arom_fn m1) (map edge_of ES) (tables C) [] tables_good) as (s1 & bonds & Hrun).
    { intros e He. destruct (Hpq e He) as (p & q & Hin & ->). destruct (base_pq_spec _ Hin) as (_ & Hp & Hq & _). cbn [fst snd] in *.
      unfold tables. rewrite tables_keys. split; apply in_map_iff; [exists p|exists q]; (split; [lia|apply in_seq; lia]). }
    destruct (forced_fold true (arom_fn m1) ES (tables C) [] s1 bonds (wf_tables C)) as (new & En & Hperm & _).
    { rewrite Forall_forall. intros e He. unfold ES in He. apply in_map_iff in He as ([p q] & <- & Hin).
      destruct (base_pq_spec _ Hin) as (N & _). cbn [fst snd] in *. split; [unfold cedge, ce_a, ce_b; cbn [fst snd]; lia|].
      exact (cutpairs_dedicated C W p q N). }
    { unfold ES. apply FOP_map. eapply FOP_impl; [|exact base_pq_distinct]. intros a b _ _ H. now apply cedges_disjoint. }
    { exact Hrun. }
    cbn [app] in En. subst new.
    assert (Hord : forall bd, In bd bonds -> bond_order (arom_fn m1) (b_u bd) (b_v bd) (b_d1 bd) = Ok (b_order bd)).
    { apply (bond_order_annotated true (arom_fn m1) (map edge_of ES) (tables C) s1 bonds); [|exact (wf_tables C)|exact Hrun].
      unfold wf_edges. rewrite Forall_forall. intros e He. destruct (Hpq e He) as (p & q & Hin & ->). destruct (base_pq_spec _ Hin) as (N & _).
      cbn [fst snd] in *. lia. }
    assert (Fb : forall t b0, In b0 (cuts C) -> In (bend t b0) (flat C)).
    { intros t b0 Hb0. destruct (cut_ends C W b0 Hb0) as (A & A' & _). destruct t; assumption. }
    assert (Hbond : forall bd, In bd bonds -> exists b s, In b (cuts C) /\ bond_cp bd = pair_of b s /\ b_order bd = cut_order C b).
    { intros bd Hin. assert (In (bond_cp bd) (concat (map ce_L ES))) as Hc by (eapply Permutation_in; [exact Hperm|now apply in_map]).
      destruct (cutpair_bond _ Hc) as (b & s & Hb & E). exists b, s. split; [exact Hb|]. split; [exact E|].
      pose proof (Hord bd Hin) as O. unfold bond_cp, pair_of in E. inversion E as [[E1 E2 E3 E4]]. rewrite E1, E2, E3 in O.
      unfold dtext, dtail in O. rewrite bond_order_good in O by apply bdigit_le. rewrite !Harom in O by (apply Fb; exact Hb).
      inversion O as [O']. unfold cut_order. destruct s; cbn [bend negb]; [reflexivity|]. now rewrite andb_comm. }
    assert (Hends : forall bd, In bd bonds -> has_node m1 (b_u bd) = true /\ has_node m1 (b_v bd) = true /\ b_u bd <> b_v bd).
    { intros bd Hin. destruct (Hbond bd Hin) as (b & s & Hb & E & _). unfold bond_cp, pair_of in E. inversion E as [[E1 E2 E3 E4]].
      rewrite E1, E3. repeat split; [apply Hnode1, Fb, Hb|apply Hnode1, Fb, Hb|]. intros X. apply (phi_inj C) in X; [|apply Fb, Hb|apply Fb, Hb].
      destruct (cut_ends C W b Hb) as (_ & _ & N). destruct s; cbn in X; congruence. }
    set (BE := map bond_edge bonds).
    assert (Hsimple : forall b b' x y, In b (c_bonds C) -> In b' (c_bonds C) -> joins b x y = true -> joins b' x y = true -> b = b').
    { intros b b' x y Hb Hb' J J'. apply (bonds_simple C W b b' Hb Hb'). apply joins_true in J. apply joins_true in J'. unfold same_ends.
      destruct J as [[A1 A2]|[A1 A2]], J' as [[A1' A2']|[A1' A2']]; [left|right|right|left]; split; congruence. }
    destruct (add_edges_spec BE m1) as (KB & AB & EB).
    { intros e He. unfold BE in He. apply in_map_iff in He as (bd & <- & Hin). exact (Hends bd Hin). }
    { intros e He. unfold BE in He. apply in_map_iff in He as (bd & <- & Hin). unfold bond_edge, eu, ev. cbn [fst snd].
      destruct (Hbond bd Hin) as (b & s & Hb & E & _). unfold bond_cp, pair_of in E. inversion E as [[E1 E2 E3 E4]]. rewrite E1, E3.
      destruct (has_edge m1 (phi C (bend s b)) (phi C (bend (negb s) b))) eqn:He; [|reflexivity]. exfalso. rewrite has_edge_attrs in He.
      destruct (edge_attrs m1 (phi C (bend s b)) (phi C (bend (negb s) b))) as [d|] eqn:Ed; [|discriminate].
      destruct (i_edge1 _ _ _ _ I _ _ _ Ed) as (x & y & b' & Hx & Hy & Px & Py & Hb' & Nc & J & _).
      apply (phi_inj C) in Px; [|apply Fb, Hb|exact Hx]. apply (phi_inj C) in Py; [|apply Fb, Hb|exact Hy]. subst x y.
      pose proof Hb as Hb0. apply (cuts_in C) in Hb0 as [Hb0 Hc].
      assert (joins b (bend s b) (bend (negb s) b) = true) as Jb by (apply joins_true; destruct s; cbn; auto).
      rewrite (Hsimple b' b _ _ Hb' Hb0 J Jb) in Nc. congruence. }
    { unfold BE. apply FOP_map.
      assert (NoDup (map (fun bd => cp_lab (bond_cp bd)) bonds)) as Hn.
      { rewrite <- map_map. eapply Permutation_NoDup; [apply Permutation_sym, Permutation_map; exact Hperm|exact concat_labs_nodup]. }
      eapply FOP_impl; [|exact (NoDup_FOP _ _ Hn)]. cbn beta. intros bd bd' Hin Hin' Nl.
      assert (forall b0, In b0 bonds -> In (bond_cp b0) (concat (map ce_L ES))) as Hc by (intros b0 H0; eapply Permutation_in; [exact Hperm|now apply in_map]).
      exact (labs_distinct_pairs _ _ (Hc bd Hin) (Hc bd' Hin') Nl). }
    assert (phi_onto : forall k, 0 <= k < Z.of_nat (length (flat C)) -> exists x, In x (flat C) /\ phi C x = k).
    { intros k Hk. destruct (nth_error (flat C) (Z.to_nat k)) as [x|] eqn:E; [|apply nth_error_None in E; lia].
      exists x. split; [eapply nth_error_In; eauto|]. unfold phi. rewrite (index_in_nth _ _ _ Hnd E). lia. }
    destruct (apply_bonds_spec aa bonds m1 m1 eq_refl (fun _ _ => eq_refl) Hends) as (m2 & Hap & K2 & G2 & E2).
    { intros Ea k Hk. apply gfind_has in Hk. rewrite Hkeys1 in Hk. apply seq_nat_in in Hk. destruct (phi_onto k Hk) as (x & Hx & <-).
      destruct (Hattr1 x Hx) as (a & Eat & Fa). destruct (Haa Ea x Hx) as ((e & Ee) & h & Eh). rewrite !node_get_via, Eat. split.
      - exists e. apply (fa_payload _ _ _ Fa _ _ Ee). unfold reserved. cbn [In]. intros X. repeat destruct X as [X|X]; try (apply str_eqb_eq in X; vm_compute in X; discriminate); exact X.
      - exists (VInt h). split; [|apply hval_int]. apply (fa_payload _ _ _ Fa _ _ Eh). unfold reserved. cbn [In]. intros X.
        repeat destruct X as [X|X]; try (apply str_eqb_eq in X; vm_compute in X; discriminate); exact X. }
    fold BE in E2.
    exists m1, fg1, m2, (write_tables s1 fg1). split; [exact Hdisc|]. split.
    { unfold bonding_step, bonds_of. rewrite base_edges_ok, Htab. cbn [bind]. rewrite Hrun. cbn [bind]. rewrite Hap. reflexivity. }
    constructor; [congruence| | | |].
    - intros x Hx. destruct (Hattr1 x Hx) as (a & Ea & Fa). split; [|split; [|split]].
      + rewrite G2 by (intros _ E; apply str_eqb_eq in E; vm_compute in E; discriminate). now rewrite node_get_via, Ea, (fa_fragid _ _ _ Fa).
      + rewrite G2 by (intros _ E; apply str_eqb_eq in E; vm_compute in E; discriminate). now rewrite node_get_via, Ea, (fa_arom _ _ _ Fa).
      + rewrite G2 by (intros _ E; apply str_eqb_eq in E; vm_compute in E; discriminate). now rewrite node_get_via, Ea, (fa_rs _ _ _ Fa).
      + intros key v Hv Hr Hh. rewrite G2 by exact Hh. rewrite node_get_via, Ea. now apply (fa_payload _ _ _ Fa).
    - intros x y Hx Hy.
      assert (Em2 : edge_attrs m2 (phi C x) (phi C y) =
                    match find_edge (phi C x) (phi C y) BE with Some e => Ok (aupdate [] (ed e)) | None => edge_attrs m1 (phi C x) (phi C y) end)
        by (rewrite E2; apply EB).
      assert (F1 : forall e, find_edge (phi C x) (phi C y) BE = Some e ->
                exists b bd s, In b (cuts C) /\ joins b x y = true /\ ed e = bond_attrs bd /\ b_order bd = cut_order C b /\
                               b_d1 bd = dtext s b /\ b_d2 bd = dtext (negb s) b).
      { intros e Ef. apply find_some in Ef as [Hin U]. unfold BE in Hin. apply in_map_iff in Hin as (bd & <- & Hin).
        destruct (Hbond bd Hin) as (b & s & Hb & E & Ho). exists b, bd, s. unfold bond_cp, pair_of in E. inversion E as [[E1 E2' E3 E4]].
        split; [exact Hb|]. split; [|split; [reflexivity|split; [exact Ho|split; reflexivity]]]. unfold bond_edge, eu, ev in U. cbn [fst snd] in U. rewrite E1, E3 in U.
        apply upair_true in U. apply joins_true.
        destruct U as [[A1 A2]|[A1 A2]]; apply (phi_inj C) in A1; auto; apply (phi_inj C) in A2; auto; destruct s; cbn in A1, A2; auto. }
      assert (F2 : forall b, In b (cuts C) -> joins b x y = true -> find_edge (phi C x) (phi C y) BE <> None).
      { intros b Hb J Ef. destruct (bond_cutpair b Hb) as (s & Hc).
        assert (In (pair_of b s) (map bond_cp bonds)) as Hc' by (eapply Permutation_in; [apply Permutation_sym; exact Hperm|exact Hc]).
        apply in_map_iff in Hc' as (bd & E & Hin). unfold find_edge in Ef.
        assert (In (bond_edge bd) BE) as HinBE by (unfold BE; now apply in_map).
        pose proof (find_none _ _ Ef (bond_edge bd) HinBE) as X. cbn beta in X.
        assert (upair (phi C x) (phi C y) (eu (bond_edge bd)) (ev (bond_edge bd)) = true) as U; [|congruence].
        unfold bond_cp, pair_of in E. inversion E as [[E1 E2' E3 E4]]. unfold bond_edge, eu, ev. cbn [fst snd]. rewrite E1, E3.
        apply upair_true. apply joins_true in J. destruct J as [[A1 A2]|[A1 A2]]; destruct s; cbn; rewrite <- ?A1, <- ?A2; auto. }
      assert (Hbo : forall bd, aget (S "order") (aupdate [] (bond_attrs bd)) = Some (b_order bd) /\
                               aget (S "bonding") (aupdate [] (bond_attrs bd)) = Some (VTup [VStr (b_d1 bd); VStr (b_d2 bd)])).
      { intros bd. assert (NoDup (map fst (bond_attrs bd))) as Hn.
        { cbn. constructor; [intros [X|[]]; apply str_eqb_eq in X; vm_compute in X; discriminate|constructor; [tauto|constructor]]. }
        rewrite !aget_aupdate_nodup by exact Hn. split; reflexivity. }
      unfold bonded, result_order, edge_get. rewrite has_edge_attrs, Em2.
      destruct (find_bond C x y) as [b|] eqn:Efb.
      + apply find_some in Efb as [Hb J]. destruct (is_cut C b) eqn:Ec.
        * assert (In b (cuts C)) as Hbc by (apply (cuts_in C); auto).
          destruct (find_edge (phi C x) (phi C y) BE) as [e|] eqn:Ef; [|exfalso; exact (F2 b Hbc J eq_refl)].
          destruct (F1 e eq_refl) as (b' & bd & s & Hb' & J' & Ed & Ho & D1 & D2). apply (cuts_in C) in Hb' as [Hb' _].
          pose proof (Hsimple b' b x y Hb' Hb J' J). subst b'. rewrite Ed. destruct (Hbo bd) as [O1 O2]. rewrite O1, O2, Ho.
          split; [reflexivity|]. split; [reflexivity|]. split; [intros; discriminate|].
          intros bv Ebv. inversion Ebv; subst bv. exists b, s. rewrite D1, D2. auto.
        * destruct (find_edge (phi C x) (phi C y) BE) as [e|] eqn:Ef.
          { exfalso. destruct (F1 e eq_refl) as (b' & bd & s & Hb' & J' & _). apply (cuts_in C) in Hb' as [Hb' Hc'].
            pose proof (Hsimple b' b x y Hb' Hb J' J). subst b'. congruence. }
          assert (owner C (cb_u b) < length (c_parts C))%nat as Hlt by (apply owner_lt; [exact Hnd|]; now destruct (wc_ends C W b Hb)).
          destruct (i_edge2 _ _ _ _ I b Hb Ec Hlt) as [H1 H2].
          assert (has_edge m1 (phi C x) (phi C y) = true) as He by (apply joins_true in J; destruct J as [[<- <-]|[<- <-]]; assumption).
          rewrite has_edge_attrs in He. destruct (edge_attrs m1 (phi C x) (phi C y)) as [d|] eqn:Ed; [|discriminate].
          destruct (i_edge1 _ _ _ _ I _ _ _ Ed) as (x' & y' & b' & Hx' & Hy' & Px & Py & Hb' & Nc & J' & Od & Bd).
          apply (phi_inj C) in Px; auto. apply (phi_inj C) in Py; auto. subst x' y'.
          pose proof (Hsimple b' b x y Hb' Hb J' J). subst b'. rewrite Od, Bd.
          split; [reflexivity|]. split; [reflexivity|]. split; [intros b0 E0 C0; inversion E0; subst; congruence|]. intros bv Ebv. discriminate.
      + destruct (find_edge (phi C x) (phi C y) BE) as [e|] eqn:Ef.
        { exfalso. destruct (F1 e eq_refl) as (b' & bd & s & Hb' & J' & _). apply (cuts_in C) in Hb' as [Hb' _].
          unfold find_bond in Efb. pose proof (find_none _ _ Efb b' Hb') as X. cbn beta in X. congruence. }
        destruct (edge_attrs m1 (phi C x) (phi C y)) as [d|] eqn:Ed.
        { exfalso. destruct (i_edge1 _ _ _ _ I _ _ _ Ed) as (x' & y' & b' & Hx' & Hy' & Px & Py & Hb' & Nc & J' & _).
          apply (phi_inj C) in Px; auto. apply (phi_inj C) in Py; auto. subst x' y'.
          unfold find_bond in Efb. pose proof (find_none _ _ Efb b' Hb') as X. cbn beta in X. congruence. }
        split; [reflexivity|]. split; [reflexivity|]. split; [intros b0 E0; discriminate|]. intros bv Ebv. discriminate.
    - intros k1 k2 He. rewrite has_edge_attrs, E2, EB in He.
      assert (forall k, has_node m1 k = true -> has_node m2 k = true) as Hk by (intros k Hk; now rewrite (has_node_keys_eq m2 m1 k K2)).
      destruct (find_edge k1 k2 BE) as [e|] eqn:Ef.
      + apply find_some in Ef as [Hin U]. unfold BE in Hin. apply in_map_iff in Hin as (bd & <- & Hin).
        destruct (Hends bd Hin) as (A1 & A2 & _). unfold bond_edge, eu, ev in U. cbn [fst snd] in U. apply upair_true in U.
        destruct U as [[-> ->]|[-> ->]]; split; now apply Hk.
      + rewrite <- has_edge_attrs in He. apply (i_closed _ _ _ _ I) in He. rewrite off_total in He.
        split; apply Hk, gfind_has; rewrite Hkeys1; apply seq_nat_in; lia.
    - intros x Hx. destruct (Hattr1 x Hx) as (a & Ea & Fa).
      rewrite G2 by (intros _ E; apply str_eqb_eq in E; vm_compute in E; discriminate). now rewrite node_get_via, Ea, (fa_ez _ _ _ Fa).
  Qed.
End Skeleton.
