(** GraphAdj: adjacency lists without repeated neighbours ([adj_nodup]) are an invariant of the graph
    operations and therefore of every run of resolve_disconnected_molecule and of the bonding step; with it
    G.edges and the adjacency lists can be read through [edge_attrs]: G.edges lists every unordered edge at
    most once, with the attributes [edge_attrs] returns. *)
From Coq Require Import String.
From Coq Require Import List Ascii ZArith Bool Lia.
From CGV Require Import Base.PyBase Base.PyVal Base.NxGraph Resolve.Bonding Resolve.GraphOps Resolve.MapProofs Resolve.CopyProofs
     Hydro.GraphLemmas Resolve.SortGraphProofs.
From CGV Require Import Compose.GraphFacts Compose.CutModel.
Import ListNotations.
Open Scope Z_scope.

Definition adj_nodup (g : graph) : Prop := forall n, In n g -> NoDup (map fst (nadj n)).

Lemma adj_set_keys v d l : forall x, In x (map fst (adj_set v d l)) <-> In x (map fst l) \/ x = v.
Proof.
  induction l as [|[w b] r IH]; intros x; cbn; [intuition|]. destruct (Z.eqb_spec w v) as [->|N]; cbn; [intuition|].
  rewrite IH. intuition.
Qed.
Lemma adj_set_nodup v d l : NoDup (map fst l) -> NoDup (map fst (adj_set v d l)).
Proof.
  induction l as [|[w b] r IH]; cbn; intros H; [repeat constructor; tauto|]. inversion H as [|? ? Hw Hr]; subst.
  destruct (Z.eqb_spec w v) as [->|N]; cbn; [now constructor|]. constructor; [|now apply IH].
  rewrite adj_set_keys. intros [X|X]; [contradiction|congruence].
Qed.
Lemma adj_get_in x l : NoDup (map fst l) -> forall d, adj_get x l = Some d <-> In (x, d) l.
Proof.
  induction l as [|[w b] r IH]; cbn; intros H d; [split; [discriminate|contradiction]|]. inversion H as [|? ? Hw Hr]; subst.
  destruct (Z.eqb_spec w x) as [->|N].
  - split; [intros E; inversion E; now left|]. intros [E|Hin]; [now inversion E|]. exfalso. apply Hw. apply in_map_iff. exists (x, d). auto.
  - rewrite (IH Hr). split; [now right|]. intros [E|Hin]; [inversion E; congruence|exact Hin].
Qed.

Lemma adj_nodup_gupdate k f g : (forall n, NoDup (map fst (nadj n)) -> NoDup (map fst (nadj (f n)))) ->
  adj_nodup g -> adj_nodup (gupdate k f g).
Proof.
  intros Hf H. induction g as [|m r IH]; cbn; [exact H|]. destruct (Z.eqb (nk m) k); intros n [<-|Hin].
  - apply Hf, H. now left.
  - apply H. now right.
  - apply H. now left.
  - apply IH; [|exact Hin]. intros n' Hn'. apply H. now right.
Qed.
Lemma adj_nodup_set_node_attr g k a v : adj_nodup g -> adj_nodup (set_node_attr g k a v).
Proof. apply adj_nodup_gupdate. auto. Qed.
Lemma adj_nodup_app g n : adj_nodup g -> NoDup (map fst (nadj n)) -> adj_nodup (g ++ [n]).
Proof. intros H Hn m Hin. apply in_app_or in Hin as [Hin|[<-|[]]]; auto. Qed.
Lemma adj_nodup_add_node g k a : adj_nodup g -> adj_nodup (add_node g k a).
Proof.
  intros H. unfold add_node. destruct (has_node g k); [apply adj_nodup_gupdate; auto|]. apply adj_nodup_app; [exact H|constructor].
Qed.
Lemma adj_nodup_add_edge g u v d : adj_nodup g -> adj_nodup (add_edge g u v d).
Proof.
  intros H. unfold add_edge.
  set (g1 := if has_node g u then g else g ++ [{| nk := u; na := []; nadj := [] |}]).
  assert (adj_nodup g1) as H1 by (unfold g1; destruct (has_node g u); [exact H|apply adj_nodup_app; [exact H|constructor]]).
  set (g2 := if has_node g1 v then g1 else g1 ++ [{| nk := v; na := []; nadj := [] |}]).
  assert (adj_nodup g2) as H2 by (unfold g2; destruct (has_node g1 v); [exact H1|apply adj_nodup_app; [exact H1|constructor]]).
  apply adj_nodup_gupdate; [intros n; cbn; apply adj_set_nodup|]. apply adj_nodup_gupdate; [intros n; cbn; apply adj_set_nodup|exact H2].
Qed.
Lemma fold_left_inv {A B} (P : A -> Prop) (f : A -> B -> A) l : (forall a x, P a -> P (f a x)) -> forall a, P a -> P (fold_left f l a).
Proof. intros H. induction l as [|x r IH]; intros a Ha; [exact Ha|]. cbn. apply IH. now apply H. Qed.
Lemma fold_res_inv {A B} (P : B -> Prop) (f : B -> A -> res B) l : (forall b x b', P b -> f b x = Ok b' -> P b') ->
  forall b b', P b -> fold_res f l b = Ok b' -> P b'.
Proof.
  intros H. induction l as [|x r IH]; intros b b' Hb E; cbn in E; [inversion E; now subst|].
  destruct (f b x) as [b1|] eqn:E1; cbn in E; [|discriminate]. eapply IH; [|exact E]. eapply H; eauto.
Qed.

Lemma adj_nodup_merge src tgt g corr : adj_nodup src -> merge_graphs src tgt = Ok (g, corr) -> adj_nodup g.
Proof.
  intros H. unfold merge_graphs. destruct (merge_offsets src) as [[off fo]|]; cbn [bind]; [|discriminate].
  destruct (fold_res _ tgt src) as [src1|] eqn:E1; cbn [bind]; [|discriminate]. intros E. inversion E; subst. clear E.
  apply fold_left_inv.
  - intros acc0 [[u v] d] Hacc. destruct (Z.eqb _ _); [exact Hacc|now apply adj_nodup_add_edge].
  - eapply (fold_res_inv adj_nodup); [|exact H|exact E1]. intros b x b' Hb Eb. cbn in Eb.
    destruct (merge_node _ _ _); cbn in Eb; [|discriminate]. inversion Eb. now apply adj_nodup_add_node.
Qed.
Lemma adj_nodup_disc_step fd mol fgs mn mol' fgs' : adj_nodup mol -> disc_step fd (mol, fgs) mn = Ok (mol', fgs') -> adj_nodup mol'.
Proof.
  intros H. unfold disc_step. destruct (aget (S "fragname") (na mn)) as [fv|]; cbn [of_option bind]; [|discriminate].
  destruct (lookup_fragment fd fv) as [[name frag]|].
  - destruct (merge_graphs mol frag) as [[mol1 corr]|] eqn:Em; cbn [bind]; [|discriminate].
    destruct (frag_graph_of mol1 frag corr (nk mn) name); cbn [bind]; [|discriminate]. intros E. inversion E; subst.
    apply fold_left_inv; [intros acc0 x Hacc; now apply adj_nodup_set_node_attr, adj_nodup_set_node_attr|]. eapply adj_nodup_merge; eauto.
  - destruct (virtual_ok mn) as [u|e]; cbn; [|intros X; discriminate X]. intros E. inversion E; now subst.
Qed.
Theorem adj_nodup_disconnected fd meta mol fgs : resolve_disconnected fd meta = Ok (mol, fgs) -> adj_nodup mol.
Proof.
  unfold resolve_disconnected. intros E.
  refine (fold_res_inv (fun st => adj_nodup (fst st)) (disc_step fd) meta _ (gempty, []) (mol, fgs) _ E).
  - intros [m f] x [m' f'] Hb Eb. cbn in *. eapply adj_nodup_disc_step; eauto.
  - intros n [].
Qed.
Lemma adj_nodup_apply_bond aa mol b mol' : adj_nodup mol -> apply_bond aa mol b = Ok mol' -> adj_nodup mol'.
Proof.
  intros H. unfold apply_bond. pose proof (adj_nodup_add_edge mol (b_u b) (b_v b) (bond_attrs b) H) as H1. destruct aa.
  - apply (fold_res_inv adj_nodup); [|exact H1]. intros m n m' Hm.
    destruct (node_get m n (S "element")) as [el|]; cbn [of_option bind]; [|discriminate].
    destruct (pyval_eqb el _); [intros E; inversion E; now subst|].
    destruct (node_get m n (S "hcount")) as [hc|]; cbn [of_option bind]; [|discriminate].
    destruct (dec_hcount _ hc); cbn [bind]; [|discriminate]. intros E. inversion E. now apply adj_nodup_set_node_attr.
  - intros E. inversion E. now subst.
Qed.
Theorem adj_nodup_bonding legacy aa meta mol fgs mol' fgs' : adj_nodup mol ->
  bonding_step legacy aa meta mol fgs = Ok (mol', fgs') -> adj_nodup mol'.
Proof.
  intros H. unfold bonding_step. destruct (bonds_of legacy meta mol fgs) as [[s1 bonds]|]; cbn [bind]; [|discriminate].
  destruct (fold_res (apply_bond aa) bonds mol) as [m|] eqn:E; cbn [bind]; [|discriminate]. intros X. inversion X; subst.
  eapply (fold_res_inv adj_nodup); [|exact H|exact E]. intros b x b' Hb Eb. eapply adj_nodup_apply_bond; eauto.
Qed.

(** ---------------------------------------------------------------- reading G.edges and adjacency lists *)
Lemma edges_from_in g : forall seen u v d, In (u, v, d) (edges_from g seen) -> exists n, In n g /\ nk n = u /\ In (v, d) (nadj n).
Proof.
  induction g as [|n r IH]; intros seen u v d H; cbn [edges_from] in H; [contradiction|]. apply in_app_or in H as [H|H].
  - apply in_flat_map in H as ([w a] & Hin & Hx). cbn [fst snd] in Hx. destruct (existsb _ seen); [contradiction|].
    destruct Hx as [Hx|[]]. inversion Hx; subst. exists n. split; [now left|split; [reflexivity|exact Hin]].
  - destruct (IH _ _ _ _ H) as (m & Hm & A & B'). exists m. split; [now right|split; assumption].
Qed.
Lemma adj_edge_attrs g n v d : NoDup (node_keys g) -> adj_nodup g -> In n g -> (In (v, d) (nadj n) <-> edge_attrs g (nk n) v = Ok d).
Proof.
  intros Hn Ha Hin. unfold edge_attrs. rewrite (gfind_in g Hn n Hin). rewrite <- (adj_get_in v (nadj n) (Ha n Hin) d).
  destruct (adj_get v (nadj n)); split; congruence.
Qed.
Lemma edges_data_attrs g u v d : NoDup (node_keys g) -> adj_nodup g -> In (u, v, d) (edges_data g) -> edge_attrs g u v = Ok d.
Proof. intros Hn Ha H. apply edges_from_in in H as (n & Hin & <- & Hd). now apply adj_edge_attrs. Qed.

Lemma FOP_app {A} (R : A -> A -> Prop) l1 l2 : ForallOrdPairs R l1 -> ForallOrdPairs R l2 -> (forall a b, In a l1 -> In b l2 -> R a b) ->
  ForallOrdPairs R (l1 ++ l2).
Proof.
  induction 1 as [|x r Hx Hr IH]; intros H2 Hc; [exact H2|]. cbn. constructor.
  - apply Forall_app. split; [exact Hx|]. rewrite Forall_forall. intros b Hb. apply Hc; [now left|exact Hb].
  - apply IH; [exact H2|]. intros a b Ha Hb. apply Hc; [now right|exact Hb].
Qed.

(** G.edges lists every unordered pair at most once *)
Theorem edges_data_once g : NoDup (node_keys g) -> adj_nodup g -> unordered_nodup (edges_list g).
Proof.
  unfold unordered_nodup, edges_list, edges_data. generalize (@nil Z) as seen.
  induction g as [|n r IH]; intros seen Hn Ha; cbn [edges_from map]; [constructor|]. inversion Hn as [|? ? Hk Hr]; subst.
  rewrite map_app. apply FOP_app.
  - (* the edges reported from n: distinct neighbours *)
    pose proof (Ha n (or_introl eq_refl)) as Hnd. induction (nadj n) as [|[w a] l IHl]; cbn [flat_map map]; [constructor|].
    inversion Hnd as [|? ? Hw Hl]; subst. cbn [fst snd]. rewrite map_app. apply FOP_app; [|now apply IHl|].
    + destruct (existsb _ seen); cbn; repeat constructor.
    + intros e e' He He'. destruct (existsb _ seen); [contradiction|]. destruct He as [<-|[]]. cbn [fst snd].
      apply in_map_iff in He' as ([[u' v'] d'] & <- & Hin). cbn [fst snd]. apply in_flat_map in Hin as ([w' a'] & Hw' & Hx).
      cbn [fst snd] in Hx. destruct (existsb _ seen); [contradiction|]. destruct Hx as [Hx|[]]. inversion Hx; subst.
      assert (w <> v') as N by (intros ->; apply Hw; apply in_map_iff; exists (v', d'); auto). intros [[_ E]|[E1 E2]]; congruence.
  - apply IH; [exact Hr|]. intros m Hm. apply Ha. now right.
  - intros e e' He He'. apply in_map_iff in He as ([[u v] d] & <- & Hin). apply in_map_iff in He' as ([[u' v'] d'] & <- & Hin'). cbn [fst snd].
    apply in_flat_map in Hin as ([w a] & Hw & Hx). cbn [fst snd] in Hx. destruct (existsb _ seen); [contradiction|]. destruct Hx as [Hx|[]]. inversion Hx; subst.
    apply SortGraphProofs.edges_from_iff in Hin' as (pre & m & post & E & Hu' & _ & Hs & _).
    assert (u' <> nk n) as N1. { intros X. apply Hk. rewrite <- X, <- Hu', E. unfold node_keys. rewrite map_app. apply in_or_app. right. now left. }
    assert (v' <> nk n) as N2 by (intros X; apply Hs; now left). intros [[E1 _]|[E1 _]]; congruence.
Qed.

(** ---------------------------------------------------------------- edge attribute dicts have unique keys *)
Definition edge_nodup (g : graph) : Prop := forall n, In n g -> forall w d, In (w, d) (nadj n) -> NoDup (map fst d).

Lemma aset_keys k v a : forall x, In x (map fst (aset k v a)) <-> In x (map fst a) \/ x = k.
Proof.
  induction a as [|[k' v'] r IH]; intros x; cbn; [intuition|]. destruct (str_eqb_spec k k') as [->|N]; cbn; [intuition|]. rewrite IH. intuition.
Qed.
Lemma aset_nodup k v a : NoDup (map fst a) -> NoDup (map fst (aset k v a)).
Proof.
  induction a as [|[k' v'] r IH]; cbn; intros H; [repeat constructor; tauto|]. inversion H as [|? ? Hk Hr]; subst.
  destruct (str_eqb_spec k k') as [->|N]; cbn; [now constructor|]. constructor; [|now apply IH]. rewrite aset_keys. intros [X|X]; [contradiction|congruence].
Qed.
Lemma aupdate_nodup b : forall a, NoDup (map fst a) -> NoDup (map fst (aupdate a b)).
Proof. unfold aupdate. induction b as [|[k v] r IH]; intros a H; [exact H|]. cbn [fold_left]. apply IH. now apply aset_nodup. Qed.
Lemma adj_set_in v d0 l w d : In (w, d) (adj_set v d0 l) -> (w, d) = (v, d0) \/ In (w, d) l.
Proof.
  induction l as [|[x b] r IH]; cbn; [intros [E|[]]; now left|]. destruct (Z.eqb_spec x v) as [->|N]; cbn.
  - intros [E|H]; [left; exact (eq_sym E)|right; now right].
  - intros [E|H]; [right; now left|]. destruct (IH H); [now left|right; now right].
Qed.

Lemma edge_nodup_gupdate k f g : (forall n, (forall w d, In (w, d) (nadj n) -> NoDup (map fst d)) -> forall w d, In (w, d) (nadj (f n)) -> NoDup (map fst d)) ->
  edge_nodup g -> edge_nodup (gupdate k f g).
Proof.
  intros Hf H. induction g as [|m r IH]; cbn; [exact H|]. destruct (Z.eqb (nk m) k); intros n [<-|Hin].
  - apply Hf. apply H. now left.
  - apply H. now right.
  - apply H. now left.
  - apply IH; [|exact Hin]. intros n' Hn'. apply H. now right.
Qed.
Lemma edge_nodup_set_node_attr g k a v : edge_nodup g -> edge_nodup (set_node_attr g k a v).
Proof. apply edge_nodup_gupdate. auto. Qed.
Lemma edge_nodup_app g n : edge_nodup g -> nadj n = [] -> edge_nodup (g ++ [n]).
Proof. intros H Hn m Hin w d Hd. apply in_app_or in Hin as [Hin|[<-|[]]]; [eapply H; eauto|rewrite Hn in Hd; contradiction]. Qed.
Lemma edge_nodup_add_node g k a : edge_nodup g -> edge_nodup (add_node g k a).
Proof.
  intros H. unfold add_node. destruct (has_node g k); [apply edge_nodup_gupdate; auto|]. now apply edge_nodup_app.
Qed.
Lemma edge_attrs_nodup g u v o : edge_nodup g -> edge_attrs g u v = Ok o -> NoDup (map fst o).
Proof.
  intros H E. unfold edge_attrs in E. destruct (gfind u g) as [n|] eqn:G; [|discriminate]. destruct (adj_get v (nadj n)) as [a|] eqn:A; [|discriminate].
  inversion E; subst. apply (H n (gfind_In _ _ _ G) v). clear -A. induction (nadj n) as [|[w b] r IH]; cbn in A; [discriminate|].
  destruct (Z.eqb_spec w v) as [->|N]; [inversion A; now left|right; auto].
Qed.
Lemma edge_nodup_add_edge g u v a : edge_nodup g -> edge_nodup (add_edge g u v a).
Proof.
  intros H. unfold add_edge.
  set (g1 := if has_node g u then g else g ++ [{| nk := u; na := []; nadj := [] |}]).
  assert (edge_nodup g1) as H1 by (unfold g1; destruct (has_node g u); [exact H|now apply edge_nodup_app]).
  set (g2 := if has_node g1 v then g1 else g1 ++ [{| nk := v; na := []; nadj := [] |}]).
  assert (edge_nodup g2) as H2 by (unfold g2; destruct (has_node g1 v); [exact H1|now apply edge_nodup_app]).
  assert (NoDup (map fst (aupdate (match edge_attrs g2 u v with Ok d => d | Err _ => [] end) a))) as Hd.
  { apply aupdate_nodup. destruct (edge_attrs g2 u v) as [o|] eqn:E; [eapply edge_attrs_nodup; eauto|constructor]. }
  apply edge_nodup_gupdate; [|apply edge_nodup_gupdate; [|exact H2]]; intros n Hn w d Hin; cbn [nadj] in Hin;
    (apply adj_set_in in Hin as [E|Hin]; [inversion E; subst; exact Hd|eapply Hn; eauto]).
Qed.

Lemma edge_nodup_merge src tgt g corr : edge_nodup src -> merge_graphs src tgt = Ok (g, corr) -> edge_nodup g.
Proof.
  intros H. unfold merge_graphs. destruct (merge_offsets src) as [[off fo]|]; cbn [bind]; [|discriminate].
  destruct (fold_res _ tgt src) as [src1|] eqn:E1; cbn [bind]; [|discriminate]. intros E. inversion E; subst. clear E.
  apply fold_left_inv.
  - intros acc0 [[u v] d] Hacc. destruct (Z.eqb _ _); [exact Hacc|now apply edge_nodup_add_edge].
  - eapply (fold_res_inv edge_nodup); [|exact H|exact E1]. intros b x b' Hb Eb. cbn in Eb.
    destruct (merge_node _ _ _); cbn in Eb; [|discriminate]. inversion Eb. now apply edge_nodup_add_node.
Qed.
Lemma edge_nodup_disc_step fd mol fgs mn mol' fgs' : edge_nodup mol -> disc_step fd (mol, fgs) mn = Ok (mol', fgs') -> edge_nodup mol'.
Proof.
  intros H. unfold disc_step. destruct (aget (S "fragname") (na mn)) as [fv|]; cbn [of_option bind]; [|discriminate].
  destruct (lookup_fragment fd fv) as [[name frag]|].
  - destruct (merge_graphs mol frag) as [[mol1 corr]|] eqn:Em; cbn [bind]; [|discriminate].
    destruct (frag_graph_of mol1 frag corr (nk mn) name); cbn [bind]; [|discriminate]. intros E. inversion E; subst.
    apply fold_left_inv; [intros acc0 x Hacc; now apply edge_nodup_set_node_attr, edge_nodup_set_node_attr|]. eapply edge_nodup_merge; eauto.
  - destruct (virtual_ok mn) as [u|e]; cbn; [|intros X; discriminate X]. intros E. inversion E; now subst.
Qed.
Theorem edge_nodup_disconnected fd meta mol fgs : resolve_disconnected fd meta = Ok (mol, fgs) -> edge_nodup mol.
Proof.
  unfold resolve_disconnected. intros E.
  refine (fold_res_inv (fun st => edge_nodup (fst st)) (disc_step fd) meta _ (gempty, []) (mol, fgs) _ E).
  - intros [m f] x [m' f'] Hb Eb. cbn in *. eapply edge_nodup_disc_step; eauto.
  - intros n [].
Qed.
Lemma edge_nodup_apply_bond aa mol b mol' : edge_nodup mol -> apply_bond aa mol b = Ok mol' -> edge_nodup mol'.
Proof.
  intros H. unfold apply_bond. pose proof (edge_nodup_add_edge mol (b_u b) (b_v b) (bond_attrs b) H) as H1. destruct aa.
  - apply (fold_res_inv edge_nodup); [|exact H1]. intros m n m' Hm.
    destruct (node_get m n (S "element")) as [el|]; cbn [of_option bind]; [|discriminate].
    destruct (pyval_eqb el _); [intros E; inversion E; now subst|].
    destruct (node_get m n (S "hcount")) as [hc|]; cbn [of_option bind]; [|discriminate].
    destruct (dec_hcount _ hc); cbn [bind]; [|discriminate]. intros E. inversion E. now apply edge_nodup_set_node_attr.
  - intros E. inversion E. now subst.
Qed.
Theorem edge_nodup_bonding legacy aa meta mol fgs mol' fgs' : edge_nodup mol ->
  bonding_step legacy aa meta mol fgs = Ok (mol', fgs') -> edge_nodup mol'.
Proof.
  intros H. unfold bonding_step. destruct (bonds_of legacy meta mol fgs) as [[s1 bonds]|]; cbn [bind]; [|discriminate].
  destruct (fold_res (apply_bond aa) bonds mol) as [m|] eqn:E; cbn [bind]; [|discriminate]. intros X. inversion X; subst.
  eapply (fold_res_inv edge_nodup); [|exact H|exact E]. intros b x b' Hb Eb. eapply edge_nodup_apply_bond; eauto.
Qed.
Lemma edges_data_nodup g u v d : edge_nodup g -> In (u, v, d) (edges_data g) -> NoDup (map fst d).
Proof. intros H Hin. apply edges_from_in in Hin as (n & Hn & _ & Hd). eapply H; eauto. Qed.
