(** CutSpecDefs: executable tests (definitions only, NO proofs) of the specifications of CutModel - [is_template],
    [is_base], [templates_ok], the all-atom payload condition, and [skeleton] on a given fine graph.  Their soundness
    is proved in CutSpecCheck.v; the per-run check CutRunCheck.v imports this file only, so that it still builds and
    runs when a proof breaks. *)
From Coq Require Import String.
From Coq Require Import List Ascii ZArith Bool Lia.
From CGV Require Import Base.PyBase Base.PyVal Base.NxGraph Resolve.Bonding Resolve.BondingDefs Resolve.BondingCheck
     Resolve.CutCheck Resolve.GraphOps.
From CGV Require Import Compose.CutModel.
Import ListNotations.
Open Scope Z_scope.

Definition oeqb (a b : option pyval) : bool :=
  match a, b with Some x, Some y => pyval_eqb x y | None, None => true | _, _ => false end.
Fixpoint zlist_eqb (a b : list Z) : bool :=
  match a, b with [], [] => true | x :: a', y :: b' => Z.eqb x y && zlist_eqb a' b' | _, _ => false end.
Definition pair_distinctb (e e' : Z * Z) : bool :=
  negb ((Z.eqb (fst e) (fst e') && Z.eqb (snd e) (snd e')) || (Z.eqb (fst e) (snd e') && Z.eqb (snd e) (fst e'))).
Definition tattrs_okb (C : cut) (name : pystr) (x : Z) (a : attrs) : bool :=
  oeqb (aget (S "fragid") a) (Some (VInt 0)) && oeqb (aget (S "fragname") a) (Some (VStr name))
  && oeqb (aget (S "bonding") a) (bonding_val (descs C x)) && oeqb (aget (S "ez_isomer_atoms") a) None
  && oeqb (aget (S "aromatic") a) (aget (S "aromatic") (payload C x)) && oeqb (aget (S "rs_isomer") a) None
  && forallb (fun kv => str_in (fst kv) reserved || oeqb (aget (fst kv) a) (aget (fst kv) (payload C x))) (payload C x).
Definition edge_okb (C : cut) (xs : list Z) (e : Z * Z * attrs) : bool :=
  let '(i, j, d) := e in
  (0 <=? i) && (0 <=? j) &&
  match nth_error xs (Z.to_nat i), nth_error xs (Z.to_nat j) with
  | Some x, Some y =>
      match find_bond C x y with
      | Some b => oeqb (aget (S "order") d) (Some (cb_ord b)) && oeqb (aget (S "bonding") d) None && nodup_strs (map fst d)
      | None => false
      end
  | _, _ => false
  end.
Definition is_templateb (C : cut) (name : pystr) (xs : list Z) (T : graph) : bool :=
  zlist_eqb (node_keys T) (map Z.of_nat (seq 0 (length xs)))
  && forallb (fun ix => match node_attrs T (Z.of_nat (fst ix)) with Ok a => tattrs_okb C name (snd ix) a | Err _ => false end)
             (combine (seq 0 (length xs)) xs)
  && forallb (edge_okb C xs) (edges_data T)
  && pairwise_b pair_distinctb (edges_list T)
  && forallb (fun ni => forallb (fun nj =>
       match nth_error xs ni, nth_error xs nj with
       | Some x, Some y =>
           forallb (fun b => negb (Z.eqb (cb_u b) x && Z.eqb (cb_v b) y)
                             || existsb (fun e => (Z.eqb (fst e) (Z.of_nat ni) && Z.eqb (snd e) (Z.of_nat nj))
                                                  || (Z.eqb (fst e) (Z.of_nat nj) && Z.eqb (snd e) (Z.of_nat ni))) (edges_list T)) (c_bonds C)
       | _, _ => true
       end) (seq 0 (length xs))) (seq 0 (length xs)).

Definition is_baseb (C : cut) (B : graph) : bool :=
  let P := length (c_parts C) in
  zlist_eqb (node_keys B) (map Z.of_nat (seq 0 P))
  && forallb (fun ip => match node_attrs B (Z.of_nat (fst ip)) with
                        | Ok a => oeqb (aget (S "fragname") a) (Some (VStr (fst (snd ip))))
                        | Err _ => false end) (combine (seq 0 P) (c_parts C))
  && forallb (fun e => let '(a, b, d) := e in
                (0 <=? a) && (0 <=? b) && negb (Z.eqb a b) && (a <? Z.of_nat P) && (b <? Z.of_nat P)
                && oeqb (aget (S "order") d) (Some (VInt (Z.of_nat (length (cutpairs C (Z.to_nat a) (Z.to_nat b))))))) (edges_data B)
  && pairwise_b pair_distinctb (edges_list B)
  && forallb (fun b => existsb (fun e => (Z.eqb (fst e) (Z.of_nat (owner C (cb_u b))) && Z.eqb (snd e) (Z.of_nat (owner C (cb_v b))))
                                         || (Z.eqb (fst e) (Z.of_nat (owner C (cb_v b))) && Z.eqb (snd e) (Z.of_nat (owner C (cb_u b)))))
                               (edges_list B)) (cuts C).

Definition templates_okb (C : cut) (fd : fragdict) : bool :=
  forallb (fun p => match fd_get (fst p) fd with Some T => is_templateb C (fst p) (snd p) T | None => false end) (c_parts C).

(** the payload condition of the all-atom step: the bonding step reads `element` and an integer `hcount` *)
Definition aa_payloadb (C : cut) : bool :=
  forallb (fun x => match aget (S "element") (payload C x), aget (S "hcount") (payload C x) with
                    | Some _, Some (VInt _) => true | _, _ => false end) (flat C).

(** [CutSkeleton.skeleton C aa m] as a test on a given graph *)
Definition bonding_okb (C : cut) (x y : Z) (bv : option pyval) : bool :=
  match bv, find_bond C x y with
  | None, Some b => negb (is_cut C b)
  | None, None => true
  | Some v, Some b => is_cut C b && (pyval_eqb v (VTup [VStr (dtext true b); VStr (dtext false b)])
                                     || pyval_eqb v (VTup [VStr (dtext false b); VStr (dtext true b)]))
  | Some _, None => false
  end.
Definition skeletonb (C : cut) (aa : bool) (m : graph) : bool :=
  zlist_eqb (node_keys m) (map Z.of_nat (seq 0 (length (flat C))))
  && forallb (fun x =>
       oeqb (node_get m (phi C x) (S "fragid")) (Some (VList [VInt (Z.of_nat (owner C x))]))
       && oeqb (node_get m (phi C x) (S "aromatic")) (aget (S "aromatic") (payload C x))
       && oeqb (node_get m (phi C x) (S "rs_isomer")) None && oeqb (node_get m (phi C x) (S "ez_isomer_atoms")) None
       && forallb (fun kv => str_in (fst kv) reserved || (aa && str_eqb (fst kv) (S "hcount"))
                             || oeqb (node_get m (phi C x) (fst kv)) (aget (fst kv) (payload C x))) (payload C x)) (flat C)
  && forallb (fun x => forallb (fun y =>
       Bool.eqb (has_edge m (phi C x) (phi C y)) (bonded C x y)
       && oeqb (edge_get m (phi C x) (phi C y) (S "order")) (result_order C x y)
       && bonding_okb C x y (edge_get m (phi C x) (phi C y) (S "bonding"))) (flat C)) (flat C)
  && forallb (fun n => forallb (fun wa : Z * attrs => has_node m (fst wa)) (nadj n)) m.
