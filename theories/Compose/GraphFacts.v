(** GraphFacts: facts about Base/NxGraph used by the composition theorems: what [add_node],
    [set_node_attr], [add_edge] and folds of [add_edge] do to EDGE ATTRIBUTES ([edge_attrs]), to node
    keys and to node attributes; [get_node_attributes] read through keys and [node_attrs]. *)
From Coq Require Import String.
From Coq Require Import List Ascii ZArith Bool Lia.
From CGV Require Import Base.PyBase Base.PyVal Base.NxGraph Hydro.GraphLemmas Resolve.GraphOps Resolve.MapProofs Resolve.CopyProofs.
Import ListNotations.
Open Scope Z_scope.

(** ---------------------------------------------------------------- attribute dictionaries *)
Lemma aget_app k a b : aget k (a ++ b) = match aget k a with Some v => Some v | None => aget k b end.
Proof. induction a as [|[k' v] r IH]; cbn; [reflexivity|]. destruct (str_eqb k k'); [reflexivity|exact IH]. Qed.

(** dict.update: the LAST entry of [b] for a key wins, else the old value *)
Lemma aget_aupdate k b : forall a,
  aget k (aupdate a b) = match aget k (rev b) with Some v => Some v | None => aget k a end.
Proof.
  unfold aupdate. induction b as [|[k' v'] r IH]; intros a; cbn [fold_left rev]; [reflexivity|].
  rewrite IH. rewrite aget_app. destruct (aget k (rev r)); [reflexivity|]. cbn [aget fst snd].
  destruct (str_eqb_spec k k') as [->|N]; [apply aget_aset_same|now apply aget_aset_other].
Qed.
Lemma aget_rev_nodup k : forall a, NoDup (map fst a) -> aget k (rev a) = aget k a.
Proof.
  induction a as [|[k' v] r IH]; intros H; [reflexivity|]. inversion H as [|? ? Hk Hr]; subst.
  cbn [rev]. rewrite aget_app, (IH Hr). cbn [aget].
  destruct (str_eqb_spec k k') as [->|N].
  - destruct (aget k' r) eqn:E; [|reflexivity]. exfalso. apply Hk.
    clear -E. induction r as [|[k2 v2] r IH]; [discriminate|]. cbn in E. destruct (str_eqb_spec k' k2) as [->|]; [now left|right; auto].
  - destruct (aget k r); reflexivity.
Qed.
Lemma aget_aupdate_nodup k a b : NoDup (map fst b) ->
  aget k (aupdate a b) = match aget k b with Some v => Some v | None => aget k a end.
Proof. intros H. now rewrite aget_aupdate, aget_rev_nodup. Qed.

(** ---------------------------------------------------------------- adjacency lists *)
Lemma adj_get_adj_set x v d l : adj_get x (adj_set v d l) = if Z.eqb x v then Some d else adj_get x l.
Proof.
  induction l as [|[w b] l IH]; cbn.
  - rewrite (Z.eqb_sym v x). reflexivity.
  - destruct (Z.eqb_spec w v) as [->|N]; cbn.
    + rewrite (Z.eqb_sym v x). destruct (Z.eqb x v); reflexivity.
    + rewrite IH. destruct (Z.eqb_spec w x) as [->|N2]; [|reflexivity].
      destruct (Z.eqb_spec x v); [congruence|reflexivity].
Qed.

Definition upair (x y u v : Z) : bool := (Z.eqb x u && Z.eqb y v) || (Z.eqb x v && Z.eqb y u).
Lemma upair_sym x y u v : upair x y u v = upair u v x y.
Proof. unfold upair. rewrite (Z.eqb_sym x u), (Z.eqb_sym y v), (Z.eqb_sym x v), (Z.eqb_sym y u).
  destruct (Z.eqb u x), (Z.eqb v y), (Z.eqb v x), (Z.eqb u y); reflexivity. Qed.
Lemma upair_flip x y u v : upair x y u v = upair y x u v.
Proof. unfold upair. destruct (Z.eqb x u), (Z.eqb y v), (Z.eqb x v), (Z.eqb y u); reflexivity. Qed.
Lemma upair_true x y u v : upair x y u v = true <-> (x = u /\ y = v) \/ (x = v /\ y = u).
Proof. unfold upair. rewrite orb_true_iff, !andb_true_iff, !Z.eqb_eq. tauto. Qed.

(** ---------------------------------------------------------------- edge attributes under the graph operations *)
Lemma has_edge_attrs g u v : has_edge g u v = match edge_attrs g u v with Ok _ => true | Err _ => false end.
Proof. unfold has_edge, edge_attrs. destruct (gfind u g); [|reflexivity]. destruct (adj_get v (nadj n)); reflexivity. Qed.
Lemma edge_attrs_err g u v : has_edge g u v = false -> edge_attrs g u v = Err EKey.
Proof. unfold has_edge, edge_attrs. destruct (gfind u g); [|reflexivity]. destruct (adj_get v (nadj n)); [discriminate|reflexivity]. Qed.
Lemma edge_attrs_ok_has g u v d : edge_attrs g u v = Ok d -> has_edge g u v = true.
Proof. intros H. rewrite has_edge_attrs, H. reflexivity. Qed.

Lemma edge_attrs_gupdate g k f x y : (forall n, nk (f n) = nk n) -> (forall n, nadj (f n) = nadj n) ->
  edge_attrs (gupdate k f g) x y = edge_attrs g x y.
Proof.
  intros Hk Ha. unfold edge_attrs. rewrite gfind_gupdate by exact Hk.
  destruct (Z.eqb x k); [|reflexivity]. destruct (gfind x g); cbn; [now rewrite Ha|reflexivity].
Qed.
Lemma edge_attrs_set_node_attr g k a v x y : edge_attrs (set_node_attr g k a v) x y = edge_attrs g x y.
Proof. unfold set_node_attr. now apply edge_attrs_gupdate. Qed.
Lemma edge_attrs_add_node g k a x y : edge_attrs (add_node g k a) x y = edge_attrs g x y.
Proof.
  unfold add_node. destruct (has_node g k) eqn:E; [now apply edge_attrs_gupdate|].
  unfold edge_attrs. rewrite gfind_app_fresh. destruct (gfind x g) eqn:G; [reflexivity|].
  cbn [nk]. destruct (Z.eqb k x); reflexivity.
Qed.

Lemma edge_attrs_add_edge g u v d x y : has_node g u = true -> has_node g v = true -> u <> v ->
  edge_attrs (add_edge g u v d) x y =
  if upair x y u v then Ok (aupdate (match edge_attrs g u v with Ok o => o | Err _ => [] end) d) else edge_attrs g x y.
Proof.
  intros Hu Hv Nuv. unfold add_edge. rewrite Hu, Hv.
  set (d' := aupdate (match edge_attrs g u v with Ok o => o | Err _ => [] end) d).
  unfold edge_attrs at 1. rewrite !gfind_gupdate by reflexivity. unfold upair.
  destruct (Z.eqb_spec x v) as [->|Nxv].
  - destruct (Z.eqb_spec v u) as [E|_]; [congruence|]. cbn [andb orb].
    unfold has_node in Hv. unfold edge_attrs. destruct (gfind v g) as [n|]; [|discriminate]. cbn [option_map nadj].
    rewrite adj_get_adj_set. destruct (Z.eqb y u); reflexivity.
  - cbn [andb orb]. rewrite orb_false_r. destruct (Z.eqb_spec x u) as [->|Nxu]; cbn [andb].
    + unfold has_node in Hu. unfold edge_attrs. destruct (gfind u g) as [n|]; [|discriminate]. cbn [option_map nadj].
      rewrite adj_get_adj_set. destruct (Z.eqb y v); reflexivity.
    + reflexivity.
Qed.

(** ---------------------------------------------------------------- a fold of add_edge over distinct fresh pairs *)
Definition eu (e : Z * Z * attrs) : Z := fst (fst e).
Definition ev (e : Z * Z * attrs) : Z := snd (fst e).
Definition ed (e : Z * Z * attrs) : attrs := snd e.
Definition add_edges (l : list (Z * Z * attrs)) (g : graph) : graph :=
  fold_left (fun acc e => add_edge acc (eu e) (ev e) (ed e)) l g.
Definition find_edge (x y : Z) (l : list (Z * Z * attrs)) : option (Z * Z * attrs) :=
  find (fun e => upair x y (eu e) (ev e)) l.

Lemma find_none_all {A} (f : A -> bool) l : (forall x, In x l -> f x = false) -> find f l = None.
Proof. induction l as [|x r IH]; cbn; intros H; [reflexivity|]. rewrite (H x (or_introl eq_refl)). apply IH. intros; apply H; now right. Qed.

Lemma add_edges_spec l : forall g,
  (forall e, In e l -> has_node g (eu e) = true /\ has_node g (ev e) = true /\ eu e <> ev e) ->
  (forall e, In e l -> has_edge g (eu e) (ev e) = false) ->
  ForallOrdPairs (fun e e' => upair (eu e) (ev e) (eu e') (ev e') = false) l ->
  node_keys (add_edges l g) = node_keys g /\
  (forall k, node_attrs (add_edges l g) k = node_attrs g k) /\
  (forall x y, edge_attrs (add_edges l g) x y =
               match find_edge x y l with Some e => Ok (aupdate [] (ed e)) | None => edge_attrs g x y end).
Proof.
  induction l as [|e r IH]; intros g Hn Hf Hd; [cbn; auto|].
  destruct (Hn e (or_introl eq_refl)) as (Hu & Hv & Nuv).
  inversion Hd as [|? ? Hhead Htail]; subst. rewrite Forall_forall in Hhead.
  cbn [add_edges fold_left]. fold (add_edges r (add_edge g (eu e) (ev e) (ed e))).
  destruct (IH (add_edge g (eu e) (ev e) (ed e))) as (K & A & E).
  - intros e' He'. destruct (Hn e' (or_intror He')) as (A1 & A2 & A3).
    repeat split; [apply has_node_add_edge; now left|apply has_node_add_edge; now left|exact A3].
  - intros e' He'. rewrite has_edge_attrs, edge_attrs_add_edge by assumption.
    rewrite upair_sym, (Hhead e' He'). rewrite <- has_edge_attrs. apply Hf. now right.
  - exact Htail.
  - split; [rewrite K; now apply keys_add_edge_in|]. split.
    + intros k. rewrite A. now apply attrs_add_edge.
    + intros x y. rewrite E. unfold find_edge. cbn [find]. fold (find_edge x y r).
      rewrite edge_attrs_add_edge by assumption.
      destruct (upair x y (eu e) (ev e)) eqn:U.
      * assert (find_edge x y r = None) as ->.
        { unfold find_edge. apply find_none_all. intros e' He'. specialize (Hhead e' He').
          apply upair_true in U. destruct (upair x y (eu e') (ev e')) eqn:U'; [|reflexivity]. apply upair_true in U'.
          exfalso. assert (upair (eu e) (ev e) (eu e') (ev e') = true); [|congruence].
          apply upair_true. destruct U as [[-> ->]|[-> ->]], U' as [[E1 E2]|[E1 E2]]; rewrite <- E1, <- E2; auto. }
        rewrite (edge_attrs_err g _ _ (Hf e (or_introl eq_refl))). reflexivity.
      * reflexivity.
Qed.


(** ---------------------------------------------------------------- get_node_attributes through keys and node_attrs *)
Lemma gna_by_keys g a : NoDup (node_keys g) ->
  get_node_attributes g a =
  flat_map (fun k => match node_get g k a with Some v => [(k, v)] | None => [] end) (node_keys g).
Proof.
  intros Hn. unfold get_node_attributes, node_keys. rewrite flat_map_concat_map, flat_map_concat_map, map_map.
  f_equal. apply map_ext_in. intros n Hin. unfold node_get. now rewrite (gfind_in g Hn n Hin).
Qed.

Lemma node_get_attrs g k a at_ : node_attrs g k = Ok at_ -> node_get g k a = aget a at_.
Proof. unfold node_attrs, node_get. destruct (gfind k g); [|discriminate]. intros H. inversion H. reflexivity. Qed.
