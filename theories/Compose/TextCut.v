(** TextCut: the END-TO-END TEXT theorem of C01 at the bonding / skeleton level, composed from the components' theorems
    (imports only; no definition of another component is changed).

    A cut C of a molecule is WRITTEN as the two-block string

        s = "{" base "}" "." "{" "#" n1 "=" t1 "," ... "," "#" nk "=" tk "}"                 ([cut_string a defs])

    - base = Reader.Grammar.print_chain a for a base-graph AST a of the documented grammar (chains, branches, ring bonds,
      bond symbols; Reader: reader_sim_grammar = C04_partial says read_cgsmiles returns what the grammar denotes),
    - every definition (n, toks, dc) is written by the strip component's renderer: t = FragText.render (decorate toks dc)
      (any start atom / branch order / ring digits / descriptor positions the renderer admits; Frag:
      template_is_template_b = C13_template_is_template_checked says the final template of a rendered part is a
      Compose [is_template]).

    The string-level driver model is Resolve/Pipeline.from_string over the Reader's [read_cgsmiles] and [read_fragments_text]
    = Dialect/DriverModel.read_fragments_with (fragment_split, strip_bonding_descriptors per definition) with the strip
    component's FINAL template (Frag/TemplateFinal: pysmiles parser model, fill_valence hcount, atomname, ... as a
    networkx graph TemplateGraph.tmpl_graph) in the all-atom branch, Write/FragRead.read_fragment_cgsmiles in the coarse
    branch, and `if fragname not in fragment_dict` as insertion (Stereo/EzStrings.fd_add).

    [text_level_skeleton]: for every well-formed cut whose parts are all written by some definition with [part_okb] true
    (decided by computation per part) and whose base text denotes a base graph of the cut ([is_base]; decided per base
    text by [is_baseb]), from_string(s) returns, its only dictionary is a [templates_ok] dictionary, and the first
    resolve() of the model - disconnected step, bonding step (legacy matching), squash_atoms - returns the SKELETON of the
    molecule: keys offset(part) + index, the payload of every atom, exactly the molecule's bonds with their orders.
    [text_level_step]: every returned PipelineFull.resolve_step_full on the parsed state has that skeleton as fo_m2 = fo_m3.
    The hypotheses on characters ([def_clean]: no `,` `}` in a definition, no `=` in a name; no `}` in the base text) are
    what find_blocks / fragment_split need; they are decided on the text. *)
From Coq Require Import String.
From Coq Require Import List Ascii ZArith Bool Lia.
From CGV Require Import Base.PyBase Base.PyVal Base.NxGraph Dialect.DialectImpl.
From CGV Require Import Frag.NDict Frag.StripImpl Frag.FragText Frag.SmilesParse Frag.Template Frag.TemplateFinal Frag.TemplateGraph
     Frag.TemplateCompose.
From CGV Require Reader.ReaderImpl Reader.Grammar Reader.ReaderXAst Stereo.EzStrings Write.FragRead Write.CoarseFrags.
From CGV Require Import Resolve.Bonding Resolve.CutCheck Resolve.CutBonding Resolve.GraphOps Resolve.Pipeline Resolve.PipelineFull Dialect.DriverModel Dialect.DriverFaults.
From CGV Require Hydro.Hydrogens Hydro.Squash.
From CGV Require Import Hydro.SquashDefs.
From CGV Require Import Compose.GraphAdj Compose.CutModel Compose.CutSpecDefs Compose.CutSpecCheck Compose.CutSkeleton Compose.CutHydrogens Compose.ComposeFlat.
From CGV Require Export Compose.TextCutDefs.
Import ListNotations.
Open Scope Z_scope.

(** ---------------------------------------------------------------- the written description *)
Record fdef := { fd_name : pystr; fd_toks : list FragText.tok; fd_dc : decor }.
Definition def_text (d : fdef) : pystr := render (decorate (fd_toks d) (fd_dc d)).
Definition def_str (d : fdef) : pystr := "#"%char :: fd_name d ++ "="%char :: def_text d.
Definition frag_body (defs : list fdef) : pystr := join [","%char] (map def_str defs).
Definition cut_string_of (body : pystr) (defs : list fdef) : pystr := dotted [block_of body; block_of (frag_body defs)].
Definition cut_string (a : Grammar.chain) (defs : list fdef) : pystr := cut_string_of (Grammar.print_chain a) defs.

Lemma tgraph_eq T : tgraph T = tmpl_graph T.
Proof. reflexivity. Qed.
Lemma mk_text_final fo name text :
  (r <- strip_bonding_descriptors fo text ;; mk_text fo true name r)
  = (T <- fragment_template_final fo name text ;; Ok (tmpl_graph T)).
Proof.
  unfold fragment_template_final. destruct (strip_bonding_descriptors fo text) as [[[[clean d] ez] a]|e]; cbn [bind]; [|reflexivity].
  unfold mk_text. destruct (smiles_parse _) as [G|e]; cbn [bind]; [|reflexivity].
  destruct (final_assemble name G d ez a) as [T|e]; [|reflexivity]. cbn [bind]. now rewrite tgraph_eq.
Qed.
Lemma mk_text_coarse fo name text :
  (r <- strip_bonding_descriptors fo text ;; mk_text fo false name r) = FragRead.read_coarse_fragment fo name text.
Proof.
  unfold FragRead.read_coarse_fragment. destruct (strip_bonding_descriptors fo text) as [[[[clean d] ez] a]|e]; reflexivity.
Qed.

(** ---------------------------------------------------------------- the dictionary *)
Lemma fd_add_same name g fd : fd_get name fd = None -> fd_get name (EzStrings.fd_add name g fd) = Some g.
Proof.
  induction fd as [|[k h] r IH]; cbn [EzStrings.fd_add fd_get]; intros H.
  - now rewrite str_eqb_refl.
  - destruct (str_eqb name k) eqn:E; [discriminate H|]. cbn [fd_get]. rewrite E. now apply IH.
Qed.
Lemma fd_add_other name g fd n : n <> name -> fd_get n (EzStrings.fd_add name g fd) = fd_get n fd.
Proof.
  intros N. induction fd as [|[k h] r IH]; cbn [EzStrings.fd_add fd_get].
  - destruct (str_eqb_spec n name); [contradiction|reflexivity].
  - destruct (str_eqb name k) eqn:E; [reflexivity|]. cbn [fd_get]. now rewrite IH.
Qed.
Lemma fd_add_keeps name g fd n h : fd_get n fd = Some h -> fd_get n (EzStrings.fd_add name g fd) = Some h.
Proof.
  intros H. induction fd as [|[k h'] r IH]; [discriminate H|]. cbn [EzStrings.fd_add].
  destruct (str_eqb name k) eqn:E; [exact H|]. cbn [fd_get] in *. destruct (str_eqb n k); [exact H|now apply IH].
Qed.

Definition nt_of (d : fdef) : pystr * pystr := (fd_name d, def_text d).
Lemma fold_defs fo : forall defs fd0,
  NoDup (map fd_name defs) -> (forall d, In d defs -> fd_get (fd_name d) fd0 = None) ->
  (forall d, In d defs -> exists T, fragment_template_final fo (fd_name d) (def_text d) = Ok T) ->
  exists fd,
    fold_res (fun fd nt => r <- strip_bonding_descriptors fo (snd nt) ;; g <- mk_text fo true (fst nt) r ;; Ok (EzStrings.fd_add (fst nt) g fd))
             (map nt_of defs) fd0 = Ok fd /\
    (forall n h, fd_get n fd0 = Some h -> fd_get n fd = Some h) /\
    (forall d T, In d defs -> fragment_template_final fo (fd_name d) (def_text d) = Ok T -> fd_get (fd_name d) fd = Some (tmpl_graph T)).
Proof.
  induction defs as [|d r IH]; intros fd0 ND Fresh Rd.
  - exists fd0. split; [reflexivity|]. split; [auto|intros ? ? []].
  - inversion ND as [|? ? Hnot ND']; subst. destruct (Rd d (or_introl eq_refl)) as [T HT].
    pose proof (mk_text_final fo (fd_name d) (def_text d)) as MK. rewrite HT in MK. cbn [bind] in MK.
    destruct (IH (EzStrings.fd_add (fd_name d) (tmpl_graph T) fd0) ND') as (fd & Hf & Hk & Hd).
    + intros d' Hin. rewrite fd_add_other; [apply Fresh; now right|].
      intros E. apply Hnot. rewrite <- E. now apply in_map.
    + intros d' Hin. apply Rd. now right.
    + exists fd. split; [|split].
      * cbn [map fold_res nt_of fst snd].
        destruct (strip_bonding_descriptors fo (def_text d)) as [x|e]; cbn [bind] in MK |- *; [|discriminate MK].
        rewrite MK. cbn [bind]. exact Hf.
      * intros n h H. apply Hk. now apply fd_add_keeps.
      * intros d' T' [<-|Hin] HT'.
        -- rewrite HT in HT'. injection HT' as <-. apply Hk. apply fd_add_same. apply Fresh. now left.
        -- now apply Hd.
Qed.

(** ---------------------------------------------------------------- splitting the block *)
Definition nocomma (s : pystr) : Prop := ~ In ","%char s.
Record def_clean (d : fdef) : Prop := {
  dc_name_eq : ~ In "="%char (fd_name d);
  dc_comma : nocomma (def_str d);
  dc_brace : ~ In "}"%char (def_str d) }.
Definition chars_lackb (cs : list ascii) (s : pystr) : bool := forallb (fun c => negb (existsb (Ascii.eqb c) cs)) s.
Definition def_cleanb (d : fdef) : bool :=
  chars_lackb ["="%char] (fd_name d) && chars_lackb [","%char; "}"%char] (def_str d).
Lemma chars_lackb_sound cs s c : chars_lackb cs s = true -> In c cs -> ~ In c s.
Proof.
  unfold chars_lackb. rewrite forallb_forall. intros H Hc Hs. specialize (H c Hs). apply negb_true_iff in H.
  assert (existsb (Ascii.eqb c) cs = true) as E by (apply existsb_exists; exists c; split; [exact Hc|apply Ascii.eqb_refl]).
  congruence.
Qed.
Lemma def_cleanb_sound d : def_cleanb d = true -> def_clean d.
Proof.
  unfold def_cleanb. intros H. apply andb_prop in H as [H1 H2]. split.
  - apply (chars_lackb_sound _ _ _ H1). now left.
  - apply (chars_lackb_sound _ _ _ H2). now left.
  - apply (chars_lackb_sound _ _ _ H2). right. now left.
Qed.

Lemma split_def_str d : ~ In "="%char (fd_name d) -> split_fragment (def_str d) = nt_of d.
Proof.
  intros H. unfold split_fragment, def_str, nt_of.
  cbn [find_char]. change (Ascii.eqb "#" "=") with false. cbv iota.
  rewrite (CoarseFrags.find_char_first "="%char (fd_name d) (def_text d) 1 H).
  replace (1 + length (fd_name d))%nat with (Datatypes.S (length (fd_name d))) by lia.
  f_equal.
  - unfold py_slice. cbn [skipn]. replace (Datatypes.S (length (fd_name d)) - 1)%nat with (length (fd_name d)) by lia.
    apply CoarseFrags.firstn_pre.
  - cbn [skipn]. apply CoarseFrags.skipn_past.
Qed.
Theorem split_defs defs : defs <> [] -> Forall def_clean defs ->
  fragment_split (block_of (frag_body defs)) = map nt_of defs.
Proof.
  intros Hne H. unfold fragment_split, block_of, frag_body.
  assert (E : forall B, removelast (skipn 1 ("{"%char :: B ++ ["}"%char])) = B) by (intros B; cbn [skipn]; apply removelast_last).
  rewrite E. rewrite (CoarseFrags.split_join ","%char (map def_str defs)).
  - rewrite map_map. apply map_ext_in. intros d Hd. apply split_def_str. rewrite Forall_forall in H. exact (dc_name_eq d (H d Hd)).
  - destruct defs; [contradiction|discriminate].
  - apply Forall_forall. intros t Ht. apply in_map_iff in Ht as [d [<- Hd]]. rewrite Forall_forall in H. exact (dc_comma d (H d Hd)).
Qed.
Lemma frag_body_nobrace : forall defs, Forall def_clean defs -> ~ In "}"%char (frag_body defs).
Proof.
  unfold frag_body. induction defs as [|d r IH]; intros F; [intros []|]. inversion F as [|? ? Hd Fr]; subst.
  destruct r as [|d2 r]; cbn [map join].
  - exact (dc_brace d Hd).
  - intros Hin. apply in_app_or in Hin as [Hin|Hin]; [exact (dc_brace d Hd Hin)|].
    apply in_app_or in Hin as [Hin|Hin]; [destruct Hin as [Hin|[]]; discriminate Hin|]. exact (IH Fr Hin).
Qed.
Lemma frag_body_nonempty defs : defs <> [] -> frag_body defs <> [].
Proof. unfold frag_body. destruct defs as [|d [|d2 r]]; [congruence| |]; intros _; cbn [map join]; unfold def_str; discriminate. Qed.

(** ---------------------------------------------------------------- the written parts of a cut *)
(** every part is written by a definition of its name that passes the strip component's test; every definition is used *)
Record defs_ok (fo : float_oracle) (C : cut) (defs : list fdef) : Prop := {
  do_nodup : NoDup (map fd_name defs);
  do_clean : Forall def_clean defs;
  do_used : forall d, In d defs -> exists xs, In (fd_name d, xs) (c_parts C);
  do_parts : forall name xs, In (name, xs) (c_parts C) ->
     exists d, In d defs /\ fd_name d = name /\ part_okb fo C name xs (fd_toks d) (fd_dc d) = true }.

Definition find_def (name : pystr) (defs : list fdef) : option fdef := find (fun d => str_eqb name (fd_name d)) defs.
Definition defs_okb (fo : float_oracle) (C : cut) (defs : list fdef) : bool :=
  nodup_strs (map fd_name defs) && forallb def_cleanb defs
  && forallb (fun d => existsb (fun p => str_eqb (fd_name d) (fst p)) (c_parts C)) defs
  && forallb (fun p => match find_def (fst p) defs with
                       | Some d => part_okb fo C (fst p) (snd p) (fd_toks d) (fd_dc d)
                       | None => false end) (c_parts C).

Lemma defs_okb_sound fo C defs : defs_okb fo C defs = true -> defs_ok fo C defs.
Proof.
  unfold defs_okb. intros H. apply andb_prop in H as [H H4]. apply andb_prop in H as [H H3]. apply andb_prop in H as [H1 H2].
  rewrite forallb_forall in H2, H3, H4. split.
  - now apply nodup_strs_sound.
  - apply Forall_forall. intros d Hd. apply def_cleanb_sound. now apply H2.
  - intros d Hd. specialize (H3 d Hd). apply existsb_exists in H3 as [[n xs] [Hp E]]. cbn [fst] in E. apply str_eqb_eq in E.
    exists xs. now rewrite E.
  - intros name xs Hp. specialize (H4 _ Hp). cbn [fst snd] in H4. unfold find_def in H4.
    destruct (find (fun d => str_eqb name (fd_name d)) defs) as [d|] eqn:F; [|discriminate H4].
    apply find_some in F as [Hd E]. apply str_eqb_eq in E. exists d. auto.
Qed.

Lemma name_inj : forall defs, NoDup (map fd_name defs) -> forall d d', In d defs -> In d' defs -> fd_name d' = fd_name d -> d' = d.
Proof.
  induction defs as [|x r IH]; intros ND d d' H1 H2 E; [destruct H1|]. cbn [map] in ND. inversion ND as [|? ? Hn ND']; subst.
  destruct H1 as [->|H1], H2 as [->|H2]; auto.
  - exfalso. apply Hn. rewrite <- E. now apply in_map.
  - exfalso. apply Hn. rewrite E. now apply in_map.
Qed.

(** the dictionary read from the block is a templates_ok dictionary *)
Theorem text_templates_ok fo C defs : defs <> [] -> defs_ok fo C defs ->
  exists fd, read_fragments_text fo (block_of (frag_body defs)) true = Ok fd /\ templates_ok C fd.
Proof.
  intros Hne D.
  assert (Rd : forall d, In d defs -> exists T, fragment_template_final fo (fd_name d) (def_text d) = Ok T).
  { intros d Hd. destruct (do_used _ _ _ D d Hd) as [xs Hp]. destruct (do_parts _ _ _ D _ _ Hp) as (d' & Hd' & En & Ok').
    assert (d' = d) as -> by (apply (name_inj defs (do_nodup _ _ _ D)); assumption).
    destruct (template_is_template_b fo C _ xs _ _ Ok') as (T0 & HT & _). now exists T0. }
  destruct (fold_defs fo defs [] (do_nodup _ _ _ D) (fun _ _ => eq_refl) Rd) as (fd & Hf & _ & Hd).
  exists fd. split.
  - unfold read_fragments_text, read_fragments_with. rewrite (split_defs defs Hne (do_clean _ _ _ D)). exact Hf.
  - intros name xs Hp. destruct (do_parts _ _ _ D _ _ Hp) as (d & Hin & En & Ok').
    destruct (template_is_template_b fo C _ xs _ _ Ok') as (T0 & HT & IT). exists (tmpl_graph T0). split; [|exact IT].
    rewrite <- En. apply (Hd d T0 Hin). rewrite En. exact HT.
Qed.

(** ---------------------------------------------------------------- the whole string *)
Lemma print_chain_nonempty fo a : Grammar.wf fo a = true -> Grammar.print_chain a <> [].
Proof. unfold Grammar.wf. destruct a as [|[n r m b brs] c]; [discriminate|]. intros _. cbn. discriminate. Qed.

(** ---- for ANY base text the reader model reads (the AST form and the chain form, Compose/ChainBase.v, are instances) *)
Theorem text_from_string_body fo C body defs B :
  body <> [] -> ~ In "}"%char body -> ReaderImpl.read_cgsmiles fo (block_of body) = Ok B ->
  defs <> [] -> defs_ok fo C defs ->
  exists fd, from_text fo (cut_string_of body defs) = Ok (init B [fd] true true) /\ templates_ok C fd.
Proof.
  intros Hbne Hnb HB Hne Hdefs.
  destruct (text_templates_ok fo C defs Hne Hdefs) as (fd & Hr & HT). exists fd. split; [|exact HT].
  unfold from_text, from_string, cut_string_of.
  change [block_of body; block_of (frag_body defs)] with (map block_of [body; frag_body defs]).
  rewrite find_blocks_dotted.
  - cbn [map]. rewrite HB. cbn [bind read_fragment_strings]. rewrite Hr. reflexivity.
  - repeat constructor; [exact Hbne|exact Hnb|now apply frag_body_nonempty|].
    apply frag_body_nobrace. exact (do_clean _ _ _ Hdefs).
Qed.

Definition heavy_atoms (C : cut) : Prop := forall x, In x (flat C) ->
  (exists e, aget (S "element") (payload C x) = Some e) /\ (exists q, aget (S "charge") (payload C x) = Some q) /\
  (exists h, aget (S "hcount") (payload C x) = Some (VInt h)) /\ Hydrogens.is_H (payload C x) = false.

Theorem text_level_skeleton_body fo C body defs B : wf_cut C ->
  body <> [] -> ~ In "}"%char body -> ReaderImpl.read_cgsmiles fo (block_of body) = Ok B ->
  is_base C B -> get_node_attributes B (S "atomname") = [] -> defs <> [] -> defs_ok fo C defs -> heavy_atoms C ->
  exists st fd m1 fg1 m2 fg2,
    from_text fo (cut_string_of body defs) = Ok st /\ st_mol st = B /\ st_dicts st = [fd] /\ is_all_atom st = true /\
    st_legacy st = true /\ templates_ok C fd /\
    resolve_disconnected fd (next_meta (st_mol st)) = Ok (m1, fg1) /\
    bonding_step true true (next_meta (st_mol st)) m1 fg1 = Ok (m2, fg2) /\
    skeleton C true m2 /\ adj_nodup m2 /\ wf_graph m2 /\ Squash.squash_atoms m2 = Ok m2.
Proof.
  intros W Hbne Hnb HB Hbase Hnames Hne Hdefs Hatoms.
  destruct (text_from_string_body fo C body defs B Hbne Hnb HB Hne Hdefs) as (fd & Hs & HT).
  destruct (cut_all_atom_step C W fd HT B Hbase Hatoms) as (m1 & fg1 & m2 & fg2 & E1 & E2 & R).
  exists (init B [fd] true true), fd, m1, fg1, m2, fg2. split; [exact Hs|]. split; [reflexivity|]. split; [reflexivity|].
  split; [reflexivity|]. split; [reflexivity|]. split; [exact HT|]. cbn [st_mol init]. unfold next_meta. rewrite Hnames. cbn [set_nodes_from fold_left].
  auto.
Qed.

(** every returned first resolve() of the full step model on the parsed state has the skeleton as its bonded graph *)
Theorem text_level_step_body fo C body defs B : wf_cut C ->
  body <> [] -> ~ In "}"%char body -> ReaderImpl.read_cgsmiles fo (block_of body) = Ok B ->
  is_base C B -> get_node_attributes B (S "atomname") = [] -> defs <> [] -> defs_ok fo C defs -> heavy_atoms C ->
  exists st fd, from_text fo (cut_string_of body defs) = Ok st /\ st_dicts st = [fd] /\
    forall car out, resolve_step_full (st_legacy st) (is_all_atom st) fd (st_mol st) car = Ok out ->
      fo_meta out = B /\ skeleton C true (fo_m2 out) /\ fo_m3 out = fo_m2 out /\ adj_nodup (fo_m2 out) /\ wf_graph (fo_m2 out).
Proof.
  intros W Hbne Hnb HB Hbase Hnames Hne Hdefs Hatoms.
  destruct (text_level_skeleton_body fo C body defs B W Hbne Hnb HB Hbase Hnames Hne Hdefs Hatoms)
    as (st & fd & m1 & fg1 & m2 & fg2 & Hs & Hm & Hd & Haa & Hl & HT & E1 & E2 & Sk & Adj & Wf & Sq).
  exists st, fd. split; [exact Hs|]. split; [exact Hd|]. intros car out H.
  rewrite Hl, Haa in H. unfold resolve_step_full in H. fold (next_meta (st_mol st)) in H. rewrite E1 in H. cbn [bind] in H.
  rewrite E2 in H. cbn [bind] in H. rewrite Sq in H. cbn [bind] in H.
  destruct (Hydrogens.rebuild_h_atoms_default m2 car) as [m4|]; cbn [bind] in H; [|discriminate].
  destruct (sort_nodes_by_attr m4) as [m5|]; cbn [bind] in H; [|discriminate].
  destruct (EzImpl.annotate_ez_isomers_cgsmiles m5) as [m6|]; cbn [bind] in H; [|discriminate].
  destruct (annotate_fragments (next_meta (st_mol st)) m6) as [fgs|]; cbn [bind] in H; [|discriminate].
  destruct (set_atom_names m6 (next_meta (st_mol st)) fgs) as [[m7 fgs']|]; cbn [bind] in H; [|discriminate].
  inversion H; subst out. cbn [fo_meta fo_m2 fo_m3]. rewrite Hm. unfold next_meta. rewrite Hnames. cbn [set_nodes_from fold_left].
  auto.
Qed.

(** ---- the base text as the printed form of an AST of the documented grammar *)
Lemma ast_body fo a B : Grammar.wf fo a = true -> Grammar.has_branch_mult a = false -> Grammar.denote fo a = Ok B ->
  Grammar.print_chain a <> [] /\ ReaderImpl.read_cgsmiles fo (block_of (Grammar.print_chain a)) = Ok B.
Proof.
  intros Hwf Hbm HB. split; [now apply (print_chain_nonempty fo)|].
  change (block_of (Grammar.print_chain a)) with (Grammar.print true a). now rewrite (ReaderXAst.reader_sim_grammar fo true a Hwf Hbm).
Qed.

Theorem text_from_string fo C a defs B :
  Grammar.wf fo a = true -> Grammar.has_branch_mult a = false -> ~ In "}"%char (Grammar.print_chain a) -> Grammar.denote fo a = Ok B ->
  defs <> [] -> defs_ok fo C defs ->
  exists fd, from_text fo (cut_string a defs) = Ok (init B [fd] true true) /\ templates_ok C fd.
Proof.
  intros Hwf Hbm Hnb HB Hne Hdefs. destruct (ast_body fo a B Hwf Hbm HB) as [N R].
  exact (text_from_string_body fo C _ defs B N Hnb R Hne Hdefs).
Qed.

Theorem text_level_skeleton fo C a defs B : wf_cut C ->
  Grammar.wf fo a = true -> Grammar.has_branch_mult a = false -> ~ In "}"%char (Grammar.print_chain a) -> Grammar.denote fo a = Ok B ->
  is_base C B -> get_node_attributes B (S "atomname") = [] -> defs <> [] -> defs_ok fo C defs ->
  (forall x, In x (flat C) ->
     (exists e, aget (S "element") (payload C x) = Some e) /\ (exists q, aget (S "charge") (payload C x) = Some q) /\
     (exists h, aget (S "hcount") (payload C x) = Some (VInt h)) /\ Hydrogens.is_H (payload C x) = false) ->
  exists st fd m1 fg1 m2 fg2,
    from_text fo (cut_string a defs) = Ok st /\ st_mol st = B /\ st_dicts st = [fd] /\ is_all_atom st = true /\
    templates_ok C fd /\
    resolve_disconnected fd (next_meta (st_mol st)) = Ok (m1, fg1) /\
    bonding_step true true (next_meta (st_mol st)) m1 fg1 = Ok (m2, fg2) /\
    skeleton C true m2 /\ adj_nodup m2 /\ wf_graph m2 /\ Squash.squash_atoms m2 = Ok m2.
Proof.
  intros W Hwf Hbm Hnb HB Hbase Hnames Hne Hdefs Hatoms. destruct (ast_body fo a B Hwf Hbm HB) as [N R].
  destruct (text_level_skeleton_body fo C _ defs B W N Hnb R Hbase Hnames Hne Hdefs Hatoms)
    as (st & fd & m1 & fg1 & m2 & fg2 & A1 & A2 & A3 & A4 & _ & A5).
  exists st, fd, m1, fg1, m2, fg2. auto.
Qed.

Theorem text_level_step fo C a defs B : wf_cut C ->
  Grammar.wf fo a = true -> Grammar.has_branch_mult a = false -> ~ In "}"%char (Grammar.print_chain a) -> Grammar.denote fo a = Ok B ->
  is_base C B -> get_node_attributes B (S "atomname") = [] -> defs <> [] -> defs_ok fo C defs -> heavy_atoms C ->
  exists st fd, from_text fo (cut_string a defs) = Ok st /\ st_dicts st = [fd] /\
    forall car out, resolve_step_full (st_legacy st) (is_all_atom st) fd (st_mol st) car = Ok out ->
      fo_meta out = B /\ skeleton C true (fo_m2 out) /\ fo_m3 out = fo_m2 out /\ adj_nodup (fo_m2 out) /\ wf_graph (fo_m2 out).
Proof.
  intros W Hwf Hbm Hnb HB Hbase Hnames Hne Hdefs Hatoms. destruct (ast_body fo a B Hwf Hbm HB) as [N R].
  exact (text_level_step_body fo C _ defs B W N Hnb R Hbase Hnames Hne Hdefs Hatoms).
Qed.
