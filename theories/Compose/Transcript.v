(** Transcript: the hydrogen completion of a cut molecule for ANY aromaticity transcript.
    pysmiles' correct_aromatic_rings is third-party code; Hydro's model takes the graph it left as a transcript and accepts
    it only under [Hydrogens.transcript_contract]: same nodes in the same order, every node attribute but `aromatic`
    unchanged, same neighbours in the same order, every edge attribute but `order` unchanged.  [transcript_ok] is what is
    used of it here (keys, adjacency relation, node attributes but `aromatic`; plus three decidable facts about the
    transcript graph itself: no duplicate neighbours, no duplicate keys in edge dicts, `order` read the same in both
    directions).  [askel] ("aromatised skeleton") is what the skeleton of a cut and every transcript of it have in common;
    the completion theorems of Completion.v are re-proved over [askel], with the bond ORDERS and hence the hydrogen
    counts taken from the transcript. *)
From Coq Require Import String.
From Coq Require Import List Ascii ZArith Bool Lia Permutation.
From CGV Require Import Base.PyBase Base.PyVal Base.NxGraph Gen.HydroGen Resolve.Bonding Resolve.GraphOps Resolve.MapProofs Resolve.CopyProofs
     Hydro.GraphLemmas Hydro.SquashDefs Hydro.HydroDefs.
From CGV Require Hydro.Hydrogens Hydro.RebuildProofs Hydro.SquashProofs.
From CGV Require Import Compose.GraphFacts Compose.GraphAdj Compose.CutModel Compose.CutPos Compose.CutTables Compose.CutDisc
     Compose.CutSkeleton Compose.CutWf Compose.CutHydrogens Compose.RebuildWf Compose.CutSorted Compose.SortIdentity Compose.Completion.
Import ListNotations.
Open Scope Z_scope.

Lemma edge_get_none_ g u v key : has_edge g u v = false -> edge_get g u v key = None.
Proof. intros H. unfold edge_get. now rewrite (edge_attrs_err g u v H). Qed.

Record askel (C : cut) (g1 : graph) : Prop := {
  ak_keys : node_keys g1 = map Z.of_nat (seq 0 (length (flat C)));
  ak_fragid : forall x, In x (flat C) -> node_get g1 (phi C x) (S "fragid") <> None;
  ak_rs : forall x, In x (flat C) -> node_get g1 (phi C x) (S "rs_isomer") = None;
  ak_payload : forall x key v, In x (flat C) -> aget key (payload C x) = Some v -> ~ In key reserved -> key <> S "hcount" -> key <> S "aromatic" ->
     node_get g1 (phi C x) key = Some v;
  ak_edges : forall x y, In x (flat C) -> In y (flat C) -> has_edge g1 (phi C x) (phi C y) = bonded C x y;
  ak_closed : forall k1 k2, has_edge g1 k1 k2 = true -> has_node g1 k1 = true /\ has_node g1 k2 = true;
  ak_adj : adj_nodup g1;
  ak_edn : edge_nodup g1;
  ak_sym : forall a b, edge_get g1 a b (S "order") = edge_get g1 b a (S "order") }.

Record transcript_ok (m2 g1 : graph) : Prop := {
  tk_keys : node_keys g1 = node_keys m2;
  tk_edges : forall y x, has_edge g1 y x = has_edge m2 y x;
  tk_attrs : forall k key, key <> S "aromatic" -> node_get g1 k key = node_get m2 k key;
  tk_adj : adj_nodup g1;
  tk_edn : edge_nodup g1;
  tk_sym : forall a b, edge_get g1 a b (S "order") = edge_get g1 b a (S "order") }.

Lemma askel_of_skeleton C m2 : wf_cut C -> skeleton C true m2 -> adj_nodup m2 -> edge_nodup m2 -> askel C m2.
Proof.
  intros W Sk Adj Edn. constructor.
  - exact (sk_keys _ _ _ Sk).
  - intros x Fx. destruct (sk_attrs _ _ _ Sk x Fx) as (F & _). rewrite F. discriminate.
  - intros x Fx. now destruct (sk_attrs _ _ _ Sk x Fx) as (_ & _ & R & _).
  - intros x key v Fx Hv Hr Hh _. destruct (sk_attrs _ _ _ Sk x Fx) as (_ & _ & _ & P). apply P; auto.
  - intros x y Fx Fy. now destruct (sk_edges _ _ _ Sk x y Fx Fy) as (E & _).
  - exact (sk_closed _ _ _ Sk).
  - exact Adj.
  - exact Edn.
  - intros a b. destruct (has_edge m2 a b) eqn:He.
    + destruct (sk_closed _ _ _ Sk a b He) as [Ha Hb]. destruct (sk_onto C W true m2 Sk a Ha) as (x & Fx & <-). destruct (sk_onto C W true m2 Sk b Hb) as (y & Fy & <-).
      destruct (sk_edges _ _ _ Sk x y Fx Fy) as (_ & -> & _). destruct (sk_edges _ _ _ Sk y x Fy Fx) as (_ & -> & _). apply result_order_sym.
    + pose proof (cut_skeleton_wf C W true m2 Sk) as Wf. rewrite (edge_get_none_ m2 a b _ He). symmetry. apply edge_get_none_. now rewrite <- (wf_sym _ Wf).
Qed.
Lemma askel_of_transcript C m2 g1 : askel C m2 -> transcript_ok m2 g1 -> askel C g1.
Proof.
  intros Ak Tk. assert (forall k, has_node g1 k = has_node m2 k) as Hn by (intros k; apply has_node_keys_eq; exact (tk_keys _ _ Tk)).
  constructor.
  - rewrite (tk_keys _ _ Tk). exact (ak_keys _ _ Ak).
  - intros x Fx. rewrite (tk_attrs _ _ Tk) by (intros E; apply str_eqb_eq in E; vm_compute in E; discriminate). now apply (ak_fragid _ _ Ak).
  - intros x Fx. rewrite (tk_attrs _ _ Tk) by (intros E; apply str_eqb_eq in E; vm_compute in E; discriminate). now apply (ak_rs _ _ Ak).
  - intros x key v Fx Hv Hr Hh Ha. rewrite (tk_attrs _ _ Tk) by exact Ha. now apply (ak_payload _ _ Ak).
  - intros x y Fx Fy. rewrite (tk_edges _ _ Tk). now apply (ak_edges _ _ Ak).
  - intros k1 k2 H. rewrite (tk_edges _ _ Tk) in H. rewrite !Hn. now apply (ak_closed _ _ Ak).
  - exact (tk_adj _ _ Tk).
  - exact (tk_edn _ _ Tk).
  - exact (tk_sym _ _ Tk).
Qed.

Section Askel.
  Variable C : cut.
  Hypothesis W : wf_cut C.
  Variable g1 : graph.
  Hypothesis Ak : askel C g1.
  Let Hnd := wc_nodup C W.

  Lemma ak_onto k : has_node g1 k = true -> exists x, In x (flat C) /\ phi C x = k.
  Proof.
    intros Hk. apply gfind_has in Hk. rewrite (ak_keys _ _ Ak) in Hk. apply seq_nat_in in Hk.
    destruct (nth_error (flat C) (Z.to_nat k)) as [x|] eqn:E; [|apply nth_error_None in E; lia].
    exists x. split; [eapply nth_error_In; eauto|]. unfold phi. rewrite (index_in_nth _ _ _ Hnd E). lia.
  Qed.
  Lemma ak_node x : In x (flat C) -> has_node g1 (phi C x) = true.
  Proof. intros Hx. apply gfind_has. rewrite (ak_keys _ _ Ak). apply seq_nat_in. apply phi_range. exact Hx. Qed.
  Lemma ak_gfind x : In x (flat C) -> exists n, gfind (phi C x) g1 = Some n.
  Proof. intros Fx. apply gfind_some_keys. apply gfind_has. now apply ak_node. Qed.
  Lemma ak_range k : has_node g1 k = true <-> 0 <= k < Z.of_nat (length (flat C)).
  Proof. rewrite gfind_has, (ak_keys _ _ Ak). apply seq_nat_in. Qed.

  Theorem askel_wf : wf_graph g1.
  Proof.
    constructor.
    - rewrite (ak_keys _ _ Ak). apply seq_nat_nodup.
    - intros y x H. now destruct (ak_closed _ _ Ak y x H).
    - intros y x.
      assert (forall a b, has_edge g1 a b = true -> has_edge g1 b a = true) as Hs.
      { intros a b H. destruct (ak_closed _ _ Ak a b H) as [Ha Hb]. destruct (ak_onto a Ha) as (xa & Fa & <-). destruct (ak_onto b Hb) as (xb & Fb & <-).
        rewrite (ak_edges _ _ Ak xb xa Fb Fa), (bonded_sym C), <- (ak_edges _ _ Ak xa xb Fa Fb). exact H. }
      destruct (has_edge g1 y x) eqn:A, (has_edge g1 x y) eqn:B'; try reflexivity; [apply Hs in A|apply Hs in B']; congruence.
    - intros y. destruct (has_edge g1 y y) eqn:H; [|reflexivity]. destruct (ak_closed _ _ Ak y y H) as [Hy _].
      destruct (ak_onto y Hy) as (x & Fx & <-). rewrite (ak_edges _ _ Ak x x Fx Fx), (bonded_irrefl C W) in H. discriminate.
  Qed.

  Lemma ak_neighbours x k : In x (flat C) -> (has_edge g1 (phi C x) k = true <-> exists b, In b (inc C x) /\ k = phi C (other x b)).
  Proof.
    intros Hx. split.
    - intros H. destruct (ak_closed _ _ Ak _ _ H) as [_ Hk]. destruct (ak_onto k Hk) as (y & Fy & <-).
      rewrite (ak_edges _ _ Ak x y Hx Fy) in H. unfold bonded in H. destruct (find_bond C x y) as [b|] eqn:Eb; [|discriminate].
      apply (find_bond_spec C W) in Eb as [Hb J]. exists b.
      assert (other x b = y) as Eo. { unfold other. apply joins_true in J. destruct (Z.eqb_spec (cb_u b) x); destruct J as [[A1 A2]|[A1 A2]]; congruence. }
      split; [apply inc_joins; split; [exact Hb|now rewrite Eo]|now rewrite Eo].
    - intros (b & Hb & ->). pose proof (other_in_flat C W x b Hb) as Fy. apply inc_joins in Hb as [Hb J].
      rewrite (ak_edges _ _ Ak x (other x b) Hx Fy). unfold bonded. now rewrite (proj2 (find_bond_spec C W x (other x b) b) (conj Hb J)).
  Qed.

  (** the adjacency list of phi x lists the fine keys of M's neighbours of x, each once *)
  Lemma ak_adjacency x n : In x (flat C) -> gfind (phi C x) g1 = Some n ->
    Permutation (map fst (nadj n)) (map (fun b => phi C (other x b)) (inc C x)).
  Proof.
    intros Hx G. pose proof (gfind_In _ _ _ G) as Hin. pose proof (gfind_key _ _ _ G) as Hk. pose proof (wf_nodup _ askel_wf) as Hn.
    apply NoDup_Permutation; [exact (ak_adj _ _ Ak n Hin)| |].
    - assert (forall l, (forall b, In b l -> In b (inc C x)) -> NoDup l -> NoDup (map (fun b => phi C (other x b)) l)) as X.
      { induction l as [|b r IH]; intros Hs Hl; cbn; [constructor|]. inversion Hl as [|? ? Hb Hr]; subst. constructor; [|apply IH; [intros; apply Hs; now right|exact Hr]].
        intros Y. apply in_map_iff in Y as (b' & E & Hb'). apply Hb.
        assert (In b (inc C x)) as I1 by (apply Hs; now left). assert (In b' (inc C x)) as I2 by (apply Hs; now right).
        apply (phi_inj C) in E; [|now apply (other_in_flat C W)|now apply (other_in_flat C W)].
        apply inc_joins in I1 as [B1 J1]. apply inc_joins in I2 as [B2 J2]. rewrite E in J2.
        pose proof (proj2 (find_bond_spec C W _ _ _) (conj B1 J1)) as F1. pose proof (proj2 (find_bond_spec C W _ _ _) (conj B2 J2)) as F2.
        rewrite F1 in F2. inversion F2; subst. exact Hb'. }
      apply X; [auto|]. unfold inc. apply NoDup_filter. exact (bonds_nodup C W).
    - intros k. split.
      + intros H. apply in_map_iff in H as ([k' d] & <- & Hd). cbn [fst]. apply (adj_edge_attrs g1 n k' d Hn (ak_adj _ _ Ak) Hin) in Hd. rewrite Hk in Hd.
        apply edge_attrs_ok_has in Hd. apply (ak_neighbours x k' Hx) in Hd as (b & Hb & ->). apply in_map_iff. exists b. auto.
      + intros H. apply in_map_iff in H as (b & <- & Hb). assert (has_edge g1 (phi C x) (phi C (other x b)) = true) as He by (apply (ak_neighbours x _ Hx); eauto).
        rewrite has_edge_attrs in He. destruct (edge_attrs g1 (phi C x) (phi C (other x b))) as [d|] eqn:E; [|discriminate]. rewrite <- Hk in E.
        apply (adj_edge_attrs g1 n _ d Hn (ak_adj _ _ Ak) Hin) in E. apply in_map_iff. exists (phi C (other x b), d). auto.
  Qed.
End Askel.
