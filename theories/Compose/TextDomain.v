(** TextDomain: ONE executable test for all hypotheses of the text-level theorem, and its soundness: whenever
    [text_domainb fo C body defs] computes to true - the cut record is well formed, its payload has element / charge /
    integer hcount, the base text is read by the reader model into a base graph of the cut without atomname, every part is
    written by a definition that passes the strip component's part_okb - the string "{body}.{#n1=t1,...}" is parsed by the
    string-level driver model and its first resolve() returns the molecule's skeleton.  Used to MEASURE how much of the
    generator's language of ./check C01 lies inside the theorem (tools/props/c01.py --text-domain): a tokenizer written in
    Python proposes (toks, dc) per fragment text; Coq re-renders them, compares with the text, and evaluates the test. *)
From Coq Require Import String.
From Coq Require Import List Ascii ZArith Bool Lia.
From CGV Require Import Base.PyBase Base.PyVal Base.NxGraph Dialect.DialectImpl.
From CGV Require Import Frag.NDict Frag.StripImpl Frag.FragText Frag.TemplateCompose.
From CGV Require Reader.ReaderImpl.
From CGV Require Import Resolve.Bonding Resolve.GraphOps Resolve.Pipeline Resolve.PipelineFull Dialect.DriverFaults.
From CGV Require Hydro.Hydrogens Hydro.Squash.
From CGV Require Import Hydro.SquashDefs.
From CGV Require Import Compose.GraphAdj Compose.CutModel Compose.CutSpecDefs Compose.CutSpecCheck Compose.CutSkeleton Compose.ComposeFlat
     Compose.TextCut.
Import ListNotations.
Open Scope Z_scope.

Definition heavy_atomsb (C : cut) : bool :=
  forallb (fun x => match aget (S "element") (payload C x), aget (S "charge") (payload C x), aget (S "hcount") (payload C x) with
                    | Some _, Some _, Some (VInt _) => negb (Hydrogens.is_H (payload C x)) | _, _, _ => false end) (flat C).
Lemma heavy_atomsb_sound C : heavy_atomsb C = true -> heavy_atoms C.
Proof.
  unfold heavy_atomsb, heavy_atoms. rewrite forallb_forall. intros H x Fx. specialize (H x Fx).
  destruct (aget (S "element") (payload C x)) as [e|]; [|discriminate H].
  destruct (aget (S "charge") (payload C x)) as [q|]; [|discriminate H].
  destruct (aget (S "hcount") (payload C x)) as [[]|]; try discriminate H.
  apply negb_true_iff in H. repeat split; eauto.
Qed.

Definition is_nil {X} (l : list X) : bool := match l with [] => true | _ => false end.
Definition base_readb (fo : float_oracle) (C : cut) (body : pystr) : bool :=
  negb (is_nil body) && chars_lackb ["}"%char] body &&
  match ReaderImpl.read_cgsmiles fo (block_of body) with
  | Ok B => is_baseb C B && is_nil (get_node_attributes B (S "atomname"))
  | Err _ => false
  end.
Definition text_domainb (fo : float_oracle) (C : cut) (body : pystr) (defs : list fdef) : bool :=
  wf_cutb C && heavy_atomsb C && base_readb fo C body && negb (is_nil defs) && defs_okb fo C defs.

Theorem text_domain_sound fo C body defs : text_domainb fo C body defs = true ->
  exists st fd m1 fg1 m2 fg2,
    from_text fo (cut_string_of body defs) = Ok st /\ st_dicts st = [fd] /\ is_all_atom st = true /\ st_legacy st = true /\
    templates_ok C fd /\ is_base C (st_mol st) /\
    resolve_disconnected fd (next_meta (st_mol st)) = Ok (m1, fg1) /\
    bonding_step true true (next_meta (st_mol st)) m1 fg1 = Ok (m2, fg2) /\
    skeleton C true m2 /\ adj_nodup m2 /\ wf_graph m2 /\ Squash.squash_atoms m2 = Ok m2.
Proof.
  unfold text_domainb, base_readb. intros H. apply andb_prop in H as [H H5]. apply andb_prop in H as [H H4]. apply andb_prop in H as [H H3].
  apply andb_prop in H as [H1 H2]. apply andb_prop in H3 as [H3 Hr]. apply andb_prop in H3 as [Hne Hnb].
  destruct (ReaderImpl.read_cgsmiles fo (block_of body)) as [B|] eqn:ER; [|discriminate Hr]. apply andb_prop in Hr as [Hb Hn].
  assert (body <> []) as Nb by (destruct body; [discriminate Hne|discriminate]).
  assert (defs <> []) as Nd by (destruct defs; [discriminate H4|discriminate]).
  assert (get_node_attributes B (S "atomname") = []) as Hn' by (destruct (get_node_attributes B (S "atomname")); [reflexivity|discriminate Hn]).
  destruct (text_level_skeleton_body fo C body defs B (wf_cutb_sound _ H1) Nb (chars_lackb_sound _ _ _ Hnb (or_introl eq_refl)) ER
              (is_baseb_sound _ _ Hb) Hn' Nd (defs_okb_sound _ _ _ H5) (heavy_atomsb_sound _ H2))
    as (st & fd & m1 & fg1 & m2 & fg2 & A1 & A2 & A3 & A4 & A5 & A6 & A7).
  exists st, fd, m1, fg1, m2, fg2. split; [exact A1|]. split; [exact A3|]. split; [exact A4|]. split; [exact A5|]. split; [exact A6|].
  split; [rewrite A2; now apply is_baseb_sound|exact A7].
Qed.

(** the per-case record of the measurement: the cut, the base text, per definition (name, written text, tokens, decor) *)
Definition td_case := (cut * pystr * list (pystr * fdef))%type.
(** 0 the theorem applies; 1 the tokenizer's proposal does not render to the written text (a harness matter); 2 the cut
    record; 3 payload; 4 base text; 5 definitions *)
Definition td_class (fo : float_oracle) (c : td_case) : nat :=
  let '(C, body, tdefs) := c in
  let defs := map snd tdefs in
  if negb (forallb (fun td => str_eqb (fst td) (def_text (snd td))) tdefs) then 1%nat
  else if negb (wf_cutb C) then 2%nat
  else if negb (heavy_atomsb C) then 3%nat
  else if negb (base_readb fo C body) then 4%nat
  else if negb (negb (is_nil defs) && defs_okb fo C defs) then 5%nat
  else 0%nat.
Lemma td_class_zero fo C body tdefs : td_class fo (C, body, tdefs) = 0%nat -> text_domainb fo C body (map snd tdefs) = true.
Proof.
  intros H. unfold td_class in H. cbv beta iota zeta in H.
  destruct (forallb (fun td => str_eqb (fst td) (def_text (snd td))) tdefs); cbn [negb] in H; [|discriminate H].
  destruct (wf_cutb C) eqn:E1; cbn [negb] in H; [|discriminate H].
  destruct (heavy_atomsb C) eqn:E2; cbn [negb] in H; [|discriminate H].
  destruct (base_readb fo C body) eqn:E3; cbn [negb] in H; [|discriminate H].
  destruct (negb (is_nil (map snd tdefs)) && defs_okb fo C (map snd tdefs)) eqn:E4; cbn [negb] in H; [|discriminate H].
  unfold text_domainb. rewrite E1, E2, E3. cbn [andb]. exact E4.
Qed.

(** ---------------------------------------------------------------- two strings, one molecule: the isomorphism theorem
    (TextIso.text_returned_iso) for any base texts the reader reads, and ONE executable test for its hypotheses *)
From CGV Require Import Resolve.CopyProofs Compose.OrderIndep Compose.Transcript Compose.CutIsoCar Compose.ReturnedIso Compose.AnyCut Compose.TextIso.

Definition iso_domainb (fo : float_oracle) (C1 : cut) (body1 : pystr) (defs1 : list fdef) (C2 : cut) (body2 : pystr) (defs2 : list fdef) : bool :=
  text_domainb fo C1 body1 defs1 && text_domainb fo C2 body2 defs2 && same_molb C1 C2.

Theorem iso_domain_sound fo C1 body1 defs1 C2 body2 defs2 : iso_domainb fo C1 body1 defs1 C2 body2 defs2 = true ->
  exists st1 fd1 st2 fd2,
    from_text fo (cut_string_of body1 defs1) = Ok st1 /\ st_dicts st1 = [fd1] /\
    from_text fo (cut_string_of body2 defs2) = Ok st2 /\ st_dicts st2 = [fd2] /\
    forall car1 car2 fo1 fo2 ms1 ms2,
      resolve_step_full (st_legacy st1) (is_all_atom st1) fd1 (st_mol st1) (Some car1) = Ok fo1 ->
      resolve_step_full (st_legacy st2) (is_all_atom st2) fd2 (st_mol st2) (Some car2) = Ok fo2 ->
      transcript_ok (fo_m3 fo1) car1 -> transcript_ok (fo_m3 fo2) car2 -> corr_orders C1 C2 car1 car2 ->
      sort_mapping (fo_m4 fo1) = Ok ms1 -> sort_mapping (fo_m4 fo2) = Ok ms2 ->
      returned_iso_car after_sort_key C1 C2 car1 (fo_m4 fo1) car2 (fo_m4 fo2) (fo_mol fo1) (fo_mol fo2) ms1 ms2.
Proof.
  unfold iso_domainb. intros H. apply andb_prop in H as [H SM]. apply andb_prop in H as [D1 D2].
  assert (X : forall C body defs, text_domainb fo C body defs = true ->
            wf_cut C /\ heavy_payload C /\ exists B fd, from_text fo (cut_string_of body defs) = Ok (init B [fd] true true) /\ templates_ok C fd /\ is_base C (next_meta B)).
  { clear. intros C body defs H. unfold text_domainb, base_readb in H. apply andb_prop in H as [H H5]. apply andb_prop in H as [H H4]. apply andb_prop in H as [H H3].
    apply andb_prop in H as [H1 H2]. apply andb_prop in H3 as [H3 Hr]. apply andb_prop in H3 as [Hne Hnb].
    destruct (ReaderImpl.read_cgsmiles fo (block_of body)) as [B|] eqn:ER; [|discriminate Hr]. apply andb_prop in Hr as [Hb Hn].
    assert (body <> []) as Nb by (destruct body; [discriminate Hne|discriminate]).
    assert (defs <> []) as Nd by (destruct defs; [discriminate H4|discriminate]).
    assert (get_node_attributes B (S "atomname") = []) as Hn' by (destruct (get_node_attributes B (S "atomname")); [reflexivity|discriminate Hn]).
    split; [now apply wf_cutb_sound|]. split; [exact (heavy_atomsb_sound _ H2)|].
    destruct (text_from_string_body fo C body defs B Nb (chars_lackb_sound _ _ _ Hnb (or_introl eq_refl)) ER Nd (defs_okb_sound _ _ _ H5)) as (fd & Hs & HT).
    exists B, fd. split; [exact Hs|]. split; [exact HT|]. unfold next_meta. rewrite Hn'. now apply is_baseb_sound. }
  destruct (X _ _ _ D1) as (W1 & P1 & B1 & fd1 & S1 & T1 & Bs1). destruct (X _ _ _ D2) as (W2 & P2 & B2 & fd2 & S2 & T2 & Bs2).
  exists (init B1 [fd1] true true), fd1, (init B2 [fd2] true true), fd2.
  split; [exact S1|]. split; [reflexivity|]. split; [exact S2|]. split; [reflexivity|].
  intros car1 car2 fo1 fo2 ms1 ms2 R1 R2 K1 K2 Corr M1 M2.
  change (resolve_step_full true true fd1 B1 (Some car1) = Ok fo1) in R1. change (resolve_step_full true true fd2 B2 (Some car2) = Ok fo2) in R2.
  now destruct (returned_graphs_iso_any C1 C2 fd1 fd2 B1 B2 car1 car2 fo1 fo2 ms1 ms2 W1 (same_molb_sound _ _ SM) W2 P1 P2 T1 Bs1 T2 Bs2 R1 R2 K1 K2 Corr M1 M2) as (_ & _ & H).
Qed.

(** the measurement record for a pair of strings; classes: 0 the isomorphism theorem applies; 10 + k / 20 + k: class k of the
    first / second description; 30: the two cut records are not [same_mol] *)
Definition tdp_class (fo : float_oracle) (c : td_case * td_case) : nat :=
  match td_class fo (fst c), td_class fo (snd c) with
  | 0%nat, 0%nat => if same_molb (fst (fst (fst c))) (fst (fst (snd c))) then 0%nat else 30%nat
  | 0%nat, k => (20 + k)%nat
  | k, _ => (10 + k)%nat
  end.
