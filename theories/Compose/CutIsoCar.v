(** CutIsoCar: CutIso.v for arbitrary aromaticity transcripts.  Two runs on two listings of the parts of one cut, with
    transcripts g1a, g1b of the aromaticity correction.  For two runs the transcripts must say the same about the molecule:
    [corr_orders] - the bond between x and y has the same `order` in both - and, for the `aromatic` attribute to be carried
    by the isomorphism, [corr_arom].  (For the identity transcripts both hold: CutIso.)  The map [CutIso.iso] is the same. *)
From Coq Require Import String.
From Coq Require Import List Ascii ZArith Bool Lia Permutation.
From CGV Require Import Base.PyBase Base.PyVal Base.NxGraph Gen.HydroGen Resolve.Bonding Resolve.GraphOps Resolve.MapProofs Resolve.CopyProofs
     Hydro.GraphLemmas Hydro.SquashDefs Hydro.HydroDefs.
From CGV Require Hydro.Hydrogens Hydro.RebuildProofs Resolve.SortGraphProofs.
From CGV Require Import Compose.GraphFacts Compose.GraphAdj Compose.CutModel Compose.CutPos Compose.CutTables Compose.CutDisc
     Compose.CutSkeleton Compose.CutWf Compose.CutHydrogens Compose.SortIdentity Compose.PartPerm Compose.Completion Compose.RelabelEdges
     Compose.CutIso Compose.Transcript Compose.CompletionCar.
Import ListNotations.
Open Scope Z_scope.

Definition corr_orders (C1 C2 : cut) (g1a g1b : graph) : Prop := forall x y, In x (flat C1) -> In y (flat C1) ->
  edge_get g1a (phi C1 x) (phi C1 y) (S "order") = edge_get g1b (phi C2 x) (phi C2 y) (S "order").
Definition corr_arom (C1 C2 : cut) (g1a g1b : graph) : Prop := forall x, In x (flat C1) ->
  node_get g1a (phi C1 x) (S "aromatic") = node_get g1b (phi C2 x) (S "aromatic").

(** the bond sum of a node, by neighbour *)
Definition h1 (g : graph) (a k : Z) : Z := match edge_get g a k (S "order") with Some v => ohalf v | None => 2 end.
Lemma sum_orders_keys g a l : forall b, (forall k d, In (k, d) l -> edge_get g a k (S "order") = aget (S "order") d) ->
  Hydrogens.sum_orders l = Ok b -> b = zsum (map (h1 g a) (map fst l)).
Proof.
  induction l as [|[k d] r IH]; intros b H S0; cbn [Hydrogens.sum_orders] in S0; [inversion S0; reflexivity|].
  destruct (Hydrogens.order_half d) as [o|] eqn:Eo; cbn [bind] in S0; [|discriminate]. destruct (Hydrogens.sum_orders r) as [s|] eqn:Es; cbn [bind] in S0; [|discriminate].
  inversion S0; subst b. pose proof (IH s (fun k' d' Hin => H k' d' (or_intror Hin)) eq_refl) as Es'. rewrite Es'. unfold zsum. cbn [map fst fold_right]. f_equal.
  unfold h1. rewrite (H k d (or_introl eq_refl)). unfold Hydrogens.order_half in Eo. destruct (aget (S "order") d) as [v|]; [|now inversion Eo].
  unfold ohalf. now rewrite Eo.
Qed.

Section Half.
  Variables C1 C2 : cut.
  Hypothesis W1 : wf_cut C1.
  Hypothesis PP : pperm C1 C2.
  Variables m1 g1 m2 g2 : graph.
  Hypothesis K1 : completion_car C1 m1 g1.
  Hypothesis K2 : completion_car C2 m2 g2.
  Hypothesis Corr : corr_orders C1 C2 m1 m2.
  Let f := iso C1 C2 m1 g1 m2 g2.
  Let fl x := proj2 (pp_flat_in C1 C2 PP x).

  Lemma iso_heavy_car x : In x (flat C1) -> f (phi C1 x) = phi C2 x.
  Proof. apply iso_heavy. Qed.

  Lemma bond_sum_by_inc C g n x b : wf_cut C -> askel C g -> In x (flat C) -> gfind (phi C x) g = Some n -> Hydrogens.sum_orders (nadj n) = Ok b ->
    b = zsum (map (fun bd => h1 g (phi C x) (phi C (other x bd))) (inc C x)).
  Proof.
    intros W Ak Fx G Sb. pose proof (askel_wf C W g Ak) as Wf. pose proof (gfind_In _ _ _ G) as Hin. pose proof (gfind_key _ _ _ G) as Hk.
    rewrite (sum_orders_keys g (phi C x) (nadj n) b); [|intros k d Hd|exact Sb].
    - rewrite (zsum_perm _ _ (Permutation_map (h1 g (phi C x)) (ak_adjacency C W g Ak x n Fx G))), map_map. reflexivity.
    - apply (adj_edge_attrs g n k d (wf_nodup _ Wf) (ak_adj _ _ Ak) Hin) in Hd. rewrite Hk in Hd. unfold edge_get. now rewrite Hd.
  Qed.
  Lemma hyd_lengths_car x : In x (flat C1) -> length (hyds m2 g2 (phi C2 x)) = length (hyds m1 g1 (phi C1 x)).
  Proof.
    intros Fx. destruct (cc_heavy _ _ _ K1 x Fx) as (n1 & ? & v1 & b1 & G1 & _ & V1 & S1 & _ & L1 & _). destruct (cc_heavy _ _ _ K2 x (fl x Fx)) as (n2 & ? & v2 & b2 & G2 & _ & V2 & S2 & _ & L2 & _).
    rewrite (pp_payload C1 C2 PP) in V2. rewrite V1 in V2. inversion V2; subst v2. rewrite L1, L2. f_equal. f_equal. f_equal.
    rewrite (bond_sum_by_inc C1 m1 n1 x b1 W1 (cc_askel _ _ _ K1) Fx G1 S1), (bond_sum_by_inc C2 m2 n2 x b2 (pperm_wf C1 C2 W1 PP) (cc_askel _ _ _ K2) (fl x Fx) G2 S2).
    rewrite (pp_inc C1 C2 PP). f_equal. apply map_ext_in. intros bd Hbd. unfold h1. rewrite (Corr x (other x bd) Fx (other_in_flat C1 W1 x bd Hbd)). reflexivity.
  Qed.

  Lemma iso_hyd_car x i j : In x (flat C1) -> nth_error (hyds m1 g1 (phi C1 x)) i = Some j ->
    nth_error (hyds m2 g2 (phi C2 x)) i = Some (f j) /\ has_node m1 j = false.
  Proof.
    intros Fx Hi. assert (In j (hyds m1 g1 (phi C1 x))) as Hin by (eapply nth_error_In; eauto).
    destruct (cc_heavy _ _ _ K1 x Fx) as (n & n' & v1 & ? & _ & _ & _ & _ & _ & _ & Nd & _ & Hh). destruct (Hh j Hin) as (Hm & h & Gh & Ah & _).
    split; [|exact Hm]. unfold f, iso.
    assert ((0 <=? j) && (j <? Z.of_nat (length (flat C1))) = false) as ->.
    { destruct ((0 <=? j) && (j <? Z.of_nat (length (flat C1)))) eqn:E; [|reflexivity]. apply andb_true_iff in E as [E1 E2].
      apply Z.leb_le in E1. apply Z.ltb_lt in E2. rewrite (proj2 (cc_range _ _ _ K1 j) (conj E1 E2)) in Hm. discriminate. }
    unfold nadj_of at 1. rewrite Gh, Ah. rewrite (unphi_phi C1 x Fx). rewrite (index_in_nth _ _ _ Nd Hi).
    apply nth_error_nth'. rewrite (hyd_lengths_car x Fx). apply nth_error_Some. congruence.
  Qed.

  (** nodes to nodes *)
  Lemma iso_node_car k : has_node g1 k = true -> has_node g2 (f k) = true.
  Proof.
    intros H. apply (cc_keys _ _ _ K1) in H as [(x & Fx & ->)|(x & Fx & Hin)]; apply (cc_keys _ _ _ K2).
    - left. exists x. split; [now apply fl|now apply iso_heavy_car].
    - right. apply In_nth_error in Hin as [i Hi]. destruct (iso_hyd_car x i k Fx Hi) as [E _]. exists x. split; [now apply fl|eapply nth_error_In; eauto].
  Qed.

  (** adjacency and orders *)
  Lemma iso_edges_car a b : has_node g1 a = true -> has_node g1 b = true ->
    has_edge g2 (f a) (f b) = has_edge g1 a b /\ edge_get g2 (f a) (f b) (S "order") = edge_get g1 a b (S "order").
  Proof.
    assert (HH : forall x y j, In x (flat C1) -> In y (flat C1) -> In j (hyds m1 g1 (phi C1 y)) ->
              has_edge g2 (phi C2 x) (f j) = has_edge g1 (phi C1 x) j /\ edge_get g2 (phi C2 x) (f j) (S "order") = edge_get g1 (phi C1 x) j (S "order")).
    { intros x y j Fx Fy Hin. apply In_nth_error in Hin as [i Hi]. destruct (iso_hyd_car y i j Fy Hi) as [E2 Hm1].
      assert (In j (hyds m1 g1 (phi C1 y))) as Hin1 by (eapply nth_error_In; eauto). assert (In (f j) (hyds m2 g2 (phi C2 y))) as Hin2 by (eapply nth_error_In; eauto).
      destruct (cc_heavy _ _ _ K2 y (fl y Fy)) as (? & ? & ? & ? & _ & _ & _ & _ & _ & _ & _ & _ & Hh2). destruct (Hh2 _ Hin2) as (Hm2 & _).
      destruct (cc_edge_hyd _ _ _ K1 x j Fx Hm1) as [I1 O1]. destruct (cc_edge_hyd _ _ _ K2 x (f j) (fl x Fx) Hm2) as [I2 O2].
      destruct (Z.eq_dec x y) as [->|N].
      - destruct (O1 Hin1) as [-> _]. destruct (O2 Hin2) as [-> _]. rewrite (proj2 I1 Hin1), (proj2 I2 Hin2). auto.
      - assert (has_edge g1 (phi C1 x) j = false) as E1'.
        { destruct (has_edge g1 (phi C1 x) j) eqn:E; [|reflexivity]. exfalso. apply N. exact (cc_unique _ _ _ K1 x y j Fx Fy (proj1 I1 eq_refl) Hin1). }
        assert (has_edge g2 (phi C2 x) (f j) = false) as E2'.
        { destruct (has_edge g2 (phi C2 x) (f j)) eqn:E; [|reflexivity]. exfalso. apply N. exact (cc_unique _ _ _ K2 x y (f j) (fl x Fx) (fl y Fy) (proj1 I2 eq_refl) Hin2). }
        rewrite E1', E2', (edge_get_none _ _ _ _ E1'), (edge_get_none _ _ _ _ E2'). auto. }
    intros Ha Hb. apply (cc_keys _ _ _ K1) in Ha as [(x & Fx & ->)|(x & Fx & Hx)]; apply (cc_keys _ _ _ K1) in Hb as [(y & Fy & ->)|(y & Fy & Hy)].
    - rewrite !iso_heavy_car by assumption. destruct (cc_edge_heavy _ _ _ K1 x y (S "order") Fx Fy) as [-> ->]. destruct (cc_edge_heavy _ _ _ K2 x y (S "order") (fl x Fx) (fl y Fy)) as [-> ->].
      rewrite (pp_bonded C1 C2 PP). split; [reflexivity|]. symmetry. now apply Corr.
    - rewrite iso_heavy_car by assumption. now apply (HH x y).
    - rewrite (iso_heavy_car y Fy). rewrite (wf_sym _ (cc_wf _ _ _ K2)), (wf_sym _ (cc_wf _ _ _ K1) a), (cc_order_sym _ _ _ K2), (cc_order_sym _ _ _ K1 a). now apply (HH y x).
    - apply In_nth_error in Hx as [i Hi]. apply In_nth_error in Hy as [i' Hi']. destruct (iso_hyd_car x i a Fx Hi) as [Ea Ma]. destruct (iso_hyd_car y i' b Fy Hi') as [Eb Mb].
      assert (has_node g1 a = true) as Na by (apply (cc_keys _ _ _ K1); right; exists x; split; [exact Fx|eapply nth_error_In; eauto]).
      assert (has_node g2 (f a) = true) as Na2 by (now apply iso_node_car).
      assert (has_node m2 (f a) = false) as Ma2.
      { destruct (cc_heavy _ _ _ K2 x (fl x Fx)) as (? & ? & ? & ? & _ & _ & _ & _ & _ & _ & _ & _ & Hh2). now destruct (Hh2 (f a) (nth_error_In _ _ Ea)). }
      assert (has_node m2 (f b) = false) as Mb2.
      { destruct (cc_heavy _ _ _ K2 y (fl y Fy)) as (? & ? & ? & ? & _ & _ & _ & _ & _ & _ & _ & _ & Hh2). now destruct (Hh2 (f b) (nth_error_In _ _ Eb)). }
      pose proof (cc_no_edge _ _ _ K1 a b Ma Na Mb) as E1'. pose proof (cc_no_edge _ _ _ K2 (f a) (f b) Ma2 Na2 Mb2) as E2'.
      rewrite E1', E2', (edge_get_none _ _ _ _ E1'), (edge_get_none _ _ _ _ E2'). auto.
  Qed.

  (** attributes *)
  Lemma iso_attrs_heavy_car x key v : In x (flat C1) -> aget key (payload C1 x) = Some v -> ~ In key reserved -> key <> S "hcount" -> key <> S "aromatic" ->
    node_get g1 (phi C1 x) key = Some v /\ node_get g2 (f (phi C1 x)) key = Some v.
  Proof.
    intros Fx Hv Hr Hh Ha. rewrite iso_heavy_car by exact Fx. rewrite (cc_attr _ _ _ K1 x key Fx Hh), (cc_attr _ _ _ K2 x key (fl x Fx) Hh).
    split; [now apply (ak_payload _ _ (cc_askel _ _ _ K1))|]. apply (ak_payload _ _ (cc_askel _ _ _ K2)); auto. now rewrite (pp_payload C1 C2 PP).
  Qed.
  Lemma iso_arom_car x : corr_arom C1 C2 m1 m2 -> In x (flat C1) -> node_get g2 (f (phi C1 x)) (S "aromatic") = node_get g1 (phi C1 x) (S "aromatic").
  Proof.
    intros Ca Fx. rewrite iso_heavy_car by exact Fx.
    rewrite (cc_attr _ _ _ K1 x _ Fx), (cc_attr _ _ _ K2 x _ (fl x Fx)) by (intros E; apply str_eqb_eq in E; vm_compute in E; discriminate). symmetry. now apply Ca.
  Qed.
  Lemma iso_attrs_hyd_car x j key : In x (flat C1) -> In j (hyds m1 g1 (phi C1 x)) -> ~ In key rebuild_copy_attrs_default ->
    node_get g2 (f j) key = node_get g1 j key.
  Proof.
    intros Fx Hin Hk. pose proof Hin as Hin'. apply In_nth_error in Hin' as [i Hi]. destruct (iso_hyd_car x i j Fx Hi) as [E2 _].
    destruct (cc_heavy _ _ _ K1 x Fx) as (? & n1' & ? & ? & _ & _ & _ & _ & _ & _ & _ & _ & Hh1). destruct (Hh1 j Hin) as (_ & h1 & G1 & _ & _ & A1).
    destruct (cc_heavy _ _ _ K2 x (fl x Fx)) as (? & n2' & ? & ? & _ & _ & _ & _ & _ & _ & _ & _ & Hh2). destruct (Hh2 (f j) (nth_error_In _ _ E2)) as (_ & h2 & G2 & _ & _ & A2).
    unfold node_get. rewrite G1, G2, (A1 key), (A2 key).
    assert (str_in key rebuild_copy_attrs_default = false) as ->; [|reflexivity].
    destruct (str_in key rebuild_copy_attrs_default) eqn:E; [|reflexivity]. exfalso. apply Hk. now apply CutBonding.str_in_In.
  Qed.
End Half.

(** ---------------------------------------------------------------- the isomorphism of the completed graphs *)
Lemma corr_orders_sym C1 C2 m1 m2 : pperm C1 C2 -> corr_orders C1 C2 m1 m2 -> corr_orders C2 C1 m2 m1.
Proof. intros PP H x y Fx Fy. symmetry. apply H; now apply (pp_flat_in C1 C2 PP). Qed.

Theorem completed_iso_car C1 C2 m1 g1 m2 g2 : wf_cut C1 -> pperm C1 C2 -> completion_car C1 m1 g1 -> completion_car C2 m2 g2 -> corr_orders C1 C2 m1 m2 ->
  let f := iso C1 C2 m1 g1 m2 g2 in let f' := iso C2 C1 m2 g2 m1 g1 in
  (forall k, has_node g1 k = true -> has_node g2 (f k) = true /\ f' (f k) = k) /\
  (forall k, has_node g2 k = true -> has_node g1 (f' k) = true /\ f (f' k) = k) /\
  (forall x, In x (flat C1) -> f (phi C1 x) = phi C2 x) /\
  (forall x i j, In x (flat C1) -> nth_error (hyds m1 g1 (phi C1 x)) i = Some j -> nth_error (hyds m2 g2 (phi C2 x)) i = Some (f j)) /\
  (forall a b, has_node g1 a = true -> has_node g1 b = true ->
     has_edge g2 (f a) (f b) = has_edge g1 a b /\ edge_get g2 (f a) (f b) (S "order") = edge_get g1 a b (S "order")) /\
  (forall x key v, In x (flat C1) -> aget key (payload C1 x) = Some v -> ~ In key reserved -> key <> S "hcount" -> key <> S "aromatic" ->
     node_get g1 (phi C1 x) key = Some v /\ node_get g2 (f (phi C1 x)) key = Some v) /\
  (forall x j key, In x (flat C1) -> In j (hyds m1 g1 (phi C1 x)) -> ~ In key rebuild_copy_attrs_default -> node_get g2 (f j) key = node_get g1 j key) /\
  (corr_arom C1 C2 m1 m2 -> forall x, In x (flat C1) -> node_get g2 (f (phi C1 x)) (S "aromatic") = node_get g1 (phi C1 x) (S "aromatic")).
Proof.
  intros W1 PP K1 K2 Corr f f'. pose proof (pperm_wf C1 C2 W1 PP) as W2. pose proof (pperm_sym C1 C2 PP) as PP'. pose proof (corr_orders_sym _ _ _ _ PP Corr) as Corr'.
  assert (Inv : forall Ca Cb ma ga mb gb, wf_cut Ca -> pperm Ca Cb -> wf_cut Cb -> pperm Cb Ca -> completion_car Ca ma ga -> completion_car Cb mb gb ->
            corr_orders Ca Cb ma mb -> corr_orders Cb Ca mb ma ->
            forall k, has_node ga k = true -> iso Cb Ca mb gb ma ga (iso Ca Cb ma ga mb gb k) = k).
  { intros Ca Cb ma ga mb gb Wa Pab Wb Pba Ka Kb Cab Cba k Hk. apply (cc_keys _ _ _ Ka) in Hk as [(x & Fx & ->)|(x & Fx & Hin)].
    - rewrite (iso_heavy Ca Cb ma ga mb gb x Fx). apply (iso_heavy Cb Ca mb gb ma ga x). now apply (pp_flat_in Ca Cb Pab).
    - apply In_nth_error in Hin as [i Hi]. destruct (iso_hyd_car Ca Cb Wa Pab ma ga mb gb Ka Kb Cab x i k Fx Hi) as [E _].
      destruct (iso_hyd_car Cb Ca Wb Pba mb gb ma ga Kb Ka Cba x i _ (proj2 (pp_flat_in Ca Cb Pab x) Fx) E) as [E' _]. rewrite Hi in E'. congruence. }
  split; [|split; [|split; [|split; [|split; [|split; [|split]]]]]].
  - intros k Hk. split; [exact (iso_node_car C1 C2 W1 PP m1 g1 m2 g2 K1 K2 Corr k Hk)|exact (Inv C1 C2 m1 g1 m2 g2 W1 PP W2 PP' K1 K2 Corr Corr' k Hk)].
  - intros k Hk. split; [exact (iso_node_car C2 C1 W2 PP' m2 g2 m1 g1 K2 K1 Corr' k Hk)|exact (Inv C2 C1 m2 g2 m1 g1 W2 PP' W1 PP K2 K1 Corr' Corr k Hk)].
  - exact (iso_heavy C1 C2 m1 g1 m2 g2).
  - intros x i j Fx Hi. now destruct (iso_hyd_car C1 C2 W1 PP m1 g1 m2 g2 K1 K2 Corr x i j Fx Hi).
  - exact (iso_edges_car C1 C2 W1 PP m1 g1 m2 g2 K1 K2 Corr).
  - exact (iso_attrs_heavy_car C1 C2 PP m1 g1 m2 g2 K1 K2).
  - exact (iso_attrs_hyd_car C1 C2 W1 PP m1 g1 m2 g2 K1 K2 Corr).
  - intros Ca x Fx. exact (iso_arom_car C1 C2 PP m1 g1 m2 g2 K1 K2 x Ca Fx).
Qed.

(** ---------------------------------------------------------------- … and of the sorted graphs *)
Definition returned_iso_car (P : pystr -> Prop) (C1 C2 : cut) (m1 g1 m2 g2 h1 h2 : graph) (ms1 ms2 : list (Z * Z)) : Prop :=
  let F := fun k => map_get ms2 (iso C1 C2 m1 g1 m2 g2 (inv_key g1 ms1 k)) in
  let F' := fun k => map_get ms1 (iso C2 C1 m2 g2 m1 g1 (inv_key g2 ms2 k)) in
  (forall k, In k (node_keys h1) -> In (F k) (node_keys h2) /\ F' (F k) = k) /\
  (forall k, In k (node_keys h2) -> In (F' k) (node_keys h1) /\ F (F' k) = k) /\
  (forall a, has_node g1 a = true -> F (map_get ms1 a) = map_get ms2 (iso C1 C2 m1 g1 m2 g2 a)) /\
  (forall k l, In k (node_keys h1) -> In l (node_keys h1) ->
     has_edge h2 (F k) (F l) = has_edge h1 k l /\ edge_get h2 (F k) (F l) (S "order") = edge_get h1 k l (S "order")) /\
  (forall x key v, In x (flat C1) -> aget key (payload C1 x) = Some v -> ~ In key reserved -> key <> S "hcount" -> key <> S "aromatic" -> key <> S "ez_isomer_atoms" -> P key ->
     node_get h1 (map_get ms1 (phi C1 x)) key = Some v /\ node_get h2 (F (map_get ms1 (phi C1 x))) key = Some v) /\
  (forall x j key, In x (flat C1) -> In j (hyds m1 g1 (phi C1 x)) -> ~ In key rebuild_copy_attrs_default -> key <> S "ez_isomer_atoms" -> P key ->
     node_get h2 (F (map_get ms1 j)) key = node_get h1 (map_get ms1 j) key) /\
  (corr_arom C1 C2 m1 m2 -> P (S "aromatic") -> forall x, In x (flat C1) ->
     node_get h2 (F (map_get ms1 (phi C1 x))) (S "aromatic") = node_get h1 (map_get ms1 (phi C1 x)) (S "aromatic")).

Theorem sorted_iso_car C1 C2 m1 g1 m2 g2 h1 h2 ms1 ms2 : wf_cut C1 -> pperm C1 C2 -> completion_car C1 m1 g1 -> completion_car C2 m2 g2 -> corr_orders C1 C2 m1 m2 ->
  sort_nodes_by_attr g1 = Ok h1 -> sort_nodes_by_attr g2 = Ok h2 -> sort_mapping g1 = Ok ms1 -> sort_mapping g2 = Ok ms2 ->
  returned_iso_car (fun _ => True) C1 C2 m1 g1 m2 g2 h1 h2 ms1 ms2.
Proof.
  intros W1 PP K1 K2 Corr S1 S2 M1 M2. unfold returned_iso_car.
  destruct (completed_iso_car C1 C2 m1 g1 m2 g2 W1 PP K1 K2 Corr) as (I1 & I2 & Ih & Ihy & Ie & Iah & Iahy & Iar). cbn zeta in *.
  destruct (SortGraphProofs.sort_graph g1 h1 (cc_wf _ _ _ K1) (cc_fragid _ _ _ K1) S1) as (m' & Em' & Inj1 & _ & Kh1 & E1 & A1). rewrite M1 in Em'. inversion Em'; subst m'.
  destruct (SortGraphProofs.sort_graph g2 h2 (cc_wf _ _ _ K2) (cc_fragid _ _ _ K2) S2) as (m'' & Em'' & Inj2 & _ & Kh2 & E2 & A2). rewrite M2 in Em''. inversion Em''; subst m''.
  pose proof (sort_edge_get g1 h1 (S "order") (cc_wf _ _ _ K1) (cc_adj _ _ _ K1) (cc_edn _ _ _ K1) (cc_fragid _ _ _ K1) S1 (cc_order_sym _ _ _ K1) ms1 M1) as O1.
  pose proof (sort_edge_get g2 h2 (S "order") (cc_wf _ _ _ K2) (cc_adj _ _ _ K2) (cc_edn _ _ _ K2) (cc_fragid _ _ _ K2) S2 (cc_order_sym _ _ _ K2) ms2 M2) as O2.
  set (f := iso C1 C2 m1 g1 m2 g2) in *. set (f' := iso C2 C1 m2 g2 m1 g1) in *.
  pose proof (inv_key_spec g1 ms1) as IK1. pose proof (inv_key_spec g2 ms2) as IK2.
  assert (N1 : forall a, In a (node_keys g1) -> In (f a) (node_keys g2)) by (intros a Ha; apply gfind_has; apply I1; now apply gfind_has).
  assert (N2 : forall a, In a (node_keys g2) -> In (f' a) (node_keys g1)) by (intros a Ha; apply gfind_has; apply I2; now apply gfind_has).
  assert (Hh : forall x, In x (flat C1) -> In (phi C1 x) (node_keys g1)) by (intros x Fx; apply gfind_has; apply (cc_keys _ _ _ K1); left; eauto).
  split; [|split; [|split; [|split; [|split; [|split]]]]].
  - intros k Hk. rewrite Kh1 in Hk. apply in_map_iff in Hk as (a & <- & Ha). rewrite (IK1 a Inj1 Ha). split; [rewrite Kh2; apply in_map; now apply N1|].
    rewrite (IK2 _ Inj2 (N1 a Ha)). f_equal. apply I1. now apply gfind_has.
  - intros k Hk. rewrite Kh2 in Hk. apply in_map_iff in Hk as (a & <- & Ha). rewrite (IK2 a Inj2 Ha). split; [rewrite Kh1; apply in_map; now apply N2|].
    rewrite (IK1 _ Inj1 (N2 a Ha)). f_equal. apply I2. now apply gfind_has.
  - intros a Ha. rewrite (IK1 a Inj1); [reflexivity|now apply gfind_has].
  - intros k l Hk Hl. rewrite Kh1 in Hk, Hl. apply in_map_iff in Hk as (a & <- & Ha). apply in_map_iff in Hl as (b & <- & Hb).
    rewrite (IK1 a Inj1 Ha), (IK1 b Inj1 Hb), (E2 _ _ (N1 a Ha) (N1 b Hb)), (E1 a b Ha Hb), (O2 _ _ (N1 a Ha) (N1 b Hb)), (O1 a b Ha Hb).
    apply Ie; now apply gfind_has.
  - intros x key v Fx Hv Hr Hhc Har He _. pose proof (Hh x Fx) as Ha.
    rewrite (IK1 _ Inj1 Ha), (A1 _ _ Ha He), (A2 _ _ (N1 _ Ha) He). now apply Iah.
  - intros x j key Fx Hin Hk He _.
    assert (In j (node_keys g1)) as Ha by (apply gfind_has; apply (cc_keys _ _ _ K1); right; eauto).
    rewrite (IK1 _ Inj1 Ha), (A1 _ _ Ha He), (A2 _ _ (N1 _ Ha) He). now apply (Iahy x).
  - intros Ca _ x Fx. pose proof (Hh x Fx) as Ha.
    assert (S "aromatic" <> S "ez_isomer_atoms") as Ne by (intros E; apply str_eqb_eq in E; vm_compute in E; discriminate).
    rewrite (IK1 _ Inj1 Ha), (A1 _ _ Ha Ne), (A2 _ _ (N1 _ Ha) Ne). now apply Iar.
Qed.

(** the same for graphs with the same shape that agree with the sorted graphs on the attributes [P] admits *)
Lemma returned_iso_car_transfer (P : pystr -> Prop) C1 C2 m1 g1 m2 g2 h1 h2 r1 r2 ms1 ms2 :
  returned_iso_car (fun _ => True) C1 C2 m1 g1 m2 g2 h1 h2 ms1 ms2 ->
  node_keys r1 = node_keys h1 -> node_keys r2 = node_keys h2 ->
  (forall a b, has_edge r1 a b = has_edge h1 a b /\ edge_get r1 a b (S "order") = edge_get h1 a b (S "order")) ->
  (forall a b, has_edge r2 a b = has_edge h2 a b /\ edge_get r2 a b (S "order") = edge_get h2 a b (S "order")) ->
  (forall k key, P key -> node_get r1 k key = node_get h1 k key) -> (forall k key, P key -> node_get r2 k key = node_get h2 k key) ->
  returned_iso_car P C1 C2 m1 g1 m2 g2 r1 r2 ms1 ms2.
Proof.
  unfold returned_iso_car. intros (A1 & A2 & A3 & A4 & A5 & A6 & A7) K1 K2 E1 E2 N1 N2.
  split; [|split; [|split; [|split; [|split; [|split]]]]].
  - intros k Hk. rewrite K1 in Hk. rewrite K2. now apply A1.
  - intros k Hk. rewrite K2 in Hk. rewrite K1. now apply A2.
  - exact A3.
  - intros k l Hk Hl. rewrite K1 in Hk, Hl. destruct (E1 k l) as [-> ->]. destruct (E2 (map_get ms2 (iso C1 C2 m1 g1 m2 g2 (inv_key g1 ms1 k))) (map_get ms2 (iso C1 C2 m1 g1 m2 g2 (inv_key g1 ms1 l)))) as [-> ->].
    now apply A4.
  - intros x key v Fx Hv Hr Hh Ha He HP. rewrite (N1 _ _ HP), (N2 _ _ HP). now apply A5.
  - intros x j key Fx Hin Hk He HP. rewrite (N1 _ _ HP), (N2 _ _ HP). now apply (A6 x).
  - intros Ca HP x Fx. rewrite (N1 _ _ HP), (N2 _ _ HP). now apply A7.
Qed.
