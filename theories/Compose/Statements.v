(** Statements: the headline theorems of the Compose component in one place, each closed by [exact], with
    [Print Assumptions] (all: Closed under the global context).  Properties/C01.v and Properties/C06.v can cite them
    by requiring this file.  Non-vacuity: Compose/CutExamples.v, Compose/FlatExamples.v. *)
From Coq Require Import String.
From Coq Require Import List Ascii ZArith Bool Permutation.
From CGV Require Import Base.PyBase Base.PyVal Base.NxGraph Gen.HydroGen Resolve.Bonding Resolve.BondingDefs Resolve.CutCheck Resolve.CutBonding
     Resolve.GraphOps Hydro.SquashDefs Hydro.HydroDefs.
From CGV Require Hydro.Hydrogens Hydro.Squash.
From CGV Require Import Compose.GraphAdj Compose.CutModel Compose.CutPos Compose.CutTables Compose.CutDisc Compose.CutSkeleton Compose.CutWf
     Compose.CutHydrogens Compose.ComposeFlat Compose.CutSpecCheck Compose.RebuildWf Compose.CutSorted Compose.CutRunCheck Compose.CutRunSound Compose.SortIdentity Compose.LayeredStep Compose.Levels Compose.PartPerm Compose.Completion Compose.RelabelEdges Compose.CutIso Compose.OrderIndep Compose.ReturnedIso Compose.LevelsIso
     Compose.Transcript Compose.CompletionCar Compose.CutIsoCar Compose.ReturnedIsoCar
     Compose.LevelsRunCheck Compose.LevelsRunSound Compose.SharedCut.
From CGV Require Hydro.BangBonds Hydro.BangGraph Hydro.QuotientDefs Resolve.CopyProofs Hydro.SquashProofs.
Import ListNotations.
Open Scope Z_scope.

(** C01, bonding step at graph level: disconnected step + bonding step on (base, templates) of a cut rebuild M's skeleton *)
Theorem C01_cut_bonding_skeleton : forall C, wf_cut C -> forall fd, templates_ok C fd -> forall B, is_base C B -> forall aa : bool,
  (aa = true -> forall x, In x (flat C) ->
     (exists e, aget (S "element") (payload C x) = Some e) /\ exists h, aget (S "hcount") (payload C x) = Some (VInt h)) ->
  exists m1 fg1 m2 fg2,
    resolve_disconnected fd B = Ok (m1, fg1) /\ bonding_step true aa B m1 fg1 = Ok (m2, fg2) /\ skeleton C aa m2.
Proof. exact cut_bonding_skeleton. Qed.

(** the label discipline of a well-formed cut meets the hypotheses of C01_bonding_step (CutFold.forced_fold) *)
Theorem C01_cut_tables_dedicated : forall C, wf_cut C -> forall p q, p <> q ->
  dedicated true (tbl_of C p) (tbl_of C q) (cutpairs C p q).
Proof. exact cutpairs_dedicated. Qed.
Theorem C01_cut_tables_disjoint : forall C, wf_cut C -> forall p q p' q',
  ~ ((p = p' /\ q = q') \/ (p = q' /\ q = p')) -> disjoint_edges (cedge C p q) (cedge C p' q').
Proof. exact cedges_disjoint. Qed.

(** the fine key of an atom: offset of its part + index in the part; a bijection onto 0..N-1 *)
Theorem C01_phi_offset_index : forall C, NoDup (flat C) -> forall p name xs i x,
  nth_error (c_parts C) p = Some (name, xs) -> nth_error xs i = Some x -> phi C x = Z.of_nat (off C p + i) /\ owner C x = p.
Proof. exact phi_part. Qed.
Theorem C01_phi_injective : forall C x y, In x (flat C) -> In y (flat C) -> phi C x = phi C y -> x = y.
Proof. exact phi_inj. Qed.

Theorem C01_skeleton_wf : forall C, wf_cut C -> forall aa m2, skeleton C aa m2 -> wf_graph m2.
Proof. exact cut_skeleton_wf. Qed.

(** C01 with C09/C10/C12: no `!` bond, hydrogen completion, sorting *)
Theorem C01_cut_all_atom_step : forall C, wf_cut C -> forall fd, templates_ok C fd -> forall B, is_base C B ->
  (forall x, In x (flat C) ->
     (exists e, aget (S "element") (payload C x) = Some e) /\ (exists q, aget (S "charge") (payload C x) = Some q) /\
     (exists h, aget (S "hcount") (payload C x) = Some (VInt h)) /\ Hydrogens.is_H (payload C x) = false) ->
  exists m1 fg1 m2 fg2,
    resolve_disconnected fd B = Ok (m1, fg1) /\ bonding_step true true B m1 fg1 = Ok (m2, fg2) /\
    skeleton C true m2 /\ adj_nodup m2 /\ wf_graph m2 /\ Squash.squash_atoms m2 = Ok m2.
Proof. exact cut_all_atom_step. Qed.
Definition C01_cut_hydrogens := cut_hydrogens.
Definition C01_cut_sorted := cut_sorted.

(** rebuild_h_atoms keeps the molecule graph well formed; hence the sorted result without side conditions *)
Theorem C09_rebuild_preserves_wf : forall ca g1 g', wf_graph g1 -> all_no_rs g1 -> Hydrogens.rebuild_after_car false ca g1 = Ok g' -> wf_graph g'.
Proof. exact rebuild_wf. Qed.
Definition C01_completed_wf := completed_wf.
Definition C01_completed_fragid := completed_fragid.
Definition C01_cut_sorted_total := cut_sorted_total.

(** what the per-run graph-level verdicts of ./check C01 mean (Compose/CutRunCheck.v) *)
Theorem C01_skeleton_test_sound : forall C aa m, skeletonb C aa m = true -> skeleton C aa m.
Proof. exact skeletonb_sound. Qed.
Theorem C01_run_check_sound : forall r,
  wf_cutb (rc_cut r) = true -> templates_okb (rc_cut r) (rc_fd r) = true -> is_baseb (rc_cut r) (rc_base r) = true ->
  (rc_aa r = true -> aa_payloadb (rc_cut r) = true) ->
  exists m2, model_run r = Ok m2 /\ skeleton (rc_cut r) (rc_aa r) m2.
Proof. exact run_check_sound. Qed.
Definition C01_run_fail_zero := run_fail_zero.

(** C06, composition at the level of the bonding step *)
Definition C06_layered_base := layered_base.
Definition C06_compose_flat := compose_flat.
Definition C06_perm_cut_wf := perm_cut_wf.

(** C06, composition for the graphs the first resolve() returns (squash, sort, annotate threaded) *)
Definition C06_coarse_step_returned := coarse_step_returned.
Definition C06_compose_flat_returned := compose_flat_returned.
Definition C12_sort_in_order := sort_in_order.
Definition C06_skeleton_rebuilt := skeleton_rebuilt.

(** C06, any number of levels: the driver machine (Resolve/Drivers.v) on the end-to-end step (PipelineFull.driver_step) *)
Definition C06_compose_levels := compose_levels.
Definition C06_compose_levels_all_atom := compose_levels_all_atom.
Definition C06_run_coarse_levels := run_coarse_levels.
Definition C06_coarse_step_any := coarse_step_any.

(** the RETURNED all-atom graphs: explicit isomorphism between two listings of the parts (C01: the order in which the base
    graph lists its nodes; C06: layered against flat) *)
Definition C01_completion_of := completion_of.
Definition C01_completed_iso := completed_iso.
Definition C01_sorted_iso := sorted_iso.
Definition C01_all_atom_iso := all_atom_iso.
Definition C01_base_order_independent := base_order_independent.
Definition C06_layered_flat_returned_iso := layered_flat_returned_iso.
Definition C12_sort_edge_get := sort_edge_get.
(** … for whole all-atom resolve() calls (E/Z step, annotate_fragments, atom names threaded) *)
Definition C01_all_atom_step_inv := all_atom_step_inv.
Definition C01_returned_graphs_iso := returned_graphs_iso.
Definition C01_base_order_returned := base_order_returned.
Definition C06_layered_flat_resolve_iso := layered_flat_resolve_iso.
Definition C06_compose_levels_resolve_iso := compose_levels_resolve_iso.
Definition C01_pperm_wf := pperm_wf.

(** the executable tests of the hypotheses are sound *)
Theorem C01_wf_cut_test_sound : forall C, wf_cutb C = true -> wf_cut C.
Proof. exact wf_cutb_sound. Qed.
Theorem C01_template_test_sound : forall C name xs T, is_templateb C name xs T = true -> is_template C name xs T.
Proof. exact is_templateb_sound. Qed.
Theorem C01_base_test_sound : forall C B, is_baseb C B = true -> is_base C B.
Proof. exact is_baseb_sound. Qed.

(** ---- any aromaticity transcript (Transcript.v, CompletionCar.v, CutIsoCar.v, ReturnedIsoCar.v) ---- *)
(** the bonded graph of an all-atom step is an aromatised skeleton; so is every transcript of it *)
Theorem C01_askel_of_skeleton : forall C m2, wf_cut C -> skeleton C true m2 -> adj_nodup m2 -> edge_nodup m2 -> askel C m2.
Proof. exact askel_of_skeleton. Qed.
Theorem C01_askel_of_transcript : forall C m2 g1, askel C m2 -> transcript_ok m2 g1 -> askel C g1.
Proof. exact askel_of_transcript. Qed.
(** the hydrogen completion after ANY transcript g1 of a cut molecule is its [completion_car] *)
Theorem C01_completion_car_of : forall C g1 g4, wf_cut C -> heavy_atoms C -> askel C g1 ->
  Hydrogens.rebuild_after_car false rebuild_copy_attrs_default g1 = Ok g4 -> completion_car C g1 g4.
Proof. exact completion_car_of. Qed.
(** ... in which every atom carries (least fitting valence - the TRANSCRIPT's bond sum) hydrogens *)
Theorem C01_cut_hydrogens_car : forall C g1 g4 x, completion_car C g1 g4 -> In x (flat C) ->
  exists val b idxs, Hydrogens.valence_of (payload C x) = Ok val /\ idxs = hyds g1 g4 (phi C x) /\
    length idxs = Z.to_nat (Z.max (Hydrogens.missing_of val b) 0) /\
    (forall n, gfind (phi C x) g1 = Some n -> Hydrogens.sum_orders (nadj n) = Ok b) /\
    (fits val b -> exists v, least_fitting val b v /\
       (Z.even b = true -> 2 * Z.of_nat (length idxs) = 2 * v - b) /\ (Z.even b = false -> 2 * Z.of_nat (length idxs) = 2 * v - b - 1)).
Proof. exact cut_hydrogens_car. Qed.
(** one returned all-atom resolve() with transcript car *)
Definition C01_all_atom_step_car := all_atom_step_car.
(** two completions whose transcripts agree on the bond orders through phi are isomorphic by the explicit map *)
Theorem C01_sorted_iso_car : forall C1 C2 m1 g1 m2 g2 h1 h2 ms1 ms2, wf_cut C1 -> pperm C1 C2 -> completion_car C1 m1 g1 -> completion_car C2 m2 g2 -> corr_orders C1 C2 m1 m2 ->
  sort_nodes_by_attr g1 = Ok h1 -> sort_nodes_by_attr g2 = Ok h2 -> sort_mapping g1 = Ok ms1 -> sort_mapping g2 = Ok ms2 ->
  returned_iso_car (fun _ => True) C1 C2 m1 g1 m2 g2 h1 h2 ms1 ms2.
Proof. exact sorted_iso_car. Qed.
(** two returned all-atom resolve() calls on two listings of one cut, any corresponding transcripts *)
Definition C01_returned_graphs_iso_car := returned_graphs_iso_car.
Definition C01_base_order_returned_car := base_order_returned_car.
Definition C06_layered_flat_resolve_iso_car := layered_flat_resolve_iso_car.
Definition C06_compose_levels_resolve_iso_car := compose_levels_resolve_iso_car.
(** the identity transcript meets the transcript hypotheses (so ReturnedIso.v's theorems are instances) *)
Theorem C01_transcript_ok_id : forall C m2, askel C m2 -> transcript_ok m2 m2.
Proof. exact transcript_ok_id. Qed.
Theorem C01_corr_orders_id : forall C1 C2 m1 m2, wf_cut C1 -> pperm C1 C2 -> skeleton C1 true m1 -> skeleton C2 true m2 -> corr_orders C1 C2 m1 m2.
Proof. exact corr_orders_id. Qed.

(** ---- C06 per-run tie (LevelsRunCheck.v / LevelsRunSound.v) ---- *)
Theorem C06_coarse_of_test_sound : forall C C', wf_cut C' -> coarse_ofb C C' = true -> coarse_of C C'.
Proof. exact coarse_ofb_sound. Qed.
Theorem C06_raw_chain_test_sound : forall Cs U, wf_cut U -> raw_chainb U Cs = true -> raw_chain U Cs.
Proof. exact raw_chainb_sound. Qed.
(** a judged hierarchy run with verdict 0: the hypotheses of compose_levels hold of the implementation's dictionaries and
    base graph, the driver machine returns the skeletons at every coarse level, and the implementation's own returned
    graphs (and its bonded all-atom graph) are skeletons of the same cuts *)
Theorem C06_run_check_sound : forall r, lrun_judged r = true -> lrun_fail r = 0%nat ->
  let U := lr_U r in let Cs := lr_Cs r in
  exists fdU rest, lr_fds r = fdU :: rest /\
    wf_cut U /\ raw_chain U Cs /\ templates_ok U fdU /\ is_base U (next_meta (lr_base r)) /\
    Forall2 templates_ok Cs (firstn (length Cs) rest) /\
    (exists st' outs, lrun_model r = Ok (st', outs) /\ Forall2 level_ok (U :: effs U Cs) outs) /\
    (forall E g, In (E, g) (combine (U :: effs U Cs) (lr_outs r)) -> skeleton E false g /\ adj_nodup g) /\
    (forall C0, lr_C0 r = Some C0 -> exists fd0, nth_error rest (length Cs) = Some fd0 /\
        wf_cut C0 /\ coarse_of C0 (last Cs U) /\ templates_ok C0 fd0 /\
        forall g, lr_m2 r = Some g -> skeleton (perm_cut C0 (last_eff U Cs)) true g).
Proof. exact levels_run_check_sound. Qed.

(** ---- shared nodes: the squash operator `!` (SharedCut.v; on Hydro's BangGraph / squash_quotient) ---- *)
(** a description with shared atoms = a cut of the molecule as written whose `$` pairs with a label in L are written `!`:
    the `!`-written templates resolve to the skeleton of the written molecule with those texts rewritten *)
Theorem C01_shared_bonding_skeleton : forall C, wf_cut C -> forall L fd, templates_ok C fd -> forall B, is_base C B -> forall aa : bool,
  (aa = true -> forall x, In x (flat C) ->
     (exists e, aget (S "element") (payload C x) = Some e) /\ exists h, aget (S "hcount") (payload C x) = Some (VInt h)) ->
  exists m1 fg1 m2 fg2,
    resolve_disconnected (BangGraph.fdmap (BangBonds.bangify L) fd) B = Ok (m1, fg1) /\
    bonding_step true aa B m1 fg1 = Ok (BangGraph.gmap (BangBonds.bangify L) m2, fg2) /\ skeleton C aa m2 /\ adj_nodup m2.
Proof. exact shared_bonding_skeleton. Qed.
(** the edges squash_atoms contracts are exactly the cut bonds of C that are `$` pairs with a label in L *)
Definition C01_bang_items_sound := bang_items_sound.
Definition C01_bang_items_complete := bang_items_complete.
(** whatever squash_atoms returns on that graph is the quotient of the written molecule by the `!` pairs
    ([squashed_ok]: representatives survive, classes = connectedness through `!` bonds of C, two representatives are
    bonded iff members of their classes are bonded in C) *)
Theorem C01_shared_cut_quotient : forall C, wf_cut C -> forall L aa m2, skeleton C aa m2 -> adj_nodup m2 -> forall g',
  Squash.squash_atoms (BangGraph.gmap (BangBonds.bangify L) m2) = Ok g' -> squashed_ok C L m2 g'.
Proof. exact shared_cut_quotient. Qed.
Theorem C01_shared_resolve_squash : forall C fd B L, wf_cut C -> templates_ok C fd -> is_base C B ->
  (forall x, In x (flat C) -> (exists e, aget (S "element") (payload C x) = Some e) /\ exists h, aget (S "hcount") (payload C x) = Some (VInt h)) ->
  exists m1 fg1 m2 fg2,
    resolve_disconnected (BangGraph.fdmap (BangBonds.bangify L) fd) B = Ok (m1, fg1) /\
    bonding_step true true B m1 fg1 = Ok (BangGraph.gmap (BangBonds.bangify L) m2, fg2) /\ skeleton C true m2 /\
    (CopyProofs.wf_dict (BangGraph.fdmap (BangBonds.bangify L) fd) -> SquashProofs.hnum_g (BangGraph.gmap (BangBonds.bangify L) m2) ->
       exists g', Squash.squash_atoms (BangGraph.gmap (BangBonds.bangify L) m2) = Ok g') /\
    (forall g', Squash.squash_atoms (BangGraph.gmap (BangBonds.bangify L) m2) = Ok g' -> squashed_ok C L m2 g').
Proof. exact shared_resolve_squash. Qed.

Print Assumptions C01_cut_bonding_skeleton.
Print Assumptions C01_cut_tables_dedicated.
Print Assumptions C01_cut_tables_disjoint.
Print Assumptions C01_skeleton_wf.
Print Assumptions C01_cut_all_atom_step.
Print Assumptions C01_cut_hydrogens.
Print Assumptions C01_cut_sorted.
Print Assumptions C09_rebuild_preserves_wf.
Print Assumptions C01_cut_sorted_total.
Print Assumptions C01_skeleton_test_sound.
Print Assumptions C01_run_check_sound.
Print Assumptions C01_run_fail_zero.
Print Assumptions C06_layered_base.
Print Assumptions C06_compose_flat.
Print Assumptions C06_coarse_step_returned.
Print Assumptions C06_compose_levels.
Print Assumptions C01_base_order_independent.
Print Assumptions C06_layered_flat_returned_iso.
Print Assumptions C01_sorted_iso.
Print Assumptions C01_base_order_returned.
Print Assumptions C06_layered_flat_resolve_iso.
Print Assumptions C06_compose_levels_resolve_iso.
Print Assumptions C12_sort_edge_get.
Print Assumptions C06_compose_levels_all_atom.
Print Assumptions C06_compose_flat_returned.
Print Assumptions C12_sort_in_order.
Print Assumptions C01_base_test_sound.
Print Assumptions C01_template_test_sound.
Print Assumptions C01_completion_car_of.
Print Assumptions C01_cut_hydrogens_car.
Print Assumptions C01_all_atom_step_car.
Print Assumptions C01_sorted_iso_car.
Print Assumptions C01_returned_graphs_iso_car.
Print Assumptions C01_base_order_returned_car.
Print Assumptions C06_layered_flat_resolve_iso_car.
Print Assumptions C06_compose_levels_resolve_iso_car.
Print Assumptions C01_corr_orders_id.
Print Assumptions C06_run_check_sound.
Print Assumptions C06_coarse_of_test_sound.
Print Assumptions C01_shared_bonding_skeleton.
Print Assumptions C01_shared_cut_quotient.
Print Assumptions C01_shared_resolve_squash.
Print Assumptions C01_bang_items_complete.
