(** Completion: the shape of the hydrogen-completed graph of a cut molecule, with CANONICAL hydrogen lists.
    For the skeleton m2 of a cut and g4 = rebuild_h_atoms m2 (identity transcript), [hyds m2 g4 k] - the neighbours of k in
    g4 behind its neighbours in m2, in adjacency order - is the list of the hydrogens added to k.  Every node of g4 is an atom
    of M at its key [phi x] or the i-th hydrogen of exactly one atom; adjacency lists and edge dicts have no duplicates; the
    `order` of an edge does not depend on the direction it is read in. *)
From Coq Require Import String.
From Coq Require Import List Ascii ZArith Bool Lia Permutation.
From CGV Require Import Base.PyBase Base.PyVal Base.NxGraph Gen.HydroGen Resolve.Bonding Resolve.GraphOps Resolve.MapProofs Resolve.CopyProofs
     Hydro.GraphLemmas Hydro.SquashDefs Hydro.HydroDefs.
From CGV Require Hydro.Hydrogens Hydro.RebuildProofs.
From CGV Require Import Compose.GraphFacts Compose.GraphAdj Compose.CutModel Compose.CutPos Compose.CutTables Compose.CutDisc
     Compose.CutSkeleton Compose.CutWf Compose.CutHydrogens Compose.RebuildWf Compose.CutSorted Compose.SortIdentity.
Import ListNotations.
Open Scope Z_scope.

Definition nadj_of (g : graph) (k : Z) : list (Z * attrs) := match gfind k g with Some n => nadj n | None => [] end.
Definition hyds (m g4 : graph) (k : Z) : list Z := map fst (skipn (length (nadj_of m k)) (nadj_of g4 k)).

Lemma skipn_app_exact {A} (l r : list A) : skipn (length l) (l ++ r) = r.
Proof. induction l; cbn; auto. Qed.
Lemma map_fst_h (l : list Z) : map fst (map (fun j : Z => (j, Hydrogens.h_edge_attrs)) l) = l.
Proof. rewrite map_map. cbn. apply map_id. Qed.

Section Completion.
  Variable C : cut.
  Hypothesis W : wf_cut C.
  Hypothesis Hatoms : forall x, In x (flat C) ->
    (exists e, aget (S "element") (payload C x) = Some e) /\ (exists q, aget (S "charge") (payload C x) = Some q) /\
    (exists h, aget (S "hcount") (payload C x) = Some (VInt h)) /\ Hydrogens.is_H (payload C x) = false.
  Hypothesis Hnum : forall b, In b (c_bonds C) -> numeric (cb_ord b).
  Variable m2 : graph.
  Hypothesis Sk : skeleton C true m2.
  Hypothesis Adj : adj_nodup m2.
  Hypothesis Edn : edge_nodup m2.
  Variable g4 : graph.
  Hypothesis Hr : Hydrogens.rebuild_h_atoms_default m2 (Some m2) = Ok g4.
  Let Wf := cut_skeleton_wf C W true m2 Sk.
  Let Wf4 := completed_wf C W m2 Sk g4 Hr.
  Let ca := rebuild_copy_attrs_default.

  (** an atom of M in the completed graph *)
  Lemma heavy_node x : In x (flat C) -> exists n n' val,
    gfind (phi C x) m2 = Some n /\ gfind (phi C x) g4 = Some n' /\ Hydrogens.valence_of (payload C x) = Ok val /\
    nadj n' = nadj n ++ map (fun j => (j, Hydrogens.h_edge_attrs)) (hyds m2 g4 (phi C x)) /\
    length (hyds m2 g4 (phi C x)) = h_needed C val x /\ NoDup (hyds m2 g4 (phi C x)) /\
    (forall attr, attr <> S "hcount" -> aget attr (na n') = aget attr (na n)) /\
    (forall j, In j (hyds m2 g4 (phi C x)) -> has_node m2 j = false /\
       exists h, gfind j g4 = Some h /\ nadj h = [(phi C x, Hydrogens.h_edge_attrs)] /\ Hydrogens.is_H (na h) = true /\
                 RebuildProofs.added_h_attrs ca (na n') (na h)).
  Proof.
    intros Fx. destruct (sk_gfind C m2 Sk x Fx) as [n G]. pose proof (rebuild_unfold m2 g4 Hr) as Hr'.
    destruct (RebuildProofs.wf_graph_structural m2 Wf) as (Hn & Hcl & Hns).
    destruct (RebuildProofs.rebuild_end_to_end ca m2 g4 Hn Hcl Hns (no_rs_all C W m2 Sk) Hr') as (R1 & _ & _).
    destruct (heavy_attrs C Hatoms m2 Sk x n Fx G) as [NH Ev].
    destruct (R1 _ _ G NH) as (val & b & idxs & n' & V & Sb & L & Nd & Fr & G' & A' & At & Hh).
    rewrite (sum_orders_skeleton C W Hnum m2 Sk Adj x n Fx G) in Sb. inversion Sb; subst b. rewrite Ev in V.
    assert (hyds m2 g4 (phi C x) = idxs) as Eh.
    { unfold hyds, nadj_of. rewrite G, G', A', skipn_app_exact. apply map_fst_h. }
    exists n, n', val. rewrite Eh. split; [exact G|]. split; [exact G'|]. split; [exact V|]. split; [exact A'|]. split; [exact L|]. split; [exact Nd|]. split; [exact At|].
    intros j Hj. split; [unfold has_node; now rewrite (Fr j Hj)|]. destruct (Hh j Hj) as (h & Gh & Ah & Ih & Aa). exists h. auto.
  Qed.

  (** every other node is a hydrogen of exactly one atom *)
  Lemma other_node j : has_node m2 j = false -> has_node g4 j = true -> exists x, In x (flat C) /\ In j (hyds m2 g4 (phi C x)).
  Proof.
    intros Hj Hj4. pose proof (rebuild_unfold m2 g4 Hr) as Hr'.
    destruct (RebuildProofs.wf_graph_structural m2 Wf) as (Hn & Hcl & Hns).
    destruct (RebuildProofs.rebuild_end_to_end ca m2 g4 Hn Hcl Hns (no_rs_all C W m2 Sk) Hr') as (_ & _ & R3).
    assert (gfind j m2 = None) as Gn by (unfold has_node in Hj; destruct (gfind j m2); [discriminate|reflexivity]).
    unfold has_node in Hj4. destruct (gfind j g4) as [nd|] eqn:Gnd; [|discriminate].
    destruct (R3 _ _ Gn Gnd) as (k & Hk & Am & _).
    assert (has_node m2 k = true) as Hk' by (unfold has_node; destruct (gfind k m2); [reflexivity|congruence]).
    destruct (sk_onto C W true m2 Sk k Hk') as (x & Fx & <-). exists x. split; [exact Fx|].
    destruct (heavy_node x Fx) as (n & n' & val & G & G' & _ & A' & _).
    assert (has_edge g4 (phi C x) j = true) as He.
    { rewrite <- (wf_sym _ Wf4). apply has_edge_in. exists nd, Hydrogens.h_edge_attrs. split; [exact Gnd|rewrite Am; now left]. }
    apply has_edge_in in He as (n'' & a & G'' & Hin''). rewrite G' in G''. inversion G''; subst n''. rewrite A' in Hin''.
    apply in_app_or in Hin'' as [Hin''|Hin''].
    - exfalso. apply (Hcl _ _ _ _ G Hin''). exact Gn.
    - apply in_map_iff in Hin'' as (j' & E & Hj'). now inversion E; subst.
  Qed.

  Lemma hyd_anchor_unique x y j : In x (flat C) -> In y (flat C) -> In j (hyds m2 g4 (phi C x)) -> In j (hyds m2 g4 (phi C y)) -> x = y.
  Proof.
    intros Fx Fy Hx Hy. destruct (heavy_node x Fx) as (nx & nx' & vx & _ & _ & _ & _ & _ & _ & _ & Hhx). destruct (heavy_node y Fy) as (ny & ny' & vy & _ & _ & _ & _ & _ & _ & _ & Hhy).
    destruct (Hhx j Hx) as (_ & h & Gh & Ah & _). destruct (Hhy j Hy) as (_ & h' & Gh' & Ah' & _). rewrite Gh in Gh'. inversion Gh'; subst h'.
    rewrite Ah in Ah'. inversion Ah'. now apply (phi_inj C).
  Qed.

  Lemma skeleton_key_range k : has_node m2 k = true <-> 0 <= k < Z.of_nat (length (flat C)).
  Proof. rewrite gfind_has, (sk_keys _ _ _ Sk). apply seq_nat_in. Qed.

  (** the keys of the completed graph *)
  Lemma completed_keys k : has_node g4 k = true <->
    (exists x, In x (flat C) /\ k = phi C x) \/ (exists x, In x (flat C) /\ In k (hyds m2 g4 (phi C x))).
  Proof.
    split.
    - intros H. destruct (has_node m2 k) eqn:Hm.
      + left. destruct (sk_onto C W true m2 Sk k Hm) as (x & Fx & <-). eauto.
      + right. now apply other_node.
    - intros [(x & Fx & ->)|(x & Fx & Hk)].
      + destruct (heavy_node x Fx) as (n0 & n' & v0 & _ & G' & _). unfold has_node. now rewrite G'.
      + destruct (heavy_node x Fx) as (n0 & n0' & v0 & _ & _ & _ & _ & _ & _ & _ & Hh). destruct (Hh k Hk) as (_ & h & Gh & _). unfold has_node. now rewrite Gh.
  Qed.

  (** adjacency of the completed graph *)
  Lemma completed_edge_heavy x y : In x (flat C) -> In y (flat C) ->
    has_edge g4 (phi C x) (phi C y) = bonded C x y /\ edge_get g4 (phi C x) (phi C y) (S "order") = result_order C x y.
  Proof. intros Fx Fy. destruct (cut_hydrogens C W Hatoms Hnum m2 Sk Adj g4 Hr) as (_ & H2 & _). now apply H2. Qed.

  Lemma completed_edge_hyd x j : In x (flat C) -> has_node m2 j = false ->
    (has_edge g4 (phi C x) j = true <-> In j (hyds m2 g4 (phi C x))) /\
    (In j (hyds m2 g4 (phi C x)) -> edge_get g4 (phi C x) j (S "order") = Some (VInt 1) /\ edge_get g4 j (phi C x) (S "order") = Some (VInt 1)).
  Proof.
    intros Fx Hj. destruct (heavy_node x Fx) as (n & n' & val & G & G' & _ & A' & _ & Nd & _ & Hh).
    destruct (RebuildProofs.wf_graph_structural m2 Wf) as (Hn & Hcl & Hns).
    assert (forall d, In (j, d) (nadj n) -> False) as Nold.
    { intros d Hin. apply (Hcl _ _ _ _ G Hin). unfold has_node in Hj. destruct (gfind j m2); [discriminate|reflexivity]. }
    split.
    - rewrite has_edge_in. split.
      + intros (n'' & a & G'' & Hin). rewrite G' in G''. inversion G''; subst n''. rewrite A' in Hin. apply in_app_or in Hin as [Hin|Hin]; [exfalso; eapply Nold; eauto|].
        apply in_map_iff in Hin as (j' & E & Hj'). now inversion E; subst.
      + intros Hin. exists n', Hydrogens.h_edge_attrs. split; [exact G'|]. rewrite A'. apply in_or_app. right. apply in_map_iff. eauto.
    - intros Hin. destruct (Hh j Hin) as (_ & h & Gh & Ah & _). unfold edge_get, edge_attrs. rewrite G', Gh, Ah, A'. cbn [adj_get]. rewrite Z.eqb_refl.
      split; [|reflexivity].
      assert (adj_get j (nadj n ++ map (fun j0 => (j0, Hydrogens.h_edge_attrs)) (hyds m2 g4 (phi C x))) = Some Hydrogens.h_edge_attrs) as ->; [|reflexivity].
      clear -Nold Hin. induction (nadj n) as [|[w a] r IH]; cbn.
      + induction (hyds m2 g4 (phi C x)) as [|j0 l IHl]; [contradiction|]. cbn. destruct (Z.eqb_spec j0 j) as [->|N]; [reflexivity|]. destruct Hin as [E|Hin]; [congruence|auto].
      + destruct (Z.eqb_spec w j) as [->|N]; [exfalso; apply (Nold a); now left|]. apply IH. intros d Hd. apply (Nold d). now right.
  Qed.

  Lemma hyd_no_edge j k : has_node m2 j = false -> has_node g4 j = true -> has_node m2 k = false -> has_edge g4 j k = false.
  Proof.
    intros Hj Hj4 Hk. destruct (other_node j Hj Hj4) as (x & Fx & Hin). destruct (heavy_node x Fx) as (n0 & n0' & v0 & _ & _ & _ & _ & _ & _ & _ & Hh).
    destruct (Hh j Hin) as (_ & h & Gh & Ah & _). destruct (has_edge g4 j k) eqn:He; [|reflexivity]. apply has_edge_in in He as (h' & a & Gh' & Hin').
    rewrite Gh in Gh'. inversion Gh'; subst h'. rewrite Ah in Hin'. destruct Hin' as [E|[]]. inversion E; subst k.
    rewrite (sk_node C true m2 Sk x Fx) in Hk. discriminate.
  Qed.

  (** the `order` of an edge of the completed graph does not depend on the direction *)
  Lemma completed_order_sym a b : edge_get g4 a b (S "order") = edge_get g4 b a (S "order").
  Proof.
    assert (forall u v, has_edge g4 u v = false -> edge_get g4 u v (S "order") = None) as Hnone.
    { intros u v H. unfold edge_get. now rewrite (edge_attrs_err g4 u v H). }
    destruct (has_edge g4 a b) eqn:He.
    - pose proof He as He'. rewrite (wf_sym _ Wf4) in He'.
      pose proof (wf_closed _ Wf4 _ _ He) as Hb. pose proof (wf_closed _ Wf4 _ _ He') as Ha.
      destruct (has_node m2 a) eqn:Ma, (has_node m2 b) eqn:Mb.
      + destruct (sk_onto C W true m2 Sk a Ma) as (x & Fx & <-). destruct (sk_onto C W true m2 Sk b Mb) as (y & Fy & <-).
        destruct (completed_edge_heavy x y Fx Fy) as [_ ->]. destruct (completed_edge_heavy y x Fy Fx) as [_ ->]. apply result_order_sym.
      + destruct (sk_onto C W true m2 Sk a Ma) as (x & Fx & <-). destruct (completed_edge_hyd x b Fx Mb) as [I1 I2]. destruct (I2 (proj1 I1 He)) as [-> ->]. reflexivity.
      + destruct (sk_onto C W true m2 Sk b Mb) as (x & Fx & <-). destruct (completed_edge_hyd x a Fx Ma) as [I1 I2]. destruct (I2 (proj1 I1 He')) as [-> ->]. reflexivity.
      + rewrite (hyd_no_edge a b Ma Ha Mb) in He. discriminate.
    - rewrite (Hnone a b He). symmetry. apply Hnone. now rewrite <- (wf_sym _ Wf4).
  Qed.

  (** adjacency lists and edge dicts of the completed graph have no duplicate keys *)
  Lemma completed_node_cases nd : In nd g4 ->
    (exists x n, In x (flat C) /\ nk nd = phi C x /\ gfind (phi C x) m2 = Some n /\ nadj nd = nadj n ++ map (fun j => (j, Hydrogens.h_edge_attrs)) (hyds m2 g4 (phi C x))) \/
    (exists x, In x (flat C) /\ nadj nd = [(phi C x, Hydrogens.h_edge_attrs)]).
  Proof.
    intros Hin. pose proof (gfind_in g4 (wf_nodup _ Wf4) nd Hin) as Gnd.
    assert (has_node g4 (nk nd) = true) as Hk by (unfold has_node; now rewrite Gnd).
    apply completed_keys in Hk as [(x & Fx & E)|(x & Fx & Hh)].
    - left. destruct (heavy_node x Fx) as (n & n' & _ & G & G' & _ & A' & _). rewrite E, G' in Gnd. inversion Gnd; subst n'. exists x, n. auto.
    - right. destruct (heavy_node x Fx) as (n0 & n0' & v0 & _ & _ & _ & _ & _ & _ & _ & H). destruct (H _ Hh) as (_ & h & Gh & Ah & _). rewrite Gnd in Gh. inversion Gh; subst h. eauto.
  Qed.
  Lemma completed_adj_nodup : adj_nodup g4.
  Proof.
    intros nd Hin. destruct (completed_node_cases nd Hin) as [(x & n & Fx & _ & G & ->)|(x & _ & ->)]; [|repeat constructor; tauto].
    destruct (heavy_node x Fx) as (n0 & n0' & v0 & _ & _ & _ & _ & _ & Nd & _ & Hh). destruct (RebuildProofs.wf_graph_structural m2 Wf) as (_ & Hcl & _).
    rewrite map_app, map_fst_h. apply NoDup_app_intro; [exact (Adj n (gfind_In _ _ _ G))|exact Nd|].
    intros k Hk Hk'. apply in_map_iff in Hk as ([k' d] & <- & Hd). destruct (Hh _ Hk') as (Hm & _). unfold has_node in Hm.
    pose proof (Hcl _ _ _ _ G Hd) as X. cbn [fst] in Hm. destruct (gfind k' m2); [discriminate|congruence].
  Qed.
  Lemma completed_edge_nodup : edge_nodup g4.
  Proof.
    intros nd Hin w d Hd. destruct (completed_node_cases nd Hin) as [(x & n & Fx & _ & G & E)|(x & _ & E)]; rewrite E in Hd.
    - apply in_app_or in Hd as [Hd|Hd]; [exact (Edn n (gfind_In _ _ _ G) w d Hd)|]. apply in_map_iff in Hd as (j & E' & _). inversion E'; subst. repeat constructor; tauto.
    - destruct Hd as [E'|[]]. inversion E'; subst. repeat constructor; tauto.
  Qed.
End Completion.

(** ---------------------------------------------------------------- all of it in one record *)
Record completion (C : cut) (m2 g4 : graph) : Prop := {
  cp_wf : wf_graph g4;
  cp_adj : adj_nodup g4;
  cp_edn : edge_nodup g4;
  cp_fragid : map fst (get_node_attributes g4 (S "fragid")) = node_keys g4;
  cp_range : forall k, has_node m2 k = true <-> 0 <= k < Z.of_nat (length (flat C));
  cp_heavy : forall x, In x (flat C) -> exists n n' val,
    gfind (phi C x) m2 = Some n /\ gfind (phi C x) g4 = Some n' /\ Hydrogens.valence_of (payload C x) = Ok val /\
    nadj n' = nadj n ++ map (fun j => (j, Hydrogens.h_edge_attrs)) (hyds m2 g4 (phi C x)) /\
    length (hyds m2 g4 (phi C x)) = h_needed C val x /\ NoDup (hyds m2 g4 (phi C x)) /\
    (forall attr, attr <> S "hcount" -> aget attr (na n') = aget attr (na n)) /\
    (forall j, In j (hyds m2 g4 (phi C x)) -> has_node m2 j = false /\
       exists h, gfind j g4 = Some h /\ nadj h = [(phi C x, Hydrogens.h_edge_attrs)] /\ Hydrogens.is_H (na h) = true /\
                 RebuildProofs.added_h_attrs rebuild_copy_attrs_default (na n') (na h));
  cp_unique : forall x y j, In x (flat C) -> In y (flat C) -> In j (hyds m2 g4 (phi C x)) -> In j (hyds m2 g4 (phi C y)) -> x = y;
  cp_keys : forall k, has_node g4 k = true <->
    (exists x, In x (flat C) /\ k = phi C x) \/ (exists x, In x (flat C) /\ In k (hyds m2 g4 (phi C x)));
  cp_edge_heavy : forall x y, In x (flat C) -> In y (flat C) ->
    has_edge g4 (phi C x) (phi C y) = bonded C x y /\ edge_get g4 (phi C x) (phi C y) (S "order") = result_order C x y;
  cp_edge_hyd : forall x j, In x (flat C) -> has_node m2 j = false ->
    (has_edge g4 (phi C x) j = true <-> In j (hyds m2 g4 (phi C x))) /\
    (In j (hyds m2 g4 (phi C x)) -> edge_get g4 (phi C x) j (S "order") = Some (VInt 1) /\ edge_get g4 j (phi C x) (S "order") = Some (VInt 1));
  cp_no_edge : forall j k, has_node m2 j = false -> has_node g4 j = true -> has_node m2 k = false -> has_edge g4 j k = false;
  cp_order_sym : forall a b, edge_get g4 a b (S "order") = edge_get g4 b a (S "order");
  cp_payload : forall x key v, In x (flat C) -> aget key (payload C x) = Some v -> ~ In key reserved -> key <> S "hcount" ->
    node_get g4 (phi C x) key = Some v }.

Theorem completion_of C m2 g4 : wf_cut C ->
  (forall x, In x (flat C) ->
    (exists e, aget (S "element") (payload C x) = Some e) /\ (exists q, aget (S "charge") (payload C x) = Some q) /\
    (exists h, aget (S "hcount") (payload C x) = Some (VInt h)) /\ Hydrogens.is_H (payload C x) = false) ->
  (forall b, In b (c_bonds C) -> numeric (cb_ord b)) ->
  skeleton C true m2 -> adj_nodup m2 -> edge_nodup m2 -> Hydrogens.rebuild_h_atoms_default m2 (Some m2) = Ok g4 ->
  completion C m2 g4.
Proof.
  intros W Hat Hnum Sk Adj Edn Hr. constructor.
  - exact (completed_wf C W m2 Sk g4 Hr).
  - exact (completed_adj_nodup C W Hat Hnum m2 Sk Adj g4 Hr).
  - exact (completed_edge_nodup C W Hat Hnum m2 Sk Adj Edn g4 Hr).
  - exact (completed_fragid C W Hat m2 Sk g4 Hr).
  - exact (skeleton_key_range C m2 Sk).
  - exact (heavy_node C W Hat Hnum m2 Sk Adj g4 Hr).
  - exact (hyd_anchor_unique C W Hat Hnum m2 Sk Adj g4 Hr).
  - exact (completed_keys C W Hat Hnum m2 Sk Adj g4 Hr).
  - exact (completed_edge_heavy C W Hat Hnum m2 Sk Adj g4 Hr).
  - exact (completed_edge_hyd C W Hat Hnum m2 Sk Adj g4 Hr).
  - exact (hyd_no_edge C W Hat Hnum m2 Sk Adj g4 Hr).
  - exact (completed_order_sym C W Hat Hnum m2 Sk Adj g4 Hr).
  - intros x key v Fx Hv Hres Hh. destruct (heavy_node C W Hat Hnum m2 Sk Adj g4 Hr x Fx) as (n & n' & val & G & G' & _ & _ & _ & _ & At & _).
    unfold node_get. rewrite G', (At key Hh), (sk_aget C m2 x n key Fx G). destruct (sk_attrs _ _ _ Sk x Fx) as (_ & _ & _ & P). apply P; auto.
Qed.
