(** Levels: the composition clause of C06 for ANY number of levels.
    A hierarchy is a top cut U and a list of cuts below it, top-down: Cs = [C_{n-1}; ...; C_0], each the refinement
    of the one above ([raw_chain]: the atoms of C_{k+1} are the parts of C_k, one uniquely labelled descriptor pair per
    bonded pair of parts in different groups, its order = the number of cut bonds one level further down).
    The layered description is resolved level by level by the DRIVER MACHINE of C06 (Resolve/Drivers.v) instantiated
    with the end-to-end step (PipelineFull.driver_step = resolve_step_full): [compose_levels] proves, by induction over
    the list of levels with [coarse_step_any] as the step, that every coarse level returns, that after level k the
    returned fine graph is the skeleton of the level-k cut in the numbering induced by the levels above ([effs]) and -
    read as the next coarse graph - a base graph of the next one, and that the last level returns the skeleton of the
    bottom cut, equal to the flat resolution's skeleton through the explicit renumbering phi C_0 x |-> phi E_0 x. *)
From Coq Require Import String.
From Coq Require Import List Ascii ZArith Bool Lia Permutation.
From CGV Require Import Base.PyBase Base.PyVal Base.NxGraph Gen.HydroGen Resolve.Bonding Resolve.GraphOps Resolve.Pipeline Resolve.PipelineFull
     Resolve.Drivers Resolve.MapProofs Resolve.CopyProofs Hydro.GraphLemmas Hydro.SquashDefs.
From CGV Require Hydro.Hydrogens Hydro.Squash.
From CGV Require Import Compose.GraphFacts Compose.GraphAdj Compose.CutModel Compose.CutPos Compose.CutTables Compose.CutDisc
     Compose.CutSkeleton Compose.CutWf Compose.CutHydrogens Compose.SortIdentity Compose.ComposeFlat Compose.LayeredStep.
Import ListNotations.
Open Scope Z_scope.

(** ---------------------------------------------------------------- one coarse level, from any previous fine graph *)
Theorem coarse_step_any E fd prev car : wf_cut E -> templates_ok E fd -> is_base E (next_meta prev) ->
  exists fo, resolve_step_full true false fd prev car = Ok fo /\ fo_meta fo = next_meta prev /\
    skeleton E false (fo_m2 fo) /\ fo_mol fo = rebuilt (fo_m2 fo) /\ skeleton E false (fo_mol fo) /\ adj_nodup (fo_mol fo).
Proof.
  intros W' HT1 HB1.
  destruct (cut_bonding_skeleton E W' fd HT1 (next_meta prev) HB1 false) as (c1 & cfg1 & c2 & cfg2 & E1 & E2 & Sk); [discriminate|].
  assert (adj_nodup c2) as Adj by (eapply adj_nodup_bonding; [eapply adj_nodup_disconnected; exact E1|exact E2]).
  assert (edge_nodup c2) as Edn by (eapply edge_nodup_bonding; [eapply edge_nodup_disconnected; exact E1|exact E2]).
  pose proof (cut_skeleton_wf E W' false c2 Sk) as Wf. pose proof (wc_nodup E W') as Hnd'.
  set (f := fun k : Z => Z.of_nat (owner E (nth (Z.to_nat k) (flat E) 0))).
  assert (Hunphi : forall x, In x (flat E) -> nth (Z.to_nat (phi E x)) (flat E) 0 = x).
  { intros x Fx. unfold phi. rewrite Nat2Z.id. apply nth_error_nth. now apply nth_index_in. }
  assert (Hsort : sort_nodes_by_attr c2 = Ok (rebuilt c2)).
  { apply (sort_in_order c2 f (length (flat E)) Wf Adj (sk_keys _ _ _ Sk)).
    - intros k Hk. apply gfind_has in Hk. destruct (sk_onto E W' false c2 Sk k Hk) as (x & Fx & <-). unfold f. rewrite (Hunphi x Fx).
      now destruct (sk_attrs _ _ _ Sk x Fx) as (F & _).
    - intros a b Ha Hb Hab. apply gfind_has in Ha. apply gfind_has in Hb.
      destruct (sk_onto E W' false c2 Sk a Ha) as (x & Fx & <-). destruct (sk_onto E W' false c2 Sk b Hb) as (y & Fy & <-).
      unfold f. rewrite (Hunphi x Fx), (Hunphi y Fy). apply Nat2Z.inj_le. now apply owner_mono.
    - intros k Hk. apply gfind_has in Hk. destruct (sk_onto E W' false c2 Sk k Hk) as (x & Fx & <-). exact (sk_ez _ _ _ Sk x Fx). }
  pose proof (skeleton_rebuilt E false c2 W' Sk Adj Edn) as Skr. pose proof (rebuilt_adj_nodup c2) as Adjr.
  destruct (annotate_total (next_meta prev) (rebuilt c2)) as [fgs Efgs].
  { intros k v Hin. destruct (gna_in _ _ _ _ Hin) as (r & Hr & <- & Ev).
    assert (has_node (rebuilt c2) (nk r) = true) as Hk by (apply gfind_has; now apply in_map).
    destruct (sk_onto E W' false (rebuilt c2) Skr _ Hk) as (x & Fx & Ex). destruct (sk_attrs _ _ _ Skr x Fx) as (F & _).
    rewrite Ex in F. unfold node_get in F.
    rewrite (gfind_in (rebuilt c2) (wf_nodup _ (cut_skeleton_wf E W' false _ Skr)) r Hr), Ev in F. inversion F. eexists. reflexivity. }
  eexists. split.
  - unfold resolve_step_full. fold (next_meta prev). rewrite E1. cbn [bind]. rewrite E2. cbn [bind].
    rewrite (squash_identity_any E false c2 W' Sk Adj). cbn [bind]. rewrite Hsort. cbn [bind]. rewrite Efgs. cbn [bind]. reflexivity.
  - cbn [fo_meta fo_m2 fo_mol]. auto.
Qed.

(** ---------------------------------------------------------------- hierarchies *)
(** the same coarse molecule with its parts in another order *)
Definition psim (U E : cut) : Prop := c_atoms E = c_atoms U /\ c_bonds E = c_bonds U /\ Permutation (flat E) (flat U).
Lemma psim_refl U : psim U U.
Proof. repeat split; reflexivity. Qed.
Lemma psim_perm_cut C E : coarse_of C E -> psim C (perm_cut C E).
Proof. intros Co. repeat split; try reflexivity. exact (flat_perm C E Co). Qed.
Lemma coarse_of_psim C U E : psim U E -> coarse_of C U -> coarse_of C E.
Proof.
  intros (Ea & Eb & Pf) [A N B Al]. constructor.
  - now rewrite Pf.
  - intros p Hp. unfold payload. rewrite Ea. exact (N p Hp).
  - rewrite Eb. exact B.
  - rewrite Eb. exact Al.
Qed.

Fixpoint raw_chain (U : cut) (Cs : list cut) : Prop :=
  match Cs with [] => True | C :: r => wf_cut C /\ coarse_of C U /\ raw_chain C r end.
Fixpoint eff_chain (E : cut) (Cs : list cut) : Prop :=
  match Cs with [] => True | C :: r => wf_cut C /\ coarse_of C E /\ eff_chain (perm_cut C E) r end.
(** the cuts in the numbering the levels above induce *)
Fixpoint effs (E : cut) (Cs : list cut) : list cut :=
  match Cs with [] => [] | C :: r => perm_cut C E :: effs (perm_cut C E) r end.
Definition last_eff (E : cut) (Cs : list cut) : cut := last (effs E Cs) E.

Lemma raw_eff Cs : forall U E, psim U E -> raw_chain U Cs -> eff_chain E Cs.
Proof.
  induction Cs as [|C r IH]; intros U E P H; [exact I|]. destruct H as (WC & Co & Hr).
  pose proof (coarse_of_psim C U E P Co) as Co'. split; [exact WC|]. split; [exact Co'|].
  apply (IH C); [now apply psim_perm_cut|exact Hr].
Qed.
Lemma effs_length E Cs : length (effs E Cs) = length Cs.
Proof. revert E. induction Cs as [|C r IH]; intros E; cbn; [reflexivity|]. now rewrite IH. Qed.
Lemma last_dflt {A} (l : list A) d d' : l <> [] -> last l d = last l d'.
Proof. induction l as [|x r IH]; intros H; [congruence|]. destruct r as [|y r']; [reflexivity|]. cbn [last] in *. apply IH. discriminate. Qed.
Lemma last_cons {A} (a : A) l d : last (a :: l) d = last l a.
Proof. destruct l as [|b r]; [reflexivity|]. cbn [last]. change (last (b :: r) d = last (b :: r) a). apply last_dflt. discriminate. Qed.
Lemma last_eff_cons E C r : last_eff E (C :: r) = last_eff (perm_cut C E) r.
Proof. unfold last_eff. cbn [effs]. apply last_cons. Qed.

(** ---------------------------------------------------------------- the driver machine on coarse levels *)
Definition dstep : level -> bool -> amol -> res (amol * amol) := driver_step true.
Definition dstate := @rstate level amol.
Definition level_ok (E : cut) (out : amol * amol) : Prop := skeleton E false (fst (snd out)) /\ adj_nodup (fst (snd out)).

Lemma resolve_coarse E fd car prev fgs c ds laa : wf_cut E -> templates_ok E fd -> is_base E (next_meta prev) ->
  nth_error ds c = Some (fd, car) -> Nat.eqb (Datatypes.S c) (length ds) && laa = false ->
  exists fo, resolve level amol dstep {| molecule := (prev, fgs); counter := c; dicts := ds; last_all_atom := laa |}
             = Ok ({| molecule := (fo_mol fo, []); counter := Datatypes.S c; dicts := ds; last_all_atom := laa |},
                   ((fo_meta fo, fo_fgs fo), (fo_mol fo, []))) /\
             fo_meta fo = next_meta prev /\ skeleton E false (fo_mol fo) /\ adj_nodup (fo_mol fo).
Proof.
  intros W HT HB Hn Hf. destruct (coarse_step_any E fd prev car W HT HB) as (fo & Efo & Em & _ & _ & Sk & Adj).
  exists fo. split; [|auto]. unfold resolve, uses. cbn [dicts counter molecule last_all_atom snd]. unfold level in *. rewrite Hn, Hf.
  unfold dstep, driver_step. cbn [fst snd]. rewrite Efo. reflexivity.
Qed.

Lemma resolve_n_S k (st : dstate) : resolve_n level amol dstep (Datatypes.S k) st =
  ('(st1, out) <- resolve level amol dstep st ;; '(st2, outs) <- resolve_n level amol dstep k st1 ;; Ok (st2, out :: outs)).
Proof. reflexivity. Qed.

Theorem run_coarse_levels : forall Cs lv E fd car prev fgs c ds laa,
  wf_cut E -> templates_ok E fd -> is_base E (next_meta prev) -> eff_chain E Cs ->
  Forall2 (fun C (l : level) => templates_ok C (fst l)) Cs lv ->
  (forall i, (i <= length Cs)%nat -> nth_error ds (c + i) = nth_error ((fd, car) :: lv) i) ->
  (forall i, (i <= length Cs)%nat -> Nat.eqb (Datatypes.S (c + i)) (length ds) && laa = false) ->
  exists st' outs,
    resolve_n level amol dstep (Datatypes.S (length Cs)) {| molecule := (prev, fgs); counter := c; dicts := ds; last_all_atom := laa |} = Ok (st', outs) /\
    counter st' = (c + Datatypes.S (length Cs))%nat /\ dicts st' = ds /\ last_all_atom st' = laa /\ snd (molecule st') = [] /\
    Forall2 level_ok (E :: effs E Cs) outs /\
    skeleton (last_eff E Cs) false (fst (molecule st')) /\ adj_nodup (fst (molecule st')).
Proof.
  induction Cs as [|C r IH]; intros lv E fd car prev fgs c ds laa W HT HB Hch Hlv Hnth Hfl.
  - destruct (resolve_coarse E fd car prev fgs c ds laa W HT HB) as (fo & Er & Em & Sk & Adj).
    { specialize (Hnth 0%nat (Nat.le_0_l _)). now rewrite Nat.add_0_r in Hnth. }
    { specialize (Hfl 0%nat (Nat.le_0_l _)). now rewrite Nat.add_0_r in Hfl. }
    eexists. eexists. split; [cbn [resolve_n length]; rewrite Er; cbn [bind]; reflexivity|].
    cbn [counter dicts last_all_atom molecule snd fst length effs]. split; [lia|]. split; [reflexivity|]. split; [reflexivity|]. split; [reflexivity|].
    split; [constructor; [split; assumption|constructor]|]. split; [exact Sk|exact Adj].
  - destruct Hch as (WC & Co & Hch'). inversion Hlv as [|? [fd' car'] ? lv' HTC Hlv']; subst.
    destruct (resolve_coarse E fd car prev fgs c ds laa W HT HB) as (fo & Er & Em & Sk & Adj).
    { specialize (Hnth 0%nat (Nat.le_0_l _)). now rewrite Nat.add_0_r in Hnth. }
    { specialize (Hfl 0%nat (Nat.le_0_l _)). now rewrite Nat.add_0_r in Hfl. }
    destruct (IH lv' (perm_cut C E) fd' car' (fo_mol fo) [] (Datatypes.S c) ds laa) as (st' & outs & Ern & A1 & A2 & A3 & A4 & A5 & A6 & A7).
    + exact (perm_cut_wf C E WC Co).
    + exact (templates_perm C E WC Co fd' HTC).
    + exact (layered_base C E WC W Co (fo_mol fo) Sk Adj).
    + exact Hch'.
    + exact Hlv'.
    + intros i Hi. specialize (Hnth (Datatypes.S i)). cbn [length] in Hnth. replace (Datatypes.S c + i)%nat with (c + Datatypes.S i)%nat by lia.
      rewrite Hnth by lia. reflexivity.
    + intros i Hi. specialize (Hfl (Datatypes.S i)). cbn [length] in Hfl. replace (Datatypes.S c + i)%nat with (c + Datatypes.S i)%nat by lia. apply Hfl. lia.
    + exists st', (((fo_meta fo, fo_fgs fo), (fo_mol fo, [])) :: outs). split.
      { cbn [length]. rewrite resolve_n_S, Er. cbn [bind]. match goal with |- bind ?x _ = _ => replace x with (@Ok (dstate * list (amol * amol)) (st', outs)) by (symmetry; exact Ern) end. reflexivity. }
      cbn [length]. split; [lia|]. split; [exact A2|]. split; [exact A3|]. split; [exact A4|]. split.
      { cbn [effs]. constructor; [split; cbn [fst snd]; assumption|exact A5]. }
      rewrite last_eff_cons. auto.
Qed.

(** ---------------------------------------------------------------- the bottom cut against its numbering in the hierarchy *)
Lemma eff_chain_last Cs : forall E, eff_chain E Cs -> Cs <> [] ->
  exists E1, last_eff E Cs = perm_cut (last Cs E) E1 /\ wf_cut (last Cs E) /\ coarse_of (last Cs E) E1.
Proof.
  induction Cs as [|C r IH]; intros E H N; [congruence|]. destruct H as (WC & Co & Hr). rewrite last_eff_cons.
  destruct r as [|C2 r'].
  - exists E. cbn. auto.
  - destruct (IH (perm_cut C E) Hr ltac:(discriminate)) as (E1 & A & B & D). exists E1.
    assert (last (C :: C2 :: r') E = last (C2 :: r') (perm_cut C E)) as -> by (rewrite last_cons; apply last_dflt; discriminate).
    auto.
Qed.

(** two skeletons of one molecule whose parts are listed in different orders agree through phi C x |-> phi (perm_cut C E) x *)
Lemma skeleton_perm_agree C E aa l f : wf_cut C -> coarse_of C E -> skeleton (perm_cut C E) aa l -> skeleton C aa f ->
  (forall x y, In x (flat C) -> In y (flat C) ->
     has_edge l (phi (perm_cut C E) x) (phi (perm_cut C E) y) = has_edge f (phi C x) (phi C y) /\
     edge_get l (phi (perm_cut C E) x) (phi (perm_cut C E) y) (S "order") = edge_get f (phi C x) (phi C y) (S "order")) /\
  (forall x key v, In x (flat C) -> aget key (payload C x) = Some v -> ~ In key reserved -> (aa = true -> key <> S "hcount") ->
     node_get l (phi (perm_cut C E) x) key = Some v /\ node_get f (phi C x) key = Some v).
Proof.
  intros W Co Skl Skf.
  assert (flat_iff : forall x, In x (flat (perm_cut C E)) <-> In x (flat C)).
  { intros x. split; intros H; [eapply Permutation_in; [exact (flat_perm C E Co)|exact H]|eapply Permutation_in; [apply Permutation_sym; exact (flat_perm C E Co)|exact H]]. }
  split.
  - intros x y Fx Fy. destruct (sk_edges _ _ _ Skl x y (proj2 (flat_iff x) Fx) (proj2 (flat_iff y) Fy)) as (A1 & A2 & _).
    destruct (sk_edges _ _ _ Skf x y Fx Fy) as (B1 & B2 & _). rewrite A1, A2, B1, B2.
    assert (forall b, In b (c_bonds C) -> is_cut (perm_cut C E) b = is_cut C b) as Hc by (intros b Hb; now apply (is_cut_perm C E W Co)).
    unfold bonded, result_order, find_bond. change (c_bonds (perm_cut C E)) with (c_bonds C). split; [reflexivity|].
    destruct (find (fun b => joins b x y) (c_bonds C)) as [b|] eqn:Eb; [|reflexivity]. apply find_some in Eb as [Hb _]. now rewrite (Hc b Hb).
  - intros x key v Fx Hv Hr Hh. destruct (sk_attrs _ _ _ Skl x (proj2 (flat_iff x) Fx)) as (_ & _ & _ & PL). destruct (sk_attrs _ _ _ Skf x Fx) as (_ & _ & _ & PF).
    split; [apply PL; auto|apply PF; auto].
Qed.

Lemma forall2_len {A B} (R : A -> B -> Prop) l l' : Forall2 R l l' -> length l = length l'.
Proof. induction 1; cbn; congruence. Qed.

(** ---------------------------------------------------------------- C06_compose_levels *)
(** All levels coarse (last_all_atom = false): resolve_iter on the layered description returns at every level. *)
Theorem compose_levels U Cs (lvU : level) (lv : list level) Btop fgs0 :
  wf_cut U -> templates_ok U (fst lvU) -> is_base U (next_meta Btop) -> raw_chain U Cs ->
  Forall2 (fun C (l : level) => templates_ok C (fst l)) Cs lv ->
  exists st' outs,
    resolve_iter level amol dstep (fresh level amol (Btop, fgs0) (lvU :: lv) false) = Ok (st', outs) /\
    length outs = Datatypes.S (length Cs) /\
    (* after level k: the skeleton of the level-k cut, in the numbering the levels above induce *)
    Forall2 level_ok (U :: effs U Cs) outs /\
    (* … and a base graph of the next level's cut *)
    (forall k Ek C out, nth_error (U :: effs U Cs) k = Some Ek -> nth_error Cs k = Some C -> nth_error outs k = Some out ->
       is_base (perm_cut C Ek) (next_meta (fst (snd out)))) /\
    (* the last level: the skeleton of the bottom cut *)
    skeleton (last_eff U Cs) false (fst (molecule st')) /\
    (* … which is the flat resolution's skeleton renumbered *)
    (forall fdflat Bflat, Cs <> [] -> templates_ok (last Cs U) fdflat -> is_base (last Cs U) Bflat ->
       exists f1 ffg1 f2 ffg2 E1,
         resolve_disconnected fdflat Bflat = Ok (f1, ffg1) /\ bonding_step true false Bflat f1 ffg1 = Ok (f2, ffg2) /\
         skeleton (last Cs U) false f2 /\ last_eff U Cs = perm_cut (last Cs U) E1 /\ coarse_of (last Cs U) E1 /\
         let C0 := last Cs U in let E0 := last_eff U Cs in let l := fst (molecule st') in
         (forall x y, In x (flat C0) -> In y (flat C0) ->
            has_edge l (phi E0 x) (phi E0 y) = has_edge f2 (phi C0 x) (phi C0 y) /\
            edge_get l (phi E0 x) (phi E0 y) (S "order") = edge_get f2 (phi C0 x) (phi C0 y) (S "order")) /\
         (forall x key v, In x (flat C0) -> aget key (payload C0 x) = Some v -> ~ In key reserved ->
            node_get l (phi E0 x) key = Some v /\ node_get f2 (phi C0 x) key = Some v)).
Proof.
  intros WU HTU HBU Hraw Hlv. destruct lvU as [fdU carU]. cbn [fst] in HTU.
  pose proof (raw_eff Cs U U (psim_refl U) Hraw) as Heff.
  assert (length lv = length Cs) as Hlen by (symmetry; eapply forall2_len; eauto).
  destruct (run_coarse_levels Cs lv U fdU carU Btop fgs0 0%nat ((fdU, carU) :: lv) false WU HTU HBU Heff Hlv) as (st' & outs & Er & A1 & A2 & A3 & A4 & A5 & A6 & A7).
  { intros i _. reflexivity. }
  { intros i _. apply andb_false_r. }
  exists st', outs. split.
  { unfold resolve_iter, fresh. cbn [dicts length]. rewrite Hlen. exact Er. }
  assert (length outs = Datatypes.S (length Cs)) as Hlo.
  { rewrite <- (forall2_len _ _ _ A5). cbn [length]. now rewrite effs_length. }
  split; [exact Hlo|]. split; [exact A5|]. split; [|split; [exact A6|]].
  - (* base graph of the next level *)
    clear Er A1 A2 A3 A4 A6 A7 Hlo Hlen Hlv Hraw HBU HTU. revert U WU Heff outs A5.
    induction Cs as [|C r IH]; intros U WU Heff outs A5 k Ek C' out Hk HC Ho; [destruct k; discriminate|].
    destruct Heff as (WC & Co & Hr). cbn [effs] in A5. inversion A5 as [|? o1 ? outs' L1 A5']; subst.
    destruct k as [|k].
    + cbn in Hk, HC, Ho. inversion Hk; inversion HC; inversion Ho; subst. destruct L1 as [Sk Adj]. exact (layered_base C' Ek WC WU Co _ Sk Adj).
    + cbn [nth_error] in Hk, HC, Ho. cbn [effs] in Hk. exact (IH (perm_cut C U) (perm_cut_wf C U WC Co) Hr outs' A5' k Ek C' out Hk HC Ho).
  - intros fdflat Bflat Hne HTf HBf. destruct (eff_chain_last Cs U Heff Hne) as (E1 & EE & WC0 & Co0).
    destruct (cut_bonding_skeleton (last Cs U) WC0 fdflat HTf Bflat HBf false) as (f1 & ffg1 & f2 & ffg2 & Ef1 & Ef2 & Skf); [discriminate|].
    exists f1, ffg1, f2, ffg2, E1. split; [exact Ef1|]. split; [exact Ef2|]. split; [exact Skf|]. split; [exact EE|]. split; [exact Co0|].
    cbn zeta. rewrite EE in A6 |- *. destruct (skeleton_perm_agree (last Cs U) E1 false _ _ WC0 Co0 A6 Skf) as [P1 P2].
    split; [exact P1|]. intros x key v Fx Hv Hr. apply P2; auto. discriminate.
Qed.

(** The last level all-atom (last_all_atom = true): the coarse levels return; the last call then is an all-atom step
    (uses = (n, true)) whose coarse graph is a base graph of the bottom cut, so its instantiation and bonding give the
    molecule's skeleton ([cut_bonding_skeleton]; the hydrogen completion and the sort: CutHydrogens / CutSorted). *)
Theorem compose_levels_all_atom U Cs C0 (lvU : level) (lv : list level) (lv0 : level) Btop fgs0 :
  wf_cut U -> templates_ok U (fst lvU) -> is_base U (next_meta Btop) -> raw_chain U Cs ->
  Forall2 (fun C (l : level) => templates_ok C (fst l)) Cs lv ->
  wf_cut C0 -> coarse_of C0 (last Cs U) -> templates_ok C0 (fst lv0) ->
  (forall x, In x (flat C0) -> (exists e, aget (S "element") (payload C0 x) = Some e) /\ exists h, aget (S "hcount") (payload C0 x) = Some (VInt h)) ->
  exists st' outs,
    resolve_n level amol dstep (Datatypes.S (length Cs)) (fresh level amol (Btop, fgs0) (lvU :: lv ++ [lv0]) true) = Ok (st', outs) /\
    Forall2 level_ok (U :: effs U Cs) outs /\
    uses level amol st' = (Datatypes.S (length Cs), true) /\ nth_error (dicts st') (counter st') = Some lv0 /\
    let E0 := perm_cut C0 (last_eff U Cs) in let meta := next_meta (fst (molecule st')) in
    wf_cut E0 /\ is_base E0 meta /\ templates_ok E0 (fst lv0) /\
    exists l1 lfg1 l2 lfg2, resolve_disconnected (fst lv0) meta = Ok (l1, lfg1) /\ bonding_step true true meta l1 lfg1 = Ok (l2, lfg2) /\
      skeleton E0 true l2 /\ adj_nodup l2.
Proof.
  intros WU HTU HBU Hraw Hlv W0 Co0 HT0 Haa. destruct lvU as [fdU carU]. cbn [fst] in HTU.
  pose proof (raw_eff Cs U U (psim_refl U) Hraw) as Heff.
  assert (length lv = length Cs) as Hlen by (symmetry; eapply forall2_len; eauto).
  destruct (run_coarse_levels Cs lv U fdU carU Btop fgs0 0%nat ((fdU, carU) :: lv ++ [lv0]) true WU HTU HBU Heff Hlv) as (st' & outs & Er & A1 & A2 & A3 & A4 & A5 & A6 & A7).
  { intros i Hi. cbn [Nat.add]. destruct i as [|i]; [reflexivity|]. cbn [nth_error]. apply nth_error_app1. unfold level in *. lia. }
  { intros i Hi. cbn [length Nat.add]. rewrite app_length. cbn [length]. apply andb_false_intro1. apply Nat.eqb_neq. lia. }
  exists st', outs. split; [exact Er|]. split; [exact A5|].
  assert (psim (last Cs U) (last_eff U Cs)) as Ps.
  { destruct Cs as [|C r] eqn:ECs; [apply psim_refl|]. destruct (eff_chain_last (C :: r) U Heff ltac:(discriminate)) as (E1 & EE & _ & CoL).
    rewrite EE. now apply psim_perm_cut. }
  pose proof (coarse_of_psim C0 _ _ Ps Co0) as Co0'.
  assert (wf_cut (last_eff U Cs)) as WE.
  { destruct Cs as [|C r] eqn:ECs; [exact WU|]. destruct (eff_chain_last (C :: r) U Heff ltac:(discriminate)) as (E1 & EE & WL & CoL). rewrite EE. now apply perm_cut_wf. }
  split.
  { unfold uses. rewrite A1, A2, A3. cbn [length Nat.add]. rewrite app_length. cbn [length]. f_equal. rewrite Hlen.
    replace (length Cs + 1)%nat with (Datatypes.S (length Cs)) by lia. now rewrite Nat.eqb_refl. }
  split.
  { rewrite A1, A2. cbn [Nat.add nth_error]. rewrite nth_error_app2 by lia. rewrite Hlen, Nat.sub_diag. reflexivity. }
  cbn zeta. pose proof (perm_cut_wf C0 _ W0 Co0') as WE0. pose proof (layered_base C0 _ W0 WE Co0' _ A6 A7) as HB0.
  pose proof (templates_perm C0 _ W0 Co0' _ HT0) as HTE0.
  split; [exact WE0|]. split; [exact HB0|]. split; [exact HTE0|].
  destruct (cut_bonding_skeleton _ WE0 _ HTE0 _ HB0 true) as (l1 & lfg1 & l2 & lfg2 & El1 & El2 & Skl).
  { intros _ x Fx. apply Haa. eapply Permutation_in; [exact (flat_perm C0 _ Co0')|exact Fx]. }
  exists l1, lfg1, l2, lfg2. split; [exact El1|]. split; [exact El2|]. split; [exact Skl|].
  eapply adj_nodup_bonding; [eapply adj_nodup_disconnected; exact El1|exact El2].
Qed.
