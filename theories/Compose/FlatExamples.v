(** FlatExamples: non-vacuity of [layered_base] / [compose_flat].  The parts A, B, D of the example cut [exC] are grouped
    into G1 = [D; B] and G0 = [A] (so the group order reverses the part order): the two ring-opening cut bonds between A and
    B become ONE coarse descriptor pair of order 2 between G0 and G1, the double-bond cut between B and D is an edge inside
    G1.  All hypotheses of [compose_flat] hold; the layered resolution numbers the atoms 13,14,12,11,10,15 -> 0..5 where the
    flat one numbers 11,10,15,12,13,14 -> 0..5, and the two fine skeletons agree through that renumbering. *)
From Coq Require Import String.
From Coq Require Import List Ascii ZArith Bool Lia Permutation.
From CGV Require Import Base.PyBase Base.PyVal Base.NxGraph Resolve.Bonding Resolve.GraphOps.
From CGV Require Import Compose.CutModel Compose.CutPos Compose.CutSpecCheck Compose.CutSkeleton Compose.CutExamples Compose.ComposeFlat.
Import ListNotations.
Open Scope Z_scope.

Definition part_atom (n : string) : attrs := [(S "atomname", VStr (S n))].
Definition exC' : cut := {|
  c_atoms := [(0, part_atom "A"); (1, part_atom "B"); (2, part_atom "D")];
  c_bonds := [ {| cb_u := 0; cb_v := 1; cb_ord := VInt 2; cb_lab := S "x"; cb_dollar := false |};
               {| cb_u := 1; cb_v := 2; cb_ord := VInt 1; cb_lab := []; cb_dollar := true |} ];
  c_parts := [(S "G1", [2; 1]); (S "G0", [0])]; c_dord := [] |}.

Example exC'_coarse : coarse_of exC exC'.
Proof.
  constructor.
  - change (flat exC') with (rev [0; 1; 2]). apply Permutation_sym, Permutation_rev.
  - intros p Hp. cbn in Hp. destruct p as [|[|[|p]]]; try lia; split; reflexivity.
  - intros b Hb. cbn in Hb. destruct Hb as [<-|[<-|[]]]; [exists 0%nat, 1%nat|exists 1%nat, 2%nat]; repeat split; vm_compute; reflexivity.
  - intros b Hb. vm_compute in Hb.
    destruct Hb as [<-|[<-|[<-|[]]]]; [exists (nth 0 (c_bonds exC') (Build_cbond 0 0 VNone [] true))|exists (nth 0 (c_bonds exC') (Build_cbond 0 0 VNone [] true))|exists (nth 1 (c_bonds exC') (Build_cbond 0 0 VNone [] true))];
      (split; [cbn; auto|vm_compute; reflexivity]).
Qed.

Example exC'_hypotheses :
  wf_cutb exC' = true /\ templates_okb exC' (fragdict_of exC') = true /\ is_baseb exC' (base_of exC') = true /\
  tables exC' = [(0, [(1, [S "<x2"])]); (1, [(2, [S ">x2"])])] /\
  c_parts (perm_cut exC exC') = [(S "D", [13; 14]); (S "B", [12]); (S "A", [11; 10; 15])].
Proof. vm_compute. auto 10. Qed.

(** the layered run, executed: the coarse step's result, read as the next base graph, passes the executable test of
    [is_base (perm_cut exC exC')] (it is what [layered_base] proves), with the edge orders 2 (A-B) and 1 (B-D) *)
Example layered_base_executed :
  match resolve_disconnected (fragdict_of exC') (base_of exC') with
  | Ok (c1, cfg1) =>
      match bonding_step true false (base_of exC') c1 cfg1 with
      | Ok (c2, _) =>
          is_baseb (perm_cut exC exC') (next_meta c2) = true /\
          edge_get (next_meta c2) 1 2 (S "order") = Some (VInt 2) /\ edge_get (next_meta c2) 0 1 (S "order") = Some (VInt 1) /\
          map (fun k => node_get (next_meta c2) k (S "fragname")) [0; 1; 2] = [Some (VStr (S "D")); Some (VStr (S "B")); Some (VStr (S "A"))]
      | Err _ => False end
  | Err _ => False end.
Proof. vm_compute. auto. Qed.

Example compose_flat_nonvacuous : forall aa : bool,
  exists l2 f2,
    skeleton (perm_cut exC exC') aa l2 /\ skeleton exC aa f2 /\
    (* the cut double bond 12=13: fine nodes 2-0 in the layered numbering, 3-4 in the flat numbering *)
    edge_get l2 2 0 (S "order") = Some (VInt 2) /\ edge_get f2 3 4 (S "order") = Some (VInt 2) /\
    (* the ring 10-11-12 *)
    has_edge l2 4 3 = true /\ has_edge l2 3 2 = true /\ has_edge l2 2 4 = true /\
    has_edge f2 1 0 = true /\ has_edge f2 0 3 = true /\ has_edge f2 3 1 = true.
Proof.
  intros aa. destruct exC_hypotheses as (H1 & H2 & H3). destruct exC'_hypotheses as (H1' & H2' & H3' & _ & _).
  destruct (compose_flat exC exC' (fragdict_of exC') (base_of exC') (fragdict_of exC) (base_of exC) aa
              (wf_cutb_sound _ H1) (wf_cutb_sound _ H1') exC'_coarse (templates_okb_sound _ _ H2') (is_baseb_sound _ _ H3')
              (templates_okb_sound _ _ H2) (is_baseb_sound _ _ H3))
    as (c1 & cfg1 & c2 & cfg2 & l1 & lfg1 & l2 & lfg2 & f1 & ffg1 & f2 & ffg2 & _ & _ & _ & _ & _ & Skl & _ & _ & Skf & Eq & _ & _).
  { intros _ x Hx. cbn in Hx. repeat destruct Hx as [<-|Hx]; try contradiction; split; eexists; vm_compute; reflexivity. }
  exists l2, f2. split; [exact Skl|]. split; [exact Skf|].
  assert (I : forall x, In x [11; 10; 15; 12; 13; 14] -> In x (flat exC)) by (intros x Hx; exact Hx).
  assert (PF : phi exC 11 = 0 /\ phi exC 10 = 1 /\ phi exC 12 = 3 /\ phi exC 13 = 4) by (vm_compute; auto).
  assert (PL : phi (perm_cut exC exC') 11 = 3 /\ phi (perm_cut exC exC') 10 = 4 /\ phi (perm_cut exC exC') 12 = 2 /\ phi (perm_cut exC exC') 13 = 0) by (vm_compute; auto).
  destruct PF as (F11 & F10 & F12 & F13). destruct PL as (L11 & L10 & L12 & L13).
  destruct (sk_edges _ _ _ Skf 12 13 ltac:(apply I; cbn; tauto) ltac:(apply I; cbn; tauto)) as (_ & O1 & _).
  destruct (sk_edges _ _ _ Skf 10 11 ltac:(apply I; cbn; tauto) ltac:(apply I; cbn; tauto)) as (B1 & _).
  destruct (sk_edges _ _ _ Skf 11 12 ltac:(apply I; cbn; tauto) ltac:(apply I; cbn; tauto)) as (B2 & _).
  destruct (sk_edges _ _ _ Skf 12 10 ltac:(apply I; cbn; tauto) ltac:(apply I; cbn; tauto)) as (B3 & _).
  destruct (Eq 12 13 ltac:(apply I; cbn; tauto) ltac:(apply I; cbn; tauto)) as (_ & Q1).
  destruct (Eq 10 11 ltac:(apply I; cbn; tauto) ltac:(apply I; cbn; tauto)) as (Q2 & _).
  destruct (Eq 11 12 ltac:(apply I; cbn; tauto) ltac:(apply I; cbn; tauto)) as (Q3 & _).
  destruct (Eq 12 10 ltac:(apply I; cbn; tauto) ltac:(apply I; cbn; tauto)) as (Q4 & _).
  rewrite ?F10, ?F11, ?F12, ?F13, ?L10, ?L11, ?L12, ?L13 in *.
  rewrite Q1, Q2, Q3, Q4, O1, B1, B2, B3. repeat split; reflexivity.
Qed.

(** ---------------------------------------------------------------- a whole first resolve() (LayeredStep) *)
From CGV Require Import Resolve.Pipeline Resolve.PipelineFull Compose.LayeredStep.

Example coarse_step_returned_executed :
  get_node_attributes (base_of exC') (S "atomname") = [] /\
  match resolve_step_full true false (fragdict_of exC') (base_of exC') None with
  | Ok fo => is_baseb (perm_cut exC exC') (next_meta (fo_mol fo)) = true /\
             skeletonb exC' false (fo_mol fo) = true /\ node_keys (fo_mol fo) = [0; 1; 2]
  | Err _ => False
  end.
Proof. vm_compute. auto. Qed.

Example compose_flat_returned_nonvacuous : forall aa : bool,
  exists fo l2 f2,
    resolve_step_full true false (fragdict_of exC') (base_of exC') None = Ok fo /\
    skeleton (perm_cut exC exC') aa l2 /\ skeleton exC aa f2 /\
    edge_get l2 2 0 (S "order") = edge_get f2 3 4 (S "order") /\ has_edge l2 4 3 = has_edge f2 1 0.
Proof.
  intros aa. destruct exC_hypotheses as (H1 & H2 & H3). destruct exC'_hypotheses as (H1' & H2' & H3' & _ & _).
  destruct (compose_flat_returned exC exC' (fragdict_of exC') (base_of exC') (fragdict_of exC) (base_of exC) aa None
              (wf_cutb_sound _ H1) (wf_cutb_sound _ H1') exC'_coarse (templates_okb_sound _ _ H2') (is_baseb_sound _ _ H3') eq_refl
              (templates_okb_sound _ _ H2) (is_baseb_sound _ _ H3))
    as (fo & l1 & lfg1 & l2 & lfg2 & f1 & ffg1 & f2 & ffg2 & Efo & _ & Skl & _ & _ & _ & Skf & Eq & _).
  { intros _ x Hx. cbn in Hx. repeat destruct Hx as [<-|Hx]; try contradiction; split; eexists; vm_compute; reflexivity. }
  exists fo, l2, f2. split; [exact Efo|]. split; [exact Skl|]. split; [exact Skf|].
  assert (I : forall x, In x [11; 10; 15; 12; 13; 14] -> In x (flat exC)) by (intros x Hx; exact Hx).
  assert (PF : phi exC 11 = 0 /\ phi exC 10 = 1 /\ phi exC 12 = 3 /\ phi exC 13 = 4) by (vm_compute; auto).
  assert (PL : phi (perm_cut exC exC') 11 = 3 /\ phi (perm_cut exC exC') 10 = 4 /\ phi (perm_cut exC exC') 12 = 2 /\ phi (perm_cut exC exC') 13 = 0) by (vm_compute; auto).
  destruct PF as (F11 & F10 & F12 & F13). destruct PL as (L11 & L10 & L12 & L13).
  destruct (Eq 12 13 ltac:(apply I; cbn; tauto) ltac:(apply I; cbn; tauto)) as (_ & Q1).
  destruct (Eq 10 11 ltac:(apply I; cbn; tauto) ltac:(apply I; cbn; tauto)) as (Q2 & _).
  rewrite ?F10, ?F11, ?F12, ?F13, ?L10, ?L11, ?L12, ?L13 in *. split; assumption.
Qed.
