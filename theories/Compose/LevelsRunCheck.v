(** LevelsRunCheck: per-run tie of the hypotheses and conclusions of [compose_levels] / [compose_levels_all_atom]
    (Compose/Levels.v) to the IMPLEMENTATION (executable, NO proofs; imports models, definitions and executable tests only).
    One record per generated hierarchy: the cuts U (top), Cs (going down), C0 (bottom, all-atom; absent when the last level
    is coarse) as the generator grouped the molecule, the fragment dictionaries exactly as read_fragments returned them (one
    per level), the base graph exactly as read_cgsmiles returned it, the fine graph every coarse resolve() of the
    implementation returned, and - all-atom last level - the implementation's fine graph right after
    edges_from_bonding_descrpt.
    [lrun_fail] decides on the implementation's own graphs: every level's dictionary holds the templates of that level's
    cut (131), the base graph is a base of the top cut (132), every coarse level returned the skeleton of its cut in the
    numbering the levels above induce, without duplicate neighbours (133), the bonded all-atom graph is the skeleton of
    the bottom cut in that numbering (134).  Not judged (0) when the generator's record is not a well-formed chain of
    cuts ([lrun_judged]: a harness matter).  [lrun_corr] runs the driver machine of C06 on the end-to-end step over the
    same dictionaries and base graph and compares every coarse level's returned graph with the implementation's.
    Compose/LevelsRunSound.v proves what verdict 0 means. *)
From Coq Require Import String.
From Coq Require Import List Ascii ZArith Bool.
From CGV Require Import Base.PyBase Base.PyVal Base.NxGraph Resolve.Bonding Resolve.GraphOps Resolve.PipelineFull Resolve.Drivers Resolve.DriversCheck.
From CGV Require Import Compose.CutModel Compose.CutSpecDefs.
Import ListNotations.
Open Scope Z_scope.

Definition adj_nodupb (g : graph) : bool := forallb (fun n => nodupzb (map fst (nadj n))) g.

(** copies of part_name / perm_cut / effs / next_meta of ComposeFlat.v and Levels.v (proof files; equal by reflexivity,
    LevelsRunSound.v) *)
Definition l_part_name (C : cut) (p : nat) : pystr := fst (nth p (c_parts C) ([], [])).
Definition l_perm_cut (C C' : cut) : cut :=
  {| c_atoms := c_atoms C; c_bonds := c_bonds C;
     c_parts := map (fun z => nth (Z.to_nat z) (c_parts C) ([], [])) (flat C'); c_dord := c_dord C |}.
Fixpoint l_effs (E : cut) (Cs : list cut) : list cut :=
  match Cs with [] => [] | C :: r => l_perm_cut C E :: l_effs (l_perm_cut C E) r end.
Definition l_next_meta (m : graph) : graph := set_nodes_from m (S "fragname") (get_node_attributes m (S "atomname")).

(** C' is a cut over the parts of C (ComposeFlat.coarse_of), given that C' is well formed *)
Definition coarse_ofb (C C' : cut) : bool :=
  let P := length (c_parts C) in
  Nat.eqb (length (flat C')) P
  && forallb (fun z => (0 <=? z) && (z <? Z.of_nat P)) (flat C')
  && forallb (fun p => oeqb (aget (S "atomname") (payload C' (Z.of_nat p))) (Some (VStr (l_part_name C p)))
                       && match aget (S "aromatic") (payload C' (Z.of_nat p)) with None => true | Some _ => false end) (seq 0 P)
  && forallb (fun b => (0 <=? cb_u b) && (0 <=? cb_v b)
                       && oeqb (Some (cb_ord b)) (Some (VInt (Z.of_nat (length (cutpairs C (Z.to_nat (cb_u b)) (Z.to_nat (cb_v b))))))))
             (c_bonds C')
  && forallb (fun b => existsb (fun b' => joins b' (Z.of_nat (owner C (cb_u b))) (Z.of_nat (owner C (cb_v b)))) (c_bonds C')) (cuts C).
Fixpoint raw_chainb (U : cut) (Cs : list cut) : bool :=
  match Cs with [] => true | C :: r => wf_cutb C && coarse_ofb C U && raw_chainb C r end.
Fixpoint forall2b {A B} (f : A -> B -> bool) (l : list A) (l' : list B) : bool :=
  match l, l' with [], [] => true | x :: r, y :: r' => f x y && forall2b f r r' | _, _ => false end.

Record lrun_case := {
  lr_U : cut; lr_Cs : list cut; lr_C0 : option cut;
  lr_fds : list fragdict;        (* resolver.fragment_dicts *)
  lr_base : graph;               (* the graph read_cgsmiles returned *)
  lr_outs : list graph;          (* the fine graph each coarse resolve() returned (a prefix when one raised) *)
  lr_m2 : option graph }.        (* all-atom last level: self.molecule right after edges_from_bonding_descrpt *)

Definition lr_laa (r : lrun_case) : bool := match lr_C0 r with Some _ => true | None => false end.
Definition lrun_judged (r : lrun_case) : bool :=
  wf_cutb (lr_U r) && raw_chainb (lr_U r) (lr_Cs r)
  && match lr_C0 r with Some C0 => wf_cutb C0 && coarse_ofb C0 (last (lr_Cs r) (lr_U r)) | None => true end
  && Nat.eqb (length (lr_fds r)) (Datatypes.S (length (lr_Cs r)) + (if lr_laa r then 1 else 0)).

Definition templates_all (r : lrun_case) : bool :=
  match lr_fds r with
  | [] => false
  | fdU :: rest =>
      templates_okb (lr_U r) fdU && forall2b templates_okb (lr_Cs r) (firstn (length (lr_Cs r)) rest)
      && match lr_C0 r with
         | None => true
         | Some C0 => match nth_error rest (length (lr_Cs r)) with Some fd => templates_okb C0 fd && aa_payloadb C0 | None => false end
         end
  end.
Definition levels_okb (r : lrun_case) : bool :=
  forallb (fun Eg => skeletonb (fst Eg) false (snd Eg) && adj_nodupb (snd Eg)) (combine (lr_U r :: l_effs (lr_U r) (lr_Cs r)) (lr_outs r)).
Definition bottom_okb (r : lrun_case) : bool :=
  match lr_C0 r, lr_m2 r with
  | Some C0, Some g => skeletonb (l_perm_cut C0 (last (l_effs (lr_U r) (lr_Cs r)) (lr_U r))) true g
  | _, _ => true
  end.

Definition lrun_fail (r : lrun_case) : nat :=
  if negb (lrun_judged r) then 0%nat
  else if negb (templates_all r) then 131%nat
  else if negb (is_baseb (lr_U r) (l_next_meta (lr_base r))) then 132%nat
  else if negb (levels_okb r) then 133%nat
  else if negb (bottom_okb r) then 134%nat
  else 0%nat.

(** the driver machine on the end-to-end step, coarse levels only (the all-atom level needs the aromaticity transcript) *)
Definition lrun_model (r : lrun_case) : res (rstate level amol * list (amol * amol)) :=
  resolve_n level amol (driver_step true) (Datatypes.S (length (lr_Cs r)))
            (fresh level amol (lr_base r, []) (map (fun fd => (fd, None)) (lr_fds r)) (lr_laa r)).
Definition lrun_corr (r : lrun_case) : bool :=
  if negb (Nat.eqb (length (lr_outs r)) (Datatypes.S (length (lr_Cs r)))) then true     (* a level raised: reported by 105 *)
  else match lrun_model r with
       | Ok (_, outs) => forall2b (fun (o : amol * amol) g => graph_eqb (fst (snd o)) g) outs (lr_outs r)
       | Err _ => false
       end.

(** the C06 case: the driver record of Resolve/DriversCheck.v and, when the generator recorded the hierarchy, the
    graph-level record *)
Definition c06x_case := (c06case * option lrun_case)%type.
Definition c06x_corr (c : c06x_case) : bool :=
  c06_corr (fst c) && match snd c with Some r => lrun_corr r | None => true end.
Definition c06x_fail (c : c06x_case) : nat :=
  match c06_fail (fst c) with
  | 0%nat => match snd c with Some r => lrun_fail r | None => 0%nat end
  | n => n
  end.
