(** LevelsExamples: non-vacuity of [compose_levels]: three levels.  The groups G1 = [D; B], G0 = [A] of FlatExamples are
    themselves grouped into two top blocks T1 = [G0], T0 = [G1] (the one coarse bond between G1 and G0 becomes a top-level
    descriptor pair of order 1).  The hierarchy satisfies the hypotheses, the driver machine returns at the three levels,
    and the run is executed. *)
From Coq Require Import String.
From Coq Require Import List Ascii ZArith Bool Lia Permutation.
From CGV Require Import Base.PyBase Base.PyVal Base.NxGraph Resolve.Bonding Resolve.GraphOps Resolve.Pipeline Resolve.PipelineFull Resolve.Drivers.
From CGV Require Import Compose.CutModel Compose.CutPos Compose.CutSpecCheck Compose.CutSkeleton Compose.CutExamples Compose.ComposeFlat
     Compose.FlatExamples Compose.Levels.
Import ListNotations.
Open Scope Z_scope.

Definition exC'' : cut := {|
  c_atoms := [(0, part_atom "G1"); (1, part_atom "G0")];
  c_bonds := [ {| cb_u := 0; cb_v := 1; cb_ord := VInt 1; cb_lab := S "y"; cb_dollar := true |} ];
  c_parts := [(S "T1", [1]); (S "T0", [0])]; c_dord := [] |}.

Example exC''_coarse : coarse_of exC' exC''.
Proof.
  constructor.
  - change (flat exC'') with (rev [0; 1]). apply Permutation_sym, Permutation_rev.
  - intros p Hp. cbn in Hp. destruct p as [|[|p]]; try lia; split; reflexivity.
  - intros b Hb. cbn in Hb. destruct Hb as [<-|[]]. exists 0%nat, 1%nat. repeat split; vm_compute; reflexivity.
  - intros b Hb. vm_compute in Hb. destruct Hb as [<-|[]]. exists (nth 0 (c_bonds exC'') (Build_cbond 0 0 VNone [] true)).
    split; [cbn; auto|vm_compute; reflexivity].
Qed.

Example exC''_hypotheses :
  wf_cutb exC'' = true /\ templates_okb exC'' (fragdict_of exC'') = true /\ is_baseb exC'' (next_meta (base_of exC'')) = true.
Proof. vm_compute. auto. Qed.

Definition ex_levels : list level := [(fragdict_of exC'', None); (fragdict_of exC', None); (fragdict_of exC, None)].

Example compose_levels_nonvacuous :
  exists st' outs,
    resolve_iter level amol dstep (fresh level amol (base_of exC'', []) ex_levels false) = Ok (st', outs) /\
    length outs = 3%nat /\ skeleton (last_eff exC'' [exC'; exC]) false (fst (molecule st')).
Proof.
  destruct exC_hypotheses as (H1 & H2 & H3). destruct exC'_hypotheses as (H1' & H2' & H3' & _ & _). destruct exC''_hypotheses as (H1'' & H2'' & H3'').
  destruct (compose_levels exC'' [exC'; exC] (fragdict_of exC'', None) [(fragdict_of exC', None); (fragdict_of exC, None)] (base_of exC'') [])
    as (st' & outs & E & L & _ & _ & Sk & _).
  - exact (wf_cutb_sound _ H1'').
  - exact (templates_okb_sound _ _ H2'').
  - exact (is_baseb_sound _ _ H3'').
  - cbn. split; [exact (wf_cutb_sound _ H1')|]. split; [exact exC''_coarse|]. split; [exact (wf_cutb_sound _ H1)|]. split; [exact exC'_coarse|exact I].
  - constructor; [exact (templates_okb_sound _ _ H2')|constructor; [exact (templates_okb_sound _ _ H2)|constructor]].
  - exists st', outs. auto.
Qed.

(** the run, executed: three returned fine graphs with 2, 3 and 6 nodes; the last one passes the executable skeleton
    test of the bottom cut in the numbering of the hierarchy, and the double bond 12=13 is back *)
Example compose_levels_executed :
  match resolve_iter level amol dstep (fresh level amol (base_of exC'', []) ex_levels false) with
  | Ok (st', outs) =>
      map (fun o : amol * amol => length (fst (snd o))) outs = [2; 3; 6]%nat /\
      skeletonb (last_eff exC'' [exC'; exC]) false (fst (molecule st')) = true /\
      flat (last_eff exC'' [exC'; exC]) = [11; 10; 15; 13; 14; 12] /\
      edge_get (fst (molecule st')) 5 3 (S "order") = Some (VInt 2)
  | Err _ => False
  end.
Proof. vm_compute. auto. Qed.
