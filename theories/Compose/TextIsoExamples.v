(** TextIsoExamples: non-vacuity of Compose/TextIso.v.  Ethyl acetate written twice:

      s1 = {[#A][#B][#C]}.{#A=O=C(C)[$a],#B=[$a]O[>b],#C=[<b]CC}      three fragments, acid part written from the carbonyl O
      s2 = {[#Y][#X]}.{#X=CC(=O)O[$z],#Y=[$z]CC}                      two fragments, another cut placement, label and kind, the ethyl
                                                                      fragment listed first in the base graph
    Both descriptions pass the tests of [written]; the two cuts are [same_mol]; the theorem applies; and both resolve()
    calls of the model return (identity aromaticity transcript) with the explicit map preserving adjacency, orders and
    elements of the RETURNED molecules (14 atoms). *)
From Coq Require Import String.
From Coq Require Import List Ascii ZArith Bool Lia.
From CGV Require Import Base.PyBase Base.PyVal Base.NxGraph Dialect.DialectImpl.
From CGV Require Import Frag.NDict Frag.StripImpl Frag.FragText.
From CGV Require Reader.Grammar.
From CGV Require Import Resolve.Bonding Resolve.GraphOps Resolve.Pipeline Resolve.PipelineFull Resolve.CopyProofs Resolve.BondingCheck.
From CGV Require Import Compose.CutModel Compose.CutPos Compose.CutSpecDefs Compose.CutSpecCheck Compose.ComposeFlat Compose.OrderIndep
     Compose.CutIso Compose.CutIsoCar Compose.Transcript Compose.ReturnedIso Compose.AnyCut Compose.TextCut Compose.TextCutExamples Compose.TextIso.
From CGV Require Resolve.MapDefs.
Import ListNotations.
Open Scope Z_scope.

Definition ea_cut2 : cut :=
  {| c_atoms := [(10, at_ "C" 3); (11, at_ "C" 0); (12, at_ "O" 0); (13, at_ "O" 1); (14, at_ "C" 3); (15, at_ "C" 3)];
     (* the same bonds; the one cut bond of this description is written with another label and kind ([$z] for [>b] [<b]) *)
     c_bonds := [ {| cb_u := 10; cb_v := 11; cb_ord := VInt 1; cb_lab := []; cb_dollar := true |};
                  {| cb_u := 11; cb_v := 12; cb_ord := VInt 2; cb_lab := []; cb_dollar := true |};
                  {| cb_u := 11; cb_v := 13; cb_ord := VInt 1; cb_lab := []; cb_dollar := true |};
                  {| cb_u := 13; cb_v := 14; cb_ord := VInt 1; cb_lab := S "z"; cb_dollar := true |};
                  {| cb_u := 14; cb_v := 15; cb_ord := VInt 1; cb_lab := []; cb_dollar := true |} ];
     c_parts := [(S "Y", [14; 15]); (S "X", [10; 11; 12; 13])];
     c_dord := [] |}.
Definition ea_defs2 : list fdef :=
  [ {| fd_name := S "X";
       fd_toks := [TAtom (S "C"); TAtom (S "C"); TOpen; TBond BDouble; TAtom (S "O"); TClose; TAtom (S "O")];
       fd_dc := {| d_lead := []; d_after := [[]; []; []; []; []; []; [dsc "$" "z"]] |} |};
    {| fd_name := S "Y"; fd_toks := [TAtom (S "C"); TAtom (S "C")]; fd_dc := {| d_lead := [dsc "$" "z"]; d_after := [[]; []] |} |} ].
Definition ea_base2 : Grammar.chain := [nd "Y"; nd "X"].
Definition ea_string2 : pystr := cut_string ea_base2 ea_defs2.

Example ea_string2_text : to_string ea_string2 = "{[#Y][#X]}.{#X=CC(=O)O[$z],#Y=[$z]CC}"%string.
Proof. vm_compute. reflexivity. Qed.

Example ea_two_descriptions :
  wf_cutb ea_cut = true /\ wf_cutb ea_cut2 = true /\ same_molb ea_cut ea_cut2 = true /\
  all_atom_payloadb ea_cut = true /\ all_atom_payloadb ea_cut2 = true /\
  writtenb fo0 ea_cut ea_base ea_defs = true /\ writtenb fo0 ea_cut2 ea_base2 ea_defs2 = true.
Proof. repeat split; vm_compute; reflexivity. Qed.

(** the theorem applies to the two strings *)
Example ea_text_returned_iso :
  exists st1 fd1 st2 fd2,
    from_text fo0 ea_string = Ok st1 /\ st_dicts st1 = [fd1] /\ from_text fo0 ea_string2 = Ok st2 /\ st_dicts st2 = [fd2] /\
    forall car1 car2 fo1 fo2 ms1 ms2,
      resolve_step_full (st_legacy st1) (is_all_atom st1) fd1 (st_mol st1) (Some car1) = Ok fo1 ->
      resolve_step_full (st_legacy st2) (is_all_atom st2) fd2 (st_mol st2) (Some car2) = Ok fo2 ->
      transcript_ok (fo_m3 fo1) car1 -> transcript_ok (fo_m3 fo2) car2 -> corr_orders ea_cut ea_cut2 car1 car2 ->
      sort_mapping (fo_m4 fo1) = Ok ms1 -> sort_mapping (fo_m4 fo2) = Ok ms2 ->
      returned_iso_car after_sort_key ea_cut ea_cut2 car1 (fo_m4 fo1) car2 (fo_m4 fo2) (fo_mol fo1) (fo_mol fo2) ms1 ms2.
Proof.
  destruct ea_two_descriptions as (W1 & W2 & SM & P1 & P2 & R1 & R2).
  destruct (writtenb_sound _ _ _ _ R1) as [B1 Wr1]. destruct (writtenb_sound _ _ _ _ R2) as [B2 Wr2].
  exact (text_returned_iso fo0 ea_cut ea_cut2 ea_base ea_defs B1 ea_base2 ea_defs2 B2 (wf_cutb_sound _ W1) (wf_cutb_sound _ W2)
           (same_molb_sound _ _ SM) (all_atom_payloadb_sound _ P1) (all_atom_payloadb_sound _ P2) Wr1 Wr2).
Qed.

(** without any hypothesis between the runs (identity transcripts; every cut bond is re-created with its own order) *)
Example ea_text_returned_iso_id :
  faithfulb ea_cut = true /\ faithfulb ea_cut2 = true /\
  exists st1 fd1 st2 fd2,
    from_text fo0 ea_string = Ok st1 /\ st_dicts st1 = [fd1] /\ from_text fo0 ea_string2 = Ok st2 /\ st_dicts st2 = [fd2] /\
    forall fo1 fo2 ms1 ms2,
      resolve_step_full (st_legacy st1) (is_all_atom st1) fd1 (st_mol st1) (Some (fo_m3 fo1)) = Ok fo1 ->
      resolve_step_full (st_legacy st2) (is_all_atom st2) fd2 (st_mol st2) (Some (fo_m3 fo2)) = Ok fo2 ->
      sort_mapping (fo_m4 fo1) = Ok ms1 -> sort_mapping (fo_m4 fo2) = Ok ms2 ->
      returned_iso_car after_sort_key ea_cut ea_cut2 (fo_m3 fo1) (fo_m4 fo1) (fo_m3 fo2) (fo_m4 fo2) (fo_mol fo1) (fo_mol fo2) ms1 ms2.
Proof.
  assert (F1 : faithfulb ea_cut = true) by (vm_compute; reflexivity). assert (F2 : faithfulb ea_cut2 = true) by (vm_compute; reflexivity).
  split; [exact F1|]. split; [exact F2|].
  destruct ea_two_descriptions as (W1 & W2 & SM & P1 & P2 & R1 & R2).
  destruct (writtenb_sound _ _ _ _ R1) as [B1 Wr1]. destruct (writtenb_sound _ _ _ _ R2) as [B2 Wr2].
  exact (text_returned_iso_id fo0 ea_cut ea_cut2 ea_base ea_defs B1 ea_base2 ea_defs2 B2 (wf_cutb_sound _ W1) (wf_cutb_sound _ W2)
           (same_molb_sound _ _ SM) (all_atom_payloadb_sound _ P1) (all_atom_payloadb_sound _ P2) (faithfulb_sound _ F1) (faithfulb_sound _ F2) Wr1 Wr2).
Qed.

(** ... and its premises are satisfiable: both whole steps return with the identity transcript, and the map works *)
Definition full_run (s : pystr) : option full_out :=
  match from_text fo0 s, run_string s with
  | Ok st, Ok m2 =>
      match st_dicts st with
      | [fd] => match resolve_step_full (st_legacy st) (is_all_atom st) fd (st_mol st) (Some m2) with Ok fo => Some fo | Err _ => None end
      | _ => None
      end
  | _, _ => None
  end.
Example ea_returned_iso_executed :
  match full_run ea_string, full_run ea_string2 with
  | Some fo1, Some fo2 =>
      graph_eqb (fo_m3 fo1) (fo_m2 fo1) = true /\ graph_eqb (fo_m3 fo2) (fo_m2 fo2) = true /\
      match sort_mapping (fo_m4 fo1), sort_mapping (fo_m4 fo2) with
      | Ok ms1, Ok ms2 =>
          let F := fun k => map_get ms2 (iso ea_cut ea_cut2 (fo_m3 fo1) (fo_m4 fo1) (fo_m3 fo2) (fo_m4 fo2) (inv_key (fo_m4 fo1) ms1 k)) in
          length (fo_mol fo1) = 14%nat /\
          forallb (fun k => forallb (fun l => Bool.eqb (has_edge (fo_mol fo2) (F k) (F l)) (has_edge (fo_mol fo1) k l)
                     && oeqb (edge_get (fo_mol fo2) (F k) (F l) (S "order")) (edge_get (fo_mol fo1) k l (S "order"))) (node_keys (fo_mol fo1))) (node_keys (fo_mol fo1)) = true /\
          forallb (fun k => oeqb (node_get (fo_mol fo2) (F k) (S "element")) (node_get (fo_mol fo1) k (S "element"))) (node_keys (fo_mol fo1)) = true /\
          MapDefs.same_set (map F (node_keys (fo_mol fo1))) (node_keys (fo_mol fo2)) = true /\
          (* the map is not the identity: O=C(C) | O | CC sit at 0,1,2 | 6 | 7,8 in the first molecule; in the second the ethyl
             carbons come first (0,1), then their five hydrogens, then C C O O at 7,8,9,10 *)
          map F [0; 1; 2; 6; 7; 8] = [9; 8; 7; 10; 0; 1]
      | _, _ => False
      end
  | _, _ => False
  end.
Proof. vm_compute. repeat split; reflexivity. Qed.
