(** HalfVal: the hydrogen-count arithmetic of edges_from_bonding_descrpt (GraphOps.dec_hcount) never raises on
    the values it produces itself: an int, or a float printed as <digits>.0 / <digits>.5. *)
From Coq Require Import String.
From Coq Require Import List Ascii ZArith Bool Lia.
From CGV Require Import Base.PyBase Base.PyVal Base.NxGraph Resolve.Bonding Resolve.GraphOps.
Import ListNotations.
Open Scope Z_scope.

Lemma digit_char_is_digit d : (d < 10)%nat -> is_digit (digit_char d) = true.
Proof. intros H. do 10 (destruct d as [|d]; [reflexivity|]). lia. Qed.
Lemma nat_digits_digits fuel : forall n acc, forallb is_digit acc = true -> forallb is_digit (nat_digits fuel n acc) = true.
Proof.
  induction fuel as [|f IH]; intros n acc H; cbn [nat_digits]; [exact H|].
  assert (forallb is_digit (digit_char (n mod 10) :: acc) = true) as H'.
  { cbn [forallb]. rewrite H, digit_char_is_digit; [reflexivity|]. apply Nat.mod_upper_bound. lia. }
  destruct (n <? 10)%nat; [exact H'|now apply IH].
Qed.
Lemma nat_digits_nonempty fuel : forall n acc, acc <> [] \/ fuel <> 0%nat -> nat_digits fuel n acc <> [].
Proof.
  induction fuel as [|f IH]; intros n acc H; cbn [nat_digits]; [destruct H; [assumption|congruence]|].
  destruct (n <? 10)%nat; [discriminate|]. apply IH. left. discriminate.
Qed.
Lemma str_of_nat_digits n : py_isdigit (str_of_nat n) = true.
Proof.
  unfold py_isdigit, str_of_nat. pose proof (nat_digits_nonempty (Datatypes.S n) n [] (or_intror (Nat.neq_succ_0 n))) as Hne.
  destruct (nat_digits (Datatypes.S n) n []) eqn:E; [congruence|]. rewrite <- E. unfold all_digits. now apply nat_digits_digits.
Qed.
Lemma digit_not_dot x : is_digit x = true -> Ascii.eqb x "."%char = false.
Proof. intros H. destruct (Ascii.eqb_spec x "."%char) as [->|]; [discriminate H|reflexivity]. Qed.
Lemma split_on_prefix c ds rest : forall cur, forallb (fun x => negb (Ascii.eqb x c)) ds = true ->
  split_on c (ds ++ c :: rest) cur = (rev cur ++ ds) :: split_on c rest [].
Proof.
  induction ds as [|x r IH]; intros cur H; cbn [app split_on].
  - rewrite Ascii.eqb_refl, app_nil_r. reflexivity.
  - cbn [forallb] in H. apply andb_true_iff in H as [H1 H2]. apply negb_true_iff in H1. rewrite H1, IH by exact H2.
    cbn [rev]. now rewrite <- app_assoc.
Qed.
Lemma parse_half_str q (odd : bool) : 0 <= q ->
  parse_half (str_of_Z q ++ (if odd then S ".5" else S ".0")) = Some (2 * digits_val 0 (str_of_Z q) + (if odd then 1 else 0)).
Proof.
  intros Hq. assert (str_of_Z q = str_of_nat (Z.to_nat q)) as -> by (destruct q; [reflexivity|reflexivity|lia]).
  pose proof (str_of_nat_digits (Z.to_nat q)) as Hd. set (ds := str_of_nat (Z.to_nat q)) in *.
  assert (forallb (fun x => negb (Ascii.eqb x "."%char)) ds = true) as Hnd.
  { unfold py_isdigit in Hd. destruct ds; [discriminate|]. unfold all_digits in Hd. rewrite forallb_forall in *.
    intros x Hx. now rewrite digit_not_dot by auto. }
  unfold parse_half, py_split. destruct odd.
  - change (S ".5") with ("."%char :: S "5"). rewrite split_on_prefix by exact Hnd. cbn [rev app]. change (split_on "." (S "5") []) with [S "5"].
    rewrite Hd. reflexivity.
  - change (S ".0") with ("."%char :: S "0"). rewrite split_on_prefix by exact Hnd. cbn [rev app]. change (split_on "." (S "0") []) with [S "0"].
    rewrite Hd. cbn. now rewrite Z.add_0_r.
Qed.

(** a value the hydrogen-count arithmetic accepts *)
Definition hval (v : pyval) : Prop := exists h f, half_of v = Ok (h, f).
Lemma hval_int z : hval (VInt z).
Proof. eexists. eexists. reflexivity. Qed.
Lemma half_to_val_hval h f : 0 < h -> hval (half_to_val h f).
Proof.
  intros H. unfold half_to_val. destruct f; [|apply hval_int]. unfold hval. cbn [half_of].
  assert (0 <= h / 2) as Hq by (apply Z.div_pos; lia).
  pose proof (parse_half_str (h / 2) (negb (Z.even h)) Hq) as P. destruct (Z.even h); cbn [negb] in P; rewrite P; eauto.
Qed.
Lemma dec_hcount_total ar v : hval v -> exists v', dec_hcount ar v = Ok v' /\ hval v'.
Proof.
  intros (h & f & E). unfold dec_hcount. rewrite E. cbn [bind].
  destruct ar.
  - destruct (Z.ltb_spec 0 (h - 3)); eexists; (split; [reflexivity|]); [now apply half_to_val_hval|apply hval_int].
  - destruct (Z.ltb_spec 0 (h - 2)); eexists; (split; [reflexivity|]); [now apply half_to_val_hval|apply hval_int].
Qed.
