(** CutWf: the fine graph described by [skeleton] is a well-formed simple graph (SquashDefs.wf_graph: distinct
    keys, closed, symmetric, loop-free), every key is the image of an atom, and its adjacency lists are M's
    neighbourhoods: the neighbours of [phi x] are exactly the [phi y] for the bonds x-y of M. *)
From Coq Require Import String.
From Coq Require Import List Ascii ZArith Bool Lia Permutation.
From CGV Require Import Base.PyBase Base.PyVal Base.NxGraph Resolve.Bonding Resolve.GraphOps Resolve.MapProofs Resolve.CopyProofs
     Hydro.GraphLemmas Hydro.SquashDefs.
From CGV Require Import Compose.GraphFacts Compose.GraphAdj Compose.CutModel Compose.CutPos Compose.CutTables Compose.CutDisc Compose.CutSkeleton.
Import ListNotations.
Open Scope Z_scope.

Section Wf.
  Variable C : cut.
  Hypothesis W : wf_cut C.
  Variable aa : bool.
  Variable m2 : graph.
  Hypothesis Sk : skeleton C aa m2.
  Let Hnd := wc_nodup C W.

  Lemma sk_onto k : has_node m2 k = true -> exists x, In x (flat C) /\ phi C x = k.
  Proof.
    intros Hk. apply gfind_has in Hk. rewrite (sk_keys _ _ _ Sk) in Hk. apply seq_nat_in in Hk.
    destruct (nth_error (flat C) (Z.to_nat k)) as [x|] eqn:E; [|apply nth_error_None in E; lia].
    exists x. split; [eapply nth_error_In; eauto|]. unfold phi. rewrite (index_in_nth _ _ _ Hnd E). lia.
  Qed.
  Lemma sk_node x : In x (flat C) -> has_node m2 (phi C x) = true.
  Proof. intros Hx. apply gfind_has. rewrite (sk_keys _ _ _ Sk). apply seq_nat_in. apply phi_range. exact Hx. Qed.

  Lemma find_bond_sym x y : find_bond C x y = find_bond C y x.
  Proof. unfold find_bond. induction (c_bonds C) as [|b r IH]; cbn; [reflexivity|]. rewrite (joins_sym b x y), IH. reflexivity. Qed.
  Lemma bonded_sym x y : bonded C x y = bonded C y x.
  Proof. unfold bonded. now rewrite find_bond_sym. Qed.
  Lemma bonded_irrefl x : bonded C x x = false.
  Proof.
    unfold bonded. destruct (find_bond C x x) as [b|] eqn:E; [|reflexivity]. apply find_some in E as [Hb J].
    apply joins_true in J. destruct (wc_ends C W b Hb) as (_ & _ & N). exfalso. apply N. destruct J as [[-> ->]|[-> ->]]; reflexivity.
  Qed.

  Theorem cut_skeleton_wf : wf_graph m2.
  Proof.
    constructor.
    - rewrite (sk_keys _ _ _ Sk). apply seq_nat_nodup.
    - intros y x H. now destruct (sk_closed _ _ _ Sk y x H).
    - intros y x.
      assert (forall a b, has_edge m2 a b = true -> has_edge m2 b a = true) as Hs.
      { intros a b H. destruct (sk_closed _ _ _ Sk a b H) as [Ha Hb]. destruct (sk_onto a Ha) as (xa & Fa & <-). destruct (sk_onto b Hb) as (xb & Fb & <-).
        destruct (sk_edges _ _ _ Sk xa xb Fa Fb) as (E1 & _). destruct (sk_edges _ _ _ Sk xb xa Fb Fa) as (E2 & _). rewrite E2, bonded_sym, <- E1. exact H. }
      destruct (has_edge m2 y x) eqn:A, (has_edge m2 x y) eqn:B'; try reflexivity; [apply Hs in A|apply Hs in B']; congruence.
    - intros y. destruct (has_edge m2 y y) eqn:H; [|reflexivity]. destruct (sk_closed _ _ _ Sk y y H) as [Hy _].
      destruct (sk_onto y Hy) as (x & Fx & <-). destruct (sk_edges _ _ _ Sk x x Fx Fx) as (E & _). rewrite E, bonded_irrefl in H. discriminate.
  Qed.

  (** the bonds of M at atom x, and the atom at the other end *)
  Definition touches (x : Z) (b : cbond) : bool := Z.eqb (cb_u b) x || Z.eqb (cb_v b) x.
  Definition inc (x : Z) : list cbond := filter (touches x) (c_bonds C).
  Definition other (x : Z) (b : cbond) : Z := if Z.eqb (cb_u b) x then cb_v b else cb_u b.

  Lemma inc_joins x b : In b (inc x) <-> In b (c_bonds C) /\ joins b x (other x b) = true.
  Proof.
    unfold inc, touches, other. rewrite filter_In. split; intros [Hb H]; split; auto.
    - apply joins_true. destruct (Z.eqb_spec (cb_u b) x); [auto|]. cbn in H. apply Z.eqb_eq in H. auto.
    - apply joins_true in H. apply orb_true_iff. destruct (Z.eqb_spec (cb_u b) x); [auto|]. destruct H as [[A _]|[_ A]]; [congruence|right; now apply Z.eqb_eq].
  Qed.
  Lemma find_bond_spec x y b : find_bond C x y = Some b <-> In b (c_bonds C) /\ joins b x y = true.
  Proof.
    split; [intros H; now apply find_some in H|]. intros [Hb J]. destruct (find_bond C x y) as [b'|] eqn:E.
    - apply find_some in E as [Hb' J']. f_equal. apply (bonds_simple C W b' b Hb' Hb). apply joins_true in J. apply joins_true in J'. unfold same_ends.
      destruct J as [[A1 A2]|[A1 A2]], J' as [[A1' A2']|[A1' A2']]; [left|right|right|left]; split; congruence.
    - unfold find_bond in E. pose proof (find_none _ _ E b Hb) as X. cbn in X. congruence.
  Qed.
  Lemma other_in_flat x b : In b (inc x) -> In (other x b) (flat C).
  Proof. intros H. apply inc_joins in H as [Hb _]. destruct (wc_ends C W b Hb) as (A & B' & _). unfold other. destruct (Z.eqb (cb_u b) x); assumption. Qed.

  (** neighbours of phi x in the fine graph = the other ends of M's bonds at x *)
  Lemma neighbours_spec x k : In x (flat C) -> (has_edge m2 (phi C x) k = true <-> exists b, In b (inc x) /\ k = phi C (other x b)).
  Proof.
    intros Hx. split.
    - intros H. destruct (sk_closed _ _ _ Sk _ _ H) as [_ Hk]. destruct (sk_onto k Hk) as (y & Fy & <-).
      destruct (sk_edges _ _ _ Sk x y Hx Fy) as (E & _). rewrite E in H. unfold bonded in H. destruct (find_bond C x y) as [b|] eqn:Eb; [|discriminate].
      apply find_bond_spec in Eb as [Hb J]. exists b.
      assert (other x b = y) as Eo. { unfold other. apply joins_true in J. destruct (Z.eqb_spec (cb_u b) x); destruct J as [[A1 A2]|[A1 A2]]; congruence. }
      split; [apply inc_joins; split; [exact Hb|now rewrite Eo]|now rewrite Eo].
    - intros (b & Hb & ->). pose proof (other_in_flat x b Hb) as Fy. apply inc_joins in Hb as [Hb J].
      destruct (sk_edges _ _ _ Sk x (other x b) Hx Fy) as (E & _). rewrite E. unfold bonded.
      now rewrite (proj2 (find_bond_spec x (other x b) b) (conj Hb J)).
  Qed.

  Hypothesis Adj : adj_nodup m2.

  (** the adjacency list of phi x: a duplicate-free list of the fine keys of M's neighbours of x *)
  Theorem adjacency_spec x n : In x (flat C) -> gfind (phi C x) m2 = Some n ->
    Permutation (map fst (nadj n)) (map (fun b => phi C (other x b)) (inc x)) /\
    forall k d, In (k, d) (nadj n) -> exists b, In b (inc x) /\ k = phi C (other x b) /\
                  aget (S "order") d = result_order C x (other x b).
  Proof.
    intros Hx G. pose proof (gfind_In _ _ _ G) as Hin. pose proof (gfind_key _ _ _ G) as Hk.
    pose proof (wf_nodup _ cut_skeleton_wf) as Hn.
    assert (forall k, In k (map fst (nadj n)) <-> has_edge m2 (phi C x) k = true) as Hadj.
    { intros k. rewrite has_edge_attrs. split.
      - intros H. apply in_map_iff in H as ([k' d] & <- & Hd). cbn [fst]. apply (adj_edge_attrs m2 n k' d Hn Adj Hin) in Hd. rewrite Hk in Hd. now rewrite Hd.
      - intros H. destruct (edge_attrs m2 (phi C x) k) as [d|] eqn:E; [|discriminate]. rewrite <- Hk in E.
        apply (adj_edge_attrs m2 n k d Hn Adj Hin) in E. apply in_map_iff. exists (k, d). auto. }
    split.
    - apply NoDup_Permutation; [exact (Adj n Hin)| |].
      +
        assert (forall l, (forall b, In b l -> In b (inc x)) -> NoDup l -> NoDup (map (fun b => phi C (other x b)) l)) as X.
        { induction l as [|b r IH]; intros Hs Hl; cbn; [constructor|]. inversion Hl as [|? ? Hb Hr]; subst. constructor; [|apply IH; [intros; apply Hs; now right|exact Hr]].
          intros Y. apply in_map_iff in Y as (b' & E & Hb'). apply Hb.
          assert (In b (inc x)) as I1 by (apply Hs; now left). assert (In b' (inc x)) as I2 by (apply Hs; now right).
          apply (phi_inj C) in E; [|now apply other_in_flat|now apply other_in_flat].
          apply inc_joins in I1 as [B1 J1]. apply inc_joins in I2 as [B2 J2]. rewrite E in J2.
          pose proof (proj2 (find_bond_spec _ _ _) (conj B1 J1)) as F1. pose proof (proj2 (find_bond_spec _ _ _) (conj B2 J2)) as F2.
          rewrite F1 in F2. inversion F2; subst. exact Hb'. }
        apply X; [auto|]. unfold inc. apply NoDup_filter. exact (bonds_nodup C W).
      + intros k. rewrite Hadj, (neighbours_spec x k Hx). rewrite in_map_iff. split; [intros (b & Hb & ->); eauto|intros (b & <- & Hb); eauto].
    - intros k d Hd. assert (In k (map fst (nadj n))) as Hk' by (apply in_map_iff; exists (k, d); auto).
      apply Hadj, (neighbours_spec x k Hx) in Hk' as (b & Hb & ->). exists b. split; [exact Hb|]. split; [reflexivity|].
      apply (adj_edge_attrs m2 n _ d Hn Adj Hin) in Hd. rewrite Hk in Hd.
      destruct (sk_edges _ _ _ Sk x (other x b) Hx (other_in_flat x b Hb)) as (_ & O & _). unfold edge_get in O. now rewrite Hd in O.
  Qed.
End Wf.
