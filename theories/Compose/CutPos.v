(** CutPos: positions in a cut — the fine key [phi] of an atom is offset(part) + index, the owner of an
    atom is its part, [phi] is a bijection from the atoms onto 0..N-1. *)
From Coq Require Import String.
From Coq Require Import List Ascii ZArith Bool Lia.
From CGV Require Import Base.PyBase Base.PyVal Base.NxGraph Compose.CutModel.
Import ListNotations.
Open Scope Z_scope.

Lemma zmem_In x l : zmem x l = true <-> In x l.
Proof.
  unfold zmem. rewrite existsb_exists. split; [intros (y & Hy & E); apply Z.eqb_eq in E; now subst|].
  intros H. exists x. split; [exact H|apply Z.eqb_refl].
Qed.
Lemma zmem_false x l : zmem x l = false <-> ~ In x l.
Proof. rewrite <- zmem_In. destruct (zmem x l); split; congruence. Qed.

Lemma NoDup_app_inv {A} (a b : list A) : NoDup (a ++ b) -> NoDup a /\ NoDup b /\ forall x, In x a -> ~ In x b.
Proof.
  induction a as [|y r IH]; cbn; intros H; [repeat split; [constructor|exact H|tauto]|].
  inversion H as [|? ? Hy Hr]; subst. destruct (IH Hr) as (A1 & A2 & A3). split; [|split; [exact A2|]].
  - constructor; [|exact A1]. intros X. apply Hy. apply in_or_app. now left.
  - intros x [->|Hx] Hb; [apply Hy; apply in_or_app; now right|exact (A3 x Hx Hb)].
Qed.

Lemma index_in_app x a b : index_in x (a ++ b) = if zmem x a then index_in x a else (length a + index_in x b)%nat.
Proof.
  induction a as [|y r IH]; cbn; [reflexivity|]. unfold zmem in *. cbn [existsb].
  destruct (Z.eqb_spec x y) as [->|N]; cbn; [reflexivity|]. rewrite IH. destruct (existsb (Z.eqb x) r); reflexivity.
Qed.
Lemma index_in_nth l : forall i x, NoDup l -> nth_error l i = Some x -> index_in x l = i.
Proof.
  induction l as [|y r IH]; intros [|i] x Hn H; cbn in *; try discriminate.
  - inversion H; subst. now rewrite Z.eqb_refl.
  - inversion Hn; subst. destruct (Z.eqb_spec x y) as [->|N].
    + exfalso. apply H2. eapply nth_error_In; eauto.
    + f_equal. now apply IH.
Qed.
Lemma nth_index_in l x : In x l -> nth_error l (index_in x l) = Some x.
Proof.
  induction l as [|y r IH]; cbn; [tauto|]. destruct (Z.eqb_spec x y) as [->|N]; [reflexivity|].
  intros [E|H]; [congruence|now apply IH].
Qed.
Lemma index_in_lt l x : In x l -> (index_in x l < length l)%nat.
Proof. intros H. apply nth_error_Some. rewrite (nth_index_in l x H). discriminate. Qed.
Lemma index_in_inj l x y : In x l -> In y l -> index_in x l = index_in y l -> x = y.
Proof. intros Hx Hy E. pose proof (nth_index_in l x Hx) as A. rewrite E, (nth_index_in l y Hy) in A. congruence. Qed.

Lemma owner_in_app x pre r : (forall q, In q pre -> ~ In x (snd q)) ->
  owner_in x (pre ++ r) = (length pre + owner_in x r)%nat.
Proof.
  induction pre as [|q pre IH]; intros H; [reflexivity|]. cbn [app owner_in length].
  assert (zmem x (snd q) = false) as -> by (apply zmem_false, H; now left). cbn.
  f_equal. apply IH. intros q' Hq'. apply H. now right.
Qed.

Section Pos.
  Variable C : cut.
  Hypothesis Hnd : NoDup (flat C).

  Lemma parts_split p name xs : nth_error (c_parts C) p = Some (name, xs) ->
    exists pre post, c_parts C = pre ++ (name, xs) :: post /\ length pre = p /\ firstn p (c_parts C) = pre /\
      flat C = concat (map snd pre) ++ xs ++ concat (map snd post).
  Proof.
    intros H. destruct (nth_error_split _ _ H) as (pre & post & E & L). exists pre, post.
    split; [exact E|]. split; [exact L|]. split.
    - rewrite E, <- L, firstn_app, Nat.sub_diag, firstn_all. cbn. now rewrite app_nil_r.
    - unfold flat. rewrite E, map_app, concat_app. reflexivity.
  Qed.

  Lemma off_S p name xs : nth_error (c_parts C) p = Some (name, xs) -> off C (Datatypes.S p) = (off C p + length xs)%nat.
  Proof.
    intros H. destruct (parts_split p name xs H) as (pre & post & E & L & F & _). unfold off. rewrite F.
    assert (firstn (Datatypes.S p) (c_parts C) = pre ++ [(name, xs)]) as ->.
    { rewrite E, <- L. replace (Datatypes.S (length pre)) with (length pre + 1)%nat by lia.
      rewrite firstn_app_2. reflexivity. }
    rewrite map_app, concat_app, app_length. cbn. now rewrite app_nil_r.
  Qed.

  Lemma phi_part p name xs i x : nth_error (c_parts C) p = Some (name, xs) -> nth_error xs i = Some x ->
    phi C x = Z.of_nat (off C p + i) /\ owner C x = p.
  Proof.
    intros H Hi. destruct (parts_split p name xs H) as (pre & post & E & L & F & Fl).
    assert (In x xs) as Hx by (eapply nth_error_In; eauto).
    rewrite Fl in Hnd.
    destruct (NoDup_app_inv _ _ Hnd) as (_ & Hnd2 & Hdis). destruct (NoDup_app_inv _ _ Hnd2) as (Hxs & _ & _).
    assert (~ In x (concat (map snd pre))) as Npre.
    { intros X. apply (Hdis x X). apply in_or_app. now left. }
    split.
    - unfold phi. rewrite Fl, index_in_app. apply zmem_false in Npre. rewrite Npre. unfold off. rewrite F.
      rewrite index_in_app. apply zmem_In in Hx. rewrite Hx. f_equal. f_equal.
      apply index_in_nth; [exact Hxs|exact Hi].
    - unfold owner. rewrite E, owner_in_app.
      + cbn. apply zmem_In in Hx. rewrite Hx. lia.
      + intros q Hq X. apply Npre. apply in_concat. exists (snd q). split; [now apply in_map|exact X].
  Qed.

  Lemma flat_inv x : In x (flat C) -> exists p name xs i, nth_error (c_parts C) p = Some (name, xs) /\ nth_error xs i = Some x.
  Proof.
    unfold flat. intros H. apply in_concat in H as (xs & Hxs & Hx). apply in_map_iff in Hxs as ([name xs'] & E & Hin).
    cbn in E. subst xs'. apply In_nth_error in Hin as [p Hp]. apply In_nth_error in Hx as [i Hi].
    exists p, name, xs, i. split; assumption.
  Qed.

  Lemma part_in_flat p name xs x : nth_error (c_parts C) p = Some (name, xs) -> In x xs -> In x (flat C).
  Proof.
    intros H Hx. unfold flat. apply in_concat. exists xs. split; [|exact Hx].
    apply in_map_iff. exists (name, xs). split; [reflexivity|]. eapply nth_error_In; eauto.
  Qed.

  Lemma owner_lt x : In x (flat C) -> (owner C x < length (c_parts C))%nat.
  Proof.
    intros H. destruct (flat_inv x H) as (p & name & xs & i & Hp & Hi). destruct (phi_part _ _ _ _ _ Hp Hi) as [_ ->].
    apply nth_error_Some. rewrite Hp. discriminate.
  Qed.
  (** the part of an atom, and its index there *)
  Lemma owner_spec x : In x (flat C) -> exists name xs i, nth_error (c_parts C) (owner C x) = Some (name, xs) /\
    nth_error xs i = Some x /\ phi C x = Z.of_nat (off C (owner C x) + i).
  Proof.
    intros H. destruct (flat_inv x H) as (p & name & xs & i & Hp & Hi). destruct (phi_part _ _ _ _ _ Hp Hi) as [E1 E2].
    exists name, xs, i. rewrite E2. auto.
  Qed.

  Lemma phi_inj x y : In x (flat C) -> In y (flat C) -> phi C x = phi C y -> x = y.
  Proof. unfold phi. intros Hx Hy E. apply (index_in_inj (flat C)); auto. lia. Qed.
  Lemma phi_range x : In x (flat C) -> 0 <= phi C x < Z.of_nat (length (flat C)).
  Proof. intros H. unfold phi. pose proof (index_in_lt _ _ H). lia. Qed.
  Lemma off_total : off C (length (c_parts C)) = length (flat C).
  Proof. unfold off, flat. now rewrite firstn_all. Qed.
  Lemma off_mono p name xs i : nth_error (c_parts C) p = Some (name, xs) -> (i < length xs)%nat -> (off C p + i < length (flat C))%nat.
  Proof.
    intros H Hi. destruct (parts_split p name xs H) as (pre & post & E & L & F & Fl). rewrite Fl, !app_length.
    unfold off. rewrite F. lia.
  Qed.
End Pos.
