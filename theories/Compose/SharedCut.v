(** SharedCut: shared nodes (the squash operator `!`) in the cut model.
    A description with shared atoms is a cut C of the molecule AS WRITTEN - every shared atom appears once per fragment
    that contains it, the copies joined by a uniquely labelled bond of the `$` kind - in which the pairs whose label is
    in [L] are written `!lab` instead of `$lab`.  Hydro/BangGraph.v proves that the resolver (BigSmiles convention) is
    parametric in that rewriting; so
    - [shared_bonding_skeleton]: resolve_disconnected + bonding step on the `!`-written templates return
      [gmap (bangify L) m2] with [skeleton C aa m2] - the skeleton of the written molecule, the texts on the bonds of L
      rewritten, nothing else;
    - [bang_items_sound] / [bang_items_complete]: the edges squash_atoms will contract are exactly the cut bonds of C
      that are `$` bonds with a label in L ([is_bang]);
    - [shared_cut_quotient]: whenever squash_atoms returns on that graph, the result is the QUOTIENT of the written
      molecule by the `!` pairs (Hydro's squash_quotient): the surviving keys are the class representatives, two
      atoms fall into one class iff they are connected through `!` bonds of C ([cbconn], for atoms of C), and two
      representatives are bonded iff some member of one class is bonded in C to some member of the other.
    Nothing of the cut model changes: `!` is a way of WRITING `$` pairs. *)
From Coq Require Import String.
From Coq Require Import List Ascii ZArith Bool Lia Permutation.
From CGV Require Import Base.PyBase Base.PyVal Base.NxGraph Gen.ResolveGen Resolve.Bonding Resolve.BondingDefs Resolve.GraphOps
     Hydro.GraphLemmas Hydro.SquashDefs Hydro.Squash Hydro.QuotientDefs.
From CGV Require Hydro.SquashProofs Hydro.QuotientProofs Hydro.BangBonds Hydro.BangGraph Resolve.SortGraphProofs Resolve.MapProofs Resolve.CopyProofs Hydro.SquashTotal.
From CGV Require Import Compose.GraphFacts Compose.GraphAdj Compose.CutModel Compose.CutPos Compose.CutTables Compose.CutDisc
     Compose.CutSkeleton Compose.CutWf.
Import ListNotations.
Open Scope Z_scope.

Import BangBonds BangGraph.

Section Shared.
  Variable C : cut.
  Hypothesis W : wf_cut C.
  Variable L : list pystr.
  Let Hnd := wc_nodup C W.

  (** the bonds written `!`: `$` pairs with a label of L *)
  Definition is_bang (b : cbond) : bool := cb_dollar b && str_in (cb_lab b) L.

  Lemma tail_in_dtail b : tail_in (dtail b) L = str_in (cb_lab b) L.
  Proof. unfold tail_in, dtail. rewrite rev_app_distr. cbn [rev app]. now rewrite rev_involutive. Qed.
  Lemma bangify_dtext s b : bangify L (dtext s b) = if is_bang b then "!"%char :: dtail b else dtext s b.
  Proof.
    unfold bangify, dtext, is_bang, kind_char. rewrite tail_in_dtail.
    destruct (cb_dollar b); cbn [andb]; [reflexivity|]. destruct s; reflexivity.
  Qed.
  Lemma dtext_bang_free s b : bang_free L (dtext s b).
  Proof.
    split; [discriminate|]. intros t E. unfold dtext in E. inversion E as [[K T]].
    destruct (kind_char_cases s b) as [X|[X|X]]; rewrite X in K; discriminate.
  Qed.

  Lemma tables_from_bang_free ps : forall p0 k0, Ps (bang_free L) (tables_from C p0 k0 ps).
  Proof.
    induction ps as [|q r IH]; intros p0 k0 a t Hin; [contradiction|]. cbn [tables_from] in Hin. destruct Hin as [E|Hin]; [|exact (IH _ _ a t Hin)].
    inversion E; subst a t. intros u ds Hrow d Hd. apply (tbl_from_rows C) in Hrow as (i & x & _ & _ & -> & _).
    apply (descs_in C W) in Hd as (b & s & _ & _ & ->). apply dtext_bang_free.
  Qed.
  Lemma tables_bang_free : Ps (bang_free L) (tables C).
  Proof. apply tables_from_bang_free. Qed.

  Variable fd : fragdict.
  Hypothesis HT : templates_ok C fd.
  Variable B : graph.
  Hypothesis HB : is_base C B.
  Variable aa : bool.
  Hypothesis Haa : aa = true -> forall x, In x (flat C) ->
     (exists e, aget (S "element") (payload C x) = Some e) /\ exists h, aget (S "hcount") (payload C x) = Some (VInt h).

  Theorem shared_bonding_skeleton : exists m1 fg1 m2 fg2,
    resolve_disconnected (fdmap (bangify L) fd) B = Ok (m1, fg1) /\
    bonding_step true aa B m1 fg1 = Ok (gmap (bangify L) m2, fg2) /\ skeleton C aa m2 /\ adj_nodup m2.
  Proof.
    destruct (disconnected_total C W fd HT B HB) as (d1 & dfg1 & Hdisc & I).
    assert (Htab : tables_of dfg1 = Ok (tables C)) by (rewrite (i_tables _ _ _ _ I), firstn_all; reflexivity).
    destruct (cut_bonding_skeleton C W fd HT B HB aa Haa) as (m1 & fg1 & m2 & fg2 & E1 & E2 & Sk).
    rewrite Hdisc in E1. inversion E1; subst m1 fg1.
    pose proof (resolve_bang_like_dollar L aa fd B d1 dfg1 Hdisc) as R.
    rewrite E2 in R. cbn [res_map] in R.
    assert (forall s0, tables_of dfg1 = Ok s0 -> Ps (bang_free L) s0) as HP by (intros s0 E; rewrite Htab in E; inversion E; subst; exact tables_bang_free).
    specialize (R HP). destruct (resolve_disconnected (fdmap (bangify L) fd) B) as [[m1' fg1']|] eqn:E'; cbn [bind fst snd] in R; [|discriminate].
    exists m1', fg1', m2, (fgmap (bangify L) fg2). split; [reflexivity|]. split; [exact R|]. split; [exact Sk|].
    eapply adj_nodup_bonding; [eapply adj_nodup_disconnected; exact Hdisc|exact E2].
  Qed.

  (** ------------------------------------------------------------ the bonded graph, read against the cut *)
  Variable m2 : graph.
  Hypothesis Sk : skeleton C aa m2.
  Hypothesis Adj : adj_nodup m2.
  Let g := gmap (bangify L) m2.
  Let Wf := cut_skeleton_wf C W aa m2 Sk.

  Lemma shared_wf : wf_graph g.
  Proof.
    destruct Wf as [N Cl Sy Lf]. constructor.
    - unfold g. rewrite node_keys_gmap. exact N.
    - intros y x. unfold g. rewrite has_edge_gmap, has_node_gmap. apply Cl.
    - intros y x. unfold g. rewrite !has_edge_gmap. apply Sy.
    - intros y. unfold g. rewrite has_edge_gmap. apply Lf.
  Qed.
  Lemma shared_node_get k key : key <> S "bonding" -> node_get g k key = node_get m2 k key.
  Proof. intros N. apply node_get_gmap_other. exact N. Qed.
  Lemma shared_has_edge u v : has_edge g u v = has_edge m2 u v.
  Proof. apply has_edge_gmap. Qed.
  Lemma shared_edge_get u v key : key <> S "bonding" -> edge_get g u v key = edge_get m2 u v key.
  Proof.
    intros N. unfold edge_get, g. rewrite edge_attrs_gmap. destruct (edge_attrs m2 u v) as [d|]; cbn [res_map]; [|reflexivity]. now apply aget_Fa_other.
  Qed.

  (** the listed edges that carry descriptor texts are cut bonds of C *)
  Lemma bonding_item_of u v d bv : In (u, v, d) (edges_data m2) -> aget (S "bonding") d = Some bv ->
    exists b s x y, In b (cuts C) /\ In x (flat C) /\ In y (flat C) /\ u = phi C x /\ v = phi C y /\ joins b x y = true /\
      bv = VTup [VStr (dtext s b); VStr (dtext (negb s) b)].
  Proof.
    intros Hin Hbv. pose proof (edges_data_attrs m2 u v d (wf_nodup _ Wf) Adj Hin) as Ea.
    pose proof (edge_attrs_ok_has _ _ _ _ Ea) as He.
    destruct (sk_closed _ _ _ Sk u v He) as [Hu Hv].
    destruct (sk_onto C W aa m2 Sk u Hu) as (x & Fx & <-). destruct (sk_onto C W aa m2 Sk v Hv) as (y & Fy & <-).
    destruct (sk_edges _ _ _ Sk x y Fx Fy) as (_ & _ & _ & Bd). unfold edge_get in Bd. rewrite Ea in Bd.
    destruct (Bd bv Hbv) as (b & s & Fb & Ic & ->). exists b, s, x, y.
    apply (find_bond_spec C W) in Fb as [Hb J].
    assert (In b (cuts C)) as Hc by (apply (cuts_in C); auto). repeat split; auto.
  Qed.

  Lemma item_bang_text s b : item_is_bang (0, 0, vren (bangify L) (VTup [VStr (dtext s b); VStr (dtext (negb s) b)])) = is_bang b.
  Proof.
    unfold item_is_bang, starts_squash. cbn [snd vren map sren as_list bind as_str]. rewrite bangify_dtext.
    destruct (is_bang b) eqn:E; [reflexivity|]. unfold dtext. cbn [HydroGen.squash_prefix prefixb].
    destruct (kind_char_cases s b) as [X|[X|X]]; rewrite X; reflexivity.
  Qed.
  Lemma item_is_bang_ext u v u' v' bv : item_is_bang (u, v, bv) = item_is_bang (u', v', bv).
  Proof. reflexivity. Qed.

  Lemma bang_items_in u v : In (u, v) (bang_items g) <->
    exists d bv, In (u, v, d) (edges_data m2) /\ aget (S "bonding") d = Some bv /\ item_is_bang (u, v, vren (bangify L) bv) = true.
  Proof.
    unfold bang_items, edge_attr_items, g. rewrite edges_data_gmap. split.
    - intros H. apply in_map_iff in H as ([[u' v'] bv'] & E & H). cbn [fst snd] in E. inversion E; subst u' v'.
      apply filter_In in H as [H Hb]. apply in_flat_map in H as (e' & He' & H). apply in_map_iff in He' as ([[u0 v0] d] & <- & Hin).
      cbn [fst snd] in H. change HydroGen.squash_edge_attr with (S "bonding") in H. rewrite aget_Fa in H.
      destruct (aget (S "bonding") d) as [bv|] eqn:Eb; cbn [option_map] in H; [|contradiction]. destruct H as [H|[]]. inversion H; subst u0 v0 bv'.
      exists d, bv. split; [exact Hin|]. split; [exact Eb|]. change ["b"; "o"; "n"; "d"; "i"; "n"; "g"]%char with (S "bonding") in Hb. rewrite fk_bonding in Hb. exact Hb.
    - intros (d & bv & Hin & Eb & Hb). apply in_map_iff. exists (u, v, vren (bangify L) bv). split; [reflexivity|].
      apply filter_In. split; [|exact Hb]. apply in_flat_map. exists (u, v, Fa (bangify L) d). split.
      + apply in_map_iff. exists (u, v, d). split; [reflexivity|exact Hin].
      + cbn [fst snd]. change HydroGen.squash_edge_attr with (S "bonding"). rewrite aget_Fa, Eb. cbn [option_map]. left. reflexivity.
  Qed.

  Theorem bang_items_sound u v : In (u, v) (bang_items g) ->
    exists b x y, In b (cuts C) /\ is_bang b = true /\ In x (flat C) /\ In y (flat C) /\ u = phi C x /\ v = phi C y /\ joins b x y = true.
  Proof.
    intros H. apply bang_items_in in H as (d & bv & Hin & Eb & Hb).
    destruct (bonding_item_of u v d bv Hin Eb) as (b & s & x & y & Hc & Fx & Fy & -> & -> & J & ->).
    rewrite (item_is_bang_ext _ _ 0 0), item_bang_text in Hb. exists b, x, y. repeat split; auto.
  Qed.

  Theorem bang_items_complete b : In b (cuts C) -> is_bang b = true ->
    In (phi C (cb_u b), phi C (cb_v b)) (bang_items g) \/ In (phi C (cb_v b), phi C (cb_u b)) (bang_items g).
  Proof.
    intros Hc Hb. destruct (cut_ends C W b Hc) as (Fu & Fv & _). apply (cuts_in C) in Hc as [Hin Ic].
    assert (find_bond C (cb_u b) (cb_v b) = Some b) as Fb.
    { apply (find_bond_spec C W). split; [exact Hin|]. apply joins_true. left. auto. }
    destruct (sk_edges _ _ _ Sk _ _ Fu Fv) as (He & _ & Bn & Bd).
    assert (has_edge m2 (phi C (cb_u b)) (phi C (cb_v b)) = true) as He'.
    { rewrite He. unfold bonded. now rewrite Fb. }
    pose proof (Bn b Fb Ic) as Hne.
    rewrite <- (SortGraphProofs.edges_data_spec m2 Wf) in He'. apply existsb_exists in He' as ([[u v] d] & Hl & U). cbn [fst snd] in U.
    pose proof (edges_data_attrs m2 u v d (wf_nodup _ Wf) Adj Hl) as Ea.
    unfold SquashProofs.eqpair in U. apply orb_true_iff in U as [U|U]; apply andb_true_iff in U as [U1 U2]; apply Z.eqb_eq in U1, U2; subst u v.
    - left. apply bang_items_in. unfold edge_get in Hne, Bd. rewrite Ea in Hne, Bd. destruct (aget (S "bonding") d) as [bv|] eqn:Eb; [|congruence].
      exists d, bv. split; [exact Hl|]. split; [exact Eb|]. destruct (Bd bv eq_refl) as (b' & s & Fb' & _ & ->). rewrite Fb in Fb'. inversion Fb'; subst b'.
      now rewrite (item_is_bang_ext _ _ 0 0), item_bang_text.
    - right. apply bang_items_in. destruct (sk_edges _ _ _ Sk _ _ Fv Fu) as (_ & _ & Bn' & Bd').
      assert (find_bond C (cb_v b) (cb_u b) = Some b) as Fb2 by (rewrite (find_bond_sym C); exact Fb).
      pose proof (Bn' b Fb2 Ic) as Hne'. unfold edge_get in Hne', Bd'. rewrite Ea in Hne', Bd'. destruct (aget (S "bonding") d) as [bv|] eqn:Eb; [|congruence].
      exists d, bv. split; [exact Hl|]. split; [exact Eb|]. destruct (Bd' bv eq_refl) as (b' & s & Fb' & _ & ->). rewrite Fb2 in Fb'. inversion Fb'; subst b'.
      now rewrite (item_is_bang_ext _ _ 0 0), item_bang_text.
  Qed.

  (** ------------------------------------------------------------ classes at the level of the cut *)
  Definition bang_pairs : list (Z * Z) := map (fun b => (cb_u b, cb_v b)) (filter is_bang (cuts C)).
  (** connected through `!` bonds of C *)
  Definition cbconn (x y : Z) : Prop := bconn bang_pairs x y.

  Lemma conn_up x y : cbconn x y -> bconn (bang_items g) (phi C x) (phi C y).
  Proof.
    unfold cbconn. induction 1 as [x|a b Hab|x y _ IH|x y z _ IH1 _ IH2].
    - apply bc_refl.
    - unfold bang_pairs in Hab. apply in_map_iff in Hab as (b0 & E & Hb0). inversion E; subst a b. apply filter_In in Hb0 as [Hc Hb].
      destruct (bang_items_complete b0 Hc Hb) as [H|H]; [now apply bc_pair|apply bc_sym; now apply bc_pair].
    - now apply bc_sym.
    - eapply bc_trans; eauto.
  Qed.
  Lemma conn_down p q : bconn (bang_items g) p q ->
    p = q \/ exists x y, In x (flat C) /\ In y (flat C) /\ p = phi C x /\ q = phi C y /\ cbconn x y.
  Proof.
    induction 1 as [x|a b Hab|x y _ IH|x y z _ IH1 _ IH2].
    - now left.
    - right. destruct (bang_items_sound a b Hab) as (b0 & x & y & Hc & Hb & Fx & Fy & -> & -> & J).
      exists x, y. repeat split; auto. assert (In (cb_u b0, cb_v b0) bang_pairs) as Hp.
      { unfold bang_pairs. apply in_map_iff. exists b0. split; [reflexivity|]. apply filter_In. auto. }
      apply joins_true in J as [[<- <-]|[<- <-]]; [now apply bc_pair|apply bc_sym; now apply bc_pair].
    - destruct IH as [->|(x0 & y0 & Fx & Fy & -> & -> & Hc)]; [now left|]. right. exists y0, x0. repeat split; auto. now apply bc_sym.
    - destruct IH1 as [->|(x1 & y1 & Fx1 & Fy1 & -> & E1 & H1)]; [exact IH2|].
      destruct IH2 as [<-|(x2 & y2 & Fx2 & Fy2 & E2 & -> & H2)].
      + right. exists x1, y1. repeat split; auto.
      + right. rewrite E1 in E2. apply (phi_inj C) in E2; auto. subst x2. exists x1, y2. repeat split; auto. eapply bc_trans; eauto.
  Qed.
  Lemma conn_iff x y : In x (flat C) -> In y (flat C) -> (bconn (bang_items g) (phi C x) (phi C y) <-> cbconn x y).
  Proof.
    intros Fx Fy. split; [|apply conn_up]. intros H. destruct (conn_down _ _ H) as [E|(x0 & y0 & Fx0 & Fy0 & E1 & E2 & Hc)].
    - apply (phi_inj C) in E; auto. subst y. apply bc_refl.
    - apply (phi_inj C) in E1; auto. apply (phi_inj C) in E2; auto. now subst.
  Qed.

  Lemma dir_edges_has p q : In (p, q) (dir_edges g) <-> has_edge g p q = true.
  Proof.
    split.
    - intros H. unfold dir_edges in H. apply in_flat_map in H as (n & Hn & He). apply in_map_iff in He as ([w a] & E & Ha). cbn [fst] in E. inversion E; subst p q.
      eapply SortGraphProofs.has_edge_of_adj; [exact (wf_nodup _ shared_wf)|exact Hn|exact Ha].
    - intros H. rewrite (QuotientProofs.has_edge_dir g p q shared_wf) in H. unfold qedge in H. apply andb_true_iff in H as [_ H].
      apply existsb_exists in H as ([a b] & Hin & E). cbn [fst snd] in E. apply andb_true_iff in E as [E1 E2]. apply Z.eqb_eq in E1, E2. now subst.
  Qed.

  (** the squashed graph is the written molecule with the `!`-connected atoms identified *)
  Definition squashed_ok (g' : graph) : Prop :=
    wf_graph g' /\
    node_keys g' = filter (fun k => Z.eqb (rho g k) k) (node_keys m2) /\
    (forall x, In x (flat C) -> exists r, In r (flat C) /\ rho g (phi C x) = phi C r /\ cbconn x r /\ has_node g' (phi C r) = true) /\
    (forall x y, In x (flat C) -> In y (flat C) -> (rho g (phi C x) = rho g (phi C y) <-> cbconn x y)) /\
    (forall x y, In x (flat C) -> In y (flat C) -> has_node g' (phi C x) = true -> has_node g' (phi C y) = true ->
       (has_edge g' (phi C x) (phi C y) = true <->
        x <> y /\ exists x' y', In x' (flat C) /\ In y' (flat C) /\ cbconn x x' /\ cbconn y y' /\ bonded C x' y' = true)).
  Theorem shared_cut_quotient g' : squash_atoms g = Ok g' -> squashed_ok g'.
  Proof.
    intros Hs. unfold squashed_ok. destruct (QuotientProofs.squash_quotient g g' shared_wf Hs) as (Wg' & K & E & R).
    assert (Kg : node_keys g = node_keys m2) by (unfold g; apply node_keys_gmap).
    assert (Cls : forall x y, In x (flat C) -> In y (flat C) -> (rho g (phi C x) = rho g (phi C y) <-> cbconn x y)).
    { intros x y Fx Fy. rewrite QuotientProofs.rho_classes. now apply conn_iff. }
    assert (Rep : forall x, has_node g' (phi C x) = true -> rho g (phi C x) = phi C x).
    { intros x H. apply MapProofs.gfind_has in H. rewrite K in H. apply filter_In in H as [_ H]. now apply Z.eqb_eq in H. }
    split; [exact Wg'|]. split; [now rewrite K, Kg|]. split; [|split; [exact Cls|]].
    - intros x Fx. assert (In (phi C x) (node_keys g)) as Hk.
      { rewrite Kg. apply MapProofs.gfind_has. exact (sk_node C aa m2 Sk x Fx). }
      pose proof (R _ Hk) as Hr. pose proof Hr as Hr'. rewrite K in Hr'. apply filter_In in Hr' as [Hr1 Hr2]. apply Z.eqb_eq in Hr2.
      rewrite Kg in Hr1. apply MapProofs.gfind_has in Hr1. destruct (sk_onto C W aa m2 Sk _ Hr1) as (r & Fr & Er).
      exists r. split; [exact Fr|]. split; [now symmetry|]. split.
      + apply (Cls x r Fx Fr). rewrite Er. now rewrite Hr2.
      + rewrite Er. now apply MapProofs.gfind_has.
    - intros x y Fx Fy Hx Hy. rewrite E. unfold qedge. split.
      + intros H. apply andb_true_iff in H as [Hne H]. apply existsb_exists in H as ([p q] & Hin & H). cbn [fst snd] in H.
        apply andb_true_iff in H as [H1 H2]. apply Z.eqb_eq in H1, H2. split.
        * intros ->. rewrite Z.eqb_refl in Hne. discriminate.
        * apply dir_edges_has in Hin. rewrite shared_has_edge in Hin. destruct (sk_closed _ _ _ Sk _ _ Hin) as [Hp Hq].
          destruct (sk_onto C W aa m2 Sk _ Hp) as (x' & Fx' & <-). destruct (sk_onto C W aa m2 Sk _ Hq) as (y' & Fy' & <-).
          exists x', y'. split; [exact Fx'|]. split; [exact Fy'|]. split; [|split].
          -- apply (Cls x x' Fx Fx'). now rewrite H1, (Rep x Hx).
          -- apply (Cls y y' Fy Fy'). now rewrite H2, (Rep y Hy).
          -- destruct (sk_edges _ _ _ Sk x' y' Fx' Fy') as (He & _). now rewrite <- He.
      + intros (Hne & x' & y' & Fx' & Fy' & Cx & Cy & Hb). apply andb_true_iff. split.
        * apply negb_true_iff. apply Z.eqb_neq. intros Ep. apply Hne. now apply (phi_inj C) in Ep.
        * apply existsb_exists. exists (phi C x', phi C y'). split.
          -- apply dir_edges_has. rewrite shared_has_edge. destruct (sk_edges _ _ _ Sk x' y' Fx' Fy') as (He & _). now rewrite He.
          -- cbn [fst snd]. apply andb_true_iff. split; apply Z.eqb_eq.
             ++ rewrite <- (Rep x Hx). symmetry. now apply (Cls x x' Fx Fx').
             ++ rewrite <- (Rep y Hy). symmetry. now apply (Cls y y' Fy Fy').
  Qed.

  (** every `bonding` edge value of the bonded graph is a descriptor pair: squash_atoms can read it *)
  Lemma shared_bondings_ok : SquashProofs.bondings_ok (edge_attr_items g HydroGen.squash_edge_attr).
  Proof.
    intros [[u v] bv'] Hin. unfold edge_attr_items, g in Hin. rewrite edges_data_gmap in Hin.
    apply in_flat_map in Hin as (e' & He' & H). apply in_map_iff in He' as ([[u0 v0] d] & <- & Hl). cbn [fst snd] in H.
    change HydroGen.squash_edge_attr with (S "bonding") in H. rewrite aget_Fa in H.
    destruct (aget (S "bonding") d) as [bv|] eqn:Eb; cbn [option_map] in H; [|contradiction]. destruct H as [H|[]]. inversion H; subst u0 v0 bv'.
    destruct (bonding_item_of u v d bv Hl Eb) as (b & s & x & y & _ & _ & _ & _ & _ & _ & ->). rewrite fk_bonding. cbn [snd]. eexists. reflexivity.
  Qed.
End Shared.

(** the whole of it for one all-atom description with shared atoms: the `!`-written templates resolve to the rewritten
    skeleton of the written molecule; squash_atoms returns on it (given Resolve's [wf_dict] for the templates and
    numeric hydrogen counts) and whatever it returns is the quotient *)
Theorem shared_resolve_squash C fd B L : wf_cut C -> templates_ok C fd -> is_base C B ->
  (forall x, In x (flat C) -> (exists e, aget (S "element") (payload C x) = Some e) /\ exists h, aget (S "hcount") (payload C x) = Some (VInt h)) ->
  exists m1 fg1 m2 fg2,
    resolve_disconnected (fdmap (bangify L) fd) B = Ok (m1, fg1) /\
    bonding_step true true B m1 fg1 = Ok (gmap (bangify L) m2, fg2) /\ skeleton C true m2 /\
    (CopyProofs.wf_dict (fdmap (bangify L) fd) -> SquashProofs.hnum_g (gmap (bangify L) m2) ->
       exists g', squash_atoms (gmap (bangify L) m2) = Ok g') /\
    (forall g', squash_atoms (gmap (bangify L) m2) = Ok g' -> squashed_ok C L m2 g').
Proof.
  intros W HT HB Haa. destruct (shared_bonding_skeleton C W L fd HT B HB true (fun _ => Haa)) as (m1 & fg1 & m2 & fg2 & E1 & E2 & Sk & Adj).
  exists m1, fg1, m2, fg2. split; [exact E1|]. split; [exact E2|]. split; [exact Sk|]. split.
  - intros Hw Hn. destruct (SquashTotal.squash_total_resolver _ true B m1 fg1 _ fg2 Hw E1 E2 (shared_wf C W L true m2 Sk) Hn (shared_bondings_ok C W L true m2 Sk Adj)) as (g' & Hs & _).
    exists g'. exact Hs.
  - intros g' Hs. exact (shared_cut_quotient C W L true m2 Sk Adj g' Hs).
Qed.
