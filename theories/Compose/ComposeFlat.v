(** ComposeFlat: the composition clause of property C06, at the level of the bonding step, for a two-level
    hierarchy (atoms < parts < groups).

    FLAT: the cut C of the molecule into parts, resolved in one step on a base graph over the parts.
    LAYERED: the parts are themselves the "atoms" of a coarse cut C' into groups (one uniquely labelled descriptor
    pair per pair of bonded parts in different groups, its order = the number of atom-level cut bonds between
    the two parts); the first step (coarse, not all-atom) is run on (base over groups, coarse fragments).

    [layered_base]: after the first step's instantiation loop and bonding step, the fine graph - read as the next
    coarse graph (fragname := atomname, as MoleculeResolver.resolve does) - IS a base graph of the cut C with its
    parts listed in group order ([perm_cut]): same part names, edge orders = numbers of atom-level cut bonds.
    This is [cut_bonding_skeleton] at the coarse level, i.e. CutFold.forced_fold on the coarse tables.
    [compose_flat]: therefore ([cut_bonding_skeleton] again, at the atom level, for both) the layered and the flat
    resolution give the same fine skeleton up to the renumbering  phi C x  |->  phi (perm_cut C C') x:
    offset of the part in group order + index of the atom in its part, instead of offset in base order + index. *)
From Coq Require Import String.
From Coq Require Import List Ascii ZArith Bool Lia Permutation.
From CGV Require Import Base.PyBase Base.PyVal Base.NxGraph Resolve.Bonding Resolve.BondingDefs Resolve.BondingCheck Resolve.CutCheck Resolve.CutFold
     Resolve.GraphOps Resolve.MapProofs Resolve.CopyProofs Hydro.GraphLemmas Hydro.SquashDefs.
From CGV Require Resolve.SortGraphProofs Hydro.SquashProofs.
From CGV Require Import Compose.GraphFacts Compose.GraphAdj Compose.CutModel Compose.CutPos Compose.CutTables Compose.CutDisc
     Compose.CutSkeleton Compose.CutWf.
Import ListNotations.
Open Scope Z_scope.

(** ---------------------------------------------------------------- lists *)
Lemma map_nth_seq {A} (l : list A) d : map (fun i => nth i l d) (seq 0 (length l)) = l.
Proof.
  induction l as [|x r IH]; [reflexivity|]. cbn [length seq map nth]. f_equal. rewrite <- seq_shift, map_map. exact IH.
Qed.
Lemma length_flat_map_ext {A B} (f g : A -> list B) l : (forall x, In x l -> length (f x) = length (g x)) ->
  length (flat_map f l) = length (flat_map g l).
Proof.
  induction l as [|x r IH]; intros H; [reflexivity|]. cbn. rewrite !app_length, (H x (or_introl eq_refl)), IH; [reflexivity|].
  intros; apply H; now right.
Qed.

Lemma edges_from_gupdate k f g : (forall n, nk (f n) = nk n) -> (forall n, nadj (f n) = nadj n) ->
  forall seen, edges_from (gupdate k f g) seen = edges_from g seen.
Proof.
  intros Hk Ha. induction g as [|n r IH]; intros seen; [reflexivity|]. cbn [gupdate]. destruct (Z.eqb (nk n) k); cbn [edges_from].
  - now rewrite Hk, Ha.
  - now rewrite IH.
Qed.
Lemma edges_data_set_nodes_from a d : forall g, edges_data (set_nodes_from g a d) = edges_data g.
Proof.
  unfold set_nodes_from. induction d as [|[k v] r IH]; intros g; [reflexivity|]. cbn [fold_left]. rewrite IH.
  unfold edges_data, set_node_attr. now apply edges_from_gupdate.
Qed.

(** ---------------------------------------------------------------- the coarse cut over the parts of C *)
Definition part_name (C : cut) (p : nat) : pystr := fst (nth p (c_parts C) ([], [])).
Record coarse_of (C C' : cut) : Prop := {
  co_atoms : Permutation (flat C') (map Z.of_nat (seq 0 (length (c_parts C))));
  co_names : forall p, (p < length (c_parts C))%nat ->
     aget (S "atomname") (payload C' (Z.of_nat p)) = Some (VStr (part_name C p)) /\ aget (S "aromatic") (payload C' (Z.of_nat p)) = None;
  co_bonds : forall b, In b (c_bonds C') -> exists p q, cb_u b = Z.of_nat p /\ cb_v b = Z.of_nat q /\
     cb_ord b = VInt (Z.of_nat (length (cutpairs C p q)));
  co_all : forall b, In b (cuts C) -> exists b', In b' (c_bonds C') /\
     joins b' (Z.of_nat (owner C (cb_u b))) (Z.of_nat (owner C (cb_v b))) = true }.

(** C with its parts listed in the order of the groups *)
Definition perm_cut (C C' : cut) : cut :=
  {| c_atoms := c_atoms C; c_bonds := c_bonds C;
     c_parts := map (fun z => nth (Z.to_nat z) (c_parts C) ([], [])) (flat C'); c_dord := c_dord C |}.
(** position of part p in group order *)
Definition pos (C' : cut) (p : nat) : nat := index_in (Z.of_nat p) (flat C').

Section Layered.
  Variables C C' : cut.
  Hypothesis W : wf_cut C.
  Hypothesis W' : wf_cut C'.
  Hypothesis Co : coarse_of C C'.
  Let Cp := perm_cut C C'.
  Let P := length (c_parts C).
  Let Hnd := wc_nodup C W.
  Let Hnd' := wc_nodup C' W'.

  Lemma flat'_in z : In z (flat C') <-> exists p, (p < P)%nat /\ z = Z.of_nat p.
  Proof.
    split.
    - intros H. apply (Permutation_in _ (co_atoms _ _ Co)) in H. apply in_map_iff in H as (p & <- & Hp). apply in_seq in Hp. exists p. split; [lia|reflexivity].
    - intros (p & Hp & ->). apply (Permutation_in _ (Permutation_sym (co_atoms _ _ Co))). apply in_map. apply in_seq. lia.
  Qed.
  Lemma flat'_length : length (flat C') = P.
  Proof. rewrite (Permutation_length (co_atoms _ _ Co)), map_length, seq_length. reflexivity. Qed.
  Lemma pos_nth p : (p < P)%nat -> nth_error (flat C') (pos C' p) = Some (Z.of_nat p).
  Proof. intros Hp. apply nth_index_in. apply flat'_in. eauto. Qed.
  Lemma pos_lt p : (p < P)%nat -> (pos C' p < P)%nat.
  Proof. intros Hp. rewrite <- flat'_length. apply index_in_lt. apply flat'_in. eauto. Qed.
  Lemma pos_inj p q : (p < P)%nat -> (q < P)%nat -> pos C' p = pos C' q -> p = q.
  Proof. intros Hp Hq E. apply Nat2Z.inj. apply (index_in_inj (flat C')); [apply flat'_in; eauto|apply flat'_in; eauto|exact E]. Qed.
  Lemma phi'_pos p : phi C' (Z.of_nat p) = Z.of_nat (pos C' p).
  Proof. reflexivity. Qed.

  Lemma parts_perm : Permutation (c_parts Cp) (c_parts C).
  Proof.
    unfold Cp, perm_cut. cbn [c_parts].
    transitivity (map (fun z => nth (Z.to_nat z) (c_parts C) ([], [])) (map Z.of_nat (seq 0 (length (c_parts C))))).
    - apply Permutation_map. exact (co_atoms _ _ Co).
    - rewrite map_map.
      assert (map (fun i => nth (Z.to_nat (Z.of_nat i)) (c_parts C) ([], [])) (seq 0 (length (c_parts C))) = c_parts C) as ->; [|reflexivity].
      erewrite map_ext; [apply map_nth_seq|]. intros i. cbn beta. now rewrite Nat2Z.id.
  Qed.
  Lemma flat_perm : Permutation (flat Cp) (flat C).
  Proof. unfold flat. apply concat_perm. apply Permutation_map. exact parts_perm. Qed.
  Lemma Cp_nodup : NoDup (flat Cp).
  Proof. eapply Permutation_NoDup; [apply Permutation_sym; exact flat_perm|exact Hnd]. Qed.
  Lemma Cp_parts_length : length (c_parts Cp) = P.
  Proof. unfold Cp, perm_cut. cbn [c_parts]. rewrite map_length. apply flat'_length. Qed.
  Lemma Cp_part p name xs : nth_error (c_parts C) p = Some (name, xs) -> nth_error (c_parts Cp) (pos C' p) = Some (name, xs).
  Proof.
    intros Hp. assert (p < P)%nat as Lp by (apply nth_error_Some; unfold P; congruence).
    unfold Cp, perm_cut. cbn [c_parts]. rewrite (map_nth_error _ _ _ (pos_nth p Lp)). rewrite Nat2Z.id. f_equal. now apply nth_error_nth.
  Qed.

  (** an atom sits in the same part, at the same index; the part has moved to its position in group order *)
  Lemma owner_perm x : In x (flat C) -> owner Cp x = pos C' (owner C x) /\
    exists name xs i, nth_error (c_parts C) (owner C x) = Some (name, xs) /\ nth_error xs i = Some x /\
      phi C x = Z.of_nat (off C (owner C x) + i) /\ phi Cp x = Z.of_nat (off Cp (pos C' (owner C x)) + i).
  Proof.
    intros Fx. destruct (owner_spec C Hnd x Fx) as (name & xs & i & Hp & Hi & Ephi).
    destruct (phi_part Cp Cp_nodup _ _ _ _ _ (Cp_part _ _ _ Hp) Hi) as [E1 E2]. split; [exact E2|]. exists name, xs, i. auto.
  Qed.
  Lemma owner_lt' x : In x (flat C) -> (owner C x < P)%nat.
  Proof. intros Fx. now apply owner_lt. Qed.

  Lemma is_cut_perm b : In b (c_bonds C) -> is_cut Cp b = is_cut C b.
  Proof.
    intros Hb. destruct (wc_ends C W b Hb) as (Fu & Fv & _). unfold is_cut.
    destruct (owner_perm _ Fu) as [-> _]. destruct (owner_perm _ Fv) as [-> _]. f_equal.
    destruct (Nat.eqb_spec (owner C (cb_u b)) (owner C (cb_v b))) as [->|N]; [apply Nat.eqb_refl|].
    apply Nat.eqb_neq. intros E. apply N. apply pos_inj; auto using owner_lt'.
  Qed.
  Lemma cuts_perm : cuts Cp = cuts C.
  Proof. unfold cuts. change (c_bonds Cp) with (c_bonds C). apply filter_ext_in. intros b Hb. now apply is_cut_perm. Qed.
  Lemma descs_perm x : descs Cp x = descs C x.
  Proof. unfold descs, descs0. change (c_dord Cp) with (c_dord C). now rewrite cuts_perm. Qed.

  Theorem perm_cut_wf : wf_cut Cp.
  Proof.
    constructor.
    - exact Cp_nodup.
    - intros x. change (c_atoms Cp) with (c_atoms C). rewrite (wc_atoms C W x). split; intros H; [eapply Permutation_in; [apply Permutation_sym; exact flat_perm|exact H]|eapply Permutation_in; [exact flat_perm|exact H]].
    - intros b Hb. destruct (wc_ends C W b Hb) as (A1 & A2 & A3). repeat split; auto; eapply Permutation_in; try (apply Permutation_sym; exact flat_perm); assumption.
    - exact (wc_simple C W).
    - rewrite cuts_perm. exact (wc_labels C W).
    - rewrite cuts_perm. exact (wc_digits C W).
    - intros kv Hkv. unfold descs0. rewrite cuts_perm. exact (wc_dord C W kv Hkv).
  Qed.

  Lemma template_perm name xs T : is_template C name xs T -> is_template Cp name xs T.
  Proof.
    intros [K A E O Al]. constructor; auto.
    intros i x Hi. destruct (A i x Hi) as (a & Ea & [F1 F2 F3 F4 F5 F6 F7]). exists a. split; [exact Ea|]. constructor; auto. now rewrite descs_perm.
  Qed.
  Theorem templates_perm fd : templates_ok C fd -> templates_ok Cp fd.
  Proof.
    intros H name xs Hin. apply (Permutation_in _ parts_perm) in Hin. destruct (H name xs Hin) as (T & E & IT). exists T. split; [exact E|now apply template_perm].
  Qed.

  (** the number of cut bonds between two parts does not depend on the numbering of the parts, nor on the direction *)
  Lemma cutpairs_len_perm p q : (p < P)%nat -> (q < P)%nat -> length (cutpairs Cp (pos C' p) (pos C' q)) = length (cutpairs C p q).
  Proof.
    intros Hp Hq. unfold cutpairs. rewrite cuts_perm. apply length_flat_map_ext. intros b Hb.
    destruct (cut_ends C W b Hb) as (Fu & Fv & _). unfold cp_of. destruct (owner_perm _ Fu) as [-> _]. destruct (owner_perm _ Fv) as [-> _].
    assert (forall a c, (a < P)%nat -> (c < P)%nat -> Nat.eqb (pos C' a) (pos C' c) = Nat.eqb a c) as X.
    { intros a c Ha Hc. destruct (Nat.eqb_spec a c) as [->|N]; [apply Nat.eqb_refl|]. apply Nat.eqb_neq. intros E. apply N. now apply pos_inj. }
    rewrite !X by auto using owner_lt'. destruct (_ && _); [reflexivity|]. destruct (_ && _); reflexivity.
  Qed.
  Lemma cutpairs_len_sym p q : length (cutpairs C p q) = length (cutpairs C q p).
  Proof.
    unfold cutpairs. apply length_flat_map_ext. intros b Hb. destruct (cut_ends C W b Hb) as (_ & _ & N). unfold cp_of.
    destruct (Nat.eqb_spec (owner C (cb_u b)) p), (Nat.eqb_spec (owner C (cb_v b)) q), (Nat.eqb_spec (owner C (cb_u b)) q), (Nat.eqb_spec (owner C (cb_v b)) p);
      cbn; try reflexivity; exfalso; apply N; congruence.
  Qed.

  (** ------------------------------------------------------------ the first (coarse) step gives a base graph of perm_cut *)
  Variable m2' : graph.
  Hypothesis Sk' : skeleton C' false m2'.
  Hypothesis Adj' : adj_nodup m2'.
  Let Wf' := cut_skeleton_wf C' W' false m2' Sk'.
  Definition next_meta : graph := set_nodes_from m2' (S "fragname") (get_node_attributes m2' (S "atomname")).

  Lemma coarse_order zp zq d : In zp (flat C') -> In zq (flat C') -> edge_attrs m2' (phi C' zp) (phi C' zq) = Ok d ->
    exists p q, zp = Z.of_nat p /\ zq = Z.of_nat q /\ (p < P)%nat /\ (q < P)%nat /\ p <> q /\
                aget (S "order") d = Some (VInt (Z.of_nat (length (cutpairs C p q)))).
  Proof.
    intros Fp Fq Ed. destruct (proj1 (flat'_in zp) Fp) as (p & Lp & ->). destruct (proj1 (flat'_in zq) Fq) as (q & Lq & ->).
    destruct (sk_edges _ _ _ Sk' _ _ Fp Fq) as (E1 & E2 & _). unfold edge_get in E2. rewrite has_edge_attrs, Ed in E1. rewrite Ed in E2.
    unfold bonded in E1. unfold result_order in E2. destruct (find_bond C' (Z.of_nat p) (Z.of_nat q)) as [b|] eqn:Eb; [|discriminate].
    apply find_some in Eb as [Hb J]. destruct (co_bonds _ _ Co b Hb) as (u & v & Eu & Ev & Eo).
    destruct (wc_ends C' W' b Hb) as (_ & _ & Nuv).
    assert (length (cutpairs C u v) = length (cutpairs C p q)) as El.
    { apply joins_true in J. destruct J as [[A1 A2]|[A1 A2]]; rewrite Eu in A1; rewrite Ev in A2; apply Nat2Z.inj in A1; apply Nat2Z.inj in A2; subst; [reflexivity|apply cutpairs_len_sym]. }
    assert (p <> q) as Npq. { intros ->. apply joins_true in J. apply Nuv. destruct J as [[A1 A2]|[A1 A2]]; congruence. }
    exists p, q. repeat split; auto. rewrite E2, <- El. f_equal.
    destruct (is_cut C' b) eqn:Ec; [|exact Eo].
    unfold cut_order, arom. destruct (co_names _ _ Co u) as [_ Au].
    { assert (In (cb_u b) (flat C')) as F by (now destruct (wc_ends C' W' b Hb)). rewrite Eu in F. apply flat'_in in F as (u' & Lu & E). apply Nat2Z.inj in E. now subst. }
    rewrite Eu, Au. cbn [andb]. unfold bdigit. rewrite Eo. unfold digit_of.
    assert (digit_of (cb_ord b) <> None) as Hd by (apply (wc_digits C' W'); apply (cuts_in C'); auto). rewrite Eo in Hd. unfold digit_of in Hd.
    destruct ((0 <=? Z.of_nat (length (cutpairs C u v))) && (Z.of_nat (length (cutpairs C u v)) <=? 9)); [|congruence]. now rewrite Nat2Z.id.
  Qed.

  Theorem layered_base : is_base Cp next_meta.
  Proof.
    destruct (SortGraphProofs.set_nodes_from_facts (S "fragname") (get_node_attributes m2' (S "atomname")) m2') as (Kn & En & _).
    pose proof (wf_nodup _ Wf') as Hn2.
    assert (Hkeys : node_keys m2' = map Z.of_nat (seq 0 P)) by (rewrite (sk_keys _ _ _ Sk'), flat'_length; reflexivity).
    constructor.
    - unfold next_meta. rewrite Kn, Hkeys, Cp_parts_length. reflexivity.
    - intros j name xs Hj. unfold Cp, perm_cut in Hj. cbn [c_parts] in Hj.
      destruct (nth_error (flat C') j) as [z|] eqn:Ez; [|rewrite nth_error_map, Ez in Hj; discriminate].
      rewrite (map_nth_error _ _ _ Ez) in Hj. inversion Hj as [Hj'].
      assert (In z (flat C')) as Fz by (eapply nth_error_In; eauto). destruct (proj1 (flat'_in z) Fz) as (p & Lp & ->). rewrite Nat2Z.id in Hj'.
      assert (phi C' (Z.of_nat p) = Z.of_nat j) as Ephi by (unfold phi; now rewrite (index_in_nth _ _ _ Hnd' Ez)).
      destruct (co_names _ _ Co p Lp) as [Na _].
      destruct (sk_attrs _ _ _ Sk' _ Fz) as (_ & _ & _ & Pl).
      assert (node_get m2' (Z.of_nat j) (S "atomname") = Some (VStr name)) as Hat.
      { rewrite <- Ephi. rewrite (Pl _ _ Na); [unfold part_name; now rewrite Hj'| |discriminate].
        unfold reserved. cbn [In]. intros X. repeat destruct X as [X|X]; try (apply str_eqb_eq in X; vm_compute in X; discriminate); exact X. }
      assert (has_node m2' (Z.of_nat j) = true) as Hj2 by (rewrite <- Ephi; now apply (sk_node C' false m2' Sk')).
      assert (node_get next_meta (Z.of_nat j) (S "fragname") = Some (VStr name)) as Hfn.
      { unfold next_meta. apply SortGraphProofs.set_from_get; [now apply SortGraphProofs.gna_keys_nodup| |exact Hj2].
        rewrite gna_by_keys by exact Hn2. apply in_flat_map. exists (Z.of_nat j). split; [now apply gfind_has|]. rewrite Hat. now left. }
      rewrite node_get_via in Hfn. destruct (node_attrs next_meta (Z.of_nat j)) as [a|]; [|discriminate]. exists a. auto.
    - intros a b d Hin. unfold next_meta in Hin. rewrite edges_data_set_nodes_from in Hin.
      pose proof (edges_data_attrs m2' a b d Hn2 Adj' Hin) as Ea.
      destruct (sk_closed _ _ _ Sk' a b (edge_attrs_ok_has _ _ _ _ Ea)) as [Ha Hb].
      destruct (sk_onto C' W' false m2' Sk' a Ha) as (za & Fa & <-). destruct (sk_onto C' W' false m2' Sk' b Hb) as (zb & Fb & <-).
      destruct (coarse_order za zb d Fa Fb Ea) as (p & q & -> & -> & Lp & Lq & Npq & Eo).
      exists (pos C' p), (pos C' q). rewrite !phi'_pos, Cp_parts_length. repeat split; auto using pos_lt.
      + intros E. apply Npq. now apply pos_inj.
      + rewrite Eo. now rewrite cutpairs_len_perm.
    - unfold next_meta, edges_list. rewrite edges_data_set_nodes_from. exact (edges_data_once m2' Hn2 Adj').
    - intros b Hb. rewrite cuts_perm in Hb. destruct (cut_ends C W b Hb) as (Fu & Fv & _).
      destruct (owner_perm _ Fu) as [-> _]. destruct (owner_perm _ Fv) as [-> _].
      set (p := owner C (cb_u b)). set (q := owner C (cb_v b)).
      assert (p < P)%nat as Lp by (now apply owner_lt'). assert (q < P)%nat as Lq by (now apply owner_lt').
      destruct (co_all _ _ Co b Hb) as (b' & Hb' & J). fold p q in J.
      assert (In (Z.of_nat p) (flat C')) as Fp by (apply flat'_in; eauto). assert (In (Z.of_nat q) (flat C')) as Fq by (apply flat'_in; eauto).
      destruct (sk_edges _ _ _ Sk' _ _ Fp Fq) as (E1 & _).
      assert (has_edge m2' (phi C' (Z.of_nat p)) (phi C' (Z.of_nat q)) = true) as He.
      { rewrite E1. unfold bonded. now rewrite (proj2 (find_bond_spec C' W' _ _ b') (conj Hb' J)). }
      rewrite <- (SortGraphProofs.edges_data_spec m2' Wf') in He. apply existsb_exists in He as ([[u v] d] & Hin & U). cbn [fst snd] in U.
      unfold next_meta, edges_list. rewrite edges_data_set_nodes_from. rewrite !phi'_pos in U.
      unfold SquashProofs.eqpair in U. apply orb_true_iff in U as [U|U]; apply andb_true_iff in U as [U1 U2]; apply Z.eqb_eq in U1; apply Z.eqb_eq in U2; subst u v;
        [left|right]; apply in_map_iff; eexists; (split; [|exact Hin]); reflexivity.
  Qed.
End Layered.

(** ---------------------------------------------------------------- the composition theorem *)
Theorem compose_flat C C' fd1 Btop fd2 Bflat aa :
  wf_cut C -> wf_cut C' -> coarse_of C C' ->
  templates_ok C' fd1 -> is_base C' Btop ->          (* first layer: base over groups, coarse fragments over parts *)
  templates_ok C fd2 -> is_base C Bflat ->           (* last layer: atomistic templates; the flat base over parts *)
  (aa = true -> forall x, In x (flat C) -> (exists e, aget (S "element") (payload C x) = Some e) /\ exists h, aget (S "hcount") (payload C x) = Some (VInt h)) ->
  exists c1 cfg1 c2 cfg2 l1 lfg1 l2 lfg2 f1 ffg1 f2 ffg2,
    (* layered: the coarse step, then the step on its result read as a base graph *)
    resolve_disconnected fd1 Btop = Ok (c1, cfg1) /\ bonding_step true false Btop c1 cfg1 = Ok (c2, cfg2) /\
    is_base (perm_cut C C') (next_meta c2) /\
    resolve_disconnected fd2 (next_meta c2) = Ok (l1, lfg1) /\ bonding_step true aa (next_meta c2) l1 lfg1 = Ok (l2, lfg2) /\
    skeleton (perm_cut C C') aa l2 /\
    (* flat *)
    resolve_disconnected fd2 Bflat = Ok (f1, ffg1) /\ bonding_step true aa Bflat f1 ffg1 = Ok (f2, ffg2) /\ skeleton C aa f2 /\
    (* the same fine skeleton through the renumbering phi C x |-> phi (perm_cut C C') x *)
    (forall x y, In x (flat C) -> In y (flat C) ->
       has_edge l2 (phi (perm_cut C C') x) (phi (perm_cut C C') y) = has_edge f2 (phi C x) (phi C y) /\
       edge_get l2 (phi (perm_cut C C') x) (phi (perm_cut C C') y) (S "order") = edge_get f2 (phi C x) (phi C y) (S "order")) /\
    (forall x key v, In x (flat C) -> aget key (payload C x) = Some v -> ~ In key reserved -> (aa = true -> key <> S "hcount") ->
       node_get l2 (phi (perm_cut C C') x) key = Some v /\ node_get f2 (phi C x) key = Some v) /\
    (forall x, In x (flat C) -> exists name xs i, nth_error (c_parts C) (owner C x) = Some (name, xs) /\ nth_error xs i = Some x /\
       phi C x = Z.of_nat (off C (owner C x) + i) /\
       phi (perm_cut C C') x = Z.of_nat (off (perm_cut C C') (pos C' (owner C x)) + i)).
Proof.
  intros W W' Co HT1 HB1 HT2 HB2 Haa.
  destruct (cut_bonding_skeleton C' W' fd1 HT1 Btop HB1 false) as (c1 & cfg1 & c2 & cfg2 & Ec1 & Ec2 & Skc); [discriminate|].
  assert (adj_nodup c2) as Adjc by (eapply adj_nodup_bonding; [eapply adj_nodup_disconnected; exact Ec1|exact Ec2]).
  pose proof (layered_base C C' W W' Co c2 Skc Adjc) as HBL.
  pose proof (perm_cut_wf C C' W Co) as Wp.
  assert (flat_iff : forall x, In x (flat (perm_cut C C')) <-> In x (flat C)).
  { intros x. split; intros H; [eapply Permutation_in; [exact (flat_perm C C' Co)|exact H]|eapply Permutation_in; [apply Permutation_sym; exact (flat_perm C C' Co)|exact H]]. }
  destruct (cut_bonding_skeleton (perm_cut C C') Wp fd2 (templates_perm C C' W Co fd2 HT2) (next_meta c2) HBL aa) as (l1 & lfg1 & l2 & lfg2 & El1 & El2 & Skl).
  { intros Ea x Fx. apply flat_iff in Fx. exact (Haa Ea x Fx). }
  destruct (cut_bonding_skeleton C W fd2 HT2 Bflat HB2 aa Haa) as (f1 & ffg1 & f2 & ffg2 & Ef1 & Ef2 & Skf).
  exists c1, cfg1, c2, cfg2, l1, lfg1, l2, lfg2, f1, ffg1, f2, ffg2.
  split; [exact Ec1|]. split; [exact Ec2|]. split; [exact HBL|]. split; [exact El1|]. split; [exact El2|]. split; [exact Skl|].
  split; [exact Ef1|]. split; [exact Ef2|]. split; [exact Skf|]. split; [|split].
  - intros x y Fx Fy. destruct (sk_edges _ _ _ Skl x y (proj2 (flat_iff x) Fx) (proj2 (flat_iff y) Fy)) as (A1 & A2 & _).
    destruct (sk_edges _ _ _ Skf x y Fx Fy) as (B1 & B2 & _). rewrite A1, A2, B1, B2.
    assert (forall b, In b (c_bonds C) -> is_cut (perm_cut C C') b = is_cut C b) as Hc by (intros b Hb; now apply (is_cut_perm C C' W Co)).
    unfold bonded, result_order, find_bond. change (c_bonds (perm_cut C C')) with (c_bonds C). split; [reflexivity|].
    destruct (find (fun b => joins b x y) (c_bonds C)) as [b|] eqn:Eb; [|reflexivity]. apply find_some in Eb as [Hb _]. now rewrite (Hc b Hb).
  - intros x key v Fx Hv Hr Hh. destruct (sk_attrs _ _ _ Skl x (proj2 (flat_iff x) Fx)) as (_ & _ & _ & PL). destruct (sk_attrs _ _ _ Skf x Fx) as (_ & _ & _ & PF).
    split; [apply PL; auto|apply PF; auto].
  - intros x Fx. now destruct (owner_perm C C' W Co x Fx) as [_ H].
Qed.
