(** SharedExamples: non-vacuity of [shared_resolve_squash].  `{[#A][#B]}.{#A=CC[!a],#B=[!a]CO}`: the carbon shared by the
    two fragments appears once per fragment (written atoms 1 and 2, joined by the pair labelled `a`, written `!a`);
    the written molecule is the cut exS with that pair as a `$` pair.  The hypotheses hold, the `!`-written templates
    resolve, squash_atoms returns ethanol's heavy atoms C0-C1-O3 (atom 2 merged into atom 1), and the classes and the
    bonds are the ones [squashed_ok] describes. *)
From Coq Require Import String.
From Coq Require Import List Ascii ZArith Bool Lia.
From CGV Require Import Base.PyBase Base.PyVal Base.NxGraph Resolve.Bonding Resolve.GraphOps Hydro.Squash Hydro.SquashDefs Hydro.QuotientDefs.
From CGV Require Hydro.BangBonds Hydro.BangGraph.
From CGV Require Import Compose.CutModel Compose.CutPos Compose.CutSpecCheck Compose.CutSkeleton Compose.CutExamples Compose.SharedCut.
Import ListNotations.
Open Scope Z_scope.

Definition exS : cut := {|
  c_atoms := [(0, atom "C" 3); (1, atom "C" 3); (2, atom "C" 3); (3, atom "O" 1)];
  c_bonds := [ {| cb_u := 0; cb_v := 1; cb_ord := VInt 1; cb_lab := []; cb_dollar := true |};
               {| cb_u := 1; cb_v := 2; cb_ord := VInt 1; cb_lab := S "a"; cb_dollar := true |};
               {| cb_u := 2; cb_v := 3; cb_ord := VInt 1; cb_lab := []; cb_dollar := true |} ];
  c_parts := [(S "A", [0; 1]); (S "B", [2; 3])]; c_dord := [] |}.
Definition exL : list pystr := [S "a"].
Definition exS_fd : fragdict := BangGraph.fdmap (BangBonds.bangify exL) (fragdict_of exS).

Example exS_hypotheses :
  wf_cutb exS = true /\ templates_okb exS (fragdict_of exS) = true /\ is_baseb exS (base_of exS) = true /\
  is_bang exL (nth 1 (c_bonds exS) (Build_cbond 0 0 VNone [] true)) = true /\
  (* the templates as the `!` description writes them *)
  map (fun ng : pystr * graph => (fst ng, get_node_attributes (snd ng) (S "bonding"))) exS_fd
  = [(S "A", [(1, VList [VStr (S "!a1")])]); (S "B", [(0, VList [VStr (S "!a1")])])].
Proof. vm_compute. auto 10. Qed.

Definition exS_check : Prop :=
  match (st <- resolve_disconnected exS_fd (base_of exS) ;; bonding_step true true (base_of exS) (fst st) (snd st)) with
  | Ok (G, _) => match squash_atoms G with
                 | Ok g' => node_keys g' = [0; 1; 3] /\ has_edge g' 0 1 = true /\ has_edge g' 1 3 = true /\ has_edge g' 0 3 = false /\
                            node_get g' 1 (S "fragid") = Some (VList [VInt 0; VInt 1])
                 | Err _ => False
                 end
  | Err _ => False
  end.
Lemma exS_check_holds : exS_check.
Proof. vm_compute. auto 10. Qed.

Example shared_resolve_squash_nonvacuous :
  exists m1 fg1 m2 fg2 g',
    resolve_disconnected exS_fd (base_of exS) = Ok (m1, fg1) /\
    bonding_step true true (base_of exS) m1 fg1 = Ok (BangGraph.gmap (BangBonds.bangify exL) m2, fg2) /\ skeleton exS true m2 /\
    squash_atoms (BangGraph.gmap (BangBonds.bangify exL) m2) = Ok g' /\ squashed_ok exS exL m2 g' /\
    node_keys g' = [0; 1; 3] /\ has_edge g' 0 1 = true /\ has_edge g' 1 3 = true /\ has_edge g' 0 3 = false /\
    node_get g' 1 (S "fragid") = Some (VList [VInt 0; VInt 1]).
Proof.
  destruct exS_hypotheses as (H1 & H2 & H3 & _).
  destruct (shared_resolve_squash exS (fragdict_of exS) (base_of exS) exL (wf_cutb_sound _ H1) (templates_okb_sound _ _ H2) (is_baseb_sound _ _ H3))
    as (m1 & fg1 & m2 & fg2 & E1 & E2 & Sk & _ & Q).
  { intros x Hx. cbn in Hx. repeat destruct Hx as [<-|Hx]; try contradiction; split; eexists; vm_compute; reflexivity. }
  fold exS_fd in E1. pose proof exS_check_holds as K. unfold exS_check in K. rewrite E1 in K. cbn [bind fst snd] in K. rewrite E2 in K.
  destruct (squash_atoms (BangGraph.gmap (BangBonds.bangify exL) m2)) as [g'|e] eqn:Es; [|contradiction].
  exists m1, fg1, m2, fg2, g'. split; [exact E1|]. split; [exact E2|]. split; [exact Sk|]. split; [exact Es|]. split; [exact (Q g' eq_refl)|exact K].
Qed.
