(** ReturnedIso: the isomorphism for the graphs MoleculeResolver.resolve() RETURNS at an all-atom level.
    [all_atom_step_inv]: a returned all-atom step (PipelineFull.resolve_step_full) decomposed into its stages; the stages
    after sort_nodes_by_attr (E/Z annotation, annotate_fragments, atom names) keep the shape of the graph (keys, adjacency
    lists, edge dicts) and every node attribute except `ez_isomer`, `ez_isomer_class` and `atomname`.
    [returned_graphs_iso]: two returned all-atom steps on two listings of the parts of one cut, each with the identity
    aromaticity transcript: the returned fine graphs are isomorphic by  ms2 o iso o ms1^-1  (CutIso.returned_iso_gen).
    [C01 base_order_returned], [C06 layered_flat_resolve_iso]: the two properties' instances, whole resolve() calls. *)
From Coq Require Import String.
From Coq Require Import List Ascii ZArith Bool Lia Permutation.
From CGV Require Import Base.PyBase Base.PyVal Base.NxGraph Gen.HydroGen Resolve.Bonding Resolve.GraphOps Resolve.Pipeline Resolve.PipelineFull
     Resolve.FragidProofs Hydro.GraphLemmas Hydro.SquashDefs Hydro.HydroDefs Stereo.EzImpl Stereo.EzProofs.
From CGV Require Hydro.Hydrogens Hydro.Squash.
From CGV Require Import Compose.GraphFacts Compose.GraphAdj Compose.CutModel Compose.CutPos Compose.CutTables Compose.CutDisc
     Compose.CutSkeleton Compose.CutWf Compose.CutHydrogens Compose.ComposeFlat Compose.LayeredStep Compose.PartPerm Compose.Completion
     Compose.CutIso Compose.OrderIndep.
Import ListNotations.
Open Scope Z_scope.

(** attributes the stages after the sort leave alone *)
Definition after_sort_key (key : pystr) : Prop := key <> S "atomname" /\ key <> S "ez_isomer" /\ key <> S "ez_isomer_class".

Lemma set_atom_names_shape mol meta fgs mol' fgs' : set_atom_names mol meta fgs = Ok (mol', fgs') -> shape mol' = shape mol.
Proof.
  unfold set_atom_names, bind.
  destruct (GraphOps.fold_res name_group2 (fraglist_of meta fgs) (mol, fgs, [], [])) as [r|] eqn:E; [|discriminate].
  intros H. apply ok_some in H. injection H as H1 H2. subst mol'.
  set (P := fun g : graph => shape g = shape mol).
  apply (FragidProofs.fold_res_inv (fun st : nstate => P (ns_mol st)) name_group2 _) with (st := (mol, fgs, [], [])) (st' := r) in E; [exact E| |reflexivity].
  intros st grp st' Hs Hn. unfold name_group2 in Hn. destruct st as [[[m f] nd] sn].
  destruct (used_names m nd (snd grp)) as [used|]; cbn [bind] in Hn; [|discriminate Hn].
  match type of Hn with bind ?x _ = _ => destruct x as [r2|] eqn:E2 end; cbn [bind] in Hn; [|discriminate Hn].
  apply ok_some in Hn. subst st'.
  apply (FragidProofs.fold_res_inv (fun st : nstate * Z => P (ns_mol (fst st))) (name_node (fst grp) used) _) with (st := (m, f, nd, sn, 0)) (st' := r2) in E2;
    [exact E2| |exact Hs].
  intros s1 x s2 H1 Hx. destruct (name_node_mol _ _ _ _ _ Hx) as [->|[v ->]]; [exact H1|].
  unfold P in *. rewrite <- H1. apply shape_set_node_attr.
Qed.
Lemma set_atom_names_attrs mol meta fgs mol' fgs' : set_atom_names mol meta fgs = Ok (mol', fgs') ->
  forall k key, key <> S "atomname" -> node_get mol' k key = node_get mol k key.
Proof.
  unfold set_atom_names, bind.
  destruct (GraphOps.fold_res name_group2 (fraglist_of meta fgs) (mol, fgs, [], [])) as [r|] eqn:E; [|discriminate].
  intros H k key Nk. apply ok_some in H. injection H as H1 H2. subst mol'.
  set (P := fun g : graph => node_get g k key = node_get mol k key).
  apply (FragidProofs.fold_res_inv (fun st : nstate => P (ns_mol st)) name_group2 _) with (st := (mol, fgs, [], [])) (st' := r) in E; [exact E| |reflexivity].
  intros st grp st' Hs Hn. unfold name_group2 in Hn. destruct st as [[[m f] nd] sn].
  destruct (used_names m nd (snd grp)) as [used|]; cbn [bind] in Hn; [|discriminate Hn].
  match type of Hn with bind ?x _ = _ => destruct x as [r2|] eqn:E2 end; cbn [bind] in Hn; [|discriminate Hn].
  apply ok_some in Hn. subst st'.
  apply (FragidProofs.fold_res_inv (fun st : nstate * Z => P (ns_mol (fst st))) (name_node (fst grp) used) _) with (st := (m, f, nd, sn, 0)) (st' := r2) in E2;
    [exact E2| |exact Hs].
  intros s1 x s2 H1 Hx. destruct (name_node_mol _ _ _ _ _ Hx) as [->|[v ->]]; [exact H1|].
  unfold P in *. rewrite <- H1. unfold node_get. rewrite gfind_set_node_attr.
  destruct (Z.eqb k x); [|reflexivity]. destruct (gfind k (ns_mol (fst s1))); cbn; [now apply aget_aset_other|reflexivity].
Qed.

(** the stages of a returned all-atom step *)
Theorem all_atom_step_inv legacy fd prev car fo : resolve_step_full legacy true fd prev car = Ok fo ->
  exists m1 fg1 fg2,
    fo_meta fo = next_meta prev /\
    resolve_disconnected fd (next_meta prev) = Ok (m1, fg1) /\ bonding_step legacy true (next_meta prev) m1 fg1 = Ok (fo_m2 fo, fg2) /\
    Squash.squash_atoms (fo_m2 fo) = Ok (fo_m3 fo) /\ Hydrogens.rebuild_h_atoms_default (fo_m3 fo) car = Ok (fo_m4 fo) /\
    sort_nodes_by_attr (fo_m4 fo) = Ok (fo_m5 fo) /\
    node_keys (fo_mol fo) = node_keys (fo_m5 fo) /\
    (forall a b key, has_edge (fo_mol fo) a b = has_edge (fo_m5 fo) a b /\ edge_get (fo_mol fo) a b key = edge_get (fo_m5 fo) a b key) /\
    (forall k key, after_sort_key key -> node_get (fo_mol fo) k key = node_get (fo_m5 fo) k key).
Proof.
  unfold resolve_step_full. fold (next_meta prev). intros H.
  destruct (resolve_disconnected fd (next_meta prev)) as [[m1 fg1]|] eqn:E1; cbn [bind] in H; [|discriminate].
  destruct (bonding_step legacy true (next_meta prev) m1 fg1) as [[m2 fg2]|] eqn:E2; cbn [bind] in H; [|discriminate].
  destruct (Squash.squash_atoms m2) as [m3|] eqn:E3; cbn [bind] in H; [|discriminate].
  destruct (Hydrogens.rebuild_h_atoms_default m3 car) as [m4|] eqn:E4; cbn [bind] in H; [|discriminate].
  destruct (sort_nodes_by_attr m4) as [m5|] eqn:E5; cbn [bind] in H; [|discriminate].
  destruct (annotate_ez_isomers_cgsmiles m5) as [m6|] eqn:E6; cbn [bind] in H; [|discriminate].
  destruct (annotate_fragments (next_meta prev) m6) as [fgs|] eqn:E7; cbn [bind] in H; [|discriminate].
  destruct (set_atom_names m6 (next_meta prev) fgs) as [[m7 fgs']|] eqn:E8; cbn [bind] in H; [|discriminate].
  inversion H; subst fo. cbn [fo_meta fo_m2 fo_m3 fo_m4 fo_m5 fo_mol]. exists m1, fg1, fg2.
  destruct (annotate_cg_inv m5 m6 E6) as (_ & _ & _ & _ & Sh6 & _). pose proof (set_atom_names_shape _ _ _ _ _ E8) as Sh7.
  assert (shape m7 = shape m5) as Sh by congruence.
  repeat split; auto.
  - now apply shape_node_keys.
  - now apply shape_has_edge.
  - now apply shape_edge_get.
  - intros k key (N1 & N2 & N3). rewrite (set_atom_names_attrs _ _ _ _ _ E8 k key N1). now apply annotate_keeps.
Qed.

(** ---------------------------------------------------------------- two returned all-atom steps *)
Theorem returned_graphs_iso C1 C2 fd1 fd2 prev1 prev2 fo1 fo2 ms1 ms2 :
  wf_cut C1 -> pperm C1 C2 -> heavy_payload C1 -> numeric_orders C1 ->
  templates_ok C1 fd1 -> is_base C1 (next_meta prev1) -> templates_ok C2 fd2 -> is_base C2 (next_meta prev2) ->
  (* both calls return; the aromaticity transcripts are the identity *)
  resolve_step_full true true fd1 prev1 (Some (fo_m3 fo1)) = Ok fo1 -> resolve_step_full true true fd2 prev2 (Some (fo_m3 fo2)) = Ok fo2 ->
  sort_mapping (fo_m4 fo1) = Ok ms1 -> sort_mapping (fo_m4 fo2) = Ok ms2 ->
  skeleton C1 true (fo_m2 fo1) /\ skeleton C2 true (fo_m2 fo2) /\ fo_m3 fo1 = fo_m2 fo1 /\ fo_m3 fo2 = fo_m2 fo2 /\
  completion C1 (fo_m3 fo1) (fo_m4 fo1) /\ completion C2 (fo_m3 fo2) (fo_m4 fo2) /\
  returned_iso_gen after_sort_key C1 C2 (fo_m3 fo1) (fo_m4 fo1) (fo_m3 fo2) (fo_m4 fo2) (fo_mol fo1) (fo_mol fo2) ms1 ms2.
Proof.
  intros W1 PP Hat Hnum HT1 HB1 HT2 HB2 R1 R2 M1 M2. pose proof (pperm_wf C1 C2 W1 PP) as W2.
  destruct (all_atom_step_inv _ _ _ _ _ R1) as (a1 & afg1 & afg2 & _ & Ea1 & Ea2 & Sa & Ra & So1 & K1 & Ed1 & At1).
  destruct (all_atom_step_inv _ _ _ _ _ R2) as (b1 & bfg1 & bfg2 & _ & Eb1 & Eb2 & Sb & Rb & So2 & K2 & Ed2 & At2).
  destruct (all_atom_side C1 fd1 (next_meta prev1) W1 HT1 HB1 Hat Hnum) as (a1' & afg1' & a2' & afg2' & Ea1' & Ea2' & Sa' & Ska & Ka).
  destruct (all_atom_side C2 fd2 (next_meta prev2) W2 HT2 HB2 (heavy_payload_pp _ _ PP Hat) (numeric_orders_pp _ _ PP Hnum)) as (b1' & bfg1' & b2' & bfg2' & Eb1' & Eb2' & Sb' & Skb & Kb).
  rewrite Ea1 in Ea1'. inversion Ea1'; subst a1' afg1'. rewrite Ea2 in Ea2'. inversion Ea2'; subst a2' afg2'.
  rewrite Eb1 in Eb1'. inversion Eb1'; subst b1' bfg1'. rewrite Eb2 in Eb2'. inversion Eb2'; subst b2' bfg2'.
  rewrite Sa in Sa'. inversion Sa' as [E3a]. rewrite Sb in Sb'. inversion Sb' as [E3b].
  rewrite E3a in Ra. rewrite E3b in Rb. rewrite E3a, E3b.
  pose proof (Ka _ Ra) as Ca. pose proof (Kb _ Rb) as Cb.
  split; [exact Ska|]. split; [exact Skb|]. split; [reflexivity|]. split; [reflexivity|]. split; [exact Ca|]. split; [exact Cb|].
  assert (returned_iso C1 C2 (fo_m2 fo1) (fo_m4 fo1) (fo_m2 fo2) (fo_m4 fo2) (fo_m5 fo1) (fo_m5 fo2) ms1 ms2) as RI by (apply sorted_iso; assumption).
  apply (returned_iso_transfer after_sort_key C1 C2 _ _ _ _ (fo_m5 fo1) (fo_m5 fo2) _ _ _ _ RI K1 K2).
  - intros a b. exact (Ed1 a b (S "order")).
  - intros a b. exact (Ed2 a b (S "order")).
  - exact At1.
  - exact At2.
Qed.

(** C01: "in whatever order the base graph lists its nodes" - two whole resolve() calls on two base graphs that list the
    parts of the cut in different orders (the same fragment definitions) *)
Theorem base_order_returned C1 C2 fd prev1 prev2 fo1 fo2 ms1 ms2 :
  wf_cut C1 -> pperm C1 C2 -> heavy_payload C1 -> numeric_orders C1 ->
  templates_ok C1 fd -> is_base C1 (next_meta prev1) -> is_base C2 (next_meta prev2) ->
  resolve_step_full true true fd prev1 (Some (fo_m3 fo1)) = Ok fo1 -> resolve_step_full true true fd prev2 (Some (fo_m3 fo2)) = Ok fo2 ->
  sort_mapping (fo_m4 fo1) = Ok ms1 -> sort_mapping (fo_m4 fo2) = Ok ms2 ->
  returned_iso_gen after_sort_key C1 C2 (fo_m3 fo1) (fo_m4 fo1) (fo_m3 fo2) (fo_m4 fo2) (fo_mol fo1) (fo_mol fo2) ms1 ms2.
Proof.
  intros W1 PP Hat Hnum HT HB1 HB2 R1 R2 M1 M2.
  now destruct (returned_graphs_iso C1 C2 fd fd prev1 prev2 fo1 fo2 ms1 ms2 W1 PP Hat Hnum HT HB1 (pp_templates C1 C2 W1 PP fd HT) HB2 R1 R2 M1 M2) as (_ & _ & _ & _ & _ & _ & H).
Qed.

(** C06: layered against flat, whole resolve() calls: the first (coarse) call of the layered description returns
    ([coarse_step_returned]); its fine graph is the molecule the second, all-atom call starts from *)
Theorem layered_flat_resolve_iso C C' fd1 Btop fd2 Bflat car fol fof msl msf :
  wf_cut C -> wf_cut C' -> coarse_of C C' -> heavy_payload C -> numeric_orders C ->
  templates_ok C' fd1 -> is_base C' Btop -> get_node_attributes Btop (S "atomname") = [] ->
  templates_ok C fd2 -> is_base C (next_meta Bflat) ->
  exists fo, resolve_step_full true false fd1 Btop car = Ok fo /\
    (resolve_step_full true true fd2 Bflat (Some (fo_m3 fof)) = Ok fof ->
     resolve_step_full true true fd2 (fo_mol fo) (Some (fo_m3 fol)) = Ok fol ->
     sort_mapping (fo_m4 fof) = Ok msf -> sort_mapping (fo_m4 fol) = Ok msl ->
     returned_iso_gen after_sort_key C (perm_cut C C') (fo_m3 fof) (fo_m4 fof) (fo_m3 fol) (fo_m4 fol) (fo_mol fof) (fo_mol fol) msf msl).
Proof.
  intros W W' Co Hat Hnum HT1 HB1 Hnames HT2 HB2.
  destruct (coarse_step_returned C C' W W' Co fd1 HT1 Btop HB1 Hnames car) as (fo & Efo & _ & _ & _ & _ & _ & HBL).
  exists fo. split; [exact Efo|]. intros Rf Rl Mf Ml.
  now destruct (returned_graphs_iso C (perm_cut C C') fd2 fd2 Bflat (fo_mol fo) fof fol msf msl W (pperm_perm_cut C C' Co) Hat Hnum HT2 HB2
                  (templates_perm C C' W Co fd2 HT2) HBL Rf Rl Mf Ml) as (_ & _ & _ & _ & _ & _ & H).
Qed.
