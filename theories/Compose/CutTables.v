(** CutTables: the descriptor tables of a well-formed cut satisfy the hypotheses of CutFold.forced_fold
    (every cut bond a dedicated, uniquely labelled pair; labels of different base edges disjoint), in
    legacy (BigSmiles) matching, and the bond-creation fold is total on them. *)
From Coq Require Import String.
From Coq Require Import List Ascii ZArith Bool Lia Permutation.
From CGV Require Import Base.PyBase Base.PyVal Base.NxGraph Gen.ResolveGen Resolve.Bonding Resolve.BondingDefs
     Resolve.BondingSpec Resolve.BondingProofs Resolve.BondingCheck Resolve.CutCheck Resolve.CutBonding Resolve.CutFold
     Resolve.CopyProofs.
From CGV Require Import Compose.CutModel Compose.CutPos.
Import ListNotations.
Open Scope Z_scope.

(** ---------------------------------------------------------------- lists *)
Lemma NoDup_flat_map {A B} (f : A -> list B) l : NoDup l -> (forall x, In x l -> NoDup (f x)) ->
  (forall x y, In x l -> In y l -> x <> y -> forall d, In d (f x) -> ~ In d (f y)) -> NoDup (flat_map f l).
Proof.
  induction 1 as [|x r Hx Hr IH]; intros Hf Hd; cbn; [constructor|].
  apply NoDup_app_intro.
  - apply Hf. now left.
  - apply IH; [intros; apply Hf; now right|intros a b Ha Hb; apply Hd; now right].
  - intros d Hd1 Hd2. apply in_flat_map in Hd2 as (y & Hy & Hdy).
    refine (Hd x y (or_introl eq_refl) (or_intror Hy) _ d Hd1 Hdy). intros ->; contradiction.
Qed.
Lemma NoDup_map_eq {A B} (f : A -> B) l a b : NoDup (map f l) -> In a l -> In b l -> f a = f b -> a = b.
Proof.
  induction l as [|x r IH]; cbn; intros H Ha Hb E; [contradiction|]. inversion H as [|? ? Hx Hr]; subst.
  destruct Ha as [->|Ha], Hb as [->|Hb]; auto.
  - exfalso. apply Hx. rewrite E. now apply in_map.
  - exfalso. apply Hx. rewrite <- E. now apply in_map.
Qed.
Lemma cnt_notin d l : ~ In d l -> cnt d l = 0%nat.
Proof.
  induction l as [|x r IH]; cbn; intros H; [reflexivity|]. destruct (str_eqb_spec d x) as [->|N]; [exfalso; apply H; now left|].
  apply IH. tauto.
Qed.
Lemma cnt_nodup d l : NoDup l -> In d l -> cnt d l = 1%nat.
Proof.
  induction 1 as [|x r Hx Hr IH]; cbn; [tauto|]. intros [->|H].
  - rewrite str_eqb_refl, cnt_notin by exact Hx. reflexivity.
  - destruct (str_eqb_spec d x) as [->|N]; [contradiction|]. now apply IH.
Qed.
Lemma total_cnt_notin d t : ~ In d (concat (map snd t)) -> total_cnt d t = 0%nat.
Proof.
  induction t as [|[v xs] r IH]; cbn; intros H; [reflexivity|]. rewrite cnt_notin, IH; [reflexivity| |];
    intros X; apply H; apply in_or_app; [now right|now left].
Qed.
Lemma total_cnt_once d t u ds : NoDup (concat (map snd t)) -> In (u, ds) t -> In d ds -> total_cnt d t = 1%nat.
Proof.
  induction t as [|[v xs] r IH]; cbn; intros Hn Hin Hd; [contradiction|].
  destruct (NoDup_app_inv _ _ Hn) as (N1 & N2 & N3). destruct Hin as [E|Hin].
  - inversion E; subst. rewrite (cnt_nodup d ds N1 Hd), total_cnt_notin; [reflexivity|]. now apply N3.
  - rewrite cnt_notin, (IH N2 Hin Hd); [reflexivity|]. intros X. apply (N3 d X).
    apply in_concat. exists ds. split; [|exact Hd]. apply in_map_iff. exists (u, ds). auto.
Qed.

(** ---------------------------------------------------------------- a simple molecule *)
Lemma same_ends_refl b : same_ends b b.
Proof. left. auto. Qed.
Lemma same_ends_sym b b' : same_ends b b' -> same_ends b' b.
Proof. unfold same_ends. intros [[A B]|[A B]]; [left|right]; auto. Qed.
Lemma bonds_simple C : wf_cut C -> forall b b', In b (c_bonds C) -> In b' (c_bonds C) -> same_ends b b' -> b = b'.
Proof.
  intros W. pose proof (wc_simple C W) as H. induction H as [|x r Hx Hr IH]; intros b b' Hb Hb' S; [contradiction|].
  rewrite Forall_forall in Hx. destruct Hb as [<-|Hb], Hb' as [<-|Hb']; auto.
  - exfalso. exact (Hx b' Hb' S).
  - exfalso. exact (Hx b Hb (same_ends_sym _ _ S)).
Qed.
Lemma bonds_nodup C : wf_cut C -> NoDup (c_bonds C).
Proof.
  intros W. pose proof (wc_simple C W) as H. induction H as [|x r Hx Hr IH]; constructor; [|exact IH].
  rewrite Forall_forall in Hx. intros Hin. exact (Hx x Hin (same_ends_refl x)).
Qed.

(** ---------------------------------------------------------------- descriptor texts *)
Lemma dtext_inj s b s' b' : dtext s b = dtext s' b' -> kind_char s b = kind_char s' b' /\ cb_lab b = cb_lab b'.
Proof.
  unfold dtext, dtail. intros H. inversion H as [[H1 H2]]. split; [reflexivity|]. now apply app_inj_tail in H2.
Qed.
Lemma kind_char_cases s b : kind_char s b = "$"%char \/ kind_char s b = ">"%char \/ kind_char s b = "<"%char.
Proof. unfold kind_char. destruct (cb_dollar b); [now left|]. destruct s; auto. Qed.
Lemma kind_char_sides b : kind_char true b = kind_char false b -> cb_dollar b = true.
Proof. unfold kind_char. destruct (cb_dollar b); [reflexivity|discriminate]. Qed.
Lemma dtext_compat b : compat_str true (dtext true b) (dtext false b) = true /\ compat_str true (dtext false b) (dtext true b) = true.
Proof.
  unfold dtext, kind_char, compat_str, Compat, compl. rewrite str_eqb_refl. destruct (cb_dollar b); cbn; auto.
Qed.
Lemma compat_tails k t k' t' : compat_str true (k :: t) (k' :: t') = true -> t = t'.
Proof. cbn. intros H. now destruct (Compat_legacy_sound _ _ _ _ H). Qed.
(** a legacy-compatible pair of the cut's descriptor texts: same label; opposite sides unless `$` *)
Lemma dtext_compat_inv s b s' b' : compat_str true (dtext s b) (dtext s' b') = true -> cb_lab b = cb_lab b'.
Proof. unfold dtext, dtail. intros H. apply compat_tails in H. now apply app_inj_tail in H. Qed.
Lemma dtext_compat_same_side s b : compat_str true (dtext s b) (dtext s b) = true -> cb_dollar b = true.
Proof.
  unfold dtext, kind_char, compat_str, Compat, compl. destruct (cb_dollar b); [reflexivity|]. destruct s; cbn; rewrite ?andb_false_r; cbn; discriminate.
Qed.

Section Tables.
  Variable C : cut.
  Hypothesis W : wf_cut C.
  Let Hnd := wc_nodup C W.

  Lemma cuts_in b : In b (cuts C) <-> In b (c_bonds C) /\ is_cut C b = true.
  Proof. unfold cuts. apply filter_In. Qed.
  Lemma cut_ends b : In b (cuts C) -> In (cb_u b) (flat C) /\ In (cb_v b) (flat C) /\ owner C (cb_u b) <> owner C (cb_v b).
  Proof.
    intros H. apply cuts_in in H as [Hb Hc]. destruct (wc_ends C W b Hb) as (A & B & _). repeat split; auto.
    unfold is_cut in Hc. apply negb_true_iff in Hc. now apply Nat.eqb_neq in Hc.
  Qed.
  Lemma cuts_nodup : NoDup (cuts C).
  Proof. eapply NoDup_map_inv. exact (wc_labels C W). Qed.
  Lemma lab_unique b b' : In b (cuts C) -> In b' (cuts C) -> cb_lab b = cb_lab b' -> b = b'.
  Proof. intros. eapply NoDup_map_eq; eauto. exact (wc_labels C W). Qed.
  Lemma bend_owner_ne b s : In b (cuts C) -> owner C (bend s b) <> owner C (bend (negb s) b).
  Proof. intros H. destruct (cut_ends b H) as (_ & _ & N). destruct s; cbn; congruence. Qed.

  Lemma descs0_in x d : In d (descs0 C x) <-> exists b s, In b (cuts C) /\ bend s b = x /\ d = dtext s b.
  Proof.
    unfold descs0. rewrite in_flat_map. split.
    - intros (b & Hb & Hd). apply in_app_or in Hd as [Hd|Hd].
      + destruct (Z.eqb_spec (cb_u b) x) as [E|]; [|contradiction]. destruct Hd as [<-|[]]. exists b, true. auto.
      + destruct (Z.eqb_spec (cb_v b) x) as [E|]; [|contradiction]. destruct Hd as [<-|[]]. exists b, false. auto.
    - intros (b & s & Hb & E & ->). exists b. split; [exact Hb|]. apply in_or_app. destruct s; cbn in E; subst x.
      + left. rewrite Z.eqb_refl. now left.
      + right. rewrite Z.eqb_refl. now left.
  Qed.

  Lemma descs_perm0 x : Permutation (descs C x) (descs0 C x).
  Proof.
    unfold descs. destruct (find _ (c_dord C)) as [kv|] eqn:E; [|reflexivity]. apply find_some in E as [Hin Hk].
    apply Z.eqb_eq in Hk. subst x. exact (wc_dord C W kv Hin).
  Qed.
  Lemma descs_in x d : In d (descs C x) <-> exists b s, In b (cuts C) /\ bend s b = x /\ d = dtext s b.
  Proof.
    rewrite <- descs0_in. split; apply Permutation_in; [apply descs_perm0|apply Permutation_sym, descs_perm0].
  Qed.

  (** one text, two occurrences: the same cut bond; the same end unless the bond is `$` *)
  Lemma text_unique b s b' s' : In b (cuts C) -> In b' (cuts C) -> dtext s b = dtext s' b' ->
    b = b' /\ (s = s' \/ cb_dollar b = true).
  Proof.
    intros Hb Hb' E. destruct (dtext_inj _ _ _ _ E) as [K L]. pose proof (lab_unique b b' Hb Hb' L). subst b'.
    split; [reflexivity|]. destruct s, s'; auto; right; [|symmetry in K]; now apply kind_char_sides.
  Qed.

  Lemma descs0_nodup x : NoDup (descs0 C x).
  Proof.
    unfold descs0. apply NoDup_flat_map; [exact cuts_nodup| |].
    - intros b Hb. destruct (cut_ends b Hb) as (_ & _ & N).
      destruct (Z.eqb_spec (cb_u b) x) as [E1|], (Z.eqb_spec (cb_v b) x) as [E2|]; cbn;
        [exfalso; apply N; congruence| | |]; repeat constructor; tauto.
    - intros b b' Hb Hb' Nbb d Hd Hd'.
      assert (exists s, d = dtext s b) as [s ->].
      { apply in_app_or in Hd as [Hd|Hd]; [destruct (Z.eqb (cb_u b) x)|destruct (Z.eqb (cb_v b) x)]; try contradiction;
          destruct Hd as [<-|[]]; eauto. }
      assert (exists s', dtext s b = dtext s' b') as [s' E].
      { apply in_app_or in Hd' as [Hd'|Hd']; [destruct (Z.eqb (cb_u b') x)|destruct (Z.eqb (cb_v b') x)]; try contradiction;
          destruct Hd' as [<-|[]]; eauto. }
      apply Nbb. now destruct (text_unique b s b' s' Hb Hb' E).
  Qed.

  Lemma descs_nodup x : NoDup (descs C x).
  Proof. eapply Permutation_NoDup; [apply Permutation_sym, descs_perm0|apply descs0_nodup]. Qed.

  (** inside one part a text is written on one atom only *)
  Lemma desc_one_atom x x' d : owner C x = owner C x' -> In d (descs C x) -> In d (descs C x') -> x = x'.
  Proof.
    intros Ho Hd Hd'. apply descs_in in Hd as (b & s & Hb & Ex & ->). apply descs_in in Hd' as (b' & s' & Hb' & Ex' & E).
    destruct (text_unique b s b' s' Hb Hb' E) as [<- [<-|_]]; [congruence|].
    destruct (Bool.bool_dec s s') as [<-|Ns]; [congruence|]. exfalso.
    apply (bend_owner_ne b s Hb). replace (negb s) with s' by (destruct s, s'; cbn; congruence). congruence.
  Qed.

  (** ------------------------------------------------------------ the table of a part *)
  Lemma tbl_from_rows xs : forall k u ds, In (u, ds) (tbl_from C k xs) <->
    exists i x, nth_error xs i = Some x /\ u = k + Z.of_nat i /\ ds = descs C x /\ ds <> [].
  Proof.
    induction xs as [|x r IH]; intros k u ds; cbn [tbl_from].
    - split; [contradiction|]. intros (i & y & H & _). destruct i; discriminate.
    - rewrite in_app_iff, IH. split.
      + intros [H|(i & y & Hy & E1 & E2 & E3)].
        * destruct (descs C x) as [|d0 dr] eqn:Ed; [contradiction|]. destruct H as [H|[]]. inversion H; subst.
          exists 0%nat, x. rewrite Ed. repeat split; [lia|discriminate].
        * exists (Datatypes.S i), y. repeat split; auto. lia.
      + intros ([|i] & y & Hy & E1 & E2 & E3).
        * left. cbn in Hy. inversion Hy; subst y. subst ds. destruct (descs C x) eqn:Ed; [congruence|]. left. f_equal. lia.
        * right. exists i, y. repeat split; auto. lia.
  Qed.
  Lemma tbl_from_keys xs : forall k u, In u (map fst (tbl_from C k xs)) -> k <= u < k + Z.of_nat (length xs).
  Proof.
    intros k u H. apply in_map_iff in H as ([u' ds] & E & Hin). cbn in E. subst u'.
    apply tbl_from_rows in Hin as (i & x & Hi & -> & _). assert (i < length xs)%nat by (apply nth_error_Some; congruence). lia.
  Qed.
  Lemma tbl_from_nodup xs : forall k, NoDup (map fst (tbl_from C k xs)).
  Proof.
    induction xs as [|x r IH]; intros k; cbn [tbl_from]; [constructor|]. rewrite map_app. apply NoDup_app_intro.
    - destruct (descs C x); cbn; repeat constructor. tauto.
    - apply IH.
    - intros u Hu Hr. apply tbl_from_keys in Hr. destruct (descs C x); cbn in Hu; [contradiction|]. destruct Hu as [<-|[]]. lia.
  Qed.
  Lemma tbl_from_concat xs : forall k, concat (map snd (tbl_from C k xs)) = flat_map (descs C) xs.
  Proof.
    induction xs as [|x r IH]; intros k; cbn [tbl_from flat_map]; [reflexivity|].
    rewrite map_app, concat_app, IH. f_equal. destruct (descs C x); cbn; [reflexivity|now rewrite app_nil_r].
  Qed.

  Lemma slookup_tables_from ps : forall p0 k0 p,
    slookup (p0 + Z.of_nat p) (tables_from C p0 k0 ps) =
    match nth_error ps p with
    | Some q => tbl_from C (k0 + Z.of_nat (length (concat (map snd (firstn p ps))))) (snd q)
    | None => []
    end.
  Proof.
    induction ps as [|q r IH]; intros p0 k0 p; cbn [tables_from slookup]; [destruct p; reflexivity|].
    destruct p as [|p].
    - cbn. rewrite Z.add_0_r, Z.eqb_refl. f_equal. lia.
    - destruct (Z.eqb_spec (p0 + Z.of_nat (Datatypes.S p)) p0) as [E|_]; [lia|].
      replace (p0 + Z.of_nat (Datatypes.S p)) with (p0 + 1 + Z.of_nat p) by lia. rewrite IH. cbn [nth_error firstn map concat].
      destruct (nth_error r p); [|reflexivity]. f_equal. rewrite app_length. lia.
  Qed.
  Lemma tables_keys ps : forall p0 k0, map fst (tables_from C p0 k0 ps) = map (fun i => p0 + Z.of_nat i) (seq 0 (length ps)).
  Proof.
    induction ps as [|q r IH]; intros p0 k0; cbn [tables_from map length seq]; [reflexivity|]. f_equal; [cbn; lia|].
    rewrite IH, <- seq_shift, map_map. apply map_ext. intros i. lia.
  Qed.

  Definition tbl_of (p : nat) : tbl := slookup (Z.of_nat p) (tables C).
  Lemma tbl_of_part p name xs : nth_error (c_parts C) p = Some (name, xs) -> tbl_of p = tbl_from C (Z.of_nat (off C p)) xs.
  Proof.
    intros H. unfold tbl_of, tables. rewrite <- (Z.add_0_l (Z.of_nat p)), slookup_tables_from, H. reflexivity.
  Qed.
  Lemma tbl_of_none p : nth_error (c_parts C) p = None -> tbl_of p = [].
  Proof. intros H. unfold tbl_of, tables. rewrite <- (Z.add_0_l (Z.of_nat p)), slookup_tables_from, H. reflexivity. Qed.

  Lemma wf_tables : wf_state (tables C).
  Proof.
    intros a. destruct (Z.ltb_spec a 0) as [Hneg|Hpos].
    - assert (slookup a (tables C) = []) as ->; [|constructor].
      unfold tables. generalize 0 at 2. generalize (c_parts C). assert (forall ps k0 p0, a < p0 -> slookup a (tables_from C p0 k0 ps) = []) as X.
      { induction ps as [|q r IH]; intros k0 p0 Hp; cbn; [reflexivity|]. destruct (Z.eqb_spec a p0); [lia|]. apply IH. lia. }
      intros ps k0. now apply X.
    - replace a with (Z.of_nat (Z.to_nat a)) by lia. fold (tbl_of (Z.to_nat a)).
      destruct (nth_error (c_parts C) (Z.to_nat a)) as [[name xs]|] eqn:E.
      + rewrite (tbl_of_part _ _ _ E). apply tbl_from_nodup.
      + rewrite (tbl_of_none _ E). constructor.
  Qed.

  (** rows of the table of part p = the atoms of p that carry descriptors *)
  Lemma tbl_rows p u ds : In (u, ds) (tbl_of p) ->
    exists x, In x (flat C) /\ owner C x = p /\ u = phi C x /\ ds = descs C x.
  Proof.
    intros H. destruct (nth_error (c_parts C) p) as [[name xs]|] eqn:E; [|rewrite (tbl_of_none _ E) in H; contradiction].
    rewrite (tbl_of_part _ _ _ E) in H. apply tbl_from_rows in H as (i & x & Hi & -> & -> & _).
    destruct (phi_part C Hnd _ _ _ _ _ E Hi) as [P O]. exists x. repeat split; auto; [|lia].
    eapply part_in_flat; eauto. eapply nth_error_In; eauto.
  Qed.
  Lemma row_of_atom x d : In x (flat C) -> In d (descs C x) ->
    In d (tlookup (phi C x) (tbl_of (owner C x))) /\ total_cnt d (tbl_of (owner C x)) = 1%nat /\
    In (phi C x, descs C x) (tbl_of (owner C x)).
  Proof.
    intros Hx Hd. destruct (owner_spec C Hnd x Hx) as (name & xs & i & Hp & Hi & Ephi).
    rewrite (tbl_of_part _ _ _ Hp).
    assert (In (phi C x, descs C x) (tbl_from C (Z.of_nat (off C (owner C x))) xs)) as Hrow.
    { apply tbl_from_rows. exists i, x. repeat split; [exact Hi|rewrite Ephi; lia|]. intros E. rewrite E in Hd. contradiction. }
    split; [|split; [|exact Hrow]].
    - rewrite (tlookup_in _ _ _ (tbl_from_nodup xs _) Hrow). exact Hd.
    - apply (total_cnt_once d _ (phi C x) (descs C x)); [|exact Hrow|exact Hd].
      rewrite tbl_from_concat. apply NoDup_flat_map.
      + destruct (parts_split C _ _ _ Hp) as (pre & post & _ & _ & _ & Fl). rewrite Fl in Hnd.
        destruct (NoDup_app_inv _ _ Hnd) as (_ & N2 & _). now destruct (NoDup_app_inv _ _ N2).
      + intros y _. apply descs_nodup.
      + intros y z Hy Hz Nyz e He He'. apply Nyz. apply (desc_one_atom y z e); auto.
        apply In_nth_error in Hy as [iy Hy]. apply In_nth_error in Hz as [iz Hz].
        destruct (phi_part C Hnd _ _ _ _ _ Hp Hy) as [_ ->]. now destruct (phi_part C Hnd _ _ _ _ _ Hp Hz) as [_ ->].
  Qed.

  (** ------------------------------------------------------------ cut pairs *)
  Lemma cutpairs_in p q c : In c (cutpairs C p q) <->
    exists b s, In b (cuts C) /\ owner C (bend s b) = p /\ owner C (bend (negb s) b) = q /\
                c = (phi C (bend s b), dtext s b, phi C (bend (negb s) b), dtext (negb s) b) /\
                (s = false -> ~ (owner C (cb_u b) = p /\ owner C (cb_v b) = q)).
  Proof.
    unfold cutpairs. rewrite in_flat_map. unfold cp_of. split.
    - intros (b & Hb & Hc).
      destruct (Nat.eqb_spec (owner C (cb_u b)) p) as [E1|N1], (Nat.eqb_spec (owner C (cb_v b)) q) as [E2|N2]; cbn [andb] in Hc.
      + destruct Hc as [<-|[]]. exists b, true. cbn. repeat split; auto. discriminate.
      + destruct (Nat.eqb_spec (owner C (cb_u b)) q) as [E3|], (Nat.eqb_spec (owner C (cb_v b)) p) as [E4|]; cbn in Hc; try contradiction.
        destruct Hc as [<-|[]]. exists b, false. cbn. repeat split; auto. tauto.
      + destruct (Nat.eqb_spec (owner C (cb_u b)) q) as [E3|], (Nat.eqb_spec (owner C (cb_v b)) p) as [E4|]; cbn in Hc; try contradiction.
        destruct Hc as [<-|[]]. exists b, false. cbn. repeat split; auto. tauto.
      + destruct (Nat.eqb_spec (owner C (cb_u b)) q) as [E3|], (Nat.eqb_spec (owner C (cb_v b)) p) as [E4|]; cbn in Hc; try contradiction.
        destruct Hc as [<-|[]]. exists b, false. cbn. repeat split; auto. tauto.
    - intros (b & s & Hb & E1 & E2 & -> & Hs). exists b. split; [exact Hb|]. destruct s; cbn in *.
      + rewrite E1, E2, !Nat.eqb_refl. now left.
      + destruct (Nat.eqb_spec (owner C (cb_u b)) p) as [A|A], (Nat.eqb_spec (owner C (cb_v b)) q) as [B|B]; cbn [andb];
          try (exfalso; apply (Hs eq_refl); tauto); rewrite E1, E2, !Nat.eqb_refl; now left.
  Qed.

  Lemma cp_of_cases p q b : cp_of C p q b = [] \/
    exists s, cp_of C p q b = [(phi C (bend s b), dtext s b, phi C (bend (negb s) b), dtext (negb s) b)].
  Proof.
    unfold cp_of. destruct (_ && _); [right; exists true; reflexivity|]. destruct (_ && _); [right; exists false; reflexivity|now left].
  Qed.
  Definition cp_side (first : bool) (c : cutpair) : pystr := if first then cp_d c else cp_t c.
  Lemma cp_nodup p q (fs : bool) : forall l, NoDup (map cb_lab l) ->
    NoDup (map (fun c => if fs then cp_d c else cp_t c) (flat_map (cp_of C p q) l)).
  Proof.
    assert (forall l d, In d (map (fun c => if fs then cp_d c else cp_t c) (flat_map (cp_of C p q) l)) ->
              exists b s, In b l /\ d = dtext s b) as Hin.
    { intros l d Hd. apply in_map_iff in Hd as (c & <- & Hc). apply in_flat_map in Hc as (b & Hb & Hc).
      destruct (cp_of_cases p q b) as [E|[s E]]; rewrite E in Hc; [contradiction|]. destruct Hc as [<-|[]].
      exists b. destruct fs; [exists s|exists (negb s)]; auto. }
    induction l as [|b r IH]; intros Hl; cbn [flat_map map]; [constructor|]. inversion Hl as [|? ? Hb Hr]; subst.
    rewrite map_app. apply NoDup_app_intro; [|now apply IH|].
    - destruct (cp_of_cases p q b) as [E|[s E]]; rewrite E; cbn; repeat constructor. tauto.
    - intros d Hd Hd'. destruct (Hin r d Hd') as (b' & s' & Hb' & E'). subst d. apply Hb.
      destruct (Hin [b] (dtext s' b')) as (b0 & s0 & Hb0 & E0); [cbn [flat_map]; now rewrite app_nil_r|].
      destruct Hb0 as [<-|[]]. destruct (dtext_inj _ _ _ _ E0) as [_ <-]. now apply in_map.
  Qed.

  Lemma cutpairs_dedicated p q : p <> q ->
    dedicated true (tbl_of p) (tbl_of q) (cutpairs C p q).
  Proof.
    intros Npq. constructor.
    - intros c Hc. apply cutpairs_in in Hc as (b & s & Hb & E1 & E2 & -> & _). unfold cp_d, cp_u. cbn [fst snd].
      assert (In (bend s b) (flat C)) as Hx by (destruct (cut_ends b Hb) as (A & B & _); destruct s; assumption).
      assert (In (dtext s b) (descs C (bend s b))) as Hd by (apply descs_in; exists b, s; auto).
      destruct (row_of_atom _ _ Hx Hd) as (A & B & _). rewrite E1 in A, B. auto.
    - intros c Hc. apply cutpairs_in in Hc as (b & s & Hb & E1 & E2 & -> & _). unfold cp_t, cp_v. cbn [fst snd].
      assert (In (bend (negb s) b) (flat C)) as Hx by (destruct (cut_ends b Hb) as (A & B & _); destruct s; assumption).
      assert (In (dtext (negb s) b) (descs C (bend (negb s) b))) as Hd by (apply descs_in; exists b, (negb s); auto).
      destruct (row_of_atom _ _ Hx Hd) as (A & B & _). rewrite E2 in A, B. auto.
    - intros c Hc. apply cutpairs_in in Hc as (b & s & Hb & E1 & E2 & -> & _). unfold cp_d, cp_t. cbn [fst snd].
      destruct (dtext_compat b). destruct s; assumption.
    - intros u ds v ts d t Hu Hv Hd Ht Hc.
      destruct (tbl_rows _ _ _ Hu) as (x & Hx & Ox & -> & ->). destruct (tbl_rows _ _ _ Hv) as (y & Hy & Oy & -> & ->).
      apply descs_in in Hd as (b & s & Hb & Ex & ->). apply descs_in in Ht as (b' & s' & Hb' & Ey & ->).
      pose proof (lab_unique b b' Hb Hb' (dtext_compat_inv _ _ _ _ Hc)). subst b'.
      assert (s' = negb s) as ->.
      { destruct (Bool.bool_dec s' s) as [->|N]; [exfalso; apply Npq; congruence|destruct s, s'; cbn; congruence]. }
      exists (phi C (bend s b), dtext s b, phi C (bend (negb s) b), dtext (negb s) b). split; [|split; reflexivity].
      apply cutpairs_in. exists b, s. subst x y. repeat split; auto.
      intros -> [A B]. cbn in Ox, Oy. apply Npq. congruence.
    - apply (cp_nodup p q true (cuts C) (wc_labels C W)).
    - apply (cp_nodup p q false (cuts C) (wc_labels C W)).
  Qed.

  Definition cedge (p q : nat) : cutedge := (Z.of_nat p, Z.of_nat q, cutpairs C p q).

  Lemma on_inv x p q d : In d (on x (cedge p q)) -> exists b s, In b (cuts C) /\ d = dtext s b /\
    ((owner C (cb_u b) = p /\ owner C (cb_v b) = q) \/ (owner C (cb_u b) = q /\ owner C (cb_v b) = p)).
  Proof.
    unfold on, cedge, ce_a, ce_b, ce_L. cbn [fst snd]. intros H.
    assert (exists c, In c (cutpairs C p q) /\ (d = cp_d c \/ d = cp_t c)) as (c & Hc & Hd).
    { apply in_app_or in H as [H|H]; [destruct (Z.eqb x (Z.of_nat p))|destruct (Z.eqb x (Z.of_nat q))]; try contradiction;
        apply in_map_iff in H as (c & <- & Hc); eauto. }
    apply cutpairs_in in Hc as (b & s & Hb & E1 & E2 & -> & _). unfold cp_d, cp_t in Hd. cbn [fst snd] in Hd.
    exists b. destruct Hd as [-> | ->]; [exists s|exists (negb s)]; (split; [exact Hb|split; [reflexivity|]]); destruct s; cbn in *; auto.
  Qed.

  Lemma cedges_disjoint p q p' q' : ~ ((p = p' /\ q = q') \/ (p = q' /\ q = p')) -> disjoint_edges (cedge p q) (cedge p' q').
  Proof.
    intros N x d Hd Hd'. destruct (on_inv _ _ _ _ Hd) as (b & s & Hb & -> & Ho). destruct (on_inv _ _ _ _ Hd') as (b' & s' & Hb' & E & Ho').
    destruct (text_unique b s b' s' Hb Hb' E) as [<- _]. apply N. destruct Ho as [[A B]|[A B]], Ho' as [[A' B']|[A' B']]; subst; auto.
  Qed.
End Tables.

(** ---------------------------------------------------------------- totality of the fold on well-shaped descriptors *)
Definition good (d : pystr) : Prop := exists k lab n, d = k :: lab ++ [digit_char n] /\ (n <= 9)%nat.
Definition good_tbl (t : tbl) : Prop := forall u ds d, In (u, ds) t -> In d ds -> good d.
Definition good_state (s : cstate) : Prop := forall a t, In (a, t) s -> good_tbl t.

Lemma py_int_digit n : (n <= 9)%nat -> py_int [digit_char n] = Ok (Z.of_nat n).
Proof. intros H. do 10 (destruct n as [|n]; [reflexivity|]). lia. Qed.
Lemma good_last k lab n : py_last (k :: lab ++ [digit_char n]) = Ok (digit_char n).
Proof. unfold py_last. cbn [rev]. rewrite rev_app_distr. reflexivity. Qed.
Lemma bond_order_good arom u v k lab n : (n <= 9)%nat ->
  bond_order arom u v (k :: lab ++ [digit_char n]) = Ok (if arom u && arom v then VFlt (S "1.5") else VInt (Z.of_nat n)).
Proof. intros H. unfold bond_order. rewrite good_last. cbn [bind]. rewrite (py_int_digit n H). cbn [bind]. destruct (arom u && arom v); reflexivity. Qed.
Lemma good_nonempty d : good d -> d <> [].
Proof. intros (k & lab & n & -> & _). discriminate. Qed.

Lemma find_target_total d ts : good d -> (forall t, In t ts -> good t) -> exists o, find_target true d ts = Ok o.
Proof.
  intros Gd. induction ts as [|t r IH]; intros G; cbn; [eauto|].
  rewrite compatible_nonempty by (apply good_nonempty; auto; apply G; now left). cbn [bind].
  destruct (compat_str true d t); [eauto|]. apply IH. intros; apply G; now right.
Qed.
Lemma first_pair_total ds ts : (forall d, In d ds -> good d) -> (forall t, In t ts -> good t) -> exists o, first_pair true ds ts = Ok o.
Proof.
  induction ds as [|d r IH]; intros Gd Gt; cbn; [eauto|].
  destruct (find_target_total d ts (Gd d (or_introl eq_refl)) Gt) as [o ->]. cbn [bind]. destruct o; [eauto|].
  apply IH; [intros; apply Gd; now right|exact Gt].
Qed.
Lemma scan_targets_total ds tg : (forall d, In d ds -> good d) -> good_tbl tg -> exists o, scan_targets true ds tg = Ok o.
Proof.
  induction tg as [|[v ts] r IH]; intros Gd Gt; cbn; [eauto|].
  destruct (first_pair_total ds ts Gd) as [o ->]; [intros t Ht; apply (Gt v ts t); [now left|exact Ht]|]. cbn [bind].
  destruct o as [[d t]|]; [eauto|]. apply IH; [exact Gd|]. intros u ds' d' Hin. apply (Gt u ds' d'). now right.
Qed.
Lemma match_bonding_total sr tg : good_tbl sr -> good_tbl tg -> exists o, match_bonding true sr tg = Ok o.
Proof.
  induction sr as [|[u ds] r IH]; intros Gs Gt; cbn; [eauto|].
  destruct (scan_targets_total ds tg) as [o ->]; [intros d Hd; apply (Gs u ds d); [now left|exact Hd]|exact Gt|]. cbn [bind].
  destruct o as [[[v d] t]|]; [eauto|]. apply IH; [|exact Gt]. intros u' ds' d' Hin. apply (Gs u' ds' d'). now right.
Qed.

Lemma match_bonding_some_in sr tg u v d1 d2 : match_bonding true sr tg = Ok (Some (u, v, d1, d2)) ->
  exists ds, In (u, ds) sr /\ In d1 ds.
Proof.
  induction sr as [|[w ds] r IH]; cbn; [discriminate|].
  destruct (scan_targets true ds tg) as [[[[v' d'] t']|]|e] eqn:E; cbn; try discriminate.
  - intros H. inversion H; subst. destruct (scan_targets_some _ _ _ _ _ _ E) as (ts & _ & Hd & _). exists ds. split; [now left|exact Hd].
  - intros H. destruct (IH H) as (ds' & Hin & Hd). exists ds'. split; [now right|exact Hd].
Qed.

Lemma good_tbl_remove u d t : good_tbl t -> good_tbl (tbl_remove u d t).
Proof.
  intros G w ds x Hin Hx. destruct (in_tbl_remove _ _ _ _ _ Hin) as (ds0 & H0 & Hsub). exact (G w ds0 x H0 (Hsub x Hx)).
Qed.
Lemma cget_in a s t : cget a s = Ok t -> In (a, t) s.
Proof.
  induction s as [|[k t'] r IH]; cbn; [discriminate|]. destruct (Z.eqb_spec a k) as [->|N]; [intros H; inversion H; now left|right; auto].
Qed.
Lemma cget_total a s : In a (map fst s) -> exists t, cget a s = Ok t.
Proof.
  induction s as [|[k t'] r IH]; cbn; [tauto|]. destruct (Z.eqb_spec a k) as [->|N]; [eauto|]. intros [E|H]; [congruence|auto].
Qed.
Lemma cset_keys a t s : map fst (cset a t s) = map fst s.
Proof. induction s as [|[k t'] r IH]; cbn; [reflexivity|]. destruct (Z.eqb a k); cbn; congruence. Qed.
Lemma good_state_cset a t s : good_state s -> good_tbl t -> good_state (cset a t s).
Proof.
  intros G Gt. induction s as [|[k t'] r IH]; cbn; [intros ? ? []|].
  destruct (Z.eqb a k); intros x y [E|H].
  - inversion E; subst. exact Gt.
  - apply (G x y). now right.
  - inversion E; subst. apply (G x y). now left.
  - refine (IH _ x y H). intros x' y' H'. apply (G x' y'). now right.
Qed.

Lemma edge_loop_total arom n : forall a b s acc, good_state s -> In a (map fst s) -> In b (map fst s) ->
  exists s' acc', edge_loop true arom n a b s acc = Ok (s', acc') /\ good_state s' /\ map fst s' = map fst s.
Proof.
  induction n as [|k IH]; intros a b s acc G Ha Hb; cbn [edge_loop]; [eauto|].
  destruct (cget_total a s Ha) as [sr Ea]. destruct (cget_total b s Hb) as [tg Eb]. rewrite Ea, Eb. cbn [bind].
  pose proof (G _ _ (cget_in _ _ _ Ea)) as Gsr. pose proof (G _ _ (cget_in _ _ _ Eb)) as Gtg.
  destruct (match_bonding_total sr tg Gsr Gtg) as [o Em]. rewrite Em. cbn [bind].
  destruct o as [[[[u v] d1] d2]|]; [|apply IH; auto].
  set (s1 := cset a (tbl_remove u d1 sr) s).
  assert (good_state s1) as G1 by (apply good_state_cset; [exact G|now apply good_tbl_remove]).
  assert (In b (map fst s1)) as Hb1 by (unfold s1; now rewrite cset_keys).
  destruct (cget_total b s1 Hb1) as [tg1 Eb1]. rewrite Eb1. cbn [bind].
  pose proof (G1 _ _ (cget_in _ _ _ Eb1)) as Gtg1.
  set (s2 := cset b (tbl_remove v d2 tg1) s1).
  assert (good_state s2) as G2 by (apply good_state_cset; [exact G1|now apply good_tbl_remove]).
  assert (good d1) as (kc & lab & m & -> & Hm).
  { destruct (match_bonding_some_in sr tg u v d1 d2 Em) as (ds & Hin & Hd). exact (Gsr u ds d1 Hin Hd). }
  rewrite bond_order_good by exact Hm. cbn [bind].
  destruct (IH a b s2 (acc ++ [{| b_src := a; b_tgt := b; b_u := u; b_v := v; b_d1 := kc :: lab ++ [digit_char m]; b_d2 := d2;
                               b_order := if arom u && arom v then VFlt (S "1.5") else VInt (Z.of_nat m) |}]) G2) as (s' & acc' & E & G' & K').
  - unfold s2, s1. now rewrite !cset_keys.
  - unfold s2, s1. now rewrite !cset_keys.
  - exists s', acc'. split; [exact E|]. split; [exact G'|]. rewrite K'. unfold s2, s1. now rewrite !cset_keys.
Qed.

Lemma edges_from_bonding_total arom edges : forall s acc, good_state s ->
  (forall e, In e edges -> In (fst (fst e)) (map fst s) /\ In (snd (fst e)) (map fst s)) ->
  exists s' acc', edges_from_bonding true arom edges s acc = Ok (s', acc').
Proof.
  induction edges as [|[[a b] o] r IH]; intros s acc G H; cbn [edges_from_bonding]; [eauto|].
  destruct (H (a, b, o) (or_introl eq_refl)) as [Ha Hb]. cbn in Ha, Hb.
  destruct (edge_loop_total arom (Z.to_nat o) a b s acc G Ha Hb) as (s1 & acc1 & E & G1 & K1). rewrite E. cbn [bind].
  apply IH; [exact G1|]. intros e He. rewrite K1. apply H. now right.
Qed.

Lemma bdigit_le b : (bdigit b <= 9)%nat.
Proof.
  unfold bdigit, digit_of. destruct (cb_ord b); try lia.
  - destruct (Z.leb_spec 0 z), (Z.leb_spec z 9); cbn; lia.
  - destruct (str_eqb r (S "1.5")); lia.
Qed.
Lemma dtext_good s b : good (dtext s b).
Proof. exists (kind_char s b), (cb_lab b), (bdigit b). split; [reflexivity|apply bdigit_le]. Qed.
