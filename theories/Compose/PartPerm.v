(** PartPerm: the same molecule with the same cut bonds, its parts listed in another order ([pperm]).  This is what a base
    graph that lists its nodes in another order amounts to (the cut record lists the parts in base-node order), and what
    a grouping of the parts does ([perm_cut]).  Which bonds are cut, the descriptors, the orders the resolver writes, the
    bond sums and the numbers of hydrogens do not depend on the order of the parts; the fine keys do: [phi] is offset of
    the part in ITS list + index in the part. *)
From Coq Require Import String.
From Coq Require Import List Ascii ZArith Bool Lia Permutation.
From CGV Require Import Base.PyBase Base.PyVal Base.NxGraph Resolve.Bonding Resolve.GraphOps.
From CGV Require Hydro.Hydrogens.
From CGV Require Import Compose.CutModel Compose.CutPos Compose.CutTables Compose.CutSkeleton Compose.CutWf Compose.CutHydrogens Compose.ComposeFlat.
Import ListNotations.
Open Scope Z_scope.

Record pperm (C1 C2 : cut) : Prop := {
  pp_atoms : c_atoms C2 = c_atoms C1;
  pp_bonds : c_bonds C2 = c_bonds C1;
  pp_dord : c_dord C2 = c_dord C1;
  pp_parts : Permutation (c_parts C2) (c_parts C1) }.

Lemma pperm_refl C : pperm C C.
Proof. constructor; reflexivity. Qed.
Lemma pperm_sym C1 C2 : pperm C1 C2 -> pperm C2 C1.
Proof. intros [A B D P]. constructor; auto. now apply Permutation_sym. Qed.
Lemma pperm_perm_cut C E : coarse_of C E -> pperm C (perm_cut C E).
Proof. intros Co. constructor; try reflexivity. exact (parts_perm C E Co). Qed.

(** being in the same part *)
Lemma owner_same_part C x y : NoDup (flat C) -> In x (flat C) -> In y (flat C) ->
  (owner C x = owner C y <-> exists p, In p (c_parts C) /\ In x (snd p) /\ In y (snd p)).
Proof.
  intros Hnd Fx Fy. split.
  - intros E. destruct (owner_spec C Hnd x Fx) as (nx & xs & ix & Px & Ix & _). destruct (owner_spec C Hnd y Fy) as (ny & ys & iy & Py & Iy & _).
    rewrite <- E in Py. exists (nx, xs). split; [eapply nth_error_In; eauto|]. split; [eapply nth_error_In; eauto|].
    assert (xs = ys) as -> by congruence. eapply nth_error_In; eauto.
  - intros ([name xs] & Hp & Hx & Hy). cbn [snd] in *. apply In_nth_error in Hp as [p Hp]. apply In_nth_error in Hx as [i Hi]. apply In_nth_error in Hy as [j Hj].
    destruct (phi_part C Hnd _ _ _ _ _ Hp Hi) as [_ ->]. now destruct (phi_part C Hnd _ _ _ _ _ Hp Hj) as [_ ->].
Qed.

Section PP.
  Variables C1 C2 : cut.
  Hypothesis W1 : wf_cut C1.
  Hypothesis PP : pperm C1 C2.

  Lemma pp_flat : Permutation (flat C2) (flat C1).
  Proof. unfold flat. apply CutFold.concat_perm. apply Permutation_map. exact (pp_parts _ _ PP). Qed.
  Lemma pp_flat_in x : In x (flat C2) <-> In x (flat C1).
  Proof. split; apply Permutation_in; [exact pp_flat|apply Permutation_sym; exact pp_flat]. Qed.
  Lemma pp_nodup : NoDup (flat C2).
  Proof. eapply Permutation_NoDup; [apply Permutation_sym; exact pp_flat|exact (wc_nodup C1 W1)]. Qed.
  Lemma pp_length : length (flat C2) = length (flat C1).
  Proof. apply Permutation_length. exact pp_flat. Qed.
  Lemma pp_payload x : payload C2 x = payload C1 x.
  Proof. unfold payload. now rewrite (pp_atoms _ _ PP). Qed.

  Lemma pp_same_owner x y : In x (flat C1) -> In y (flat C1) -> (owner C2 x = owner C2 y <-> owner C1 x = owner C1 y).
  Proof.
    intros Fx Fy. rewrite (owner_same_part C2 x y pp_nodup (proj2 (pp_flat_in x) Fx) (proj2 (pp_flat_in y) Fy)).
    rewrite (owner_same_part C1 x y (wc_nodup C1 W1) Fx Fy).
    split; intros (p & Hp & H); exists p; (split; [|exact H]); [eapply Permutation_in; [exact (pp_parts _ _ PP)|exact Hp]|eapply Permutation_in; [apply Permutation_sym; exact (pp_parts _ _ PP)|exact Hp]].
  Qed.
  Lemma pp_is_cut b : In b (c_bonds C1) -> is_cut C2 b = is_cut C1 b.
  Proof.
    intros Hb. destruct (wc_ends C1 W1 b Hb) as (Fu & Fv & _). unfold is_cut. f_equal.
    destruct (Nat.eqb_spec (owner C1 (cb_u b)) (owner C1 (cb_v b))) as [E|N].
    - apply Nat.eqb_eq. now apply pp_same_owner.
    - apply Nat.eqb_neq. intros E. apply N. now apply pp_same_owner.
  Qed.
  Lemma pp_cuts : cuts C2 = cuts C1.
  Proof. unfold cuts. rewrite (pp_bonds _ _ PP). apply filter_ext_in. intros b Hb. now apply pp_is_cut. Qed.
  Lemma pp_descs x : descs C2 x = descs C1 x.
  Proof. unfold descs, descs0. now rewrite (pp_dord _ _ PP), pp_cuts. Qed.

  Theorem pperm_wf : wf_cut C2.
  Proof.
    constructor.
    - exact pp_nodup.
    - intros x. rewrite (pp_atoms _ _ PP), (wc_atoms C1 W1 x). symmetry. apply pp_flat_in.
    - intros b Hb. rewrite (pp_bonds _ _ PP) in Hb. destruct (wc_ends C1 W1 b Hb) as (A1 & A2 & A3). repeat split; auto; now apply pp_flat_in.
    - rewrite (pp_bonds _ _ PP). exact (wc_simple C1 W1).
    - rewrite pp_cuts. exact (wc_labels C1 W1).
    - rewrite pp_cuts. exact (wc_digits C1 W1).
    - intros kv Hkv. rewrite (pp_dord _ _ PP) in Hkv. unfold descs0. rewrite pp_cuts. exact (wc_dord C1 W1 kv Hkv).
  Qed.

  Lemma pp_find_bond x y : find_bond C2 x y = find_bond C1 x y.
  Proof. unfold find_bond. now rewrite (pp_bonds _ _ PP). Qed.
  Lemma pp_bonded x y : bonded C2 x y = bonded C1 x y.
  Proof. unfold bonded. now rewrite pp_find_bond. Qed.
  Lemma pp_arom x : arom C2 x = arom C1 x.
  Proof. unfold arom. now rewrite pp_payload. Qed.
  Lemma pp_result_order x y : result_order C2 x y = result_order C1 x y.
  Proof.
    unfold result_order. rewrite pp_find_bond. destruct (find_bond C1 x y) as [b|] eqn:E; [|reflexivity]. apply find_some in E as [Hb _].
    rewrite (pp_is_cut b Hb). unfold cut_order. now rewrite !pp_arom.
  Qed.
  Lemma pp_inc x : inc C2 x = inc C1 x.
  Proof. unfold inc. now rewrite (pp_bonds _ _ PP). Qed.
  Lemma pp_bond_sum x : bond_sum C2 x = bond_sum C1 x.
  Proof. unfold bond_sum, rhalf. rewrite pp_inc. f_equal. apply map_ext. intros b. now rewrite pp_result_order. Qed.
  Lemma pp_h_needed val x : h_needed C2 val x = h_needed C1 val x.
  Proof. unfold h_needed. now rewrite pp_bond_sum. Qed.

  Lemma pp_template name xs T : is_template C1 name xs T -> is_template C2 name xs T.
  Proof.
    intros [K A E O Al]. constructor; auto.
    - intros i x Hi. destruct (A i x Hi) as (a & Ea & [F1 F2 F3 F4 F5 F6 F7]). exists a. split; [exact Ea|]. constructor; auto.
      + now rewrite pp_descs.
      + now rewrite pp_payload.
      + intros key v. rewrite pp_payload. apply F7.
    - intros i j d Hin. destruct (E i j d Hin) as (ni & nj & x & y & b & H). exists ni, nj, x, y, b. now rewrite (pp_bonds _ _ PP).
    - intros b ni nj Hb. rewrite (pp_bonds _ _ PP) in Hb. now apply Al.
  Qed.
  Theorem pp_templates fd : templates_ok C1 fd -> templates_ok C2 fd.
  Proof.
    intros H name xs Hin. apply (Permutation_in _ (pp_parts _ _ PP)) in Hin. destruct (H name xs Hin) as (T & E & IT). exists T. split; [exact E|now apply pp_template].
  Qed.
End PP.
