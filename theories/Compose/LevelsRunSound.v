(** LevelsRunSound: what the verdicts of Compose/LevelsRunCheck.v mean.  The executable tests are sound for the
    hypotheses of [compose_levels] / [compose_levels_all_atom] ([coarse_ofb_sound], [raw_chainb_sound]); a judged run
    with verdict 0 ([levels_run_check_sound]): the generator's record is a chain of well-formed cuts, the
    implementation's own dictionaries hold the templates of every level's cut, its base graph is a base of the top cut;
    hence the driver machine on the end-to-end step returns at every coarse level with the skeleton of that level's cut
    in the numbering the levels above induce - and every fine graph the IMPLEMENTATION returned is such a skeleton too
    (without duplicate neighbours), as is its bonded all-atom graph for the bottom cut. *)
From Coq Require Import String.
From Coq Require Import List Ascii ZArith Bool Lia Permutation.
From CGV Require Import Base.PyBase Base.PyVal Base.NxGraph Resolve.Bonding Resolve.GraphOps Resolve.Pipeline Resolve.PipelineFull Resolve.Drivers Resolve.DriversCheck.
From CGV Require Import Compose.GraphAdj Compose.CutModel Compose.CutPos Compose.CutSpecDefs Compose.CutSpecCheck Compose.CutSkeleton Compose.CutRunCheck Compose.CutRunSound
     Compose.ComposeFlat Compose.Levels Compose.LevelsRunCheck.
Import ListNotations.
Open Scope Z_scope.

Lemma adj_nodupb_sound g : adj_nodupb g = true -> adj_nodup g.
Proof. unfold adj_nodupb. rewrite forallb_forall. intros H n Hn. apply nodupzb_sound. now apply H. Qed.

Lemma l_perm_cut_eq C C' : l_perm_cut C C' = perm_cut C C'.
Proof. reflexivity. Qed.
Lemma l_effs_eq Cs : forall E, l_effs E Cs = effs E Cs.
Proof. induction Cs as [|C r IH]; intros E; cbn; [reflexivity|]. now rewrite IH. Qed.
Lemma l_next_meta_eq m : l_next_meta m = next_meta m.
Proof. reflexivity. Qed.

Theorem coarse_ofb_sound C C' : wf_cut C' -> coarse_ofb C C' = true -> coarse_of C C'.
Proof.
  intros W' H. unfold coarse_ofb in H. cbn zeta in H.
  apply andb_true_iff in H as [H H5]. apply andb_true_iff in H as [H H4]. apply andb_true_iff in H as [H H3]. apply andb_true_iff in H as [H1 H2].
  apply Nat.eqb_eq in H1. rewrite forallb_forall in H2, H3, H4, H5. constructor.
  - apply NoDup_Permutation_bis; [exact (wc_nodup C' W')| |].
    + rewrite map_length, seq_length. lia.
    + intros z Hz. specialize (H2 z Hz). apply andb_true_iff in H2 as [A B]. apply Z.leb_le in A. apply Z.ltb_lt in B.
      rewrite <- (Z2Nat.id z A). apply in_map. apply in_seq. lia.
  - intros p Hp. assert (In p (seq 0 (length (c_parts C)))) as Hi by (apply in_seq; lia). specialize (H3 p Hi).
    apply andb_true_iff in H3 as [A B]. split; [exact (oeqb_sound _ _ A)|]. destruct (aget (S "aromatic") (payload C' (Z.of_nat p))); [discriminate|reflexivity].
  - intros b Hb. specialize (H4 b Hb). apply andb_true_iff in H4 as [A O]. apply andb_true_iff in A as [A B]. apply Z.leb_le in A, B.
    exists (Z.to_nat (cb_u b)), (Z.to_nat (cb_v b)). rewrite !Z2Nat.id by assumption. split; [reflexivity|]. split; [reflexivity|].
    apply oeqb_sound in O. now inversion O.
  - intros b Hb. specialize (H5 b Hb). apply existsb_exists in H5 as (b' & Hb' & J). exists b'. split; assumption.
Qed.

Theorem raw_chainb_sound Cs : forall U, wf_cut U -> raw_chainb U Cs = true -> raw_chain U Cs.
Proof.
  induction Cs as [|C r IH]; intros U WU H; [exact I|]. cbn in H. apply andb_true_iff in H as [H H3]. apply andb_true_iff in H as [H1 H2].
  pose proof (wf_cutb_sound _ H1) as WC. split; [exact WC|]. split; [now apply coarse_ofb_sound|]. now apply IH.
Qed.

Lemma last_cons {A} (l : list A) : forall x d, last (x :: l) d = last l x.
Proof.
  induction l as [|a l IH]; intros x d; [reflexivity|]. change (last (x :: a :: l) d) with (last (a :: l) d). now rewrite (IH a d), (IH a x).
Qed.
Lemma raw_last_wf Cs : forall U, wf_cut U -> raw_chain U Cs -> wf_cut (last Cs U).
Proof.
  induction Cs as [|C r IH]; intros U WU H; [exact WU|]. destruct H as (WC & _ & Hr). rewrite last_cons. now apply IH.
Qed.

Lemma forall2b_sound {A B} (f : A -> B -> bool) (P : A -> B -> Prop) : (forall x y, f x y = true -> P x y) ->
  forall l l', forall2b f l l' = true -> Forall2 P l l'.
Proof.
  intros Hf. induction l as [|x r IH]; intros [|y r'] H; cbn in H; try discriminate; [constructor|].
  apply andb_true_iff in H as [H1 H2]. constructor; [now apply Hf|now apply IH].
Qed.
Lemma forall2_map_r {A B D} (P : A -> D -> Prop) (f : B -> D) l l' : Forall2 (fun x y => P x (f y)) l l' -> Forall2 P l (map f l').
Proof. induction 1; cbn; constructor; auto. Qed.

Lemma lrun_fail_tests r : lrun_judged r = true -> lrun_fail r = 0%nat ->
  templates_all r = true /\ is_baseb (lr_U r) (l_next_meta (lr_base r)) = true /\ levels_okb r = true /\ bottom_okb r = true.
Proof.
  unfold lrun_fail. intros J. rewrite J. cbn [negb].
  destruct (templates_all r); cbn [negb]; [|discriminate]. destruct (is_baseb _ _); cbn [negb]; [|discriminate].
  destruct (levels_okb r); cbn [negb]; [|discriminate]. destruct (bottom_okb r); cbn [negb]; [|discriminate]. auto.
Qed.

Theorem levels_run_check_sound r : lrun_judged r = true -> lrun_fail r = 0%nat ->
  let U := lr_U r in let Cs := lr_Cs r in
  exists fdU rest, lr_fds r = fdU :: rest /\
    wf_cut U /\ raw_chain U Cs /\ templates_ok U fdU /\ is_base U (next_meta (lr_base r)) /\
    Forall2 templates_ok Cs (firstn (length Cs) rest) /\
    (exists st' outs, lrun_model r = Ok (st', outs) /\ Forall2 level_ok (U :: effs U Cs) outs) /\
    (forall E g, In (E, g) (combine (U :: effs U Cs) (lr_outs r)) -> skeleton E false g /\ adj_nodup g) /\
    (forall C0, lr_C0 r = Some C0 -> exists fd0, nth_error rest (length Cs) = Some fd0 /\
        wf_cut C0 /\ coarse_of C0 (last Cs U) /\ templates_ok C0 fd0 /\
        forall g, lr_m2 r = Some g -> skeleton (perm_cut C0 (last_eff U Cs)) true g).
Proof.
  intros J F U Cs. destruct (lrun_fail_tests r J F) as (T & B & L & Bt).
  unfold lrun_judged in J. fold U Cs in J. apply andb_true_iff in J as [J JL]. apply andb_true_iff in J as [J J0]. apply andb_true_iff in J as [JU JC].
  apply Nat.eqb_eq in JL. pose proof (wf_cutb_sound _ JU) as WU. pose proof (raw_chainb_sound Cs U WU JC) as Raw.
  unfold templates_all in T. fold U Cs in T. destruct (lr_fds r) as [|fdU rest] eqn:Efds; [discriminate|].
  apply andb_true_iff in T as [T T0]. apply andb_true_iff in T as [TU TC].
  pose proof (templates_okb_sound _ _ TU) as HTU. rewrite l_next_meta_eq in B. pose proof (is_baseb_sound _ _ B) as HB.
  pose proof (forall2b_sound templates_okb templates_ok templates_okb_sound _ _ TC) as HTC.
  exists fdU, rest. split; [reflexivity|]. split; [exact WU|]. split; [exact Raw|]. split; [exact HTU|]. split; [exact HB|]. split; [exact HTC|].
  assert (Hlv : Forall2 (fun C (l : level) => templates_ok C (fst l)) Cs (map (fun fd : fragdict => (fd, @None graph)) (firstn (length Cs) rest))).
  { apply forall2_map_r. cbn [fst]. exact HTC. }
  split; [|split].
  - unfold lrun_model. fold U Cs. rewrite Efds. cbn [map]. unfold lr_laa in *. destruct (lr_C0 r) as [C0|] eqn:EC0.
    + (* all-atom last level *)
      apply andb_true_iff in J0 as [J0 J0c]. pose proof (wf_cutb_sound _ J0) as W0. pose proof (coarse_ofb_sound _ _ (raw_last_wf Cs U WU Raw) J0c) as Co0.
      destruct (nth_error rest (length Cs)) as [fd0|] eqn:Efd0; [|discriminate]. apply andb_true_iff in T0 as [T0 T0a].
      assert (rest = firstn (length Cs) rest ++ [fd0]) as Er.
      { cbn [length] in JL. assert (length rest = Datatypes.S (length Cs)) as Lr by lia.
        rewrite <- (firstn_skipn (length Cs) rest) at 1. f_equal.
        pose proof (nth_error_split rest (length Cs) Efd0) as (l1 & l2 & E & Ll1). subst rest. rewrite app_length in Lr. cbn [length] in Lr.
        rewrite skipn_app, <- Ll1, skipn_all, Nat.sub_diag. cbn. destruct l2; [reflexivity|cbn in Lr; lia]. }
      destruct (compose_levels_all_atom U Cs C0 (fdU, None) (map (fun fd : fragdict => (fd, @None graph)) (firstn (length Cs) rest)) (fd0, None) (lr_base r) []
                  WU HTU HB Raw Hlv W0 Co0 (templates_okb_sound _ _ T0) (aa_payloadb_sound _ T0a)) as (st' & outs & Er' & A5 & _).
      exists st', outs. split; [|exact A5]. rewrite Er at 1. rewrite map_app. exact Er'.
    + assert (firstn (length Cs) rest = rest) as Er by (apply firstn_all2; cbn [length] in JL; lia). rewrite Er in Hlv.
      destruct (compose_levels U Cs (fdU, None) (map (fun fd : fragdict => (fd, @None graph)) rest) (lr_base r) [] WU HTU HB Raw Hlv) as (st' & outs & Er' & _ & A5 & _).
      exists st', outs. split; [|exact A5]. unfold resolve_iter in Er'. cbn [dicts fresh length] in Er'. rewrite map_length in Er'.
      replace (length rest) with (length Cs) in Er' by (cbn [length] in JL; lia). exact Er'.
  - intros E g Hin. unfold levels_okb in L. fold U Cs in L. rewrite l_effs_eq in L. rewrite forallb_forall in L. specialize (L (E, g) Hin). cbn [fst snd] in L.
    apply andb_true_iff in L as [L1 L2]. split; [now apply skeletonb_sound|now apply adj_nodupb_sound].
  - intros C0 EC0. rewrite EC0 in J0, T0. apply andb_true_iff in J0 as [J0 J0c]. pose proof (wf_cutb_sound _ J0) as W0.
    destruct (nth_error rest (length Cs)) as [fd0|] eqn:Efd0; [|discriminate]. apply andb_true_iff in T0 as [T0 T0a].
    exists fd0. split; [reflexivity|]. split; [exact W0|]. split; [exact (coarse_ofb_sound _ _ (raw_last_wf Cs U WU Raw) J0c)|]. split; [now apply templates_okb_sound|].
    intros g Eg. unfold bottom_okb in Bt. fold U Cs in Bt. rewrite EC0, Eg, l_effs_eq, l_perm_cut_eq in Bt. now apply skeletonb_sound.
Qed.

(** non-vacuity: the three-level hierarchy of LevelsExamples.v as a run record whose "implementation" graphs are the
    model's; it is judged, gets verdict 0 with three returned graphs tested, and corresponds *)
From CGV Require Import Compose.CutExamples Compose.FlatExamples Compose.LevelsExamples.
Definition ex_run0 : lrun_case :=
  {| lr_U := exC''; lr_Cs := [exC'; exC]; lr_C0 := None; lr_fds := [fragdict_of exC''; fragdict_of exC'; fragdict_of exC];
     lr_base := base_of exC''; lr_outs := []; lr_m2 := None |}.
Definition ex_run : lrun_case :=
  {| lr_U := lr_U ex_run0; lr_Cs := lr_Cs ex_run0; lr_C0 := None; lr_fds := lr_fds ex_run0; lr_base := lr_base ex_run0;
     lr_outs := match lrun_model ex_run0 with Ok (_, outs) => map (fun o : amol * amol => fst (snd o)) outs | Err _ => [] end;
     lr_m2 := None |}.
Example levels_run_check_nonvacuous :
  lrun_judged ex_run = true /\ lrun_fail ex_run = 0%nat /\ length (lr_outs ex_run) = 3%nat /\ lrun_corr ex_run = true.
Proof. vm_compute. auto. Qed.
(** and a wrong returned graph is caught: the second level's graph in the place of the first *)
Example levels_run_check_detects :
  lrun_fail {| lr_U := lr_U ex_run; lr_Cs := lr_Cs ex_run; lr_C0 := None; lr_fds := lr_fds ex_run; lr_base := lr_base ex_run;
               lr_outs := tl (lr_outs ex_run); lr_m2 := None |} = 133%nat.
Proof. vm_compute. reflexivity. Qed.
