(** CutDisc: resolve_disconnected_molecule on (base, templates) of a well-formed cut.  The loop over the
    base nodes is total; after it the fine graph has the keys 0..N-1, atom x sits at key [phi x] with
    the template's attributes (M's payload), the edges are exactly M's bonds INSIDE the parts (with M's
    orders), and the descriptor tables read from the per-coarse-node fragment graphs are [tables C]. *)
From Coq Require Import String.
From Coq Require Import List Ascii ZArith Bool Lia Permutation.
From CGV Require Import Base.PyBase Base.PyVal Base.NxGraph Resolve.Bonding Resolve.BondingDefs Resolve.BondingCheck
     Resolve.CutCheck Resolve.GraphOps Resolve.MapProofs Resolve.CopyProofs Hydro.GraphLemmas.
From CGV Require Import Compose.GraphFacts Compose.CutModel Compose.CutPos Compose.CutTables.
Import ListNotations.
Open Scope Z_scope.

(** ---------------------------------------------------------------- generic folds *)
Lemma fold_add_nodes (step : graph -> nrec -> res graph) (key : nrec -> Z) (val : nrec -> attrs) l : forall acc,
  (forall acc n, In n l -> step acc n = Ok (add_node acc (key n) (val n))) ->
  NoDup (map key l) -> (forall n, In n l -> has_node acc (key n) = false) ->
  exists g, fold_res step l acc = Ok g /\ node_keys g = node_keys acc ++ map key l /\
    (forall n, In n l -> node_attrs g (key n) = Ok (val n)) /\
    (forall k, ~ In k (map key l) -> node_attrs g k = node_attrs acc k) /\
    (forall x y, edge_attrs g x y = edge_attrs acc x y).
Proof.
  induction l as [|n r IH]; intros acc Hs Hn Hf.
  - exists acc. cbn. rewrite app_nil_r. repeat split; auto. intros n [].
  - cbn [fold_res]. rewrite (Hs acc n (or_introl eq_refl)). cbn [bind]. inversion Hn as [|? ? Hk Hr]; subst.
    destruct (IH (add_node acc (key n) (val n))) as (g & E & K & A & O & Ed).
    + intros acc' n' Hn'. apply Hs. now right.
    + exact Hr.
    + intros n' Hn'. apply has_node_false_add; [apply Hf; now right|]. intros X. apply Hk. rewrite <- X. now apply in_map.
    + exists g. split; [exact E|]. split; [|split; [|split]].
      * rewrite K, keys_add_node, (Hf n (or_introl eq_refl)), <- app_assoc. reflexivity.
      * intros n' [<-|Hn']; [|now apply A]. rewrite (O _ Hk). apply attrs_add_node_same. apply Hf. now left.
      * intros k Hk'. rewrite O by (intros X; apply Hk'; now right). apply attrs_add_node_other. intros ->. apply Hk'. now left.
      * intros x y. rewrite Ed. apply edge_attrs_add_node.
Qed.

Lemma add_edges_keys_attrs l : forall g,
  (forall e, In e l -> has_node g (eu e) = true /\ has_node g (ev e) = true) ->
  node_keys (add_edges l g) = node_keys g /\ forall k, node_attrs (add_edges l g) k = node_attrs g k.
Proof.
  induction l as [|e r IH]; intros g H; [cbn; auto|]. destruct (H e (or_introl eq_refl)) as [Hu Hv].
  cbn [add_edges fold_left]. fold (add_edges r (add_edge g (eu e) (ev e) (ed e))).
  destruct (IH (add_edge g (eu e) (ev e) (ed e))) as [K A].
  - intros e' He'. destruct (H e' (or_intror He')). split; apply has_node_add_edge; now left.
  - split; [rewrite K; now apply keys_add_edge_in|]. intros k. rewrite A. now apply attrs_add_edge.
Qed.

Lemma FOP_map {A B} (f : A -> B) (R : B -> B -> Prop) l :
  ForallOrdPairs R (map f l) <-> ForallOrdPairs (fun a b => R (f a) (f b)) l.
Proof.
  induction l as [|x r IH]; cbn; split; intros H; try constructor; inversion H; subst.
  - rewrite Forall_forall in *. intros y Hy. apply H2. now apply in_map.
  - now apply IH.
  - rewrite Forall_forall in *. intros y Hy. apply in_map_iff in Hy as (z & <- & Hz). now apply H2.
  - now apply IH.
Qed.
Lemma FOP_impl {A} (R R' : A -> A -> Prop) l : (forall a b, In a l -> In b l -> R a b -> R' a b) ->
  ForallOrdPairs R l -> ForallOrdPairs R' l.
Proof.
  induction l as [|x r IH]; intros Hi H; [constructor|]. inversion H; subst. constructor.
  - rewrite Forall_forall in *. intros y Hy. apply Hi; [now left|now right|auto].
  - apply IH; [|assumption]. intros a b Ha Hb. apply Hi; now right.
Qed.

Lemma zmax_list_in l : forall d, zmax_list l d = d \/ In (zmax_list l d) l.
Proof.
  induction l as [|y r IH]; intros d; cbn; [now left|]. destruct (IH (Z.max y d)) as [E|H]; [|now right; right].
  rewrite E. destruct (Z.max_spec y d) as [[_ ->]|[_ ->]]; [now left|right; now left].
Qed.

Lemma seq_nat_in n k : In k (map Z.of_nat (seq 0 n)) <-> 0 <= k < Z.of_nat n.
Proof.
  rewrite in_map_iff. split; [intros (i & <- & Hi); apply in_seq in Hi; lia|].
  intros H. exists (Z.to_nat k). split; [lia|]. apply in_seq. lia.
Qed.

Lemma merge_offsets_range mol n : node_keys mol = map Z.of_nat (seq 0 n) ->
  (forall k a, node_attrs mol k = Ok a -> exists c, aget (S "fragid") a = Some (VList [VInt c])) ->
  exists fo, merge_offsets mol = Ok (Z.of_nat n - 1, fo).
Proof.
  intros K F. unfold merge_offsets. destruct mol as [|n0 r].
  - destruct n; [eauto|discriminate].
  - set (mx := zmax_list (node_keys r) (nk n0)).
    assert (In mx (node_keys (n0 :: r))) as Hin by (cbn; destruct (zmax_list_in (node_keys r) (nk n0)) as [E|H]; [left; symmetry; exact E|right; exact H]).
    assert (mx = Z.of_nat n - 1) as Emx.
    { pose proof Hin as Hin'. rewrite K in Hin'. apply seq_nat_in in Hin'. destruct n as [|n']; [lia|].
      assert (In (Z.of_nat n') (node_keys (n0 :: r))) as Hl by (rewrite K; apply seq_nat_in; lia).
      destruct (zmax_list_ge (node_keys r) (nk n0)) as [G1 G2]. fold mx in G1, G2.
      destruct Hl as [E|Hl]; [lia|]. specialize (G2 _ Hl). lia. }
    destruct (gfind_some_keys mx (n0 :: r) Hin) as [nm G].
    assert (node_attrs (n0 :: r) mx = Ok (na nm)) as Ea by (unfold node_attrs; now rewrite G).
    destruct (F _ _ Ea) as [c Ec]. rewrite Ea. cbn [bind]. rewrite Ec. cbn. rewrite Emx. eauto.
Qed.

Lemma map_get_combine_map (f g : nat -> Z) l x : (forall a b, In a l -> In b l -> f a = f b -> a = b) -> In x l ->
  map_get (combine (map f l) (map g l)) (f x) = g x.
Proof.
  induction l as [|a r IH]; intros Hi Hx; [contradiction|]. cbn [map combine].
  destruct (Nat.eq_dec x a) as [->|N]; [apply map_get_head|].
  rewrite map_get_tail.
  - apply IH; [intros; apply Hi; auto; now right|]. destruct Hx; [congruence|assumption].
  - intros E. apply N. apply Hi; auto. now left.
Qed.
Lemma corr_range off T m i : node_keys T = map Z.of_nat (seq 0 m) -> (i < m)%nat ->
  map_get (correspondence off T) (Z.of_nat i) = off + 1 + Z.of_nat i.
Proof.
  intros K Hi. unfold correspondence. rewrite K.
  assert (length T = m) as -> by (apply (f_equal (@length Z)) in K; unfold node_keys in K; now rewrite !map_length, seq_length in K).
  apply (map_get_combine_map Z.of_nat (fun i => off + 1 + Z.of_nat i)); [intros; lia|apply in_seq; lia].
Qed.

Lemma strs_of_strs ds : strs_of (VList (map VStr ds)) = Ok ds.
Proof. unfold strs_of. cbn [as_list bind]. induction ds as [|d r IH]; cbn; [reflexivity|]. now rewrite IH. Qed.
Lemma map_res_app {A B} (f : A -> res B) l1 : forall l2 r1 r2, map_res f l1 = Ok r1 -> map_res f l2 = Ok r2 ->
  map_res f (l1 ++ l2) = Ok (r1 ++ r2).
Proof.
  induction l1 as [|x r IH]; intros l2 r1 r2 H1 H2; cbn in *; [inversion H1; now subst|].
  destruct (f x); cbn in *; [|discriminate]. destruct (map_res f r) as [l|] eqn:E; cbn in *; [|discriminate]. inversion H1; subst.
  now rewrite (IH l2 l r2 eq_refl H2).
Qed.

Lemma joins_sym b x y : joins b x y = joins b y x.
Proof. unfold joins. apply orb_comm. Qed.
Lemma joins_true b x y : joins b x y = true <-> (cb_u b = x /\ cb_v b = y) \/ (cb_u b = y /\ cb_v b = x).
Proof. unfold joins. rewrite orb_true_iff, !andb_true_iff, !Z.eqb_eq. tauto. Qed.

Lemma map_seq_shift n m : map Z.of_nat (seq n m) = map (fun i => Z.of_nat n + Z.of_nat i) (seq 0 m).
Proof.
  revert n. induction m as [|m IH]; intros n; cbn; [reflexivity|]. f_equal; [lia|].
  rewrite IH, <- seq_shift, map_map. apply map_ext. intros i. lia.
Qed.
Lemma seq_nat_app n m : map Z.of_nat (seq 0 (n + m)) = map Z.of_nat (seq 0 n) ++ map (fun i => Z.of_nat n + Z.of_nat i) (seq 0 m).
Proof. rewrite seq_app, map_app. cbn [Nat.add]. now rewrite (map_seq_shift n m). Qed.
Lemma seq_nat_nodup n : NoDup (map Z.of_nat (seq 0 n)).
Proof. apply FinFun.Injective_map_NoDup; [intros a b E; lia|apply seq_NoDup]. Qed.

Lemma merge_edge_fold (cf : Z -> Z) es : forall g, (forall e, In e es -> cf (eu e) <> cf (ev e)) ->
  fold_left (fun acc (e : Z * Z * attrs) => let '(u, v, d) := e in if Z.eqb (cf u) (cf v) then acc else add_edge acc (cf u) (cf v) d) es g
  = add_edges (map (fun e => (cf (eu e), cf (ev e), ed e)) es) g.
Proof.
  induction es as [|[[u v] d] r IH]; intros g H; [reflexivity|]. cbn [fold_left map add_edges].
  pose proof (H (u, v, d) (or_introl eq_refl)) as N. unfold eu, ev in N. cbn in N.
  destruct (Z.eqb_spec (cf u) (cf v)); [contradiction|]. rewrite IH by (intros; apply H; now right). reflexivity.
Qed.
Lemma frag_edge_fold (cf : Z -> Z) es : forall g,
  fold_left (fun acc (e : Z * Z * attrs) => let '(u, v, d) := e in add_edge acc (cf u) (cf v) d) es g
  = add_edges (map (fun e => (cf (eu e), cf (ev e), ed e)) es) g.
Proof. induction es as [|[[u v] d] r IH]; intros g; [reflexivity|]. cbn [fold_left map add_edges]. now rewrite IH. Qed.

Lemma stamp_edges (f : Z -> Z) ck name tgt : forall g x y,
  edge_attrs (fold_left (fun acc n => set_node_attr (set_node_attr acc (f (nk n)) (S "fragid") (VList [VInt ck]))
                                        (f (nk n)) (S "mapping") (mapping_val name (nk n))) tgt g) x y = edge_attrs g x y.
Proof. induction tgt as [|n r IH]; intros g x y; [reflexivity|]. cbn [fold_left]. now rewrite IH, !edge_attrs_set_node_attr. Qed.

Lemma fg_set_fresh k g fgs : ~ In k (map fst fgs) -> fg_set k g fgs = fgs ++ [(k, g)].
Proof.
  induction fgs as [|[k' g'] r IH]; cbn; intros H; [reflexivity|].
  destruct (Z.eqb_spec k k') as [->|N]; [exfalso; apply H; now left|]. rewrite IH; [reflexivity|tauto].
Qed.

Lemma tables_from_app C l q : forall p0 k0,
  tables_from C p0 k0 (l ++ [q]) =
  tables_from C p0 k0 l ++ [(p0 + Z.of_nat (length l), tbl_from C (k0 + Z.of_nat (length (concat (map snd l)))) (snd q))].
Proof.
  induction l as [|a r IH]; intros p0 k0; cbn [app tables_from length map concat].
  - cbn. now rewrite !Z.add_0_r.
  - rewrite IH. cbn [app]. f_equal. f_equal. f_equal.
    replace (p0 + 1 + Z.of_nat (length r)) with (p0 + Z.of_nat (Datatypes.S (length r))) by lia.
    replace (k0 + Z.of_nat (length (snd a)) + Z.of_nat (length (concat (map snd r)))) with (k0 + Z.of_nat (length (snd a ++ concat (map snd r))))
      by (rewrite app_length; lia). reflexivity.
Qed.

Lemma table_of_spec C gf xs : forall k,
  (forall i x, nth_error xs i = Some x -> node_get gf (k + Z.of_nat i) (S "bonding") = bonding_val (descs C x)) ->
  map_res (fun kv : Z * pyval => ds <- strs_of (snd kv) ;; Ok (fst kv, ds))
    (flat_map (fun k' => match node_get gf k' (S "bonding") with Some v => [(k', v)] | None => [] end)
              (map (fun i => k + Z.of_nat i) (seq 0 (length xs)))) = Ok (tbl_from C k xs).
Proof.
  induction xs as [|x r IH]; intros k H; [reflexivity|].
  cbn [length seq map flat_map tbl_from].
  assert (map (fun i => k + Z.of_nat i) (seq 1 (length r)) = map (fun i => k + 1 + Z.of_nat i) (seq 0 (length r))) as ->.
  { rewrite <- seq_shift, map_map. apply map_ext. intros i. lia. }
  apply map_res_app.
  - rewrite (H 0%nat x eq_refl). unfold bonding_val. destruct (descs C x) as [|d0 dr]; [reflexivity|].
    cbn [map_res fst snd]. rewrite strs_of_strs. cbn [bind]. now rewrite Z.add_0_r.
  - apply IH. intros i y Hy. replace (k + 1 + Z.of_nat i) with (k + Z.of_nat (Datatypes.S i)) by lia. now apply H.
Qed.

Lemma ints_of_one c : ints_of (VList [VInt c]) = Ok [c].
Proof. reflexivity. Qed.

Section Disc.
  Variable C : cut.
  Hypothesis W : wf_cut C.
  Variable fd : fragdict.
  Hypothesis HT : templates_ok C fd.
  Let Hnd := wc_nodup C W.

  (** attributes of the fine node of atom x *)
  Record fattrs_ok (x : Z) (a : attrs) : Prop := {
    fa_fragid : aget (S "fragid") a = Some (VList [VInt (Z.of_nat (owner C x))]);
    fa_arom : aget (S "aromatic") a = aget (S "aromatic") (payload C x);
    fa_rs : aget (S "rs_isomer") a = None;
    fa_ez : aget (S "ez_isomer_atoms") a = None;
    fa_payload : forall key v, aget key (payload C x) = Some v -> ~ In key reserved -> aget key a = Some v }.

  Record inv (p : nat) (mol : graph) (fgs : fgraphs) : Prop := {
    i_keys : node_keys mol = map Z.of_nat (seq 0 (off C p));
    i_attrs : forall x, In x (flat C) -> (owner C x < p)%nat -> exists a, node_attrs mol (phi C x) = Ok a /\ fattrs_ok x a;
    i_fid : forall k a, node_attrs mol k = Ok a -> exists c, aget (S "fragid") a = Some (VList [VInt c]);
    i_closed : forall k1 k2, has_edge mol k1 k2 = true -> 0 <= k1 < Z.of_nat (off C p) /\ 0 <= k2 < Z.of_nat (off C p);
    i_edge1 : forall k1 k2 d, edge_attrs mol k1 k2 = Ok d -> exists x y b, In x (flat C) /\ In y (flat C) /\
       k1 = phi C x /\ k2 = phi C y /\ In b (c_bonds C) /\ is_cut C b = false /\ joins b x y = true /\
       aget (S "order") d = Some (cb_ord b) /\ aget (S "bonding") d = None;
    i_edge2 : forall b, In b (c_bonds C) -> is_cut C b = false -> (owner C (cb_u b) < p)%nat ->
       has_edge mol (phi C (cb_u b)) (phi C (cb_v b)) = true /\ has_edge mol (phi C (cb_v b)) (phi C (cb_u b)) = true;
    i_fkeys : map fst fgs = map Z.of_nat (seq 0 p);
    i_tables : tables_of fgs = Ok (tables_from C 0 0 (firstn p (c_parts C))) }.

  Lemma inv_0 : inv 0 gempty [].
  Proof.
    constructor; cbn; try reflexivity; try discriminate.
    - intros x _ H. lia.
    - intros b _ _ H. lia.
  Qed.

  Lemma template_nodes name xs T : is_template C name xs T ->
    length T = length xs /\ NoDup (node_keys T) /\
    (forall n, In n T -> exists i x, nth_error xs i = Some x /\ nk n = Z.of_nat i /\ tattrs_ok C name x (na n)) /\
    (forall i x, nth_error xs i = Some x -> exists n, In n T /\ nk n = Z.of_nat i /\ tattrs_ok C name x (na n)).
  Proof.
    intros IT. pose proof (it_keys _ _ _ _ IT) as K.
    assert (NoDup (node_keys T)) as Hn by (rewrite K; apply seq_nat_nodup).
    split; [|split; [exact Hn|split]].
    - apply (f_equal (@length Z)) in K. unfold node_keys in K. now rewrite !map_length, seq_length in K.
    - intros n Hin. assert (In (nk n) (node_keys T)) as Hk by (now apply in_map).
      rewrite K in Hk. apply in_map_iff in Hk as (i & Ei & Hi). apply in_seq in Hi.
      destruct (nth_error xs i) as [x|] eqn:Ex; [|apply nth_error_None in Ex; lia].
      destruct (it_attrs _ _ _ _ IT i x Ex) as (a & Ea & Ha).
      unfold node_attrs in Ea. rewrite Ei, (gfind_in T Hn n Hin) in Ea. inversion Ea; subst.
      exists i, x. split; [exact Ex|split; [now symmetry|exact Ha]].
    - intros i x Ex. destruct (it_attrs _ _ _ _ IT i x Ex) as (a & Ea & Ha). unfold node_attrs in Ea.
      destruct (gfind (Z.of_nat i) T) as [n|] eqn:G; [|discriminate]. inversion Ea; subst.
      exists n. split; [eapply gfind_In; eauto|split; [eapply gfind_key; eauto|exact Ha]].
  Qed.

  Lemma fragid_ne_mapping : S "fragid" <> S "mapping".
  Proof. intros H. apply str_eqb_eq in H. vm_compute in H. discriminate. Qed.
  Lemma ez_ne_fragid : S "ez_isomer_atoms" <> S "fragid".
  Proof. intros H. apply str_eqb_eq in H. vm_compute in H. discriminate. Qed.
  Lemma not_reserved key : ~ In key reserved -> key <> S "fragid" /\ key <> S "mapping" /\ key <> S "bonding" /\ key <> S "fragname".
  Proof. unfold reserved. cbn [In]. intros H. repeat split; intros ->; apply H; tauto. Qed.

  Lemma disc_step_inv p name xs mn mol fgs :
    nth_error (c_parts C) p = Some (name, xs) -> nk mn = Z.of_nat p -> aget (S "fragname") (na mn) = Some (VStr name) ->
    inv p mol fgs -> exists mol2 fgs2, disc_step fd (mol, fgs) mn = Ok (mol2, fgs2) /\ inv (Datatypes.S p) mol2 fgs2.
  Proof.
    intros Hp Hk Hf I.
    destruct (HT name xs (nth_error_In _ _ Hp)) as (T & Hfd & IT).
    destruct (template_nodes name xs T IT) as (Hlen & HTnd & HTn & HTi).
    pose proof (it_keys _ _ _ _ IT) as KT.
    set (N := off C p) in *. set (m := length xs) in *.
    assert (off C (Datatypes.S p) = (N + m)%nat) as HoffS by (apply (off_S C p name xs Hp)).
    destruct (merge_offsets_range mol N (i_keys _ _ _ I) (i_fid _ _ _ I)) as [fo Ho].
    set (corr := correspondence (Z.of_nat N - 1) T).
    assert (Hcorr : forall i, (i < m)%nat -> map_get corr (Z.of_nat i) = Z.of_nat N + Z.of_nat i).
    { intros i Hi. unfold corr. rewrite (corr_range _ T m i KT Hi). lia. }
    set (key := fun n : nrec => map_get corr (nk n)).
    set (val := fun n : nrec => aset (S "fragid") (VList [VInt fo]) (na n)).
    assert (Hidx : forall n, In n T -> exists i x, nth_error xs i = Some x /\ nk n = Z.of_nat i /\ (i < m)%nat /\
                                                   key n = Z.of_nat N + Z.of_nat i /\ tattrs_ok C name x (na n)).
    { intros n Hin. destruct (HTn n Hin) as (i & x & Ex & En & Ha). exists i, x.
      assert (i < m)%nat by (apply nth_error_Some; congruence).
      split; [exact Ex|split; [exact En|split; [assumption|split; [|exact Ha]]]]. unfold key. rewrite En. now apply Hcorr. }
    assert (Hmn : forall n, In n T -> merge_node (Z.of_nat N - 1 + 1) fo (na n) = Ok (val n)).
    { intros n Hin. destruct (Hidx n Hin) as (i & x & _ & _ & _ & _ & Ha). unfold merge_node.
      rewrite (ta_fragid _ _ _ _ Ha). cbn [as_int bind]. unfold shift_ez.
      rewrite aget_aset_other by exact ez_ne_fragid. rewrite (ta_ez _ _ _ _ Ha). reflexivity. }
    assert (Hkeys : map key T = map (fun i => Z.of_nat N + Z.of_nat i) (seq 0 m)).
    { unfold key, corr. rewrite (corr_values _ T HTnd), correspondence_snd, Hlen. apply map_ext. intros i. lia. }
    assert (Hknd : NoDup (map key T)).
    { rewrite Hkeys. apply FinFun.Injective_map_NoDup; [intros a b E; lia|apply seq_NoDup]. }
    assert (Hkin : forall k, In k (map key T) <-> Z.of_nat N <= k < Z.of_nat N + Z.of_nat m).
    { intros k. rewrite Hkeys, in_map_iff. split; [intros (i & <- & Hi); apply in_seq in Hi; lia|].
      intros H. exists (Z.to_nat (k - Z.of_nat N)). split; [lia|]. apply in_seq. lia. }
    assert (Hold : forall k, In k (node_keys mol) <-> 0 <= k < Z.of_nat N) by (intros k; rewrite (i_keys _ _ _ I); apply seq_nat_in).
    (* the merged nodes *)
    destruct (fold_add_nodes (fun acc n => a <- merge_node (Z.of_nat N - 1 + 1) fo (na n) ;; Ok (add_node acc (key n) a)) key val T mol)
      as (src1 & E1 & K1 & A1 & O1 & Ed1).
    { intros acc n Hin. now rewrite (Hmn n Hin). }
    { exact Hknd. }
    { intros n Hin. destruct (has_node mol (key n)) eqn:E; [|reflexivity]. apply gfind_has, Hold in E.
      assert (In (key n) (map key T)) as X by (now apply in_map). apply Hkin in X. lia. }
    (* the merged edges *)
    set (EL := map (fun e => (map_get corr (eu e), map_get corr (ev e), ed e)) (edges_data T)).
    assert (HEL : forall e', In e' EL -> exists ni nj x y b d, In (Z.of_nat ni, Z.of_nat nj, d) (edges_data T) /\
              e' = (Z.of_nat N + Z.of_nat ni, Z.of_nat N + Z.of_nat nj, d) /\ nth_error xs ni = Some x /\ nth_error xs nj = Some y /\
              (ni < m)%nat /\ (nj < m)%nat /\ ni <> nj /\
              In b (c_bonds C) /\ joins b x y = true /\ aget (S "order") d = Some (cb_ord b) /\ aget (S "bonding") d = None /\ NoDup (map fst d)).
    { intros e' He'. apply in_map_iff in He' as ([[i j] d] & <- & Hin). unfold eu, ev, ed. cbn [fst snd].
      destruct (it_edges _ _ _ _ IT i j d Hin) as (ni & nj & x & y & b & -> & -> & Ex & Ey & Hb & Hj & Ho' & Hbd & Hd).
      assert (ni < m)%nat by (apply nth_error_Some; congruence). assert (nj < m)%nat by (apply nth_error_Some; congruence).
      exists ni, nj, x, y, b, d. rewrite !Hcorr by assumption. repeat split; auto.
      intros ->. destruct (wc_ends C W b Hb) as (_ & _ & Nuv). apply joins_true in Hj. apply Nuv. destruct Hj as [[A B]|[A B]]; congruence. }
    assert (K1in : forall k, has_node src1 k = true <-> 0 <= k < Z.of_nat N + Z.of_nat m).
    { intros k. rewrite gfind_has, K1, in_app_iff, Hold, Hkin. lia. }
    destruct (add_edges_spec EL src1) as (K2 & A2 & Ed2).
    { intros e' He'. destruct (HEL e' He') as (ni & nj & x & y & b & d & _ & -> & _ & _ & Hi & Hj & Nij & _).
      unfold eu, ev. cbn [fst snd]. repeat split; [apply K1in; lia|apply K1in; lia|lia]. }
    { intros e' He'. destruct (HEL e' He') as (ni & nj & x & y & b & d & _ & -> & _ & _ & Hi & Hj & Nij & _).
      unfold eu, ev. cbn [fst snd]. rewrite has_edge_attrs, Ed1, <- has_edge_attrs.
      destruct (has_edge mol _ _) eqn:E; [|reflexivity]. apply (i_closed _ _ _ I) in E. fold N in E. lia. }
    { unfold EL. apply FOP_map. pose proof (it_once _ _ _ _ IT) as Once. unfold unordered_nodup, edges_list in Once.
      apply FOP_map in Once. eapply FOP_impl; [|exact Once]. cbn [fst snd]. intros a b Ha Hb Hne.
      destruct (upair _ _ _ _) eqn:U; [|reflexivity]. exfalso. apply Hne. unfold eu, ev in U. cbn [fst snd] in U.
      destruct a as [[i j] d], b as [[i' j'] d']. cbn [fst snd] in *.
      destruct (it_edges _ _ _ _ IT i j d Ha) as (ni & nj & x & y & b0 & -> & -> & Ex & Ey & _).
      destruct (it_edges _ _ _ _ IT i' j' d' Hb) as (ni' & nj' & x' & y' & b1 & -> & -> & Ex' & Ey' & _).
      assert (ni < m)%nat by (apply nth_error_Some; congruence). assert (nj < m)%nat by (apply nth_error_Some; congruence).
      assert (ni' < m)%nat by (apply nth_error_Some; congruence). assert (nj' < m)%nat by (apply nth_error_Some; congruence).
      rewrite !Hcorr in U by assumption. apply upair_true in U. destruct U as [[A B]|[A B]]; [left|right]; split; f_equal; lia. }
    set (mol1 := add_edges EL src1) in *.
    assert (Hmerge : merge_graphs mol T = Ok (mol1, corr)).
    { unfold merge_graphs. rewrite Ho. cbn [bind]. fold corr. fold key.
      change (fold_res (fun acc n => a <- merge_node (Z.of_nat N - 1 + 1) fo (na n) ;; Ok (add_node acc (map_get corr (nk n)) a)) T mol)
        with (fold_res (fun acc n => a <- merge_node (Z.of_nat N - 1 + 1) fo (na n) ;; Ok (add_node acc (key n) a)) T mol).
      rewrite E1. cbn [bind]. rewrite (merge_edge_fold (map_get corr)); [reflexivity|].
      intros e He. assert (In (map_get corr (eu e), map_get corr (ev e), ed e) EL) as He' by (unfold EL; apply in_map_iff; exists e; auto).
      destruct (HEL _ He') as (ni & nj & x & y & b & d & _ & E & _ & _ & _ & _ & Nij & _). inversion E. lia. }
    (* the fragment graph *)
    set (val2 := fun n : nrec => aset (S "mapping") (mapping_val name (nk n)) (aset (S "fragid") (VList [VInt (nk mn)]) (val n))).
    destruct (fold_add_nodes (fun acc n => a <- node_attrs mol1 (map_get corr (nk n)) ;;
                                Ok (add_node acc (map_get corr (nk n)) (aset (S "mapping") (mapping_val name (nk n)) (aset (S "fragid") (VList [VInt (nk mn)]) a))))
                             key val2 T gempty) as (gf0 & Eg & Kg & Ag & _ & _).
    { intros acc n Hin. fold (key n). rewrite A2, (A1 n Hin). reflexivity. }
    { exact Hknd. }
    { intros n _. reflexivity. }
    set (gf := add_edges EL gf0).
    assert (Hfrag : frag_graph_of mol1 T corr (nk mn) name = Ok gf).
    { unfold frag_graph_of. rewrite Eg. cbn [bind]. now rewrite (frag_edge_fold (map_get corr)). }
    destruct (add_edges_keys_attrs EL gf0) as [Kgf Agf].
    { intros e' He'. destruct (HEL e' He') as (ni & nj & x & y & b & d & _ & -> & _ & _ & Hi & Hj & _).
      unfold eu, ev. cbn [fst snd]. split; apply gfind_has; rewrite Kg; cbn [node_keys gempty map app]; apply Hkin; lia. }
    fold gf in Kgf, Agf.
    (* the result *)
    set (mol2 := fold_left (fun acc n => set_node_attr (set_node_attr acc (map_get corr (nk n)) (S "fragid") (VList [VInt (nk mn)]))
                                          (map_get corr (nk n)) (S "mapping") (mapping_val name (nk n))) T mol1).
    exists mol2, (fg_set (nk mn) gf fgs). split.
    { unfold disc_step. rewrite Hf. cbn [of_option bind]. unfold lookup_fragment. rewrite Hfd. rewrite Hmerge. cbn [bind].
      rewrite Hfrag. cbn [bind]. reflexivity. }
    assert (Kmol2 : node_keys mol2 = map Z.of_nat (seq 0 (N + m))).
    { unfold mol2. rewrite stamp_keys. rewrite K2, K1, (i_keys _ _ _ I), Hkeys. fold N. symmetry. apply seq_nat_app. }
    assert (Aold : forall k, ~ In k (map key T) -> node_attrs mol2 k = node_attrs mol k).
    { intros k Hk'. unfold mol2. rewrite stamp_other by exact Hk'. rewrite A2. now apply O1. }
    assert (Anew : forall n, In n T -> node_attrs mol2 (key n) = Ok (stamped (nk mn) name (nk n) (val n))).
    { intros n Hin. unfold mol2. apply (stamp_same (map_get corr) (nk mn) name T mol1 Hknd n (val n) Hin).
      rewrite A2. now apply A1. }
    assert (Emol2 : forall x y, edge_attrs mol2 x y =
              match find_edge x y EL with Some e => Ok (aupdate [] (ed e)) | None => edge_attrs mol x y end).
    { intros x y. unfold mol2. rewrite stamp_edges. rewrite Ed2. destruct (find_edge x y EL); [reflexivity|apply Ed1]. }
    assert (Hpart : forall x, In x (flat C) -> owner C x = p -> exists i n, nth_error xs i = Some x /\ In n T /\ nk n = Z.of_nat i /\
                       phi C x = key n /\ tattrs_ok C name x (na n)).
    { intros x Hx Ho'. destruct (owner_spec C Hnd x Hx) as (name' & xs' & i & Hp' & Hi & Ephi). rewrite Ho' in Hp', Ephi.
      rewrite Hp in Hp'. inversion Hp'; subst name' xs'. destruct (HTi i x Hi) as (n & Hin & En & Ha).
      exists i, n. split; [exact Hi|split; [exact Hin|split; [exact En|split; [|exact Ha]]]].
      unfold key. rewrite En, Hcorr by (apply nth_error_Some; congruence). fold N in Ephi. rewrite Ephi. lia. }
    assert (Hxs : forall i x, nth_error xs i = Some x -> In x (flat C) /\ owner C x = p /\ phi C x = Z.of_nat N + Z.of_nat i).
    { intros i x Hi. destruct (phi_part C Hnd _ _ _ _ _ Hp Hi) as [A B]. split; [|split; [exact B|fold N in A; lia]].
      eapply part_in_flat; eauto. eapply nth_error_In; eauto. }
    constructor.
    - rewrite HoffS. exact Kmol2.
    - intros x Hx Ho'. destruct (Nat.eq_dec (owner C x) p) as [Eo|No].
      + destruct (Hpart x Hx Eo) as (i & n & Hi & Hin & En & Ephi & Ha). rewrite Ephi, (Anew n Hin).
        eexists. split; [reflexivity|]. constructor.
        * rewrite stamped_fragid, Hk, Eo. reflexivity.
        * rewrite stamped_other by (intros E; apply str_eqb_eq in E; vm_compute in E; discriminate). unfold val.
          rewrite aget_aset_other by (intros E; apply str_eqb_eq in E; vm_compute in E; discriminate). apply (ta_arom _ _ _ _ Ha).
        * rewrite stamped_other by (intros E; apply str_eqb_eq in E; vm_compute in E; discriminate). unfold val.
          rewrite aget_aset_other by (intros E; apply str_eqb_eq in E; vm_compute in E; discriminate). apply (ta_rs _ _ _ _ Ha).
        * rewrite stamped_other by (intros E; apply str_eqb_eq in E; vm_compute in E; discriminate). unfold val.
          rewrite aget_aset_other by (intros E; apply str_eqb_eq in E; vm_compute in E; discriminate). apply (ta_ez _ _ _ _ Ha).
        * intros key0 v Hv Hr. destruct (not_reserved key0 Hr) as (R1 & R2 & _). rewrite stamped_other by assumption.
          unfold val. rewrite aget_aset_other by assumption. now apply (ta_payload _ _ _ _ Ha).
      + destruct (i_attrs _ _ _ I x Hx) as (a & Ea & Fa); [lia|]. exists a. split; [|exact Fa]. rewrite Aold; [exact Ea|].
        intros X. apply Hkin in X. apply node_attrs_has, gfind_has, Hold in Ea. lia.
    - intros k a Ea. destruct (in_dec Z.eq_dec k (map key T)) as [Hin|Hnin].
      + apply in_map_iff in Hin as (n & <- & Hin). rewrite (Anew n Hin) in Ea. inversion Ea; subst. eexists. apply stamped_fragid.
      + rewrite (Aold k Hnin) in Ea. exact (i_fid _ _ _ I k a Ea).
    - intros k1 k2 He. rewrite has_edge_attrs, Emol2 in He. rewrite HoffS, Nat2Z.inj_add. fold m. destruct (find_edge k1 k2 EL) as [e|] eqn:Ef.
      + apply find_some in Ef as [Hin U]. destruct (HEL e Hin) as (ni & nj & x & y & b & d & _ & -> & _ & _ & Hi & Hj & _).
        unfold eu, ev in U. cbn [fst snd] in U. apply upair_true in U. lia.
      + rewrite <- has_edge_attrs in He. apply (i_closed _ _ _ I) in He. fold N in He. lia.
    - intros k1 k2 d He. rewrite Emol2 in He. destruct (find_edge k1 k2 EL) as [e|] eqn:Ef.
      + apply find_some in Ef as [Hin U]. destruct (HEL e Hin) as (ni & nj & x & y & b & d0 & _ & -> & Ex & Ey & Hi & Hj & Nij & Hb & Hjo & Hord & Hbd & Hdn).
        unfold eu, ev, ed in *. cbn [fst snd] in *. inversion He; subst d. clear He.
        destruct (Hxs ni x Ex) as (Fx & Ox & Px). destruct (Hxs nj y Ey) as (Fy & Oy & Py).
        assert (is_cut C b = false) as Hnc.
        { unfold is_cut. apply negb_false_iff, Nat.eqb_eq. apply joins_true in Hjo. destruct Hjo as [[A B]|[A B]]; congruence. }
        assert (aget (S "order") (aupdate [] d0) = Some (cb_ord b)) as Ho1 by (rewrite aget_aupdate_nodup by exact Hdn; now rewrite Hord).
        assert (aget (S "bonding") (aupdate [] d0) = None) as Ho2 by (rewrite aget_aupdate_nodup by exact Hdn; now rewrite Hbd).
        apply upair_true in U. destruct U as [[-> ->]|[-> ->]].
        * exists x, y, b. repeat split; auto.
        * exists y, x, b. rewrite joins_sym. repeat split; auto.
      + exact (i_edge1 _ _ _ I k1 k2 d He).
    - intros b Hb Hnc Ho'.
      assert (owner C (cb_u b) = owner C (cb_v b)) as Eo by (unfold is_cut in Hnc; now apply negb_false_iff, Nat.eqb_eq in Hnc).
      destruct (wc_ends C W b Hb) as (Fu & Fv & Nuv).
      destruct (Nat.eq_dec (owner C (cb_u b)) p) as [Eu|Nu].
      + destruct (Hpart _ Fu Eu) as (iu & nu & Hiu & _ & _ & _ & _). destruct (Hpart _ Fv (eq_trans (eq_sym Eo) Eu)) as (iv & nv & Hiv & _ & _ & _ & _).
        destruct (Hxs _ _ Hiu) as (_ & _ & Pu). destruct (Hxs _ _ Hiv) as (_ & _ & Pv).
        assert (iu < m)%nat by (apply nth_error_Some; congruence). assert (iv < m)%nat by (apply nth_error_Some; congruence).
        assert (exists e, In e EL /\ upair (phi C (cb_u b)) (phi C (cb_v b)) (eu e) (ev e) = true) as (e & He & U).
        { destruct (it_all _ _ _ _ IT b iu iv Hb Hiu Hiv) as [Hin|Hin]; unfold edges_list in Hin; apply in_map_iff in Hin as ([[i j] d] & E & Hin);
            cbn [fst snd] in E; inversion E; subst i j.
          - exists (map_get corr (Z.of_nat iu), map_get corr (Z.of_nat iv), d).
            split; [unfold EL; apply in_map_iff; exists (Z.of_nat iu, Z.of_nat iv, d); auto|].
            unfold eu, ev. cbn [fst snd]. rewrite !Hcorr by assumption. apply upair_true. left. lia.
          - exists (map_get corr (Z.of_nat iv), map_get corr (Z.of_nat iu), d).
            split; [unfold EL; apply in_map_iff; exists (Z.of_nat iv, Z.of_nat iu, d); auto|].
            unfold eu, ev. cbn [fst snd]. rewrite !Hcorr by assumption. apply upair_true. right. lia. }
        assert (forall x y, upair x y (eu e) (ev e) = true -> has_edge mol2 x y = true) as Hhas.
        { intros x y U'. rewrite has_edge_attrs, Emol2. destruct (find_edge x y EL) eqn:Ef; [reflexivity|].
          unfold find_edge in Ef. pose proof (find_none _ _ Ef e He) as X. cbn in X. congruence. }
        split; apply Hhas; [exact U|]. now rewrite upair_flip.
      + destruct (i_edge2 _ _ _ I b Hb Hnc) as [H1 H2]; [lia|].
        assert (forall x y, has_edge mol x y = true -> has_edge mol2 x y = true) as Hkeep.
        { intros x y Hxy. rewrite has_edge_attrs, Emol2. destruct (find_edge x y EL); [reflexivity|]. now rewrite <- has_edge_attrs. }
        split; now apply Hkeep.
    - rewrite fg_set_fresh.
      + rewrite map_app, (i_fkeys _ _ _ I), seq_S, map_app. cbn. now rewrite Hk.
      + rewrite (i_fkeys _ _ _ I), Hk. intros X. apply seq_nat_in in X. lia.
    - rewrite fg_set_fresh by (rewrite (i_fkeys _ _ _ I), Hk; intros X; apply seq_nat_in in X; lia).
      destruct (parts_split C p name xs Hp) as (pre & post & Epre & Lpre & Fpre & _).
      assert (firstn (Datatypes.S p) (c_parts C) = firstn p (c_parts C) ++ [(name, xs)]) as ->.
      { rewrite Fpre, Epre, <- Lpre. replace (Datatypes.S (length pre)) with (length pre + 1)%nat by lia. now rewrite firstn_app_2. }
      rewrite tables_from_app. unfold tables_of. apply map_res_app; [exact (i_tables _ _ _ I)|].
      cbn [map_res fst snd]. rewrite Fpre, Lpre.
      assert (table_of gf = Ok (tbl_from C (0 + Z.of_nat (length (concat (map snd pre)))) xs)) as ->.
      { unfold table_of. rewrite gna_by_keys by (rewrite Kgf, Kg; exact Hknd). rewrite Kgf, Kg. cbn [node_keys gempty map app].
        rewrite Hkeys. replace (0 + Z.of_nat (length (concat (map snd pre)))) with (Z.of_nat N) by (unfold N, off; rewrite Fpre; lia).
        apply table_of_spec. intros i x Hi. destruct (Hxs i x Hi) as (Fx & Ox & Px). destruct (Hpart x Fx Ox) as (i' & n & Hi' & Hin & En & Ephi & Ha).
        rewrite <- Px, Ephi. rewrite (node_get_attrs gf (key n) (S "bonding") (val2 n)) by (rewrite Agf; now apply Ag).
        unfold val2, val. rewrite !aget_aset_other by (intros E; apply str_eqb_eq in E; vm_compute in E; discriminate).
        apply (ta_bonding _ _ _ _ Ha). }
      cbn [bind]. rewrite Hk. reflexivity.
  Qed.


  Variable B : graph.
  Hypothesis HB : is_base C B.

  Lemma base_length : length B = length (c_parts C).
  Proof.
    pose proof (ib_keys _ _ HB) as K. apply (f_equal (@length Z)) in K. unfold node_keys in K. now rewrite !map_length, seq_length in K.
  Qed.
  Lemma base_node p name xs : nth_error (c_parts C) p = Some (name, xs) ->
    exists mn, nth_error B p = Some mn /\ nk mn = Z.of_nat p /\ aget (S "fragname") (na mn) = Some (VStr name).
  Proof.
    intros Hp. assert (p < length (c_parts C))%nat as Hlt by (apply nth_error_Some; congruence).
    destruct (nth_error B p) as [mn|] eqn:E; [|apply nth_error_None in E; rewrite base_length in E; lia].
    assert (nk mn = Z.of_nat p) as Hk.
    { pose proof (map_nth_error nk _ _ E) as X. fold (node_keys B) in X. rewrite (ib_keys _ _ HB) in X.
      rewrite (map_nth_error Z.of_nat p (seq 0 (length (c_parts C))) (d := p)) in X; [congruence|].
      rewrite nth_error_nth' with (d := 0%nat) by (rewrite seq_length; exact Hlt). now rewrite seq_nth. }
    exists mn. split; [reflexivity|]. split; [exact Hk|].
    destruct (ib_names _ _ HB p name xs Hp) as (a & Ea & Ha). unfold node_attrs in Ea. rewrite <- Hk in Ea.
    rewrite (gfind_in B) in Ea; [inversion Ea; subst; exact Ha| |eapply nth_error_In; eauto].
    rewrite (ib_keys _ _ HB). apply seq_nat_nodup.
  Qed.
  Lemma skipn_nth {A} (l : list A) : forall p x, nth_error l p = Some x -> skipn p l = x :: skipn (Datatypes.S p) l.
  Proof. induction l as [|y r IH]; intros [|p] x H; cbn in *; try discriminate; [congruence|now apply IH]. Qed.

  Lemma disc_fold n : forall p mol fgs, (p + n = length (c_parts C))%nat -> inv p mol fgs ->
    exists mol' fgs', fold_res (disc_step fd) (skipn p B) (mol, fgs) = Ok (mol', fgs') /\ inv (length (c_parts C)) mol' fgs'.
  Proof.
    induction n as [|n IH]; intros p mol fgs Hpn I.
    - assert (p = length (c_parts C)) as -> by lia. rewrite <- base_length, skipn_all. cbn. rewrite base_length. eauto.
    - destruct (nth_error (c_parts C) p) as [[name xs]|] eqn:Hp; [|apply nth_error_None in Hp; lia].
      destruct (base_node p name xs Hp) as (mn & Hmn & Hk & Hf). rewrite (skipn_nth B p mn Hmn). cbn [fold_res].
      destruct (disc_step_inv p name xs mn mol fgs Hp Hk Hf I) as (mol2 & fgs2 & E & I2). rewrite E. cbn [bind].
      apply IH; [lia|exact I2].
  Qed.

  Theorem disconnected_total : exists m1 fg1, resolve_disconnected fd B = Ok (m1, fg1) /\ inv (length (c_parts C)) m1 fg1.
  Proof. unfold resolve_disconnected. apply (disc_fold (length (c_parts C)) 0%nat gempty []); [lia|exact inv_0]. Qed.

End Disc.
