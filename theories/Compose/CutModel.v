(** CutModel: a CUT of a molecule, at graph level (definitions, executable; no proofs).

    A molecule M is a list of atoms (key, payload attributes such as element / charge / aromatic /
    hcount) and a list of bonds (two keys, the value of the `order` attribute).  A cut is a partition
    of the atoms into named PARTS, every part listed in the order in which its template numbers its
    atoms, the parts listed in the order of the nodes of the base graph.  Every bond whose ends lie in
    different parts is a CUT BOND; it carries a label (unique among the cut bonds) and a descriptor
    kind: `$lab` on both ends, or `>lab` on the first and `<lab` on the second end.  The descriptor text
    ends with the order digit, as strip_bonding_descriptors writes it (`$a1`, `>b2`).

    From a cut: the fine key of an atom ([phi] = its position in the concatenation of the parts, which
    is offset(part) + index in the part), the descriptor lists written on the atoms ([descs]), the
    descriptor tables of the parts ([tables]), the cut pairs of two parts ([cutpairs]), and the
    specifications [is_template] / [is_base] of the fragment graphs and the base graph the resolver is
    run on.  The specifications speak about what the resolver READS (node order, node attributes through
    lookups, G.edges enumeration), so every insertion order a parser may produce is covered; the
    canonical graphs [template_of] / [base_of] are given for the non-vacuity examples. *)
From Coq Require Import String.
From Coq Require Import List Ascii ZArith Bool Lia Permutation.
From CGV Require Import Base.PyBase Base.PyVal Base.NxGraph Resolve.Bonding Resolve.BondingDefs Resolve.BondingCheck
     Resolve.CutCheck Resolve.GraphOps.
Import ListNotations.
Open Scope Z_scope.

Record cbond := { cb_u : Z; cb_v : Z; cb_ord : pyval; cb_lab : pystr; cb_dollar : bool }.
Record cut := {
  c_atoms : list (Z * attrs);          (* M: atom key, payload attributes *)
  c_bonds : list cbond;                (* M: bonds (label and kind are read for cut bonds only) *)
  c_parts : list (pystr * list Z);     (* fragment name, atoms in template order; parts in base-node order *)
  c_dord : list (Z * list pystr) }.    (* optional: the order in which an atom's descriptors are written (a permutation
                                          of the descriptors of its cut bonds); atoms not listed: bond-list order *)

Definition zmem (x : Z) (l : list Z) : bool := existsb (Z.eqb x) l.
Arguments zmem : simpl never.
Definition flat (C : cut) : list Z := concat (map snd (c_parts C)).
Fixpoint index_in (x : Z) (l : list Z) : nat :=
  match l with [] => 0%nat | y :: r => if Z.eqb x y then 0%nat else Datatypes.S (index_in x r) end.
(** the fine key of atom x: offset of its part + index in the part *)
Definition phi (C : cut) (x : Z) : Z := Z.of_nat (index_in x (flat C)).
Fixpoint owner_in (x : Z) (ps : list (pystr * list Z)) : nat :=
  match ps with [] => 0%nat | p :: r => if zmem x (snd p) then 0%nat else Datatypes.S (owner_in x r) end.
(** the part of atom x = the coarse key of its fragment *)
Definition owner (C : cut) (x : Z) : nat := owner_in x (c_parts C).
Definition off (C : cut) (p : nat) : nat := length (concat (map snd (firstn p (c_parts C)))).
Definition payload (C : cut) (x : Z) : attrs :=
  match find (fun kv => Z.eqb (fst kv) x) (c_atoms C) with Some kv => snd kv | None => [] end.

Definition is_cut (C : cut) (b : cbond) : bool := negb (Nat.eqb (owner C (cb_u b)) (owner C (cb_v b))).
Definition cuts (C : cut) : list cbond := filter (is_cut C) (c_bonds C).
Definition joins (b : cbond) (x y : Z) : bool :=
  (Z.eqb (cb_u b) x && Z.eqb (cb_v b) y) || (Z.eqb (cb_u b) y && Z.eqb (cb_v b) x).
Definition find_bond (C : cut) (x y : Z) : option cbond := find (fun b => joins b x y) (c_bonds C).

(** the order digit of a descriptor: the bond order; an aromatic bond (1.5) is written with digit 1 *)
Definition digit_of (v : pyval) : option nat :=
  match v with
  | VInt z => if (0 <=? z) && (z <=? 9) then Some (Z.to_nat z) else None
  | VFlt r => if str_eqb r (S "1.5") then Some 1%nat else None
  | _ => None
  end.
Definition bdigit (b : cbond) : nat := match digit_of (cb_ord b) with Some n => n | None => 1%nat end.
Definition dtail (b : cbond) : pystr := cb_lab b ++ [digit_char (bdigit b)].
(** side = true: the descriptor on the cb_u end *)
Definition kind_char (side : bool) (b : cbond) : ascii :=
  if cb_dollar b then "$"%char else if side then ">"%char else "<"%char.
Definition dtext (side : bool) (b : cbond) : pystr := kind_char side b :: dtail b.
Definition bend (side : bool) (b : cbond) : Z := if side then cb_u b else cb_v b.
Definition descs0 (C : cut) (x : Z) : list pystr :=
  flat_map (fun b => (if Z.eqb (cb_u b) x then [dtext true b] else []) ++ (if Z.eqb (cb_v b) x then [dtext false b] else []))
           (cuts C).

(** the descriptor list of atom x as written: the recorded order when there is one *)
Definition descs (C : cut) (x : Z) : list pystr :=
  match find (fun kv => Z.eqb (fst kv) x) (c_dord C) with Some kv => snd kv | None => descs0 C x end.

(** descriptor table of a part whose first atom has fine key k *)
Fixpoint tbl_from (C : cut) (k : Z) (xs : list Z) : tbl :=
  match xs with
  | [] => []
  | x :: r => (match descs C x with [] => [] | ds => [(k, ds)] end) ++ tbl_from C (k + 1) r
  end.
Fixpoint tables_from (C : cut) (p k : Z) (ps : list (pystr * list Z)) : cstate :=
  match ps with
  | [] => []
  | q :: r => (p, tbl_from C k (snd q)) :: tables_from C (p + 1) (k + Z.of_nat (length (snd q))) r
  end.
Definition tables (C : cut) : cstate := tables_from C 0 0 (c_parts C).

(** the cut bonds between parts p and q as (atom, descriptor, atom, descriptor), first atom in p *)
Definition cp_of (C : cut) (p q : nat) (b : cbond) : list cutpair :=
  if Nat.eqb (owner C (cb_u b)) p && Nat.eqb (owner C (cb_v b)) q
  then [(phi C (cb_u b), dtext true b, phi C (cb_v b), dtext false b)]
  else if Nat.eqb (owner C (cb_u b)) q && Nat.eqb (owner C (cb_v b)) p
  then [(phi C (cb_v b), dtext false b, phi C (cb_u b), dtext true b)]
  else [].
Definition cutpairs (C : cut) (p q : nat) : list cutpair := flat_map (cp_of C p q) (cuts C).

(** ---------------------------------------------------------------- well-formed cuts *)
Definition same_ends (b b' : cbond) : Prop :=
  (cb_u b = cb_u b' /\ cb_v b = cb_v b') \/ (cb_u b = cb_v b' /\ cb_v b = cb_u b').
Record wf_cut (C : cut) : Prop := {
  wc_nodup : NoDup (flat C);
  wc_atoms : forall x, In x (map fst (c_atoms C)) <-> In x (flat C);
  wc_ends : forall b, In b (c_bonds C) -> In (cb_u b) (flat C) /\ In (cb_v b) (flat C) /\ cb_u b <> cb_v b;
  wc_simple : ForallOrdPairs (fun b b' => ~ same_ends b b') (c_bonds C);   (* a simple graph: no two list entries join the same atoms *)
  wc_labels : NoDup (map cb_lab (cuts C));
  wc_digits : forall b, In b (cuts C) -> digit_of (cb_ord b) <> None;
  wc_dord : forall kv, In kv (c_dord C) -> Permutation (snd kv) (descs0 C (fst kv)) }.

(** decidable form, for examples *)
Fixpoint nodupzb (l : list Z) : bool := match l with [] => true | x :: r => negb (zmem x r) && nodupzb r end.
Definition cbond_eqb (b b' : cbond) : bool :=
  Z.eqb (cb_u b) (cb_u b') && Z.eqb (cb_v b) (cb_v b') && pyval_eqb (cb_ord b) (cb_ord b')
  && str_eqb (cb_lab b) (cb_lab b') && Bool.eqb (cb_dollar b) (cb_dollar b').
Definition same_endsb (b b' : cbond) : bool :=
  (Z.eqb (cb_u b) (cb_u b') && Z.eqb (cb_v b) (cb_v b')) || (Z.eqb (cb_u b) (cb_v b') && Z.eqb (cb_v b) (cb_u b')).
Fixpoint str_perm_b (a b : list pystr) : bool :=
  match a with
  | [] => match b with [] => true | _ => false end
  | x :: r => match remove_first str_eqb x b with Some b' => str_perm_b r b' | None => false end
  end.
Definition wf_cutb (C : cut) : bool :=
  nodupzb (flat C)
  && forallb (fun x => zmem x (flat C)) (map fst (c_atoms C)) && forallb (fun x => zmem x (map fst (c_atoms C))) (flat C)
  && forallb (fun b => zmem (cb_u b) (flat C) && zmem (cb_v b) (flat C) && negb (Z.eqb (cb_u b) (cb_v b))) (c_bonds C)
  && pairwise_b (fun b b' => negb (same_endsb b b')) (c_bonds C)
  && nodup_strs (map cb_lab (cuts C))
  && forallb (fun b => match digit_of (cb_ord b) with Some _ => true | None => false end) (cuts C)
  && forallb (fun kv => str_perm_b (snd kv) (descs0 C (fst kv))) (c_dord C).

(** ---------------------------------------------------------------- what the templates and the base graph must be *)
Definition reserved : list pystr := [S "fragid"; S "fragname"; S "bonding"; S "ez_isomer_atoms"; S "mapping"].
Definition bonding_val (ds : list pystr) : option pyval :=
  match ds with [] => None | _ => Some (VList (map VStr ds)) end.
(** attributes of the template node of atom x in the fragment called [name]: the defaults
    read_fragment_smiles / read_fragment_cgsmiles set, the descriptors, and M's payload *)
Record tattrs_ok (C : cut) (name : pystr) (x : Z) (a : attrs) : Prop := {
  ta_fragid : aget (S "fragid") a = Some (VInt 0);
  ta_fragname : aget (S "fragname") a = Some (VStr name);
  ta_bonding : aget (S "bonding") a = bonding_val (descs C x);
  ta_ez : aget (S "ez_isomer_atoms") a = None;
  ta_arom : aget (S "aromatic") a = aget (S "aromatic") (payload C x);
  ta_rs : aget (S "rs_isomer") a = None;
  ta_payload : forall key v, aget key (payload C x) = Some v -> ~ In key reserved -> aget key a = Some v }.

Definition unordered_nodup (l : list (Z * Z)) : Prop :=
  ForallOrdPairs (fun e e' => ~ ((fst e = fst e' /\ snd e = snd e') \/ (fst e = snd e' /\ snd e = fst e'))) l.

(** template of a part: nodes 0..m-1 in the part's order; G.edges lists exactly the bonds inside the part,
    each once, with M's order *)
Record is_template (C : cut) (name : pystr) (xs : list Z) (T : graph) : Prop := {
  it_keys : node_keys T = map Z.of_nat (seq 0 (length xs));
  it_attrs : forall i x, nth_error xs i = Some x -> exists a, node_attrs T (Z.of_nat i) = Ok a /\ tattrs_ok C name x a;
  it_edges : forall i j d, In (i, j, d) (edges_data T) ->
     exists ni nj x y b, i = Z.of_nat ni /\ j = Z.of_nat nj /\ nth_error xs ni = Some x /\ nth_error xs nj = Some y /\
       In b (c_bonds C) /\ joins b x y = true /\ aget (S "order") d = Some (cb_ord b) /\ aget (S "bonding") d = None /\
       NoDup (map fst d);
  it_once : unordered_nodup (edges_list T);
  it_all : forall b ni nj, In b (c_bonds C) -> nth_error xs ni = Some (cb_u b) -> nth_error xs nj = Some (cb_v b) ->
     In (Z.of_nat ni, Z.of_nat nj) (edges_list T) \/ In (Z.of_nat nj, Z.of_nat ni) (edges_list T) }.

Definition templates_ok (C : cut) (fd : fragdict) : Prop :=
  forall name xs, In (name, xs) (c_parts C) -> exists T, fd_get name fd = Some T /\ is_template C name xs T.

(** base graph: node p (key p) names part p; G.edges lists exactly the pairs of parts joined by a cut bond,
    each once, with order = number of cut bonds *)
Record is_base (C : cut) (B : graph) : Prop := {
  ib_keys : node_keys B = map Z.of_nat (seq 0 (length (c_parts C)));
  ib_names : forall p name xs, nth_error (c_parts C) p = Some (name, xs) ->
     exists a, node_attrs B (Z.of_nat p) = Ok a /\ aget (S "fragname") a = Some (VStr name);
  ib_edges : forall a b d, In (a, b, d) (edges_data B) ->
     exists p q, a = Z.of_nat p /\ b = Z.of_nat q /\ p <> q /\ (p < length (c_parts C))%nat /\ (q < length (c_parts C))%nat /\
       aget (S "order") d = Some (VInt (Z.of_nat (length (cutpairs C p q))));
  ib_once : unordered_nodup (edges_list B);
  ib_all : forall b, In b (cuts C) ->
     In (Z.of_nat (owner C (cb_u b)), Z.of_nat (owner C (cb_v b))) (edges_list B) \/
     In (Z.of_nat (owner C (cb_v b)), Z.of_nat (owner C (cb_u b))) (edges_list B) }.

(** ---------------------------------------------------------------- the expected result *)
Definition arom (C : cut) (x : Z) : bool :=
  match aget (S "aromatic") (payload C x) with Some v => truthy v | None => false end.
(** order the resolver writes on a re-created cut bond: the descriptor digit, 1.5 between two aromatic atoms *)
Definition cut_order (C : cut) (b : cbond) : pyval :=
  if arom C (cb_u b) && arom C (cb_v b) then VFlt (S "1.5") else VInt (Z.of_nat (bdigit b)).
Definition result_order (C : cut) (x y : Z) : option pyval :=
  match find_bond C x y with
  | Some b => Some (if is_cut C b then cut_order C b else cb_ord b)
  | None => None
  end.
Definition bonded (C : cut) (x y : Z) : bool := match find_bond C x y with Some _ => true | None => false end.
(** a cut bond whose re-created order is M's own: integer order between atoms that are not both aromatic, or 1.5
    between two aromatic atoms *)
Definition cut_faithful (C : cut) (b : cbond) : bool := pyval_eqb (cut_order C b) (cb_ord b).

(** ---------------------------------------------------------------- canonical graphs (for examples) *)
Definition tmpl_attrs (C : cut) (name : pystr) (i : nat) (x : Z) : attrs :=
  payload C x ++ [(S "fragname", VStr name); (S "fragid", VInt 0); (S "weight", VInt 1)]
  ++ (match descs C x with [] => [] | ds => [(S "bonding", VList (map VStr ds))] end).
Definition template_of (C : cut) (name : pystr) (xs : list Z) : graph :=
  let g0 := fold_left (fun acc ix => add_node acc (Z.of_nat (fst ix)) (tmpl_attrs C name (fst ix) (snd ix)))
                      (combine (seq 0 (length xs)) xs) gempty in
  fold_left (fun acc b =>
    if zmem (cb_u b) xs && zmem (cb_v b) xs
    then add_edge acc (Z.of_nat (index_in (cb_u b) xs)) (Z.of_nat (index_in (cb_v b) xs)) [(S "order", cb_ord b)]
    else acc) (c_bonds C) g0.
Definition fragdict_of (C : cut) : fragdict := map (fun p => (fst p, template_of C (fst p) (snd p))) (c_parts C).
Definition base_of (C : cut) : graph :=
  let n := length (c_parts C) in
  let g0 := fold_left (fun acc ip => add_node acc (Z.of_nat (fst ip)) [(S "fragname", VStr (fst (snd ip)))])
                      (combine (seq 0 n) (c_parts C)) gempty in
  fold_left (fun acc pq =>
    match cutpairs C (fst pq) (snd pq) with
    | [] => acc
    | L => add_edge acc (Z.of_nat (fst pq)) (Z.of_nat (snd pq)) [(S "order", VInt (Z.of_nat (length L)))]
    end) (flat_map (fun p => map (pair p) (seq (Datatypes.S p) (n - Datatypes.S p))) (seq 0 n)) g0.
