(** TextRunCheck: per-run tie of the string-level driver model (Compose/TextCutDefs.v) to the IMPLEMENTATION
    (executable, NO proofs; imports models and definitions only).  For every generated cut string of ./check C01 the
    model is run on the STRING ITSELF and compared with what the implementation built from it (the graphs recorded in
    the graph-level record CutRunCheck.run_case):
      from_text s                      the base graph = the graph read_cgsmiles returned (exactly);
                                       the dictionary = resolver.fragment_dicts[0]: the same names, every
                                       template with the same node keys in the same order, the same node attributes, the
                                       same neighbours with the same edge attributes;
      text_bonded s                    = self.molecule right after edges_from_bonding_descrpt, in the same sense.
    Not compared: pysmiles' book-keeping attributes `_atom_str`, `_pos`, `_bond_str` (not modelled) and `rs_isomer`
    (TemplateChiral, C13); the order of a node's neighbours (compared as sets). *)
From Coq Require Import String.
From Coq Require Import List Ascii ZArith Bool.
From CGV Require Import Base.PyBase Base.PyVal Base.NxGraph Dialect.DialectImpl Resolve.Bonding Resolve.BondingCheck Resolve.CutCheck
     Resolve.GraphOps Resolve.Pipeline.
From CGV Require Import Compose.CutModel Compose.CutSpecDefs Compose.CutRunCheck Compose.TextCutDefs.
Import ListNotations.
Open Scope Z_scope.

Definition book_keys : list pystr := [S "_atom_str"; S "_pos"; S "_bond_str"; S "rs_isomer"].
Definition drop_book (a : attrs) : attrs := filter (fun kv => negb (str_in (fst kv) book_keys)) a.
Fixpoint ins_adj (x : Z * attrs) (l : list (Z * attrs)) : list (Z * attrs) :=
  match l with [] => [x] | y :: r => if fst x <=? fst y then x :: y :: r else y :: ins_adj x r end.
Definition canon_node (n : nrec) : nrec :=
  {| nk := nk n; na := drop_book (na n);
     nadj := fold_right ins_adj [] (map (fun wa => (fst wa, drop_book (snd wa))) (nadj n)) |}.
Definition graph_agree (a b : graph) : bool := graph_eqb (map canon_node a) (map canon_node b).
(** the same names (in any order: nothing reads the order of a fragment dictionary) with agreeing templates *)
Definition dict_agree (a b : fragdict) : bool :=
  Nat.eqb (length a) (length b)
  && forallb (fun kg => match fd_get (fst kg) a with Some g => graph_agree g (snd kg) | None => false end) b.

(** the generated strings carry no annotation: float() is never called *)
Definition text_fo : float_oracle := fo_of_table [].
(** 0 agrees; 1 from_string raised in the model; 2 base graph; 3 dictionary; 4 bonded graph *)
Definition text_diff (s : pystr) (r : run_case) : nat :=
  match from_text text_fo s with
  | Err _ => 1%nat
  | Ok st =>
      if negb (graph_eqb (st_mol st) (rc_base r)) then 2%nat
      else if negb (match st_dicts st with [fd] => dict_agree fd (rc_fd r) | _ => false end) then 3%nat
      else match rc_impl r with
           | Some g => match text_bonded text_fo s with Ok m2 => if graph_agree m2 g then 0%nat else 4%nat | Err _ => 4%nat end
           | None => 0%nat
           end
  end.
Definition text_corr (s : pystr) (r : run_case) : bool := Nat.eqb (text_diff s r) 0.

(** the C01 case with its string *)
Definition c01t_case := (c01_case * option pystr)%type.
Definition c01t_corr (c : c01t_case) : bool :=
  c01_corr (fst c) && match snd (fst c), snd c with Some r, Some s => text_corr s r | _, _ => true end.
Definition c01t_fail (c : c01t_case) : nat := c01_fail (fst c).
