(** LayeredStep: the composition clause of C06 for the graphs resolve() RETURNS at the first layer.
    [coarse_step_returned]: a whole coarse resolution step (MoleculeResolver.resolve() on the first layer:
    instantiation, bonding, squash_atoms, sort_nodes_by_attr, annotate_fragments; model PipelineFull.resolve_step_full,
    not all-atom) on (base over groups, coarse fragments) of the coarse cut C' returns; its fine graph still is the
    skeleton of C' (the sort is the identity permutation: the fine keys are laid out group by group) and, read as the next
    coarse graph, it is a base graph of the cut C with its parts in group order ([layered_base]).
    [compose_flat_returned]: the second resolve() call therefore starts from that base graph, and after its instantiation
    and bonding the fine graph is the skeleton of the molecule in the numbering of [perm_cut C C'], equal to the flat
    resolution's skeleton through the renumbering phi C x |-> phi (perm_cut C C') x. *)
From Coq Require Import String.
From Coq Require Import List Ascii ZArith Bool Lia Permutation.
From CGV Require Import Base.PyBase Base.PyVal Base.NxGraph Gen.HydroGen Resolve.Bonding Resolve.GraphOps Resolve.Pipeline Resolve.PipelineFull
     Resolve.MapProofs Resolve.CopyProofs Hydro.GraphLemmas Hydro.SquashDefs.
From CGV Require Hydro.Hydrogens Hydro.Squash.
From CGV Require Import Compose.GraphFacts Compose.GraphAdj Compose.CutModel Compose.CutPos Compose.CutTables Compose.CutDisc
     Compose.CutSkeleton Compose.CutWf Compose.CutHydrogens Compose.SortIdentity Compose.ComposeFlat.
Import ListNotations.
Open Scope Z_scope.

(** ---------------------------------------------------------------- squash_atoms on a skeleton, any step kind *)
Theorem squash_identity_any C aa m2 : wf_cut C -> skeleton C aa m2 -> adj_nodup m2 -> Squash.squash_atoms m2 = Ok m2.
Proof.
  intros W Sk Adj. pose proof (cut_skeleton_wf C W aa m2 Sk) as Wf.
  apply squash_noop. intros [[u v] bv] He. cbn [snd]. unfold Squash.edge_attr_items in He. apply in_flat_map in He as ([[u' v'] d] & Hin & Hx).
  cbn [fst snd] in Hx. destruct (aget squash_edge_attr d) as [bv'|] eqn:Eb; [|contradiction]. destruct Hx as [Hx|[]]. inversion Hx; subst u' v' bv'.
  pose proof (edges_data_attrs m2 u v d (wf_nodup _ Wf) Adj Hin) as Ea.
  destruct (sk_closed _ _ _ Sk u v (edge_attrs_ok_has _ _ _ _ Ea)) as [Hu Hv].
  destruct (sk_onto C W aa m2 Sk u Hu) as (x & Fx & <-). destruct (sk_onto C W aa m2 Sk v Hv) as (y & Fy & <-).
  destruct (sk_edges _ _ _ Sk x y Fx Fy) as (_ & _ & _ & Bv). unfold edge_get in Bv. rewrite Ea in Bv.
  destruct (Bv bv Eb) as (b & s & _ & _ & ->). unfold Squash.starts_squash. cbn [as_list bind as_str]. unfold dtext.
  change squash_prefix with (S "!"). cbn [prefixb S list_ascii_of_string]. destruct (kind_char_cases s b) as [-> |[-> | ->]]; reflexivity.
Qed.

(** ---------------------------------------------------------------- annotate_fragments returns *)
Lemma map_res_total {A B} (f : A -> res B) l : (forall x, In x l -> exists y, f x = Ok y) -> exists l', map_res f l = Ok l'.
Proof.
  induction l as [|x r IH]; intros H; [eexists; reflexivity|]. destruct (H x (or_introl eq_refl)) as [y Ey].
  destruct IH as [l' El]; [intros; apply H; now right|]. exists (y :: l'). cbn. now rewrite Ey, El.
Qed.
Lemma subgraph_nodes_total mol ns : (forall n, In n ns -> has_node mol n = true) -> forall acc,
  exists g1, fold_res (fun acc n => a <- node_attrs mol n ;; Ok (add_node acc n a)) ns acc = Ok g1.
Proof.
  induction ns as [|n r IH]; intros H acc; [eexists; reflexivity|]. cbn [fold_res].
  assert (exists a, node_attrs mol n = Ok a) as [a Ea].
  { specialize (H n (or_introl eq_refl)). unfold has_node in H. unfold node_attrs. destruct (gfind n mol); [eauto|discriminate]. }
  rewrite Ea. cbn [bind]. apply IH. intros; apply H; now right.
Qed.
Lemma annotate_total meta mol : (forall k v, In (k, v) (get_node_attributes mol (S "fragid")) -> exists l, as_list v = Ok l) ->
  exists fgs, annotate_fragments meta mol = Ok fgs.
Proof.
  intros H. unfold annotate_fragments.
  destruct (map_res_total (fun kv : Z * pyval => l <- as_list (snd kv) ;; Ok (fst kv, l)) (get_node_attributes mol (S "fragid"))) as [fm Efm].
  { intros [k v] Hin. destruct (H k v Hin) as [l El]. cbn [fst snd]. rewrite El. eexists. reflexivity. }
  unfold fragid_map. rewrite Efm. cbn [bind]. apply map_res_total. intros mn _.
  assert (forall n, In n (members_of fm (nk mn)) -> has_node mol n = true) as Hm.
  { intros n Hn. apply members_spec in Hn as (l & Hin & _). destruct (map_res_in _ _ _ _ Efm Hin) as ([k v] & Hkv & E).
    cbn [fst snd] in E. destruct (as_list v); cbn in E; [|discriminate]. inversion E; subst k.
    destruct (gna_in _ _ _ _ Hkv) as (r & Hr & <- & _). apply gfind_has. now apply in_map. }
  unfold frag_subgraph. destruct (subgraph_nodes_total mol _ Hm gempty) as [g1 ->]. cbn [bind]. eexists. reflexivity.
Qed.

(** ---------------------------------------------------------------- the part order along the fine keys *)
Lemma firstn_add {A} (l : list A) : forall p d, firstn (p + d) l = firstn p l ++ firstn d (skipn p l).
Proof. induction l as [|x r IH]; intros [|p] d; cbn; try reflexivity; [now destruct d|now rewrite IH]. Qed.
Lemma off_le C p q : (p <= q)%nat -> (off C p <= off C q)%nat.
Proof.
  intros H. unfold off. replace q with (p + (q - p))%nat by lia. rewrite firstn_add, map_app, concat_app, app_length. lia.
Qed.
Lemma owner_mono C x y : NoDup (flat C) -> In x (flat C) -> In y (flat C) -> phi C x < phi C y -> (owner C x <= owner C y)%nat.
Proof.
  intros Hnd Fx Fy Hlt. destruct (owner_spec C Hnd x Fx) as (nx & xs & ix & Px & Ix & Ex). destruct (owner_spec C Hnd y Fy) as (ny & ys & iy & Py & Iy & Ey).
  destruct (Nat.le_gt_cases (owner C x) (owner C y)) as [L|G]; [exact L|exfalso].
  assert (iy < length ys)%nat by (apply nth_error_Some; congruence).
  pose proof (off_S C (owner C y) ny ys Py) as OS. pose proof (off_le C (Datatypes.S (owner C y)) (owner C x) G) as OL. lia.
Qed.

Section First.
  Variables C C' : cut.
  Hypothesis W : wf_cut C.
  Hypothesis W' : wf_cut C'.
  Hypothesis Co : coarse_of C C'.
  Variable fd1 : fragdict.
  Hypothesis HT1 : templates_ok C' fd1.
  Variable Btop : graph.
  Hypothesis HB1 : is_base C' Btop.
  (** the first coarse graph comes from read_cgsmiles: no atom names yet *)
  Hypothesis Hnames : get_node_attributes Btop (S "atomname") = [].

  Theorem coarse_step_returned car :
    exists fo, resolve_step_full true false fd1 Btop car = Ok fo /\
      fo_meta fo = Btop /\ skeleton C' false (fo_m2 fo) /\ fo_mol fo = rebuilt (fo_m2 fo) /\
      skeleton C' false (fo_mol fo) /\ adj_nodup (fo_mol fo) /\
      is_base (perm_cut C C') (next_meta (fo_mol fo)).
  Proof.
    destruct (cut_bonding_skeleton C' W' fd1 HT1 Btop HB1 false) as (c1 & cfg1 & c2 & cfg2 & E1 & E2 & Sk); [discriminate|].
    assert (adj_nodup c2) as Adj by (eapply adj_nodup_bonding; [eapply adj_nodup_disconnected; exact E1|exact E2]).
    assert (edge_nodup c2) as Edn by (eapply edge_nodup_bonding; [eapply edge_nodup_disconnected; exact E1|exact E2]).
    pose proof (cut_skeleton_wf C' W' false c2 Sk) as Wf. pose proof (wc_nodup C' W') as Hnd'.
    (* the sort is the identity *)
    set (f := fun k : Z => Z.of_nat (owner C' (nth (Z.to_nat k) (flat C') 0))).
    assert (Hunphi : forall x, In x (flat C') -> nth (Z.to_nat (phi C' x)) (flat C') 0 = x).
    { intros x Fx. unfold phi. rewrite Nat2Z.id. apply nth_error_nth. now apply nth_index_in. }
    assert (Hsort : sort_nodes_by_attr c2 = Ok (rebuilt c2)).
    { apply (sort_in_order c2 f (length (flat C')) Wf Adj (sk_keys _ _ _ Sk)).
      - intros k Hk. apply gfind_has in Hk. destruct (sk_onto C' W' false c2 Sk k Hk) as (x & Fx & <-). unfold f. rewrite (Hunphi x Fx).
        now destruct (sk_attrs _ _ _ Sk x Fx) as (F & _).
      - intros a b Ha Hb Hab. apply gfind_has in Ha. apply gfind_has in Hb.
        destruct (sk_onto C' W' false c2 Sk a Ha) as (x & Fx & <-). destruct (sk_onto C' W' false c2 Sk b Hb) as (y & Fy & <-).
        unfold f. rewrite (Hunphi x Fx), (Hunphi y Fy). apply Nat2Z.inj_le. now apply owner_mono.
      - intros k Hk. apply gfind_has in Hk. destruct (sk_onto C' W' false c2 Sk k Hk) as (x & Fx & <-). exact (sk_ez _ _ _ Sk x Fx). }
    pose proof (skeleton_rebuilt C' false c2 W' Sk Adj Edn) as Skr. pose proof (rebuilt_adj_nodup c2) as Adjr.
    destruct (annotate_total Btop (rebuilt c2)) as [fgs Efgs].
    { intros k v Hin. destruct (gna_in _ _ _ _ Hin) as (r & Hr & <- & Ev).
      assert (has_node (rebuilt c2) (nk r) = true) as Hk by (apply gfind_has; now apply in_map).
      destruct (sk_onto C' W' false (rebuilt c2) Skr _ Hk) as (x & Fx & Ex). destruct (sk_attrs _ _ _ Skr x Fx) as (F & _).
      rewrite Ex in F. unfold node_get in F.
      rewrite (gfind_in (rebuilt c2) (wf_nodup _ (cut_skeleton_wf C' W' false _ Skr)) r Hr), Ev in F. inversion F. eexists. reflexivity. }
    eexists. split.
    - unfold resolve_step_full. rewrite Hnames. cbn [set_nodes_from fold_left]. rewrite E1. cbn [bind]. rewrite E2. cbn [bind].
      rewrite (squash_identity_any C' false c2 W' Sk Adj). cbn [bind]. rewrite Hsort. cbn [bind]. rewrite Efgs. cbn [bind]. reflexivity.
    - cbn [fo_meta fo_m2 fo_mol]. split; [reflexivity|]. split; [exact Sk|]. split; [reflexivity|]. split; [exact Skr|]. split; [exact Adjr|].
      exact (layered_base C C' W W' Co (rebuilt c2) Skr Adjr).
  Qed.
End First.

(** ---------------------------------------------------------------- two resolve() calls against the flat resolution *)
Theorem compose_flat_returned C C' fd1 Btop fd2 Bflat aa car :
  wf_cut C -> wf_cut C' -> coarse_of C C' ->
  templates_ok C' fd1 -> is_base C' Btop -> get_node_attributes Btop (S "atomname") = [] ->
  templates_ok C fd2 -> is_base C Bflat ->
  (aa = true -> forall x, In x (flat C) -> (exists e, aget (S "element") (payload C x) = Some e) /\ exists h, aget (S "hcount") (payload C x) = Some (VInt h)) ->
  exists fo l1 lfg1 l2 lfg2 f1 ffg1 f2 ffg2,
    (* first resolve(): the whole coarse step returns *)
    resolve_step_full true false fd1 Btop car = Ok fo /\
    (* second resolve(): its coarse graph is the returned fine graph with fragname := atomname; instantiation + bonding *)
    (let meta := set_nodes_from (fo_mol fo) (S "fragname") (get_node_attributes (fo_mol fo) (S "atomname")) in
     is_base (perm_cut C C') meta /\
     resolve_disconnected fd2 meta = Ok (l1, lfg1) /\ bonding_step true aa meta l1 lfg1 = Ok (l2, lfg2)) /\
    skeleton (perm_cut C C') aa l2 /\ adj_nodup l2 /\
    (* flat *)
    resolve_disconnected fd2 Bflat = Ok (f1, ffg1) /\ bonding_step true aa Bflat f1 ffg1 = Ok (f2, ffg2) /\ skeleton C aa f2 /\
    (* the same skeleton through phi C x |-> phi (perm_cut C C') x *)
    (forall x y, In x (flat C) -> In y (flat C) ->
       has_edge l2 (phi (perm_cut C C') x) (phi (perm_cut C C') y) = has_edge f2 (phi C x) (phi C y) /\
       edge_get l2 (phi (perm_cut C C') x) (phi (perm_cut C C') y) (S "order") = edge_get f2 (phi C x) (phi C y) (S "order")) /\
    (forall x key v, In x (flat C) -> aget key (payload C x) = Some v -> ~ In key reserved -> (aa = true -> key <> S "hcount") ->
       node_get l2 (phi (perm_cut C C') x) key = Some v /\ node_get f2 (phi C x) key = Some v).
Proof.
  intros W W' Co HT1 HB1 Hnames HT2 HB2 Haa.
  destruct (coarse_step_returned C C' W W' Co fd1 HT1 Btop HB1 Hnames car) as (fo & Efo & _ & _ & _ & _ & _ & HBL).
  pose proof (perm_cut_wf C C' W Co) as Wp.
  assert (flat_iff : forall x, In x (flat (perm_cut C C')) <-> In x (flat C)).
  { intros x. split; intros H; [eapply Permutation_in; [exact (flat_perm C C' Co)|exact H]|eapply Permutation_in; [apply Permutation_sym; exact (flat_perm C C' Co)|exact H]]. }
  destruct (cut_bonding_skeleton (perm_cut C C') Wp fd2 (templates_perm C C' W Co fd2 HT2) (next_meta (fo_mol fo)) HBL aa) as (l1 & lfg1 & l2 & lfg2 & El1 & El2 & Skl).
  { intros Ea x Fx. apply flat_iff in Fx. exact (Haa Ea x Fx). }
  destruct (cut_bonding_skeleton C W fd2 HT2 Bflat HB2 aa Haa) as (f1 & ffg1 & f2 & ffg2 & Ef1 & Ef2 & Skf).
  assert (adj_nodup l2) as Adjl by (eapply adj_nodup_bonding; [eapply adj_nodup_disconnected; exact El1|exact El2]).
  exists fo, l1, lfg1, l2, lfg2, f1, ffg1, f2, ffg2.
  split; [exact Efo|]. split; [cbn zeta; fold (next_meta (fo_mol fo)); auto|]. split; [exact Skl|]. split; [exact Adjl|].
  split; [exact Ef1|]. split; [exact Ef2|]. split; [exact Skf|]. split.
  - intros x y Fx Fy. destruct (sk_edges _ _ _ Skl x y (proj2 (flat_iff x) Fx) (proj2 (flat_iff y) Fy)) as (A1 & A2 & _).
    destruct (sk_edges _ _ _ Skf x y Fx Fy) as (B1 & B2 & _). rewrite A1, A2, B1, B2.
    assert (forall b, In b (c_bonds C) -> is_cut (perm_cut C C') b = is_cut C b) as Hc by (intros b Hb; now apply (is_cut_perm C C' W Co)).
    unfold bonded, result_order, find_bond. change (c_bonds (perm_cut C C')) with (c_bonds C). split; [reflexivity|].
    destruct (find (fun b => joins b x y) (c_bonds C)) as [b|] eqn:Eb; [|reflexivity]. apply find_some in Eb as [Hb _]. now rewrite (Hc b Hb).
  - intros x key v Fx Hv Hr Hh. destruct (sk_attrs _ _ _ Skl x (proj2 (flat_iff x) Fx)) as (_ & _ & _ & PL). destruct (sk_attrs _ _ _ Skf x Fx) as (_ & _ & _ & PF).
    split; [apply PL; auto|apply PF; auto].
Qed.
