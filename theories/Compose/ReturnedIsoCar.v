(** ReturnedIsoCar: ReturnedIso.v / CutHydrogens for ANY aromaticity transcript admitted by Hydro's contract.
    [all_atom_step_car]: one returned all-atom resolve() with transcript [car]: the bonded graph is the molecule's skeleton,
    squash_atoms is the identity, and - when the transcript is [transcript_ok] for that skeleton - the completed graph is the
    [completion_car] of the transcript (every atom receives least-fitting-valence minus the TRANSCRIPT's bond sum hydrogens:
    [cut_hydrogens_car]).
    [returned_graphs_iso_car]: two returned all-atom resolve() calls on two listings of the parts of one cut whose transcripts
    agree on the bond orders through phi ([corr_orders]; with [corr_arom] the `aromatic` flags are carried too): the returned
    molecules are isomorphic by the explicit map.  Instances: [base_order_returned_car] (C01), [layered_flat_resolve_iso_car]
    and [compose_levels_resolve_iso_car] (C06). *)
From Coq Require Import String.
From Coq Require Import List Ascii ZArith Bool Lia Permutation.
From CGV Require Import Base.PyBase Base.PyVal Base.NxGraph Gen.HydroGen Resolve.Bonding Resolve.GraphOps Resolve.Pipeline Resolve.PipelineFull Resolve.Drivers
     Hydro.GraphLemmas Hydro.SquashDefs Hydro.HydroDefs.
From CGV Require Hydro.Hydrogens Hydro.Squash.
From CGV Require Import Compose.GraphFacts Compose.GraphAdj Compose.CutModel Compose.CutPos Compose.CutTables Compose.CutDisc
     Compose.CutSkeleton Compose.CutWf Compose.CutHydrogens Compose.ComposeFlat Compose.LayeredStep Compose.Levels Compose.PartPerm Compose.Completion
     Compose.CutIso Compose.OrderIndep Compose.ReturnedIso Compose.Transcript Compose.CompletionCar Compose.CutIsoCar.
Import ListNotations.
Open Scope Z_scope.

Lemma heavy_atoms_of_payload C : heavy_payload C -> heavy_atoms C.
Proof. intros H x Fx. destruct (H x Fx) as (A & B & _ & D). auto. Qed.

Theorem all_atom_step_car C fd prev car fo : wf_cut C -> templates_ok C fd -> is_base C (next_meta prev) -> heavy_payload C ->
  resolve_step_full true true fd prev (Some car) = Ok fo ->
  skeleton C true (fo_m2 fo) /\ fo_m3 fo = fo_m2 fo /\ askel C (fo_m3 fo) /\
  Hydrogens.rebuild_after_car false rebuild_copy_attrs_default car = Ok (fo_m4 fo) /\
  (transcript_ok (fo_m3 fo) car -> completion_car C car (fo_m4 fo)).
Proof.
  intros W HT HB Hat R.
  destruct (all_atom_step_inv _ _ _ _ _ R) as (a1 & afg1 & afg2 & _ & Ea1 & Ea2 & Sa & Ra & _).
  destruct (cut_all_atom_step C W fd HT (next_meta prev) HB Hat) as (m1 & fg1 & m2 & fg2 & E1 & E2 & Sk & Adj & _ & Sq).
  rewrite Ea1 in E1. inversion E1; subst m1 fg1. rewrite Ea2 in E2. inversion E2; subst m2 fg2. rewrite Sa in Sq. injection Sq as E3.
  assert (edge_nodup (fo_m2 fo)) as Edn by (eapply edge_nodup_bonding; [eapply edge_nodup_disconnected; exact Ea1|exact Ea2]).
  pose proof (askel_of_skeleton C (fo_m2 fo) W Sk Adj Edn) as Ak.
  assert (Hydrogens.rebuild_after_car false rebuild_copy_attrs_default car = Ok (fo_m4 fo)) as Rc.
  { unfold Hydrogens.rebuild_h_atoms_default, Hydrogens.rebuild_h_atoms in Ra. destruct (Hydrogens.transcript_contract (fo_m3 fo) car); [exact Ra|discriminate]. }
  split; [exact Sk|]. split; [exact E3|]. rewrite E3. split; [exact Ak|]. split; [exact Rc|].
  intros Tk. apply completion_car_of; auto; [now apply heavy_atoms_of_payload|]. exact (askel_of_transcript C _ car Ak Tk).
Qed.

Theorem returned_graphs_iso_car C1 C2 fd1 fd2 prev1 prev2 car1 car2 fo1 fo2 ms1 ms2 :
  wf_cut C1 -> pperm C1 C2 -> heavy_payload C1 ->
  templates_ok C1 fd1 -> is_base C1 (next_meta prev1) -> templates_ok C2 fd2 -> is_base C2 (next_meta prev2) ->
  resolve_step_full true true fd1 prev1 (Some car1) = Ok fo1 -> resolve_step_full true true fd2 prev2 (Some car2) = Ok fo2 ->
  transcript_ok (fo_m3 fo1) car1 -> transcript_ok (fo_m3 fo2) car2 -> corr_orders C1 C2 car1 car2 ->
  sort_mapping (fo_m4 fo1) = Ok ms1 -> sort_mapping (fo_m4 fo2) = Ok ms2 ->
  completion_car C1 car1 (fo_m4 fo1) /\ completion_car C2 car2 (fo_m4 fo2) /\
  returned_iso_car after_sort_key C1 C2 car1 (fo_m4 fo1) car2 (fo_m4 fo2) (fo_mol fo1) (fo_mol fo2) ms1 ms2.
Proof.
  intros W1 PP Hat HT1 HB1 HT2 HB2 R1 R2 T1 T2 Corr M1 M2. pose proof (pperm_wf C1 C2 W1 PP) as W2.
  destruct (all_atom_step_car C1 fd1 prev1 car1 fo1 W1 HT1 HB1 Hat R1) as (_ & _ & _ & _ & K1). specialize (K1 T1).
  destruct (all_atom_step_car C2 fd2 prev2 car2 fo2 W2 HT2 HB2 (heavy_payload_pp _ _ PP Hat) R2) as (_ & _ & _ & _ & K2). specialize (K2 T2).
  destruct (all_atom_step_inv _ _ _ _ _ R1) as (? & ? & ? & _ & _ & _ & _ & _ & So1 & Kk1 & Ed1 & At1).
  destruct (all_atom_step_inv _ _ _ _ _ R2) as (? & ? & ? & _ & _ & _ & _ & _ & So2 & Kk2 & Ed2 & At2).
  split; [exact K1|]. split; [exact K2|].
  assert (returned_iso_car (fun _ => True) C1 C2 car1 (fo_m4 fo1) car2 (fo_m4 fo2) (fo_m5 fo1) (fo_m5 fo2) ms1 ms2) as RI by (apply sorted_iso_car; assumption).
  apply (returned_iso_car_transfer after_sort_key C1 C2 _ _ _ _ (fo_m5 fo1) (fo_m5 fo2) _ _ _ _ RI Kk1 Kk2).
  - intros a b. exact (Ed1 a b (S "order")).
  - intros a b. exact (Ed2 a b (S "order")).
  - exact At1.
  - exact At2.
Qed.

(** C01: the order in which the base graph lists its nodes, any transcripts *)
Theorem base_order_returned_car C1 C2 fd prev1 prev2 car1 car2 fo1 fo2 ms1 ms2 :
  wf_cut C1 -> pperm C1 C2 -> heavy_payload C1 -> templates_ok C1 fd -> is_base C1 (next_meta prev1) -> is_base C2 (next_meta prev2) ->
  resolve_step_full true true fd prev1 (Some car1) = Ok fo1 -> resolve_step_full true true fd prev2 (Some car2) = Ok fo2 ->
  transcript_ok (fo_m3 fo1) car1 -> transcript_ok (fo_m3 fo2) car2 -> corr_orders C1 C2 car1 car2 ->
  sort_mapping (fo_m4 fo1) = Ok ms1 -> sort_mapping (fo_m4 fo2) = Ok ms2 ->
  returned_iso_car after_sort_key C1 C2 car1 (fo_m4 fo1) car2 (fo_m4 fo2) (fo_mol fo1) (fo_mol fo2) ms1 ms2.
Proof.
  intros W1 PP Hat HT HB1 HB2 R1 R2 T1 T2 Corr M1 M2.
  now destruct (returned_graphs_iso_car C1 C2 fd fd prev1 prev2 car1 car2 fo1 fo2 ms1 ms2 W1 PP Hat HT HB1 (pp_templates C1 C2 W1 PP fd HT) HB2 R1 R2 T1 T2 Corr M1 M2) as (_ & _ & H).
Qed.

(** C06: layered against flat, any transcripts *)
Theorem layered_flat_resolve_iso_car C C' fd1 Btop fd2 Bflat car carl carf fol fof msl msf :
  wf_cut C -> wf_cut C' -> coarse_of C C' -> heavy_payload C ->
  templates_ok C' fd1 -> is_base C' Btop -> get_node_attributes Btop (S "atomname") = [] ->
  templates_ok C fd2 -> is_base C (next_meta Bflat) ->
  exists fo, resolve_step_full true false fd1 Btop car = Ok fo /\
    (resolve_step_full true true fd2 Bflat (Some carf) = Ok fof -> resolve_step_full true true fd2 (fo_mol fo) (Some carl) = Ok fol ->
     transcript_ok (fo_m3 fof) carf -> transcript_ok (fo_m3 fol) carl -> corr_orders C (perm_cut C C') carf carl ->
     sort_mapping (fo_m4 fof) = Ok msf -> sort_mapping (fo_m4 fol) = Ok msl ->
     returned_iso_car after_sort_key C (perm_cut C C') carf (fo_m4 fof) carl (fo_m4 fol) (fo_mol fof) (fo_mol fol) msf msl).
Proof.
  intros W W' Co Hat HT1 HB1 Hnames HT2 HB2.
  destruct (coarse_step_returned C C' W W' Co fd1 HT1 Btop HB1 Hnames car) as (fo & Efo & _ & _ & _ & _ & _ & HBL).
  exists fo. split; [exact Efo|]. intros Rf Rl Tf Tl Corr Mf Ml.
  now destruct (returned_graphs_iso_car C (perm_cut C C') fd2 fd2 Bflat (fo_mol fo) carf carl fof fol msf msl W (pperm_perm_cut C C' Co) Hat HT2 HB2
                  (templates_perm C C' W Co fd2 HT2) HBL Rf Rl Tf Tl Corr Mf Ml) as (_ & _ & H).
Qed.

(** C06: any number of coarse levels, then the all-atom level, against flat; any transcripts *)
Theorem compose_levels_resolve_iso_car U Cs C0 (lvU : level) (lv : list level) (lv0 : level) Btop fgs0 Bflat carl carf fol fof msl msf :
  wf_cut U -> templates_ok U (fst lvU) -> is_base U (next_meta Btop) -> raw_chain U Cs ->
  Forall2 (fun C (l : level) => templates_ok C (fst l)) Cs lv ->
  wf_cut C0 -> coarse_of C0 (last Cs U) -> templates_ok C0 (fst lv0) -> heavy_payload C0 -> is_base C0 (next_meta Bflat) ->
  exists st' outs,
    resolve_n level amol dstep (Datatypes.S (length Cs)) (fresh level amol (Btop, fgs0) (lvU :: lv ++ [lv0]) true) = Ok (st', outs) /\
    Forall2 level_ok (U :: effs U Cs) outs /\
    uses level amol st' = (Datatypes.S (length Cs), true) /\ nth_error (dicts st') (counter st') = Some lv0 /\
    (resolve_step_full true true (fst lv0) Bflat (Some carf) = Ok fof ->
     resolve_step_full true true (fst lv0) (fst (molecule st')) (Some carl) = Ok fol ->
     transcript_ok (fo_m3 fof) carf -> transcript_ok (fo_m3 fol) carl -> corr_orders C0 (perm_cut C0 (last_eff U Cs)) carf carl ->
     sort_mapping (fo_m4 fof) = Ok msf -> sort_mapping (fo_m4 fol) = Ok msl ->
     returned_iso_car after_sort_key C0 (perm_cut C0 (last_eff U Cs)) carf (fo_m4 fof) carl (fo_m4 fol) (fo_mol fof) (fo_mol fol) msf msl).
Proof.
  intros WU HTU HBU Hraw Hlv W0 Co0 HT0 Hat HBf.
  destruct (compose_levels_all_atom U Cs C0 lvU lv lv0 Btop fgs0 WU HTU HBU Hraw Hlv W0 Co0 HT0) as (st' & outs & Er & A5 & Us & Nth & Rest).
  { intros x Fx. destruct (Hat x Fx) as (A & _ & B & _). auto. }
  cbn zeta in Rest. destruct Rest as (WE0 & HB0 & HTE0 & _).
  exists st', outs. split; [exact Er|]. split; [exact A5|]. split; [exact Us|]. split; [exact Nth|]. intros Rf Rl Tf Tl Corr Mf Ml.
  assert (pperm C0 (perm_cut C0 (last_eff U Cs))) as PP.
  { constructor; try reflexivity. unfold perm_cut. cbn [c_parts].
    assert (coarse_of C0 (last_eff U Cs)) as Co'.
    { pose proof (raw_eff Cs U U (psim_refl U) Hraw) as Heff. destruct Cs as [|C r] eqn:ECs; [exact Co0|].
      destruct (eff_chain_last (C :: r) U Heff ltac:(discriminate)) as (E1 & EE & _ & CoL). rewrite EE. eapply coarse_of_psim; [apply psim_perm_cut; exact CoL|exact Co0]. }
    exact (parts_perm C0 (last_eff U Cs) Co'). }
  now destruct (returned_graphs_iso_car C0 _ (fst lv0) (fst lv0) Bflat (fst (molecule st')) carf carl fof fol msf msl W0 PP Hat HT0 HBf HTE0 HB0 Rf Rl Tf Tl Corr Mf Ml) as (_ & _ & H).
Qed.

(** the identity transcript (no aromatic bond: correct_aromatic_rings changes nothing) satisfies the transcript hypotheses,
    so the theorems above have the theorems of ReturnedIso.v as instances (and IsoExamples.v as witnesses) *)
Lemma transcript_ok_id C m2 : askel C m2 -> transcript_ok m2 m2.
Proof. intros A. constructor; try reflexivity; [exact (ak_adj _ _ A)|exact (ak_edn _ _ A)|exact (ak_sym _ _ A)]. Qed.
Lemma corr_orders_id C1 C2 m1 m2 : wf_cut C1 -> pperm C1 C2 -> skeleton C1 true m1 -> skeleton C2 true m2 -> corr_orders C1 C2 m1 m2.
Proof.
  intros W PP S1 S2 x y Fx Fy. destruct (sk_edges _ _ _ S1 x y Fx Fy) as (_ & -> & _).
  assert (In x (flat C2) /\ In y (flat C2)) as [Fx2 Fy2] by (split; eapply pp_flat_in; eauto).
  destruct (sk_edges _ _ _ S2 x y Fx2 Fy2) as (_ & -> & _). symmetry. exact (pp_result_order C1 C2 W PP x y).
Qed.
Lemma corr_arom_id C1 C2 m1 m2 : pperm C1 C2 -> skeleton C1 true m1 -> skeleton C2 true m2 -> corr_arom C1 C2 m1 m2.
Proof.
  intros PP S1 S2 x Fx. destruct (sk_attrs _ _ _ S1 x Fx) as (_ & -> & _).
  assert (In x (flat C2)) as Fx2 by (eapply pp_flat_in; eauto).
  destruct (sk_attrs _ _ _ S2 x Fx2) as (_ & -> & _). now rewrite (pp_payload C1 C2 PP).
Qed.
