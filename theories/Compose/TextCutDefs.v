(** TextCutDefs: the string-level driver model of Compose/TextCut.v (executable, NO proofs): read_fragments from the block
    text - DriverModel.read_fragments_with over the strip component's strip_bonding_descriptors, its pysmiles parser model
    and FINAL template (TemplateFinal.final_assemble as a networkx graph, [tgraph] = TemplateGraph.tmpl_graph) in the all-atom branch,
    Write/FragRead.read_fragment_cgsmiles in the coarse branch, `if fragname not in fragment_dict` as insertion
    (Stereo/EzStrings.fd_add) -, MoleculeResolver.from_string over it and the Reader's read_cgsmiles, and the first resolve()
    up to the bonding step.  Compared with the implementation on every generated string of ./check C01
    (Compose/TextRunCheck.v). *)
From Coq Require Import String.
From Coq Require Import List Ascii ZArith Bool.
From CGV Require Import Base.PyBase Base.PyVal Base.NxGraph Dialect.DialectImpl.
From CGV Require Import Frag.NDict Frag.StripImpl Frag.SmilesParse Frag.Template Frag.TemplateFinal.
From CGV Require Reader.ReaderImpl Stereo.EzStrings Write.FragRead.
From CGV Require Import Resolve.Bonding Resolve.GraphOps Resolve.Pipeline Dialect.DriverModel.
Import ListNotations.
Open Scope Z_scope.

(** the template as a networkx graph: nodes 0..n-1 in order, adjacency of a node = its bonds in creation order.  A copy of
    Frag/TemplateGraph.tmpl_graph (a file with proofs; TextCut.tgraph_eq: the two are the same function), so that this
    file and the per-run check depend on model files only *)
Definition tg_adj (i : nat) (E : list (nat * nat * pyval)) : list (Z * attrs) :=
  flat_map (fun e => let '(u, v, o) := e in
                     if Nat.eqb u i then [(Z.of_nat v, [(S "order", o)])] else if Nat.eqb v i then [(Z.of_nat u, [(S "order", o)])] else []) E.
Definition tgraph (T : tmpl) : graph :=
  map (fun ia : nat * attrs => {| nk := Z.of_nat (fst ia); na := snd ia; nadj := tg_adj (fst ia) (t_edges T) |})
      (combine (seq 0 (length (t_nodes T))) (t_nodes T)).

Definition mk_text (fo : float_oracle) (aa : bool) (name : pystr) (r : StripImpl.result) : res graph :=
  let '(clean, d, ez, a) := r in
  if aa then
    G <- smiles_parse (if str_eqb clean (S "H") then S "[H]" else clean) ;;
    T <- final_assemble name G d ez a ;;
    Ok (tgraph T)
  else FragRead.read_fragment_cgsmiles fo clean name d a.
Definition read_fragments_text (fo : float_oracle) : pystr -> bool -> res fragdict :=
  read_fragments_with fo (mk_text fo) EzStrings.fd_add.
(** from_string(s, last_all_atom=True, legacy=True) *)
Definition from_text (fo : float_oracle) (s : pystr) : res rstate :=
  from_string (ReaderImpl.read_cgsmiles fo) (read_fragments_text fo) s true true.

(** the first resolve() up to the bonding step: `fragname := atomname` on the coarse graph, disconnected step, bonding step *)
Definition text_meta (prev : graph) : graph := set_nodes_from prev (S "fragname") (get_node_attributes prev (S "atomname")).
Definition text_bonded (fo : float_oracle) (s : pystr) : res graph :=
  st <- from_text fo s ;;
  match st_dicts st with
  | [fd] => '(m1, fg1) <- resolve_disconnected fd (text_meta (st_mol st)) ;;
            '(m2, _) <- bonding_step (st_legacy st) (is_all_atom st) (text_meta (st_mol st)) m1 fg1 ;; Ok m2
  | _ => Err EValue
  end.
