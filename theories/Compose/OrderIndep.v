(** OrderIndep: the all-atom results for two listings of the parts of one cut are isomorphic by the explicit map.
    [all_atom_iso]: C1 and C2 are the same cut with the parts in different orders ([pperm]); on each side any base graph
    and any templates meeting the specifications.  Both all-atom steps reach the molecule's skeleton (squash_atoms is the
    identity); whenever the hydrogen completions and the sorts return (identity aromaticity transcripts), the two RETURNED
    sorted graphs are isomorphic by [CutIso.returned_iso]: atoms through phi C1 x |-> phi C2 x composed with the two sorting
    permutations, hydrogens through (anchor, rank).
    [base_order_independent] (C01: "in whatever order the base graph lists its nodes"): the same templates, two base
    graphs listing the parts in different orders.
    [layered_flat_returned_iso] (C06): the layered description (first resolve() returned, [compose_flat_returned]) against
    the flat one. *)
From Coq Require Import String.
From Coq Require Import List Ascii ZArith Bool Lia Permutation.
From CGV Require Import Base.PyBase Base.PyVal Base.NxGraph Gen.HydroGen Resolve.Bonding Resolve.GraphOps Resolve.Pipeline Resolve.PipelineFull
     Hydro.GraphLemmas Hydro.SquashDefs Hydro.HydroDefs.
From CGV Require Hydro.Hydrogens Hydro.Squash.
From CGV Require Import Compose.GraphFacts Compose.GraphAdj Compose.CutModel Compose.CutPos Compose.CutTables Compose.CutDisc
     Compose.CutSkeleton Compose.CutWf Compose.CutHydrogens Compose.ComposeFlat Compose.LayeredStep Compose.PartPerm Compose.Completion Compose.CutIso.
Import ListNotations.
Open Scope Z_scope.

Definition heavy_payload (C : cut) : Prop := forall x, In x (flat C) ->
  (exists e, aget (S "element") (payload C x) = Some e) /\ (exists q, aget (S "charge") (payload C x) = Some q) /\
  (exists h, aget (S "hcount") (payload C x) = Some (VInt h)) /\ Hydrogens.is_H (payload C x) = false.
Definition numeric_orders (C : cut) : Prop := forall b, In b (c_bonds C) -> numeric (cb_ord b).

Lemma heavy_payload_pp C1 C2 : pperm C1 C2 -> heavy_payload C1 -> heavy_payload C2.
Proof. intros PP H x Fx. rewrite (pp_payload C1 C2 PP). apply H. now apply (pp_flat_in C1 C2 PP). Qed.
Lemma numeric_orders_pp C1 C2 : pperm C1 C2 -> numeric_orders C1 -> numeric_orders C2.
Proof. intros PP H b Hb. rewrite (pp_bonds _ _ PP) in Hb. now apply H. Qed.

(** one side: the bonded graph of an all-atom step and everything the isomorphism needs about it *)
Lemma all_atom_side C fd B : wf_cut C -> templates_ok C fd -> is_base C B -> heavy_payload C -> numeric_orders C ->
  exists m1 fg1 m2 fg2, resolve_disconnected fd B = Ok (m1, fg1) /\ bonding_step true true B m1 fg1 = Ok (m2, fg2) /\
    Squash.squash_atoms m2 = Ok m2 /\ skeleton C true m2 /\
    forall g4, Hydrogens.rebuild_h_atoms_default m2 (Some m2) = Ok g4 -> completion C m2 g4.
Proof.
  intros W HT HB Hat Hnum. destruct (cut_all_atom_step C W fd HT B HB Hat) as (m1 & fg1 & m2 & fg2 & E1 & E2 & Sk & Adj & _ & Sq).
  assert (edge_nodup m2) as Edn by (eapply edge_nodup_bonding; [eapply edge_nodup_disconnected; exact E1|exact E2]).
  exists m1, fg1, m2, fg2. split; [exact E1|]. split; [exact E2|]. split; [exact Sq|]. split; [exact Sk|]. intros g4 Hr. now apply completion_of.
Qed.

Theorem all_atom_iso C1 C2 fd1 fd2 B1 B2 : wf_cut C1 -> pperm C1 C2 -> heavy_payload C1 -> numeric_orders C1 ->
  templates_ok C1 fd1 -> is_base C1 B1 -> templates_ok C2 fd2 -> is_base C2 B2 ->
  exists a1 afg1 a2 afg2 b1 bfg1 b2 bfg2,
    resolve_disconnected fd1 B1 = Ok (a1, afg1) /\ bonding_step true true B1 a1 afg1 = Ok (a2, afg2) /\ Squash.squash_atoms a2 = Ok a2 /\
    resolve_disconnected fd2 B2 = Ok (b1, bfg1) /\ bonding_step true true B2 b1 bfg1 = Ok (b2, bfg2) /\ Squash.squash_atoms b2 = Ok b2 /\
    forall g1 g2 h1 h2 ms1 ms2,
      Hydrogens.rebuild_h_atoms_default a2 (Some a2) = Ok g1 -> Hydrogens.rebuild_h_atoms_default b2 (Some b2) = Ok g2 ->
      sort_nodes_by_attr g1 = Ok h1 -> sort_nodes_by_attr g2 = Ok h2 -> sort_mapping g1 = Ok ms1 -> sort_mapping g2 = Ok ms2 ->
      completion C1 a2 g1 /\ completion C2 b2 g2 /\ returned_iso C1 C2 a2 g1 b2 g2 h1 h2 ms1 ms2.
Proof.
  intros W1 PP Hat Hnum HT1 HB1 HT2 HB2. pose proof (pperm_wf C1 C2 W1 PP) as W2.
  destruct (all_atom_side C1 fd1 B1 W1 HT1 HB1 Hat Hnum) as (a1 & afg1 & a2 & afg2 & Ea1 & Ea2 & Sa & _ & Ka).
  destruct (all_atom_side C2 fd2 B2 W2 HT2 HB2 (heavy_payload_pp _ _ PP Hat) (numeric_orders_pp _ _ PP Hnum)) as (b1 & bfg1 & b2 & bfg2 & Eb1 & Eb2 & Sb & _ & Kb).
  exists a1, afg1, a2, afg2, b1, bfg1, b2, bfg2. split; [exact Ea1|]. split; [exact Ea2|]. split; [exact Sa|]. split; [exact Eb1|]. split; [exact Eb2|]. split; [exact Sb|].
  intros g1 g2 h1 h2 ms1 ms2 R1 R2 S1 S2 M1 M2. split; [now apply Ka|]. split; [now apply Kb|]. apply sorted_iso; auto.
Qed.

(** C01: the order in which the base graph lists its nodes *)
Theorem base_order_independent C1 C2 fd B1 B2 : wf_cut C1 -> pperm C1 C2 -> heavy_payload C1 -> numeric_orders C1 ->
  templates_ok C1 fd -> is_base C1 B1 -> is_base C2 B2 ->
  exists a1 afg1 a2 afg2 b1 bfg1 b2 bfg2,
    resolve_disconnected fd B1 = Ok (a1, afg1) /\ bonding_step true true B1 a1 afg1 = Ok (a2, afg2) /\ Squash.squash_atoms a2 = Ok a2 /\
    resolve_disconnected fd B2 = Ok (b1, bfg1) /\ bonding_step true true B2 b1 bfg1 = Ok (b2, bfg2) /\ Squash.squash_atoms b2 = Ok b2 /\
    forall g1 g2 h1 h2 ms1 ms2,
      Hydrogens.rebuild_h_atoms_default a2 (Some a2) = Ok g1 -> Hydrogens.rebuild_h_atoms_default b2 (Some b2) = Ok g2 ->
      sort_nodes_by_attr g1 = Ok h1 -> sort_nodes_by_attr g2 = Ok h2 -> sort_mapping g1 = Ok ms1 -> sort_mapping g2 = Ok ms2 ->
      completion C1 a2 g1 /\ completion C2 b2 g2 /\ returned_iso C1 C2 a2 g1 b2 g2 h1 h2 ms1 ms2.
Proof.
  intros W1 PP Hat Hnum HT HB1 HB2. exact (all_atom_iso C1 C2 fd fd B1 B2 W1 PP Hat Hnum HT HB1 (pp_templates C1 C2 W1 PP fd HT) HB2).
Qed.

(** C06: layered (the first resolve() has returned; its fine graph is the second call's coarse graph) against flat *)
Theorem layered_flat_returned_iso C C' fd1 Btop fd2 Bflat car :
  wf_cut C -> wf_cut C' -> coarse_of C C' -> heavy_payload C -> numeric_orders C ->
  templates_ok C' fd1 -> is_base C' Btop -> get_node_attributes Btop (S "atomname") = [] ->
  templates_ok C fd2 -> is_base C Bflat ->
  exists fo f1 ffg1 f2 ffg2 l1 lfg1 l2 lfg2,
    resolve_step_full true false fd1 Btop car = Ok fo /\
    resolve_disconnected fd2 Bflat = Ok (f1, ffg1) /\ bonding_step true true Bflat f1 ffg1 = Ok (f2, ffg2) /\ Squash.squash_atoms f2 = Ok f2 /\
    (let meta := next_meta (fo_mol fo) in
     resolve_disconnected fd2 meta = Ok (l1, lfg1) /\ bonding_step true true meta l1 lfg1 = Ok (l2, lfg2)) /\ Squash.squash_atoms l2 = Ok l2 /\
    forall g1 g2 h1 h2 ms1 ms2,
      Hydrogens.rebuild_h_atoms_default f2 (Some f2) = Ok g1 -> Hydrogens.rebuild_h_atoms_default l2 (Some l2) = Ok g2 ->
      sort_nodes_by_attr g1 = Ok h1 -> sort_nodes_by_attr g2 = Ok h2 -> sort_mapping g1 = Ok ms1 -> sort_mapping g2 = Ok ms2 ->
      completion C f2 g1 /\ completion (perm_cut C C') l2 g2 /\ returned_iso C (perm_cut C C') f2 g1 l2 g2 h1 h2 ms1 ms2.
Proof.
  intros W W' Co Hat Hnum HT1 HB1 Hnames HT2 HB2.
  destruct (coarse_step_returned C C' W W' Co fd1 HT1 Btop HB1 Hnames car) as (fo & Efo & _ & _ & _ & _ & _ & HBL).
  destruct (all_atom_iso C (perm_cut C C') fd2 fd2 Bflat (next_meta (fo_mol fo)) W (pperm_perm_cut C C' Co) Hat Hnum HT2 HB2 (templates_perm C C' W Co fd2 HT2) HBL)
    as (f1 & ffg1 & f2 & ffg2 & l1 & lfg1 & l2 & lfg2 & A1 & A2 & A3 & A4 & A5 & A6 & A7).
  exists fo, f1, ffg1, f2, ffg2, l1, lfg1, l2, lfg2. split; [exact Efo|]. split; [exact A1|]. split; [exact A2|]. split; [exact A3|]. split; [cbn zeta; auto|]. split; [exact A6|]. exact A7.
Qed.
