(** CutIso: two hydrogen completions of ONE molecule whose parts are listed in different orders ([pperm]) are isomorphic
    by an explicit map on keys ([iso]):
      the atom x of M:                      phi C1 x   |->  phi C2 x          (offset of its part in the other order + index)
      the i-th hydrogen added to atom x:    nth i (hyds .. (phi C1 x))  |->  nth i (hyds .. (phi C2 x))
    [iso] maps nodes to nodes, has the symmetric map as inverse, preserves adjacency, the `order` of every edge, M's payload
    attributes on the atoms and the attributes of the hydrogens that do not come from the grouping (everything except the
    inherited copy_attrs fragid / fragname / weight).  With sort_nodes_by_attr on both sides ([sorted_iso]) the RETURNED
    sorted graphs are isomorphic by  ms2 o iso o ms1^-1  for the two sorting permutations. *)
From Coq Require Import String.
From Coq Require Import List Ascii ZArith Bool Lia Permutation.
From CGV Require Import Base.PyBase Base.PyVal Base.NxGraph Gen.HydroGen Resolve.Bonding Resolve.GraphOps Resolve.MapProofs Resolve.CopyProofs
     Hydro.GraphLemmas Hydro.SquashDefs Hydro.HydroDefs.
From CGV Require Hydro.Hydrogens Hydro.RebuildProofs Resolve.SortGraphProofs.
From CGV Require Import Compose.GraphFacts Compose.GraphAdj Compose.CutModel Compose.CutPos Compose.CutTables Compose.CutDisc
     Compose.CutSkeleton Compose.CutWf Compose.CutHydrogens Compose.SortIdentity Compose.PartPerm Compose.Completion Compose.RelabelEdges.
Import ListNotations.
Open Scope Z_scope.

Definition unphi (C : cut) (k : Z) : Z := nth (Z.to_nat k) (flat C) 0.
Definition iso (C1 C2 : cut) (m1 g1 m2 g2 : graph) (k : Z) : Z :=
  if (0 <=? k) && (k <? Z.of_nat (length (flat C1))) then phi C2 (unphi C1 k)
  else match nadj_of g1 k with
       | (a, _) :: _ => nth (index_in k (hyds m1 g1 a)) (hyds m2 g2 (phi C2 (unphi C1 a))) 0
       | [] => 0
       end.

Lemma unphi_phi C x : In x (flat C) -> unphi C (phi C x) = x.
Proof. intros Fx. unfold unphi, phi. rewrite Nat2Z.id. apply nth_error_nth. now apply nth_index_in. Qed.
Lemma edge_get_none g u v key : has_edge g u v = false -> edge_get g u v key = None.
Proof. intros H. unfold edge_get. now rewrite (edge_attrs_err g u v H). Qed.

Section Half.
  Variables C1 C2 : cut.
  Hypothesis W1 : wf_cut C1.
  Hypothesis PP : pperm C1 C2.
  Variables m1 g1 m2 g2 : graph.
  Hypothesis K1 : completion C1 m1 g1.
  Hypothesis K2 : completion C2 m2 g2.
  Let f := iso C1 C2 m1 g1 m2 g2.
  Let fl x := proj2 (pp_flat_in C1 C2 PP x).

  Lemma iso_heavy x : In x (flat C1) -> f (phi C1 x) = phi C2 x.
  Proof.
    intros Fx. unfold f, iso. pose proof (phi_range C1 x Fx) as R.
    destruct (Z.leb_spec 0 (phi C1 x)); [|lia]. destruct (Z.ltb_spec (phi C1 x) (Z.of_nat (length (flat C1)))); [|lia]. cbn [andb]. now rewrite unphi_phi.
  Qed.

  Lemma hyd_lengths x : In x (flat C1) -> length (hyds m2 g2 (phi C2 x)) = length (hyds m1 g1 (phi C1 x)).
  Proof.
    intros Fx. destruct (cp_heavy _ _ _ K1 x Fx) as (? & ? & v1 & _ & _ & V1 & _ & L1 & _). destruct (cp_heavy _ _ _ K2 x (fl x Fx)) as (? & ? & v2 & _ & _ & V2 & _ & L2 & _).
    rewrite (pp_payload C1 C2 PP) in V2. rewrite V1 in V2. inversion V2; subst v2. now rewrite L1, L2, (pp_h_needed C1 C2 W1 PP).
  Qed.

  Lemma iso_hyd x i j : In x (flat C1) -> nth_error (hyds m1 g1 (phi C1 x)) i = Some j ->
    nth_error (hyds m2 g2 (phi C2 x)) i = Some (f j) /\ has_node m1 j = false.
  Proof.
    intros Fx Hi. assert (In j (hyds m1 g1 (phi C1 x))) as Hin by (eapply nth_error_In; eauto).
    destruct (cp_heavy _ _ _ K1 x Fx) as (n & n' & v1 & _ & _ & _ & _ & _ & Nd & _ & Hh). destruct (Hh j Hin) as (Hm & h & Gh & Ah & _).
    split; [|exact Hm]. unfold f, iso.
    assert ((0 <=? j) && (j <? Z.of_nat (length (flat C1))) = false) as ->.
    { destruct ((0 <=? j) && (j <? Z.of_nat (length (flat C1)))) eqn:E; [|reflexivity]. apply andb_true_iff in E as [E1 E2].
      apply Z.leb_le in E1. apply Z.ltb_lt in E2. rewrite (proj2 (cp_range _ _ _ K1 j) (conj E1 E2)) in Hm. discriminate. }
    unfold nadj_of at 1. rewrite Gh, Ah. rewrite (unphi_phi C1 x Fx). rewrite (index_in_nth _ _ _ Nd Hi).
    apply nth_error_nth'. rewrite (hyd_lengths x Fx). apply nth_error_Some. congruence.
  Qed.

  (** nodes to nodes *)
  Lemma iso_node k : has_node g1 k = true -> has_node g2 (f k) = true.
  Proof.
    intros H. apply (cp_keys _ _ _ K1) in H as [(x & Fx & ->)|(x & Fx & Hin)]; apply (cp_keys _ _ _ K2).
    - left. exists x. split; [now apply fl|now apply iso_heavy].
    - right. apply In_nth_error in Hin as [i Hi]. destruct (iso_hyd x i k Fx Hi) as [E _]. exists x. split; [now apply fl|eapply nth_error_In; eauto].
  Qed.

  (** adjacency and orders *)
  Lemma iso_edges a b : has_node g1 a = true -> has_node g1 b = true ->
    has_edge g2 (f a) (f b) = has_edge g1 a b /\ edge_get g2 (f a) (f b) (S "order") = edge_get g1 a b (S "order").
  Proof.
    assert (HH : forall x y j, In x (flat C1) -> In y (flat C1) -> In j (hyds m1 g1 (phi C1 y)) ->
              has_edge g2 (phi C2 x) (f j) = has_edge g1 (phi C1 x) j /\ edge_get g2 (phi C2 x) (f j) (S "order") = edge_get g1 (phi C1 x) j (S "order")).
    { intros x y j Fx Fy Hin. apply In_nth_error in Hin as [i Hi]. destruct (iso_hyd y i j Fy Hi) as [E2 Hm1].
      assert (In j (hyds m1 g1 (phi C1 y))) as Hin1 by (eapply nth_error_In; eauto). assert (In (f j) (hyds m2 g2 (phi C2 y))) as Hin2 by (eapply nth_error_In; eauto).
      destruct (cp_heavy _ _ _ K2 y (fl y Fy)) as (? & ? & ? & _ & _ & _ & _ & _ & _ & _ & Hh2). destruct (Hh2 _ Hin2) as (Hm2 & _).
      destruct (cp_edge_hyd _ _ _ K1 x j Fx Hm1) as [I1 O1]. destruct (cp_edge_hyd _ _ _ K2 x (f j) (fl x Fx) Hm2) as [I2 O2].
      destruct (Z.eq_dec x y) as [->|N].
      - destruct (O1 Hin1) as [-> _]. destruct (O2 Hin2) as [-> _]. rewrite (proj2 I1 Hin1), (proj2 I2 Hin2). auto.
      - assert (has_edge g1 (phi C1 x) j = false) as E1'.
        { destruct (has_edge g1 (phi C1 x) j) eqn:E; [|reflexivity]. exfalso. apply N. exact (cp_unique _ _ _ K1 x y j Fx Fy (proj1 I1 eq_refl) Hin1). }
        assert (has_edge g2 (phi C2 x) (f j) = false) as E2'.
        { destruct (has_edge g2 (phi C2 x) (f j)) eqn:E; [|reflexivity]. exfalso. apply N. exact (cp_unique _ _ _ K2 x y (f j) (fl x Fx) (fl y Fy) (proj1 I2 eq_refl) Hin2). }
        rewrite E1', E2', (edge_get_none _ _ _ _ E1'), (edge_get_none _ _ _ _ E2'). auto. }
    intros Ha Hb. apply (cp_keys _ _ _ K1) in Ha as [(x & Fx & ->)|(x & Fx & Hx)]; apply (cp_keys _ _ _ K1) in Hb as [(y & Fy & ->)|(y & Fy & Hy)].
    - rewrite !iso_heavy by assumption. destruct (cp_edge_heavy _ _ _ K1 x y Fx Fy) as [-> ->]. destruct (cp_edge_heavy _ _ _ K2 x y (fl x Fx) (fl y Fy)) as [-> ->].
      now rewrite (pp_bonded C1 C2 PP), (pp_result_order C1 C2 W1 PP).
    - rewrite iso_heavy by assumption. now apply (HH x y).
    - rewrite (iso_heavy y Fy). rewrite (wf_sym _ (cp_wf _ _ _ K2)), (wf_sym _ (cp_wf _ _ _ K1) a), (cp_order_sym _ _ _ K2), (cp_order_sym _ _ _ K1 a). now apply (HH y x).
    - apply In_nth_error in Hx as [i Hi]. apply In_nth_error in Hy as [i' Hi']. destruct (iso_hyd x i a Fx Hi) as [Ea Ma]. destruct (iso_hyd y i' b Fy Hi') as [Eb Mb].
      assert (has_node g1 a = true) as Na by (apply (cp_keys _ _ _ K1); right; exists x; split; [exact Fx|eapply nth_error_In; eauto]).
      assert (has_node g2 (f a) = true) as Na2 by (now apply iso_node).
      assert (has_node m2 (f a) = false) as Ma2.
      { destruct (cp_heavy _ _ _ K2 x (fl x Fx)) as (? & ? & ? & _ & _ & _ & _ & _ & _ & _ & Hh2). now destruct (Hh2 (f a) (nth_error_In _ _ Ea)). }
      assert (has_node m2 (f b) = false) as Mb2.
      { destruct (cp_heavy _ _ _ K2 y (fl y Fy)) as (? & ? & ? & _ & _ & _ & _ & _ & _ & _ & Hh2). now destruct (Hh2 (f b) (nth_error_In _ _ Eb)). }
      pose proof (cp_no_edge _ _ _ K1 a b Ma Na Mb) as E1'. pose proof (cp_no_edge _ _ _ K2 (f a) (f b) Ma2 Na2 Mb2) as E2'.
      rewrite E1', E2', (edge_get_none _ _ _ _ E1'), (edge_get_none _ _ _ _ E2'). auto.
  Qed.

  (** attributes *)
  Lemma iso_attrs_heavy x key v : In x (flat C1) -> aget key (payload C1 x) = Some v -> ~ In key reserved -> key <> S "hcount" ->
    node_get g1 (phi C1 x) key = Some v /\ node_get g2 (f (phi C1 x)) key = Some v.
  Proof.
    intros Fx Hv Hr Hh. split; [now apply (cp_payload _ _ _ K1)|]. rewrite iso_heavy by exact Fx.
    apply (cp_payload _ _ _ K2); auto. now rewrite (pp_payload C1 C2 PP).
  Qed.
  Lemma iso_attrs_hyd x j key : In x (flat C1) -> In j (hyds m1 g1 (phi C1 x)) -> ~ In key rebuild_copy_attrs_default ->
    node_get g2 (f j) key = node_get g1 j key.
  Proof.
    intros Fx Hin Hk. pose proof Hin as Hin'. apply In_nth_error in Hin' as [i Hi]. destruct (iso_hyd x i j Fx Hi) as [E2 _].
    destruct (cp_heavy _ _ _ K1 x Fx) as (? & n1' & ? & _ & _ & _ & _ & _ & _ & _ & Hh1). destruct (Hh1 j Hin) as (_ & h1 & G1 & _ & _ & A1).
    destruct (cp_heavy _ _ _ K2 x (fl x Fx)) as (? & n2' & ? & _ & _ & _ & _ & _ & _ & _ & Hh2). destruct (Hh2 (f j) (nth_error_In _ _ E2)) as (_ & h2 & G2 & _ & _ & A2).
    unfold node_get. rewrite G1, G2, (A1 key), (A2 key).
    assert (str_in key rebuild_copy_attrs_default = false) as ->; [|reflexivity].
    destruct (str_in key rebuild_copy_attrs_default) eqn:E; [|reflexivity]. exfalso. apply Hk. now apply CutBonding.str_in_In.
  Qed.
End Half.

(** ---------------------------------------------------------------- the isomorphism of the completed graphs *)
Theorem completed_iso C1 C2 m1 g1 m2 g2 : wf_cut C1 -> pperm C1 C2 -> completion C1 m1 g1 -> completion C2 m2 g2 ->
  let f := iso C1 C2 m1 g1 m2 g2 in let f' := iso C2 C1 m2 g2 m1 g1 in
  (forall k, has_node g1 k = true -> has_node g2 (f k) = true /\ f' (f k) = k) /\
  (forall k, has_node g2 k = true -> has_node g1 (f' k) = true /\ f (f' k) = k) /\
  (forall x, In x (flat C1) -> f (phi C1 x) = phi C2 x) /\
  (forall x i j, In x (flat C1) -> nth_error (hyds m1 g1 (phi C1 x)) i = Some j -> nth_error (hyds m2 g2 (phi C2 x)) i = Some (f j)) /\
  (forall a b, has_node g1 a = true -> has_node g1 b = true ->
     has_edge g2 (f a) (f b) = has_edge g1 a b /\ edge_get g2 (f a) (f b) (S "order") = edge_get g1 a b (S "order")) /\
  (forall x key v, In x (flat C1) -> aget key (payload C1 x) = Some v -> ~ In key reserved -> key <> S "hcount" ->
     node_get g1 (phi C1 x) key = Some v /\ node_get g2 (f (phi C1 x)) key = Some v) /\
  (forall x j key, In x (flat C1) -> In j (hyds m1 g1 (phi C1 x)) -> ~ In key rebuild_copy_attrs_default -> node_get g2 (f j) key = node_get g1 j key).
Proof.
  intros W1 PP K1 K2 f f'. pose proof (pperm_wf C1 C2 W1 PP) as W2. pose proof (pperm_sym C1 C2 PP) as PP'.
  assert (Inv : forall Ca Cb ma ga mb gb, wf_cut Ca -> pperm Ca Cb -> wf_cut Cb -> pperm Cb Ca -> completion Ca ma ga -> completion Cb mb gb ->
            forall k, has_node ga k = true -> iso Cb Ca mb gb ma ga (iso Ca Cb ma ga mb gb k) = k).
  { intros Ca Cb ma ga mb gb Wa Pab Wb Pba Ka Kb k Hk. apply (cp_keys _ _ _ Ka) in Hk as [(x & Fx & ->)|(x & Fx & Hin)].
    - rewrite (iso_heavy Ca Cb ma ga mb gb x Fx). apply (iso_heavy Cb Ca mb gb ma ga x). now apply (pp_flat_in Ca Cb Pab).
    - apply In_nth_error in Hin as [i Hi]. destruct (iso_hyd Ca Cb Wa Pab ma ga mb gb Ka Kb x i k Fx Hi) as [E _].
      destruct (iso_hyd Cb Ca Wb Pba mb gb ma ga Kb Ka x i _ (proj2 (pp_flat_in Ca Cb Pab x) Fx) E) as [E' _]. rewrite Hi in E'. congruence. }
  split; [|split; [|split; [|split; [|split; [|split]]]]].
  - intros k Hk. split; [exact (iso_node C1 C2 W1 PP m1 g1 m2 g2 K1 K2 k Hk)|exact (Inv C1 C2 m1 g1 m2 g2 W1 PP W2 PP' K1 K2 k Hk)].
  - intros k Hk. split; [exact (iso_node C2 C1 W2 PP' m2 g2 m1 g1 K2 K1 k Hk)|exact (Inv C2 C1 m2 g2 m1 g1 W2 PP' W1 PP K2 K1 k Hk)].
  - exact (iso_heavy C1 C2 m1 g1 m2 g2).
  - intros x i j Fx Hi. now destruct (iso_hyd C1 C2 W1 PP m1 g1 m2 g2 K1 K2 x i j Fx Hi).
  - exact (iso_edges C1 C2 W1 PP m1 g1 m2 g2 K1 K2).
  - exact (iso_attrs_heavy C1 C2 PP m1 g1 m2 g2 K1 K2).
  - exact (iso_attrs_hyd C1 C2 W1 PP m1 g1 m2 g2 K1 K2).
Qed.

(** ---------------------------------------------------------------- … and of the sorted graphs *)
Definition inv_key (g : graph) (ms : list (Z * Z)) (k : Z) : Z :=
  match find (fun a => Z.eqb (map_get ms a) k) (node_keys g) with Some a => a | None => 0 end.
Lemma inv_key_spec g ms a : SortGraphProofs.inj_on (map_get ms) (node_keys g) -> In a (node_keys g) -> inv_key g ms (map_get ms a) = a.
Proof.
  intros Inj Ha. unfold inv_key. destruct (find _ (node_keys g)) as [b|] eqn:F.
  - apply find_some in F as [Hb E]. apply Z.eqb_eq in E. now apply Inj.
  - pose proof (find_none _ _ F a Ha) as X. cbn in X. rewrite Z.eqb_refl in X. discriminate.
Qed.

Definition returned_iso_gen (P : pystr -> Prop) (C1 C2 : cut) (m1 g1 m2 g2 h1 h2 : graph) (ms1 ms2 : list (Z * Z)) : Prop :=
  let F := fun k => map_get ms2 (iso C1 C2 m1 g1 m2 g2 (inv_key g1 ms1 k)) in
  let F' := fun k => map_get ms1 (iso C2 C1 m2 g2 m1 g1 (inv_key g2 ms2 k)) in
  (forall k, In k (node_keys h1) -> In (F k) (node_keys h2) /\ F' (F k) = k) /\
  (forall k, In k (node_keys h2) -> In (F' k) (node_keys h1) /\ F (F' k) = k) /\
  (forall a, has_node g1 a = true -> F (map_get ms1 a) = map_get ms2 (iso C1 C2 m1 g1 m2 g2 a)) /\
  (forall k l, In k (node_keys h1) -> In l (node_keys h1) ->
     has_edge h2 (F k) (F l) = has_edge h1 k l /\ edge_get h2 (F k) (F l) (S "order") = edge_get h1 k l (S "order")) /\
  (forall x key v, In x (flat C1) -> aget key (payload C1 x) = Some v -> ~ In key reserved -> key <> S "hcount" -> key <> S "ez_isomer_atoms" -> P key ->
     node_get h1 (map_get ms1 (phi C1 x)) key = Some v /\ node_get h2 (F (map_get ms1 (phi C1 x))) key = Some v) /\
  (forall x j key, In x (flat C1) -> In j (hyds m1 g1 (phi C1 x)) -> ~ In key rebuild_copy_attrs_default -> key <> S "ez_isomer_atoms" -> P key ->
     node_get h2 (F (map_get ms1 j)) key = node_get h1 (map_get ms1 j) key).
Definition returned_iso := returned_iso_gen (fun _ => True).

Theorem sorted_iso C1 C2 m1 g1 m2 g2 h1 h2 ms1 ms2 : wf_cut C1 -> pperm C1 C2 -> completion C1 m1 g1 -> completion C2 m2 g2 ->
  sort_nodes_by_attr g1 = Ok h1 -> sort_nodes_by_attr g2 = Ok h2 -> sort_mapping g1 = Ok ms1 -> sort_mapping g2 = Ok ms2 ->
  returned_iso C1 C2 m1 g1 m2 g2 h1 h2 ms1 ms2.
Proof.
  intros W1 PP K1 K2 S1 S2 M1 M2. unfold returned_iso, returned_iso_gen.
  destruct (completed_iso C1 C2 m1 g1 m2 g2 W1 PP K1 K2) as (I1 & I2 & Ih & Ihy & Ie & Iah & Iahy). cbn zeta in *.
  destruct (SortGraphProofs.sort_graph g1 h1 (cp_wf _ _ _ K1) (cp_fragid _ _ _ K1) S1) as (m' & Em' & Inj1 & _ & Kh1 & E1 & A1). rewrite M1 in Em'. inversion Em'; subst m'.
  destruct (SortGraphProofs.sort_graph g2 h2 (cp_wf _ _ _ K2) (cp_fragid _ _ _ K2) S2) as (m'' & Em'' & Inj2 & _ & Kh2 & E2 & A2). rewrite M2 in Em''. inversion Em''; subst m''.
  pose proof (sort_edge_get g1 h1 (S "order") (cp_wf _ _ _ K1) (cp_adj _ _ _ K1) (cp_edn _ _ _ K1) (cp_fragid _ _ _ K1) S1 (cp_order_sym _ _ _ K1) ms1 M1) as O1.
  pose proof (sort_edge_get g2 h2 (S "order") (cp_wf _ _ _ K2) (cp_adj _ _ _ K2) (cp_edn _ _ _ K2) (cp_fragid _ _ _ K2) S2 (cp_order_sym _ _ _ K2) ms2 M2) as O2.
  set (f := iso C1 C2 m1 g1 m2 g2) in *. set (f' := iso C2 C1 m2 g2 m1 g1) in *.
  pose proof (inv_key_spec g1 ms1) as IK1. pose proof (inv_key_spec g2 ms2) as IK2.
  assert (N1 : forall a, In a (node_keys g1) -> In (f a) (node_keys g2)) by (intros a Ha; apply gfind_has; apply I1; now apply gfind_has).
  assert (N2 : forall a, In a (node_keys g2) -> In (f' a) (node_keys g1)) by (intros a Ha; apply gfind_has; apply I2; now apply gfind_has).
  split; [|split; [|split; [|split; [|split]]]].
  - intros k Hk. rewrite Kh1 in Hk. apply in_map_iff in Hk as (a & <- & Ha). rewrite (IK1 a Inj1 Ha). split; [rewrite Kh2; apply in_map; now apply N1|].
    rewrite (IK2 _ Inj2 (N1 a Ha)). f_equal. apply I1. now apply gfind_has.
  - intros k Hk. rewrite Kh2 in Hk. apply in_map_iff in Hk as (a & <- & Ha). rewrite (IK2 a Inj2 Ha). split; [rewrite Kh1; apply in_map; now apply N2|].
    rewrite (IK1 _ Inj1 (N2 a Ha)). f_equal. apply I2. now apply gfind_has.
  - intros a Ha. rewrite (IK1 a Inj1); [reflexivity|now apply gfind_has].
  - intros k l Hk Hl. rewrite Kh1 in Hk, Hl. apply in_map_iff in Hk as (a & <- & Ha). apply in_map_iff in Hl as (b & <- & Hb).
    rewrite (IK1 a Inj1 Ha), (IK1 b Inj1 Hb), (E2 _ _ (N1 a Ha) (N1 b Hb)), (E1 a b Ha Hb), (O2 _ _ (N1 a Ha) (N1 b Hb)), (O1 a b Ha Hb).
    apply Ie; now apply gfind_has.
  - intros x key v Fx Hv Hr Hh He _.
    assert (In (phi C1 x) (node_keys g1)) as Ha by (apply gfind_has; apply (cp_keys _ _ _ K1); left; eauto).
    rewrite (IK1 _ Inj1 Ha), (A1 _ _ Ha He), (A2 _ _ (N1 _ Ha) He). now apply Iah.
  - intros x j key Fx Hin Hk He _.
    assert (In j (node_keys g1)) as Ha by (apply gfind_has; apply (cp_keys _ _ _ K1); right; eauto).
    rewrite (IK1 _ Inj1 Ha), (A1 _ _ Ha He), (A2 _ _ (N1 _ Ha) He). now apply (Iahy x).
Qed.

(** the same statement for graphs with the same shape (keys, adjacency lists, edge dicts) that agree with the sorted graphs
    on the attributes [P] admits: what the steps after the sort (E/Z annotation, atom names) leave untouched *)
Lemma returned_iso_transfer (P : pystr -> Prop) C1 C2 m1 g1 m2 g2 h1 h2 r1 r2 ms1 ms2 :
  returned_iso C1 C2 m1 g1 m2 g2 h1 h2 ms1 ms2 ->
  node_keys r1 = node_keys h1 -> node_keys r2 = node_keys h2 ->
  (forall a b, has_edge r1 a b = has_edge h1 a b /\ edge_get r1 a b (S "order") = edge_get h1 a b (S "order")) ->
  (forall a b, has_edge r2 a b = has_edge h2 a b /\ edge_get r2 a b (S "order") = edge_get h2 a b (S "order")) ->
  (forall k key, P key -> node_get r1 k key = node_get h1 k key) -> (forall k key, P key -> node_get r2 k key = node_get h2 k key) ->
  returned_iso_gen P C1 C2 m1 g1 m2 g2 r1 r2 ms1 ms2.
Proof.
  unfold returned_iso, returned_iso_gen. intros (A1 & A2 & A3 & A4 & A5 & A6) K1 K2 E1 E2 N1 N2.
  split; [|split; [|split; [|split; [|split]]]].
  - intros k Hk. rewrite K1 in Hk. rewrite K2. now apply A1.
  - intros k Hk. rewrite K2 in Hk. rewrite K1. now apply A2.
  - exact A3.
  - intros k l Hk Hl. rewrite K1 in Hk, Hl. destruct (E1 k l) as [-> ->]. destruct (E2 (map_get ms2 (iso C1 C2 m1 g1 m2 g2 (inv_key g1 ms1 k))) (map_get ms2 (iso C1 C2 m1 g1 m2 g2 (inv_key g1 ms1 l)))) as [-> ->].
    now apply A4.
  - intros x key v Fx Hv Hr Hh He HP. rewrite (N1 _ _ HP), (N2 _ _ HP). now apply A5.
  - intros x j key Fx Hin Hk He HP. rewrite (N1 _ _ HP), (N2 _ _ HP). now apply (A6 x).
Qed.
