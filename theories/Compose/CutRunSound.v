(** CutRunSound: what the per-run tests of CutRunCheck.v mean.  [skeletonb_sound]: the executable skeleton test implies
    the [skeleton] predicate of the theorem; [run_check_sound]: when the implementation's templates and base graph pass
    the tests, the hypotheses of [cut_bonding_skeleton] hold of them, so the resolver model run on THEM returns the
    molecule's skeleton (and code 124 compares that run with the implementation's graph node by node). *)
From Coq Require Import String.
From Coq Require Import List Ascii ZArith Bool Lia.
From CGV Require Import Base.PyBase Base.PyVal Base.NxGraph Resolve.Bonding Resolve.BondingCheck Resolve.CutCheck Resolve.GraphOps
     Resolve.MapProofs Hydro.GraphLemmas.
From CGV Require Import Compose.PyEq Compose.CutModel Compose.CutPos Compose.CutSpecDefs Compose.CutSpecCheck Compose.CutSkeleton Compose.CutRunCheck.
Import ListNotations.
Open Scope Z_scope.

Lemma aa_payloadb_sound C : aa_payloadb C = true -> forall x, In x (flat C) ->
  (exists e, aget (S "element") (payload C x) = Some e) /\ exists h, aget (S "hcount") (payload C x) = Some (VInt h).
Proof.
  unfold aa_payloadb. rewrite forallb_forall. intros H x Hx. specialize (H x Hx).
  destruct (aget (S "element") (payload C x)) as [e|]; [|discriminate]. destruct (aget (S "hcount") (payload C x)) as [[| | h | | | | |]|]; try discriminate. eauto.
Qed.

Lemma adj_get_in_list x l d : adj_get x l = Some d -> In (x, d) l.
Proof.
  induction l as [|[w a] r IH]; cbn; [discriminate|]. destruct (Z.eqb_spec w x) as [->|N]; [intros H; inversion H; now left|right; auto].
Qed.

Theorem skeletonb_sound C aa m : skeletonb C aa m = true -> skeleton C aa m.
Proof.
  unfold skeletonb. intros H. apply andb_true_iff in H as [H Hcl]. apply andb_true_iff in H as [H Hed]. apply andb_true_iff in H as [Hk Hat].
  rewrite forallb_forall in Hat, Hed, Hcl. constructor.
  - now apply zlist_eqb_sound.
  - intros x Hx. specialize (Hat x Hx). apply andb_true_iff in Hat as [Hat P]. apply andb_true_iff in Hat as [Hat Z']. apply andb_true_iff in Hat as [Hat R]. apply andb_true_iff in Hat as [F A].
    split; [now apply oeqb_sound|]. split; [now apply oeqb_sound|]. split; [now apply oeqb_sound|].
    intros key v Hv Hr Hh. rewrite forallb_forall in P. specialize (P _ (aget_in _ _ _ Hv)). cbn [fst] in P.
    apply orb_true_iff in P as [P|P]; [apply orb_true_iff in P as [P|P]|].
    + exfalso. apply Hr. now apply CutBonding.str_in_In.
    + exfalso. apply andb_true_iff in P as [Pa Pk]. apply str_eqb_eq in Pk. exact (Hh Pa Pk).
    + apply oeqb_sound in P. congruence.
  - intros x y Hx Hy. specialize (Hed x Hx). rewrite forallb_forall in Hed. specialize (Hed y Hy).
    apply andb_true_iff in Hed as [Hed B]. apply andb_true_iff in Hed as [E O]. apply Bool.eqb_prop in E. apply oeqb_sound in O.
    split; [exact E|]. split; [exact O|]. unfold bonding_okb in B. split.
    + intros b Eb Hc Hn. rewrite Hn, Eb, Hc in B. discriminate.
    + intros bv Ebv. rewrite Ebv in B. destruct (find_bond C x y) as [b|]; [|discriminate]. apply andb_true_iff in B as [Hc B].
      apply orb_true_iff in B as [B|B]; apply pyval_eqb_sound in B; subst bv; [exists b, true|exists b, false]; auto.
  - intros k1 k2 He. unfold has_edge in He. destruct (gfind k1 m) as [n|] eqn:G; [|discriminate].
    destruct (adj_get k2 (nadj n)) as [d|] eqn:A; [|discriminate]. split; [unfold has_node; now rewrite G|].
    specialize (Hcl n (gfind_In _ _ _ G)). rewrite forallb_forall in Hcl. exact (Hcl _ (adj_get_in_list _ _ _ A)).
  - intros x Hx. specialize (Hat x Hx). apply andb_true_iff in Hat as [Hat _]. apply andb_true_iff in Hat as [_ Z']. now apply oeqb_sound.
Qed.

Theorem run_check_sound r :
  wf_cutb (rc_cut r) = true -> templates_okb (rc_cut r) (rc_fd r) = true -> is_baseb (rc_cut r) (rc_base r) = true ->
  (rc_aa r = true -> aa_payloadb (rc_cut r) = true) ->
  exists m2, model_run r = Ok m2 /\ skeleton (rc_cut r) (rc_aa r) m2.
Proof.
  intros H1 H2 H3 H4.
  destruct (cut_bonding_skeleton (rc_cut r) (wf_cutb_sound _ H1) (rc_fd r) (templates_okb_sound _ _ H2) (rc_base r) (is_baseb_sound _ _ H3) (rc_aa r))
    as (m1 & fg1 & m2 & fg2 & E1 & E2 & Sk).
  - intros Ha. exact (aa_payloadb_sound _ (H4 Ha)).
  - exists m2. split; [|exact Sk]. unfold model_run. rewrite E1. cbn [bind]. rewrite E2. reflexivity.
Qed.

(** the verdict 0 of [run_fail] on a judged case with a recorded graph: hypotheses and conclusion hold of the implementation's graphs *)
Corollary run_fail_zero r g : run_judged r = true -> rc_impl r = Some g -> run_fail r = 0%nat ->
  (exists m2, model_run r = Ok m2 /\ skeleton (rc_cut r) (rc_aa r) m2) /\ skeleton (rc_cut r) (rc_aa r) g.
Proof.
  unfold run_judged, run_fail. intros J Hg. rewrite J, Hg. cbn [negb].
  destruct (templates_okb _ _) eqn:T; cbn [andb negb]; [|discriminate]. destruct (negb (rc_aa r) || aa_payloadb (rc_cut r)) eqn:A; cbn [negb]; [|discriminate].
  destruct (is_baseb _ _) eqn:B; cbn [negb]; [|discriminate]. destruct (skeletonb _ _ g) eqn:S; [|discriminate]. intros _.
  split; [|now apply skeletonb_sound]. apply run_check_sound; auto. intros Ha. rewrite Ha in A. exact A.
Qed.
