(** CutHydrogens: the all-atom step on a cut molecule returns the hydrogen completion of M.
    After [cut_bonding_skeleton] the fine graph has no `!` bond, so squash_atoms is the identity; given the
    aromaticity transcript equal to the identity on the skeleton (pysmiles' correct_aromatic_rings leaves the
    graph as it is: a hypothesis on the transcript, checked per run), C09's end-to-end theorem applies to the
    skeleton: every atom x of M keeps its bonds and receives exactly
        max(0, missing_of valence(x) (bond sum of x in M))
    fresh hydrogens of degree one (= least fitting valence - bond sum when the sum fits), every other node of
    the result is such a hydrogen, and sort_nodes_by_attr returns that graph relabelled (C12_sort_graph). *)
From Coq Require Import String.
From Coq Require Import List Ascii ZArith Bool Lia Permutation.
From CGV Require Import Base.PyBase Base.PyVal Base.NxGraph Gen.HydroGen Resolve.Bonding Resolve.GraphOps Resolve.MapProofs Resolve.CopyProofs
     Hydro.GraphLemmas Hydro.SquashDefs Hydro.HydroDefs.
From CGV Require Hydro.Hydrogens Hydro.Squash Hydro.RebuildProofs Resolve.SortGraphProofs.
From CGV Require Import Compose.GraphFacts Compose.GraphAdj Compose.CutModel Compose.CutPos Compose.CutTables Compose.CutDisc
     Compose.CutSkeleton Compose.CutWf.
Import ListNotations.
Open Scope Z_scope.

(** ---------------------------------------------------------------- squash_atoms without `!` bonds *)
Lemma squash_noop g : (forall e, In e (Squash.edge_attr_items g squash_edge_attr) -> Squash.starts_squash (snd e) = Ok false) ->
  Squash.squash_atoms g = Ok g.
Proof.
  intros H. unfold Squash.squash_atoms.
  assert (forall l st, (forall e, In e l -> Squash.starts_squash (snd e) = Ok false) -> Hydrogens.fold_res Squash.squash_step l st = Ok st) as X.
  { induction l as [|e r IH]; intros st Hl; [reflexivity|]. cbn [Hydrogens.fold_res].
    assert (Squash.squash_step st e = Ok st) as ->.
    { destruct st as [g0 sq], e as [[a b] bond]. unfold Squash.squash_step. pose proof (Hl (a, b, bond) (or_introl eq_refl)) as X. cbn [snd] in X. rewrite X. reflexivity. }
    cbn [bind]. apply IH. intros; apply Hl; now right. }
  rewrite (X _ _ H). reflexivity.
Qed.

Definition zsum (l : list Z) : Z := fold_right Z.add 0 l.
Lemma zsum_perm l l' : Permutation l l' -> zsum l = zsum l'.
Proof. unfold zsum. induction 1; cbn in *; lia. Qed.
Lemma sum_orders_fun (f : Z -> Z) l : (forall k d, In (k, d) l -> Hydrogens.order_half d = Ok (f k)) ->
  Hydrogens.sum_orders l = Ok (zsum (map f (map fst l))).
Proof.
  induction l as [|[k d] r IH]; intros H; [reflexivity|]. cbn [Hydrogens.sum_orders map fst zsum fold_right].
  rewrite (H k d (or_introl eq_refl)). cbn [bind]. rewrite IH by (intros; eapply H; right; eauto). reflexivity.
Qed.
Lemma valence_of_ext a a' : aget (S "element") a = aget (S "element") a' -> aget (S "charge") a = aget (S "charge") a' ->
  Hydrogens.valence_of a = Hydrogens.valence_of a'.
Proof. intros E1 E2. unfold Hydrogens.valence_of, Hydrogens.charge_of. now rewrite E1, E2. Qed.

Lemma adj_get_app_h y (L : list (Z * attrs)) l : (forall j, In j l -> j <> y) ->
  adj_get y (L ++ map (fun j => (j, Hydrogens.h_edge_attrs)) l) = adj_get y L.
Proof.
  intros Hl. induction L as [|[w a] r IH]; cbn.
  - induction l as [|j l IHl]; [reflexivity|]. cbn. destruct (Z.eqb_spec j y) as [E|_]; [exfalso; apply (Hl j); [now left|exact E]|].
    apply IHl. intros; apply Hl; now right.
  - destruct (Z.eqb w y); [reflexivity|exact IH].
Qed.

Definition ohalf (v : pyval) : Z := match Hydrogens.half_of_num v with Ok h => h | Err _ => 0 end.
Definition numeric (v : pyval) : Prop := exists h, Hydrogens.half_of_num v = Ok h.

Section Hyd.
  Variable C : cut.
  Hypothesis W : wf_cut C.
  Variable fd : fragdict.
  Hypothesis HT : templates_ok C fd.
  Variable B : graph.
  Hypothesis HB : is_base C B.
  (** M is a heavy-atom graph: every atom carries element, charge, hcount and is not a hydrogen; orders are numbers *)
  Hypothesis Hatoms : forall x, In x (flat C) ->
    (exists e, aget (S "element") (payload C x) = Some e) /\ (exists q, aget (S "charge") (payload C x) = Some q) /\
    (exists h, aget (S "hcount") (payload C x) = Some (VInt h)) /\ Hydrogens.is_H (payload C x) = false.
  Hypothesis Hnum : forall b, In b (c_bonds C) -> numeric (cb_ord b).
  Let Hnd := wc_nodup C W.

  (** bond sum of atom x in M, half units, with the orders the resolver writes *)
  Definition rhalf (x y : Z) : Z := match result_order C x y with Some v => ohalf v | None => 2 end.
  Definition bond_sum (x : Z) : Z := zsum (map (fun b => rhalf x (other x b)) (inc C x)).
  (** hydrogens atom x must receive *)
  Definition h_needed (val : list Z) (x : Z) : nat := Z.to_nat (Z.max (Hydrogens.missing_of val (bond_sum x)) 0).

  Lemma key_not_reserved key : key = S "element" \/ key = S "charge" \/ key = S "hcount" -> ~ In key reserved.
  Proof.
    intros H X. unfold reserved in X. cbn [In] in X.
    destruct H as [-> | [-> | ->]]; repeat destruct X as [X|X]; try (apply str_eqb_eq in X; vm_compute in X; discriminate); exact X.
  Qed.

  Lemma result_numeric x y v : In x (flat C) -> result_order C x y = Some v -> numeric v.
  Proof.
    intros Hx. unfold result_order. destruct (find_bond C x y) as [b|] eqn:E; [|discriminate]. apply find_some in E as [Hb _].
    destruct (is_cut C b); intros H; inversion H; subst; [|now apply Hnum].
    unfold cut_order. destruct (_ && _); eexists; reflexivity.
  Qed.

  Section Run.
    Variables (m2 : graph).
    Hypothesis Sk : skeleton C true m2.
    Hypothesis Adj : adj_nodup m2.
    Let Wf := cut_skeleton_wf C W true m2 Sk.

    Lemma sk_gfind x : In x (flat C) -> exists n, gfind (phi C x) m2 = Some n.
    Proof. intros Hx. apply gfind_some_keys. apply gfind_has. now apply (sk_node C true m2 Sk). Qed.
    Lemma sk_aget x n key : In x (flat C) -> gfind (phi C x) m2 = Some n -> aget key (na n) = node_get m2 (phi C x) key.
    Proof. intros _ G. unfold node_get. now rewrite G. Qed.

    Theorem squash_identity : Squash.squash_atoms m2 = Ok m2.
    Proof.
      apply squash_noop. intros [[u v] bv] He. cbn [snd]. unfold Squash.edge_attr_items in He. apply in_flat_map in He as ([[u' v'] d] & Hin & Hx).
      cbn [fst snd] in Hx. destruct (aget squash_edge_attr d) as [bv'|] eqn:Eb; [|contradiction]. destruct Hx as [Hx|[]]. inversion Hx; subst u' v' bv'.
      pose proof (edges_data_attrs m2 u v d (wf_nodup _ Wf) Adj Hin) as Ea.
      destruct (sk_closed _ _ _ Sk u v (edge_attrs_ok_has _ _ _ _ Ea)) as [Hu Hv].
      destruct (sk_onto C W true m2 Sk u Hu) as (x & Fx & <-). destruct (sk_onto C W true m2 Sk v Hv) as (y & Fy & <-).
      destruct (sk_edges _ _ _ Sk x y Fx Fy) as (_ & _ & _ & Bv). unfold edge_get in Bv. rewrite Ea in Bv.
      destruct (Bv bv Eb) as (b & s & _ & _ & ->). unfold Squash.starts_squash. cbn [as_list bind as_str]. unfold dtext.
      change squash_prefix with (S "!"). cbn [prefixb S list_ascii_of_string]. destruct (kind_char_cases s b) as [-> |[-> | ->]]; reflexivity.
    Qed.

    Lemma no_rs_all : forall i n, gfind i m2 = Some n -> RebuildProofs.no_rs n.
    Proof.
      intros i n G. assert (has_node m2 i = true) as Hi by (unfold has_node; now rewrite G).
      destruct (sk_onto C W true m2 Sk i Hi) as (x & Fx & <-). unfold RebuildProofs.no_rs. rewrite (sk_aget x n _ Fx G).
      now destruct (sk_attrs _ _ _ Sk x Fx) as (_ & _ & R & _).
    Qed.

    Lemma heavy_attrs x n : In x (flat C) -> gfind (phi C x) m2 = Some n ->
      Hydrogens.is_H (na n) = false /\ Hydrogens.valence_of (na n) = Hydrogens.valence_of (payload C x).
    Proof.
      intros Fx G. destruct (Hatoms x Fx) as ((e & Ee) & (q & Eq) & _ & NH). destruct (sk_attrs _ _ _ Sk x Fx) as (_ & _ & _ & P).
      assert (aget (S "element") (na n) = aget (S "element") (payload C x)) as E1.
      { rewrite (sk_aget x n _ Fx G), Ee. apply P; [exact Ee|apply key_not_reserved; auto|intros _ X; apply str_eqb_eq in X; vm_compute in X; discriminate]. }
      assert (aget (S "charge") (na n) = aget (S "charge") (payload C x)) as E2.
      { rewrite (sk_aget x n _ Fx G), Eq. apply P; [exact Eq|apply key_not_reserved; auto|intros _ X; apply str_eqb_eq in X; vm_compute in X; discriminate]. }
      split; [|now apply valence_of_ext]. unfold Hydrogens.is_H, Hydrogens.is_elem in *. now rewrite E1.
    Qed.

    Lemma unphi x : In x (flat C) -> nth (Z.to_nat (phi C x)) (flat C) 0 = x.
    Proof. intros Fx. unfold phi. rewrite Nat2Z.id. apply nth_error_nth. now apply nth_index_in. Qed.

    (** the orders around phi x add up to M's bond sum of x *)
    Lemma sum_orders_skeleton x n : In x (flat C) -> gfind (phi C x) m2 = Some n -> Hydrogens.sum_orders (nadj n) = Ok (bond_sum x).
    Proof.
      intros Fx G. destruct (adjacency_spec C W true m2 Sk Adj x n Fx G) as (Perm & Ord).
      set (f := fun k : Z => rhalf x (nth (Z.to_nat k) (flat C) 0)).
      rewrite (sum_orders_fun f).
      - f_equal. rewrite (zsum_perm _ _ (Permutation_map f Perm)), map_map. unfold bond_sum. f_equal. apply map_ext_in.
        intros b Hb. unfold f. now rewrite (unphi _ (other_in_flat C W x b Hb)).
      - intros k d Hd. destruct (Ord k d Hd) as (b & Hb & -> & Eo). unfold f. rewrite (unphi _ (other_in_flat C W x b Hb)).
        unfold Hydrogens.order_half, rhalf. rewrite Eo.
        destruct (result_order C x (other x b)) as [v|] eqn:Er; [|reflexivity].
        destruct (result_numeric x _ v Fx Er) as [h Eh]. unfold ohalf. now rewrite Eh.
    Qed.

    (** ---- the hydrogen completion *)
    Theorem cut_hydrogens g4 :
      Hydrogens.rebuild_h_atoms_default m2 (Some m2) = Ok g4 ->
      (* every atom of M: its valence row, its hydrogens *)
      (forall x n, In x (flat C) -> gfind (phi C x) m2 = Some n ->
         exists val idxs n', Hydrogens.valence_of (payload C x) = Ok val /\
           length idxs = h_needed val x /\ NoDup idxs /\ (forall j, In j idxs -> has_node m2 j = false) /\
           gfind (phi C x) g4 = Some n' /\ nadj n' = nadj n ++ map (fun j => (j, Hydrogens.h_edge_attrs)) idxs /\
           (forall attr, attr <> S "hcount" -> aget attr (na n') = aget attr (na n)) /\
           (forall j, In j idxs -> exists h, gfind j g4 = Some h /\ nadj h = [(phi C x, Hydrogens.h_edge_attrs)] /\ Hydrogens.is_H (na h) = true) /\
           (fits val (bond_sum x) -> exists v, least_fitting val (bond_sum x) v /\
              (Z.even (bond_sum x) = true -> 2 * Z.of_nat (length idxs) = 2 * v - bond_sum x) /\
              (Z.even (bond_sum x) = false -> 2 * Z.of_nat (length idxs) = 2 * v - bond_sum x - 1))) /\
      (* the heavy-atom skeleton is unchanged *)
      (forall x y, In x (flat C) -> In y (flat C) ->
         has_edge g4 (phi C x) (phi C y) = bonded C x y /\ edge_get g4 (phi C x) (phi C y) (S "order") = result_order C x y) /\
      (* nothing else: every further node is a hydrogen with one bond, to an atom of M *)
      (forall j m, has_node m2 j = false -> gfind j g4 = Some m ->
         exists x, In x (flat C) /\ nadj m = [(phi C x, Hydrogens.h_edge_attrs)] /\ Hydrogens.is_H (na m) = true).
    Proof.
      intros Hr. unfold Hydrogens.rebuild_h_atoms_default, Hydrogens.rebuild_h_atoms in Hr.
      destruct (Hydrogens.transcript_contract m2 m2); [|discriminate]. change rebuild_keep_bonding_default with false in Hr.
      destruct (RebuildProofs.wf_graph_structural m2 Wf) as (Hn & Hcl & Hns).
      destruct (RebuildProofs.rebuild_end_to_end rebuild_copy_attrs_default m2 g4 Hn Hcl Hns no_rs_all Hr) as (R1 & _ & R3).
      split; [|split].
      - intros x n Fx G. destruct (heavy_attrs x n Fx G) as [NH Ev].
        destruct (R1 _ _ G NH) as (val & b & idxs & n' & V & Sb & L & Nd & Fr & G' & A' & At & Hh).
        rewrite (sum_orders_skeleton x n Fx G) in Sb. inversion Sb; subst b. rewrite Ev in V.
        exists val, idxs, n'. split; [exact V|]. split; [exact L|]. split; [exact Nd|]. split.
        { intros j Hj. unfold has_node. now rewrite (Fr j Hj). }
        split; [exact G'|]. split; [exact A'|]. split; [exact At|]. split.
        { intros j Hj. destruct (Hh j Hj) as (h & Gh & Ah & Ih & _). exists h. auto. }
        intros Hf. destruct (RebuildProofs.rebuild_valence_sum (payload C x) val (bond_sum x) idxs _ (nadj n) V Hf (sum_orders_skeleton x n Fx G) L A') as (v & Lf & Ev1 & Ev2).
        exists v. split; [exact Lf|]. split; intros X; [now destruct (Ev1 X)|now destruct (Ev2 X)].
      - intros x y Fx Fy. destruct (sk_gfind x Fx) as [n G]. destruct (heavy_attrs x n Fx G) as [NH _].
        destruct (R1 _ _ G NH) as (val & b & idxs & n' & _ & _ & _ & _ & Fr & G' & A' & _).
        destruct (sk_edges _ _ _ Sk x y Fx Fy) as (E1 & E2 & _).
        assert (adj_get (phi C y) (nadj n') = adj_get (phi C y) (nadj n)) as Ea.
        { rewrite A'. apply adj_get_app_h. intros j Hj ->. pose proof (Fr _ Hj) as Fj. destruct (sk_gfind y Fy) as [ny Gy]. congruence. }
        unfold has_edge, edge_get, edge_attrs in *. rewrite G', Ea. rewrite G in E1, E2. split; assumption.
      - intros j m Hj Gj. assert (gfind j m2 = None) as Gn by (unfold has_node in Hj; destruct (gfind j m2); [discriminate|reflexivity]).
        destruct (R3 j m Gn Gj) as (k & Hk & Am & Ih).
        assert (has_node m2 k = true) as Hk' by (unfold has_node; destruct (gfind k m2); [reflexivity|congruence]).
        destruct (sk_onto C W true m2 Sk k Hk') as (x & Fx & <-). exists x. auto.
    Qed.

    (** ---- sort_nodes_by_attr: the returned graph is the completion relabelled.  The two hypotheses about the
        completed graph (well-formed, fragid on every node: the hydrogens inherit it) are decidable and hold on
        every run; the hydro component proves them inside its end-to-end proof but does not export them. *)
    Theorem cut_sorted g4 g5 :
      Hydrogens.rebuild_h_atoms_default m2 (Some m2) = Ok g4 -> wf_graph g4 ->
      map fst (get_node_attributes g4 (S "fragid")) = node_keys g4 -> sort_nodes_by_attr g4 = Ok g5 ->
      exists m, sort_mapping g4 = Ok m /\ SortGraphProofs.inj_on (map_get m) (node_keys g4) /\
        Permutation (map (map_get m) (node_keys g4)) (map Z.of_nat (seq 0 (length g4))) /\
        node_keys g5 = map (map_get m) (node_keys g4) /\
        (forall x y, In x (flat C) -> In y (flat C) -> has_edge g5 (map_get m (phi C x)) (map_get m (phi C y)) = bonded C x y) /\
        (forall x j, In x (flat C) -> In j (node_keys g4) -> has_edge g5 (map_get m (phi C x)) (map_get m j) = has_edge g4 (phi C x) j) /\
        (forall x key v, In x (flat C) -> aget key (payload C x) = Some v -> ~ In key reserved -> key <> S "hcount" -> key <> S "ez_isomer_atoms" ->
           node_get g5 (map_get m (phi C x)) key = Some v).
    Proof.
      intros Hr Wf4 Hfid Hs. destruct (cut_hydrogens g4 Hr) as (H1 & H2 & _).
      destruct (SortGraphProofs.sort_graph g4 g5 Wf4 Hfid Hs) as (m & Em & Inj & Perm & K5 & E5 & A5).
      assert (Hin4 : forall x, In x (flat C) -> In (phi C x) (node_keys g4)).
      { intros x Fx. destruct (sk_gfind x Fx) as [n G]. destruct (H1 x n Fx G) as (val & idxs & n' & _ & _ & _ & _ & G' & _).
        apply gfind_has. unfold has_node. now rewrite G'. }
      exists m. split; [exact Em|]. split; [exact Inj|]. split; [exact Perm|]. split; [exact K5|]. split; [|split].
      - intros x y Fx Fy. rewrite E5 by (apply Hin4; assumption). now destruct (H2 x y Fx Fy).
      - intros x j Fx Hj. apply E5; [now apply Hin4|exact Hj].
      - intros x key v Fx Hv Hr' Hh He. rewrite A5 by (try apply Hin4; assumption).
        destruct (sk_gfind x Fx) as [n G]. destruct (H1 x n Fx G) as (val & idxs & n' & _ & _ & _ & _ & G' & _ & At & _).
        unfold node_get. rewrite G', (At key Hh), (sk_aget x n key Fx G).
        destruct (sk_attrs _ _ _ Sk x Fx) as (_ & _ & _ & P). apply P; auto.
    Qed.
  End Run.

  (** ---- from the cut to the completed molecule, in one statement *)
  Theorem cut_all_atom_step :
    exists m1 fg1 m2 fg2,
      resolve_disconnected fd B = Ok (m1, fg1) /\ bonding_step true true B m1 fg1 = Ok (m2, fg2) /\
      skeleton C true m2 /\ adj_nodup m2 /\ wf_graph m2 /\ Squash.squash_atoms m2 = Ok m2.
  Proof.
    destruct (cut_bonding_skeleton C W fd HT B HB true) as (m1 & fg1 & m2 & fg2 & E1 & E2 & Sk).
    { intros _ x Fx. destruct (Hatoms x Fx) as (A & _ & A' & _). auto. }
    assert (adj_nodup m2) as Adj by (eapply adj_nodup_bonding; [eapply adj_nodup_disconnected; exact E1|exact E2]).
    exists m1, fg1, m2, fg2. split; [exact E1|]. split; [exact E2|]. split; [exact Sk|]. split; [exact Adj|].
    split; [exact (cut_skeleton_wf C W true m2 Sk)|now apply squash_identity].
  Qed.
End Hyd.
