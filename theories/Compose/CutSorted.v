(** CutSorted: [cut_sorted] without its two extra hypotheses.  The completed graph is well formed ([rebuild_wf], RebuildWf.v)
    and every node of it carries `fragid` (the atoms keep theirs, every added hydrogen inherits its anchor's - the added
    nodes are exactly the hydrogens of C09's end-to-end theorem, by symmetry of the completed graph), so
    sort_nodes_by_attr returns the hydrogen completion of the cut molecule relabelled by an explicit permutation. *)
From Coq Require Import String.
From Coq Require Import List Ascii ZArith Bool Lia Permutation.
From CGV Require Import Base.PyBase Base.PyVal Base.NxGraph Gen.HydroGen Resolve.Bonding Resolve.GraphOps Resolve.MapProofs Resolve.CopyProofs
     Hydro.GraphLemmas Hydro.SquashDefs Hydro.HydroDefs.
From CGV Require Hydro.Hydrogens Hydro.Squash Hydro.RebuildProofs Resolve.SortGraphProofs.
From CGV Require Import Compose.GraphFacts Compose.GraphAdj Compose.CutModel Compose.CutPos Compose.CutTables Compose.CutDisc
     Compose.CutSkeleton Compose.CutWf Compose.CutHydrogens Compose.RebuildWf.
Import ListNotations.
Open Scope Z_scope.

Lemma gna_all_keys g a : (forall n, In n g -> aget a (na n) <> None) -> map fst (get_node_attributes g a) = node_keys g.
Proof.
  unfold get_node_attributes, node_keys. induction g as [|n r IH]; intros H; [reflexivity|]. cbn [flat_map map].
  destruct (aget a (na n)) as [v|] eqn:E; [|exfalso; exact (H n (or_introl eq_refl) E)]. cbn. f_equal. apply IH. intros; apply H; now right.
Qed.

Section Sorted.
  Variable C : cut.
  Hypothesis W : wf_cut C.
  Hypothesis Hatoms : forall x, In x (flat C) ->
    (exists e, aget (S "element") (payload C x) = Some e) /\ (exists q, aget (S "charge") (payload C x) = Some q) /\
    (exists h, aget (S "hcount") (payload C x) = Some (VInt h)) /\ Hydrogens.is_H (payload C x) = false.
  Hypothesis Hnum : forall b, In b (c_bonds C) -> numeric (cb_ord b).
  Variable m2 : graph.
  Hypothesis Sk : skeleton C true m2.
  Hypothesis Adj : adj_nodup m2.
  Let Wf := cut_skeleton_wf C W true m2 Sk.

  Lemma rebuild_unfold g4 : Hydrogens.rebuild_h_atoms_default m2 (Some m2) = Ok g4 ->
    Hydrogens.rebuild_after_car false rebuild_copy_attrs_default m2 = Ok g4.
  Proof.
    intros Hr. unfold Hydrogens.rebuild_h_atoms_default, Hydrogens.rebuild_h_atoms in Hr.
    destruct (Hydrogens.transcript_contract m2 m2); [|discriminate]. exact Hr.
  Qed.

  Theorem completed_wf g4 : Hydrogens.rebuild_h_atoms_default m2 (Some m2) = Ok g4 -> wf_graph g4.
  Proof. intros Hr. apply (rebuild_wf rebuild_copy_attrs_default m2 g4 Wf); [exact (no_rs_all C W m2 Sk)|now apply rebuild_unfold]. Qed.

  Theorem completed_fragid g4 : Hydrogens.rebuild_h_atoms_default m2 (Some m2) = Ok g4 ->
    map fst (get_node_attributes g4 (S "fragid")) = node_keys g4.
  Proof.
    intros Hr. pose proof (completed_wf g4 Hr) as Wf4. pose proof (rebuild_unfold g4 Hr) as Hr'.
    destruct (RebuildProofs.wf_graph_structural m2 Wf) as (Hn & Hcl & Hns).
    destruct (RebuildProofs.rebuild_end_to_end rebuild_copy_attrs_default m2 g4 Hn Hcl Hns (no_rs_all C W m2 Sk) Hr') as (R1 & _ & R3).
    apply gna_all_keys. intros nd Hin. pose proof (gfind_in g4 (wf_nodup _ Wf4) nd Hin) as Gnd.
    destruct (gfind (nk nd) m2) as [n|] eqn:G.
    - (* an atom of M: attributes kept *)
      assert (has_node m2 (nk nd) = true) as Hk by (unfold has_node; now rewrite G).
      destruct (sk_onto C W true m2 Sk _ Hk) as (x & Fx & Ex). rewrite <- Ex in G, Gnd.
      destruct (heavy_attrs C Hatoms m2 Sk x n Fx G) as [NH _].
      destruct (R1 _ _ G NH) as (val & b & idxs & n' & _ & _ & _ & _ & _ & G' & _ & At & _). rewrite Gnd in G'. inversion G'; subst n'.
      rewrite At by (intros E; apply str_eqb_eq in E; vm_compute in E; discriminate). rewrite (sk_aget C m2 x n _ Fx G).
      destruct (sk_attrs _ _ _ Sk x Fx) as (F & _). rewrite F. discriminate.
    - (* an added node: a hydrogen of its only neighbour *)
      destruct (R3 _ _ G Gnd) as (k & Hk & Am & _).
      assert (has_node m2 k = true) as Hk' by (unfold has_node; destruct (gfind k m2); [reflexivity|congruence]).
      destruct (sk_onto C W true m2 Sk k Hk') as (x & Fx & <-). destruct (sk_gfind C m2 Sk x Fx) as [n Gx].
      destruct (heavy_attrs C Hatoms m2 Sk x n Fx Gx) as [NH _].
      destruct (R1 _ _ Gx NH) as (val & b & idxs & n' & _ & _ & _ & _ & _ & G' & A' & _ & Hh).
      assert (has_edge g4 (phi C x) (nk nd) = true) as He.
      { rewrite <- (wf_sym _ Wf4). apply has_edge_in. exists nd, Hydrogens.h_edge_attrs. split; [exact Gnd|rewrite Am; now left]. }
      apply has_edge_in in He as (n'' & a & G'' & Hin''). rewrite G' in G''. inversion G''; subst n''. rewrite A' in Hin''.
      apply in_app_or in Hin'' as [Hin''|Hin''].
      + exfalso. apply (Hcl _ _ _ _ Gx Hin''). exact G.
      + apply in_map_iff in Hin'' as (j & E & Hj). inversion E; subst j. destruct (Hh _ Hj) as (h & Gh & _ & _ & Ah). rewrite Gnd in Gh. inversion Gh; subst h.
        rewrite (Ah (S "fragid")). cbn. discriminate.
  Qed.

  (** the returned (sorted) graph is the hydrogen completion relabelled *)
  Theorem cut_sorted_total g4 g5 :
    Hydrogens.rebuild_h_atoms_default m2 (Some m2) = Ok g4 -> sort_nodes_by_attr g4 = Ok g5 ->
    exists m, sort_mapping g4 = Ok m /\ SortGraphProofs.inj_on (map_get m) (node_keys g4) /\
      Permutation (map (map_get m) (node_keys g4)) (map Z.of_nat (seq 0 (length g4))) /\
      node_keys g5 = map (map_get m) (node_keys g4) /\
      (forall x y, In x (flat C) -> In y (flat C) -> has_edge g5 (map_get m (phi C x)) (map_get m (phi C y)) = bonded C x y) /\
      (forall x j, In x (flat C) -> In j (node_keys g4) -> has_edge g5 (map_get m (phi C x)) (map_get m j) = has_edge g4 (phi C x) j) /\
      (forall x key v, In x (flat C) -> aget key (payload C x) = Some v -> ~ In key reserved -> key <> S "hcount" -> key <> S "ez_isomer_atoms" ->
         node_get g5 (map_get m (phi C x)) key = Some v).
  Proof.
    intros Hr Hs. exact (cut_sorted C W Hatoms Hnum m2 Sk Adj g4 g5 Hr (completed_wf g4 Hr) (completed_fragid g4 Hr) Hs).
  Qed.
End Sorted.
