(** RebuildWf: rebuild_h_atoms (everything after the aromaticity transcript) preserves well-formedness of the molecule
    graph: distinct keys, and an adjacency that is closed, symmetric and loop-free ([SquashDefs.wf_graph]).  The hydro
    component's end-to-end theorem describes the result record by record; symmetry and distinctness of the keys of the
    result are proved here, as invariants of the steps, from that component's own step lemmas (its files are untouched). *)
From Coq Require Import String.
From Coq Require Import List Ascii ZArith Bool Lia.
From CGV Require Import Base.PyBase Base.PyVal Base.NxGraph Gen.HydroGen Hydro.Hydrogens Hydro.HydroDefs Hydro.GraphLemmas
     Hydro.HydrogensProofs Hydro.SquashDefs Hydro.RebuildProofs.
From CGV Require Hydro.SquashProofs.
Import ListNotations.
Open Scope Z_scope.

(** adjacency symmetry, record by record *)
Definition sym_g (g : graph) : Prop :=
  forall i n w a, gfind i g = Some n -> In (w, a) (nadj n) -> exists m a', gfind w g = Some m /\ In (i, a') (nadj m).
Definition all_no_rs (g : graph) : Prop := forall i n, gfind i g = Some n -> no_rs n.
(** [h] has the nodes of [g] with the same adjacency lists *)
Definition same_adj (g h : graph) : Prop :=
  forall i, match gfind i g with None => gfind i h = None | Some n => exists n', gfind i h = Some n' /\ nadj n' = nadj n end.

Lemma has_edge_in g y x : has_edge g y x = true <-> exists n a, gfind y g = Some n /\ In (x, a) (nadj n).
Proof.
  unfold has_edge. split.
  - destruct (gfind y g) as [n|]; [|discriminate]. destruct (adj_get x (nadj n)) as [a|] eqn:E; [|discriminate].
    intros _. exists n, a. split; [reflexivity|now apply SquashProofs.adj_get_In].
  - intros (n & a & -> & Hin). destruct (SquashProofs.In_adj_get _ _ _ Hin) as [b ->]. reflexivity.
Qed.

Lemma wf_of_sym g : NoDup (node_keys g) -> sym_g g -> noself_g g -> wf_graph g.
Proof.
  intros Hn Hs Hl. constructor.
  - exact Hn.
  - intros y x H. apply has_edge_in in H as (n & a & G & Hin). destruct (Hs _ _ _ _ G Hin) as (m & a' & Gm & _). unfold has_node. now rewrite Gm.
  - intros y x.
    assert (forall u v, has_edge g u v = true -> has_edge g v u = true) as X.
    { intros u v H. apply has_edge_in in H as (n & a & G & Hin). destruct (Hs _ _ _ _ G Hin) as (m & a' & Gm & Hm). apply has_edge_in. eauto. }
    destruct (has_edge g y x) eqn:A, (has_edge g x y) eqn:B; try reflexivity; [apply X in A|apply X in B]; congruence.
  - intros y. destruct (has_edge g y y) eqn:H; [|reflexivity]. apply has_edge_in in H as (n & a & G & Hin). exfalso. exact (Hl _ _ _ G Hin).
Qed.
Lemma sym_of_wf g : wf_graph g -> sym_g g.
Proof.
  intros Wf i n w a G Hin. assert (has_edge g i w = true) as H by (apply has_edge_in; eauto).
  rewrite (wf_sym _ Wf) in H. apply has_edge_in in H as (m & a' & Gm & Hm). eauto.
Qed.

Lemma same_adj_sym g h : same_adj g h -> sym_g g -> sym_g h.
Proof.
  intros S Hs i n' w a G Hin. pose proof (S i) as Si. destruct (gfind i g) as [n|] eqn:Gi; [|congruence].
  destruct Si as (n'' & G' & E). rewrite G in G'. inversion G'; subst n''. rewrite E in Hin.
  destruct (Hs _ _ _ _ Gi Hin) as (m & a' & Gm & Hm). pose proof (S w) as Sw. rewrite Gm in Sw. destruct Sw as (m' & Gm' & Em).
  exists m', a'. split; [exact Gm'|now rewrite Em].
Qed.
Lemma same_adj_noself g h : same_adj g h -> noself_g g -> noself_g h.
Proof.
  intros S Hl i n' a G Hin. pose proof (S i) as Si. destruct (gfind i g) as [n|] eqn:Gi; [|congruence].
  destruct Si as (n'' & G' & E). rewrite G in G'. inversion G'; subst n''. rewrite E in Hin. exact (Hl _ _ _ Gi Hin).
Qed.
Lemma same_adj_closed g h : same_adj g h -> closed_g g -> closed_g h.
Proof.
  intros S Hc i n' w a G Hin. pose proof (S i) as Si. destruct (gfind i g) as [n|] eqn:Gi; [|congruence].
  destruct Si as (n'' & G' & E). rewrite G in G'. inversion G'; subst n''. rewrite E in Hin. pose proof (Hc _ _ _ _ Gi Hin) as X.
  pose proof (S w) as Sw. destruct (gfind w g); [|congruence]. destruct Sw as (m' & -> & _). discriminate.
Qed.

(** ---------------------------------------------------------------- one add_h_step *)
Lemma rs_ne_hcount : S "rs_isomer" <> S "hcount".
Proof. intros H. apply str_eqb_eq in H. vm_compute in H. discriminate. Qed.

Lemma sym_add_h_step g k g' : closed_g g -> noself_g g -> sym_g g -> all_no_rs g -> gfind k g <> None -> add_h_step g k = Ok g' ->
  closed_g g' /\ noself_g g' /\ sym_g g' /\ all_no_rs g' /\ (forall i, gfind i g <> None -> gfind i g' <> None).
Proof.
  intros Hcl Hns Hs Hrs Hk H. destruct (gfind k g) as [n|] eqn:G; [|congruence].
  destruct (add_h_step_spec g k g' n Hcl G (Hrs _ _ G) H) as (hc & Ehc & Gk & Gj & Go & Cl'). cbn zeta in *.
  set (idxs := fresh_keys g hc) in *.
  assert (Hfresh : forall j, In j idxs -> gfind j g = None) by (intros j; apply fresh_keys_fresh).
  assert (Hnk : ~ In k idxs) by (intro X; rewrite (Hfresh k X) in G; discriminate).
  assert (Hold : forall i m, gfind i g = Some m -> i <> k -> gfind i g' = Some m).
  { intros i m Gi Ni. rewrite Go; [exact Gi|exact Ni|]. intros X. rewrite (Hfresh i X) in Gi. discriminate. }
  assert (Hcases : forall i m, gfind i g' = Some m -> (i = k /\ m = anchored n idxs) \/ (In i idxs /\ m = hrec i k) \/ (i <> k /\ ~ In i idxs /\ gfind i g = Some m)).
  { intros i m Gi. destruct (Z.eq_dec i k) as [->|Ni]; [left; rewrite Gk in Gi; inversion Gi; auto|]. right.
    destruct (in_dec Z.eq_dec i idxs) as [Hi|Hi]; [left; rewrite (Gj i Hi) in Gi; inversion Gi; auto|right].
    rewrite Go in Gi by assumption. auto. }
  split; [exact Cl'|]. split; [|split; [|split]].
  - intros i m a Gi Hin. destruct (Hcases i m Gi) as [[-> ->]|[[Hi ->]|(Ni & Hi & Gi0)]].
    + cbn [anchored nadj] in Hin. apply in_app_or in Hin as [Hin|Hin]; [exact (Hns _ _ _ G Hin)|].
      apply in_map_iff in Hin as (j & E & Hj). inversion E; subst. contradiction.
    + cbn in Hin. destruct Hin as [E|[]]. inversion E; subst. contradiction.
    + exact (Hns _ _ _ Gi0 Hin).
  - intros i m w a Gi Hin. destruct (Hcases i m Gi) as [[-> ->]|[[Hi ->]|(Ni & Hi & Gi0)]].
    + cbn [anchored nadj] in Hin. apply in_app_or in Hin as [Hin|Hin].
      * destruct (Hs _ _ _ _ G Hin) as (mw & a' & Gw & Hw). assert (w <> k) as Nw by (intros ->; exact (Hns _ _ _ G Hin)).
        exists mw, a'. split; [now apply Hold|exact Hw].
      * apply in_map_iff in Hin as (j & E & Hj). inversion E; subst. exists (hrec w k), h_edge_attrs. split; [now apply Gj|now left].
    + cbn in Hin. destruct Hin as [E|[]]. inversion E; subst. exists (anchored n idxs), h_edge_attrs. split; [exact Gk|].
      cbn [anchored nadj]. apply in_or_app. right. apply in_map_iff. exists i. auto.
    + destruct (Hs _ _ _ _ Gi0 Hin) as (mw & a' & Gw & Hw). destruct (Z.eq_dec w k) as [->|Nw].
      * rewrite G in Gw. inversion Gw; subst mw. exists (anchored n idxs), a'. split; [exact Gk|]. cbn [anchored nadj]. apply in_or_app. now left.
      * exists mw, a'. split; [now apply Hold|exact Hw].
  - intros i m Gi. destruct (Hcases i m Gi) as [[-> ->]|[[Hi ->]|(Ni & Hi & Gi0)]].
    + unfold no_rs, anchored. cbn [na]. rewrite aget_adel_other by exact rs_ne_hcount. exact (Hrs _ _ G).
    + reflexivity.
    + exact (Hrs _ _ Gi0).
  - intros i Hi. destruct (Z.eq_dec i k) as [->|Ni]; [rewrite Gk; discriminate|]. destruct (gfind i g) as [m|] eqn:Gi; [|congruence].
    rewrite (Hold i m Gi Ni). discriminate.
Qed.

Lemma sym_add_h_fold ks : forall acc g', closed_g acc -> noself_g acc -> sym_g acc -> all_no_rs acc ->
  (forall k, In k ks -> gfind k acc <> None) -> fold_res add_h_step ks acc = Ok g' ->
  closed_g g' /\ noself_g g' /\ sym_g g' /\ all_no_rs g'.
Proof.
  induction ks as [|k ks IH]; intros acc g' Hcl Hns Hs Hrs Hks H.
  - cbn in H. inversion H; subst. auto.
  - cbn [fold_res] in H. destruct (add_h_step acc k) as [acc1|] eqn:S1; cbn [bind] in H; [|discriminate].
    destruct (sym_add_h_step acc k acc1 Hcl Hns Hs Hrs (Hks k (or_introl eq_refl)) S1) as (C1 & N1 & Y1 & R1 & P1).
    apply (IH acc1 g' C1 N1 Y1 R1); [|exact H]. intros k' Hk'. apply P1. apply Hks. now right.
Qed.

(** ---------------------------------------------------------------- keys of the inheritance loop *)
Lemma fold_res_keys {B} (f : graph -> B -> res graph) l : (forall g x g', f g x = Ok g' -> node_keys g' = node_keys g) ->
  forall g g', fold_res f l g = Ok g' -> node_keys g' = node_keys g.
Proof.
  intros Hf. induction l as [|x r IH]; intros g g' H; cbn in H; [inversion H; reflexivity|].
  destruct (f g x) as [g1|] eqn:E; cbn [bind] in H; [|discriminate]. rewrite (IH _ _ H). eapply Hf; eauto.
Qed.
Lemma inherit_all_keys ca g g' : inherit_all ca g = Ok g' -> node_keys g' = node_keys g.
Proof.
  unfold inherit_all. apply fold_res_keys. intros g0 k g1 H. unfold inherit_step in H.
  destruct (node_attrs g0 k) as [n|]; cbn [bind] in H; [|discriminate]. destruct (wants_inherit n); [|inversion H; reflexivity].
  destruct (neighbors g0 k) as [|anchor rest]; [discriminate|]. revert H. apply fold_res_keys.
  intros g2 attr g3 H. unfold inherit_attr in H. destruct (node_attrs g2 k) as [nn|]; cbn [bind] in H; [|discriminate].
  destruct (ahas attr nn); [inversion H; reflexivity|]. destruct (node_attrs g2 anchor); cbn [bind] in H; [|discriminate].
  inversion H. unfold set_node_attr. apply node_keys_gupdate. reflexivity.
Qed.

(** ---------------------------------------------------------------- the theorem *)
Theorem rebuild_wf ca g1 g' : wf_graph g1 -> all_no_rs g1 -> rebuild_after_car false ca g1 = Ok g' -> wf_graph g'.
Proof.
  intros Wf Hrs H. destruct (wf_graph_structural g1 Wf) as (Hnd & Hcl & Hns). pose proof (sym_of_wf g1 Wf) as Hs.
  unfold rebuild_after_car in H.
  change rebuild_reset_attr with (S "hcount") in H. change rebuild_reset_value with 0 in H. change rebuild_respect_hcount with false in H.
  destruct (fill_valence false (set_all_nodes g1 (S "hcount") (VInt 0))) as [g3|] eqn:F; cbn [bind] in H; [|discriminate].
  destruct (phase01 g1 g3 Hnd F) as (K3 & P3).
  destruct (add_explicit_hydrogens g3) as [g5|] eqn:A; cbn [bind] in H; [|discriminate].
  assert (S13 : same_adj g1 g3).
  { intros i. specialize (P3 i). destruct (gfind i g1) as [n|]; [|exact P3]. destruct P3 as (n3 & G3 & (_ & Adj & _)). eauto. }
  pose proof (same_adj_closed _ _ S13 Hcl) as Cl3. pose proof (same_adj_noself _ _ S13 Hns) as Ns3. pose proof (same_adj_sym _ _ S13 Hs) as Sy3.
  assert (Rs3 : all_no_rs g3).
  { intros i n3 G3. specialize (P3 i). destruct (gfind i g1) as [n|] eqn:G1; [|congruence]. destruct P3 as (n3' & G3' & (_ & _ & At & _)).
    rewrite G3 in G3'. inversion G3'; subst n3'. unfold no_rs. rewrite (At _ rs_ne_hcount). exact (Hrs _ _ G1). }
  assert (Nd3 : NoDup (node_keys g3)) by (rewrite K3; exact Hnd).
  unfold add_explicit_hydrogens in A.
  assert (Hks3 : forall k, In k (node_keys g3) -> gfind k g3 <> None).
  { intros k Hk. destruct (gfind_some_keys k g3 Hk) as [n ->]. discriminate. }
  destruct (sym_add_h_fold (node_keys g3) g3 g5 Cl3 Ns3 Sy3 Rs3 Hks3 A) as (Cl5 & Ns5 & Sy5 & _).
  destruct (keys_add_h_fold (node_keys g3) g3 g5 Nd3 (fun k Hk => Hk) A) as [Nd5 _].
  (* inheritance: attributes only *)
  pose proof (inherit_all_keys ca g5 g' H) as K'.
  assert (Hks5 : forall k, In k (node_keys g5) -> gfind k g5 <> None).
  { intros k Hk. destruct (gfind_some_keys k g5 Hk) as [n ->]. discriminate. }
  unfold inherit_all in H. destruct (inherit_fold_all ca (node_keys g5) Nd5 g5 g' Cl5 Ns5 Hks5 H) as (_ & R & N & _).
  assert (S5 : same_adj g5 g').
  { intros i. destruct (gfind i g5) as [n|] eqn:G; [|now apply N]. destruct (R i n G) as (n' & G' & (_ & Adj & _)). eauto. }
  apply wf_of_sym; [rewrite K'; exact Nd5|exact (same_adj_sym _ _ S5 Sy5)|exact (same_adj_noself _ _ S5 Ns5)].
Qed.
