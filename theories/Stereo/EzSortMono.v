(** EzSortMono: generic facts the cut-level E/Z theorems need.
    - sort_nodes_by_attr's renumbering is MONOTONE inside one fragment: two nodes with the same (singleton) fragid list keep
      their relative key order ([sort_mono]); and the fragments come in fragid order ([sort_mono_frag]);
    - the {node: token} dict of annotate_ez_isomers_cgsmiles is the node attribute ([ez_get_node_get]);
    - a pair the table classifies carries two slash tokens ([interpret_some_tok]). *)
From Coq Require Import String.
From Coq Require Import List Ascii ZArith Bool Lia Permutation Sorted.
From CGV Require Import Base.PyBase Base.PyVal Base.NxGraph Resolve.GraphOps Resolve.SortProofs Resolve.CopyProofs
     Stereo.EzImpl Stereo.EzDefs Stereo.EzProofs.
From CGV Require Resolve.MapProofs Resolve.SortGraphProofs Compose.GraphFacts.
Import ListNotations.
Open Scope Z_scope.

Lemma map_res_in {A B} (f : A -> res B) : forall l l' x y, map_res f l = Ok l' -> In x l -> f x = Ok y -> In y l'.
Proof.
  induction l as [|a r IH]; intros l' x y H I E; cbn in *; [contradiction|].
  destruct (f a) as [b|] eqn:Ea; cbn in H; [|discriminate]. destruct (map_res f r) as [bs|] eqn:Er; cbn in H; [|discriminate].
  inversion H; subst. destruct I as [->|I]; [left; congruence|right; eapply IH; eauto].
Qed.

Lemma nth_index {A} (l : list A) x d : In x l -> exists i, (i < length l)%nat /\ nth i l d = x.
Proof. intros I. destruct (In_nth l x d I) as [i [H1 H2]]. eauto. Qed.

(** position in the sorted list = new key *)
Lemma mapping_nth (sorted : list sort_key) i (d : sort_key) : NoDup (map snd sorted) -> (i < length sorted)%nat ->
  map_get (mapping_of sorted) (snd (nth i sorted d)) = Z.of_nat i.
Proof.
  intros ND Hi. unfold mapping_of.
  set (m := combine (map snd sorted) (map Z.of_nat (seq 0 (length sorted)))).
  assert (H : map (map_get m) (map snd sorted) = map Z.of_nat (seq 0 (length sorted))).
  { apply map_get_combine; [exact ND|]. now rewrite !map_length, seq_length. }
  apply (f_equal (fun l => nth i l (map_get m (snd d)))) in H.
  rewrite (map_nth (map_get m)), (map_nth snd) in H. etransitivity; [exact H|].
  rewrite (nth_indep _ _ (Z.of_nat 0)) by (rewrite map_length, seq_length; exact Hi).
  rewrite map_nth, seq_nth by exact Hi. reflexivity.
Qed.

Theorem sort_mono_gen g m a b fa fb : sort_mapping g = Ok m -> NoDup (node_keys g) ->
  map fst (get_node_attributes g (S "fragid")) = node_keys g ->
  node_get g a (S "fragid") = Some (VList (map VInt fa)) -> node_get g b (S "fragid") = Some (VList (map VInt fb)) ->
  key_lt (fa, a) (fb, b) -> map_get m a < map_get m b.
Proof.
  intros Em Hn Hall Ha Hb Hlt. unfold sort_mapping in Em. destruct (sort_items g) as [ks|] eqn:Ek; [|discriminate].
  cbn [bind] in Em. inversion Em; subst m. clear Em.
  assert (Hks : map snd ks = node_keys g) by (rewrite (sort_items_keys g ks Ek); exact Hall).
  assert (NDk : NoDup (map snd ks)) by (rewrite Hks; exact Hn).
  destruct (sort_sorted g ks Ek NDk) as (SS & P & _).
  assert (NDs : NoDup (map snd (isort ks))) by (eapply Permutation_NoDup; [apply Permutation_map, Permutation_sym, P|exact NDk]).
  assert (Hin : forall k f, node_get g k (S "fragid") = Some (VList (map VInt f)) -> In (f, k) (isort ks)).
  { intros k f Hk. apply (Permutation_in _ (Permutation_sym P)).
    unfold sort_items in Ek. apply (map_res_in _ _ _ (k, VList (map VInt f)) (f, k) Ek).
    - rewrite (GraphFacts.gna_by_keys g _ Hn). apply in_flat_map. exists k. split.
      + apply MapProofs.gfind_has. unfold node_get in Hk. unfold has_node. destruct (gfind k g); [reflexivity|discriminate].
      + rewrite Hk. now left.
    - cbn. unfold ints_of. cbn. assert (E : map_res as_int (map VInt f) = Ok f) by (clear; induction f as [|z r IH]; cbn; [reflexivity|now rewrite IH]).
      rewrite E. reflexivity. }
  pose (d0 := (([], 0) : sort_key)).
  destruct (nth_index _ _ d0 (Hin a fa Ha)) as (i & Hi & Ni). destruct (nth_index _ _ d0 (Hin b fb Hb)) as (j & Hj & Nj).
  pose proof (mapping_nth (isort ks) i d0 NDs Hi) as Mi. rewrite Ni in Mi. cbn in Mi.
  pose proof (mapping_nth (isort ks) j d0 NDs Hj) as Mj. rewrite Nj in Mj. cbn in Mj.
  rewrite Mi, Mj. apply inj_lt.
  destruct (Nat.lt_trichotomy i j) as [L|[E|L]]; [exact L| |].
  - subst j. rewrite Ni in Nj. rewrite Nj in Hlt. now apply key_lt_irrefl in Hlt.
  - pose proof (ss_nth _ SS j i d0 L Hi) as X. rewrite Ni, Nj in X. now apply key_lt_asym in X.
Qed.

(** same fragment: the old key order is kept *)
Corollary sort_mono g m a b o : sort_mapping g = Ok m -> NoDup (node_keys g) ->
  map fst (get_node_attributes g (S "fragid")) = node_keys g ->
  node_get g a (S "fragid") = Some (VList [VInt o]) -> node_get g b (S "fragid") = Some (VList [VInt o]) ->
  (a <? b) = (map_get m a <? map_get m b).
Proof.
  intros Em Hn Hall Ha Hb.
  assert (L : forall x y, node_get g x (S "fragid") = Some (VList [VInt o]) -> node_get g y (S "fragid") = Some (VList [VInt o]) ->
              x < y -> map_get m x < map_get m y).
  { intros x y Hx Hy Hxy. apply (sort_mono_gen g m x y [o] [o] Em Hn Hall Hx Hy).
    unfold key_lt, key_cmp. cbn. rewrite Z.compare_refl. now apply Z.compare_lt_iff. }
  destruct (Z.ltb_spec a b) as [H|H]; symmetry.
  - apply Z.ltb_lt. now apply L.
  - apply Z.ltb_ge. destruct (Z.eq_dec a b) as [->|N]; [lia|]. apply Z.lt_le_incl. apply L; auto. lia.
Qed.
(** different fragments: fragment order decides *)
Corollary sort_mono_frag g m a b oa ob : sort_mapping g = Ok m -> NoDup (node_keys g) ->
  map fst (get_node_attributes g (S "fragid")) = node_keys g ->
  node_get g a (S "fragid") = Some (VList [VInt oa]) -> node_get g b (S "fragid") = Some (VList [VInt ob]) ->
  oa < ob -> map_get m a < map_get m b.
Proof.
  intros Em Hn Hall Ha Hb Hlt. apply (sort_mono_gen g m a b [oa] [ob] Em Hn Hall Ha Hb).
  unfold key_lt, key_cmp. cbn. apply Z.compare_lt_iff in Hlt. now rewrite Hlt.
Qed.

(** the {node: token} dict *)
Lemma ez_get_in k (d : ezdict) t : ez_get k d = Some t -> In (k, t) d.
Proof.
  induction d as [|[k' v] r IH]; cbn; [discriminate|]. destruct (Z.eqb_spec k k') as [->|N]; [intros [= ->]; now left|right; auto].
Qed.
Lemma gna_in_get g a k v : NoDup (node_keys g) -> In (k, v) (get_node_attributes g a) -> node_get g k a = Some v.
Proof.
  intros Hn I. rewrite (GraphFacts.gna_by_keys g a Hn) in I. apply in_flat_map in I as (k' & _ & I).
  destruct (node_get g k' a) as [v'|] eqn:E; [|contradiction]. destruct I as [[= <- <-]|[]]. exact E.
Qed.
Lemma ez_get_node_get g k t : NoDup (node_keys g) -> ez_get k (ez_class_dict g) = Some t -> node_get g k (S "ez_isomer_class") = Some t.
Proof. intros Hn H. apply gna_in_get; [exact Hn|]. now apply ez_get_in. Qed.

(** a classified pair carries two slash tokens and distinct ligand / anchor keys *)
Lemma interpret_some_tok lf af t1 t2 c : interpret lf af t1 t2 = Some c -> is_tok t1 = true /\ is_tok t2 = true /\ lf <> af.
Proof.
  unfold interpret, is_tok. intros H.
  assert (N : lf <> af) by (intros ->; rewrite Z.ltb_irrefl in H; discriminate).
  destruct (pyval_eqb t1 tok_slash), (pyval_eqb t1 tok_back), (pyval_eqb t2 tok_slash), (pyval_eqb t2 tok_back); cbn in *; auto;
    destruct (lf <? af); try discriminate; destruct (af <? lf); discriminate.
Qed.
