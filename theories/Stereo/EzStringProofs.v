(** EzStringProofs: the C15 refutations ON CGsmiles STRINGS, and the link from the string-level model to the theorems
    about the graph resolve() returns. *)
From Coq Require Import String.
From Coq Require Import List Ascii ZArith Bool Lia.
From CGV Require Import Base.PyBase Base.PyVal Base.NxGraph Dialect.DialectImpl Reader.ReaderImpl Resolve.Bonding Resolve.GraphOps
     Resolve.Pipeline Resolve.PipelineFull Stereo.EzImpl Stereo.EzDefs Stereo.EzWitness Stereo.EzProofs Stereo.EzStrings Stereo.EzReturned.
Import ListNotations.
Open Scope Z_scope.

(** what the string-level model returns IS the result of one modelled all-atom resolve(), so every theorem of EzReturned
    (returned_refs_valid, returned_symmetric, returned_class_of_pair, returned_chiral) applies to it *)
Lemma resolve_string_is_step fo s out : resolve_string fo s = Ok out ->
  exists fd prev car, resolve_step_full true true fd prev car = Ok out.
Proof.
  unfold resolve_string, bind. destruct (from_string _ _ s true true) as [st|]; [|discriminate].
  destruct (st_dicts st) as [|fd [|? ?]]; try discriminate.
  destruct (resolve_disconnected fd _) as [[m1 fg1]|]; [|discriminate].
  destruct (bonding_step true true _ m1 fg1) as [[m2 fg2]|]; [|discriminate].
  destruct (Squash.squash_atoms m2) as [m3|]; [|discriminate].
  intros H. exists fd, (st_mol st), (Some m3). exact H.
Qed.
Theorem string_refs_valid fo s out : resolve_string fo s = Ok out -> wf_graph (fo_m5 out) ->
  forall k v, In v (ez_list (fo_mol out) k) -> In v (ez_list (fo_m5 out) k) \/ tuple_ok (fo_mol out) k v = true.
Proof. intros H. destruct (resolve_string_is_step _ _ _ H) as (fd & prev & car & Hs). exact (returned_refs_valid _ _ _ _ _ Hs). Qed.

Theorem string_refs_valid_all fo s out : resolve_string fo s = Ok out ->
  forall k v, In v (ez_list (fo_mol out) k) -> In v (ez_list (fo_m5 out) k) \/ tuple_ok (fo_mol out) k v = true.
Proof. intros H. destruct (resolve_string_is_step _ _ _ H) as (fd & prev & car & Hs). exact (returned_refs_valid_all _ _ _ _ _ Hs). Qed.

Definition fo0 : float_oracle := fo_of_table [].
(** node attributes the C15 oracle looks at *)
Definition keep (g : graph) : graph :=
  map (fun n => {| nk := nk n;
                   na := filter (fun kv => str_in (fst kv) [S "element"; S "fragid"; S "ez_isomer_class"]) (na n);
                   nadj := map (fun wa => (fst wa, filter (fun kv => str_in (fst kv) [S "order"]) (snd wa))) (nadj n) |}) g.
Definition sAB := S "{[#A][#B]}.{#A=F/C(Cl)=[$],#B=[$]=C(Br)/I}".
Definition sBA := S "{[#B][#A]}.{#A=F/C(Cl)=[$],#B=[$]=C(Br)/I}".
Definition s2AB := S "{[#A][#B]}.{#A=F/[$],#B=[$]/C(Cl)=C(/Br)I}".
Definition s2BA := S "{[#B][#A]}.{#A=F/[$],#B=[$]/C(Cl)=C(/Br)I}".
Definition s3AB := S "{[#A][#B]}.{#A=F/[$],#B=[$]/C(/Cl)=C(/Br)I}".
Definition s3BA := S "{[#B][#A]}.{#A=F/[$],#B=[$]/C(/Cl)=C(/Br)I}".

(** the two strings differ ONLY in the order in which the base graph lists the two fragments; the molecule handed to
    the annotation step is the witness graph of EzWitness (fragid attribute: the coarse key since /repo fa307dd), and the
    returned molecule stores F...I as trans for one and as cis for the other *)
Theorem order_refuted_strings :
  exists o1 o2, resolve_string fo0 sAB = Ok o1 /\ resolve_string fo0 sBA = Ok o2 /\
    keep (fo_m5 o1) = w_AB /\ keep (fo_m5 o2) = w_BA /\
    wf_graphb (fo_m5 o1) = true /\ wf_graphb (fo_m5 o2) = true /\
    In (ez_tuple 0 1 3 5 v_trans) (ez_list (fo_mol o1) 0) /\
    In (ez_tuple (w_iso 0) (w_iso 1) (w_iso 3) (w_iso 5) v_cis) (ez_list (fo_mol o2) (w_iso 0)).
Proof.
  eexists. eexists. split; [vm_compute; reflexivity|]. split; [vm_compute; reflexivity|].
  repeat (split; [vm_compute; reflexivity|]). split; vm_compute; left; reflexivity.
Qed.
Theorem cutoff_order_refuted_strings :
  exists o1 o2, resolve_string fo0 s2AB = Ok o1 /\ resolve_string fo0 s2BA = Ok o2 /\
    keep (fo_m5 o1) = w2_AB /\ keep (fo_m5 o2) = w2_BA /\
    In (ez_tuple 0 1 3 4 v_trans) (ez_list (fo_mol o1) 0) /\
    In (ez_tuple (w2_iso 0) (w2_iso 1) (w2_iso 3) (w2_iso 4) v_cis) (ez_list (fo_mol o2) (w2_iso 0)).
Proof.
  eexists. eexists. split; [vm_compute; reflexivity|]. split; [vm_compute; reflexivity|].
  repeat (split; [vm_compute; reflexivity|]). split; vm_compute; left; reflexivity.
Qed.
Theorem cutoff_conflict_refuted_strings :
  (exists o1, resolve_string fo0 s3AB = Ok o1 /\ keep (fo_m5 o1) = w3_AB /\
              In (ez_tuple 0 1 3 4 v_trans) (ez_list (fo_mol o1) 0)) /\
  resolve_string fo0 s3BA = Err EValue.
Proof.
  split; [eexists; split; [vm_compute; reflexivity|]; split; [vm_compute; reflexivity|vm_compute; left; reflexivity]|].
  vm_compute. reflexivity.
Qed.
