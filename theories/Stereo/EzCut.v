(** EzCut: the cis/trans class resolve() STORES, read off the cut of the molecule (Compose's cut model: atoms, bonds,
    named parts in base-graph order) and the slash tokens of the fragment templates - for every molecule, every placement
    of the cuts, every order of the parts.

    [returned_class_geom]: every tuple the all-atom step adds to the returned graph is about four atoms lx - ax = ay - ly
    of the cut (ligands tagged with tokens tx, ty in their templates, bonded to the ends of a bond of order 2), stored at the
    returned keys K = (sort mapping) o phi, and its class is ALWAYS pysmiles' table applied to the POSITIONS of the four atoms
    in the concatenation of the parts ([wb] = comes earlier; the renumbering keeps the position order of any two atoms of
    the cut):  the geometric class of the marks read with [wb] as "written before", negated when the ligand of the
    second-enumerated anchor comes before its anchor.  Inside one part the position order IS the written order, so for
    ligands in the part of their anchors this is the geometric class of the marks as written, or its opposite in the open
    class second_anchor_ligand_lower; for a ligand cut off from its anchor the position order is the order of the PARTS in
    the base graph - the root cause of the open classes cut_off_ligand_key_order / _conflict_error.  The proof composes Compose's completion of a cut (keys, edges, hydrogens of
    the molecule handed to the sort), Resolve's sort_graph / sort_edge_get, the monotonicity of the renumbering inside a
    fragment (EzSortMono.sort_mono), Dialect's copy theorem for the attribute `ez_isomer_class`, and the pair / table
    theorems of EzProofs.
    [written_after_class]: ligands written after their anchors (outside all three open classes): the class is the
    geometric one.  [order_invariant_cut]: two runs on cuts that differ in the ORDER OF THE PARTS store the same class. *)
From Coq Require Import String.
From Coq Require Import List Ascii ZArith Bool Lia Permutation.
From CGV Require Import Base.PyBase Base.PyVal Base.NxGraph Resolve.Bonding Resolve.GraphOps Resolve.CopyProofs Resolve.Pipeline
     Resolve.PipelineFull Hydro.HydroDefs Stereo.EzImpl Stereo.EzDefs Stereo.EzProofs Stereo.EzBuilt Stereo.EzReturned Stereo.EzSortMono Stereo.EzRebuildOrder.
From CGV Require Import Compose.CutModel Compose.CutPos Compose.CutSkeleton Compose.CutHydrogens Compose.Completion Compose.CutIso
     Compose.OrderIndep Compose.ReturnedIso Compose.RelabelEdges Compose.PartPerm Compose.ComposeFlat Dialect.ReturnedAnnot.
From CGV Require Gen.HydroGen Hydro.Hydrogens Hydro.Squash Hydro.SquashDefs Hydro.RebuildProofs Resolve.SortGraphProofs Resolve.MapProofs.
Import ListNotations.
Open Scope Z_scope.

Definition ezk : pystr := S "ez_isomer_class".
Lemma ezk_carried : carried_key ezk.
Proof. repeat split; intros E; vm_compute in E; discriminate. Qed.

(** an added hydrogen carries no slash token *)
Lemma added_h_no_token a h : RebuildProofs.added_h_attrs HydroGen.rebuild_copy_attrs_default a h -> aget ezk h = None.
Proof. intros H. rewrite (H ezk). reflexivity. Qed.

Lemma path_ok_inv g l1 a1 a2 l2 : path_ok g l1 a1 a2 l2 = true ->
  has_node g l1 = true /\ has_node g a1 = true /\ has_node g a2 = true /\ has_node g l2 = true /\
  has_edge g a1 l1 = true /\ has_edge g a2 l2 = true /\ has_edge g a1 a2 = true /\
  is_two (edge_get g a1 a2 (S "order")) = true /\ l1 <> a1 /\ l1 <> a2 /\ l2 <> a1 /\ l2 <> a2.
Proof.
  unfold path_ok. intros H. repeat (apply andb_prop in H; destruct H as [H ?]).
  repeat match goal with X : negb (Z.eqb _ _) = true |- _ => apply negb_true_iff in X; apply Z.eqb_neq in X end.
  repeat split; assumption.
Qed.

(** positions: an atom of an earlier part comes first in the concatenation of the parts *)
Lemma firstn_len_mono (l : list (pystr * list Z)) : forall p q, (p <= q)%nat ->
  (length (concat (map snd (firstn p l))) <= length (concat (map snd (firstn q l))))%nat.
Proof.
  induction l as [|a r IH]; intros [|p] [|q] H; cbn; try lia. rewrite !app_length. specialize (IH p q). lia.
Qed.
Lemma owner_phi_lt C x y : NoDup (flat C) -> In x (flat C) -> In y (flat C) -> (owner C x < owner C y)%nat -> phi C x < phi C y.
Proof.
  intros ND Fx Fy H. destruct (owner_spec C ND x Fx) as (n1 & xs1 & i & E1 & Ni & P1). destruct (owner_spec C ND y Fy) as (n2 & xs2 & j & E2 & Nj & P2).
  rewrite P1, P2. assert (Li : (i < length xs1)%nat) by (apply nth_error_Some; congruence).
  pose proof (off_S C (owner C x) n1 xs1 E1) as OS.
  assert (L : (off C (Datatypes.S (owner C x)) <= off C (owner C y))%nat) by (unfold off; apply firstn_len_mono; lia).
  lia.
Qed.

Section EzCut.
  Variable C : cut.
  Hypothesis W : wf_cut C.
  Variable fd : fragdict.
  Hypothesis HT : templates_ok C fd.
  Hypothesis Hwfd : wf_dict fd.
  Variable B : graph.
  Hypothesis HB : is_base C B.
  Hypothesis Hat : heavy_payload C.
  Hypothesis Hnum : numeric_orders C.
  (** the slash token of an atom = attribute `ez_isomer_class` of its template node *)
  Variable tok : Z -> option pyval.
  Hypothesis Htok : forall name xs T i x n, In (name, xs) (c_parts C) -> fd_get name fd = Some T ->
    nth_error xs i = Some x -> gfind (Z.of_nat i) T = Some n -> aget ezk (na n) = tok x.
  Variables (prev : graph) (fo : full_out).
  Hypothesis HM : next_meta prev = B.
  (** one all-atom resolve(); the aromaticity transcript is the identity *)
  Hypothesis Step : resolve_step_full true true fd prev (Some (fo_m3 fo)) = Ok fo.

  (** written before: position in the concatenation of the parts (inside one part: the order of the text) *)
  Definition wb (l a : Z) : bool := phi C l <? phi C a.
  Definition geom (lx ax ay ly : Z) (tx ty : pyval) : bool := geom_cis (wb lx ax) tx (wb ly ay) ty.

  Let Hnd : NoDup (flat C) := wc_nodup C W.

  Lemma stages : exists m,
    completion C (fo_m3 fo) (fo_m4 fo) /\ sort_nodes_by_attr (fo_m4 fo) = Ok (fo_m5 fo) /\ sort_mapping (fo_m4 fo) = Ok m /\
    SortGraphProofs.inj_on (map_get m) (node_keys (fo_m4 fo)) /\
    node_keys (fo_m5 fo) = map (map_get m) (node_keys (fo_m4 fo)) /\
    (forall a b, In a (node_keys (fo_m4 fo)) -> In b (node_keys (fo_m4 fo)) ->
       has_edge (fo_m5 fo) (map_get m a) (map_get m b) = has_edge (fo_m4 fo) a b /\
       edge_get (fo_m5 fo) (map_get m a) (map_get m b) (S "order") = edge_get (fo_m4 fo) a b (S "order")) /\
    (forall k key, In k (node_keys (fo_m4 fo)) -> key <> S "ez_isomer_atoms" -> node_get (fo_m5 fo) (map_get m k) key = node_get (fo_m4 fo) k key) /\
    (forall x, In x (flat C) -> node_get (fo_m5 fo) (map_get m (phi C x)) ezk = tok x) /\
    (forall x, In x (flat C) -> node_get (fo_m4 fo) (phi C x) (S "fragid") = Some (VList [VInt (Z.of_nat (owner C x))])) /\
    (exists hs, node_keys (fo_m4 fo) = map Z.of_nat (seq 0 (length (flat C))) ++ hs).
  Proof.
    destruct (all_atom_step_inv _ _ _ _ _ Step) as (a1 & afg1 & afg2 & _ & Ea1 & Ea2 & Sa & Ra & So & _).
    rewrite HM in Ea1, Ea2.
    destruct (all_atom_side C fd B W HT HB Hat Hnum) as (a1' & afg1' & a2' & afg2' & Ea1' & Ea2' & Sa' & Ska & Ka).
    rewrite Ea1 in Ea1'. inversion Ea1'; subst a1' afg1'. rewrite Ea2 in Ea2'. inversion Ea2'; subst a2' afg2'.
    rewrite Sa in Sa'. inversion Sa' as [E3]. rewrite E3 in Ra. pose proof (Ka _ Ra) as K. rewrite <- E3 in K at 1.
    destruct (SortGraphProofs.sort_graph _ _ (cp_wf _ _ _ K) (cp_fragid _ _ _ K) So) as (m & Em & Inj & _ & Kh & E & A).
    pose proof (sort_edge_get _ _ (S "order") (cp_wf _ _ _ K) (cp_adj _ _ _ K) (cp_edn _ _ _ K) (cp_fragid _ _ _ K) So (cp_order_sym _ _ _ K) m Em) as O.
    exists m. split; [exact K|]. split; [exact So|]. split; [exact Em|]. split; [exact Inj|]. split; [exact Kh|].
    split; [intros a b Ha Hb; split; [now apply E|now apply O]|]. split; [exact A|]. split; [|split].
    - (* the token: Dialect's copy theorem for a carried key *)
      destruct (annotation_reaches_returned_graph C W fd HT Hwfd B HB Hat Hnum) as (b1 & bfg1 & b2 & bfg2 & Eb1 & Eb2 & _ & Hall).
      rewrite Ea1 in Eb1. inversion Eb1; subst b1 bfg1. rewrite Ea2 in Eb2. inversion Eb2; subst b2 bfg2.
      destruct (Hall _ _ Ra So) as (m' & Em' & _ & Hk). rewrite Em in Em'. inversion Em'; subst m'.
      intros x Fx. destruct (flat_inv C x Fx) as (p & name & xs & i & Ep & Ex).
      destruct (HT name xs (nth_error_In _ _ Ep)) as (T & Ef & IT).
      destruct (it_attrs _ _ _ _ IT i x Ex) as (a & Na & _). unfold node_attrs in Na.
      destruct (gfind (Z.of_nat i) T) as [n|] eqn:Gn; [|discriminate].
      destruct (Hk p name xs T i x n ezk Ep Ef Ex Gn ezk_carried) as [_ V]. rewrite V.
      exact (Htok name xs T i x n (nth_error_In _ _ Ep) Ef Ex Gn).
    - intros x Fx. destruct (cp_heavy _ _ _ K x Fx) as (n & n' & val & G & G' & _ & _ & _ & _ & At & _).
      unfold node_get. rewrite G', (At (S "fragid")) by (intros Q; vm_compute in Q; discriminate).
      rewrite E3 in G. destruct (sk_attrs _ _ _ Ska x Fx) as (Fid & _). unfold node_get in Fid. rewrite G in Fid. exact Fid.
    - (* the hydrogen step appends: the heavy atoms stay in position order *)
      assert (ND2 : NoDup (node_keys (fo_m2 fo))).
      { rewrite (sk_keys _ _ _ Ska). apply FinFun.Injective_map_NoDup; [intros a b Q; lia|apply seq_NoDup]. }
      destruct (rebuild_keys_prefix _ _ ND2 Ra) as [hs Eh]. exists hs. rewrite Eh, (sk_keys _ _ _ Ska). reflexivity.
  Qed.

  (** the class of a classified pair in terms of the two key-order flags *)
  Lemma pair_class x y c : pair_result (x, y) = Some c -> s_lig y <> s_anc y ->
    is_tok (s_tok x) = true /\ is_tok (s_tok y) = true /\ s_lig x <> s_anc x /\
    c = class_val (if flag y then negb (geom_cis (flag x) (s_tok x) (flag y) (s_tok y)) else geom_cis (flag x) (s_tok x) (flag y) (s_tok y)).
  Proof.
    intros H Ny. unfold pair_result in H. cbn [fst snd] in H. destruct (interpret_some_tok _ _ _ _ _ H) as (T1 & T2 & N).
    split; [exact T1|]. split; [exact T2|]. split; [exact N|].
    assert (PW : pair_wf (x, y)) by (repeat split; assumption).
    pose proof (pair_result_eq (x, y) PW) as R. unfold pair_result in R. cbn [fst snd] in R. rewrite H in R. inversion R as [R'].
    unfold pair_in_class, pair_geom, flag. cbn [fst snd]. destruct (s_lig y <? s_anc y); reflexivity.
  Qed.

  Theorem returned_class_geom : exists m, sort_mapping (fo_m4 fo) = Ok m /\
    SortGraphProofs.inj_on (map_get m) (node_keys (fo_m4 fo)) /\
    (forall x, In x (flat C) -> In (phi C x) (node_keys (fo_m4 fo))) /\
    forall k v, is_new (fo_m5 fo) (fo_mol fo) k v ->
    exists lx ax ay ly tx ty c,
      In lx (flat C) /\ In ax (flat C) /\ In ay (flat C) /\ In ly (flat C) /\
      tok lx = Some tx /\ tok ly = Some ty /\ is_tok tx = true /\ is_tok ty = true /\
      bonded C ax lx = true /\ bonded C ay ly = true /\ bonded C ax ay = true /\ is_two (result_order C ax ay) = true /\
      lx <> ax /\ lx <> ay /\ ly <> ay /\ ly <> ax /\
      (v = ez_tuple (map_get m (phi C lx)) (map_get m (phi C ax)) (map_get m (phi C ay)) (map_get m (phi C ly)) c \/
       v = ez_tuple (map_get m (phi C ly)) (map_get m (phi C ay)) (map_get m (phi C ax)) (map_get m (phi C lx)) c) /\
      phi C ax < phi C ay /\
      c = class_val (if wb ly ay then negb (geom lx ax ay ly tx ty) else geom lx ax ay ly tx ty).
  Proof.
    destruct stages as (m & K & So & Em & Inj & Kh & E & A & Tk & Fid & (hs & Ord)).
    pose proof (SquashDefs.wf_nodup _ (cp_wf _ _ _ K)) as ND4.
    assert (Hheavy : forall x, In x (flat C) -> In (phi C x) (node_keys (fo_m4 fo))).
    { intros x Fx. apply MapProofs.gfind_has. apply (cp_keys _ _ _ K). left. eauto. }
    exists m. split; [exact Em|]. split; [exact Inj|]. split; [exact Hheavy|].
    intros k v Hnew.
    destruct (returned_class_of_pair _ _ _ _ _ Step k v Hnew) as (ps & x & y & c & Hps & Hin & Hres & Hv).
    pose proof (sorted_wf _ _ So) as W5. pose proof (wf_keys _ W5) as ND5.
    destruct (pair_path _ _ _ _ _ W5 Hps Hin) as [P1 _].
    apply path_ok_inv in P1 as (H9 & H8 & H7 & H6 & H5 & H4 & H3 & H2 & D1 & D2 & D3 & D4).
    (* the tokens *)
    unfold all_pairs in Hps. destruct (all_pairs_of_in _ _ _ _ _ Hps Hin) as ([[a1 a2] d] & ps' & Hed & Hep & Hin').
    destruct (edge_pairs_in _ _ _ _ _ _ _ _ Hep Hin') as (_ & Ix & Iy).
    destruct (on_anchor_in _ _ _ _ _ Ix) as (Ax1 & _ & _ & _ & Tx). destruct (on_anchor_in _ _ _ _ _ Iy) as (Ay2 & _ & _ & _ & Ty).
    apply (ez_get_node_get _ _ _ ND5) in Tx. apply (ez_get_node_get _ _ _ ND5) in Ty.
    (* preimages of the four keys under the renumbering *)
    assert (Pre : forall q, has_node (fo_m5 fo) q = true -> exists a, In a (node_keys (fo_m4 fo)) /\ q = map_get m a).
    { intros q Hq. apply MapProofs.gfind_has in Hq. rewrite Kh in Hq. apply in_map_iff in Hq as (a & <- & Ha). eauto. }
    assert (Tagged : forall a t, In a (node_keys (fo_m4 fo)) -> node_get (fo_m5 fo) (map_get m a) ezk = Some t ->
                     exists z, In z (flat C) /\ a = phi C z /\ tok z = Some t).
    { intros a t Ha Ht. apply MapProofs.gfind_has in Ha. apply (cp_keys _ _ _ K) in Ha as [(z & Fz & ->)|(z & Fz & Hj)].
      - exists z. split; [exact Fz|]. split; [reflexivity|]. now rewrite <- (Tk z Fz).
      - exfalso. destruct (cp_heavy _ _ _ K z Fz) as (n & n' & val & _ & _ & _ & _ & _ & _ & _ & Hh).
        destruct (Hh a Hj) as (_ & h & Gh & _ & _ & Add).
        rewrite A in Ht; [|apply MapProofs.gfind_has; unfold has_node; now rewrite Gh|intros Q; vm_compute in Q; discriminate].
        unfold node_get in Ht. rewrite Gh, (added_h_no_token _ _ Add) in Ht. discriminate. }
    assert (Anchor : forall a b, In a (node_keys (fo_m4 fo)) -> is_two (edge_get (fo_m4 fo) a b (S "order")) = true ->
                     exists z, In z (flat C) /\ a = phi C z).
    { intros a b Ha Hq. apply MapProofs.gfind_has in Ha. apply (cp_keys _ _ _ K) in Ha as [(z & Fz & ->)|(z & Fz & Hj)]; [eauto|].
      exfalso. destruct (cp_heavy _ _ _ K z Fz) as (n & n' & val & _ & _ & _ & _ & _ & _ & _ & Hh).
      destruct (Hh a Hj) as (_ & h & Gh & Adj & _ & _).
      unfold edge_get, edge_attrs in Hq. rewrite Gh, Adj in Hq. cbn in Hq. destruct (Z.eqb (phi C z) b); cbn in Hq; discriminate. }
    destruct (Pre _ H9) as (la & Hla & Ela). destruct (Pre _ H8) as (aa & Haa & Eaa).
    destruct (Pre _ H7) as (ab & Hab & Eab). destruct (Pre _ H6) as (lb & Hlb & Elb).
    rewrite Ela in Tx. rewrite Elb in Ty.
    destruct (Tagged la _ Hla Tx) as (lx & Flx & -> & Tlx). destruct (Tagged lb _ Hlb Ty) as (ly & Fly & -> & Tly).
    rewrite Eaa, Eab in H2. destruct (E aa ab Haa Hab) as [E1 O1]. rewrite O1 in H2.
    destruct (Anchor aa ab Haa H2) as (ax & Fax & ->).
    rewrite (cp_order_sym _ _ _ K) in H2. destruct (Anchor ab _ Hab H2) as (ay & Fay & ->).
    rewrite (cp_order_sym _ _ _ K) in H2.
    destruct (cp_edge_heavy _ _ _ K ax ay Fax Fay) as [Bxy Oxy]. rewrite Oxy in H2.
    rewrite Eaa, Eab, E1, Bxy in H3.
    rewrite Eaa, Ela in H5. destruct (E _ _ (Hheavy ax Fax) (Hheavy lx Flx)) as [E2 _]. rewrite E2 in H5.
    destruct (cp_edge_heavy _ _ _ K ax lx Fax Flx) as [Bx _]. rewrite Bx in H5.
    rewrite Eab, Elb in H4. destruct (E _ _ (Hheavy ay Fay) (Hheavy ly Fly)) as [E3 _]. rewrite E3 in H4.
    destruct (cp_edge_heavy _ _ _ K ay ly Fay Fly) as [By _]. rewrite By in H4.
    rewrite Ela, Eaa, Eab, Elb in *.
    assert (Ny : s_lig y <> s_anc y) by (rewrite Elb, Eab; assumption).
    destruct (pair_class x y c Hres Ny) as (T1 & T2 & Nx & Hc).
    (* the edge is enumerated from the anchor that comes first in the node order = the earlier position *)
    assert (First : phi C ax < phi C ay).
    { destruct (Z.lt_trichotomy (phi C ax) (phi C ay)) as [L|[Q|L]]; [exact L| |].
      - exfalso. apply (phi_inj C ax ay Fax Fay) in Q. subst ay.
        pose proof (SquashDefs.wf_loopfree _ (cp_wf _ _ _ K) (phi C ax)) as LF. rewrite Bxy in LF. congruence.
      - exfalso. unfold edges_data in Hed. apply (proj1 (SortGraphProofs.edges_from_iff _ _ _ _ _)) in Hed as (pre & n & post & Eg & Kn & _ & _ & Npre).
        rewrite <- Ax1 in Kn. rewrite <- Ay2 in Npre. apply Npre.
        assert (Kg : node_keys (fo_m5 fo) = node_keys pre ++ map_get m (phi C ax) :: node_keys post).
        { rewrite Eg. unfold node_keys. rewrite map_app. cbn [map]. now rewrite Kn. }
        apply (before_in_front (map_get m (phi C ay)) (map_get m (phi C ax)) (node_keys pre) (node_keys post)); [rewrite <- Kg; exact ND5|].
        rewrite <- Kg, Kh, Ord. apply (before_map (map_get m)). apply before_app_l.
        pose proof (phi_range C ax Fax) as R1. pose proof (phi_range C ay Fay) as R2.
        replace (phi C ay) with (Z.of_nat (Z.to_nat (phi C ay))) by lia. replace (phi C ax) with (Z.of_nat (Z.to_nat (phi C ax))) by lia.
        apply seq_before; lia. }
    exists lx, ax, ay, ly, (s_tok x), (s_tok y), c.
    repeat (split; [first [assumption | intros ->; congruence]|]).
    (* the renumbering keeps the position order of any two atoms of the cut *)
    assert (KO : forall u w, In u (flat C) -> In w (flat C) -> (phi C u <? phi C w) = (map_get m (phi C u) <? map_get m (phi C w))).
    { intros u w Fu Fw. pose proof (Fid u Fu) as F1. pose proof (Fid w Fw) as F2.
      destruct (lt_eq_lt_dec (owner C u) (owner C w)) as [[L|E0]|L].
      - pose proof (owner_phi_lt C u w Hnd Fu Fw L) as P.
        pose proof (sort_mono_frag _ _ _ _ _ _ Em ND4 (cp_fragid _ _ _ K) F1 F2 ltac:(lia)) as Q.
        destruct (Z.ltb_spec (phi C u) (phi C w)), (Z.ltb_spec (map_get m (phi C u)) (map_get m (phi C w))); try lia; reflexivity.
      - rewrite E0 in F1. exact (sort_mono _ _ _ _ _ Em ND4 (cp_fragid _ _ _ K) F1 F2).
      - pose proof (owner_phi_lt C w u Hnd Fw Fu L) as P.
        pose proof (sort_mono_frag _ _ _ _ _ _ Em ND4 (cp_fragid _ _ _ K) F2 F1 ltac:(lia)) as Q.
        destruct (Z.ltb_spec (phi C u) (phi C w)), (Z.ltb_spec (map_get m (phi C u)) (map_get m (phi C w))); try lia; reflexivity. }
    rewrite Hc. unfold geom, wb, flag. rewrite Ela, Eaa, Eab, Elb.
    rewrite <- (KO lx ax Flx Fax), <- (KO ly ay Fly Fay). reflexivity.
  Qed.
End EzCut.

(** ---------------------------------------------------------------- corollaries *)
Lemma ez_tuple_inj l a a' l' c m b b' m' c' : ez_tuple l a a' l' c = ez_tuple m b b' m' c' ->
  l = m /\ a = b /\ a' = b' /\ l' = m' /\ c = c'.
Proof. unfold ez_tuple. intros H. inversion H. auto. Qed.

(** OUTSIDE THE THREE OPEN CLASSES - neither ligand cut off from its anchor, both ligands written after their anchors -
    the class stored for the four atoms lx - ax = ay - ly is the geometric class of the two tokens *)
Theorem written_after_class C (W : wf_cut C) fd (HT : templates_ok C fd) (Hwfd : wf_dict fd) B (HB : is_base C B)
  (Hat : heavy_payload C) (Hnum : numeric_orders C) tok
  (Htok : forall name xs T i x n, In (name, xs) (c_parts C) -> fd_get name fd = Some T ->
     nth_error xs i = Some x -> gfind (Z.of_nat i) T = Some n -> aget ezk (na n) = tok x)
  prev fo (HM : next_meta prev = B) (Step : resolve_step_full true true fd prev (Some (fo_m3 fo)) = Ok fo) :
  exists m, sort_mapping (fo_m4 fo) = Ok m /\
    forall lx ax ay ly c k, In lx (flat C) -> In ax (flat C) -> In ay (flat C) -> In ly (flat C) ->
      is_new (fo_m5 fo) (fo_mol fo) k
        (ez_tuple (map_get m (phi C lx)) (map_get m (phi C ax)) (map_get m (phi C ay)) (map_get m (phi C ly)) c) ->
      owner C lx = owner C ax -> owner C ly = owner C ay -> wb C lx ax = false -> wb C ly ay = false ->
      exists tx ty, tok lx = Some tx /\ tok ly = Some ty /\ is_tok tx = true /\ is_tok ty = true /\
        c = class_val (geom_cis false tx false ty).
Proof.
  destruct (returned_class_geom C W fd HT Hwfd B HB Hat Hnum tok Htok prev fo HM Step) as (m & Em & Inj & Hh & Hall).
  exists m. split; [exact Em|]. intros lx ax ay ly c k Flx Fax Fay Fly Hnew Ox Oy Wx Wy.
  destruct (Hall k _ Hnew) as (lx' & ax' & ay' & ly' & tx & ty & c' & F1 & F2 & F3 & F4 & T1 & T2 & K1 & K2 & _ & _ & _ & _ & _ & _ & _ & _ & Hv & _ & Hc).
  assert (Eq : forall u w, In u (flat C) -> In w (flat C) -> map_get m (phi C u) = map_get m (phi C w) -> u = w).
  { intros u w Fu Fw E. apply (phi_inj C u w Fu Fw). apply Inj; auto. }
  destruct Hv as [Hv|Hv]; apply ez_tuple_inj in Hv as (E1 & E2 & E3 & E4 & <-).
  - apply Eq in E1, E2, E3, E4; auto. subst lx' ax' ay' ly'.
    exists tx, ty. repeat (split; [assumption|]). rewrite Hc. unfold geom. now rewrite Wx, Wy.
  - apply Eq in E1, E2, E3, E4; auto. subst lx' ax' ay' ly'.
    exists ty, tx. repeat (split; [assumption|]). rewrite Hc. unfold geom. rewrite Wx, Wy. f_equal. apply geom_cis_sym.
Qed.

(** being in one part, and the written order inside a part, do not depend on the order of the parts *)
Lemma wb_pperm C1 C2 l a : wf_cut C1 -> pperm C1 C2 -> In l (flat C1) -> In a (flat C1) -> owner C1 l = owner C1 a ->
  owner C2 l = owner C2 a /\ wb C2 l a = wb C1 l a.
Proof.
  intros W1 PP Fl Fa Ow. pose proof (pperm_wf C1 C2 W1 PP) as W2.
  destruct (owner_spec C1 (wc_nodup _ W1) l Fl) as (name & xs & i & Ep & Ei & Pi).
  destruct (owner_spec C1 (wc_nodup _ W1) a Fa) as (name' & xs' & j & Ep' & Ej & Pj).
  rewrite <- Ow in Ep'. rewrite Ep in Ep'. inversion Ep'; subst name' xs'. rewrite <- Ow in Pj.
  assert (I2 : In (name, xs) (c_parts C2)).
  { apply (Permutation_in _ (Permutation_sym (pp_parts _ _ PP))). eapply nth_error_In; eauto. }
  apply In_nth_error in I2 as [p2 Ep2].
  destruct (phi_part C2 (wc_nodup _ W2) p2 name xs i l Ep2 Ei) as [Q1 O1].
  destruct (phi_part C2 (wc_nodup _ W2) p2 name xs j a Ep2 Ej) as [Q2 O2].
  split; [congruence|]. unfold wb. rewrite Q1, Q2, Pi, Pj.
  destruct (Z.ltb_spec (Z.of_nat (off C2 p2 + i)) (Z.of_nat (off C2 p2 + j))), (Z.ltb_spec (Z.of_nat (off C1 (owner C1 l) + i)) (Z.of_nat (off C1 (owner C1 l) + j))); lia.
Qed.

(** "does not depend on the order in which the base graph lists the fragments": two resolve() calls on two base graphs that
    list the parts of the same cut in different orders (the same fragment definitions).  Outside the three open classes the
    class stored for the same four atoms is the same. *)
Theorem order_invariant_cut C1 C2 fd B1 B2 tok prev1 prev2 fo1 fo2 :
  wf_cut C1 -> pperm C1 C2 -> templates_ok C1 fd -> wf_dict fd -> is_base C1 B1 -> is_base C2 B2 ->
  heavy_payload C1 -> numeric_orders C1 ->
  (forall name xs T i x n, In (name, xs) (c_parts C1) -> fd_get name fd = Some T ->
     nth_error xs i = Some x -> gfind (Z.of_nat i) T = Some n -> aget ezk (na n) = tok x) ->
  next_meta prev1 = B1 -> next_meta prev2 = B2 ->
  resolve_step_full true true fd prev1 (Some (fo_m3 fo1)) = Ok fo1 -> resolve_step_full true true fd prev2 (Some (fo_m3 fo2)) = Ok fo2 ->
  exists m1 m2, sort_mapping (fo_m4 fo1) = Ok m1 /\ sort_mapping (fo_m4 fo2) = Ok m2 /\
    forall lx ax ay ly c1 c2 k1 k2, In lx (flat C1) -> In ax (flat C1) -> In ay (flat C1) -> In ly (flat C1) ->
      owner C1 lx = owner C1 ax -> owner C1 ly = owner C1 ay -> wb C1 lx ax = false -> wb C1 ly ay = false ->
      is_new (fo_m5 fo1) (fo_mol fo1) k1
        (ez_tuple (map_get m1 (phi C1 lx)) (map_get m1 (phi C1 ax)) (map_get m1 (phi C1 ay)) (map_get m1 (phi C1 ly)) c1) ->
      is_new (fo_m5 fo2) (fo_mol fo2) k2
        (ez_tuple (map_get m2 (phi C2 lx)) (map_get m2 (phi C2 ax)) (map_get m2 (phi C2 ay)) (map_get m2 (phi C2 ly)) c2) ->
      c1 = c2.
Proof.
  intros W1 PP HT Hwfd HB1 HB2 Hat Hnum Htok HM1 HM2 S1 S2. pose proof (pperm_wf C1 C2 W1 PP) as W2.
  assert (Htok2 : forall name xs T i x n, In (name, xs) (c_parts C2) -> fd_get name fd = Some T ->
     nth_error xs i = Some x -> gfind (Z.of_nat i) T = Some n -> aget ezk (na n) = tok x).
  { intros name xs T i x n I. apply Htok. apply (Permutation_in _ (pp_parts _ _ PP) I). }
  destruct (written_after_class C1 W1 fd HT Hwfd B1 HB1 Hat Hnum tok Htok prev1 fo1 HM1 S1) as (m1 & Em1 & H1).
  destruct (written_after_class C2 W2 fd (pp_templates C1 C2 W1 PP fd HT) Hwfd B2 HB2 (heavy_payload_pp _ _ PP Hat) (numeric_orders_pp _ _ PP Hnum)
              tok Htok2 prev2 fo2 HM2 S2) as (m2 & Em2 & H2).
  exists m1, m2. split; [exact Em1|]. split; [exact Em2|].
  intros lx ax ay ly c1 c2 k1 k2 Flx Fax Fay Fly Ox Oy Wx Wy N1 N2.
  destruct (wb_pperm C1 C2 lx ax W1 PP Flx Fax Ox) as [Ox2 Wx2]. destruct (wb_pperm C1 C2 ly ay W1 PP Fly Fay Oy) as [Oy2 Wy2].
  rewrite Wx in Wx2. rewrite Wy in Wy2.
  destruct (H1 lx ax ay ly c1 k1 Flx Fax Fay Fly N1 Ox Oy Wx Wy) as (tx & ty & T1 & T2 & _ & _ & ->).
  pose proof (proj2 (pp_flat_in C1 C2 PP lx) Flx) as Glx. pose proof (proj2 (pp_flat_in C1 C2 PP ax) Fax) as Gax.
  pose proof (proj2 (pp_flat_in C1 C2 PP ay) Fay) as Gay. pose proof (proj2 (pp_flat_in C1 C2 PP ly) Fly) as Gly.
  destruct (H2 lx ax ay ly c2 k2 Glx Gax Gay Gly N2 Ox2 Oy2 Wx2 Wy2) as (tx' & ty' & T1' & T2' & _ & _ & ->).
  congruence.
Qed.

(** ---------------------------------------------------------------- the stored class as an explicit function of the cut *)
Lemma up_tok_of u b : up b (tok_of u b) = u.
Proof. unfold up, tok_of. destruct u, b; reflexivity. Qed.
Lemma geom_cis_sides u1 b1 u2 b2 : geom_cis b1 (tok_of u1 b1) b2 (tok_of u2 b2) = Bool.eqb u1 u2.
Proof. unfold geom_cis. now rewrite !up_tok_of. Qed.

(** the ligand of the LATER anchor (position order) comes after its anchor *)
Definition late_after (C : cut) (lx ax ay ly : Z) : bool :=
  if phi C ax <? phi C ay then negb (wb C ly ay) else negb (wb C lx ax).

(** for ANY four atoms of the cut: if a tuple about them is stored (either of the two mirrored forms), its class is the
    table value on their positions; with tokens that say "side ux / uy" for the position order (inside a part: the tokens
    OpenSMILES prescribes for those sides) the stored class is the TRUE relation (cis iff same side) exactly when the
    ligand of the later anchor comes after it, and the opposite otherwise *)
Theorem stored_class_sides C (W : wf_cut C) fd (HT : templates_ok C fd) (Hwfd : wf_dict fd) B (HB : is_base C B)
  (Hat : heavy_payload C) (Hnum : numeric_orders C) tok
  (Htok : forall name xs T i x n, In (name, xs) (c_parts C) -> fd_get name fd = Some T ->
     nth_error xs i = Some x -> gfind (Z.of_nat i) T = Some n -> aget ezk (na n) = tok x)
  prev fo (HM : next_meta prev = B) (Step : resolve_step_full true true fd prev (Some (fo_m3 fo)) = Ok fo) :
  exists m, sort_mapping (fo_m4 fo) = Ok m /\
    forall lx ax ay ly ux uy c k, In lx (flat C) -> In ax (flat C) -> In ay (flat C) -> In ly (flat C) ->
      is_new (fo_m5 fo) (fo_mol fo) k
        (ez_tuple (map_get m (phi C lx)) (map_get m (phi C ax)) (map_get m (phi C ay)) (map_get m (phi C ly)) c) ->
      tok lx = Some (tok_of ux (wb C lx ax)) -> tok ly = Some (tok_of uy (wb C ly ay)) ->
      c = class_val (if late_after C lx ax ay ly then Bool.eqb ux uy else negb (Bool.eqb ux uy)).
Proof.
  destruct (returned_class_geom C W fd HT Hwfd B HB Hat Hnum tok Htok prev fo HM Step) as (m & Em & Inj & Hh & Hall).
  exists m. split; [exact Em|]. intros lx ax ay ly ux uy c k Flx Fax Fay Fly Hnew Tx Ty.
  destruct (Hall k _ Hnew) as (lx' & ax' & ay' & ly' & tx & ty & c' & F1 & F2 & F3 & F4 & T1 & T2 & _ & _ & _ & _ & _ & _ & _ & _ & _ & _ & Hv & Hlt & Hc).
  assert (Eq : forall u w, In u (flat C) -> In w (flat C) -> map_get m (phi C u) = map_get m (phi C w) -> u = w).
  { intros u w Fu Fw E. apply (phi_inj C u w Fu Fw). apply Inj; auto. }
  unfold late_after.
  destruct Hv as [Hv|Hv]; apply ez_tuple_inj in Hv as (E1 & E2 & E3 & E4 & <-).
  - apply Eq in E1, E2, E3, E4; auto. subst lx' ax' ay' ly'. rewrite Tx in T1. rewrite Ty in T2. inversion T1; inversion T2; subst tx ty.
    rewrite (proj2 (Z.ltb_lt _ _) Hlt), Hc. unfold geom. rewrite geom_cis_sides. destruct (wb C ly ay); reflexivity.
  - apply Eq in E1, E2, E3, E4; auto. subst lx' ax' ay' ly'. rewrite Ty in T1. rewrite Tx in T2. inversion T1; inversion T2; subst tx ty.
    assert (G : (phi C ax <? phi C ay) = false) by (apply Z.ltb_ge; lia).
    rewrite G, Hc. unfold geom. rewrite geom_cis_sides. destruct ux, uy, (wb C lx ax); reflexivity.
Qed.

(** ez_cut_invariant: ANY two cuts of the molecule (one fragment, cut at the double bond, cut elsewhere, any part order) whose
    tokens say the same sides store the same class for the same four atoms - the true relation - as long as, in each of them,
    the ligand of the later anchor comes after its anchor (outside the open classes) *)
Theorem cut_invariant C1 C2 fd1 fd2 B1 B2 tok1 tok2 prev1 prev2 fo1 fo2 :
  wf_cut C1 -> templates_ok C1 fd1 -> wf_dict fd1 -> is_base C1 B1 -> heavy_payload C1 -> numeric_orders C1 ->
  wf_cut C2 -> templates_ok C2 fd2 -> wf_dict fd2 -> is_base C2 B2 -> heavy_payload C2 -> numeric_orders C2 ->
  (forall name xs T i x n, In (name, xs) (c_parts C1) -> fd_get name fd1 = Some T ->
     nth_error xs i = Some x -> gfind (Z.of_nat i) T = Some n -> aget ezk (na n) = tok1 x) ->
  (forall name xs T i x n, In (name, xs) (c_parts C2) -> fd_get name fd2 = Some T ->
     nth_error xs i = Some x -> gfind (Z.of_nat i) T = Some n -> aget ezk (na n) = tok2 x) ->
  next_meta prev1 = B1 -> next_meta prev2 = B2 ->
  resolve_step_full true true fd1 prev1 (Some (fo_m3 fo1)) = Ok fo1 -> resolve_step_full true true fd2 prev2 (Some (fo_m3 fo2)) = Ok fo2 ->
  exists m1 m2, sort_mapping (fo_m4 fo1) = Ok m1 /\ sort_mapping (fo_m4 fo2) = Ok m2 /\
    forall lx ax ay ly ux uy c1 c2 k1 k2,
      In lx (flat C1) -> In ax (flat C1) -> In ay (flat C1) -> In ly (flat C1) ->
      In lx (flat C2) -> In ax (flat C2) -> In ay (flat C2) -> In ly (flat C2) ->
      tok1 lx = Some (tok_of ux (wb C1 lx ax)) -> tok1 ly = Some (tok_of uy (wb C1 ly ay)) ->
      tok2 lx = Some (tok_of ux (wb C2 lx ax)) -> tok2 ly = Some (tok_of uy (wb C2 ly ay)) ->
      late_after C1 lx ax ay ly = true -> late_after C2 lx ax ay ly = true ->
      is_new (fo_m5 fo1) (fo_mol fo1) k1
        (ez_tuple (map_get m1 (phi C1 lx)) (map_get m1 (phi C1 ax)) (map_get m1 (phi C1 ay)) (map_get m1 (phi C1 ly)) c1) ->
      is_new (fo_m5 fo2) (fo_mol fo2) k2
        (ez_tuple (map_get m2 (phi C2 lx)) (map_get m2 (phi C2 ax)) (map_get m2 (phi C2 ay)) (map_get m2 (phi C2 ly)) c2) ->
      c1 = class_val (Bool.eqb ux uy) /\ c2 = class_val (Bool.eqb ux uy).
Proof.
  intros W1 HT1 D1 HB1 Hat1 Hn1 W2 HT2 D2 HB2 Hat2 Hn2 Htok1 Htok2 HM1 HM2 S1 S2.
  destruct (stored_class_sides C1 W1 fd1 HT1 D1 B1 HB1 Hat1 Hn1 tok1 Htok1 prev1 fo1 HM1 S1) as (m1 & Em1 & H1).
  destruct (stored_class_sides C2 W2 fd2 HT2 D2 B2 HB2 Hat2 Hn2 tok2 Htok2 prev2 fo2 HM2 S2) as (m2 & Em2 & H2).
  exists m1, m2. split; [exact Em1|]. split; [exact Em2|].
  intros lx ax ay ly ux uy c1 c2 k1 k2 F1 F2 F3 F4 G1 G2 G3 G4 T1 T2 T3 T4 L1 L2 N1 N2.
  pose proof (H1 lx ax ay ly ux uy c1 k1 F1 F2 F3 F4 N1 T1 T2) as R1. rewrite L1 in R1.
  pose proof (H2 lx ax ay ly ux uy c2 k2 G1 G2 G3 G4 N2 T3 T4) as R2. rewrite L2 in R2. auto.
Qed.

(** ---------------------------------------------------------------- ONE BIT: the stored class depends on the cut only through
    whether the ligand of the EARLIER anchor comes before it *)
Definition early_before (C : cut) (lx ax ay ly : Z) : bool :=
  if phi C ax <? phi C ay then wb C lx ax else wb C ly ay.
Lemma table_bit (f g sx sy : bool) :
  (if g then negb (Bool.eqb (xorb sx f) (xorb sy g)) else Bool.eqb (xorb sx f) (xorb sy g)) = negb (xorb (xorb sx sy) f).
Proof. destruct f, g, sx, sy; reflexivity. Qed.

Theorem stored_class_bit C (W : wf_cut C) fd (HT : templates_ok C fd) (Hwfd : wf_dict fd) B (HB : is_base C B)
  (Hat : heavy_payload C) (Hnum : numeric_orders C) tok
  (Htok : forall name xs T i x n, In (name, xs) (c_parts C) -> fd_get name fd = Some T ->
     nth_error xs i = Some x -> gfind (Z.of_nat i) T = Some n -> aget ezk (na n) = tok x)
  prev fo (HM : next_meta prev = B) (Step : resolve_step_full true true fd prev (Some (fo_m3 fo)) = Ok fo) :
  exists m, sort_mapping (fo_m4 fo) = Ok m /\
    forall lx ax ay ly c k, In lx (flat C) -> In ax (flat C) -> In ay (flat C) -> In ly (flat C) ->
      is_new (fo_m5 fo) (fo_mol fo) k
        (ez_tuple (map_get m (phi C lx)) (map_get m (phi C ax)) (map_get m (phi C ay)) (map_get m (phi C ly)) c) ->
      exists tx ty, tok lx = Some tx /\ tok ly = Some ty /\ is_tok tx = true /\ is_tok ty = true /\
        c = class_val (negb (xorb (xorb (is_slash tx) (is_slash ty)) (early_before C lx ax ay ly))).
Proof.
  destruct (returned_class_geom C W fd HT Hwfd B HB Hat Hnum tok Htok prev fo HM Step) as (m & Em & Inj & Hh & Hall).
  exists m. split; [exact Em|]. intros lx ax ay ly c k Flx Fax Fay Fly Hnew.
  destruct (Hall k _ Hnew) as (lx' & ax' & ay' & ly' & tx & ty & c' & F1 & F2 & F3 & F4 & T1 & T2 & K1 & K2 & _ & _ & _ & _ & _ & _ & _ & _ & Hv & Hlt & Hc).
  assert (Eq : forall u w, In u (flat C) -> In w (flat C) -> map_get m (phi C u) = map_get m (phi C w) -> u = w).
  { intros u w Fu Fw E. apply (phi_inj C u w Fu Fw). apply Inj; auto. }
  unfold early_before.
  destruct Hv as [Hv|Hv]; apply ez_tuple_inj in Hv as (E1 & E2 & E3 & E4 & <-).
  - apply Eq in E1, E2, E3, E4; auto. subst lx' ax' ay' ly'. exists tx, ty. repeat (split; [assumption|]).
    rewrite (proj2 (Z.ltb_lt _ _) Hlt), Hc. unfold geom, geom_cis, up. f_equal. apply table_bit.
  - apply Eq in E1, E2, E3, E4; auto. subst lx' ax' ay' ly'. exists ty, tx. repeat (split; [assumption|]).
    assert (G : (phi C ax <? phi C ay) = false) by (apply Z.ltb_ge; lia).
    rewrite G, Hc. unfold geom, geom_cis, up. f_equal. rewrite table_bit. f_equal. f_equal. apply xorb_comm.
Qed.

(** exactness at the level of cuts: two cuts of a molecule that carry the same two tokens on the two ligands store the same
    class for the four atoms IF AND ONLY IF they agree on that bit (this is the whole content of the three open classes as far
    as stored classes go: part order and cut placement matter exactly through [early_before]) *)
Theorem order_dependence_exact C1 C2 fd1 fd2 B1 B2 tok1 tok2 prev1 prev2 fo1 fo2 :
  wf_cut C1 -> templates_ok C1 fd1 -> wf_dict fd1 -> is_base C1 B1 -> heavy_payload C1 -> numeric_orders C1 ->
  wf_cut C2 -> templates_ok C2 fd2 -> wf_dict fd2 -> is_base C2 B2 -> heavy_payload C2 -> numeric_orders C2 ->
  (forall name xs T i x n, In (name, xs) (c_parts C1) -> fd_get name fd1 = Some T ->
     nth_error xs i = Some x -> gfind (Z.of_nat i) T = Some n -> aget ezk (na n) = tok1 x) ->
  (forall name xs T i x n, In (name, xs) (c_parts C2) -> fd_get name fd2 = Some T ->
     nth_error xs i = Some x -> gfind (Z.of_nat i) T = Some n -> aget ezk (na n) = tok2 x) ->
  next_meta prev1 = B1 -> next_meta prev2 = B2 ->
  resolve_step_full true true fd1 prev1 (Some (fo_m3 fo1)) = Ok fo1 -> resolve_step_full true true fd2 prev2 (Some (fo_m3 fo2)) = Ok fo2 ->
  exists m1 m2, sort_mapping (fo_m4 fo1) = Ok m1 /\ sort_mapping (fo_m4 fo2) = Ok m2 /\
    forall lx ax ay ly c1 c2 k1 k2,
      In lx (flat C1) -> In ax (flat C1) -> In ay (flat C1) -> In ly (flat C1) ->
      In lx (flat C2) -> In ax (flat C2) -> In ay (flat C2) -> In ly (flat C2) ->
      tok1 lx = tok2 lx -> tok1 ly = tok2 ly ->
      is_new (fo_m5 fo1) (fo_mol fo1) k1
        (ez_tuple (map_get m1 (phi C1 lx)) (map_get m1 (phi C1 ax)) (map_get m1 (phi C1 ay)) (map_get m1 (phi C1 ly)) c1) ->
      is_new (fo_m5 fo2) (fo_mol fo2) k2
        (ez_tuple (map_get m2 (phi C2 lx)) (map_get m2 (phi C2 ax)) (map_get m2 (phi C2 ay)) (map_get m2 (phi C2 ly)) c2) ->
      (c1 = c2 <-> early_before C1 lx ax ay ly = early_before C2 lx ax ay ly).
Proof.
  intros W1 HT1 D1 HB1 Hat1 Hn1 W2 HT2 D2 HB2 Hat2 Hn2 Htok1 Htok2 HM1 HM2 S1 S2.
  destruct (stored_class_bit C1 W1 fd1 HT1 D1 B1 HB1 Hat1 Hn1 tok1 Htok1 prev1 fo1 HM1 S1) as (m1 & Em1 & H1).
  destruct (stored_class_bit C2 W2 fd2 HT2 D2 B2 HB2 Hat2 Hn2 tok2 Htok2 prev2 fo2 HM2 S2) as (m2 & Em2 & H2).
  exists m1, m2. split; [exact Em1|]. split; [exact Em2|].
  intros lx ax ay ly c1 c2 k1 k2 F1 F2 F3 F4 G1 G2 G3 G4 Tx Ty N1 N2.
  destruct (H1 lx ax ay ly c1 k1 F1 F2 F3 F4 N1) as (tx & ty & T1 & T2 & _ & _ & ->).
  destruct (H2 lx ax ay ly c2 k2 G1 G2 G3 G4 N2) as (tx' & ty' & T1' & T2' & _ & _ & ->).
  assert (tx' = tx) by congruence. assert (ty' = ty) by congruence. subst tx' ty'.
  destruct (early_before C1 lx ax ay ly), (early_before C2 lx ax ay ly), (is_slash tx), (is_slash ty); cbn;
    split; intros Q; try reflexivity; try discriminate Q; exfalso; vm_compute in Q; discriminate Q.
Qed.
