(** EzStrings: the C15 model FROM CGsmiles STRINGS (executable, NO proofs), composed of the other components' models:
      base graph         Reader/ReaderImpl.read_cgsmiles
      fragment block     Frag/StripImpl (fragment_split, strip_bonding_descriptors: clean SMILES, descriptors, SLASH MARKS,
                         annotations), Frag/SmilesParse.smiles_parse (pysmiles' parser), Frag/Template.assemble
      one resolve()      Resolve/PipelineFull.resolve_step_full (bonding, squash, hydrogens, sort, Stereo/EzImpl, names)
    What this file adds is the end of pysmiles_utils.read_fragment_smiles: the template as a networkx graph whose nodes are
    the atoms of the text in text order, `atomname`, and `ez_isomer_class` = the last character of the mark stored for a key
    that is a node (set_node_attributes ignores the others).  [marked_template] is compared with the implementation's
    fragment graphs on every run (EzCheck.frag_ok: element, chiral, ez_isomer_class, bonding, edges with order).
    LIMIT: `hcount` of an atom written without brackets is set to 0 here (pysmiles would count its implicit hydrogens).
    rebuild_h_atoms resets every hcount and recomputes it from elements, charges and bonds, so the molecule after the
    hydrogen step - hence the sorted and the returned molecule - does not depend on it; the graphs BEFORE the hydrogen step
    (fo_m2, fo_m3) do and are not claimed.  [resolve_string] is compared with the implementation on every string case of
    the C15 check (EzCheck.string_ok: sorted and returned molecule on element, fragid, chiral, ez_*, bond orders). *)
From Coq Require Import String.
From Coq Require Import List Ascii ZArith Bool.
From CGV Require Import Base.PyBase Base.PyVal Base.NxGraph Dialect.DialectImpl Frag.NDict Frag.StripImpl Frag.SmilesParse Frag.Template
     Reader.ReaderImpl Resolve.Bonding Resolve.GraphOps Resolve.Pipeline Resolve.PipelineFull Stereo.EzImpl.
From CGV Require Hydro.Squash.
Import ListNotations.
Open Scope Z_scope.

Definition with_defaults (i : nat) (a : attrs) : attrs :=
  let a1 := match aget (S "hcount") a with Some _ => a | None => aset (S "hcount") (VInt 0) a end in
  match aget (S "element") a1 with
  | Some (VStr e) => aset (S "atomname") (VStr (e ++ str_of_nat i)) a1
  | _ => a1
  end.

(** the fragment graph read_fragment_smiles returns for one fragment text *)
Definition marked_template (fo : float_oracle) (name text : pystr) : res graph :=
  '(clean, d, ez, a) <- strip_bonding_descriptors fo text ;;
  let smiles_str := if str_eqb clean (S "H") then S "[H]" else clean in
  G <- smiles_parse smiles_str ;;
  let t := assemble name G d a in
  let g0 := fold_left (fun acc ia => add_node acc (Z.of_nat (fst ia)) (with_defaults (fst ia) (snd ia)))
                      (combine (seq 0 (length (t_nodes t))) (t_nodes t)) gempty in
  let g1 := fold_left (fun acc e => let '(u, v, o) := e in add_edge acc (Z.of_nat u) (Z.of_nat v) [(S "order", o)]) (t_edges t) g0 in
  (* a fragment of ONE atom returns before the marks are stored ... unless /repo d472632: it stores them first *)
  Ok (set_nodes_from g1 (S "ez_isomer_class") (map (fun kc => (Z.of_nat (fst kc), VStr [snd kc])) ez)).

(** read_fragments(block, all_atom=True): the first definition of a name wins *)
Fixpoint fd_add (name : pystr) (g : graph) (fd : fragdict) : fragdict :=
  match fd with
  | [] => [(name, g)]
  | (k, h) :: r => if str_eqb name k then fd else (k, h) :: fd_add name g r
  end.
Definition read_fragments_aa (fo : float_oracle) (block : pystr) : res fragdict :=
  fold_res (fun fd nt => g <- marked_template fo (fst nt) (snd nt) ;; Ok (fd_add (fst nt) g fd)) (fragment_split block) [].
Definition read_fragments_model (fo : float_oracle) (block : pystr) (all_atom : bool) : res fragdict :=
  if all_atom then read_fragments_aa fo block else Err ENoReturn.

(** MoleculeResolver.from_string(s).resolve() for a two-block string; the aromaticity transcript is the identity
    (no aromatic atom written) *)
Definition resolve_string (fo : float_oracle) (s : pystr) : res full_out :=
  st <- from_string (read_cgsmiles fo) (read_fragments_model fo) s true true ;;
  match st_dicts st with
  | [fd] =>
      let prev := st_mol st in
      let meta := set_nodes_from prev (S "fragname") (get_node_attributes prev (S "atomname")) in
      '(m1, fg1) <- resolve_disconnected fd meta ;;
      '(m2, _) <- bonding_step true true meta m1 fg1 ;;
      m3 <- Squash.squash_atoms m2 ;;
      resolve_step_full true true fd prev (Some m3)
  | _ => Err EValue
  end.
