(** EzStrings: the C15 model FROM CGsmiles STRINGS (executable, NO proofs), composed of the other components' models:
      base graph         Reader/ReaderImpl.read_cgsmiles
      fragment block     Frag/StripImpl (fragment_split, strip_bonding_descriptors: clean SMILES, descriptors, SLASH MARKS,
                         annotations), Frag/SmilesParse.smiles_parse (pysmiles' parser), Frag/Template.assemble
      one resolve()      Resolve/PipelineFull.resolve_step_full (bonding, squash, hydrogens, sort, Stereo/EzImpl, names)
    The end of pysmiles_utils.read_fragment_smiles is the strip component's final template (Frag/TemplateFinal.v) as a
    networkx graph (Frag/TemplateGraph.v): nodes = the atoms of the text in text order, `atomname`, `ez_isomer_class` = the
    mark stored for the atom, hcount as pysmiles' fill_valence leaves it.  [marked_template] is compared with the
    implementation's fragment graphs on every run (EzCheck.frag_ok: element, chiral, ez_isomer_class, bonding, edges with
    order).  [resolve_string] is compared with the implementation on every string case of
    the C15 check (EzCheck.string_ok: sorted and returned molecule on element, fragid, chiral, ez_*, bond orders). *)
From Coq Require Import String.
From Coq Require Import List Ascii ZArith Bool.
From CGV Require Import Base.PyBase Base.PyVal Base.NxGraph Dialect.DialectImpl Frag.NDict Frag.StripImpl Frag.SmilesParse Frag.Template Frag.TemplateFinal Frag.TemplateGraph
     Reader.ReaderImpl Resolve.Bonding Resolve.GraphOps Resolve.Pipeline Resolve.PipelineFull Stereo.EzImpl.
From CGV Require Hydro.Squash.
Import ListNotations.
Open Scope Z_scope.

(** the fragment graph read_fragment_smiles returns for one fragment text: strip_bonding_descriptors, pysmiles' parser
    (Frag/SmilesParse), then the FINAL template of the strip component (Frag/TemplateFinal.final_assemble: fragname /
    fragid / weight / bonding / annotations, `atomname`, the slash marks as `ez_isomer_class`, hcount after fill_valence)
    as a networkx graph (Frag/TemplateGraph.tmpl_graph: nodes 0..n-1 in text order, adjacency in bond-creation order).
    = tmpl_graph of Frag/TemplateFinal.fragment_template_final ([marked_template_final]), so the strip component's
    [template_is_template] applies to it (Stereo/EzStringCut.v). *)
Definition marked_template (fo : float_oracle) (name text : pystr) : res graph :=
  '(clean, d, ez, a) <- strip_bonding_descriptors fo text ;;
  let smiles_str := if str_eqb clean (S "H") then S "[H]" else clean in
  G <- smiles_parse smiles_str ;;
  T0 <- final_assemble name G d ez a ;;
  Ok (tmpl_graph T0).

(** read_fragments(block, all_atom=True): the first definition of a name wins *)
Fixpoint fd_add (name : pystr) (g : graph) (fd : fragdict) : fragdict :=
  match fd with
  | [] => [(name, g)]
  | (k, h) :: r => if str_eqb name k then fd else (k, h) :: fd_add name g r
  end.
Definition read_fragments_aa (fo : float_oracle) (block : pystr) : res fragdict :=
  fold_res (fun fd nt => g <- marked_template fo (fst nt) (snd nt) ;; Ok (fd_add (fst nt) g fd)) (fragment_split block) [].
Definition read_fragments_model (fo : float_oracle) (block : pystr) (all_atom : bool) : res fragdict :=
  if all_atom then read_fragments_aa fo block else Err ENoReturn.

(** MoleculeResolver.from_string(s).resolve() for a two-block string; the aromaticity transcript is the identity
    (no aromatic atom written) *)
Definition resolve_string (fo : float_oracle) (s : pystr) : res full_out :=
  st <- from_string (read_cgsmiles fo) (read_fragments_model fo) s true true ;;
  match st_dicts st with
  | [fd] =>
      let prev := st_mol st in
      let meta := set_nodes_from prev (S "fragname") (get_node_attributes prev (S "atomname")) in
      '(m1, fg1) <- resolve_disconnected fd meta ;;
      '(m2, _) <- bonding_step true true meta m1 fg1 ;;
      m3 <- Squash.squash_atoms m2 ;;
      resolve_step_full true true fd prev (Some m3)
  | _ => Err EValue
  end.
