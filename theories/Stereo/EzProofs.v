(** EzProofs: proofs about the model of the E/Z annotation (EzImpl) for property C15. *)
From Coq Require Import String.
From Coq Require Import List Ascii ZArith Bool Lia.
From CGV Require Import Base.PyBase Base.PyVal Base.NxGraph Stereo.EzImpl Stereo.EzDefs.
Import ListNotations.
Open Scope Z_scope.

(** ------------------------------------------------------------------ the class table *)
(** compact form of the eight cases: a function of the two tokens and of ONE comparison *)
Definition table (lt : bool) (t1 t2 : pyval) : pyval :=
  if lt then (if Bool.eqb (is_slash t1) (is_slash t2) then v_trans else v_cis)
  else (if Bool.eqb (is_slash t1) (is_slash t2) then v_cis else v_trans).

Lemma is_tok_cases t : is_tok t = true -> t = tok_slash \/ t = tok_back.
Proof.
  unfold is_tok. intros H. apply orb_true_iff in H. destruct H as [H|H]; [left|right];
  destruct t; try discriminate; cbn in H; apply str_eqb_eq in H; now subst.
Qed.

Lemma interpret_table lf af t1 t2 : lf <> af -> is_tok t1 = true -> is_tok t2 = true ->
  interpret lf af t1 t2 = Some (table (lf <? af) t1 t2).
Proof.
  intros N H1 H2. unfold interpret, table.
  destruct (is_tok_cases _ H1) as [-> | ->], (is_tok_cases _ H2) as [-> | ->];
  destruct (lf <? af) eqn:E1; cbn; try reflexivity;
  (assert (af <? lf = true) as -> by (apply Z.ltb_lt; apply Z.ltb_ge in E1; lia)); reflexivity.
Qed.

(** ------------------------------------------------------------------ graph plumbing *)
Lemma nodup_keysb_sound l : nodup_keysb l = true -> NoDup l.
Proof.
  induction l as [|x r IH]; cbn; [constructor|]. intros H. apply andb_true_iff in H. destruct H as [H1 H2].
  constructor; [|auto]. intros I. apply negb_true_iff in H1.
  assert (existsb (Z.eqb x) r = true) by (apply existsb_exists; exists x; split; [assumption|apply Z.eqb_refl]).
  congruence.
Qed.

Lemma gfind_some k g n : gfind k g = Some n -> In n g /\ nk n = k.
Proof.
  induction g as [|m r IH]; cbn; [discriminate|]. destruct (Z.eqb_spec (nk m) k).
  - intros [= <-]. auto.
  - intros H. destruct (IH H). auto.
Qed.
Lemma gfind_nodup g n : NoDup (node_keys g) -> In n g -> gfind (nk n) g = Some n.
Proof.
  induction g as [|m r IH]; cbn; [contradiction|]. intros ND [->|I].
  - now rewrite Z.eqb_refl.
  - inversion ND as [|? ? NI ND']; subst. destruct (Z.eqb_spec (nk m) (nk n)) as [E|_]; [|auto].
    exfalso. apply NI. rewrite E. unfold node_keys. now apply in_map.
Qed.

(** two graphs with the same keys and adjacency (attributes may differ) *)
Definition shape (g : graph) : list (Z * list (Z * attrs)) := map (fun n => (nk n, nadj n)) g.
Lemma shape_gfind g h : shape g = shape h -> forall k,
  match gfind k g, gfind k h with
  | Some n, Some m => nk n = nk m /\ nadj n = nadj m
  | None, None => True
  | _, _ => False
  end.
Proof.
  revert h. induction g as [|n r IH]; destruct h as [|m r']; cbn; try discriminate; [auto|].
  intros [= E1 E2 E3] k. rewrite <- E1. destruct (Z.eqb (nk n) k); [auto|]. now apply IH.
Qed.
Lemma shape_gupdate k f g : (forall n, nk (f n) = nk n /\ nadj (f n) = nadj n) -> shape (gupdate k f g) = shape g.
Proof.
  intros Hf. induction g as [|n r IH]; cbn; [reflexivity|]. destruct (Z.eqb (nk n) k); cbn.
  - destruct (Hf n) as [-> ->]. reflexivity.
  - f_equal. exact IH.
Qed.
Lemma shape_set_node_attr g k a v : shape (set_node_attr g k a v) = shape g.
Proof. apply shape_gupdate. intros n; cbn; auto. Qed.
Lemma shape_del_node_attr g k a : shape (del_node_attr g k a) = shape g.
Proof. apply shape_gupdate. intros n; cbn; auto. Qed.

Lemma shape_has_node g h k : shape g = shape h -> has_node g k = has_node h k.
Proof. intros E. unfold has_node. pose proof (shape_gfind g h E k). destruct (gfind k g), (gfind k h); tauto. Qed.
Lemma shape_has_edge g h u v : shape g = shape h -> has_edge g u v = has_edge h u v.
Proof.
  intros E. unfold has_edge. pose proof (shape_gfind g h E u).
  destruct (gfind u g), (gfind u h); try tauto. destruct H as [_ ->]. reflexivity.
Qed.
Lemma shape_edge_get g h u v a : shape g = shape h -> edge_get g u v a = edge_get h u v a.
Proof.
  intros E. unfold edge_get, edge_attrs. pose proof (shape_gfind g h E u).
  destruct (gfind u g), (gfind u h); try tauto. destruct H as [_ ->]. reflexivity.
Qed.
Lemma shape_path_ok g h l1 a1 a2 l2 : shape g = shape h -> path_ok g l1 a1 a2 l2 = path_ok h l1 a1 a2 l2.
Proof.
  intros E. unfold path_ok.
  rewrite !(shape_has_node g h _ E), !(shape_has_edge g h _ _ E), (shape_edge_get g h _ _ _ E). reflexivity.
Qed.
Lemma shape_tuple_ok g h k v : shape g = shape h -> tuple_ok g k v = tuple_ok h k v.
Proof.
  intros E. unfold tuple_ok. destruct (as_tuple5 v) as [[[[[l1 a1] a2] l2] c]|]; [|reflexivity].
  now rewrite (shape_path_ok g h _ _ _ _ E).
Qed.
Lemma shape_node_keys g h : shape g = shape h -> node_keys g = node_keys h.
Proof.
  unfold shape, node_keys. revert h. induction g; destruct h; cbn; try discriminate; [auto|].
  intros [= E1 E2 E3]. rewrite E1. f_equal. auto.
Qed.

(** attribute reads after attribute writes *)
Lemma gfind_gupdate k f g k' : (forall n, nk (f n) = nk n) ->
  gfind k' (gupdate k f g) = if Z.eqb k' k then option_map f (gfind k g) else gfind k' g.
Proof.
  intros Hf. induction g as [|n r IH]; cbn; [now destruct (Z.eqb k' k)|].
  destruct (Z.eqb_spec (nk n) k) as [E|N]; cbn.
  - rewrite Hf. destruct (Z.eqb_spec k' k) as [->|N'].
    + rewrite E, Z.eqb_refl. reflexivity.
    + destruct (Z.eqb_spec (nk n) k'); [congruence|reflexivity].
  - destruct (Z.eqb_spec (nk n) k') as [E'|N'].
    + destruct (Z.eqb_spec k' k); [congruence|reflexivity].
    + exact IH.
Qed.

Lemma aget_adel_other k k' a : k <> k' -> aget k (adel k' a) = aget k a.
Proof.
  intros N. induction a as [|[k2 v2] r IH]; cbn; [reflexivity|].
  destruct (str_eqb_spec k' k2) as [->|N2]; cbn.
  - destruct (str_eqb_spec k k2); [contradiction|reflexivity].
  - destruct (str_eqb k k2); [reflexivity|exact IH].
Qed.

Lemma node_get_set g k a v k' a' :
  node_get (set_node_attr g k a v) k' a' =
  if Z.eqb k' k && has_node g k then (if str_eqb a' a then Some v else node_get g k' a') else node_get g k' a'.
Proof.
  unfold node_get, set_node_attr, has_node. rewrite gfind_gupdate by reflexivity.
  destruct (Z.eqb_spec k' k) as [->|N]; cbn; [|reflexivity].
  destruct (gfind k g) as [n|]; cbn; [|reflexivity].
  destruct (str_eqb_spec a' a) as [->|N].
  - apply aget_aset_same.
  - now apply aget_aset_other.
Qed.
Lemma node_get_del_other g k a k' a' : a' <> a ->
  node_get (del_node_attr g k a) k' a' = node_get g k' a'.
Proof.
  intros N. unfold node_get, del_node_attr. rewrite gfind_gupdate by reflexivity.
  destruct (Z.eqb_spec k' k) as [->|_]; [|reflexivity].
  destruct (gfind k g); cbn; [|reflexivity]. now apply aget_adel_other.
Qed.

(** ------------------------------------------------------------------ the append fold *)
Lemma ez_list_append g kt k :
  ez_list (append_ez g kt) k =
  if Z.eqb k (fst kt) && has_node g (fst kt) then ez_list g k ++ [snd kt] else ez_list g k.
Proof.
  unfold append_ez, ez_list at 1. rewrite node_get_set.
  destruct (Z.eqb_spec k (fst kt)) as [->|N]; cbn; [|reflexivity].
  destruct (has_node g (fst kt)); cbn; reflexivity.
Qed.
Lemma shape_apply_appends apps : forall g, shape (apply_appends g apps) = shape g.
Proof.
  induction apps as [|kt r IH]; intros g; cbn; [reflexivity|].
  unfold apply_appends in IH. rewrite IH. apply shape_set_node_attr.
Qed.
Lemma apply_appends_old apps : forall g k v, In v (ez_list g k) -> In v (ez_list (apply_appends g apps) k).
Proof.
  induction apps as [|kt r IH]; intros g k v I; cbn; [assumption|]. apply IH.
  rewrite ez_list_append. destruct (_ && _); [apply in_or_app; now left|assumption].
Qed.
Lemma apply_appends_in apps : forall g k v, In v (ez_list (apply_appends g apps) k) ->
  In v (ez_list g k) \/ In (k, v) apps.
Proof.
  induction apps as [|[k0 t] r IH]; intros g k v I; cbn in *; [now left|].
  destruct (IH _ _ _ I) as [H|H]; [|now right; right].
  rewrite ez_list_append in H. cbn in H. destruct (Z.eqb_spec k k0) as [->|N]; cbn in H; [|now left].
  destruct (has_node g k0); [|now left].
  apply in_app_or in H. destruct H as [H|[<-|[]]]; [now left|right; now left].
Qed.
Lemma apply_appends_new apps : forall g k v, In (k, v) apps -> has_node g k = true ->
  In v (ez_list (apply_appends g apps) k).
Proof.
  induction apps as [|[k0 t] r IH]; intros g k v I Hn; cbn in *; [contradiction|].
  destruct I as [[= -> ->]|I].
  - apply apply_appends_old. rewrite ez_list_append. cbn. rewrite Z.eqb_refl, Hn. cbn.
    apply in_or_app. right. now left.
  - apply IH; [assumption|]. unfold append_ez.
    rewrite (shape_has_node _ g k (shape_set_node_attr _ _ _ _)). assumption.
Qed.

(** deleting 'ez_isomer_class' leaves shape and 'ez_isomer' alone *)
Lemma del_class_shape (d : ezdict) : forall g,
  shape (fold_left (fun acc kv => del_node_attr acc (fst kv) (S "ez_isomer_class")) d g) = shape g.
Proof.
  induction d as [|kv r IH]; intros g; cbn; [reflexivity|]. rewrite IH. apply shape_del_node_attr.
Qed.
Lemma del_class_get (d : ezdict) a : a <> S "ez_isomer_class" -> forall g k,
  node_get (fold_left (fun acc kv => del_node_attr acc (fst kv) (S "ez_isomer_class")) d g) k a = node_get g k a.
Proof.
  intros N. induction d as [|kv r IH]; intros g k; cbn; [reflexivity|]. rewrite IH. now apply node_get_del_other.
Qed.
Lemma del_class_ez_list (d : ezdict) g k :
  ez_list (fold_left (fun acc kv => del_node_attr acc (fst kv) (S "ez_isomer_class")) d g) k = ez_list g k.
Proof. unfold ez_list. rewrite del_class_get; [reflexivity|]. intros E. vm_compute in E. discriminate. Qed.

(** ------------------------------------------------------------------ where the pairs come from *)
Lemma on_anchor_in g ez a o x : In x (on_anchor g ez a o) ->
  s_anc x = a /\ In (s_lig x) (neighbors g a) /\ s_lig x <> a /\ s_lig x <> o /\ ez_get (s_lig x) ez = Some (s_tok x).
Proof.
  unfold on_anchor. intros I. apply in_flat_map in I. destruct I as [n [In1 I]].
  destruct (Z.eqb_spec n a) as [|Na]; cbn in I; [contradiction|].
  destruct (Z.eqb_spec n o) as [|No]; cbn in I; [contradiction|].
  destruct (ez_get n ez) eqn:E; [|contradiction]. destruct I as [<-|[]]. cbn. auto.
Qed.

Lemma edge_pairs_in g ez a1 a2 d ps x y : edge_pairs g ez (a1, a2, d) = Ok ps -> In (x, y) ps ->
  is_two (aget (S "order") d) = true /\ In x (on_anchor g ez a1 a2) /\ In y (on_anchor g ez a2 a1).
Proof.
  unfold edge_pairs. destruct (is_two (aget (S "order") d)); cbn; [|intros [= <-] []].
  destruct (xorb _ _); [discriminate|].
  destruct (conflict_check a1 _); cbn; [|discriminate].
  destruct (conflict_check a2 _); cbn; [|discriminate].
  intros [= <-] I. apply in_prod_iff in I. tauto.
Qed.

Lemma all_pairs_of_in g ez es : forall ps p, all_pairs_of g ez es = Ok ps -> In p ps ->
  exists e ps', In e es /\ edge_pairs g ez e = Ok ps' /\ In p ps'.
Proof.
  induction es as [|e r IH]; cbn; intros ps p H I.
  - inversion H; subst. contradiction.
  - destruct (edge_pairs g ez e) as [pe|] eqn:E1; cbn in H; [|discriminate].
    destruct (all_pairs_of g ez r) as [pr|] eqn:E2; cbn in H; [|discriminate].
    inversion H; subst. apply in_app_or in I. destruct I as [I|I].
    + exists e, pe. auto.
    + destruct (IH _ _ eq_refl I) as [e' [ps' [H1 [H2 H3]]]]. exists e', ps'. auto.
Qed.

Lemma edges_from_in g : forall seen u v d, In (u, v, d) (edges_from g seen) ->
  exists n, In n g /\ nk n = u /\ In (v, d) (nadj n).
Proof.
  induction g as [|n r IH]; cbn; intros seen u v d I; [contradiction|].
  apply in_app_or in I. destruct I as [I|I].
  - apply in_flat_map in I. destruct I as [[w a] [I1 I2]]. cbn in I2.
    destruct (existsb _ seen); [contradiction|]. destruct I2 as [[= <- <- <-]|[]].
    exists n. auto.
  - destruct (IH _ _ _ _ I) as [m [H1 H2]]. exists m. auto.
Qed.

Lemma adj_get_in v l : In v (map fst l) -> exists d, adj_get v l = Some d.
Proof.
  induction l as [|[w a] r IH]; cbn; [contradiction|]. intros [<-|I].
  - rewrite Z.eqb_refl. eauto.
  - destruct (Z.eqb w v); eauto.
Qed.
Lemma adj_get_nodup v d l : NoDup (map fst l) -> In (v, d) l -> adj_get v l = Some d.
Proof.
  induction l as [|[w a] r IH]; cbn; [contradiction|]. intros ND [[= -> ->]|I].
  - now rewrite Z.eqb_refl.
  - inversion ND as [|? ? NI ND']; subst. destruct (Z.eqb_spec w v) as [->|_]; [|auto].
    exfalso. apply NI. change v with (fst (v, d)). now apply in_map.
Qed.

Record wf_graph (g : graph) : Prop := {
  wf_keys : NoDup (node_keys g);
  wf_closed : forall n w d, In n g -> In (w, d) (nadj n) -> has_node g w = true;
  wf_adj : forall n, In n g -> NoDup (map fst (nadj n));
  wf_sym : forall n w d, In n g -> In (w, d) (nadj n) ->
     has_edge g w (nk n) = true /\ is_two (edge_get g w (nk n) (S "order")) = is_two (aget (S "order") d) }.
Lemma wf_graphb_sound g : wf_graphb g = true -> wf_graph g.
Proof.
  unfold wf_graphb. intros H. apply andb_true_iff in H. destruct H as [H H4].
  apply andb_true_iff in H. destruct H as [H H3].
  apply andb_true_iff in H. destruct H as [H1 H2]. split.
  - now apply nodup_keysb_sound.
  - intros n w d I1 I2. unfold adj_closedb in H2. rewrite forallb_forall in H2.
    specialize (H2 _ I1). rewrite forallb_forall in H2. exact (H2 _ I2).
  - intros n I. unfold adj_nodupb in H3. rewrite forallb_forall in H3. apply nodup_keysb_sound. auto.
  - intros n w d I1 I2. unfold adj_symb in H4. rewrite forallb_forall in H4.
    specialize (H4 _ I1). rewrite forallb_forall in H4. specialize (H4 _ I2). cbn in H4.
    apply andb_true_iff in H4. destruct H4 as [A B]. split; [assumption|]. now apply eqb_prop.
Qed.

Lemma neighbor_edge g a l : wf_graph g -> In l (neighbors g a) ->
  has_node g a = true /\ has_node g l = true /\ has_edge g a l = true.
Proof.
  intros W. unfold neighbors, has_node at 1, has_edge. destruct (gfind a g) as [n|] eqn:E; [|contradiction].
  intros I. destruct (gfind_some _ _ _ E) as [In1 _]. split; [reflexivity|].
  destruct (adj_get_in _ _ I) as [d Hd]. rewrite Hd. split; [|reflexivity].
  apply in_map_iff in I. destruct I as [[w d'] [<- I]]. exact (wf_closed g W n w d' In1 I).
Qed.

Lemma edge_lookup g n v d : wf_graph g -> In n g -> In (v, d) (nadj n) ->
  has_edge g (nk n) v = true /\ edge_get g (nk n) v (S "order") = aget (S "order") d.
Proof.
  intros W I1 I2.
  assert (F : gfind (nk n) g = Some n) by (apply gfind_nodup; [apply W|assumption]).
  assert (G : adj_get v (nadj n) = Some d) by (apply adj_get_nodup; [now apply W|assumption]).
  unfold has_edge, edge_get, edge_attrs. rewrite F, G. auto.
Qed.

(** every pair the model produces is a path ligand - anchor = anchor - ligand of the graph,
    read from either end *)
Lemma pair_path g ez ps x y : wf_graph g -> all_pairs g ez = Ok ps -> In (x, y) ps ->
  path_ok g (s_lig x) (s_anc x) (s_anc y) (s_lig y) = true /\
  path_ok g (s_lig y) (s_anc y) (s_anc x) (s_lig x) = true.
Proof.
  intros W H I. unfold all_pairs in H.
  destruct (all_pairs_of_in _ _ _ _ _ H I) as [[[a1 a2] d] [ps' [Ie [He Ip]]]].
  destruct (edge_pairs_in _ _ _ _ _ _ _ _ He Ip) as [H2 [Ix Iy]].
  destruct (on_anchor_in _ _ _ _ _ Ix) as [-> [Nx [X1 [X2 _]]]].
  destruct (on_anchor_in _ _ _ _ _ Iy) as [-> [Ny [Y1 [Y2 _]]]].
  destruct (neighbor_edge _ _ _ W Nx) as [Ha1 [Hl1 He1]].
  destruct (neighbor_edge _ _ _ W Ny) as [Ha2 [Hl2 He2]].
  destruct (edges_from_in _ _ _ _ _ Ie) as [n [In1 [Hk Ia]]]. subst a1.
  destruct (edge_lookup _ _ _ _ W In1 Ia) as [E12 O12].
  destruct (wf_sym g W _ _ _ In1 Ia) as [E21 O21].
  unfold path_ok. rewrite Hl1, Ha1, Ha2, Hl2, He1, He2, E12, E21, O21, O12, H2. cbn.
  destruct (Z.eqb_spec (s_lig x) (nk n)); [contradiction|]. destruct (Z.eqb_spec (s_lig x) a2); [contradiction|].
  destruct (Z.eqb_spec (s_lig y) (nk n)); [contradiction|]. destruct (Z.eqb_spec (s_lig y) a2); [contradiction|].
  auto.
Qed.

(** ------------------------------------------------------------------ what is appended *)
Lemma appends_of_in ps : forall apps k v, appends_of ps = Ok apps -> In (k, v) apps ->
  exists x y c, In (x, y) ps /\ interpret (s_lig x) (s_anc x) (s_tok x) (s_tok y) = Some c /\
    ((k = s_lig x /\ v = ez_tuple (s_lig x) (s_anc x) (s_anc y) (s_lig y) c) \/
     (k = s_lig y /\ v = ez_tuple (s_lig y) (s_anc y) (s_anc x) (s_lig x) c)).
Proof.
  induction ps as [|[x y] r IH]; cbn; intros apps k v H I.
  - inversion H; subst. contradiction.
  - destruct (interpret _ _ _ _) as [c|] eqn:E; cbn in H; [|discriminate].
    destruct (appends_of r) as [b|] eqn:E2; cbn in H; [|discriminate]. inversion H; subst. clear H.
    destruct I as [[= <- <-]|[[= <- <-]|I]].
    + exists x, y, c. auto.
    + exists x, y, c. auto 6.
    + destruct (IH _ _ _ eq_refl I) as [x' [y' [c' [H1 H2]]]]. exists x', y', c'. auto.
Qed.
Lemma appends_of_both ps : forall apps x y, appends_of ps = Ok apps -> In (x, y) ps ->
  exists c, interpret (s_lig x) (s_anc x) (s_tok x) (s_tok y) = Some c /\
    In (s_lig x, ez_tuple (s_lig x) (s_anc x) (s_anc y) (s_lig y) c) apps /\
    In (s_lig y, ez_tuple (s_lig y) (s_anc y) (s_anc x) (s_lig x) c) apps.
Proof.
  induction ps as [|[x0 y0] r IH]; cbn; intros apps x y H I; [contradiction|].
  destruct (interpret _ _ _ _) as [c|] eqn:E; cbn in H; [|discriminate].
  destruct (appends_of r) as [b|] eqn:E2; cbn in H; [|discriminate]. inversion H; subst. clear H.
  destruct I as [[= -> ->]|I].
  - exists c. cbn. auto.
  - destruct (IH _ _ _ eq_refl I) as [c' [H1 [H2 H3]]]. exists c'. cbn. auto.
Qed.
Lemma interpret_class lf af t1 t2 c : interpret lf af t1 t2 = Some c -> c = v_cis \/ c = v_trans.
Proof.
  unfold interpret. destruct (lf <? af); [|destruct (af <? lf); [|discriminate]];
  repeat (destruct (_ && _); [intros [= <-]; auto|]); discriminate.
Qed.

(** ------------------------------------------------------------------ ez_refs_valid, ez_symmetric *)
Definition is_new (g g' : graph) (k : Z) (v : pyval) : Prop := In v (ez_list g' k) /\ ~ In v (ez_list g k).

Lemma annotate_cg_inv g g' : annotate_ez_isomers_cgsmiles g = Ok g' ->
  exists ps apps, all_pairs g (ez_class_dict g) = Ok ps /\ appends_of ps = Ok apps /\
    shape g' = shape g /\ (forall k, ez_list g' k = ez_list (apply_appends g apps) k).
Proof.
  unfold annotate_ez_isomers_cgsmiles, annotate_ez_isomers, bind.
  destruct (all_pairs g (ez_class_dict g)) as [ps|] eqn:E1; [|discriminate].
  destruct (appends_of ps) as [apps|] eqn:E2; [|discriminate].
  intros [= <-]. exists ps, apps. repeat split; try reflexivity; try assumption.
  - rewrite del_class_shape. apply shape_apply_appends.
  - intros k. apply del_class_ez_list.
Qed.

(** EVERY stored tuple that the step added is a path of the returned molecule *)
Theorem ez_refs_valid g g' : wf_graph g -> annotate_ez_isomers_cgsmiles g = Ok g' ->
  forall k v, In v (ez_list g' k) -> In v (ez_list g k) \/ tuple_ok g' k v = true.
Proof.
  intros W H k v I. destruct (annotate_cg_inv _ _ H) as [ps [apps [H1 [H2 [H3 H4]]]]].
  rewrite H4 in I. destruct (apply_appends_in _ _ _ _ I) as [Old|New]; [now left|right].
  destruct (appends_of_in _ _ _ _ H2 New) as [x [y [c [Ip [Hc Hkv]]]]].
  destruct (pair_path _ _ _ _ _ W H1 Ip) as [P Q].
  rewrite (shape_tuple_ok g' g _ _ H3). unfold tuple_ok.
  destruct (interpret_class _ _ _ _ _ Hc) as [-> | ->];
  destruct Hkv as [[-> ->]|[-> ->]]; cbn; rewrite Z.eqb_refl; cbn; rewrite ?P, ?Q; reflexivity.
Qed.

(** boolean form, as evaluated by the check on the implementation's result *)
Corollary refs_ok_preserved g g' : wf_graph g -> refs_ok g = true ->
  annotate_ez_isomers_cgsmiles g = Ok g' -> refs_ok g' = true.
Proof.
  intros W R H. unfold refs_ok in *. apply forallb_forall. intros n' In'. apply forallb_forall. intros v Iv.
  destruct (ez_refs_valid _ _ W H _ _ Iv) as [Old|New]; [|assumption].
  destruct (annotate_cg_inv _ _ H) as [ps [apps [_ [_ [Sh _]]]]].
  rewrite (shape_tuple_ok g' g _ _ Sh).
  (* the old list belongs to a node of g with the same key *)
  assert (Hn : has_node g (nk n') = true).
  { rewrite <- (shape_has_node g' g _ Sh). unfold has_node.
    destruct (gfind (nk n') g') eqn:E; [reflexivity|]. exfalso.
    clear - In' E. induction g' as [|m r IH]; [contradiction|]. cbn in E. destruct In' as [->|I].
    - now rewrite Z.eqb_refl in E.
    - destruct (Z.eqb (nk m) (nk n')); [discriminate|auto]. }
  unfold has_node in Hn. destruct (gfind (nk n') g) as [n|] eqn:E; [|discriminate].
  destruct (gfind_some _ _ _ E) as [In1 Hk]. rewrite forallb_forall in R. specialize (R _ In1).
  rewrite forallb_forall in R. rewrite Hk in R. auto.
Qed.

(** each relation is stored on BOTH ligands, with mirrored tuples and the same class *)
Theorem ez_symmetric g g' : wf_graph g -> annotate_ez_isomers_cgsmiles g = Ok g' ->
  forall k v, is_new g g' k v ->
  exists l1 a1 a2 l2 c, v = ez_tuple l1 a1 a2 l2 c /\ k = l1 /\ (c = v_cis \/ c = v_trans) /\
                        In (ez_tuple l2 a2 a1 l1 c) (ez_list g' l2).
Proof.
  intros W H k v [I NI]. destruct (annotate_cg_inv _ _ H) as [ps [apps [H1 [H2 [H3 H4]]]]].
  rewrite H4 in I. destruct (apply_appends_in _ _ _ _ I) as [Old|New]; [contradiction|].
  destruct (appends_of_in _ _ _ _ H2 New) as [x [y [c [Ip [Hc Hkv]]]]].
  destruct (appends_of_both _ _ _ _ H2 Ip) as [c' [Hc' [A1 A2]]].
  rewrite Hc in Hc'. inversion Hc'; subst c'. clear Hc'.
  destruct (pair_path _ _ _ _ _ W H1 Ip) as [P _]. unfold path_ok in P.
  repeat (apply andb_true_iff in P; destruct P as [P ?]).
  destruct Hkv as [[-> ->]|[-> ->]].
  - exists (s_lig x), (s_anc x), (s_anc y), (s_lig y), c. repeat split; auto.
    + eapply interpret_class; eauto.
    + rewrite H4. apply apply_appends_new; assumption.
  - exists (s_lig y), (s_anc y), (s_anc x), (s_lig x), c. repeat split; auto.
    + eapply interpret_class; eauto.
    + rewrite H4. apply apply_appends_new; assumption.
Qed.

(** ------------------------------------------------------------------ what the class means *)
(** the table computes the geometric relation of the written marks exactly when the second
    ligand's key is LARGER than its anchor's; otherwise it computes the opposite relation *)
Lemma neg_class c : class_val (negb c) <> class_val c.
Proof. destruct c; cbn; intros E; vm_compute in E; discriminate. Qed.

Theorem class_iff_wrong (p : sub * sub) :
  is_tok (s_tok (fst p)) = true -> is_tok (s_tok (snd p)) = true ->
  s_lig (snd p) <> s_anc (snd p) ->
  table (s_lig (fst p) <? s_anc (fst p)) (s_tok (fst p)) (s_tok (snd p)) =
  (if pair_in_class p then class_val (negb (geom_cis (s_lig (fst p) <? s_anc (fst p)) (s_tok (fst p))
                                                      (s_lig (snd p) <? s_anc (snd p)) (s_tok (snd p))))
   else pair_geom p).
Proof.
  destruct p as [x y]. cbn [fst snd]. intros T1 T2 N. unfold pair_in_class, pair_geom, table, geom_cis, up. cbn [fst snd].
  destruct (is_tok_cases _ T1) as [-> | ->], (is_tok_cases _ T2) as [-> | ->];
  destruct (s_lig x <? s_anc x), (s_lig y <? s_anc y); reflexivity.
Qed.

(** the geometric relation does not care which end is enumerated first *)
Lemma geom_cis_sym b1 t1 b2 t2 : geom_cis b1 t1 b2 t2 = geom_cis b2 t2 b1 t1.
Proof. unfold geom_cis. destruct (up b1 t1), (up b2 t2); reflexivity. Qed.

(** two pairs (of two variants) that denote the same two substituents, each ligand on the same side
    (key-wise) of its anchor as in the other variant, possibly enumerated from the other end *)
Definition flag (x : sub) : bool := s_lig x <? s_anc x.
Definition same_sub (x x' : sub) : Prop := flag x = flag x' /\ s_tok x = s_tok x'.
Definition same_substituents (p p' : sub * sub) : Prop :=
  (same_sub (fst p) (fst p') /\ same_sub (snd p) (snd p')) \/
  (same_sub (fst p) (snd p') /\ same_sub (snd p) (fst p')).
Definition pair_result (p : sub * sub) : option pyval :=
  interpret (s_lig (fst p)) (s_anc (fst p)) (s_tok (fst p)) (s_tok (snd p)).
Definition pair_wf (p : sub * sub) : Prop :=
  is_tok (s_tok (fst p)) = true /\ is_tok (s_tok (snd p)) = true /\
  s_lig (fst p) <> s_anc (fst p) /\ s_lig (snd p) <> s_anc (snd p).

Lemma pair_result_eq p : pair_wf p ->
  pair_result p = Some (if pair_in_class p
                        then class_val (negb (geom_cis (flag (fst p)) (s_tok (fst p)) (flag (snd p)) (s_tok (snd p))))
                        else pair_geom p).
Proof.
  intros [T1 [T2 [N1 N2]]]. unfold pair_result. rewrite interpret_table by assumption.
  f_equal. now apply class_iff_wrong.
Qed.

(** outside the class the stored class is the same in every variant ... *)
Theorem order_invariant_outside_class p p' : pair_wf p -> pair_wf p' -> same_substituents p p' ->
  pair_in_class p = false -> pair_in_class p' = false -> pair_result p = pair_result p'.
Proof.
  intros W W' Sm C C'. rewrite (pair_result_eq _ W), (pair_result_eq _ W'), C, C'. f_equal.
  destruct p as [x y], p' as [x' y']. unfold pair_geom. cbn [fst snd] in *. fold (flag x) (flag y) (flag x') (flag y').
  destruct Sm as [[[F1 T1] [F2 T2]]|[[F1 T1] [F2 T2]]]; cbn [fst snd] in *.
  - now rewrite F1, T1, F2, T2.
  - rewrite F1, T1, F2, T2. f_equal. apply geom_cis_sym.
Qed.
(** ... and a variant inside the class ALWAYS disagrees with a variant outside it: the predicate is exact *)
Theorem class_exact p p' : pair_wf p -> pair_wf p' -> same_substituents p p' ->
  pair_in_class p = true -> pair_in_class p' = false -> pair_result p <> pair_result p'.
Proof.
  intros W W' Sm C C'. rewrite (pair_result_eq _ W), (pair_result_eq _ W'), C, C'.
  destruct p as [x y], p' as [x' y']. unfold pair_geom. cbn [fst snd] in *. fold (flag x) (flag y) (flag x') (flag y').
  intros E. inversion E as [E']. clear E. revert E'.
  destruct Sm as [[[F1 T1] [F2 T2]]|[[F1 T1] [F2 T2]]]; cbn [fst snd] in *; rewrite F1, T1, F2, T2.
  - apply neg_class.
  - rewrite (geom_cis_sym (flag y')). apply neg_class.
Qed.

(** ------------------------------------------------------------------ renumbering *)
Definition res_map {A B} (h : A -> B) (r : res A) : res B := match r with Ok x => Ok (h x) | Err e => Err e end.

Section Rename.
  Variable f : Z -> Z.
  Hypothesis Inj : injective f.

  Lemma f_eqb x y : Z.eqb (f x) (f y) = Z.eqb x y.
  Proof. destruct (Z.eqb_spec x y) as [->|N]; [apply Z.eqb_refl|]. apply Z.eqb_neq. intros E. apply N, Inj, E. Qed.

  Definition rename_node (n : nrec) : nrec := {| nk := f (nk n); na := na n; nadj := rename_adj f (nadj n) |}.
  Lemma gfind_rename g k : gfind (f k) (rename_graph f g) = option_map rename_node (gfind k g).
  Proof.
    induction g as [|n r IH]; cbn; [reflexivity|]. rewrite f_eqb. destruct (Z.eqb (nk n) k); [reflexivity|exact IH].
  Qed.
  Lemma neighbors_rename g a : neighbors (rename_graph f g) (f a) = map f (neighbors g a).
  Proof.
    unfold neighbors. rewrite gfind_rename. destruct (gfind a g) as [n|]; cbn; [|reflexivity].
    unfold rename_adj. rewrite !map_map. reflexivity.
  Qed.
  Lemma ez_get_rename ez k : ez_get (f k) (rename_ez f ez) = ez_get k ez.
  Proof. induction ez as [|[k' v] r IH]; cbn; [reflexivity|]. rewrite f_eqb. destruct (Z.eqb k k'); [reflexivity|exact IH]. Qed.
  Lemma ez_in_rename ez k : ez_in (rename_ez f ez) (f k) = ez_in ez k.
  Proof. unfold ez_in. now rewrite ez_get_rename. Qed.

  Lemma on_anchor_rename g ez a o :
    on_anchor (rename_graph f g) (rename_ez f ez) (f a) (f o) = map (rename_sub f) (on_anchor g ez a o).
  Proof.
    unfold on_anchor. rewrite neighbors_rename. induction (neighbors g a) as [|n r IH]; cbn; [reflexivity|].
    rewrite !f_eqb, ez_get_rename, IH, map_app. f_equal.
    destruct (Z.eqb n a || Z.eqb n o); [reflexivity|]. destruct (ez_get n ez); reflexivity.
  Qed.

  Lemma conflict_rename a l :
    (forall x, In x l -> (s_lig x <? a) = (f (s_lig x) <? f a) /\ (a <? s_lig x) = (f a <? f (s_lig x))) ->
    conflict_check (f a) (map (rename_sub f) l) = conflict_check a l.
  Proof.
    intros M. destruct l as [|x [|y [|z r]]]; try reflexivity. cbn.
    destruct (M x (or_introl eq_refl)) as [<- <-]. destruct (M y (or_intror (or_introl eq_refl))) as [<- <-].
    reflexivity.
  Qed.

  Lemma list_prod_map {A B C D} (h : A -> C) (k : B -> D) (l : list A) (l' : list B) :
    list_prod (map h l) (map k l') = map (fun p => (h (fst p), k (snd p))) (list_prod l l').
  Proof.
    induction l as [|x r IH]; cbn; [reflexivity|]. rewrite map_app, IH. f_equal. rewrite !map_map. reflexivity.
  Qed.

  Lemma on_anchor_mono g ez a o x : mono_adj g f -> In x (on_anchor g ez a o) ->
    (s_lig x <? a) = (f (s_lig x) <? f a) /\ (a <? s_lig x) = (f a <? f (s_lig x)).
  Proof.
    intros M I. destruct (on_anchor_in _ _ _ _ _ I) as [_ [N _]]. unfold neighbors in N.
    destruct (gfind a g) as [n|] eqn:E; [|contradiction]. destruct (gfind_some _ _ _ E) as [In1 <-].
    apply in_map_iff in N. destruct N as [[w d] [<- I2]]. exact (M n w d In1 I2).
  Qed.

  Lemma edge_pairs_rename g ez a1 a2 d : mono_adj g f ->
    edge_pairs (rename_graph f g) (rename_ez f ez) (f a1, f a2, d) =
    res_map (map (rename_pair f)) (edge_pairs g ez (a1, a2, d)).
  Proof.
    intros M. unfold edge_pairs. destruct (is_two (aget (S "order") d)); cbn; [|reflexivity].
    rewrite !ez_in_rename. destruct (xorb _ _); [reflexivity|].
    rewrite !on_anchor_rename. rewrite conflict_rename by (intros x I; eapply on_anchor_mono; eauto).
    destruct (conflict_check a1 _); cbn; [|reflexivity].
    rewrite conflict_rename by (intros x I; eapply on_anchor_mono; eauto).
    destruct (conflict_check a2 _); cbn; [|reflexivity].
    f_equal. apply list_prod_map.
  Qed.

  Definition rename_edge (e : Z * Z * attrs) : Z * Z * attrs := (f (fst (fst e)), f (snd (fst e)), snd e).
  Lemma edges_from_rename g : forall seen,
    edges_from (rename_graph f g) (map f seen) = map rename_edge (edges_from g seen).
  Proof.
    induction g as [|n r IH]; intros seen; cbn; [reflexivity|]. rewrite map_app. f_equal.
    - unfold rename_adj. induction (nadj n) as [|[w d] l IHl]; cbn; [reflexivity|].
      rewrite map_app, <- IHl. f_equal.
      assert (E : existsb (Z.eqb (f w)) (map f seen) = existsb (Z.eqb w) seen).
      { clear - Inj. induction seen as [|s r IH]; cbn; [reflexivity|]. now rewrite f_eqb, IH. }
      rewrite E. destruct (existsb _ seen); reflexivity.
    - change (f (nk n) :: map f seen) with (map f (nk n :: seen)). apply IH.
  Qed.
  Lemma edges_data_rename g : edges_data (rename_graph f g) = map rename_edge (edges_data g).
  Proof. exact (edges_from_rename g []). Qed.

  Local Arguments edge_pairs : simpl never.
  Lemma all_pairs_of_rename g ez es : mono_adj g f ->
    all_pairs_of (rename_graph f g) (rename_ez f ez) (map rename_edge es) =
    res_map (map (rename_pair f)) (all_pairs_of g ez es).
  Proof.
    intros M. induction es as [|[[a1 a2] d] r IH]; cbn; [reflexivity|].
    unfold rename_edge at 1. cbn [fst snd]. rewrite edge_pairs_rename by assumption.
    destruct (edge_pairs g ez (a1, a2, d)) as [p|]; cbn; [|reflexivity].
    rewrite IH. destruct (all_pairs_of g ez r); cbn; [|reflexivity]. now rewrite map_app.
  Qed.

  (** renumbering that keeps node order and adjacency order (hence the end from which every edge is
      enumerated) and is monotone on every (neighbour, node) pair: the same pairs, renamed *)
  Theorem all_pairs_rename g ez : mono_adj g f ->
    all_pairs (rename_graph f g) (rename_ez f ez) = res_map (map (rename_pair f)) (all_pairs g ez).
  Proof. intros M. unfold all_pairs. rewrite edges_data_rename. now apply all_pairs_of_rename. Qed.

  (** ... and the same classes *)
  Theorem ez_renumber_invariant_partial g ez ps : mono_adj g f -> all_pairs g ez = Ok ps ->
    all_pairs (rename_graph f g) (rename_ez f ez) = Ok (map (rename_pair f) ps) /\
    forall p, In p ps -> pair_result (rename_pair f p) = pair_result p.
  Proof.
    intros M H. split; [rewrite all_pairs_rename, H by assumption; reflexivity|].
    intros [x y] I. unfold all_pairs in H.
    destruct (all_pairs_of_in _ _ _ _ _ H I) as [[[a1 a2] d] [ps' [_ [He Ip]]]].
    destruct (edge_pairs_in _ _ _ _ _ _ _ _ He Ip) as [_ [Ix _]].
    destruct (on_anchor_mono _ _ _ _ _ M Ix) as [L1 L2].
    destruct (on_anchor_in _ _ _ _ _ Ix) as [Ea _]. rewrite <- Ea in L1, L2.
    unfold pair_result, interpret. cbn [fst snd rename_pair rename_sub s_lig s_anc s_tok].
    now rewrite <- L1, <- L2.
  Qed.
End Rename.

(** ------------------------------------------------------------------ the refutation *)
From CGV Require Import Stereo.EzWitness.
(** the same molecule with the same marks, the two fragments listed in the other order:
    the substituent pair F...I is stored as trans in one and as cis in the other *)
Theorem order_refuted :
  exists g1 g2 iso r1 r2,
    wf_graphb g1 = true /\ wf_graphb g2 = true /\ same_marked_moleculeb iso g1 g2 = true /\
    annotate_ez_isomers_cgsmiles g1 = Ok r1 /\ annotate_ez_isomers_cgsmiles g2 = Ok r2 /\
    in_class g1 = false /\ in_class g2 = true /\
    exists l1 a1 a2 l2,
      In (ez_tuple l1 a1 a2 l2 v_trans) (ez_list r1 l1) /\
      In (ez_tuple (iso l1) (iso a1) (iso a2) (iso l2) v_cis) (ez_list r2 (iso l1)).
Proof.
  exists w_AB, w_BA, w_iso. eexists. eexists.
  split; [vm_compute; reflexivity|]. split; [vm_compute; reflexivity|]. split; [vm_compute; reflexivity|].
  split; [vm_compute; reflexivity|]. split; [vm_compute; reflexivity|].
  split; [vm_compute; reflexivity|]. split; [vm_compute; reflexivity|].
  exists 0, 1, 3, 5. split; vm_compute; left; reflexivity.
Qed.

(** ------------------------------------------------------------------ chiral_stays *)
From CGV Require Import Resolve.GraphOps.
(** merge_graphs' per-atom attribute copy (GraphOps.merge_node, the model validated by the resolver
    component's StepCheck) changes only 'fragid' and 'ez_isomer_atoms': the label stays on its atom *)
Lemma merge_node_keeps off fo a a' k : k <> S "fragid" -> k <> S "ez_isomer_atoms" ->
  merge_node off fo a = Ok a' -> aget k a' = aget k a.
Proof.
  intros N1 N2. unfold merge_node, bind.
  destruct (match aget (S "fragid") a with Some v => as_int v | None => Ok 0 end) as [f|]; [|discriminate].
  unfold shift_ez. destruct (aget (S "ez_isomer_atoms") _) as [v|].
  - unfold bind. destruct (as_list v) as [[|x [|y r]]|]; try discriminate.
    destruct (as_int x); [|discriminate]. destruct (as_int y); [|discriminate].
    intros [= <-]. rewrite aget_aset_other by assumption. now apply aget_aset_other.
  - intros [= <-]. now apply aget_aset_other.
Qed.
Theorem chiral_stays_merge off fo a a' : merge_node off fo a = Ok a' -> aget (S "chiral") a' = aget (S "chiral") a.
Proof. apply merge_node_keeps; intros E; vm_compute in E; discriminate. Qed.

(** the annotation step touches 'ez_isomer' and 'ez_isomer_class' only *)
Lemma apply_appends_keeps apps a : a <> S "ez_isomer" -> forall g k,
  node_get (apply_appends g apps) k a = node_get g k a.
Proof.
  intros N. induction apps as [|kt r IH]; intros g k; cbn; [reflexivity|].
  unfold apply_appends in IH. rewrite IH. unfold append_ez. rewrite node_get_set.
  destruct (_ && _); [|reflexivity]. destruct (str_eqb_spec a (S "ez_isomer")); [contradiction|reflexivity].
Qed.
Lemma annotate_keeps g g' k a : a <> S "ez_isomer" -> a <> S "ez_isomer_class" ->
  annotate_ez_isomers_cgsmiles g = Ok g' -> node_get g' k a = node_get g k a.
Proof.
  intros N1 N2. unfold annotate_ez_isomers_cgsmiles, annotate_ez_isomers, bind.
  destruct (all_pairs g (ez_class_dict g)) as [ps|]; [|discriminate].
  destruct (appends_of ps) as [apps|]; [|discriminate]. intros [= <-].
  rewrite del_class_get by assumption. now apply apply_appends_keeps.
Qed.
Theorem chiral_stays_annotate g g' k : annotate_ez_isomers_cgsmiles g = Ok g' ->
  node_get g' k (S "chiral") = node_get g k (S "chiral") /\ node_keys g' = node_keys g.
Proof.
  intros H. split.
  - apply annotate_keeps; [intros E; vm_compute in E; discriminate|intros E; vm_compute in E; discriminate|assumption].
  - destruct (annotate_cg_inv _ _ H) as [_ [_ [_ [_ [Sh _]]]]]. now apply shape_node_keys.
Qed.

(** ------------------------------------------------------------------ chiral_stays through the relabelling *)
Definition node_na (g : graph) (k : Z) : option attrs := option_map na (gfind k g).

Lemma gfind_app g x k : gfind k (g ++ [x]) = match gfind k g with Some n => Some n | None => if Z.eqb (nk x) k then Some x else None end.
Proof. induction g as [|n r IH]; cbn; [reflexivity|]. destruct (Z.eqb (nk n) k); [reflexivity|exact IH]. Qed.

Lemma node_na_gupdate_keep k f g k' : (forall n, nk (f n) = nk n /\ na (f n) = na n) ->
  node_na (gupdate k f g) k' = node_na g k'.
Proof.
  intros Hf. unfold node_na. rewrite gfind_gupdate by (intros n; apply Hf).
  destruct (Z.eqb_spec k' k) as [->|_]; [|reflexivity]. destruct (gfind k g); cbn; [|reflexivity].
  now destruct (Hf n) as [_ ->].
Qed.
Lemma has_node_gupdate k f g k' : (forall n, nk (f n) = nk n) -> has_node (gupdate k f g) k' = has_node g k'.
Proof.
  intros Hf. unfold has_node. rewrite gfind_gupdate by assumption.
  destruct (Z.eqb_spec k' k) as [->|_]; [|reflexivity]. now destruct (gfind k g).
Qed.

Lemma add_edge_keeps g u v d k : has_node g k = true ->
  node_na (add_edge g u v d) k = node_na g k /\ has_node (add_edge g u v d) k = true.
Proof.
  intros H. unfold add_edge.
  set (g1 := if has_node g u then g else g ++ [{| nk := u; na := []; nadj := [] |}]).
  set (g2 := if has_node g1 v then g1 else g1 ++ [{| nk := v; na := []; nadj := [] |}]).
  assert (A1 : node_na g1 k = node_na g k /\ has_node g1 k = true).
  { unfold g1. destruct (has_node g u); [auto|]. unfold node_na, has_node in *. rewrite gfind_app.
    destruct (gfind k g); [auto|discriminate]. }
  assert (A2 : node_na g2 k = node_na g k /\ has_node g2 k = true).
  { unfold g2. destruct (has_node g1 v); [auto|]. destruct A1 as [E1 E2]. unfold node_na, has_node in *. rewrite gfind_app.
    destruct (gfind k g1); [auto|discriminate]. }
  destruct A2 as [E1 E2]. split.
  - rewrite !node_na_gupdate_keep by (intros n; cbn; auto). exact E1.
  - rewrite !has_node_gupdate by reflexivity. exact E2.
Qed.
Lemma add_edges_keep {E} (step : graph -> E -> graph) (es : list E) :
  (forall g e k, has_node g k = true -> node_na (step g e) k = node_na g k /\ has_node (step g e) k = true) ->
  forall g k, has_node g k = true -> node_na (fold_left step es g) k = node_na g k.
Proof.
  intros Hs. induction es as [|e r IH]; intros g k H; cbn; [reflexivity|].
  destruct (Hs g e k H) as [E1 E2]. rewrite IH by assumption. exact E1.
Qed.

Lemma has_node_add_node g k a k' : has_node g k' = true -> has_node (add_node g k a) k' = true.
Proof.
  intros H. unfold add_node. destruct (has_node g k) eqn:E.
  - now rewrite has_node_gupdate by reflexivity.
  - unfold has_node in *. rewrite gfind_app. now destruct (gfind k' g).
Qed.
Lemma has_node_add_node_same g k a : has_node (add_node g k a) k = true.
Proof.
  unfold add_node. destruct (has_node g k) eqn:E.
  - now rewrite has_node_gupdate by reflexivity.
  - unfold has_node in *. rewrite gfind_app. destruct (gfind k g); [reflexivity|]. cbn. now rewrite Z.eqb_refl.
Qed.

Section Relabel.
  Variable mu : Z -> Z.

  Lemma h0_has (l : list nrec) : forall h n, (In n l \/ has_node h (mu (nk n)) = true) ->
    has_node (fold_left (fun acc n => add_node acc (mu (nk n)) []) l h) (mu (nk n)) = true.
  Proof.
    induction l as [|x r IH]; intros h n H; cbn.
    - destruct H as [[]|H]; assumption.
    - apply IH. destruct H as [[->|I]|H]; [right; apply has_node_add_node_same|now left|right; now apply has_node_add_node].
  Qed.

  Definition put (acc : graph) (n : nrec) : graph :=
    gupdate (mu (nk n)) (fun x => {| nk := nk x; na := na n; nadj := nadj x |}) acc.
  Lemma put_other acc n k : k <> mu (nk n) -> node_na (put acc n) k = node_na acc k.
  Proof.
    intros N. unfold put, node_na. rewrite gfind_gupdate by reflexivity.
    destruct (Z.eqb_spec k (mu (nk n))); [contradiction|reflexivity].
  Qed.
  Lemma put_same acc n : has_node acc (mu (nk n)) = true -> node_na (put acc n) (mu (nk n)) = Some (na n).
  Proof.
    intros H. unfold put, node_na, has_node in *. rewrite gfind_gupdate by reflexivity. rewrite Z.eqb_refl.
    destruct (gfind (mu (nk n)) acc); [reflexivity|discriminate].
  Qed.
  Lemma put_has acc n k : has_node (put acc n) k = has_node acc k.
  Proof. unfold put. now rewrite has_node_gupdate by reflexivity. Qed.

  Lemma h1_na (l : list nrec) : NoDup (map (fun n => mu (nk n)) l) ->
    forall h, (forall n, In n l -> has_node h (mu (nk n)) = true) ->
    forall n, In n l -> node_na (fold_left put l h) (mu (nk n)) = Some (na n).
  Proof.
    induction l as [|x r IH]; intros ND h Hh n I; [contradiction|]. cbn.
    inversion ND as [|? ? NI ND']; subst. destruct I as [->|I].
    - (* the later writes touch other keys *)
      assert (K : forall l' h', ~ In (mu (nk n)) (map (fun m => mu (nk m)) l') ->
                  node_na (fold_left put l' h') (mu (nk n)) = node_na h' (mu (nk n))).
      { induction l' as [|y r' IH']; intros h' NI'; cbn; [reflexivity|].
        rewrite IH' by (intros C; apply NI'; now right). apply put_other. intros C. apply NI'. left. now rewrite C. }
      rewrite K by assumption. apply put_same. apply Hh. now left.
    - apply IH; [assumption| |assumption]. intros m Im. rewrite put_has. apply Hh. now right.
  Qed.
  Lemma fold_put_has l : forall h k, has_node (fold_left put l h) k = has_node h k.
  Proof. induction l as [|x r IH]; intros h k; cbn; [reflexivity|]. now rewrite IH, put_has. Qed.
End Relabel.

(** the attribute dict of every atom arrives unchanged at its new key *)
Theorem relabel_copy_attrs g m n : NoDup (map (fun x => map_get m (nk x)) g) -> In n g ->
  node_na (relabel_copy g m) (map_get m (nk n)) = Some (na n).
Proof.
  intros ND I. unfold relabel_copy.
  set (h0 := fold_left (fun acc n0 => add_node acc (map_get m (nk n0)) []) g gempty).
  assert (H0 : forall x, In x g -> has_node h0 (map_get m (nk x)) = true).
  { intros x Ix. unfold h0. apply (h0_has (map_get m)). now left. }
  set (h1 := fold_left _ g h0).
  assert (H1 : node_na h1 (map_get m (nk n)) = Some (na n)) by (apply (h1_na (map_get m)); assumption).
  assert (H1' : has_node h1 (map_get m (nk n)) = true).
  { unfold h1. change (fold_left _ g h0) with (fold_left (put (map_get m)) g h0). rewrite fold_put_has. now apply H0. }
  rewrite <- H1. apply add_edges_keep; [|assumption].
  intros g' e k Hk. apply add_edge_keeps. assumption.
Qed.

(** sort_nodes_by_attr = relabel_copy + rewriting of 'ez_isomer_atoms': the 'chiral' label of every atom
    is found at the atom's new key *)
Lemma set_nodes_from_other a d a' : a' <> a -> forall g k, node_get (set_nodes_from g a d) k a' = node_get g k a'.
Proof.
  intros N. unfold set_nodes_from. induction d as [|kv r IH]; intros g k; cbn; [reflexivity|].
  rewrite IH, node_get_set. destruct (_ && _); [|reflexivity].
  destruct (str_eqb_spec a' a); [contradiction|reflexivity].
Qed.
Theorem chiral_stays_sort g h m n : sort_mapping g = Ok m -> sort_nodes_by_attr g = Ok h ->
  NoDup (map (fun x => map_get m (nk x)) g) -> In n g ->
  node_get h (map_get m (nk n)) (S "chiral") = aget (S "chiral") (na n).
Proof.
  intros Hm Hs ND I. unfold sort_nodes_by_attr, bind in Hs. rewrite Hm in Hs.
  destruct (map_res _ _) as [nd|]; [|discriminate]. inversion Hs; subst h. clear Hs.
  rewrite set_nodes_from_other by (intros E; vm_compute in E; discriminate).
  pose proof (relabel_copy_attrs g m n ND I) as R. unfold node_na in R. unfold node_get.
  destruct (gfind (map_get m (nk n)) (relabel_copy g m)); cbn in R; [|discriminate]. now inversion R.
Qed.

(** ------------------------------------------------------------------ written order versus key order *)
(** general form of [class_iff_wrong]: kb1 = the first ligand's KEY is smaller than its anchor's (what the
    table tests), wb1 / wb2 = the ligands are WRITTEN before their anchors (what the marks mean).  For a
    ligand in its anchor's fragment kb = wb; for a marked substituent cut off from its anchor kb depends on
    the order in which the base graph lists the two fragments. *)
Theorem table_vs_geom kb1 wb1 wb2 t1 t2 : is_tok t1 = true -> is_tok t2 = true ->
  table kb1 t1 t2 =
  class_val (if table_broken kb1 wb1 wb2 then negb (geom_cis wb1 t1 wb2 t2) else geom_cis wb1 t1 wb2 t2).
Proof.
  intros T1 T2. destruct (is_tok_cases _ T1) as [-> | ->], (is_tok_cases _ T2) as [-> | ->];
  destruct kb1, wb1, wb2; reflexivity.
Qed.

(** the conflict test is a test on the two flags "key smaller than the anchor's" *)
Lemma conflict_check_flags a x y : s_lig x <> a -> s_lig y <> a ->
  conflict_check a [x; y] =
  if conflict_free (s_lig x <? a) (s_lig y <? a) (s_tok x) (s_tok y) then Ok tt else Err EValue.
Proof.
  intros Nx Ny. unfold conflict_check, conflict_free.
  assert (Gx : (a <? s_lig x) = negb (s_lig x <? a)).
  { destruct (s_lig x <? a) eqn:E; cbn; [apply Z.ltb_ge; apply Z.ltb_lt in E; lia|apply Z.ltb_lt; apply Z.ltb_ge in E; lia]. }
  assert (Gy : (a <? s_lig y) = negb (s_lig y <? a)).
  { destruct (s_lig y <? a) eqn:E; cbn; [apply Z.ltb_ge; apply Z.ltb_lt in E; lia|apply Z.ltb_lt; apply Z.ltb_ge in E; lia]. }
  rewrite Gx, Gy. destruct (s_lig x <? a), (s_lig y <? a), (pyval_eqb (s_tok x) (s_tok y)); reflexivity.
Qed.
Lemma conflict_free_flip b1 b2 t1 t2 : conflict_free (negb b1) b2 t1 t2 = negb (conflict_free b1 b2 t1 t2).
Proof. unfold conflict_free. destruct b1, b2, (pyval_eqb t1 t2); reflexivity. Qed.
(** marks that are consistent AS WRITTEN are rejected as soon as exactly one of the two ligands has its
    key on the other side of the anchor than where it was written *)
Theorem conflict_spurious a x y wbx wby : s_lig x <> a -> s_lig y <> a ->
  conflict_free wbx wby (s_tok x) (s_tok y) = true ->
  xorb (negb (Bool.eqb (s_lig x <? a) wbx)) (negb (Bool.eqb (s_lig y <? a) wby)) = true ->
  conflict_check a [x; y] = Err EValue.
Proof.
  intros Nx Ny C X. rewrite conflict_check_flags by assumption. unfold conflict_free in *.
  destruct (s_lig x <? a), (s_lig y <? a), wbx, wby, (pyval_eqb (s_tok x) (s_tok y)); cbn in *; congruence.
Qed.
Theorem conflict_agrees a x y wbx wby : s_lig x <> a -> s_lig y <> a ->
  xorb (negb (Bool.eqb (s_lig x <? a) wbx)) (negb (Bool.eqb (s_lig y <? a) wby)) = false ->
  conflict_check a [x; y] = if conflict_free wbx wby (s_tok x) (s_tok y) then Ok tt else Err EValue.
Proof.
  intros Nx Ny X. rewrite conflict_check_flags by assumption. unfold conflict_free in *.
  destruct (s_lig x <? a), (s_lig y <? a), wbx, wby, (pyval_eqb (s_tok x) (s_tok y)); cbn in *; congruence.
Qed.

(** refutations for a cut-off marked substituent: the same fragments, the base graph listing them in the
    other order, give (1) the opposite class, (2) a ValueError *)
Theorem cutoff_order_refuted :
  exists g1 g2 iso r1 r2,
    wf_graphb g1 = true /\ wf_graphb g2 = true /\ same_marked_moleculeb iso g1 g2 = true /\
    annotate_ez_isomers_cgsmiles g1 = Ok r1 /\ annotate_ez_isomers_cgsmiles g2 = Ok r2 /\
    in_class g1 = false /\ in_class g2 = false /\
    exists l1 a1 a2 l2,
      In (ez_tuple l1 a1 a2 l2 v_trans) (ez_list r1 l1) /\
      In (ez_tuple (iso l1) (iso a1) (iso a2) (iso l2) v_cis) (ez_list r2 (iso l1)).
Proof.
  exists w2_AB, w2_BA, w2_iso. eexists. eexists.
  repeat (split; [vm_compute; reflexivity|]).
  exists 0, 1, 3, 4. split; vm_compute; left; reflexivity.
Qed.
Theorem cutoff_conflict_refuted :
  exists g1 g2 iso r1,
    wf_graphb g1 = true /\ wf_graphb g2 = true /\ same_marked_moleculeb iso g1 g2 = true /\
    annotate_ez_isomers_cgsmiles g1 = Ok r1 /\ annotate_ez_isomers_cgsmiles g2 = Err EValue.
Proof.
  exists w3_AB, w3_BA, w2_iso. eexists. repeat (split; [vm_compute; reflexivity|]). vm_compute. reflexivity.
Qed.

(** ------------------------------------------------------------------ ground truth -> stored class *)
Lemma tok_of_is_tok u wb : is_tok (tok_of u wb) = true.
Proof. unfold tok_of. destruct (xorb u wb); reflexivity. Qed.
Lemma up_tok_of u wb : up wb (tok_of u wb) = u.
Proof. unfold up, tok_of. destruct u, wb; reflexivity. Qed.
Lemma pyval_eqb_eq : forall a b, pyval_eqb a b = true -> is_tok b = true -> a = b.
Proof.
  intros a b E T. destruct (is_tok_cases _ T) as [-> | ->]; destruct a; try discriminate; cbn in E; apply str_eqb_eq in E; now subst.
Qed.
Lemma sub_ok_tok ms x : sub_ok ms x = true -> exists m, sub_mark ms x = Some m /\ s_tok x = tok_of (m_up m) (m_wb m).
Proof.
  unfold sub_ok. destruct (sub_mark ms x) as [m|]; [|discriminate]. intros E. exists m. split; [reflexivity|].
  apply pyval_eqb_eq; [exact E|apply tok_of_is_tok].
Qed.
(** for a pair whose two ends carry the tokens their marks write, the stored class is the generator's ground truth
    ("same side" = cis) exactly when the table's assumptions hold, and its negation otherwise *)
Theorem class_predicted ms x y mx my : s_lig x <> s_anc x ->
  sub_mark ms x = Some mx -> sub_mark ms y = Some my ->
  s_tok x = tok_of (m_up mx) (m_wb mx) -> s_tok y = tok_of (m_up my) (m_wb my) ->
  pair_result (x, y) = Some (class_val (predicted_cis mx my)).
Proof.
  intros N Fx Fy Tx Ty. unfold pair_result. cbn [fst snd].
  rewrite interpret_table; [|exact N|rewrite Tx; apply tok_of_is_tok|rewrite Ty; apply tok_of_is_tok].
  f_equal. rewrite (table_vs_geom _ (m_wb mx) (m_wb my)) by (rewrite ?Tx, ?Ty; apply tok_of_is_tok).
  unfold predicted_cis. apply find_some in Fx. destruct Fx as [_ Fx]. apply andb_true_iff in Fx. destruct Fx as [Fl Fa].
  apply Z.eqb_eq in Fl. apply Z.eqb_eq in Fa. rewrite Fl, Fa.
  unfold geom_cis. rewrite Tx, Ty, !up_tok_of. reflexivity.
Qed.
(** the `unambiguous` predicate on the molecule the step receives: then EVERY tuple the step adds carries the predicted class *)
Theorem marks_ok_predicts g g' ms : wf_graph g -> marks_ok g ms = true -> annotate_ez_isomers_cgsmiles g = Ok g' ->
  forall k v, is_new g g' k v ->
  exists x y mx my, sub_mark ms x = Some mx /\ sub_mark ms y = Some my /\
    (v = ez_tuple (s_lig x) (s_anc x) (s_anc y) (s_lig y) (class_val (predicted_cis mx my)) \/
     v = ez_tuple (s_lig y) (s_anc y) (s_anc x) (s_lig x) (class_val (predicted_cis mx my))).
Proof.
  intros W M H k v [I NI]. destruct (annotate_cg_inv _ _ H) as [ps [apps [H1 [H2 [H3 H4]]]]].
  rewrite H4 in I. destruct (apply_appends_in _ _ _ _ I) as [Old|New]; [contradiction|].
  destruct (appends_of_in _ _ _ _ H2 New) as [x [y [c [Ip [Hc Hkv]]]]].
  unfold marks_ok in M. rewrite H1 in M. rewrite forallb_forall in M. specialize (M _ Ip). cbn [fst snd] in M.
  apply andb_true_iff in M. destruct M as [Mx My].
  destruct (sub_ok_tok _ _ Mx) as [mx [Fx Tx]]. destruct (sub_ok_tok _ _ My) as [my [Fy Ty]].
  assert (N : s_lig x <> s_anc x).
  { destruct (pair_path _ _ _ _ _ W H1 Ip) as [P _]. unfold path_ok in P. repeat (apply andb_true_iff in P; destruct P as [P ?]).
    intros E. rewrite E, Z.eqb_refl in *. discriminate. }
  pose proof (class_predicted ms x y mx my N Fx Fy Tx Ty) as R. unfold pair_result in R. cbn [fst snd] in R.
  rewrite Hc in R. inversion R; subst c.
  exists x, y, mx, my. split; [exact Fx|]. split; [exact Fy|]. destruct Hkv as [[_ ->]|[_ ->]]; auto.
Qed.
