(** EzProofs: proofs about the model of the E/Z annotation (EzImpl) for property C15. *)
From Coq Require Import String.
From Coq Require Import List Ascii ZArith Bool Lia.
From CGV Require Import Base.PyBase Base.PyVal Base.NxGraph Stereo.EzImpl Stereo.EzDefs.
Import ListNotations.
Open Scope Z_scope.

(** ------------------------------------------------------------------ the class table *)
(** compact form of the eight cases: a function of the two tokens and of ONE comparison *)
Definition table (lt : bool) (t1 t2 : pyval) : pyval :=
  if lt then (if Bool.eqb (is_slash t1) (is_slash t2) then v_trans else v_cis)
  else (if Bool.eqb (is_slash t1) (is_slash t2) then v_cis else v_trans).

Lemma is_tok_cases t : is_tok t = true -> t = tok_slash \/ t = tok_back.
Proof.
  unfold is_tok. intros H. apply orb_true_iff in H. destruct H as [H|H]; [left|right];
  destruct t; try discriminate; cbn in H; apply str_eqb_eq in H; now subst.
Qed.

Lemma interpret_table lf af t1 t2 : lf <> af -> is_tok t1 = true -> is_tok t2 = true ->
  interpret lf af t1 t2 = Some (table (lf <? af) t1 t2).
Proof.
  intros N H1 H2. unfold interpret, table.
  destruct (is_tok_cases _ H1) as [-> | ->], (is_tok_cases _ H2) as [-> | ->];
  destruct (lf <? af) eqn:E1; cbn; try reflexivity;
  (assert (af <? lf = true) as -> by (apply Z.ltb_lt; apply Z.ltb_ge in E1; lia)); reflexivity.
Qed.
