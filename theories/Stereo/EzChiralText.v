(** EzChiralText: chiral_stays FROM THE TEXT.  The chirality label of CGsmiles is the fragment annotation `x=R` / `x=S`
    (`[C;x=R]`, dialect key x -> attribute `chiral`).  Instance of the Dialect component's text theorem
    (Dialect/TextAnnot.text_annotation_reaches_returned_graph, key `chiral`): the label written on the i-th atom token of
    the text of fragment `name` is the `chiral` attribute of EVERY copy of that atom in the all-atom graph one resolve()
    returns, at the returned key of the atom, for every cut placement and every order of the parts; and an atom whose token
    carries no such key has no `chiral` attribute on any copy.  Chain: Frag/StripImpl.strip_bonding_descriptors on the text
    (through strip_correct), Hydro/Fragments.read_fragment_post on the transcript [g0] of pysmiles.read_smiles(clean text),
    Resolve/PipelineFull.resolve_step_full over Compose's cut model with any aromaticity transcript Hydro's contract allows. *)
From Coq Require Import String.
From Coq Require Import List Ascii ZArith Bool Lia.
From CGV Require Import Base.PyBase Base.PyVal Base.NxGraph Dialect.DialectImpl Dialect.DialectDefs
     Frag.NDict Frag.StripImpl Frag.FragText Hydro.Fragments Hydro.HydroDefs
     Resolve.Bonding Resolve.GraphOps Resolve.CopyProofs Resolve.Pipeline Resolve.PipelineFull Compose.CutModel.
From CGV Require Hydro.Hydrogens Resolve.SortGraphProofs.
From CGV Require Import Dialect.FragAnnot Dialect.TemplateAnnot Dialect.ReturnedAnnot Dialect.ReturnedCar Dialect.TextAnnot.
Import ListNotations.
Open Scope Z_scope.

Lemma chiral_returned_key' : returned_key (S "chiral").
Proof. repeat split; intros E; vm_compute in E; discriminate. Qed.
Lemma chiral_not_written : ~ In (S "chiral") written_keys.
Proof. unfold written_keys. cbn. intros H. repeat (destruct H as [H|H]; [vm_compute in H; discriminate|]). exact H. Qed.
Lemma chiral_not_default : ~ In (S "chiral") default_keys.
Proof. unfold default_keys. cbn. intros H. repeat (destruct H as [H|H]; [vm_compute in H; discriminate|]). exact H. Qed.
Lemma chiral_not_aromatic : S "chiral" <> S "aromatic".
Proof. intros E; vm_compute in E; discriminate. Qed.

(** the annotation texts `x=R`, `x=S` parse to the attribute `chiral` (for every float oracle: the default weight 1.0
    is not converted) *)
Lemma parse_x_R fo : exists a, fragment_node_parser fo (S "x=R") = Ok a /\ In (S "chiral", VStr (S "R")) a.
Proof. eexists. split; [vm_compute; reflexivity|]. cbn. auto. Qed.
Lemma parse_x_S fo : exists a, fragment_node_parser fo (S "x=S") = Ok a /\ In (S "chiral", VStr (S "S")) a.
Proof. eexists. split; [vm_compute; reflexivity|]. cbn. auto. Qed.

Theorem chiral_text_reaches_returned_graph fo name toks dc :
  FragText.wf toks dc = true -> excluded toks dc = false ->
  forall clean desc ez ann, strip_bonding_descriptors fo (FragText.render (decorate toks dc)) = Ok (clean, desc, ez, ann) ->
  forall g0 bonding ezl T, NoDup (node_keys g0) -> read_fragment_post g0 name bonding ezl (ann_list ann) = Ok T ->
  forall C, wf_cut C -> forall fd, templates_ok C fd -> wf_dict fd -> fd_get name fd = Some T ->
  forall B, is_base C B ->
  (forall x, In x (flat C) ->
    (exists e, aget (S "element") (payload C x) = Some e) /\ (exists q, aget (S "charge") (payload C x) = Some q) /\
    (exists h, aget (S "hcount") (payload C x) = Some (VInt h)) /\ Hydrogens.is_H (payload C x) = false) ->
  forall prev g1 fo_, meta_of prev = B -> resolve_step_full true true fd prev (Some g1) = Ok fo_ -> dicts (fo_m3 fo_) ->
  exists m, sort_mapping (fo_m4 fo_) = Ok m /\ SortGraphProofs.inj_on (map_get m) (node_keys (fo_m4 fo_)) /\
    (* the label written on an atom token ... *)
    (forall pre body annot post a v n0,
       decorate toks dc = pre ++ ITok (TBracket body annot) :: post ->
       fragment_node_parser fo (annot_text annot) = Ok a -> In (S "chiral", v) a ->
       gfind (Z.of_nat (atoms_of pre)) g0 = Some n0 ->
       forall p xs x, nth_error (c_parts C) p = Some (name, xs) -> nth_error xs (atoms_of pre) = Some x ->
         node_get (fo_mol fo_) (map_get m (phi C x)) (S "chiral") = Some v) /\
    (* ... and no label where none was written *)
    (forall j n,
       gfind (Z.of_nat j) T = Some n ->
       has_node g0 (Z.of_nat j) = true -> node_get g0 (Z.of_nat j) (S "chiral") = None ->
       (forall a, nd_get j ann = Some a -> aget (S "chiral") a = None /\ aget (S "element") a = None) ->
       (nd_get j ann <> None \/ node_get g0 (Z.of_nat j) (S "element") <> Some (VStr (S "H"))) ->
       forall p xs y, nth_error (c_parts C) p = Some (name, xs) -> nth_error xs j = Some y ->
         node_get (fo_mol fo_) (map_get m (phi C y)) (S "chiral") = None).
Proof.
  intros Wt Xt clean desc ez ann Strip g0 bonding ezl T G0 Post C W fd HT Hwfd Hname B HB Hatoms prev g1 fo_ HM Step HD.
  destruct (text_annotation_reaches_returned_graph fo name toks dc Wt Xt clean desc ez ann Strip g0 bonding ezl T G0 Post
              C W fd HT Hwfd Hname B HB Hatoms prev g1 fo_ HM Step HD) as (m & Em & Inj & H1).
  destruct (text_annotation_not_gained fo name toks dc Wt Xt clean desc ez ann Strip g0 bonding ezl T G0 Post
              C W fd HT Hwfd Hname B HB Hatoms prev g1 fo_ HM Step HD) as (m' & Em' & H2).
  rewrite Em in Em'. inversion Em'; subst m'.
  exists m. split; [exact Em|]. split; [exact Inj|]. split.
  - intros pre body annot post a v n0 D Hp Hkv Gi p xs x Ep Ex.
    exact (H1 pre body annot post a (S "chiral") v n0 D Hp Hkv Gi chiral_not_written chiral_returned_key' chiral_not_aromatic p xs x Ep Ex).
  - intros j n Gn Hj H0 Ha Hc p xs y Ep Ey.
    exact (H2 j (S "chiral") n Gn Hj H0 Ha Hc chiral_not_written chiral_not_default chiral_returned_key' chiral_not_aromatic p xs y Ep Ey).
Qed.

(** ---- non-vacuity: {[#A][#A]}.{#A=C[C;x=R][$]} - fragment A used twice, its atom 1 labelled R *)
From CGV Require Import Compose.CutSpecDefs Compose.CutSpecCheck Compose.CutHydrogens Dialect.ReturnedExample.
From CGV Require Hydro.Squash.
Definition cx_toks : list tok := [TAtom (S "C"); TBracket (S "C") (Some (S "x=R"))].
Definition cx_dc : decor := {| d_lead := []; d_after := [[]; [{| d_kind := "$"%char; d_label := []; d_sym := None |}]] |}.
Definition cx_fo : float_oracle := fo_of_table [].
Definition cx_ann : ndict attrs :=
  match strip_bonding_descriptors cx_fo (FragText.render (decorate cx_toks cx_dc)) with Ok (_, _, _, a) => a | Err _ => [] end.
(** pysmiles.read_smiles("C[C]") as the transcript *)
Definition cx_g0 : graph :=
  add_edge (add_node (add_node gempty 0 (catom 3 [])) 1 (catom 0 [])) 0 1 [(S "order", VInt 1)].
Definition cx_T : graph :=
  match read_fragment_post cx_g0 (S "A") [(1, VList [VStr (S "$1")])] [] (ann_list cx_ann) with Ok T => T | Err _ => gempty end.
Definition cx_extra : attrs := [(S "weight", VFlt (S "1.0")); (S "chiral", VStr (S "R"))].
Definition cx_cut : cut := {|
  c_atoms := [(1, catom 3 []); (2, catom 0 cx_extra); (3, catom 3 []); (4, catom 0 cx_extra)];
  c_bonds := [ {| cb_u := 1; cb_v := 2; cb_ord := VInt 1; cb_lab := []; cb_dollar := true |};
               {| cb_u := 3; cb_v := 4; cb_ord := VInt 1; cb_lab := []; cb_dollar := true |};
               {| cb_u := 2; cb_v := 4; cb_ord := VInt 1; cb_lab := []; cb_dollar := true |} ];
  c_parts := [(S "A", [1; 2]); (S "A", [3; 4])]; c_dord := [] |}.
Definition cx_fd : fragdict := [(S "A", cx_T)].
Definition cx_m3 : option graph :=
  match resolve_disconnected cx_fd (base_of cx_cut) with
  | Ok (m1, fg1) => match bonding_step true true (base_of cx_cut) m1 fg1 with
                    | Ok (m2, _) => match Squash.squash_atoms m2 with Ok m3 => Some m3 | _ => None end | _ => None end
  | _ => None end.

Example chiral_text_nonvacuous :
  to_string (FragText.render (decorate cx_toks cx_dc)) = "C[C;x=R][$]"%string /\
  FragText.wf cx_toks cx_dc = true /\ excluded cx_toks cx_dc = false /\
  (exists clean desc ez, strip_bonding_descriptors cx_fo (FragText.render (decorate cx_toks cx_dc)) = Ok (clean, desc, ez, cx_ann)) /\
  NoDup (node_keys cx_g0) /\ read_fragment_post cx_g0 (S "A") [(1, VList [VStr (S "$1")])] [] (ann_list cx_ann) = Ok cx_T /\
  wf_cut cx_cut /\ templates_ok cx_cut cx_fd /\ wf_dict cx_fd /\ fd_get (S "A") cx_fd = Some cx_T /\ is_base cx_cut (base_of cx_cut) /\
  (forall x, In x (flat cx_cut) ->
     (exists e, aget (S "element") (payload cx_cut x) = Some e) /\ (exists q, aget (S "charge") (payload cx_cut x) = Some q) /\
     (exists h, aget (S "hcount") (payload cx_cut x) = Some (VInt h)) /\ Hydrogens.is_H (payload cx_cut x) = false) /\
  meta_of (base_of cx_cut) = base_of cx_cut /\
  (exists a, decorate cx_toks cx_dc = [ITok (TAtom (S "C"))] ++ ITok (TBracket (S "C") (Some (S "x=R"))) :: [IDesc {| d_kind := "$"%char; d_label := []; d_sym := None |}] /\
             fragment_node_parser cx_fo (annot_text (Some (S "x=R"))) = Ok a /\ In (S "chiral", VStr (S "R")) a /\
             atoms_of [ITok (TAtom (S "C"))] = 1%nat) /\
  match cx_m3 with
  | Some m3 =>
      dictsb m3 = true /\
      match resolve_step_full true true cx_fd (base_of cx_cut) (Some m3) with
      | Ok fo => map (fun k => node_get (fo_mol fo) k (S "chiral")) [0; 1; 7; 8] = [None; Some (VStr (S "R")); None; Some (VStr (S "R"))]
      | Err _ => False
      end
  | None => False
  end.
Proof.
  split; [vm_compute; reflexivity|]. split; [vm_compute; reflexivity|]. split; [vm_compute; reflexivity|].
  split; [eexists _, _, _; vm_compute; reflexivity|].
  split; [vm_compute; repeat constructor; cbn; intuition discriminate|]. split; [vm_compute; reflexivity|].
  split; [apply wf_cutb_sound; vm_compute; reflexivity|].
  split; [apply templates_okb_sound; vm_compute; reflexivity|].
  split.
  { intros name g H. cbn [cx_fd fd_get] in H.
    destruct (str_eqb name (S "A")); [|discriminate];
      inversion H; subst g; (split; [vm_compute; repeat constructor; cbn; intuition discriminate|]);
      intros u v d Hin; vm_compute in Hin; repeat (destruct Hin as [Hin|Hin]; [inversion Hin; subst; vm_compute; auto|]); contradiction. }
  split; [reflexivity|]. split; [apply is_baseb_sound; vm_compute; reflexivity|].
  split.
  { intros x Hx. cbn in Hx. repeat destruct Hx as [<-|Hx]; try contradiction; repeat split; try (eexists; vm_compute; reflexivity); vm_compute; reflexivity. }
  split; [vm_compute; reflexivity|].
  split; [eexists; split; [vm_compute; reflexivity|]; split; [vm_compute; reflexivity|]; split; [cbn; auto|vm_compute; reflexivity]|].
  vm_compute. repeat split; reflexivity.
Qed.
