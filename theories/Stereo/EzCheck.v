(** EzCheck: executable form of property C15's clauses, evaluated on the molecule the
    IMPLEMENTATION returned ([prop_fail]), and the correspondence of the model of
    annotate_ez_isomers_cgsmiles with the implementation ([corr_ok]).
    Imports only the model and the definitions, never a proof file. *)
From Coq Require Import String.
From Coq Require Import List Ascii ZArith Bool.
From CGV Require Import Base.PyBase Base.PyVal Base.NxGraph Dialect.DialectImpl Resolve.PipelineFull Stereo.EzImpl Stereo.EzDefs Stereo.EzStrings.
Import ListNotations.
Open Scope Z_scope.

(** ------------------------------------------------------------------ correspondence *)
(** multiset equality of two lists of values (the 'ez_isomer' lists: Python fills them while
    iterating a set of ints, see EzImpl) *)
Fixpoint remove_val (x : pyval) (l : list pyval) : option (list pyval) :=
  match l with
  | [] => None
  | y :: r => if pyval_eqb x y then Some r
              else match remove_val x r with Some r' => Some (y :: r') | None => None end
  end.
Fixpoint ez_list_eqb (a b : list pyval) : bool :=
  match a with
  | [] => match b with [] => true | _ => false end
  | x :: a' => match remove_val x b with Some b' => ez_list_eqb a' b' | None => false end
  end.
Definition ez_val_eqb (x y : option pyval) : bool :=
  match x, y with
  | None, None => true
  | Some (VList a), Some (VList b) => ez_list_eqb a b
  | _, _ => false
  end.
Definition node_ez_eqb (a b : attrs) : bool :=
  attrs_eqb (adel (S "ez_isomer") a) (adel (S "ez_isomer") b)
  && ez_val_eqb (aget (S "ez_isomer") a) (aget (S "ez_isomer") b).
Fixpoint adj_eqb (a b : list (Z * attrs)) : bool :=
  match a, b with
  | [], [] => true
  | (u, x) :: a', (v, y) :: b' => Z.eqb u v && attrs_eqb x y && adj_eqb a' b'
  | _, _ => false
  end.
(** node order, attribute dicts (key order ignored, 'ez_isomer' as a multiset), adjacency order *)
Fixpoint graph_ez_eqb (a b : graph) : bool :=
  match a, b with
  | [], [] => true
  | x :: a', y :: b' =>
      Z.eqb (nk x) (nk y) && node_ez_eqb (na x) (na y) && adj_eqb (nadj x) (nadj y) && graph_ez_eqb a' b'
  | _, _ => false
  end.

(** ------------------------------------------------------------------ the case record *)
Record case := {
  c_judged : bool;                   (* false: outside the property's domain (correspondence-only case) *)
  c_before : option graph;           (* molecule handed to annotate_ez_isomers_cgsmiles (None: not reached) *)
  c_after : option graph;            (* the same object afterwards (None: it raised) *)
  c_ret : option graph;              (* molecule returned by resolve_all() (None: the resolver raised) *)
  c_atoms : list (Z * pystr);        (* the written molecule: atom id, element *)
  c_bonds : list (Z * Z * Z);        (*   heavy-atom bonds with order *)
  c_ident : list (Z * Z);            (* returned key -> atom id (found by the harness from the neighbourhoods; CHECKED below) *)
  c_chiral : list (Z * pystr);       (* atom id -> label as written *)
  c_rel : list (Z * Z * Z * Z * bool);  (* reference relations (l1, a1, a2, l2, cis) in atom ids *)
  c_wb : list (Z * Z * bool * bool);    (* marked (ligand id, anchor id): ligand WRITTEN before its anchor;
                                           ligand cut off from its anchor (mark written at both ends of the cut) *)
  c_frags : list (pystr * pystr * (list (Z * attrs) * list (Z * Z * attrs)));
                                        (* fragment name, fragment text, the graph read_fragments built for it
                                           (nodes with element / chiral / ez_isomer_class / bonding, edges with order) *)
  c_str : option pystr;                 (* the whole CGsmiles string (EzStrings.resolve_string); None for raw-graph cases *)
  c_side : list (Z * Z * bool);         (* marked (ligand id, anchor id): the ligand is on the upper side of the double bond's
                                           axis (the generator's ground truth; cis = same side) *)
  c_simtok : list (pystr * list (Z * pystr))
                                        (* fragment name -> the per-atom token store the GENERATOR simulated for its text
                                           (text position, token); its `unambiguous` filter is computed from this *)
}.

(** ---- the models FROM STRINGS (EzStrings) against the implementation *)
Definition fo_check : float_oracle := fo_of_table [(S "0.5", Some (S "0.5"))].
Definition restrict_attrs (keys : list pystr) (a : attrs) : attrs := filter (fun kv => str_in (fst kv) keys) a.
Definition restrict_graph (nkeys ekeys : list pystr) (g : graph) : graph :=
  map (fun n => {| nk := nk n; na := restrict_attrs nkeys (na n);
                   nadj := map (fun wa => (fst wa, restrict_attrs ekeys (snd wa))) (nadj n) |}) g.
Definition frag_keys : list pystr := [S "element"; S "chiral"; S "ez_isomer_class"; S "bonding"].
(** the fragment graph built from the fragment TEXT by strip + pysmiles parser + template models has the nodes, the marks,
    the labels, the descriptors and the bonds of the graph read_fragments built *)
Definition frag_ok (f : pystr * pystr * (list (Z * attrs) * list (Z * Z * attrs))) : bool :=
  let '(name, text, obs) := f in
  match marked_template fo_check name text with
  | Ok g => obs_eqb (observe (restrict_graph frag_keys [S "order"] g)) obs
  | Err _ => false
  end.
Definition before_keys : list pystr := [S "element"; S "fragid"; S "chiral"; S "ez_isomer_class"; S "ez_isomer"].
(** the whole model from the CGsmiles string reaches the molecule the annotation step received and the one returned
    (on the keys element, fragid, chiral, ez_isomer_class, ez_isomer and the bond orders; `hcount` is not compared, see EzStrings) *)
Definition string_ok (c : case) : bool :=
  match c_str c with
  | None => true
  | Some s =>
      match resolve_string fo_check s, c_before c, c_ret c with
      | Ok fo, Some b, Some r =>
          graph_ez_eqb (restrict_graph before_keys [S "order"] (fo_m5 fo)) b
          && graph_ez_eqb (restrict_graph before_keys [S "order"] (fo_mol fo)) r
      | Err _, _, None => true
      | _, _, _ => false
      end
  end.

Definition corr_ok_step (c : case) : bool :=
  match c_before c with
  | None => true
  | Some g =>
      wf_graphb g &&
      match annotate_ez_isomers_cgsmiles g, c_after c with
      | Ok g', Some h => graph_ez_eqb g' h
      | Err _, None => true
      | _, _ => false
      end
  end.

(** ---- the generator's ground truth: marks in the keys of the recorded molecule (inverse of the identification; the
    written-before flag defaults to the key order, i.e. ligand and anchor in one fragment) *)
Definition key_of (m : list (Z * Z)) (i : Z) : option Z :=
  match find (fun kv => Z.eqb (snd kv) i) m with Some kv => Some (fst kv) | None => None end.
Definition marks_of (c : case) : list mark :=
  flat_map (fun e => let '(l, a, u) := e in
              match key_of (c_ident c) l, key_of (c_ident c) a with
              | Some kl, Some ka =>
                  let wb := match find (fun w => let '(x, y, _, _) := w in Z.eqb x l && Z.eqb y a) (c_wb c) with
                            | Some (_, _, w, _) => w
                            | None => kl <? ka
                            end in
                  [{| m_lig := kl; m_anc := ka; m_up := u; m_wb := wb |}]
              | _, _ => []
              end) (c_side c).
(** the `unambiguous` filter of the generator as a predicate on what the implementation stored *)
Definition case_marks_ok (c : case) : bool :=
  match c_before c with Some g => marks_ok g (marks_of c) | None => false end.
(** EzProofs.marks_ok_predicts read on the implementation's RETURNED molecule: whenever the marks are as intended, every
    pair the model forms is stored with the class predicted from the ground truth and the key/written order - inside
    and outside the defect classes *)
Definition predict_ok (c : case) : bool :=
  match c_before c, c_ret c with
  | Some g, Some r =>
      let ms := marks_of c in
      if c_judged c && marks_ok g ms then
        match all_pairs g (ez_class_dict g) with
        | Ok ps => forallb (fun p => match sub_mark ms (fst p), sub_mark ms (snd p) with
                                     | Some mx, Some my =>
                                         let x := fst p in let y := snd p in
                                         existsb (pyval_eqb (ez_tuple (s_lig x) (s_anc x) (s_anc y) (s_lig y) (class_val (predicted_cis mx my))))
                                                 (ez_list r (s_lig x))
                                     | _, _ => false
                                     end) ps
        | Err _ => false
        end
      else true
  | _, _ => true
  end.
(** the generator's simulation of the token store agrees with the MODEL of strip_bonding_descriptors + template on the
    same text (which frag_ok ties to the implementation): the tagged positions and their tokens are the same *)
Definition simtok_ok (c : case) : bool :=
  forallb (fun nt =>
     match find (fun f => str_eqb (fst (fst f)) (fst nt)) (c_frags c) with
     | Some (name, text, _) =>
         match marked_template fo_check name text with
         | Ok g =>
             let got := get_node_attributes g (S "ez_isomer_class") in
             Nat.eqb (length got) (length (snd nt))
             && forallb (fun kt => match ez_get (fst kt) got with
                                   | Some v => pyval_eqb v (VStr (snd kt))
                                   | None => false
                                   end) (snd nt)
         | Err _ => false
         end
     | None => true
     end) (c_simtok c).
Definition corr_ok (c : case) : bool :=
  corr_ok_step c && forallb frag_ok (c_frags c) && string_ok c && predict_ok c && simtok_ok c.
(** which part disagrees (diagnosis only): 1 annotation step, 2 a fragment template, 3 the model from the string,
    4 the class predicted from the ground truth, 5 the generator's token-store simulation *)
Definition corr_diag (c : case) : nat :=
  if negb (corr_ok_step c) then 1%nat else if negb (forallb frag_ok (c_frags c)) then 2%nat
  else if negb (string_ok c) then 3%nat else if negb (predict_ok c) then 4%nat
  else if negb (simtok_ok c) then 5%nat else 0%nat.

(** ------------------------------------------------------------------ the property's clauses *)
Fixpoint zlookup (k : Z) (m : list (Z * Z)) : option Z :=
  match m with [] => None | (a, b) :: r => if Z.eqb k a then Some b else zlookup k r end.
Definition ident_of (m : list (Z * Z)) (k : Z) : Z := match zlookup k m with Some v => v | None => -1 end.
Definition is_h (g : graph) (k : Z) : bool :=
  match node_get g k (S "element") with Some (VStr e) => str_eqb e (S "H") | _ => false end.
Definition bond_in (bs : list (Z * Z * Z)) (a b o : Z) : bool :=
  existsb (fun x => let '(p, q, r) := x in Z.eqb r o && ((Z.eqb p a && Z.eqb q b) || (Z.eqb p b && Z.eqb q a))) bs.
Definition order_z (d : attrs) : Z :=
  match aget (S "order") d with
  | Some (VInt z) => z
  | Some (VFlt r) => if str_eqb r (S "2.0") then 2 else if str_eqb r (S "1.5") then -1 else -2    (* aromatic: -1 *)
  | _ => -2
  end.

(** the harness' identification IS an isomorphism of the returned molecule's recognisable atoms onto the
    written molecule (elements, bonds, orders); the generator makes that isomorphism unique.  Recognisable =
    every non-hydrogen atom, plus an explicitly written hydrogen ([H]/C(F)=…) when it is the ONLY hydrogen of
    its only neighbour (checked here), so that it cannot be confused with a completed hydrogen. *)
Definition h_neighbours (g : graph) (k : Z) : list Z := filter (is_h g) (neighbors g k).
Definition ident_ok (c : case) (g : graph) : bool :=
  let m := c_ident c in
  let inm := fun k => existsb (Z.eqb k) (map fst m) in
  let core := filter (fun n => negb (is_h g (nk n)) || inm (nk n)) g in
  Nat.eqb (length core) (length (c_atoms c))
  && Nat.eqb (length m) (length (c_atoms c))
  && nodup_keysb (map snd m) && nodup_keysb (map fst m)
  && forallb (fun n => match zlookup (nk n) m with
                       | Some i => match find (fun a => Z.eqb (fst a) i) (c_atoms c), aget (S "element") (na n) with
                                   | Some (_, e), Some (VStr e') => str_eqb e e'
                                   | _, _ => false
                                   end
                       | None => false
                       end) core
  && forallb (fun n => negb (is_h g (nk n))
                       || match neighbors g (nk n) with
                          | [a] => Nat.eqb (length (h_neighbours g a)) 1
                          | _ => false
                          end) core
  && (let hh := filter (fun e => let u := fst (fst e) in let v := snd (fst e) in
                                 (negb (is_h g u) || inm u) && (negb (is_h g v) || inm v)) (edges_data g) in
      Nat.eqb (length hh) (length (c_bonds c))
      && forallb (fun e => bond_in (c_bonds c) (ident_of m (fst (fst e))) (ident_of m (snd (fst e))) (order_z (snd e))) hh).

(** clause (b): the labelled atoms, as (atom id, label), are exactly the written ones *)
Definition chiral_got (c : case) (g : graph) : list (Z * pystr) :=
  flat_map (fun n => match aget (S "chiral") (na n) with
                     | Some (VStr l) => [(ident_of (c_ident c) (nk n), l)]
                     | Some _ => [(-2, [])]
                     | None => []
                     end) g.
Definition zs_mem (x : Z * pystr) (l : list (Z * pystr)) : bool :=
  existsb (fun y => Z.eqb (fst x) (fst y) && str_eqb (snd x) (snd y)) l.
Definition chiral_ok (c : case) (g : graph) : bool :=
  let got := chiral_got c g in
  Nat.eqb (length got) (length (c_chiral c))
  && forallb (fun x => zs_mem x (c_chiral c)) got && forallb (fun x => zs_mem x got) (c_chiral c).

(** clause (c): relations in atom ids *)
Definition rel := (Z * Z * Z * Z * bool)%type.
Definition rel_got (c : case) (g : graph) : list rel :=
  flat_map (fun n => flat_map (fun v => match as_tuple5 v with
                                        | Some (l1, a1, a2, l2, cl) =>
                                            let i := ident_of (c_ident c) in
                                            [(i l1, i a1, i a2, i l2, pyval_eqb cl v_cis)]
                                        | None => []
                                        end) (ez_list g (nk n))) g.
Definition rel_want (c : case) : list rel :=
  flat_map (fun r => let '(l1, a1, a2, l2, cl) := r in [(l1, a1, a2, l2, cl); (l2, a2, a1, l1, cl)]) (c_rel c).
Definition same_quad (x y : rel) : bool :=
  let '(a, b, c, d, _) := x in let '(a', b', c', d', _) := y in
  Z.eqb a a' && Z.eqb b b' && Z.eqb c c' && Z.eqb d d'.
Definition rel_cls (x : rel) : bool := snd x.
(** some stored relation contradicts the reference *)
Definition rel_contradiction (got want : list rel) : bool :=
  existsb (fun x => existsb (fun y => same_quad x y && negb (Bool.eqb (rel_cls x) (rel_cls y))) want) got.
Definition rel_same_support (got want : list rel) : bool :=
  Nat.eqb (length got) (length want)
  && forallb (fun x => existsb (same_quad x) want) got && forallb (fun y => existsb (same_quad y) got) want.

(** ---- the known-finding classes.  kb = ligand key < anchor key; wb = ligand written before its anchor
    (taken from the variant; kb when both lie in one fragment).  pysmiles' table uses kb of the FIRST ligand
    and assumes wb = false for the second; its conflict test uses kb of both ligands of one anchor. *)
Definition wb_lookup (c : case) (l a : Z) : bool * bool :=
  let i := ident_of (c_ident c) in
  match find (fun e => let '(x, y, _, _) := e in Z.eqb x (i l) && Z.eqb y (i a)) (c_wb c) with
  | Some (_, _, w, cut) => (w, cut)
  | None => (l <? a, false)
  end.
Definition flipped (c : case) (x : sub) : bool :=
  negb (Bool.eqb (s_lig x <? s_anc x) (fst (wb_lookup c (s_lig x) (s_anc x)))).
Definition pair_broken (c : case) (p : sub * sub) : bool :=
  table_broken (s_lig (fst p) <? s_anc (fst p)) (fst (wb_lookup c (s_lig (fst p)) (s_anc (fst p))))
               (fst (wb_lookup c (s_lig (snd p)) (s_anc (snd p)))).
Definition pair_cut (c : case) (p : sub * sub) : bool :=
  snd (wb_lookup c (s_lig (fst p)) (s_anc (fst p))) || snd (wb_lookup c (s_lig (snd p)) (s_anc (snd p))).
(** 0: no pair breaks the table's assumptions; 14: some pair does and no cut-off ligand is involved (then
    simply: the second ligand's key is smaller than its anchor's, EzDefs.in_class); 15: with a cut-off ligand *)
Definition case_class_code (c : case) : nat :=
  match c_before c with
  | Some g =>
      match all_pairs g (ez_class_dict g) with
      | Ok ps => if existsb (fun p => pair_broken c p && pair_cut c p) ps then 15%nat
                 else if existsb (pair_broken c) ps then 14%nat else 0%nat
      | Err _ => 0%nat
      end
  | None => 0%nat
  end.
(** the conflict test raised although the marks are consistent as written: exactly one of the two
    tagged ligands of an anchor has its key on the other side of the anchor than where it was written *)
Definition anchor_conflict (c : case) (g : graph) (ez : ezdict) (a o : Z) : bool :=
  match on_anchor g ez a o with
  | [x; y] => xorb (flipped c x) (flipped c y)
  | _ => false
  end.
Definition conflict_class (c : case) : bool :=
  match c_before c with
  | Some g =>
      let ez := ez_class_dict g in
      match annotate_ez_isomers_cgsmiles g with Err EValue => true | _ => false end
      && existsb (fun e => let '(a1, a2, d) := e in
                           is_two (aget (S "order") d) && (anchor_conflict c g ez a1 a2 || anchor_conflict c g ez a2 a1))
                 (edges_data g)
  | None => false
  end.

(** 0 = all clauses hold; otherwise the number of the first failing clause
    (14, 15, 16: the failure lies inside a known defect class, see above) *)
Definition prop_fail (c : case) : nat :=
  if negb (c_judged c) then 0%nat else
  match c_ret c with
  | None => if conflict_class c then 16%nat else 9%nat
  | Some g =>
      if negb (wf_graphb g && ident_ok c g) then 1%nat
      else if negb (refs_ok g) then 2%nat
      else if negb (chiral_ok c g) then 3%nat
      else if rel_contradiction (rel_got c g) (rel_want c) then
             match case_class_code c with 0%nat => 4%nat | n => n end
      else if negb (rel_same_support (rel_got c g) (rel_want c)) then 5%nat
      else 0%nat
  end.
