(** EzReturned: the C15 statements on the graph ONE all-atom resolve() RETURNS, in the end-to-end model
    Resolve/PipelineFull.resolve_step_full (every stage a model of its own component; the only transcript is the
    graph right after pysmiles' aromaticity correction).  The annotation step is the 6th stage; after it only
    set_atom_names_atomistic touches the fine graph, and it writes `atomname` only. *)
From Coq Require Import String.
From Coq Require Import List Ascii ZArith Bool Lia.
From CGV Require Import Base.PyBase Base.PyVal Base.NxGraph Resolve.Bonding Resolve.GraphOps Resolve.Pipeline Resolve.PipelineFull
     Resolve.FragidProofs Stereo.EzImpl Stereo.EzDefs Stereo.EzProofs Stereo.EzBuilt.
From CGV Require Hydro.Hydrogens Hydro.Squash.
From CGV Require Import Dialect.ReturnedAnnot.
Import ListNotations.
Open Scope Z_scope.

(** set_atom_names_atomistic keeps keys and adjacency *)
Lemma set_atom_names_shape mol meta fgs mol' fgs' : set_atom_names mol meta fgs = Ok (mol', fgs') -> shape mol' = shape mol.
Proof.
  unfold set_atom_names, bind.
  destruct (GraphOps.fold_res name_group2 (fraglist_of meta fgs) (mol, fgs, [], [])) as [r|] eqn:E; [|discriminate].
  intros H. apply ok_some in H. injection H as H1 H2. subst mol'.
  apply (fold_res_inv (fun st : nstate => shape (ns_mol st) = shape mol) name_group2 _) with (st := (mol, fgs, [], [])) (st' := r) in E;
    [exact E| |reflexivity].
  intros st grp st' Hs Hn. unfold name_group2 in Hn. destruct st as [[[m f] nd] sn].
  destruct (used_names m nd (snd grp)) as [used|]; cbn [bind] in Hn; [|discriminate Hn].
  match type of Hn with bind ?x _ = _ => destruct x as [r2|] eqn:E2 end; cbn [bind] in Hn; [|discriminate Hn].
  apply ok_some in Hn. subst st'.
  apply (fold_res_inv (fun st : nstate * Z => shape (ns_mol (fst st)) = shape mol) (name_node (fst grp) used) _)
    with (st := (m, f, nd, sn, 0)) (st' := r2) in E2; [exact E2| |exact Hs].
  intros s1 x s2 H1 Hx. destruct (name_node_mol _ _ _ _ _ Hx) as [->|[v ->]]; [exact H1|].
  rewrite shape_set_node_attr. exact H1.
Qed.

(** the tail of an all-atom step *)
Lemma step_ez legacy fd prev car fo : resolve_step_full legacy true fd prev car = Ok fo ->
  sort_nodes_by_attr (fo_m4 fo) = Ok (fo_m5 fo) /\
  annotate_ez_isomers_cgsmiles (fo_m5 fo) = Ok (fo_m6 fo) /\
  exists fgs0, set_atom_names (fo_m6 fo) (fo_meta fo) fgs0 = Ok (fo_mol fo, fo_fgs fo).
Proof.
  unfold resolve_step_full.
  set (meta := set_nodes_from prev (S "fragname") (get_node_attributes prev (S "atomname"))).
  destruct (resolve_disconnected fd meta) as [[m1 fg1]|]; [|discriminate]. unfold bind at 1.
  destruct (bonding_step legacy true meta m1 fg1) as [[m2 fg2]|]; [|discriminate]. unfold bind at 1.
  destruct (Squash.squash_atoms m2) as [m3|]; [|discriminate]. unfold bind at 1.
  destruct (Hydrogens.rebuild_h_atoms_default m3 car) as [m4|]; [|discriminate]. unfold bind at 1.
  destruct (sort_nodes_by_attr m4) as [m5|] eqn:E5; [|discriminate]. unfold bind at 1.
  destruct (annotate_ez_isomers_cgsmiles m5) as [m6|] eqn:E6; [|discriminate]. unfold bind at 1.
  destruct (annotate_fragments meta m6) as [fgs|]; [|discriminate]. unfold bind at 1.
  destruct (set_atom_names m6 meta fgs) as [[m7 fgs']|] eqn:E8; [|discriminate]. unfold bind.
  intros H. inversion H; subst. cbn. split; [exact E5|]. split; [exact E6|]. exists fgs. exact E8.
Qed.

Lemma ez_list_names mol meta fgs mol' fgs' k : set_atom_names mol meta fgs = Ok (mol', fgs') -> ez_list mol' k = ez_list mol k.
Proof.
  intros H. unfold ez_list. rewrite (set_atom_names_keeps _ _ _ _ _ H); [reflexivity|].
  intros E. vm_compute in E. discriminate.
Qed.

(** (a) on the returned graph: every tuple the step added is a path ligand - anchor = anchor - ligand of the graph
    resolve() returns.  Hypothesis: the sorted molecule is a well-formed networkx graph (unique keys, closed and
    symmetric adjacency) - evaluated on every recorded molecule by the check (EzCheck.corr_ok). *)
Theorem returned_refs_valid legacy fd prev car fo : resolve_step_full legacy true fd prev car = Ok fo ->
  wf_graph (fo_m5 fo) ->
  forall k v, In v (ez_list (fo_mol fo) k) -> In v (ez_list (fo_m5 fo) k) \/ tuple_ok (fo_mol fo) k v = true.
Proof.
  intros H W k v I. destruct (step_ez _ _ _ _ _ H) as [E5 [E6 [fgs0 E8]]].
  rewrite (ez_list_names _ _ _ _ _ k E8) in I.
  destruct (ez_refs_valid _ _ W E6 _ _ I) as [Old|New]; [now left|right].
  rewrite (shape_tuple_ok (fo_mol fo) (fo_m6 fo) _ _ (set_atom_names_shape _ _ _ _ _ E8)). exact New.
Qed.
Corollary returned_refs_ok legacy fd prev car fo : resolve_step_full legacy true fd prev car = Ok fo ->
  wf_graph (fo_m5 fo) -> (forall k, ez_list (fo_m5 fo) k = []) -> forall k v, In v (ez_list (fo_mol fo) k) -> tuple_ok (fo_mol fo) k v = true.
Proof.
  intros H W N k v I. destruct (returned_refs_valid _ _ _ _ _ H W k v I) as [Old|New]; [|exact New].
  rewrite N in Old. contradiction.
Qed.

(** ... and that hypothesis ALWAYS holds: the sorted molecule is what relabel_nodes(copy=True) built (EzBuilt.sorted_wf) *)
Theorem step_sorted_wf legacy fd prev car fo : resolve_step_full legacy true fd prev car = Ok fo -> wf_graph (fo_m5 fo).
Proof. intros H. destruct (step_ez _ _ _ _ _ H) as [E5 _]. exact (sorted_wf _ _ E5). Qed.
Theorem returned_refs_valid_all legacy fd prev car fo : resolve_step_full legacy true fd prev car = Ok fo ->
  forall k v, In v (ez_list (fo_mol fo) k) -> In v (ez_list (fo_m5 fo) k) \/ tuple_ok (fo_mol fo) k v = true.
Proof. intros H. exact (returned_refs_valid _ _ _ _ _ H (step_sorted_wf _ _ _ _ _ H)). Qed.

(** each relation of the returned graph is stored on both ligands, mirrored, with one class *)
Theorem returned_symmetric legacy fd prev car fo : resolve_step_full legacy true fd prev car = Ok fo ->
  wf_graph (fo_m5 fo) ->
  forall k v, is_new (fo_m5 fo) (fo_mol fo) k v ->
  exists l1 a1 a2 l2 c, v = ez_tuple l1 a1 a2 l2 c /\ k = l1 /\ (c = v_cis \/ c = v_trans) /\
                        In (ez_tuple l2 a2 a1 l1 c) (ez_list (fo_mol fo) l2).
Proof.
  intros H W k v [I NI]. destruct (step_ez _ _ _ _ _ H) as [E5 [E6 [fgs0 E8]]].
  rewrite (ez_list_names _ _ _ _ _ k E8) in I.
  destruct (ez_symmetric _ _ W E6 k v (conj I NI)) as (l1 & a1 & a2 & l2 & c & Hv & Hk & Hc & Hm).
  exists l1, a1, a2, l2, c. repeat split; auto. now rewrite (ez_list_names _ _ _ _ _ l2 E8).
Qed.

Theorem returned_symmetric_all legacy fd prev car fo : resolve_step_full legacy true fd prev car = Ok fo ->
  forall k v, is_new (fo_m5 fo) (fo_mol fo) k v ->
  exists l1 a1 a2 l2 c, v = ez_tuple l1 a1 a2 l2 c /\ k = l1 /\ (c = v_cis \/ c = v_trans) /\
                        In (ez_tuple l2 a2 a1 l1 c) (ez_list (fo_mol fo) l2).
Proof. intros H. exact (returned_symmetric _ _ _ _ _ H (step_sorted_wf _ _ _ _ _ H)). Qed.

(** the classes of the returned graph are the classes of the pairs of the SORTED molecule: every new tuple stems from a pair
    of [all_pairs (fo_m5 fo)] and carries [pair_result] of that pair - so the class theorems (table_vs_geom, class_iff_wrong,
    order_invariant_outside_class) speak about what resolve() returns *)
Theorem returned_class_of_pair legacy fd prev car fo : resolve_step_full legacy true fd prev car = Ok fo ->
  forall k v, is_new (fo_m5 fo) (fo_mol fo) k v ->
  exists ps x y c, all_pairs (fo_m5 fo) (ez_class_dict (fo_m5 fo)) = Ok ps /\ In (x, y) ps /\ pair_result (x, y) = Some c /\
    (v = ez_tuple (s_lig x) (s_anc x) (s_anc y) (s_lig y) c \/ v = ez_tuple (s_lig y) (s_anc y) (s_anc x) (s_lig x) c).
Proof.
  intros H k v [I NI]. destruct (step_ez _ _ _ _ _ H) as [E5 [E6 [fgs0 E8]]].
  rewrite (ez_list_names _ _ _ _ _ k E8) in I.
  destruct (annotate_cg_inv _ _ E6) as [ps [apps [H1 [H2 [H3 H4]]]]].
  rewrite H4 in I. destruct (apply_appends_in _ _ _ _ I) as [Old|New]; [contradiction|].
  destruct (appends_of_in _ _ _ _ H2 New) as [x [y [c [Ip [Hc Hkv]]]]].
  exists ps, x, y, c. repeat split; auto. destruct Hkv as [[_ ->]|[_ ->]]; auto.
Qed.

(** the chirality label survives the rest of the step too *)
Theorem returned_chiral legacy fd prev car fo k : resolve_step_full legacy true fd prev car = Ok fo ->
  node_get (fo_mol fo) k (S "chiral") = node_get (fo_m5 fo) k (S "chiral").
Proof.
  intros H. destruct (step_ez _ _ _ _ _ H) as [E5 [E6 [fgs0 E8]]].
  rewrite (set_atom_names_keeps _ _ _ _ _ E8) by (intros E; vm_compute in E; discriminate).
  apply (chiral_stays_annotate _ _ k E6).
Qed.

(** END TO END (instance of the Dialect component's theorem for the key `chiral`, over the Compose component's cut
    model): for every well-formed cut of a molecule into fragment templates, whatever the placement of the cuts and the
    order of the parts, the all-atom graph one resolve() returns carries at the returned key of EVERY atom exactly the
    `chiral` value (or absence) of the template atom it was written on. *)
From CGV Require Import Resolve.CopyProofs Compose.CutModel Compose.CutPos Compose.CutTables Compose.CutWf Compose.CutHydrogens Compose.CutSkeleton Hydro.HydroDefs.
From CGV Require Dialect.ReturnedCar Resolve.SortGraphProofs.
Import Dialect.ReturnedCar.
Lemma chiral_returned_key : returned_key (S "chiral").
Proof. repeat split; intros E; vm_compute in E; discriminate. Qed.
Theorem chiral_reaches_returned_graph C (W : wf_cut C) fd (HT : templates_ok C fd) (Hwfd : wf_dict fd) B (HB : is_base C B)
  (Hatoms : forall x, In x (flat C) ->
    (exists e, aget (S "element") (payload C x) = Some e) /\ (exists q, aget (S "charge") (payload C x) = Some q) /\
    (exists h, aget (S "hcount") (payload C x) = Some (VInt h)) /\ Hydrogens.is_H (payload C x) = false) prev g1 fo :
  meta_of prev = B -> resolve_step_full true true fd prev (Some g1) = Ok fo -> dicts (fo_m3 fo) ->
  exists m, sort_mapping (fo_m4 fo) = Ok m /\ SortGraphProofs.inj_on (map_get m) (node_keys (fo_m4 fo)) /\
    forall p name xs T i x n,
      nth_error (c_parts C) p = Some (name, xs) -> fd_get name fd = Some T ->
      nth_error xs i = Some x -> gfind (Z.of_nat i) T = Some n ->
      node_get (fo_mol fo) (map_get m (phi C x)) (S "chiral") = aget (S "chiral") (na n).
Proof.
  intros HM H HD.
  destruct (ReturnedCar.annotation_reaches_returned_graph_any_car C W fd HT Hwfd B HB Hatoms prev g1 fo HM H HD) as (m & A & B' & Hall).
  exists m. split; [exact A|]. split; [exact B'|]. intros p name xs T i x n H1 H2 H3 H4.
  apply (Hall p name xs T i x n (S "chiral") H1 H2 H3 H4 chiral_returned_key). intros E; vm_compute in E; discriminate.
Qed.
