(** EzRebuildOrder: rebuild_h_atoms keeps the nodes it receives in their order and APPENDS the hydrogens it adds
    ([rebuild_keys_prefix]); "x comes before y in a list" and its transport through an injective map. *)
From Coq Require Import String.
From Coq Require Import List Ascii ZArith Bool Lia.
From CGV Require Import Base.PyBase Base.PyVal Base.NxGraph Gen.HydroGen Hydro.GraphLemmas Hydro.SquashProofs Hydro.Hydrogens Hydro.RebuildProofs.
Import ListNotations.
Open Scope Z_scope.

Lemma add_h_fold_prefix ks : forall acc g', (forall k, In k ks -> In k (node_keys acc)) ->
  fold_res add_h_step ks acc = Ok g' -> exists hs, node_keys g' = node_keys acc ++ hs.
Proof.
  induction ks as [|k ks IH]; intros acc g' Hks H.
  - cbn in H. inversion H; subst. exists []. now rewrite app_nil_r.
  - cbn [fold_res] in H. destruct (add_h_step acc k) as [acc1|] eqn:S1; cbn [bind] in H; [|discriminate].
    assert (Gk : gfind k acc <> None).
    { destruct (gfind_some_keys k acc (Hks k (or_introl eq_refl))) as [n ->]. discriminate. }
    destruct (keys_add_h_step acc k acc1 Gk S1) as (idxs & K & _ & _).
    destruct (IH acc1 g') as [hs E]; [|assumption|].
    + intros k' Hin. rewrite K. apply in_or_app. left. apply Hks. now right.
    + exists (idxs ++ hs). rewrite E, K. now rewrite app_assoc.
Qed.

Lemma inherit_attr_fold_keys k anchor : forall ca g g', fold_res (inherit_attr k anchor) ca g = Ok g' -> node_keys g' = node_keys g.
Proof.
  induction ca as [|a r IH]; intros g g' H; cbn [fold_res] in H; [inversion H; reflexivity|].
  destruct (inherit_attr k anchor g a) as [g1|] eqn:E; cbn [bind] in H; [|discriminate].
  rewrite (IH _ _ H). unfold inherit_attr in E. destruct (node_attrs g k) as [nn|]; cbn [bind] in E; [|discriminate].
  destruct (ahas a nn); [inversion E; reflexivity|]. destruct (node_attrs g anchor) as [an|]; cbn [bind] in E; [|discriminate].
  inversion E. apply keys_set_node_attr.
Qed.
Lemma inherit_step_keys ca g k g' : inherit_step ca g k = Ok g' -> node_keys g' = node_keys g.
Proof.
  unfold inherit_step. destruct (node_attrs g k) as [n|]; cbn [bind]; [|discriminate].
  destruct (wants_inherit n); [|intros H; inversion H; reflexivity].
  destruct (neighbors g k) as [|anchor r]; [discriminate|]. apply inherit_attr_fold_keys.
Qed.
Lemma inherit_fold_keys ca ks : forall g g', fold_res (inherit_step ca) ks g = Ok g' -> node_keys g' = node_keys g.
Proof.
  induction ks as [|k r IH]; intros g g' H; cbn [fold_res] in H; [inversion H; reflexivity|].
  destruct (inherit_step ca g k) as [g1|] eqn:E; cbn [bind] in H; [|discriminate].
  rewrite (IH _ _ H). now apply inherit_step_keys in E.
Qed.

Theorem rebuild_after_car_keys_prefix ca g1 g' : NoDup (node_keys g1) -> rebuild_after_car false ca g1 = Ok g' ->
  exists hs, node_keys g' = node_keys g1 ++ hs.
Proof.
  intros Hnd H. unfold rebuild_after_car in H.
  change rebuild_reset_attr with (S "hcount") in H. change rebuild_reset_value with 0 in H.
  change rebuild_respect_hcount with false in H.
  destruct (fill_valence false (set_all_nodes g1 (S "hcount") (VInt 0))) as [g3|] eqn:F; cbn [bind] in H; [|discriminate].
  destruct (phase01 g1 g3 Hnd F) as (K3 & _).
  destruct (add_explicit_hydrogens g3) as [g5|] eqn:A; cbn [bind] in H; [|discriminate].
  unfold add_explicit_hydrogens in A. destruct (add_h_fold_prefix _ _ _ (fun k Hk => Hk) A) as [hs E].
  exists hs. unfold inherit_all in H. rewrite (inherit_fold_keys _ _ _ _ H), E, K3. reflexivity.
Qed.
Theorem rebuild_keys_prefix g g' : NoDup (node_keys g) -> rebuild_h_atoms_default g (Some g) = Ok g' ->
  exists hs, node_keys g' = node_keys g ++ hs.
Proof.
  intros Hnd H. unfold rebuild_h_atoms_default, rebuild_h_atoms in H. change rebuild_keep_bonding_default with false in H.
  destruct (transcript_contract g g); [|discriminate]. now apply rebuild_after_car_keys_prefix in H.
Qed.

(** ---------------------------------------------------------------- "comes before" *)
Definition before {A} (x y : A) (l : list A) : Prop := exists l1 l2 l3, l = l1 ++ x :: l2 ++ y :: l3.
Lemma before_map {A B} (f : A -> B) x y l : before x y l -> before (f x) (f y) (map f l).
Proof. intros (l1 & l2 & l3 & ->). exists (map f l1), (map f l2), (map f l3). now rewrite map_app, map_cons, map_app, map_cons. Qed.
Lemma before_app_l {A} (x y : A) l r : before x y l -> before x y (l ++ r).
Proof. intros (l1 & l2 & l3 & ->). exists l1, l2, (l3 ++ r). now rewrite <- !app_assoc, <- !app_comm_cons, <- app_assoc. Qed.
Lemma seq_before i j n : (i < j)%nat -> (j < n)%nat -> before (Z.of_nat i) (Z.of_nat j) (map Z.of_nat (seq 0 n)).
Proof.
  intros Hij Hj. apply (before_map Z.of_nat i j).
  exists (seq 0 i), (seq (Datatypes.S i) (j - i - 1)), (seq (Datatypes.S j) (n - j - 1)).
  replace n with (i + (1 + ((j - i - 1) + (1 + (n - j - 1)))))%nat at 1 by lia.
  rewrite seq_app. f_equal. cbn [Nat.add]. rewrite (seq_app 1). cbn [seq app]. f_equal. rewrite Nat.add_1_r.
  rewrite seq_app. f_equal. rewrite (seq_app 1). cbn [seq app]. f_equal; [lia|]. f_equal. lia.
Qed.
(** in a list without duplicates, what comes before x is everything in the part in front of (any) occurrence of x *)
Lemma split_unique {A} (x : A) : forall p q p' q', NoDup (p ++ x :: q) -> p ++ x :: q = p' ++ x :: q' -> p = p'.
Proof.
  induction p as [|a p IH]; intros q [|a' p'] q' ND E; cbn in *.
  - reflexivity.
  - inversion E; subst. inversion ND as [|? ? Hn _]. exfalso. apply Hn. apply in_or_app. right. now left.
  - inversion E; subst. inversion ND as [|? ? Hn _]. exfalso. apply Hn. apply in_or_app. right. now left.
  - inversion E; subst. inversion ND; subst. f_equal. eapply IH; eauto.
Qed.
Lemma before_in_front {A} (x y : A) p q : NoDup (p ++ y :: q) -> before x y (p ++ y :: q) -> In x p.
Proof.
  intros ND (l1 & l2 & l3 & E).
  replace (l1 ++ x :: l2 ++ y :: l3) with ((l1 ++ x :: l2) ++ y :: l3) in E by (now rewrite <- app_assoc).
  rewrite (split_unique y p q (l1 ++ x :: l2) l3 ND E). apply in_or_app. right. now left.
Qed.
