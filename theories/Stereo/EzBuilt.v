(** EzBuilt: every graph made by add_node / add_edge from the empty graph - in particular what relabel_nodes(copy=True),
    hence sort_nodes_by_attr, returns - is well formed in the sense the C15 theorems need (unique keys, unique adjacency
    entries, symmetric adjacency with the SAME attribute dict in both directions, closed).  So the molecule handed to
    annotate_ez_isomers_cgsmiles is well formed for EVERY input, and the hypothesis [wf_graph] of ez_refs_valid /
    ez_symmetric disappears on the graph resolve() returns. *)
From Coq Require Import String.
From Coq Require Import List Ascii ZArith Bool Lia.
From CGV Require Import Base.PyBase Base.PyVal Base.NxGraph Resolve.GraphOps Stereo.EzImpl Stereo.EzDefs Stereo.EzProofs.
Import ListNotations.
Open Scope Z_scope.

(** ------------------------------------------------------------------ every graph built by add_node / add_edge is well formed *)
Definition adj (g : graph) (u : Z) : list (Z * attrs) := match gfind u g with Some n => nadj n | None => [] end.
Record built (g : graph) : Prop := {
  b_keys : NoDup (node_keys g);
  b_adj : forall u, NoDup (map fst (adj g u));
  b_sym : forall u w d, In (w, d) (adj g u) -> In (u, d) (adj g w) }.

Lemma has_node_false_notin g k : has_node g k = false -> ~ In k (node_keys g).
Proof.
  unfold has_node. induction g as [|n r IH]; cbn; [tauto|]. destruct (Z.eqb_spec (nk n) k); [discriminate|].
  intros H [E|I]; [contradiction|]. now apply IH.
Qed.
Lemma adj_app g x u : adj (g ++ [{| nk := x; na := []; nadj := [] |}]) u = adj g u.
Proof. unfold adj. rewrite gfind_app. destruct (gfind u g); [reflexivity|]. cbn. now destruct (Z.eqb x u). Qed.
Lemma adj_app_a g x a u : adj (g ++ [{| nk := x; na := a; nadj := [] |}]) u = adj g u.
Proof. unfold adj. rewrite gfind_app. destruct (gfind u g); [reflexivity|]. cbn. now destruct (Z.eqb x u). Qed.
Lemma keys_app g x a : node_keys (g ++ [{| nk := x; na := a; nadj := [] |}]) = node_keys g ++ [x].
Proof. unfold node_keys. now rewrite map_app. Qed.
Lemma adj_gupdate_na k f g u : (forall n, nk (f n) = nk n /\ nadj (f n) = nadj n) -> adj (gupdate k f g) u = adj g u.
Proof.
  intros Hf. unfold adj. rewrite gfind_gupdate by (intros n; apply Hf). destruct (Z.eqb_spec u k) as [->|_]; [|reflexivity].
  destruct (gfind k g); cbn; [apply Hf|reflexivity].
Qed.
Lemma adj_gupdate_set k v d g u :
  adj (gupdate k (fun n => {| nk := nk n; na := na n; nadj := adj_set v d (nadj n) |}) g) u =
  if Z.eqb u k && has_node g k then adj_set v d (adj g k) else adj g u.
Proof.
  unfold adj, has_node. rewrite gfind_gupdate by reflexivity. destruct (Z.eqb_spec u k) as [->|_]; cbn; [|reflexivity].
  destruct (gfind k g); reflexivity.
Qed.

Lemma in_adj_set v d l w e : NoDup (map fst l) -> In (w, e) (adj_set v d l) -> (w = v /\ e = d) \/ (w <> v /\ In (w, e) l).
Proof.
  induction l as [|[x b] r IH]; cbn; intros ND.
  - intros [[= <- <-]|[]]. now left.
  - inversion ND as [|? ? NI ND']; subst. destruct (Z.eqb_spec x v) as [->|N]; cbn.
    + intros [[= <- <-]|I]; [now left|]. right. split; [|now right]. intros ->. apply NI. change v with (fst (v, e)). now apply in_map.
    + intros [[= <- <-]|I]; [right; split; [exact N|now left]|].
      destruct (IH ND' I) as [H|[H1 H2]]; [now left|right; split; [exact H1|now right]].
Qed.
Lemma adj_set_in_new v d l : In (v, d) (adj_set v d l).
Proof. induction l as [|[x b] r IH]; cbn; [now left|]. destruct (Z.eqb_spec x v) as [->|_]; [left; reflexivity|right; exact IH]. Qed.
Lemma adj_set_in_old v d l w e : w <> v -> In (w, e) l -> In (w, e) (adj_set v d l).
Proof.
  intros N. induction l as [|[x b] r IH]; cbn; [tauto|]. destruct (Z.eqb_spec x v) as [->|Nx]; cbn.
  - intros [[= -> ->]|I]; [contradiction|now right].
  - intros [E|I]; [now left|right; auto].
Qed.
Lemma adj_set_keys v d l : NoDup (map fst l) -> NoDup (map fst (adj_set v d l)).
Proof.
  induction l as [|[x b] r IH]; cbn; intros ND; [repeat constructor; tauto|].
  inversion ND as [|? ? NI ND']; subst. destruct (Z.eqb_spec x v) as [->|N]; cbn; [constructor; assumption|].
  constructor; [|auto]. intros I. apply in_map_iff in I. destruct I as [[w e] [E I]]. cbn in E. subst w.
  destruct (in_adj_set _ _ _ _ _ ND' I) as [[H _]|[_ H]]; [congruence|]. apply NI. change x with (fst (x, e)). now apply in_map.
Qed.

Lemma nodup_snoc {A} (l : list A) x : NoDup l -> ~ In x l -> NoDup (l ++ [x]).
Proof.
  induction l as [|y r IH]; cbn; intros ND NI; [repeat constructor; tauto|].
  inversion ND; subst. constructor.
  - intros I. apply in_app_or in I. destruct I as [I|[E|[]]]; [contradiction|]. apply NI. now left.
  - apply IH; [assumption|]. intros I. apply NI. now right.
Qed.
Lemma built_empty : built gempty.
Proof. split; cbn; [constructor|constructor|contradiction]. Qed.

Lemma built_gupdate_na k f g : (forall n, nk (f n) = nk n /\ nadj (f n) = nadj n) -> built g -> built (gupdate k f g).
Proof.
  intros Hf [B1 B2 B3]. split.
  - rewrite (shape_node_keys _ g); [exact B1|]. apply shape_gupdate. exact Hf.
  - intros u. rewrite adj_gupdate_na by exact Hf. apply B2.
  - intros u w d. rewrite !adj_gupdate_na by exact Hf. apply B3.
Qed.
Lemma built_app g x a : has_node g x = false -> built g -> built (g ++ [{| nk := x; na := a; nadj := [] |}]).
Proof.
  intros Hn [B1 B2 B3]. split.
  - rewrite keys_app. apply nodup_snoc; [exact B1|now apply has_node_false_notin].
  - intros u. rewrite adj_app_a. apply B2.
  - intros u w d. rewrite !adj_app_a. apply B3.
Qed.

Lemma has_node_gupdate_set k v d g x :
  has_node (gupdate k (fun n => {| nk := nk n; na := na n; nadj := adj_set v d (nadj n) |}) g) x = has_node g x.
Proof.
  unfold has_node. rewrite gfind_gupdate by reflexivity. destruct (Z.eqb_spec x k) as [->|_]; [|reflexivity].
  now destruct (gfind k g).
Qed.
Lemma keys_gupdate k f g : (forall n, nk (f n) = nk n) -> node_keys (gupdate k f g) = node_keys g.
Proof.
  intros Hf. unfold node_keys. induction g as [|n r IH]; cbn; [reflexivity|]. destruct (Z.eqb (nk n) k); cbn; [now rewrite Hf|now rewrite IH].
Qed.

(** the two adjacency writes of add_edge *)
Lemma built_link g u v d : built g -> has_node g u = true -> has_node g v = true ->
  built (gupdate v (fun n => {| nk := nk n; na := na n; nadj := adj_set u d (nadj n) |})
          (gupdate u (fun n => {| nk := nk n; na := na n; nadj := adj_set v d (nadj n) |}) g)).
Proof.
  intros [B1 B2 B3] Hu Hv.
  set (g3 := gupdate u (fun n => {| nk := nk n; na := na n; nadj := adj_set v d (nadj n) |}) g).
  assert (A3 : forall x, adj g3 x = if Z.eqb x u then adj_set v d (adj g u) else adj g x).
  { intros x. unfold g3. rewrite adj_gupdate_set, Hu, andb_true_r. reflexivity. }
  assert (Hv3 : has_node g3 v = true) by (unfold g3; now rewrite has_node_gupdate_set).
  assert (A4 : forall x, adj (gupdate v (fun n => {| nk := nk n; na := na n; nadj := adj_set u d (nadj n) |}) g3) x
                         = if Z.eqb x v then adj_set u d (adj g3 v) else adj g3 x).
  { intros x. rewrite adj_gupdate_set, Hv3, andb_true_r. reflexivity. }
  assert (N3 : forall x, NoDup (map fst (adj g3 x))).
  { intros x. rewrite A3. destruct (Z.eqb x u); [apply adj_set_keys|]; apply B2. }
  split.
  - unfold g3. rewrite !keys_gupdate by reflexivity. exact B1.
  - intros x. rewrite A4. destruct (Z.eqb x v); [apply adj_set_keys|]; apply N3.
  - intros x w e. rewrite !A4.
    destruct (Z.eqb_spec x v) as [->|Nxv].
    + intros I. destruct (in_adj_set _ _ _ _ _ (N3 v) I) as [[-> ->]|[Nwu I']].
      * (* the new entry v -> u *)
        destruct (Z.eqb_spec u v) as [->|Nuv]; [apply adj_set_in_new|].
        rewrite A3, Z.eqb_refl. apply adj_set_in_new.
      * rewrite A3 in I'. destruct (Z.eqb_spec v u) as [->|Nvu].
        -- destruct (in_adj_set _ _ _ _ _ (B2 u) I') as [[-> _]|[Nwv I'']]; [contradiction|].
           apply B3 in I''. destruct (Z.eqb_spec w u); [contradiction|]. rewrite A3. destruct (Z.eqb_spec w u); [contradiction|exact I''].
        -- apply B3 in I'. destruct (Z.eqb_spec w v) as [->|Nwv].
           ++ apply adj_set_in_old; [exact Nvu|]. rewrite A3. destruct (Z.eqb_spec v u); [contradiction|exact I'].
           ++ rewrite A3. destruct (Z.eqb_spec w u); [contradiction|exact I'].
    + rewrite A3. destruct (Z.eqb_spec x u) as [->|Nxu].
      * intros I. destruct (in_adj_set _ _ _ _ _ (B2 u) I) as [[-> ->]|[Nwv I']].
        -- rewrite Z.eqb_refl. apply adj_set_in_new.
        -- apply B3 in I'. destruct (Z.eqb_spec w v); [contradiction|]. rewrite A3.
           destruct (Z.eqb_spec w u) as [->|_]; [apply adj_set_in_old; [exact Nxv|exact I']|exact I'].
      * intros I. apply B3 in I. destruct (Z.eqb_spec w v) as [->|Nwv].
        -- apply adj_set_in_old; [exact Nxu|]. rewrite A3. destruct (Z.eqb_spec v u) as [->|_]; [apply adj_set_in_old; [exact Nxv|exact I]|exact I].
        -- rewrite A3. destruct (Z.eqb_spec w u) as [->|_]; [apply adj_set_in_old; [exact Nxv|exact I]|exact I].
Qed.

Lemma has_node_app_same g x a : has_node (g ++ [{| nk := x; na := a; nadj := [] |}]) x = true.
Proof. unfold has_node. rewrite gfind_app. destruct (gfind x g); [reflexivity|]. cbn. now rewrite Z.eqb_refl. Qed.
Lemma has_node_app_old g x a k : has_node g k = true -> has_node (g ++ [{| nk := x; na := a; nadj := [] |}]) k = true.
Proof. unfold has_node. rewrite gfind_app. now destruct (gfind k g). Qed.

Theorem built_add_edge g u v a : built g -> built (add_edge g u v a).
Proof.
  intros B. unfold add_edge.
  set (g1 := if has_node g u then g else g ++ [{| nk := u; na := []; nadj := [] |}]).
  assert (B1 : built g1 /\ has_node g1 u = true).
  { unfold g1. destruct (has_node g u) eqn:E; [auto|]. split; [now apply built_app|apply has_node_app_same]. }
  set (g2 := if has_node g1 v then g1 else g1 ++ [{| nk := v; na := []; nadj := [] |}]).
  assert (B2 : built g2 /\ has_node g2 u = true /\ has_node g2 v = true).
  { unfold g2. destruct (has_node g1 v) eqn:E; [tauto|]. destruct B1 as [B1 H1].
    split; [now apply built_app|]. split; [now apply has_node_app_old|apply has_node_app_same]. }
  destruct B2 as [B2 [H2u H2v]]. now apply built_link.
Qed.
Theorem built_add_node g k a : built g -> built (add_node g k a).
Proof.
  intros B. unfold add_node. destruct (has_node g k) eqn:E; [|now apply built_app].
  apply built_gupdate_na; [intros n; cbn; auto|exact B].
Qed.
Lemma built_fold {A} (f : graph -> A -> graph) (l : list A) : (forall g x, built g -> built (f g x)) -> forall g, built g -> built (fold_left f l g).
Proof. intros Hf. induction l as [|x r IH]; intros g B; cbn; [exact B|]. apply IH, Hf, B. Qed.

(** relabel_nodes(copy=True) ALWAYS returns a well-built graph: it is made by add_node / add_edge from the empty graph *)
Theorem built_relabel_copy g m : built (relabel_copy g m).
Proof.
  unfold relabel_copy. apply built_fold; [intros h e; apply built_add_edge|].
  apply built_fold; [intros h n B; apply built_gupdate_na; [intros x; cbn; auto|exact B]|].
  apply built_fold; [intros h n; apply built_add_node|apply built_empty].
Qed.
Theorem built_sort g h : sort_nodes_by_attr g = Ok h -> built h.
Proof.
  unfold sort_nodes_by_attr, bind. destruct (sort_mapping g) as [m|]; [|discriminate].
  destruct (GraphOps.map_res _ _) as [nd|]; [|discriminate]. intros [= <-].
  unfold set_nodes_from. apply built_fold; [|apply built_relabel_copy].
  intros h kv B. unfold set_node_attr. apply built_gupdate_na; [intros n; cbn; auto|exact B].
Qed.

(** a well-built graph is well formed in the sense the C15 theorems need *)
Theorem built_wf g : built g -> wf_graph g.
Proof.
  intros [B1 B2 B3].
  assert (A : forall n, In n g -> adj g (nk n) = nadj n) by (intros n I; unfold adj; now rewrite gfind_nodup).
  split.
  - exact B1.
  - intros n w d I1 I2. rewrite <- (A n I1) in I2. apply B3 in I2. unfold adj, has_node in *. destruct (gfind w g); [reflexivity|contradiction].
  - intros n I. rewrite <- (A n I). apply B2.
  - intros n w d I1 I2. rewrite <- (A n I1) in I2. apply B3 in I2.
    unfold has_edge, edge_get, edge_attrs. unfold adj in I2. pose proof (B2 w) as N. unfold adj in N.
    destruct (gfind w g) as [m|]; [|contradiction]. rewrite (adj_get_nodup _ _ _ N I2). auto.
Qed.
Corollary sorted_wf g h : sort_nodes_by_attr g = Ok h -> wf_graph h.
Proof. intros H. apply built_wf. eapply built_sort; eauto. Qed.
