(** EzStringCut: from CGsmiles STRINGS to the cut-level E/Z theorems (EzCut.v), through the parsers.
    The family: two-fragment strings
        {[#A][#B]}.{#A=<text A>,#B=<text B>}     and     {[#B][#A]}.{#A=<text A>,#B=<text B>}
    whose fragment texts are renderings of token lists (Frag/FragText: atoms, bracket atoms, bonds, branches, ring
    markers, slash marks, with bonding descriptors inserted) - fragments of ANY size and shape - resolved by
    Stereo/EzStrings.resolve_string = Reader model of the base graph + Frag's strip_bonding_descriptors / SMILES parser /
    final template + Resolve/PipelineFull.
    [string_templates]: the fragment dictionary read from the block consists of the final templates of the two token
    lists, and they are templates of every cut that agrees with the token-level reading ([cut_agrees], strip component's
    template_is_template through strip_correct and render_parse).
    [string_class_geom], [order_invariant_strings]: the statements of EzCut on what resolve_string returns. *)
From Coq Require Import String.
From Coq Require Import List Ascii ZArith Bool Lia Permutation.
From CGV Require Import Base.PyBase Base.PyVal Base.NxGraph Dialect.DialectImpl Dialect.DialectProofs Dialect.DriverFaults
     Frag.NDict Frag.StripImpl Frag.FragText Frag.FragProofs Frag.SmilesParse Frag.SmilesSpec Frag.SmilesProofs Frag.Template
     Frag.TemplateProofs Frag.TemplateFinal Frag.TemplateGraph Frag.TemplateCompose
     Reader.ReaderImpl Resolve.Bonding Resolve.GraphOps Resolve.CopyProofs Resolve.Pipeline Resolve.PipelineFull Hydro.HydroDefs
     Stereo.EzImpl Stereo.EzDefs Stereo.EzProofs Stereo.EzStrings Stereo.EzReturned Stereo.EzCut.
From CGV Require Import Compose.CutModel Compose.CutPos Compose.OrderIndep Compose.ReturnedIso Compose.PartPerm Compose.ComposeFlat.
From CGV Require Hydro.Squash.
Import ListNotations.
Open Scope Z_scope.

(** ---------------------------------------------------------------- the template read from a text *)
Lemma marked_template_final fo name text :
  marked_template fo name text = (T0 <- fragment_template_final fo name text ;; Ok (tmpl_graph T0)).
Proof.
  unfold marked_template, fragment_template_final.
  destruct (strip_bonding_descriptors fo text) as [[[[clean d] ez] a]|]; cbn [bind]; [|reflexivity].
  destruct (smiles_parse _) as [G|]; cbn [bind]; [|reflexivity]. reflexivity.
Qed.

(** a template is a well-formed template graph *)
Lemma is_template_wf C name xs T : is_template C name xs T -> wf_template T.
Proof.
  intros IT. split.
  - rewrite (it_keys _ _ _ _ IT). apply FinFun.Injective_map_NoDup; [intros a b E; lia|apply seq_NoDup].
  - intros u v d Hin. destruct (it_edges _ _ _ _ IT u v d Hin) as (ni & nj & x & y & b & -> & -> & Nx & Ny & _).
    rewrite (it_keys _ _ _ _ IT).
    assert (Li : (ni < length xs)%nat) by (apply nth_error_Some; congruence).
    assert (Lj : (nj < length xs)%nat) by (apply nth_error_Some; congruence).
    split; apply in_map; apply in_seq; lia.
Qed.

(** the slash token of node i of the final template *)
Definition ez_plain (G : sgraph) (ann : ndict attrs) : Prop :=
  (forall base, In base (g_nodes G) -> aget ezk base = None) /\ (forall i an, nd_get i ann = Some an -> aget ezk an = None).
Definition tok_of_ez (ez : ndict ascii) (i : nat) : option pyval := option_map (fun c => VStr [c]) (nd_get i ez).

Lemma final_node_ez name E single d ez ann i base a : final_node name E single d ez ann i base = Ok a ->
  aget ezk base = None -> (forall an, nd_get i ann = Some an -> aget ezk an = None) ->
  aget ezk a = tok_of_ez ez i.
Proof.
  unfold final_node, tok_of_ez. intros H Hb Ha.
  assert (E0 : aget ezk (template_node name base (nd_get i d) (nd_get i ann)) = None).
  { rewrite template_node_base; [exact Hb| | | | |]; try (intros Q; vm_compute in Q; discriminate).
    unfold ann_lacks. destruct (nd_get i ann) as [an|]; [now apply Ha|exact I]. }
  destruct (final_hcount E i base) as [h|x]; cbn [bind] in H; [|discriminate H].
  destruct (element_of base) as [el|x]; cbn [bind] in H; [|discriminate H].
  assert (N1 : ezk <> S "atomname") by (intros Q; vm_compute in Q; discriminate).
  assert (N2 : ezk <> S "hcount") by (intros Q; vm_compute in Q; discriminate).
  assert (N3 : ezk <> S "single_h_frag") by (intros Q; vm_compute in Q; discriminate).
  destruct (single && (h =? 0)%Z && str_eqb el (S "H")); inversion H; subst a; clear H; destruct (nd_get i ez) as [c|]; cbn [option_map];
    repeat first [rewrite aget_aset_other by assumption | rewrite aget_adel_other by assumption | rewrite aget_aset_same];
    first [reflexivity | exact E0].
Qed.

(** one fragment: a token list with its descriptors, its token-level reading, and a cut part that agrees with it *)
Record frag_reading (fo : float_oracle) (C : cut) (name : pystr) (xs : list Z) (toks : list tok) (dc : decor)
       (ez : ndict ascii) (T0 : tmpl) : Prop := {
  fr_wf : FragText.wf toks dc = true;
  fr_ex : excluded toks dc = false;
  fr_ws : wf_smiles toks = true;
  fr_read : exists clean d ann G,
     strip_spec fo toks dc = Ok (clean, d, ez, ann) /\ graph_of false toks = Ok G /\ final_assemble name G d ez ann = Ok T0 /\
     plain G ann /\ ez_plain G ann /\ cut_agrees C xs T0 d }.

Theorem reading_template fo C name xs toks dc ez T0 : frag_reading fo C name xs toks dc ez T0 ->
  marked_template fo name (render (decorate toks dc)) = Ok (tmpl_graph T0) /\ is_template C name xs (tmpl_graph T0) /\
  forall i x n, nth_error xs i = Some x -> gfind (Z.of_nat i) (tmpl_graph T0) = Some n -> aget ezk (na n) = tok_of_ez ez i.
Proof.
  intros [W X WS (clean & d & ann & G & HS & HG & HA & PL & [EB EA] & CA)].
  destruct (template_is_template fo C name xs toks dc clean d ez ann G T0 W X WS HS HG HA PL CA) as [HF IT].
  split; [rewrite marked_template_final, HF; reflexivity|]. split; [exact IT|].
  intros i x n Nx Gn.
  unfold final_assemble in HA.
  destruct (final_nodes name (g_edges G) match g_nodes G with [_] => true | _ => false end d ez ann 0 (g_nodes G)) as [ns|e] eqn:EN;
    cbn [bind] in HA; [|discriminate HA].
  inversion HA; subst T0; clear HA.
  destruct (final_nodes_nth _ _ _ _ _ _ _ _ _ EN) as [LN NTH].
  assert (Li : (i < length ns)%nat).
  { pose proof (ca_len _ _ _ _ CA) as L. cbn in L. rewrite L. apply nth_error_Some. congruence. }
  destruct (nth_error ns i) as [a|] eqn:Na; [|apply nth_error_None in Na; lia].
  pose proof (tmpl_graph_attrs {| t_nodes := ns; t_edges := g_edges G |} i a Na) as At. unfold node_attrs in At. rewrite Gn in At.
  assert (Ea : na n = a) by congruence. rewrite Ea. destruct (NTH i a Na) as [base [Nb FN]]. cbn [Nat.add] in FN.
  apply (final_node_ez _ _ _ _ _ _ _ _ _ FN); [apply EB; eapply nth_error_In; eauto|intros an; apply EA].
Qed.

(** ---------------------------------------------------------------- the string *)
Definition textAB (tA tB : pystr) : pystr := S "#A=" ++ tA ++ S ",#B=" ++ tB.
Definition block2 (tA tB : pystr) : pystr := "{"%char :: textAB tA tB ++ ["}"%char].
Definition sAB (tA tB : pystr) : pystr := S "{[#A][#B]}." ++ block2 tA tB.
Definition sBA (tA tB : pystr) : pystr := S "{[#B][#A]}." ++ block2 tA tB.

Lemma fragment_split2 tA tB : ~ In ","%char tA -> ~ In ","%char tB ->
  fragment_split (block2 tA tB) = [(S "A", tA); (S "B", tB)].
Proof.
  intros NA NB. unfold fragment_split, block2. cbn [skipn]. rewrite removelast_last.
  change (textAB tA tB) with (join [","%char] [S "#A=" ++ tA; S "#B=" ++ tB]).
  rewrite py_split_join; [reflexivity|discriminate|].
  repeat constructor; cbn; intros H; repeat (destruct H as [H|H]; [discriminate H|]); auto.
Qed.

Lemma find_blocks_2 (base : pystr) tA tB : base <> [] -> ~ In "}"%char base -> ~ In "}"%char tA -> ~ In "}"%char tB ->
  find_blocks ("{"%char :: base ++ "}"%char :: "."%char :: block2 tA tB) = ["{"%char :: base ++ ["}"%char]; block2 tA tB].
Proof.
  intros Nb Hb NA NB. rewrite (find_blocks_cons base _ Nb Hb). f_equal.
  rewrite find_blocks_skip by discriminate. unfold block2.
  change ("{"%char :: textAB tA tB ++ ["}"%char]) with ("{"%char :: textAB tA tB ++ "}"%char :: []).
  rewrite find_blocks_cons; [reflexivity|unfold textAB; discriminate|].
  unfold textAB. intros H. apply in_app_or in H as [H|H]; [vm_compute in H; repeat (destruct H as [H|H]; [discriminate H|]); exact H|].
  apply in_app_or in H as [H|H]; [now apply NA|]. apply in_app_or in H as [H|H]; [vm_compute in H; repeat (destruct H as [H|H]; [discriminate H|]); exact H|now apply NB].
Qed.

Definition baseAB : graph :=
  Eval vm_compute in match read_cgsmiles (fo_of_table []) (S "{[#A][#B]}") with Ok g => g | Err _ => gempty end.
Definition baseBA : graph :=
  Eval vm_compute in match read_cgsmiles (fo_of_table []) (S "{[#B][#A]}") with Ok g => g | Err _ => gempty end.
Lemma read_baseAB fo : read_cgsmiles fo (S "{[#A][#B]}") = Ok baseAB.
Proof. vm_compute. reflexivity. Qed.
Lemma read_baseBA fo : read_cgsmiles fo (S "{[#B][#A]}") = Ok baseBA.
Proof. vm_compute. reflexivity. Qed.

(** what resolve_string computes for a two-fragment string is ONE all-atom step on the base graph the reader returns and
    the two templates, with the identity aromaticity transcript *)
Theorem string_is_step fo (base : pystr) mol tA tB TA TB o :
  base <> [] -> ~ In "}"%char base -> read_cgsmiles fo ("{"%char :: base ++ ["}"%char]) = Ok mol ->
  ~ In ","%char tA -> ~ In ","%char tB -> ~ In "}"%char tA -> ~ In "}"%char tB ->
  marked_template fo (S "A") tA = Ok TA -> marked_template fo (S "B") tB = Ok TB ->
  resolve_string fo ("{"%char :: base ++ "}"%char :: "."%char :: block2 tA tB) = Ok o ->
  resolve_step_full true true [(S "A", TA); (S "B", TB)] mol (Some (fo_m3 o)) = Ok o.
Proof.
  intros Nb Hb Hm CA CB BA BB HA HB H. unfold resolve_string, from_string in H.
  rewrite (find_blocks_2 base tA tB Nb Hb BA BB), Hm in H. cbn [bind read_fragment_strings] in H.
  unfold read_fragments_model, read_fragments_aa in H. rewrite (fragment_split2 tA tB CA CB) in H.
  cbn [fold_res fst snd] in H. rewrite HA in H. cbn [bind fd_add] in H. rewrite HB in H. cbn [bind] in H.
  replace (str_eqb (S "B") (S "A")) with false in H by (vm_compute; reflexivity).
  cbn [st_dicts st_mol init] in H.
  set (fd := [(S "A", TA); (S "B", TB)]) in *.
  set (meta := set_nodes_from mol (S "fragname") (get_node_attributes mol (S "atomname"))) in *.
  destruct (resolve_disconnected fd meta) as [[m1 fg1]|] eqn:E1; cbn [bind] in H; [|discriminate H].
  destruct (bonding_step true true meta m1 fg1) as [[m2 fg2]|] eqn:E2; cbn [bind] in H; [|discriminate H].
  destruct (Squash.squash_atoms m2) as [m3|] eqn:E3; cbn [bind] in H; [|discriminate H].
  assert (M3 : fo_m3 o = m3).
  { unfold resolve_step_full in H. fold meta in H. rewrite E1 in H. cbn [bind] in H. rewrite E2 in H. cbn [bind] in H. rewrite E3 in H. cbn [bind] in H.
    destruct (Hydrogens.rebuild_h_atoms_default m3 (Some m3)) as [m4|]; cbn [bind] in H; [|discriminate H].
    destruct (sort_nodes_by_attr m4) as [m5|]; cbn [bind] in H; [|discriminate H].
    destruct (annotate_ez_isomers_cgsmiles m5) as [m6|]; cbn [bind] in H; [|discriminate H].
    destruct (annotate_fragments meta m6) as [fgs|]; cbn [bind] in H; [|discriminate H].
    destruct (set_atom_names m6 meta fgs) as [[m7 fgs']|]; cbn [bind] in H; [|discriminate H].
    inversion H. reflexivity. }
  rewrite M3. exact H.
Qed.

(** ---------------------------------------------------------------- the cut-level hypotheses, from the strings *)
Definition nA : pystr := S "A".
Definition nB : pystr := S "B".
Definition parts_AB (C : cut) (xsA xsB : list Z) : Prop :=
  c_parts C = [(nA, xsA); (nB, xsB)] \/ c_parts C = [(nB, xsB); (nA, xsA)].
(** the slash token of an atom of the cut, read off the token-level slash dicts of the two fragments *)
Definition tok2 (xsA xsB : list Z) (ezA ezB : ndict ascii) (x : Z) : option pyval :=
  if zmem x xsA then tok_of_ez ezA (index_in x xsA) else tok_of_ez ezB (index_in x xsB).

Section TwoFragments.
  Variable fo : float_oracle.
  Variable C : cut.
  Variables (xsA xsB : list Z) (tokA tokB : list tok) (dcA dcB : decor) (ezA ezB : ndict ascii) (TA0 TB0 : tmpl).
  Hypothesis RA : frag_reading fo C nA xsA tokA dcA ezA TA0.
  Hypothesis RB : frag_reading fo C nB xsB tokB dcB ezB TB0.
  Hypothesis HP : parts_AB C xsA xsB.
  Hypothesis W : wf_cut C.
  Let fd : fragdict := [(nA, tmpl_graph TA0); (nB, tmpl_graph TB0)].

  Lemma parts_cases name xs : In (name, xs) (c_parts C) -> (name = nA /\ xs = xsA) \/ (name = nB /\ xs = xsB).
  Proof. destruct HP as [-> | ->]; cbn; intros [E|[E|[]]]; inversion E; auto. Qed.
  Lemma parts_disjoint : NoDup xsA /\ NoDup xsB /\ forall x, In x xsA -> ~ In x xsB.
  Proof.
    pose proof (wc_nodup _ W) as ND. unfold flat in ND. destruct HP as [E|E]; rewrite E in ND; cbn in ND; rewrite app_nil_r in ND;
      destruct (NoDup_app_inv _ _ ND) as (A1 & A2 & A3); repeat split; auto. intros x Ia Ib. exact (A3 x Ib Ia).
  Qed.
  Lemma fd_getA : fd_get nA fd = Some (tmpl_graph TA0). Proof. reflexivity. Qed.
  Lemma fd_getB : fd_get nB fd = Some (tmpl_graph TB0). Proof. reflexivity. Qed.

  Lemma two_templates_ok : templates_ok C fd.
  Proof.
    intros name xs I. destruct (parts_cases name xs I) as [[-> ->]|[-> ->]].
    - exists (tmpl_graph TA0). split; [exact fd_getA|]. exact (proj1 (proj2 (reading_template _ _ _ _ _ _ _ _ RA))).
    - exists (tmpl_graph TB0). split; [exact fd_getB|]. exact (proj1 (proj2 (reading_template _ _ _ _ _ _ _ _ RB))).
  Qed.
  Lemma two_wf_dict : wf_dict fd.
  Proof.
    intros name g H. unfold fd in H. cbn [fd_get] in H. destruct (str_eqb name nA).
    - inversion H; subst g. eapply is_template_wf. exact (proj1 (proj2 (reading_template _ _ _ _ _ _ _ _ RA))).
    - destruct (str_eqb name nB); [|discriminate H]. inversion H; subst g. eapply is_template_wf. exact (proj1 (proj2 (reading_template _ _ _ _ _ _ _ _ RB))).
  Qed.
  Lemma two_tok : forall name xs T i x n, In (name, xs) (c_parts C) -> fd_get name fd = Some T ->
    nth_error xs i = Some x -> gfind (Z.of_nat i) T = Some n -> aget ezk (na n) = tok2 xsA xsB ezA ezB x.
  Proof.
    intros name xs T i x n I Ef Ex Gn. destruct parts_disjoint as (NA & NB & Dis). unfold tok2.
    assert (Ix : In x xs) by (eapply nth_error_In; eauto).
    destruct (parts_cases name xs I) as [[-> ->]|[-> ->]].
    - rewrite fd_getA in Ef. inversion Ef; subst T. rewrite (proj2 (zmem_In x xsA) Ix), (index_in_nth xsA i x NA Ex).
      exact (proj2 (proj2 (reading_template _ _ _ _ _ _ _ _ RA)) i x n Ex Gn).
    - rewrite fd_getB in Ef. inversion Ef; subst T.
      assert (Z : zmem x xsA = false) by (apply zmem_false; intros Ia; exact (Dis x Ia Ix)).
      rewrite Z, (index_in_nth xsB i x NB Ex).
      exact (proj2 (proj2 (reading_template _ _ _ _ _ _ _ _ RB)) i x n Ex Gn).
  Qed.

  (** the class resolve() stores, for a string of the family: EzCut.returned_class_geom on what resolve_string returns *)
  Variables (base : pystr) (mol : graph).
  Hypothesis Nb : base <> [].
  Hypothesis Hb : ~ In "}"%char base.
  Hypothesis Hm : read_cgsmiles fo ("{"%char :: base ++ ["}"%char]) = Ok mol.
  Hypothesis HB : is_base C (next_meta mol).
  Hypothesis Hat : heavy_payload C.
  Hypothesis Hnum : numeric_orders C.
  Let tA := render (decorate tokA dcA).
  Let tB := render (decorate tokB dcB).
  Hypothesis Hsep : ~ In ","%char tA /\ ~ In ","%char tB /\ ~ In "}"%char tA /\ ~ In "}"%char tB.

  Lemma string_step o : resolve_string fo ("{"%char :: base ++ "}"%char :: "."%char :: block2 tA tB) = Ok o ->
    resolve_step_full true true fd mol (Some (fo_m3 o)) = Ok o.
  Proof.
    destruct Hsep as (S1 & S2 & S3 & S4).
    exact (string_is_step fo base mol tA tB _ _ o Nb Hb Hm S1 S2 S3 S4
             (proj1 (reading_template _ _ _ _ _ _ _ _ RA)) (proj1 (reading_template _ _ _ _ _ _ _ _ RB))).
  Qed.

  Theorem string_class_geom o : resolve_string fo ("{"%char :: base ++ "}"%char :: "."%char :: block2 tA tB) = Ok o ->
    let tok := tok2 xsA xsB ezA ezB in
    exists m, sort_mapping (fo_m4 o) = Ok m /\
    forall k v, is_new (fo_m5 o) (fo_mol o) k v ->
    exists lx ax ay ly tx ty c,
      In lx (flat C) /\ In ax (flat C) /\ In ay (flat C) /\ In ly (flat C) /\
      tok lx = Some tx /\ tok ly = Some ty /\ is_tok tx = true /\ is_tok ty = true /\
      bonded C ax lx = true /\ bonded C ay ly = true /\ bonded C ax ay = true /\ is_two (result_order C ax ay) = true /\
      (v = ez_tuple (map_get m (phi C lx)) (map_get m (phi C ax)) (map_get m (phi C ay)) (map_get m (phi C ly)) c \/
       v = ez_tuple (map_get m (phi C ly)) (map_get m (phi C ay)) (map_get m (phi C ax)) (map_get m (phi C lx)) c) /\
      phi C ax < phi C ay /\
      c = class_val (if wb C ly ay then negb (geom C lx ax ay ly tx ty) else geom C lx ax ay ly tx ty).
  Proof.
    intros H tok. pose proof (string_step o H) as St.
    destruct (returned_class_geom C W fd two_templates_ok two_wf_dict (next_meta mol) HB Hat Hnum tok two_tok mol o eq_refl St)
      as (m & Em & _ & _ & Hall).
    exists m. split; [exact Em|]. intros k v Hn.
    destruct (Hall k v Hn) as (lx & ax & ay & ly & tx & ty & c & H1 & H2 & H3 & H4 & H5 & H6 & H7 & H8 & H9 & H10 & H11 & H12 & _ & _ & _ & _ & H13 & H14 & H15).
    exists lx, ax, ay, ly, tx, ty, c. repeat (split; [assumption|]). exact H15.
  Qed.
End TwoFragments.

(** ---------------------------------------------------------------- the two base orders *)
Definition swap_parts (C : cut) : cut :=
  {| c_atoms := c_atoms C; c_bonds := c_bonds C; c_parts := rev (c_parts C); c_dord := c_dord C |}.
Lemma swap_pperm C : pperm C (swap_parts C).
Proof. constructor; try reflexivity. cbn. apply Permutation_sym, Permutation_rev. Qed.

(** ORDER INDEPENDENCE THROUGH THE PARSER.  The two strings differ only in the order in which the base graph lists the two
    fragments.  For every cut C1 = (A: xsA, B: xsB) of a molecule that agrees with the token-level reading of the two
    fragment texts: outside the three open classes (ligands in the part of their anchors, written after them) the class
    resolve_string stores for the same four atoms is the same for both strings. *)
Theorem order_invariant_strings fo C1 xsA xsB tokA tokB dcA dcB ezA ezB TA0 TB0 o1 o2 :
  let tA := render (decorate tokA dcA) in let tB := render (decorate tokB dcB) in let C2 := swap_parts C1 in
  frag_reading fo C1 nA xsA tokA dcA ezA TA0 -> frag_reading fo C1 nB xsB tokB dcB ezB TB0 ->
  c_parts C1 = [(nA, xsA); (nB, xsB)] -> wf_cut C1 -> heavy_payload C1 -> numeric_orders C1 ->
  is_base C1 (next_meta baseAB) -> is_base C2 (next_meta baseBA) ->
  ~ In ","%char tA /\ ~ In ","%char tB /\ ~ In "}"%char tA /\ ~ In "}"%char tB ->
  resolve_string fo (sAB tA tB) = Ok o1 -> resolve_string fo (sBA tA tB) = Ok o2 ->
  exists m1 m2, sort_mapping (fo_m4 o1) = Ok m1 /\ sort_mapping (fo_m4 o2) = Ok m2 /\
    forall lx ax ay ly c1 c2 k1 k2, In lx (flat C1) -> In ax (flat C1) -> In ay (flat C1) -> In ly (flat C1) ->
      owner C1 lx = owner C1 ax -> owner C1 ly = owner C1 ay -> wb C1 lx ax = false -> wb C1 ly ay = false ->
      is_new (fo_m5 o1) (fo_mol o1) k1
        (ez_tuple (map_get m1 (phi C1 lx)) (map_get m1 (phi C1 ax)) (map_get m1 (phi C1 ay)) (map_get m1 (phi C1 ly)) c1) ->
      is_new (fo_m5 o2) (fo_mol o2) k2
        (ez_tuple (map_get m2 (phi C2 lx)) (map_get m2 (phi C2 ax)) (map_get m2 (phi C2 ay)) (map_get m2 (phi C2 ly)) c2) ->
      c1 = c2.
Proof.
  intros tA tB C2 RA RB HP W Hat Hnum HB1 HB2 Hsep R1 R2.
  assert (P1 : parts_AB C1 xsA xsB) by (left; exact HP).
  assert (NbA : S "[#A][#B]" <> []) by discriminate. assert (NbB : S "[#B][#A]" <> []) by discriminate.
  assert (HbA : ~ In "}"%char (S "[#A][#B]")) by (vm_compute; intuition discriminate).
  assert (HbB : ~ In "}"%char (S "[#B][#A]")) by (vm_compute; intuition discriminate).
  pose proof (string_step fo C1 xsA xsB tokA tokB dcA dcB ezA ezB TA0 TB0 RA RB (S "[#A][#B]") baseAB NbA HbA (read_baseAB fo) Hsep o1 R1) as S1.
  pose proof (string_step fo C1 xsA xsB tokA tokB dcA dcB ezA ezB TA0 TB0 RA RB (S "[#B][#A]") baseBA NbB HbB (read_baseBA fo) Hsep o2 R2) as S2.
  exact (order_invariant_cut C1 C2 _ (next_meta baseAB) (next_meta baseBA) (tok2 xsA xsB ezA ezB) baseAB baseBA o1 o2
           W (swap_pperm C1) (two_templates_ok fo C1 xsA xsB tokA tokB dcA dcB ezA ezB TA0 TB0 RA RB P1)
           (two_wf_dict fo C1 xsA xsB tokA tokB dcA dcB ezA ezB TA0 TB0 RA RB) HB1 HB2 Hat Hnum
           (two_tok fo C1 xsA xsB tokA tokB dcA dcB ezA ezB TA0 TB0 RA RB P1 W) eq_refl eq_refl S1 S2).
Qed.

(** ez_cut_invariant THROUGH THE PARSER, for two-fragment strings: two strings that cut the same molecule at different places
    (and/or list the fragments in different orders) - e.g. cut at the stereo double bond and cut elsewhere - whose tokens say
    the same sides store the true relation for the same four atoms, outside the open classes *)
Theorem cut_invariant_strings fo C1 C2 xsA1 xsB1 xsA2 xsB2 tokA1 tokB1 tokA2 tokB2 dcA1 dcB1 dcA2 dcB2 ezA1 ezB1 ezA2 ezB2
        TA1 TB1 TA2 TB2 (base1 base2 : pystr) mol1 mol2 o1 o2 :
  let tA1 := render (decorate tokA1 dcA1) in let tB1 := render (decorate tokB1 dcB1) in
  let tA2 := render (decorate tokA2 dcA2) in let tB2 := render (decorate tokB2 dcB2) in
  let tok1 := tok2 xsA1 xsB1 ezA1 ezB1 in let tok2' := tok2 xsA2 xsB2 ezA2 ezB2 in
  frag_reading fo C1 nA xsA1 tokA1 dcA1 ezA1 TA1 -> frag_reading fo C1 nB xsB1 tokB1 dcB1 ezB1 TB1 -> parts_AB C1 xsA1 xsB1 ->
  frag_reading fo C2 nA xsA2 tokA2 dcA2 ezA2 TA2 -> frag_reading fo C2 nB xsB2 tokB2 dcB2 ezB2 TB2 -> parts_AB C2 xsA2 xsB2 ->
  wf_cut C1 -> heavy_payload C1 -> numeric_orders C1 -> wf_cut C2 -> heavy_payload C2 -> numeric_orders C2 ->
  base1 <> [] -> ~ In "}"%char base1 -> read_cgsmiles fo ("{"%char :: base1 ++ ["}"%char]) = Ok mol1 -> is_base C1 (next_meta mol1) ->
  base2 <> [] -> ~ In "}"%char base2 -> read_cgsmiles fo ("{"%char :: base2 ++ ["}"%char]) = Ok mol2 -> is_base C2 (next_meta mol2) ->
  ~ In ","%char tA1 /\ ~ In ","%char tB1 /\ ~ In "}"%char tA1 /\ ~ In "}"%char tB1 ->
  ~ In ","%char tA2 /\ ~ In ","%char tB2 /\ ~ In "}"%char tA2 /\ ~ In "}"%char tB2 ->
  resolve_string fo ("{"%char :: base1 ++ "}"%char :: "."%char :: block2 tA1 tB1) = Ok o1 ->
  resolve_string fo ("{"%char :: base2 ++ "}"%char :: "."%char :: block2 tA2 tB2) = Ok o2 ->
  exists m1 m2, sort_mapping (fo_m4 o1) = Ok m1 /\ sort_mapping (fo_m4 o2) = Ok m2 /\
    forall lx ax ay ly ux uy c1 c2 k1 k2,
      In lx (flat C1) -> In ax (flat C1) -> In ay (flat C1) -> In ly (flat C1) ->
      In lx (flat C2) -> In ax (flat C2) -> In ay (flat C2) -> In ly (flat C2) ->
      tok1 lx = Some (tok_of ux (wb C1 lx ax)) -> tok1 ly = Some (tok_of uy (wb C1 ly ay)) ->
      tok2' lx = Some (tok_of ux (wb C2 lx ax)) -> tok2' ly = Some (tok_of uy (wb C2 ly ay)) ->
      late_after C1 lx ax ay ly = true -> late_after C2 lx ax ay ly = true ->
      is_new (fo_m5 o1) (fo_mol o1) k1
        (ez_tuple (map_get m1 (phi C1 lx)) (map_get m1 (phi C1 ax)) (map_get m1 (phi C1 ay)) (map_get m1 (phi C1 ly)) c1) ->
      is_new (fo_m5 o2) (fo_mol o2) k2
        (ez_tuple (map_get m2 (phi C2 lx)) (map_get m2 (phi C2 ax)) (map_get m2 (phi C2 ay)) (map_get m2 (phi C2 ly)) c2) ->
      c1 = class_val (Bool.eqb ux uy) /\ c2 = class_val (Bool.eqb ux uy).
Proof.
  intros tA1 tB1 tA2 tB2 tok1 tok2' RA1 RB1 P1 RA2 RB2 P2 W1 Hat1 Hn1 W2 Hat2 Hn2 Nb1 Hb1 Hm1 HB1 Nb2 Hb2 Hm2 HB2 Sep1 Sep2 R1 R2.
  pose proof (string_step fo C1 xsA1 xsB1 tokA1 tokB1 dcA1 dcB1 ezA1 ezB1 TA1 TB1 RA1 RB1 base1 mol1 Nb1 Hb1 Hm1 Sep1 o1 R1) as S1.
  pose proof (string_step fo C2 xsA2 xsB2 tokA2 tokB2 dcA2 dcB2 ezA2 ezB2 TA2 TB2 RA2 RB2 base2 mol2 Nb2 Hb2 Hm2 Sep2 o2 R2) as S2.
  exact (cut_invariant C1 C2 _ _ (next_meta mol1) (next_meta mol2) tok1 tok2' mol1 mol2 o1 o2
           W1 (two_templates_ok fo C1 xsA1 xsB1 tokA1 tokB1 dcA1 dcB1 ezA1 ezB1 TA1 TB1 RA1 RB1 P1)
           (two_wf_dict fo C1 xsA1 xsB1 tokA1 tokB1 dcA1 dcB1 ezA1 ezB1 TA1 TB1 RA1 RB1) HB1 Hat1 Hn1
           W2 (two_templates_ok fo C2 xsA2 xsB2 tokA2 tokB2 dcA2 dcB2 ezA2 ezB2 TA2 TB2 RA2 RB2 P2)
           (two_wf_dict fo C2 xsA2 xsB2 tokA2 tokB2 dcA2 dcB2 ezA2 ezB2 TA2 TB2 RA2 RB2) HB2 Hat2 Hn2
           (two_tok fo C1 xsA1 xsB1 tokA1 tokB1 dcA1 dcB1 ezA1 ezB1 TA1 TB1 RA1 RB1 P1 W1)
           (two_tok fo C2 xsA2 xsB2 tokA2 tokB2 dcA2 dcB2 ezA2 ezB2 TA2 TB2 RA2 RB2 P2 W2) eq_refl eq_refl S1 S2).
Qed.

(** ---------------------------------------------------------------- ONE fragment: {[#A]}.{#A=<text>} *)
Definition block1 (tA : pystr) : pystr := "{"%char :: (S "#A=" ++ tA) ++ ["}"%char].
Definition sA (tA : pystr) : pystr := S "{[#A]}." ++ block1 tA.
Lemma fragment_split1 tA : ~ In ","%char tA -> fragment_split (block1 tA) = [(S "A", tA)].
Proof.
  intros NA. unfold fragment_split, block1. cbn [skipn]. rewrite removelast_last.
  change (S "#A=" ++ tA) with (join [","%char] [S "#A=" ++ tA]).
  rewrite py_split_join; [reflexivity|discriminate|].
  repeat constructor; cbn; intros H; repeat (destruct H as [H|H]; [discriminate H|]); auto.
Qed.
Lemma find_blocks_1 (base : pystr) tA : base <> [] -> ~ In "}"%char base -> ~ In "}"%char tA ->
  find_blocks ("{"%char :: base ++ "}"%char :: "."%char :: block1 tA) = ["{"%char :: base ++ ["}"%char]; block1 tA].
Proof.
  intros Nb Hb NA. rewrite (find_blocks_cons base _ Nb Hb). f_equal.
  rewrite find_blocks_skip by discriminate. unfold block1.
  change ("{"%char :: (S "#A=" ++ tA) ++ ["}"%char]) with ("{"%char :: (S "#A=" ++ tA) ++ "}"%char :: []).
  rewrite find_blocks_cons; [reflexivity|discriminate|].
  intros H. apply in_app_or in H as [H|H]; [vm_compute in H; repeat (destruct H as [H|H]; [discriminate H|]); exact H|now apply NA].
Qed.
Theorem string_is_step1 fo (base : pystr) mol tA TA o :
  base <> [] -> ~ In "}"%char base -> read_cgsmiles fo ("{"%char :: base ++ ["}"%char]) = Ok mol ->
  ~ In ","%char tA -> ~ In "}"%char tA -> marked_template fo (S "A") tA = Ok TA ->
  resolve_string fo ("{"%char :: base ++ "}"%char :: "."%char :: block1 tA) = Ok o ->
  resolve_step_full true true [(S "A", TA)] mol (Some (fo_m3 o)) = Ok o.
Proof.
  intros Nb Hb Hm CA BA HA H. unfold resolve_string, from_string in H.
  rewrite (find_blocks_1 base tA Nb Hb BA), Hm in H. cbn [bind read_fragment_strings] in H.
  unfold read_fragments_model, read_fragments_aa in H. rewrite (fragment_split1 tA CA) in H.
  cbn [fold_res fst snd] in H. rewrite HA in H. cbn [bind fd_add] in H.
  cbn [st_dicts st_mol init] in H.
  set (fd := [(S "A", TA)]) in *.
  set (meta := set_nodes_from mol (S "fragname") (get_node_attributes mol (S "atomname"))) in *.
  destruct (resolve_disconnected fd meta) as [[m1 fg1]|] eqn:E1; cbn [bind] in H; [|discriminate H].
  destruct (bonding_step true true meta m1 fg1) as [[m2 fg2]|] eqn:E2; cbn [bind] in H; [|discriminate H].
  destruct (Squash.squash_atoms m2) as [m3|] eqn:E3; cbn [bind] in H; [|discriminate H].
  assert (M3 : fo_m3 o = m3).
  { unfold resolve_step_full in H. fold meta in H. rewrite E1 in H. cbn [bind] in H. rewrite E2 in H. cbn [bind] in H. rewrite E3 in H. cbn [bind] in H.
    destruct (Hydrogens.rebuild_h_atoms_default m3 (Some m3)) as [m4|]; cbn [bind] in H; [|discriminate H].
    destruct (sort_nodes_by_attr m4) as [m5|]; cbn [bind] in H; [|discriminate H].
    destruct (annotate_ez_isomers_cgsmiles m5) as [m6|]; cbn [bind] in H; [|discriminate H].
    destruct (annotate_fragments meta m6) as [fgs|]; cbn [bind] in H; [|discriminate H].
    destruct (set_atom_names m6 meta fgs) as [[m7 fgs']|]; cbn [bind] in H; [|discriminate H].
    inversion H. reflexivity. }
  rewrite M3. exact H.
Qed.
Definition baseA : graph :=
  Eval vm_compute in match read_cgsmiles (fo_of_table []) (S "{[#A]}") with Ok g => g | Err _ => gempty end.
Lemma read_baseA fo : read_cgsmiles fo (S "{[#A]}") = Ok baseA.
Proof. vm_compute. reflexivity. Qed.

Definition tok1f (xs : list Z) (ez : ndict ascii) (x : Z) : option pyval := tok_of_ez ez (index_in x xs).
Section OneFragment.
  Variable fo : float_oracle.
  Variable C : cut.
  Variables (xs : list Z) (toks : list tok) (dc : decor) (ez : ndict ascii) (T0 : tmpl).
  Hypothesis R : frag_reading fo C nA xs toks dc ez T0.
  Hypothesis HP : c_parts C = [(nA, xs)].
  Hypothesis W : wf_cut C.
  Let fd : fragdict := [(nA, tmpl_graph T0)].
  Lemma one_templates_ok : templates_ok C fd.
  Proof.
    intros name ys I. rewrite HP in I. destruct I as [E|[]]. inversion E; subst name ys.
    exists (tmpl_graph T0). split; [reflexivity|]. exact (proj1 (proj2 (reading_template _ _ _ _ _ _ _ _ R))).
  Qed.
  Lemma one_wf_dict : wf_dict fd.
  Proof.
    intros name g H. unfold fd in H. cbn [fd_get] in H. destruct (str_eqb name nA); [|discriminate H].
    inversion H; subst g. eapply is_template_wf. exact (proj1 (proj2 (reading_template _ _ _ _ _ _ _ _ R))).
  Qed.
  Lemma one_tok : forall name ys T i x n, In (name, ys) (c_parts C) -> fd_get name fd = Some T ->
    nth_error ys i = Some x -> gfind (Z.of_nat i) T = Some n -> aget ezk (na n) = tok1f xs ez x.
  Proof.
    intros name ys T i x n I Ef Ex Gn. rewrite HP in I. destruct I as [E|[]]. inversion E; subst name ys.
    change (fd_get nA fd) with (Some (tmpl_graph T0)) in Ef. inversion Ef; subst T.
    assert (ND : NoDup xs). { pose proof (wc_nodup _ W) as N. unfold flat in N. rewrite HP in N. cbn in N. now rewrite app_nil_r in N. }
    unfold tok1f. rewrite (index_in_nth xs i x ND Ex).
    exact (proj2 (proj2 (reading_template _ _ _ _ _ _ _ _ R)) i x n Ex Gn).
  Qed.
  Lemma string_step1 (base : pystr) mol o : base <> [] -> ~ In "}"%char base ->
    read_cgsmiles fo ("{"%char :: base ++ ["}"%char]) = Ok mol ->
    ~ In ","%char (render (decorate toks dc)) -> ~ In "}"%char (render (decorate toks dc)) ->
    resolve_string fo ("{"%char :: base ++ "}"%char :: "."%char :: block1 (render (decorate toks dc))) = Ok o ->
    resolve_step_full true true fd mol (Some (fo_m3 o)) = Ok o.
  Proof.
    intros Nb Hb Hm S1 S2. exact (string_is_step1 fo base mol _ _ o Nb Hb Hm S1 S2 (proj1 (reading_template _ _ _ _ _ _ _ _ R))).
  Qed.
End OneFragment.

(** ez_cut_invariant through the parser, ONE FRAGMENT against a cut in two: {[#A]}.{#A=t} against
    {base}.{#A=tA,#B=tB} (cut at the stereo double bond, or elsewhere; either base order) *)
Theorem one_vs_two_strings fo C1 C2 xs1 xsA2 xsB2 tok1 tokA2 tokB2 dc1 dcA2 dcB2 ez1 ezA2 ezB2 T1 TA2 TB2 (base2 : pystr) mol2 o1 o2 :
  let t1 := render (decorate tok1 dc1) in
  let tA2 := render (decorate tokA2 dcA2) in let tB2 := render (decorate tokB2 dcB2) in
  let tk1 := tok1f xs1 ez1 in let tk2 := tok2 xsA2 xsB2 ezA2 ezB2 in
  frag_reading fo C1 nA xs1 tok1 dc1 ez1 T1 -> c_parts C1 = [(nA, xs1)] ->
  frag_reading fo C2 nA xsA2 tokA2 dcA2 ezA2 TA2 -> frag_reading fo C2 nB xsB2 tokB2 dcB2 ezB2 TB2 -> parts_AB C2 xsA2 xsB2 ->
  wf_cut C1 -> heavy_payload C1 -> numeric_orders C1 -> wf_cut C2 -> heavy_payload C2 -> numeric_orders C2 ->
  is_base C1 (next_meta baseA) ->
  base2 <> [] -> ~ In "}"%char base2 -> read_cgsmiles fo ("{"%char :: base2 ++ ["}"%char]) = Ok mol2 -> is_base C2 (next_meta mol2) ->
  ~ In ","%char t1 -> ~ In "}"%char t1 ->
  ~ In ","%char tA2 /\ ~ In ","%char tB2 /\ ~ In "}"%char tA2 /\ ~ In "}"%char tB2 ->
  resolve_string fo (sA t1) = Ok o1 ->
  resolve_string fo ("{"%char :: base2 ++ "}"%char :: "."%char :: block2 tA2 tB2) = Ok o2 ->
  exists m1 m2, sort_mapping (fo_m4 o1) = Ok m1 /\ sort_mapping (fo_m4 o2) = Ok m2 /\
    forall lx ax ay ly ux uy c1 c2 k1 k2,
      In lx (flat C1) -> In ax (flat C1) -> In ay (flat C1) -> In ly (flat C1) ->
      In lx (flat C2) -> In ax (flat C2) -> In ay (flat C2) -> In ly (flat C2) ->
      tk1 lx = Some (tok_of ux (wb C1 lx ax)) -> tk1 ly = Some (tok_of uy (wb C1 ly ay)) ->
      tk2 lx = Some (tok_of ux (wb C2 lx ax)) -> tk2 ly = Some (tok_of uy (wb C2 ly ay)) ->
      late_after C1 lx ax ay ly = true -> late_after C2 lx ax ay ly = true ->
      is_new (fo_m5 o1) (fo_mol o1) k1
        (ez_tuple (map_get m1 (phi C1 lx)) (map_get m1 (phi C1 ax)) (map_get m1 (phi C1 ay)) (map_get m1 (phi C1 ly)) c1) ->
      is_new (fo_m5 o2) (fo_mol o2) k2
        (ez_tuple (map_get m2 (phi C2 lx)) (map_get m2 (phi C2 ax)) (map_get m2 (phi C2 ay)) (map_get m2 (phi C2 ly)) c2) ->
      c1 = class_val (Bool.eqb ux uy) /\ c2 = class_val (Bool.eqb ux uy).
Proof.
  intros t1 tA2 tB2 tk1 tk2 R1 HP1 RA2 RB2 P2 W1 Hat1 Hn1 W2 Hat2 Hn2 HB1 Nb2 Hb2 Hm2 HB2 S1a S1b Sep2 Q1 Q2.
  assert (NbA : S "[#A]" <> []) by discriminate.
  assert (HbA : ~ In "}"%char (S "[#A]")) by (vm_compute; intuition discriminate).
  pose proof (string_step1 fo C1 xs1 tok1 dc1 ez1 T1 R1 (S "[#A]") baseA o1 NbA HbA (read_baseA fo) S1a S1b Q1) as St1.
  pose proof (string_step fo C2 xsA2 xsB2 tokA2 tokB2 dcA2 dcB2 ezA2 ezB2 TA2 TB2 RA2 RB2 base2 mol2 Nb2 Hb2 Hm2 Sep2 o2 Q2) as St2.
  exact (cut_invariant C1 C2 _ _ (next_meta baseA) (next_meta mol2) tk1 tk2 baseA mol2 o1 o2
           W1 (one_templates_ok fo C1 xs1 tok1 dc1 ez1 T1 R1 HP1) (one_wf_dict fo C1 xs1 tok1 dc1 ez1 T1 R1) HB1 Hat1 Hn1
           W2 (two_templates_ok fo C2 xsA2 xsB2 tokA2 tokB2 dcA2 dcB2 ezA2 ezB2 TA2 TB2 RA2 RB2 P2)
           (two_wf_dict fo C2 xsA2 xsB2 tokA2 tokB2 dcA2 dcB2 ezA2 ezB2 TA2 TB2 RA2 RB2) HB2 Hat2 Hn2
           (one_tok fo C1 xs1 tok1 dc1 ez1 T1 R1 HP1 W1)
           (two_tok fo C2 xsA2 xsB2 tokA2 tokB2 dcA2 dcB2 ezA2 ezB2 TA2 TB2 RA2 RB2 P2 W2) eq_refl eq_refl St1 St2).
Qed.
