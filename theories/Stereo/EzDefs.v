(** EzDefs: definitions used by the C15 statements AND by the executable oracle (NO proofs). *)
From Coq Require Import String.
From Coq Require Import List Ascii ZArith Bool.
From CGV Require Import Base.PyBase Base.PyVal Base.NxGraph Stereo.EzImpl.
Import ListNotations.
Open Scope Z_scope.

(** graphs as networkx keeps them: keys unique (dict), every adjacency target is a node *)
Fixpoint nodup_keysb (l : list Z) : bool :=
  match l with [] => true | x :: r => negb (existsb (Z.eqb x) r) && nodup_keysb r end.
Definition adj_closedb (g : graph) : bool :=
  forallb (fun n => forallb (fun wa => has_node g (fst wa)) (nadj n)) g.
Definition adj_nodupb (g : graph) : bool := forallb (fun n => nodup_keysb (map fst (nadj n))) g.
(** undirected: the reverse adjacency entry exists and agrees on "order is 2" *)
Definition adj_symb (g : graph) : bool :=
  forallb (fun n => forallb (fun wa =>
     has_edge g (fst wa) (nk n)
     && Bool.eqb (is_two (edge_get g (fst wa) (nk n) (S "order"))) (is_two (aget (S "order") (snd wa)))) (nadj n)) g.
Definition wf_graphb (g : graph) : bool := nodup_keysb (node_keys g) && adj_closedb g && adj_nodupb g && adj_symb g.

(** clause (a): l1 - a1 = a2 - l2 is a path of g, the middle edge has order 2, all four keys are
    nodes, the ligands are not anchors *)
Definition path_ok (g : graph) (l1 a1 a2 l2 : Z) : bool :=
  has_node g l1 && has_node g a1 && has_node g a2 && has_node g l2
  && has_edge g a1 l1 && has_edge g a2 l2 && has_edge g a1 a2
  && is_two (edge_get g a1 a2 (S "order"))
  && negb (Z.eqb l1 a1) && negb (Z.eqb l1 a2) && negb (Z.eqb l2 a1) && negb (Z.eqb l2 a2).

Definition as_tuple5 (v : pyval) : option (Z * Z * Z * Z * pyval) :=
  match v with
  | VTup [VInt l1; VInt a1; VInt a2; VInt l2; c] => Some (l1, a1, a2, l2, c)
  | _ => None
  end.
Definition tuple_ok (g : graph) (owner : Z) (v : pyval) : bool :=
  match as_tuple5 v with
  | Some (l1, a1, a2, l2, c) =>
      Z.eqb owner l1 && path_ok g l1 a1 a2 l2 && (pyval_eqb c v_cis || pyval_eqb c v_trans)
  | None => false
  end.
(** every stored tuple of every node *)
Definition refs_ok (g : graph) : bool :=
  forallb (fun n => forallb (tuple_ok g (nk n)) (ez_list g (nk n))) g.

(** ---- what the slash tokens MEAN (OpenSMILES): a token between two atoms, read in written order
    p … q, says q is above ('/') or below ('\') p.  For a ligand L of the anchor A, with
    [before] = L is written before A (in CGsmiles: L's key is smaller than A's, both lie in one
    fragment):  L is above A  iff  (token = '/') xor before. *)
Definition is_slash (t : pyval) : bool := pyval_eqb t tok_slash.
Definition is_tok (t : pyval) : bool := pyval_eqb t tok_slash || pyval_eqb t tok_back.
Definition up (before : bool) (t : pyval) : bool := xorb (is_slash t) before.
(** the two substituents are on the same side *)
Definition geom_cis (before1 : bool) (t1 : pyval) (before2 : bool) (t2 : pyval) : bool :=
  Bool.eqb (up before1 t1) (up before2 t2).
Definition class_val (cis : bool) : pyval := if cis then v_cis else v_trans.

(** the pair's intended relation from the written marks *)
Definition pair_geom (p : sub * sub) : pyval :=
  let '(x, y) := p in
  class_val (geom_cis (s_lig x <? s_anc x) (s_tok x) (s_lig y <? s_anc y) (s_tok y)).

(** the defect class: a ligand of the SECOND-enumerated anchor has a smaller key than that anchor
    (the eight-case table silently assumes it is larger) *)
Definition pair_in_class (p : sub * sub) : bool := s_lig (snd p) <? s_anc (snd p).
Definition in_class (g : graph) : bool :=
  match all_pairs g (ez_class_dict g) with
  | Ok ps => existsb pair_in_class ps
  | Err _ => false
  end.

(** general form: kb1 = first ligand's KEY is smaller than its anchor's, wb1 / wb2 = the ligand is WRITTEN
    before its anchor.  pysmiles' table uses kb1 for wb1 and `false` for wb2; it gives the geometric relation
    of the marks iff this is false *)
Definition table_broken (kb1 wb1 wb2 : bool) : bool := xorb (negb (Bool.eqb kb1 wb1)) wb2.
(** the conflict test on flags: two ligands of one anchor on the same side (flag-wise) need different
    tokens, on different sides the same token *)
Definition conflict_free (b1 b2 : bool) (t1 t2 : pyval) : bool :=
  if Bool.eqb b1 b2 then negb (pyval_eqb t1 t2) else pyval_eqb t1 t2.

(** ---- the generator's ground truth and its `unambiguous` filter as a predicate on the molecule the annotation step
    receives.  A mark: ligand and anchor (keys of that molecule), the side of the double bond's axis the ligand is on
    ([m_up]), and whether the ligand was WRITTEN before its anchor ([m_wb]).  The token such a mark writes: *)
Record mark := { m_lig : Z; m_anc : Z; m_up : bool; m_wb : bool }.
Definition tok_of (u wb : bool) : pyval := if xorb u wb then tok_slash else tok_back.
Definition sub_mark (ms : list mark) (x : sub) : option mark :=
  find (fun m => Z.eqb (m_lig m) (s_lig x) && Z.eqb (m_anc m) (s_anc x)) ms.
Definition sub_ok (ms : list mark) (x : sub) : bool :=
  match sub_mark ms x with
  | Some m => pyval_eqb (s_tok x) (tok_of (m_up m) (m_wb m))
  | None => false
  end.
(** the per-atom token storage lost nothing: the annotation succeeds and every (tagged neighbour, anchor) it pairs up
    is an intended mark and carries the token of ITS bond to that anchor *)
Definition marks_ok (g : graph) (ms : list mark) : bool :=
  match all_pairs g (ez_class_dict g) with
  | Ok ps => forallb (fun p => sub_ok ms (fst p) && sub_ok ms (snd p)) ps
  | Err _ => false
  end.
(** what the implementation will store for two marks, the first on the first-enumerated anchor *)
Definition predicted_cis (mx my : mark) : bool :=
  let same := Bool.eqb (m_up mx) (m_up my) in
  if table_broken (m_lig mx <? m_anc mx) (m_wb mx) (m_wb my) then negb same else same.

(** a renumbering applied structurally: same node order, same adjacency order *)
Definition rename_adj (f : Z -> Z) (l : list (Z * attrs)) : list (Z * attrs) :=
  map (fun wa => (f (fst wa), snd wa)) l.
Definition rename_graph (f : Z -> Z) (g : graph) : graph :=
  map (fun n => {| nk := f (nk n); na := na n; nadj := rename_adj f (nadj n) |}) g.
Definition rename_ez (f : Z -> Z) (d : ezdict) : ezdict := map (fun kv => (f (fst kv), snd kv)) d.
Definition rename_sub (f : Z -> Z) (x : sub) : sub :=
  {| s_lig := f (s_lig x); s_anc := f (s_anc x); s_tok := s_tok x |}.
Definition rename_pair (f : Z -> Z) (p : sub * sub) : sub * sub := (rename_sub f (fst p), rename_sub f (snd p)).
Definition injective (f : Z -> Z) : Prop := forall x y, f x = f y -> x = y.
(** monotone on every (neighbour, node) pair: the only comparisons the annotation makes *)
Definition mono_adj (g : graph) (f : Z -> Z) : Prop :=
  forall n w d, In n g -> In (w, d) (nadj n) -> (w <? nk n) = (f w <? f (nk n)) /\ (nk n <? w) = (f (nk n) <? f w).

(** ---- "the same molecule with the same marks", numbered differently (two variants) *)
Definition same_marked_moleculeb (iso : Z -> Z) (g1 g2 : graph) : bool :=
  Nat.eqb (length g1) (length g2)
  && nodup_keysb (map iso (node_keys g1))
  && forallb (fun n =>
       let k := nk n in
       has_node g2 (iso k)
       && match node_get g2 (iso k) (S "element"), aget (S "element") (na n) with
          | Some x, Some y => pyval_eqb x y | _, _ => false end
       && match node_get g2 (iso k) (S "ez_isomer_class"), aget (S "ez_isomer_class") (na n) with
          | Some x, Some y => pyval_eqb x y | None, None => true | _, _ => false end
       && Nat.eqb (degree g2 (iso k)) (length (nadj n))
       && forallb (fun wa => match edge_get g2 (iso k) (iso (fst wa)) (S "order"), aget (S "order") (snd wa) with
                             | Some x, Some y => pyval_eqb x y | _, _ => false end) (nadj n)
       (* fragment membership is kept: same fragment in g1 <-> same fragment in g2 *)
       && forallb (fun m => Bool.eqb
             (match aget (S "fragid") (na n), aget (S "fragid") (na m) with
              | Some x, Some y => pyval_eqb x y | _, _ => false end)
             (match node_get g2 (iso k) (S "fragid"), node_get g2 (iso (nk m)) (S "fragid") with
              | Some x, Some y => pyval_eqb x y | _, _ => false end)) g1) g1.
