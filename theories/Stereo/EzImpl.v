(** EzImpl: Impl model (executable, NO proofs) over NxGraph of
      cgsmiles.pysmiles_utils.annotate_ez_isomers_cgsmiles(molecule)
    which calls the THIRD-PARTY pysmiles.smiles_helper._annotate_ez_isomers /
    _check_for_ez_conflicts / _interpret_cis_trans_tokens (pysmiles 2.1.0), modelled here and
    validated against the installed library by the C15 correspondence (DESIGN 2.6: modelled, not
    axiomatised).  The function runs AFTER sort_nodes_by_attr, i.e. on the final node keys.

    Python iterates a SET of ints (`set(molecule.neighbors(anchor)) - set(anchors)`) when it collects
    the tagged neighbours of an anchor.  The iteration order of that set only decides the order in
    which tuples are appended to the 'ez_isomer' lists (the conflict test is symmetric in its two
    nodes); the model uses adjacency order and the correspondence compares the 'ez_isomer' lists as
    MULTISETS (EzCheck.ez_list_eqb). *)
From Coq Require Import String.
From Coq Require Import List Ascii ZArith Bool.
From CGV Require Import Base.PyBase Base.PyVal Base.NxGraph.
Import ListNotations.
Open Scope Z_scope.

(** {int: token} dict *)
Definition ezdict := list (Z * pyval).
Fixpoint ez_get (k : Z) (d : ezdict) : option pyval :=
  match d with [] => None | (k', v) :: r => if Z.eqb k k' then Some v else ez_get k r end.
Definition ez_in (d : ezdict) (k : Z) : bool := match ez_get k d with Some _ => true | None => false end.

(** `order != 2` is False for the int 2 and for the float 2.0 *)
Definition is_two (o : option pyval) : bool :=
  match o with
  | Some (VInt z) => Z.eqb z 2
  | Some (VFlt r) => str_eqb r (S "2.0")
  | _ => false
  end.

(** one entry of ez_on_anchor[anchor]: [neighbor, anchor, ez_atoms[neighbor]] *)
Record sub := { s_lig : Z; s_anc : Z; s_tok : pyval }.

(** tagged neighbours of [a], the two anchors removed, in adjacency order *)
Definition on_anchor (g : graph) (ez : ezdict) (a other : Z) : list sub :=
  flat_map (fun n => if Z.eqb n a || Z.eqb n other then []
                     else match ez_get n ez with
                          | Some t => [{| s_lig := n; s_anc := a; s_tok := t |}]
                          | None => []
                          end) (neighbors g a).

(** `if len(tagged_nodes) > 1: _check_for_ez_conflicts(anchor, tagged_nodes, ez_atoms)`;
    `n1, n2 = tagged_nodes` raises ValueError for three or more, like the conflict itself *)
Definition conflict_check (a : Z) (l : list sub) : res unit :=
  match l with
  | [] | [_] => Ok tt
  | [x; y] =>
      let n1 := s_lig x in let n2 := s_lig y in
      let same := pyval_eqb (s_tok x) (s_tok y) in
      if ((n1 <? a) && (n2 <? a)) || ((a <? n1) && (a <? n2))
      then (if same then Err EValue else Ok tt)
      else (if same then Ok tt else Err EValue)
  | _ => Err EValue
  end.

(** body of the edge loop for one edge (anchor1, anchor2, data) *)
Definition edge_pairs (g : graph) (ez : ezdict) (e : Z * Z * attrs) : res (list (sub * sub)) :=
  let '(a1, a2, d) := e in
  if negb (is_two (aget (S "order") d)) then Ok [] else
  (* dangling token: exactly one of the anchors is in ez_atoms *)
  if xorb (ez_in ez a1) (ez_in ez a2) then Err EValue else
  let s1 := on_anchor g ez a1 a2 in
  _ <- conflict_check a1 s1 ;;
  let s2 := on_anchor g ez a2 a1 in
  _ <- conflict_check a2 s2 ;;
  Ok (list_prod s1 s2).

Fixpoint all_pairs_of (g : graph) (ez : ezdict) (es : list (Z * Z * attrs)) : res (list (sub * sub)) :=
  match es with
  | [] => Ok []
  | e :: r => p <- edge_pairs g ez e ;; ps <- all_pairs_of g ez r ;; Ok (p ++ ps)
  end.
(** ez_isomer_pairs, in the order of `molecule.edges(data='order')` *)
Definition all_pairs (g : graph) (ez : ezdict) : res (list (sub * sub)) := all_pairs_of g ez (edges_data g).

Definition tok_slash : pyval := VStr (S "/").
Definition tok_back : pyval := VStr ["\"%char].
Definition v_cis : pyval := VStr (S "cis").
Definition v_trans : pyval := VStr (S "trans").

(** the eight cases of _interpret_cis_trans_tokens, written as in the source; None = the final
    `assert ez_isomer is not None` fails *)
Definition interpret (lf af : Z) (t1 t2 : pyval) : option pyval :=
  if lf <? af then
    if pyval_eqb t1 tok_slash && pyval_eqb t2 tok_slash then Some v_trans
    else if pyval_eqb t1 tok_back && pyval_eqb t2 tok_slash then Some v_cis
    else if pyval_eqb t1 tok_slash && pyval_eqb t2 tok_back then Some v_cis
    else if pyval_eqb t1 tok_back && pyval_eqb t2 tok_back then Some v_trans
    else None
  else if af <? lf then
    if pyval_eqb t1 tok_back && pyval_eqb t2 tok_slash then Some v_trans
    else if pyval_eqb t1 tok_slash && pyval_eqb t2 tok_slash then Some v_cis
    else if pyval_eqb t1 tok_slash && pyval_eqb t2 tok_back then Some v_trans
    else if pyval_eqb t1 tok_back && pyval_eqb t2 tok_back then Some v_cis
    else None
  else None.

Definition ez_tuple (l a a' l' : Z) (c : pyval) : pyval := VTup [VInt l; VInt a; VInt a'; VInt l'; c].

(** the two appends one pair causes: (node, tuple) *)
Definition pair_appends (p : sub * sub) : res (list (Z * pyval)) :=
  let '(x, y) := p in
  match interpret (s_lig x) (s_anc x) (s_tok x) (s_tok y) with
  | None => Err EAssert
  | Some c => Ok [(s_lig x, ez_tuple (s_lig x) (s_anc x) (s_anc y) (s_lig y) c);
                  (s_lig y, ez_tuple (s_lig y) (s_anc y) (s_anc x) (s_lig x) c)]
  end.
Fixpoint appends_of (ps : list (sub * sub)) : res (list (Z * pyval)) :=
  match ps with
  | [] => Ok []
  | p :: r => a <- pair_appends p ;; b <- appends_of r ;; Ok (a ++ b)
  end.

(** nodes[k]['ez_isomer'] = nodes[k].get('ez_isomer', []); nodes[k]['ez_isomer'].append(t)
    (the two `get` lines of one pair come before its two appends; the resulting lists and the
    position of the key in the attribute dict are the same when done one after the other) *)
Definition ez_list (g : graph) (k : Z) : list pyval :=
  match node_get g k (S "ez_isomer") with Some (VList l) => l | _ => [] end.
Definition append_ez (g : graph) (kt : Z * pyval) : graph :=
  set_node_attr g (fst kt) (S "ez_isomer") (VList (ez_list g (fst kt) ++ [snd kt])).
Definition apply_appends (g : graph) (apps : list (Z * pyval)) : graph := fold_left append_ez apps g.

(** pysmiles _annotate_ez_isomers(molecule, ez_atoms): all pairs are collected (errors first),
    then interpreted one by one.  The assert of a later pair fires after earlier pairs have been
    written, but the exception leaves resolve() without a result, so only Ok/Err is observable. *)
Definition annotate_ez_isomers (g : graph) (ez : ezdict) : res graph :=
  ps <- all_pairs g ez ;;
  apps <- appends_of ps ;;
  Ok (apply_appends g apps).

(** cgsmiles annotate_ez_isomers_cgsmiles(molecule) *)
Definition ez_class_dict (g : graph) : ezdict := get_node_attributes g (S "ez_isomer_class").
Definition annotate_ez_isomers_cgsmiles (g : graph) : res graph :=
  let ez := ez_class_dict g in
  g1 <- annotate_ez_isomers g ez ;;
  Ok (fold_left (fun acc kv => del_node_attr acc (fst kv) (S "ez_isomer_class")) ez g1).
