(** EzWitness: the two molecules the implementation hands to annotate_ez_isomers_cgsmiles for
      {[#A][#B]}.{#A=F/C(Cl)=[$],#B=[$]=C(Br)/I}   and   {[#B][#A]}.{#A=F/C(Cl)=[$],#B=[$]=C(Br)/I}
    (DESIGN section 5 row 18; both are corpus cases of the C15 check, where the model's result on
    them is compared with the implementation's on every run).  NO proofs. *)
From Coq Require Import String.
From Coq Require Import List Ascii ZArith Bool.
From CGV Require Import Base.PyBase Base.PyVal Base.NxGraph Stereo.EzImpl Stereo.EzDefs.
Import ListNotations.
Local Open Scope string_scope.
Open Scope Z_scope.

Definition wnode (k : Z) (el : string) (fid : Z) (tok : option string) (adj : list (Z * Z)) : nrec :=
  {| nk := k;
     na := app [(S "element", VStr (S el)); (S "fragid", VList [VInt fid])]
               (match tok with Some t => [(S "ez_isomer_class", VStr (S t))] | None => [] end);
     nadj := map (fun wo => (fst wo, [(S "order", VInt (snd wo))])) adj |}.

(** fragment A = F/C(Cl)=[$] listed first: F0 C1 Cl2 | C3 Br4 I5 *)
Definition w_AB : graph :=
  [wnode 0 "F" 0 (Some "/") [(1, 1)]; wnode 1 "C" 0 (Some "/") [(0, 1); (2, 1); (3, 2)]; wnode 2 "Cl" 0 None [(1, 1)];
   wnode 3 "C" 1 (Some "/") [(1, 2); (4, 1); (5, 1)]; wnode 4 "Br" 1 None [(3, 1)]; wnode 5 "I" 1 (Some "/") [(3, 1)]].
(** fragment B = [$]=C(Br)/I listed first: C0 Br1 I2 | F3 C4 Cl5 *)
Definition w_BA : graph :=
  [wnode 0 "C" 0 (Some "/") [(1, 1); (2, 1); (4, 2)]; wnode 1 "Br" 0 None [(0, 1)]; wnode 2 "I" 0 (Some "/") [(0, 1)];
   wnode 3 "F" 1 (Some "/") [(4, 1)]; wnode 4 "C" 1 (Some "/") [(0, 2); (3, 1); (5, 1)]; wnode 5 "Cl" 1 None [(4, 1)]].
(** atom of w_AB -> the same atom in w_BA *)
Definition w_iso (k : Z) : Z := (k + 3) mod 6.

(** a marked substituent cut off at its bond to the anchor, the mark written at both ends of the cut:
      {[#A][#B]}.{#A=F/[$],#B=[$]/C(Cl)=C(/Br)I}   and   {[#B][#A]}.{#A=F/[$],#B=[$]/C(Cl)=C(/Br)I}  *)
Definition w2_AB : graph :=
  [wnode 0 "F" 0 (Some "/") [(1, 1)]; wnode 1 "C" 1 (Some "/") [(0, 1); (2, 1); (3, 2)]; wnode 2 "Cl" 1 None [(1, 1)];
   wnode 3 "C" 1 (Some "/") [(1, 2); (4, 1); (5, 1)]; wnode 4 "Br" 1 (Some "/") [(3, 1)]; wnode 5 "I" 1 None [(3, 1)]].
Definition w2_BA : graph :=
  [wnode 0 "C" 0 (Some "/") [(1, 1); (2, 2); (5, 1)]; wnode 1 "Cl" 0 None [(0, 1)];
   wnode 2 "C" 0 (Some "/") [(0, 2); (3, 1); (4, 1)]; wnode 3 "Br" 0 (Some "/") [(2, 1)]; wnode 4 "I" 0 None [(2, 1)];
   wnode 5 "F" 1 (Some "/") [(0, 1)]].
Definition w2_iso (k : Z) : Z := (k + 5) mod 6.
(** the same with a second marked ligand on the first anchor:  #B=[$]/C(/Cl)=C(/Br)I *)
Definition w3_AB : graph :=
  [wnode 0 "F" 0 (Some "/") [(1, 1)]; wnode 1 "C" 1 (Some "/") [(0, 1); (2, 1); (3, 2)]; wnode 2 "Cl" 1 (Some "/") [(1, 1)];
   wnode 3 "C" 1 (Some "/") [(1, 2); (4, 1); (5, 1)]; wnode 4 "Br" 1 (Some "/") [(3, 1)]; wnode 5 "I" 1 None [(3, 1)]].
Definition w3_BA : graph :=
  [wnode 0 "C" 0 (Some "/") [(1, 1); (2, 2); (5, 1)]; wnode 1 "Cl" 0 (Some "/") [(0, 1)];
   wnode 2 "C" 0 (Some "/") [(0, 2); (3, 1); (4, 1)]; wnode 3 "Br" 0 (Some "/") [(2, 1)]; wnode 4 "I" 0 None [(2, 1)];
   wnode 5 "F" 1 (Some "/") [(0, 1)]].
