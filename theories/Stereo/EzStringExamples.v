(** EzStringExamples: non-vacuity of the string-level E/Z theorems (EzStringCut.v).  The chain family
        A_n = [$]=C(Cl)/C C^n        B_m = [$]=C(Br)/C C^m
    cut AT the stereo double bond, both marked ligands written after their anchors (outside the three open classes); the
    cut of the molecule is [chain_cut n m].  For n = 1, m = 2 every hypothesis of order_invariant_strings is discharged by
    its decidable form, both strings resolve, and the tuple of the four atoms is stored with class `cis` by both. *)
From Coq Require Import String.
From Coq Require Import List Ascii ZArith Bool Lia.
From CGV Require Import Base.PyBase Base.PyVal Base.NxGraph Dialect.DialectImpl Frag.NDict Frag.StripImpl Frag.FragText Frag.FragProofs
     Frag.SmilesParse Frag.SmilesSpec Frag.Template Frag.TemplateFinal Frag.TemplateGraph Frag.TemplateCompose
     Resolve.GraphOps Resolve.PipelineFull Hydro.HydroDefs
     Compose.PyEq Compose.CutModel Compose.CutSpecDefs Compose.CutSpecCheck Compose.CutHydrogens Compose.OrderIndep Compose.ComposeFlat
     Stereo.EzImpl Stereo.EzDefs Stereo.EzProofs Stereo.EzStrings Stereo.EzCut Stereo.EzStringCut.
From CGV Require Hydro.Hydrogens.
Import ListNotations.
Open Scope Z_scope.

Definition ez_plainb (G : sgraph) (ann : ndict attrs) : bool :=
  forallb (fun b => is_none (aget ezk b)) (g_nodes G) && forallb (fun ia => is_none (aget ezk (snd ia))) ann.
Lemma ez_plainb_sound G ann : ez_plainb G ann = true -> ez_plain G ann.
Proof.
  unfold ez_plainb. intros H. apply andb_prop in H as [H1 H2]. rewrite forallb_forall in H1, H2. split.
  - intros b I. apply is_none_sound. now apply H1.
  - intros i an E. apply is_none_sound. exact (H2 (i, an) (nd_get_in _ _ _ E)).
Qed.
Lemma existsb_In v l : existsb (pyval_eqb v) l = true -> In v l.
Proof. intros H. apply existsb_exists in H as (x & I & E). apply pyval_eqb_sound in E. now subst. Qed.

Definition fo0 : float_oracle := fo_of_table [].
(** the family *)
Definition dd : desc := {| d_kind := "$"%char; d_label := []; d_sym := Some BDouble |}.
Definition chain (n : nat) : list tok := repeat (TAtom (S "C")) n.
Definition toksX (hal : string) (n : nat) : list tok :=
  [TAtom (S "C"); TOpen; TAtom (S hal); TClose; TSlash true; TAtom (S "C")] ++ chain n.
Definition dcl (n : nat) : decor := {| d_lead := [dd]; d_after := repeat [] (6 + n) |}.
Definition hatom (el : string) (h : Z) : attrs :=
  [(S "element", VStr (S el)); (S "charge", VInt 0); (S "aromatic", VBool false); (S "hcount", VInt h)].
(** atoms of one fragment: anchor, halogen, ligand, chain (the last carbon has three hydrogens) *)
Definition frag_atoms (hal : string) (n : nat) : list attrs :=
  [hatom "C" 2; hatom hal 0] ++ repeat (hatom "C" 2) n ++ [hatom "C" 3].
Definition keysX (par : Z) (n : nat) : list Z := map (fun i => 2 * Z.of_nat i + par) (seq 0 (3 + n)).
Definition sbond (u v : Z) : cbond := {| cb_u := u; cb_v := v; cb_ord := VInt 1; cb_lab := []; cb_dollar := true |}.
Definition frag_bonds (par : Z) (n : nat) : list cbond :=
  [sbond par (2 + par); sbond par (4 + par)] ++ map (fun i => sbond (2 * Z.of_nat i + par) (2 * Z.of_nat i + 2 + par)) (seq 2 n).
Definition chain_cut (n m : nat) : cut :=
  {| c_atoms := combine (keysX 0 n) (frag_atoms "Cl" n) ++ combine (keysX 1 m) (frag_atoms "Br" m);
     c_bonds := {| cb_u := 0; cb_v := 1; cb_ord := VInt 2; cb_lab := []; cb_dollar := true |} :: frag_bonds 0 n ++ frag_bonds 1 m;
     c_parts := [(nA, keysX 0 n); (nB, keysX 1 m)]; c_dord := [] |}.

Definition C12 := chain_cut 1 2.
Definition tA1 := render (decorate (toksX "Cl" 1) (dcl 1)).
Definition tB2 := render (decorate (toksX "Br" 2) (dcl 2)).
Definition ez02 : ndict ascii := [(2%nat, "/"%char); (0%nat, "/"%char)].
Definition tmpl_of (name : pystr) (toks : list tok) (dc : decor) : tmpl :=
  match strip_spec fo0 toks dc, graph_of false toks with
  | Ok (_, d, ez, a), Ok G => match final_assemble name G d ez a with Ok T => T | Err _ => {| t_nodes := []; t_edges := [] |} end
  | _, _ => {| t_nodes := []; t_edges := [] |}
  end.
Definition TA1 : tmpl := Eval vm_compute in tmpl_of nA (toksX "Cl" 1) (dcl 1).
Definition TB2 : tmpl := Eval vm_compute in tmpl_of nB (toksX "Br" 2) (dcl 2).

Lemma texts : to_string tA1 = "[$]=C(Cl)/CC"%string /\ to_string tB2 = "[$]=C(Br)/CCC"%string.
Proof. split; vm_compute; reflexivity. Qed.

Lemma readingA : frag_reading fo0 C12 nA (keysX 0 1) (toksX "Cl" 1) (dcl 1) ez02 TA1.
Proof.
  constructor; try (vm_compute; reflexivity).
  eexists _, _, _, _. split; [vm_compute; reflexivity|]. split; [vm_compute; reflexivity|]. split; [vm_compute; reflexivity|].
  split; [apply plainb_sound; vm_compute; reflexivity|]. split; [apply ez_plainb_sound; vm_compute; reflexivity|].
  apply cut_agreesb_sound. vm_compute. reflexivity.
Qed.
Lemma readingB : frag_reading fo0 C12 nB (keysX 1 2) (toksX "Br" 2) (dcl 2) ez02 TB2.
Proof.
  constructor; try (vm_compute; reflexivity).
  eexists _, _, _, _. split; [vm_compute; reflexivity|]. split; [vm_compute; reflexivity|]. split; [vm_compute; reflexivity|].
  split; [apply plainb_sound; vm_compute; reflexivity|]. split; [apply ez_plainb_sound; vm_compute; reflexivity|].
  apply cut_agreesb_sound. vm_compute. reflexivity.
Qed.

Lemma C12_wf : wf_cut C12. Proof. apply wf_cutb_sound. vm_compute. reflexivity. Qed.
Lemma C12_heavy : heavy_payload C12.
Proof.
  intros x Hx. vm_compute in Hx.
  repeat (destruct Hx as [<-|Hx]; [repeat split; try (eexists; vm_compute; reflexivity); vm_compute; reflexivity|]). contradiction.
Qed.
Lemma C12_numeric : numeric_orders C12.
Proof.
  intros b Hb. vm_compute in Hb.
  repeat (destruct Hb as [<-|Hb]; [eexists; vm_compute; reflexivity|]). contradiction.
Qed.
Lemma C12_baseAB : is_base C12 (next_meta baseAB). Proof. apply is_baseb_sound. vm_compute. reflexivity. Qed.
Lemma C12_baseBA : is_base (swap_parts C12) (next_meta baseBA). Proof. apply is_baseb_sound. vm_compute. reflexivity. Qed.
Lemma C12_sep : ~ In ","%char tA1 /\ ~ In ","%char tB2 /\ ~ In "}"%char tA1 /\ ~ In "}"%char tB2.
Proof. repeat split; vm_compute; intuition discriminate. Qed.

Definition outAB : res full_out := Eval vm_compute in resolve_string fo0 (sAB tA1 tB2).
Definition outBA : res full_out := Eval vm_compute in resolve_string fo0 (sBA tA1 tB2).
Definition get_out (r : res full_out) : full_out :=
  match r with Ok o => o | Err _ => {| fo_meta := []; fo_m2 := []; fo_m3 := []; fo_m4 := []; fo_m5 := []; fo_m6 := []; fo_mol := []; fo_fgs := [] |} end.
Definition mapping_of_out (o : full_out) : list (Z * Z) := match sort_mapping (fo_m4 o) with Ok m => m | Err _ => [] end.

(** the strings, the hypotheses, and what both calls store for the ligand C (atom 2 of A) - anchor = anchor - ligand C
    (atom 2 of B): atoms 4, 0, 1, 5 of the cut *)
Example order_invariant_strings_nonvacuous :
  to_string (sAB tA1 tB2) = "{[#A][#B]}.{#A=[$]=C(Cl)/CC,#B=[$]=C(Br)/CCC}"%string /\
  to_string (sBA tA1 tB2) = "{[#B][#A]}.{#A=[$]=C(Cl)/CC,#B=[$]=C(Br)/CCC}"%string /\
  frag_reading fo0 C12 nA (keysX 0 1) (toksX "Cl" 1) (dcl 1) ez02 TA1 /\ frag_reading fo0 C12 nB (keysX 1 2) (toksX "Br" 2) (dcl 2) ez02 TB2 /\
  c_parts C12 = [(nA, keysX 0 1); (nB, keysX 1 2)] /\ wf_cut C12 /\ heavy_payload C12 /\ numeric_orders C12 /\
  is_base C12 (next_meta baseAB) /\ is_base (swap_parts C12) (next_meta baseBA) /\
  exists o1 o2, resolve_string fo0 (sAB tA1 tB2) = Ok o1 /\ resolve_string fo0 (sBA tA1 tB2) = Ok o2 /\
    let m1 := mapping_of_out o1 in let m2 := mapping_of_out o2 in let C2 := swap_parts C12 in
    sort_mapping (fo_m4 o1) = Ok m1 /\ sort_mapping (fo_m4 o2) = Ok m2 /\
    owner C12 4 = owner C12 0 /\ owner C12 5 = owner C12 1 /\ wb C12 4 0 = false /\ wb C12 5 1 = false /\
    is_new (fo_m5 o1) (fo_mol o1) (map_get m1 (phi C12 4))
      (ez_tuple (map_get m1 (phi C12 4)) (map_get m1 (phi C12 0)) (map_get m1 (phi C12 1)) (map_get m1 (phi C12 5)) v_cis) /\
    is_new (fo_m5 o2) (fo_mol o2) (map_get m2 (phi C2 4))
      (ez_tuple (map_get m2 (phi C2 4)) (map_get m2 (phi C2 0)) (map_get m2 (phi C2 1)) (map_get m2 (phi C2 5)) v_cis).
Proof.
  split; [vm_compute; reflexivity|]. split; [vm_compute; reflexivity|]. split; [exact readingA|]. split; [exact readingB|].
  split; [reflexivity|]. split; [exact C12_wf|]. split; [exact C12_heavy|]. split; [exact C12_numeric|].
  split; [exact C12_baseAB|]. split; [exact C12_baseBA|].
  exists (get_out outAB), (get_out outBA). split; [vm_compute; reflexivity|]. split; [vm_compute; reflexivity|].
  cbv zeta. split; [vm_compute; reflexivity|]. split; [vm_compute; reflexivity|].
  split; [vm_compute; reflexivity|]. split; [vm_compute; reflexivity|]. split; [vm_compute; reflexivity|]. split; [vm_compute; reflexivity|].
  split; (split; [apply existsb_In; vm_compute; reflexivity|vm_compute; tauto]).
Qed.
