(** EzStringExamples: non-vacuity of the string-level E/Z theorems (EzStringCut.v).  The chain family
        A_n = [$]=C(Cl)/C C^n        B_m = [$]=C(Br)/C C^m
    cut AT the stereo double bond, both marked ligands written after their anchors (outside the three open classes); the
    cut of the molecule is [chain_cut n m].  For n = 1, m = 2 every hypothesis of order_invariant_strings is discharged by
    its decidable form, both strings resolve, and the tuple of the four atoms is stored with class `cis` by both. *)
From Coq Require Import String.
From Coq Require Import List Ascii ZArith Bool Lia.
From CGV Require Import Base.PyBase Base.PyVal Base.NxGraph Dialect.DialectImpl Frag.NDict Frag.StripImpl Frag.FragText Frag.FragProofs
     Frag.SmilesParse Frag.SmilesSpec Frag.Template Frag.TemplateFinal Frag.TemplateGraph Frag.TemplateCompose
     Resolve.GraphOps Resolve.CopyProofs Resolve.PipelineFull Hydro.HydroDefs
     Compose.PyEq Compose.CutModel Compose.CutSpecDefs Compose.CutSpecCheck Compose.CutHydrogens Compose.OrderIndep Compose.PartPerm Compose.ComposeFlat
     Stereo.EzImpl Stereo.EzDefs Stereo.EzProofs Stereo.EzStrings Stereo.EzCut Stereo.EzStringCut.
From CGV Require Hydro.Hydrogens.
Import ListNotations.
Open Scope Z_scope.

Definition ez_plainb (G : sgraph) (ann : ndict attrs) : bool :=
  forallb (fun b => is_none (aget ezk b)) (g_nodes G) && forallb (fun ia => is_none (aget ezk (snd ia))) ann.
Lemma ez_plainb_sound G ann : ez_plainb G ann = true -> ez_plain G ann.
Proof.
  unfold ez_plainb. intros H. apply andb_prop in H as [H1 H2]. rewrite forallb_forall in H1, H2. split.
  - intros b I. apply is_none_sound. now apply H1.
  - intros i an E. apply is_none_sound. exact (H2 (i, an) (nd_get_in _ _ _ E)).
Qed.
Lemma existsb_In v l : existsb (pyval_eqb v) l = true -> In v l.
Proof. intros H. apply existsb_exists in H as (x & I & E). apply pyval_eqb_sound in E. now subst. Qed.

Definition fo0 : float_oracle := fo_of_table [].
(** the family *)
Definition dd : desc := {| d_kind := "$"%char; d_label := []; d_sym := Some BDouble |}.
Definition chain (n : nat) : list tok := repeat (TAtom (S "C")) n.
Definition toksX (hal : string) (n : nat) : list tok :=
  [TAtom (S "C"); TOpen; TAtom (S hal); TClose; TSlash true; TAtom (S "C")] ++ chain n.
Definition dcl (n : nat) : decor := {| d_lead := [dd]; d_after := repeat [] (6 + n) |}.
Definition hatom (el : string) (h : Z) : attrs :=
  [(S "element", VStr (S el)); (S "charge", VInt 0); (S "aromatic", VBool false); (S "hcount", VInt h)].
(** atoms of one fragment: anchor, halogen, ligand, chain (the last carbon has three hydrogens) *)
Definition frag_atoms (hal : string) (n : nat) : list attrs :=
  [hatom "C" 2; hatom hal 0] ++ repeat (hatom "C" 2) n ++ [hatom "C" 3].
Definition keysX (par : Z) (n : nat) : list Z := map (fun i => 2 * Z.of_nat i + par) (seq 0 (3 + n)).
Definition sbond (u v : Z) : cbond := {| cb_u := u; cb_v := v; cb_ord := VInt 1; cb_lab := []; cb_dollar := true |}.
Definition frag_bonds (par : Z) (n : nat) : list cbond :=
  [sbond par (2 + par); sbond par (4 + par)] ++ map (fun i => sbond (2 * Z.of_nat i + par) (2 * Z.of_nat i + 2 + par)) (seq 2 n).
Definition chain_cut (n m : nat) : cut :=
  {| c_atoms := combine (keysX 0 n) (frag_atoms "Cl" n) ++ combine (keysX 1 m) (frag_atoms "Br" m);
     c_bonds := {| cb_u := 0; cb_v := 1; cb_ord := VInt 2; cb_lab := []; cb_dollar := true |} :: frag_bonds 0 n ++ frag_bonds 1 m;
     c_parts := [(nA, keysX 0 n); (nB, keysX 1 m)]; c_dord := [] |}.

Definition C12 := chain_cut 1 2.
Definition tA1 := render (decorate (toksX "Cl" 1) (dcl 1)).
Definition tB2 := render (decorate (toksX "Br" 2) (dcl 2)).
Definition ez02 : ndict ascii := [(2%nat, "/"%char); (0%nat, "/"%char)].
Definition tmpl_of (name : pystr) (toks : list tok) (dc : decor) : tmpl :=
  match strip_spec fo0 toks dc, graph_of false toks with
  | Ok (_, d, ez, a), Ok G => match final_assemble name G d ez a with Ok T => T | Err _ => {| t_nodes := []; t_edges := [] |} end
  | _, _ => {| t_nodes := []; t_edges := [] |}
  end.
Definition TA1 : tmpl := Eval vm_compute in tmpl_of nA (toksX "Cl" 1) (dcl 1).
Definition TB2 : tmpl := Eval vm_compute in tmpl_of nB (toksX "Br" 2) (dcl 2).

Lemma texts : to_string tA1 = "[$]=C(Cl)/CC"%string /\ to_string tB2 = "[$]=C(Br)/CCC"%string.
Proof. split; vm_compute; reflexivity. Qed.

Lemma readingA : frag_reading fo0 C12 nA (keysX 0 1) (toksX "Cl" 1) (dcl 1) ez02 TA1.
Proof.
  constructor; try (vm_compute; reflexivity).
  eexists _, _, _, _. split; [vm_compute; reflexivity|]. split; [vm_compute; reflexivity|]. split; [vm_compute; reflexivity|].
  split; [apply plainb_sound; vm_compute; reflexivity|]. split; [apply ez_plainb_sound; vm_compute; reflexivity|].
  apply cut_agreesb_sound. vm_compute. reflexivity.
Qed.
Lemma readingB : frag_reading fo0 C12 nB (keysX 1 2) (toksX "Br" 2) (dcl 2) ez02 TB2.
Proof.
  constructor; try (vm_compute; reflexivity).
  eexists _, _, _, _. split; [vm_compute; reflexivity|]. split; [vm_compute; reflexivity|]. split; [vm_compute; reflexivity|].
  split; [apply plainb_sound; vm_compute; reflexivity|]. split; [apply ez_plainb_sound; vm_compute; reflexivity|].
  apply cut_agreesb_sound. vm_compute. reflexivity.
Qed.

Lemma C12_wf : wf_cut C12. Proof. apply wf_cutb_sound. vm_compute. reflexivity. Qed.
Lemma C12_heavy : heavy_payload C12.
Proof.
  intros x Hx. vm_compute in Hx.
  repeat (destruct Hx as [<-|Hx]; [repeat split; try (eexists; vm_compute; reflexivity); vm_compute; reflexivity|]). contradiction.
Qed.
Lemma C12_numeric : numeric_orders C12.
Proof.
  intros b Hb. vm_compute in Hb.
  repeat (destruct Hb as [<-|Hb]; [eexists; vm_compute; reflexivity|]). contradiction.
Qed.
Lemma C12_baseAB : is_base C12 (next_meta baseAB). Proof. apply is_baseb_sound. vm_compute. reflexivity. Qed.
Lemma C12_baseBA : is_base (swap_parts C12) (next_meta baseBA). Proof. apply is_baseb_sound. vm_compute. reflexivity. Qed.
Lemma C12_sep : ~ In ","%char tA1 /\ ~ In ","%char tB2 /\ ~ In "}"%char tA1 /\ ~ In "}"%char tB2.
Proof. repeat split; vm_compute; intuition discriminate. Qed.

Definition outAB : res full_out := Eval vm_compute in resolve_string fo0 (sAB tA1 tB2).
Definition outBA : res full_out := Eval vm_compute in resolve_string fo0 (sBA tA1 tB2).
Definition get_out (r : res full_out) : full_out :=
  match r with Ok o => o | Err _ => {| fo_meta := []; fo_m2 := []; fo_m3 := []; fo_m4 := []; fo_m5 := []; fo_m6 := []; fo_mol := []; fo_fgs := [] |} end.
Definition mapping_of_out (o : full_out) : list (Z * Z) := match sort_mapping (fo_m4 o) with Ok m => m | Err _ => [] end.

(** the strings, the hypotheses, and what both calls store for the ligand C (atom 2 of A) - anchor = anchor - ligand C
    (atom 2 of B): atoms 4, 0, 1, 5 of the cut *)
Example order_invariant_strings_nonvacuous :
  to_string (sAB tA1 tB2) = "{[#A][#B]}.{#A=[$]=C(Cl)/CC,#B=[$]=C(Br)/CCC}"%string /\
  to_string (sBA tA1 tB2) = "{[#B][#A]}.{#A=[$]=C(Cl)/CC,#B=[$]=C(Br)/CCC}"%string /\
  frag_reading fo0 C12 nA (keysX 0 1) (toksX "Cl" 1) (dcl 1) ez02 TA1 /\ frag_reading fo0 C12 nB (keysX 1 2) (toksX "Br" 2) (dcl 2) ez02 TB2 /\
  c_parts C12 = [(nA, keysX 0 1); (nB, keysX 1 2)] /\ wf_cut C12 /\ heavy_payload C12 /\ numeric_orders C12 /\
  is_base C12 (next_meta baseAB) /\ is_base (swap_parts C12) (next_meta baseBA) /\
  exists o1 o2, resolve_string fo0 (sAB tA1 tB2) = Ok o1 /\ resolve_string fo0 (sBA tA1 tB2) = Ok o2 /\
    let m1 := mapping_of_out o1 in let m2 := mapping_of_out o2 in let C2 := swap_parts C12 in
    sort_mapping (fo_m4 o1) = Ok m1 /\ sort_mapping (fo_m4 o2) = Ok m2 /\
    owner C12 4 = owner C12 0 /\ owner C12 5 = owner C12 1 /\ wb C12 4 0 = false /\ wb C12 5 1 = false /\
    is_new (fo_m5 o1) (fo_mol o1) (map_get m1 (phi C12 4))
      (ez_tuple (map_get m1 (phi C12 4)) (map_get m1 (phi C12 0)) (map_get m1 (phi C12 1)) (map_get m1 (phi C12 5)) v_cis) /\
    is_new (fo_m5 o2) (fo_mol o2) (map_get m2 (phi C2 4))
      (ez_tuple (map_get m2 (phi C2 4)) (map_get m2 (phi C2 0)) (map_get m2 (phi C2 1)) (map_get m2 (phi C2 5)) v_cis).
Proof.
  split; [vm_compute; reflexivity|]. split; [vm_compute; reflexivity|]. split; [exact readingA|]. split; [exact readingB|].
  split; [reflexivity|]. split; [exact C12_wf|]. split; [exact C12_heavy|]. split; [exact C12_numeric|].
  split; [exact C12_baseAB|]. split; [exact C12_baseBA|].
  exists (get_out outAB), (get_out outBA). split; [vm_compute; reflexivity|]. split; [vm_compute; reflexivity|].
  cbv zeta. split; [vm_compute; reflexivity|]. split; [vm_compute; reflexivity|].
  split; [vm_compute; reflexivity|]. split; [vm_compute; reflexivity|]. split; [vm_compute; reflexivity|]. split; [vm_compute; reflexivity|].
  split; (split; [apply existsb_In; vm_compute; reflexivity|vm_compute; tauto]).
Qed.

(** ---------------------------------------------------------------- the chain family, BOUNDED: every hypothesis of
    order_invariant_strings in decidable form, checked for all chain lengths n, m <= 12 by computation *)
Definition is_some {A} (o : option A) : bool := match o with Some _ => true | None => false end.
Definition heavy_payloadb (C : cut) : bool :=
  forallb (fun x => is_some (aget (S "element") (payload C x)) && is_some (aget (S "charge") (payload C x))
                    && match aget (S "hcount") (payload C x) with Some (VInt _) => true | _ => false end
                    && negb (Hydrogens.is_H (payload C x))) (flat C).
Lemma heavy_payloadb_sound C : heavy_payloadb C = true -> heavy_payload C.
Proof.
  unfold heavy_payloadb. intros H x Fx. rewrite forallb_forall in H. specialize (H x Fx).
  apply andb_prop in H as [H H4]. apply andb_prop in H as [H H3]. apply andb_prop in H as [H1 H2].
  split; [destruct (aget (S "element") (payload C x)); [eauto|discriminate]|].
  split; [destruct (aget (S "charge") (payload C x)); [eauto|discriminate]|].
  split; [destruct (aget (S "hcount") (payload C x)) as [[]|]; try discriminate; eauto|].
  now apply negb_true_iff in H4.
Qed.
Definition numeric_ordersb (C : cut) : bool :=
  forallb (fun b => match Hydrogens.half_of_num (cb_ord b) with Ok _ => true | Err _ => false end) (c_bonds C).
Lemma numeric_ordersb_sound C : numeric_ordersb C = true -> numeric_orders C.
Proof.
  unfold numeric_ordersb. intros H b Hb. rewrite forallb_forall in H. specialize (H b Hb). unfold numeric.
  destruct (Hydrogens.half_of_num (cb_ord b)); [eauto|discriminate].
Qed.
Definition nochar (c : ascii) (s : pystr) : bool := negb (existsb (Ascii.eqb c) s).
Lemma nochar_sound c s : nochar c s = true -> ~ In c s.
Proof.
  unfold nochar. intros H I. apply negb_true_iff in H. assert (existsb (Ascii.eqb c) s = true); [|congruence].
  apply existsb_exists. exists c. split; [exact I|apply Ascii.eqb_refl].
Qed.
Definition ndict_eqb (a b : ndict ascii) : bool :=
  Nat.eqb (length a) (length b) && forallb (fun pq => Nat.eqb (fst (fst pq)) (fst (snd pq)) && Ascii.eqb (snd (fst pq)) (snd (snd pq))) (combine a b).
Lemma ndict_eqb_sound a : forall b, ndict_eqb a b = true -> a = b.
Proof.
  unfold ndict_eqb. induction a as [|[i c] r IH]; intros [|[j d] s] H; cbn in H; try discriminate; [reflexivity|].
  apply andb_prop in H as [H1 H2]. apply andb_prop in H2 as [H2 H3]. apply andb_prop in H2 as [Hi Hc].
  apply Nat.eqb_eq in Hi. apply Ascii.eqb_eq in Hc. subst. f_equal. apply IH. cbn. now rewrite H1, H3.
Qed.

(** one fragment's reading, decidable *)
Definition readingb (fo : float_oracle) (C : cut) (name : pystr) (xs : list Z) (toks : list tok) (dc : decor) (ez : ndict ascii) : bool :=
  FragText.wf toks dc && negb (excluded toks dc) && wf_smiles toks &&
  match strip_spec fo toks dc, graph_of false toks with
  | Ok (_, d, ez', ann), Ok G =>
      match final_assemble name G d ez' ann with
      | Ok T0 => ndict_eqb ez' ez && plainb G ann && ez_plainb G ann && cut_agreesb C xs T0 d
      | Err _ => false
      end
  | _, _ => false
  end.
Lemma readingb_sound fo C name xs toks dc ez : readingb fo C name xs toks dc ez = true ->
  exists T0, frag_reading fo C name xs toks dc ez T0.
Proof.
  unfold readingb. intros H. apply andb_prop in H as [H H4]. apply andb_prop in H as [H H3]. apply andb_prop in H as [H1 H2].
  apply negb_true_iff in H2.
  destruct (strip_spec fo toks dc) as [[[[clean d] ez'] ann]|] eqn:ES; [|discriminate].
  destruct (graph_of false toks) as [G|] eqn:EG; [|discriminate].
  destruct (final_assemble name G d ez' ann) as [T0|] eqn:EA; [|discriminate].
  apply andb_prop in H4 as [H4 H8]. apply andb_prop in H4 as [H4 H7]. apply andb_prop in H4 as [H5 H6].
  apply ndict_eqb_sound in H5. subst ez'. exists T0. constructor; auto.
  exists clean, d, ann, G. split; [exact ES|]. split; [exact EG|]. split; [exact EA|].
  split; [now apply plainb_sound|]. split; [now apply ez_plainb_sound|now apply cut_agreesb_sound].
Qed.

Definition family_okb (n m : nat) : bool :=
  let C := chain_cut n m in
  let tA := render (decorate (toksX "Cl" n) (dcl n)) in let tB := render (decorate (toksX "Br" m) (dcl m)) in
  readingb fo0 C nA (keysX 0 n) (toksX "Cl" n) (dcl n) ez02 && readingb fo0 C nB (keysX 1 m) (toksX "Br" m) (dcl m) ez02
  && wf_cutb C && heavy_payloadb C && numeric_ordersb C && is_baseb C (next_meta baseAB) && is_baseb (swap_parts C) (next_meta baseBA)
  && nochar ","%char tA && nochar ","%char tB && nochar "}"%char tA && nochar "}"%char tB.

(** the order theorem for one member of the family, from the decidable check alone *)
Theorem family_member n m o1 o2 : family_okb n m = true ->
  let C1 := chain_cut n m in let C2 := swap_parts C1 in
  let tA := render (decorate (toksX "Cl" n) (dcl n)) in let tB := render (decorate (toksX "Br" m) (dcl m)) in
  resolve_string fo0 (sAB tA tB) = Ok o1 -> resolve_string fo0 (sBA tA tB) = Ok o2 ->
  exists m1 m2, sort_mapping (fo_m4 o1) = Ok m1 /\ sort_mapping (fo_m4 o2) = Ok m2 /\
    forall lx ax ay ly c1 c2 k1 k2, In lx (flat C1) -> In ax (flat C1) -> In ay (flat C1) -> In ly (flat C1) ->
      owner C1 lx = owner C1 ax -> owner C1 ly = owner C1 ay -> wb C1 lx ax = false -> wb C1 ly ay = false ->
      is_new (fo_m5 o1) (fo_mol o1) k1
        (ez_tuple (map_get m1 (phi C1 lx)) (map_get m1 (phi C1 ax)) (map_get m1 (phi C1 ay)) (map_get m1 (phi C1 ly)) c1) ->
      is_new (fo_m5 o2) (fo_mol o2) k2
        (ez_tuple (map_get m2 (phi C2 lx)) (map_get m2 (phi C2 ax)) (map_get m2 (phi C2 ay)) (map_get m2 (phi C2 ly)) c2) ->
      c1 = c2.
Proof.
  unfold family_okb. cbv zeta. intros H R1 R2.
  apply andb_prop in H as [H N4]. apply andb_prop in H as [H N3]. apply andb_prop in H as [H N2]. apply andb_prop in H as [H N1].
  apply andb_prop in H as [H B2]. apply andb_prop in H as [H B1]. apply andb_prop in H as [H Hn]. apply andb_prop in H as [H Hh].
  apply andb_prop in H as [H Hw]. apply andb_prop in H as [RA0 RB0].
  destruct (readingb_sound _ _ _ _ _ _ _ RA0) as [TA RA]. destruct (readingb_sound _ _ _ _ _ _ _ RB0) as [TB RB].
  apply (order_invariant_strings fo0 (chain_cut n m) (keysX 0 n) (keysX 1 m) (toksX "Cl" n) (toksX "Br" m) (dcl n) (dcl m) ez02 ez02 TA TB o1 o2
           RA RB eq_refl (wf_cutb_sound _ Hw) (heavy_payloadb_sound _ Hh) (numeric_ordersb_sound _ Hn) (is_baseb_sound _ _ B1) (is_baseb_sound _ _ B2)); auto.
  repeat split; now apply nochar_sound.
Qed.
Definition all_pairs_upto (n m : nat) : list (nat * nat) := flat_map (fun i => map (pair i) (seq 0 (Datatypes.S m))) (seq 0 (Datatypes.S n)).
Theorem family_ok_bounded : forall n m, (n <= 12)%nat -> (m <= 12)%nat -> family_okb n m = true.
Proof.
  assert (H : forallb (fun p => family_okb (fst p) (snd p)) (all_pairs_upto 12 12) = true) by (vm_compute; reflexivity).
  intros n m Hn Hm. rewrite forallb_forall in H. apply (H (n, m)).
  unfold all_pairs_upto. apply in_flat_map. exists n. split; [apply in_seq; lia|]. apply in_map. apply in_seq. lia.
Qed.
(** BOUNDED (chain lengths <= 12, the bound is in the statement): for the strings
      {[#A][#B]}.{#A=[$]=C(Cl)/C C^n,#B=[$]=C(Br)/C C^m}   and   {[#B][#A]}.{...}
    the class stored for the same four atoms is the same *)
Theorem chain_family_order_invariant_bounded n m o1 o2 : (n <= 12)%nat -> (m <= 12)%nat ->
  let C1 := chain_cut n m in let C2 := swap_parts C1 in
  let tA := render (decorate (toksX "Cl" n) (dcl n)) in let tB := render (decorate (toksX "Br" m) (dcl m)) in
  resolve_string fo0 (sAB tA tB) = Ok o1 -> resolve_string fo0 (sBA tA tB) = Ok o2 ->
  exists m1 m2, sort_mapping (fo_m4 o1) = Ok m1 /\ sort_mapping (fo_m4 o2) = Ok m2 /\
    forall lx ax ay ly c1 c2 k1 k2, In lx (flat C1) -> In ax (flat C1) -> In ay (flat C1) -> In ly (flat C1) ->
      owner C1 lx = owner C1 ax -> owner C1 ly = owner C1 ay -> wb C1 lx ax = false -> wb C1 ly ay = false ->
      is_new (fo_m5 o1) (fo_mol o1) k1
        (ez_tuple (map_get m1 (phi C1 lx)) (map_get m1 (phi C1 ax)) (map_get m1 (phi C1 ay)) (map_get m1 (phi C1 ly)) c1) ->
      is_new (fo_m5 o2) (fo_mol o2) k2
        (ez_tuple (map_get m2 (phi C2 lx)) (map_get m2 (phi C2 ax)) (map_get m2 (phi C2 ay)) (map_get m2 (phi C2 ly)) c2) ->
      c1 = c2.
Proof. intros Hn Hm. exact (family_member n m o1 o2 (family_ok_bounded n m Hn Hm)). Qed.

(** ---------------------------------------------------------------- a second cut of the same molecule: cut ELSEWHERE
    {[#A][#B]}.{#A=C(Cl)(/CC)=C(Br)/CC[$],#B=[$]C}  against  the cut at the double bond (C12): non-vacuity of
    cut_invariant / stored_class_sides *)
Definition ds1 : desc := {| d_kind := "$"%char; d_label := []; d_sym := None |}.
Definition toksP : list tok :=
  [TAtom (S "C"); TOpen; TAtom (S "Cl"); TClose; TOpen; TSlash true; TAtom (S "C"); TAtom (S "C"); TClose; TBond BDouble;
   TAtom (S "C"); TOpen; TAtom (S "Br"); TClose; TSlash true; TAtom (S "C"); TAtom (S "C")].
Definition dcP : decor := {| d_lead := []; d_after := repeat [] 16 ++ [[ds1]] |}.
Definition toksQ : list tok := [TAtom (S "C")].
Definition dcQ : decor := {| d_lead := [ds1]; d_after := [[]] |}.
Definition tP := render (decorate toksP dcP).
Definition tQ := render (decorate toksQ dcQ).
Definition ezP : ndict ascii := [(2%nat, "/"%char); (0%nat, "/"%char); (6%nat, "/"%char); (4%nat, "/"%char)].
Definition xsP : list Z := [0; 2; 4; 6; 1; 3; 5; 7].
Definition C12p : cut :=
  {| c_atoms := [(0, hatom "C" 0); (2, hatom "Cl" 0); (4, hatom "C" 2); (6, hatom "C" 3); (1, hatom "C" 0); (3, hatom "Br" 0);
                 (5, hatom "C" 2); (7, hatom "C" 3); (9, hatom "C" 4)];
     c_bonds := c_bonds C12; c_parts := [(nA, xsP); (nB, [9])]; c_dord := [] |}.
Definition outP : res full_out := Eval vm_compute in resolve_string fo0 (sAB tP tQ).

Lemma readingP : exists T0, frag_reading fo0 C12p nA xsP toksP dcP ezP T0.
Proof. apply readingb_sound. vm_compute. reflexivity. Qed.
Lemma readingQ : exists T0, frag_reading fo0 C12p nB [9] toksQ dcQ [] T0.
Proof. apply readingb_sound. vm_compute. reflexivity. Qed.

Example cut_invariant_nonvacuous :
  to_string (sAB tP tQ) = "{[#A][#B]}.{#A=C(Cl)(/CC)=C(Br)/CC[$],#B=[$]C}"%string /\
  exists fd1 fd2 o1 o2,
    let tok1 := tok2 (keysX 0 1) (keysX 1 2) ez02 ez02 in let tokp := tok2 xsP [9] ezP [] in
    wf_cut C12 /\ templates_ok C12 fd1 /\ wf_dict fd1 /\ is_base C12 (next_meta baseAB) /\ heavy_payload C12 /\ numeric_orders C12 /\
    wf_cut C12p /\ templates_ok C12p fd2 /\ wf_dict fd2 /\ is_base C12p (next_meta baseAB) /\ heavy_payload C12p /\ numeric_orders C12p /\
    (forall name xs T i x n, In (name, xs) (c_parts C12) -> fd_get name fd1 = Some T ->
       nth_error xs i = Some x -> gfind (Z.of_nat i) T = Some n -> aget ezk (na n) = tok1 x) /\
    (forall name xs T i x n, In (name, xs) (c_parts C12p) -> fd_get name fd2 = Some T ->
       nth_error xs i = Some x -> gfind (Z.of_nat i) T = Some n -> aget ezk (na n) = tokp x) /\
    resolve_string fo0 (sAB tA1 tB2) = Ok o1 /\ resolve_string fo0 (sAB tP tQ) = Ok o2 /\
    resolve_step_full true true fd1 baseAB (Some (fo_m3 o1)) = Ok o1 /\ resolve_step_full true true fd2 baseAB (Some (fo_m3 o2)) = Ok o2 /\
    let m1 := mapping_of_out o1 in let m2 := mapping_of_out o2 in
    sort_mapping (fo_m4 o1) = Ok m1 /\ sort_mapping (fo_m4 o2) = Ok m2 /\
    tok1 4 = Some (tok_of true (wb C12 4 0)) /\ tok1 5 = Some (tok_of true (wb C12 5 1)) /\
    tokp 4 = Some (tok_of true (wb C12p 4 0)) /\ tokp 5 = Some (tok_of true (wb C12p 5 1)) /\
    late_after C12 4 0 1 5 = true /\ late_after C12p 4 0 1 5 = true /\
    is_new (fo_m5 o1) (fo_mol o1) (map_get m1 (phi C12 4))
      (ez_tuple (map_get m1 (phi C12 4)) (map_get m1 (phi C12 0)) (map_get m1 (phi C12 1)) (map_get m1 (phi C12 5)) v_cis) /\
    is_new (fo_m5 o2) (fo_mol o2) (map_get m2 (phi C12p 4))
      (ez_tuple (map_get m2 (phi C12p 4)) (map_get m2 (phi C12p 0)) (map_get m2 (phi C12p 1)) (map_get m2 (phi C12p 5)) v_cis).
Proof.
  split; [vm_compute; reflexivity|].
  destruct readingP as [TP RP]. destruct readingQ as [TQ RQ].
  assert (W2 : wf_cut C12p) by (apply wf_cutb_sound; vm_compute; reflexivity).
  assert (P1 : parts_AB C12 (keysX 0 1) (keysX 1 2)) by (left; reflexivity).
  assert (P2 : parts_AB C12p xsP [9]) by (left; reflexivity).
  assert (NbA : S "[#A][#B]" <> []) by discriminate.
  assert (HbA : ~ In "}"%char (S "[#A][#B]")) by (vm_compute; intuition discriminate).
  assert (Sep2 : ~ In ","%char tP /\ ~ In ","%char tQ /\ ~ In "}"%char tP /\ ~ In "}"%char tQ) by (repeat split; vm_compute; intuition discriminate).
  assert (R1 : resolve_string fo0 (sAB tA1 tB2) = Ok (get_out outAB)) by (vm_compute; reflexivity).
  assert (R2 : resolve_string fo0 (sAB tP tQ) = Ok (get_out outP)) by (vm_compute; reflexivity).
  exists [(nA, tmpl_graph TA1); (nB, tmpl_graph TB2)], [(nA, tmpl_graph TP); (nB, tmpl_graph TQ)], (get_out outAB), (get_out outP).
  cbv zeta.
  split; [exact C12_wf|]. split; [exact (two_templates_ok _ _ _ _ _ _ _ _ _ _ _ _ readingA readingB P1)|].
  split; [exact (two_wf_dict _ _ _ _ _ _ _ _ _ _ _ _ readingA readingB)|]. split; [exact C12_baseAB|]. split; [exact C12_heavy|]. split; [exact C12_numeric|].
  split; [exact W2|]. split; [exact (two_templates_ok _ _ _ _ _ _ _ _ _ _ _ _ RP RQ P2)|].
  split; [exact (two_wf_dict _ _ _ _ _ _ _ _ _ _ _ _ RP RQ)|]. split; [apply is_baseb_sound; vm_compute; reflexivity|].
  split; [apply heavy_payloadb_sound; vm_compute; reflexivity|]. split; [apply numeric_ordersb_sound; vm_compute; reflexivity|].
  split; [exact (two_tok _ _ _ _ _ _ _ _ _ _ _ _ readingA readingB P1 C12_wf)|].
  split; [exact (two_tok _ _ _ _ _ _ _ _ _ _ _ _ RP RQ P2 W2)|].
  split; [exact R1|]. split; [exact R2|].
  split; [exact (string_step _ _ _ _ _ _ _ _ _ _ _ _ readingA readingB (S "[#A][#B]") baseAB NbA HbA (read_baseAB fo0) C12_sep _ R1)|].
  split; [exact (string_step _ _ _ _ _ _ _ _ _ _ _ _ RP RQ (S "[#A][#B]") baseAB NbA HbA (read_baseAB fo0) Sep2 _ R2)|].
  split; [vm_compute; reflexivity|]. split; [vm_compute; reflexivity|].
  split; [vm_compute; reflexivity|]. split; [vm_compute; reflexivity|]. split; [vm_compute; reflexivity|]. split; [vm_compute; reflexivity|].
  split; [vm_compute; reflexivity|]. split; [vm_compute; reflexivity|].
  split; (split; [apply existsb_In; vm_compute; reflexivity|vm_compute; tauto]).
Qed.

(** ---------------------------------------------------------------- the known finding second_anchor_ligand_lower at the level
    of cuts: {[#A][#B]} / {[#B][#A]} . {#A=F/C(Cl)=[$],#B=[$]=C(Br)/I} - non-vacuity of order_dependence_exact (the two base
    orders disagree on the bit [early_before] and store trans / cis) *)
Definition toksF : list tok := [TAtom (S "F"); TSlash true; TAtom (S "C"); TOpen; TAtom (S "Cl"); TClose].
Definition dcF : decor := {| d_lead := []; d_after := repeat [] 5 ++ [[dd]] |}.
Definition toksI : list tok := [TAtom (S "C"); TOpen; TAtom (S "Br"); TClose; TSlash true; TAtom (S "I")].
Definition dcI : decor := {| d_lead := [dd]; d_after := repeat [] 6 |}.
Definition tF := render (decorate toksF dcF).
Definition tI := render (decorate toksI dcI).
Definition ezF : ndict ascii := [(1%nat, "/"%char); (0%nat, "/"%char)].
Definition Cw : cut :=
  {| c_atoms := [(0, hatom "F" 0); (2, hatom "C" 2); (4, hatom "Cl" 0); (1, hatom "C" 2); (3, hatom "Br" 0); (5, hatom "I" 0)];
     c_bonds := [ {| cb_u := 2; cb_v := 1; cb_ord := VInt 2; cb_lab := []; cb_dollar := true |}; sbond 0 2; sbond 2 4; sbond 1 3; sbond 1 5 ];
     c_parts := [(nA, [0; 2; 4]); (nB, [1; 3; 5])]; c_dord := [] |}.
Definition outF1 : res full_out := Eval vm_compute in resolve_string fo0 (sAB tF tI).
Definition outF2 : res full_out := Eval vm_compute in resolve_string fo0 (sBA tF tI).
Lemma readingF : exists T0, frag_reading fo0 Cw nA [0; 2; 4] toksF dcF ezF T0.
Proof. apply readingb_sound. vm_compute. reflexivity. Qed.
Lemma readingI : exists T0, frag_reading fo0 Cw nB [1; 3; 5] toksI dcI ez02 T0.
Proof. apply readingb_sound. vm_compute. reflexivity. Qed.

Example order_dependence_nonvacuous :
  to_string (sAB tF tI) = "{[#A][#B]}.{#A=F/C(Cl)=[$],#B=[$]=C(Br)/I}"%string /\
  to_string (sBA tF tI) = "{[#B][#A]}.{#A=F/C(Cl)=[$],#B=[$]=C(Br)/I}"%string /\
  exists fd o1 o2,
    let tok := tok2 [0; 2; 4] [1; 3; 5] ezF ez02 in let C2 := swap_parts Cw in
    wf_cut Cw /\ templates_ok Cw fd /\ wf_dict fd /\ is_base Cw (next_meta baseAB) /\ heavy_payload Cw /\ numeric_orders Cw /\
    wf_cut C2 /\ templates_ok C2 fd /\ is_base C2 (next_meta baseBA) /\ heavy_payload C2 /\ numeric_orders C2 /\
    (forall name xs T i x n, In (name, xs) (c_parts Cw) -> fd_get name fd = Some T ->
       nth_error xs i = Some x -> gfind (Z.of_nat i) T = Some n -> aget ezk (na n) = tok x) /\
    (forall name xs T i x n, In (name, xs) (c_parts C2) -> fd_get name fd = Some T ->
       nth_error xs i = Some x -> gfind (Z.of_nat i) T = Some n -> aget ezk (na n) = tok x) /\
    resolve_step_full true true fd baseAB (Some (fo_m3 o1)) = Ok o1 /\ resolve_step_full true true fd baseBA (Some (fo_m3 o2)) = Ok o2 /\
    resolve_string fo0 (sAB tF tI) = Ok o1 /\ resolve_string fo0 (sBA tF tI) = Ok o2 /\
    let m1 := mapping_of_out o1 in let m2 := mapping_of_out o2 in
    sort_mapping (fo_m4 o1) = Ok m1 /\ sort_mapping (fo_m4 o2) = Ok m2 /\
    early_before Cw 0 2 1 5 = true /\ early_before C2 0 2 1 5 = false /\
    is_new (fo_m5 o1) (fo_mol o1) (map_get m1 (phi Cw 0))
      (ez_tuple (map_get m1 (phi Cw 0)) (map_get m1 (phi Cw 2)) (map_get m1 (phi Cw 1)) (map_get m1 (phi Cw 5)) v_trans) /\
    is_new (fo_m5 o2) (fo_mol o2) (map_get m2 (phi C2 0))
      (ez_tuple (map_get m2 (phi C2 0)) (map_get m2 (phi C2 2)) (map_get m2 (phi C2 1)) (map_get m2 (phi C2 5)) v_cis).
Proof.
  split; [vm_compute; reflexivity|]. split; [vm_compute; reflexivity|].
  destruct readingF as [TF RF]. destruct readingI as [TI RI].
  assert (W1 : wf_cut Cw) by (apply wf_cutb_sound; vm_compute; reflexivity).
  assert (W2 : wf_cut (swap_parts Cw)) by (apply wf_cutb_sound; vm_compute; reflexivity).
  assert (P1 : parts_AB Cw [0; 2; 4] [1; 3; 5]) by (left; reflexivity).
  assert (H1 : heavy_payload Cw) by (apply heavy_payloadb_sound; vm_compute; reflexivity).
  assert (N1 : numeric_orders Cw) by (apply numeric_ordersb_sound; vm_compute; reflexivity).
  assert (NbA : S "[#A][#B]" <> []) by discriminate. assert (NbB : S "[#B][#A]" <> []) by discriminate.
  assert (HbA : ~ In "}"%char (S "[#A][#B]")) by (vm_compute; intuition discriminate).
  assert (HbB : ~ In "}"%char (S "[#B][#A]")) by (vm_compute; intuition discriminate).
  assert (Sep : ~ In ","%char tF /\ ~ In ","%char tI /\ ~ In "}"%char tF /\ ~ In "}"%char tI) by (repeat split; vm_compute; intuition discriminate).
  assert (R1 : resolve_string fo0 (sAB tF tI) = Ok (get_out outF1)) by (vm_compute; reflexivity).
  assert (R2 : resolve_string fo0 (sBA tF tI) = Ok (get_out outF2)) by (vm_compute; reflexivity).
  pose proof (two_templates_ok _ _ _ _ _ _ _ _ _ _ _ _ RF RI P1) as TO.
  pose proof (two_tok _ _ _ _ _ _ _ _ _ _ _ _ RF RI P1 W1) as TK.
  exists [(nA, tmpl_graph TF); (nB, tmpl_graph TI)], (get_out outF1), (get_out outF2). cbv zeta.
  split; [exact W1|]. split; [exact TO|]. split; [exact (two_wf_dict _ _ _ _ _ _ _ _ _ _ _ _ RF RI)|].
  split; [apply is_baseb_sound; vm_compute; reflexivity|]. split; [exact H1|]. split; [exact N1|].
  split; [exact W2|]. split; [exact (pp_templates Cw _ W1 (swap_pperm Cw) _ TO)|]. split; [apply is_baseb_sound; vm_compute; reflexivity|].
  split; [exact (heavy_payload_pp _ _ (swap_pperm Cw) H1)|]. split; [exact (numeric_orders_pp _ _ (swap_pperm Cw) N1)|].
  split; [exact TK|].
  split; [intros name xs T i x n I; apply TK; apply (Permutation.Permutation_in _ (pp_parts _ _ (swap_pperm Cw)) I)|].
  split; [exact (string_step _ _ _ _ _ _ _ _ _ _ _ _ RF RI (S "[#A][#B]") baseAB NbA HbA (read_baseAB fo0) Sep _ R1)|].
  split; [exact (string_step _ _ _ _ _ _ _ _ _ _ _ _ RF RI (S "[#B][#A]") baseBA NbB HbB (read_baseBA fo0) Sep _ R2)|].
  split; [exact R1|]. split; [exact R2|].
  split; [vm_compute; reflexivity|]. split; [vm_compute; reflexivity|]. split; [vm_compute; reflexivity|]. split; [vm_compute; reflexivity|].
  split; (split; [apply existsb_In; vm_compute; reflexivity|vm_compute; tauto]).
Qed.

(** ---------------------------------------------------------------- ONE FRAGMENT against the cut at the double bond:
    {[#A]}.{#A=C(Cl)(/CC)=C(Br)/CCC}  vs  {[#A][#B]}.{#A=[$]=C(Cl)/CC,#B=[$]=C(Br)/CCC}  (non-vacuity of one_vs_two_strings) *)
Definition toksS : list tok := toksP ++ [TAtom (S "C")].
Definition dcS : decor := {| d_lead := []; d_after := repeat [] 18 |}.
Definition tS := render (decorate toksS dcS).
Definition xsS : list Z := [0; 2; 4; 6; 1; 3; 5; 7; 9].
Definition C1s : cut :=
  {| c_atoms := [(0, hatom "C" 0); (2, hatom "Cl" 0); (4, hatom "C" 2); (6, hatom "C" 3); (1, hatom "C" 0); (3, hatom "Br" 0);
                 (5, hatom "C" 2); (7, hatom "C" 2); (9, hatom "C" 3)];
     c_bonds := c_bonds C12; c_parts := [(nA, xsS)]; c_dord := [] |}.
Definition outS : res full_out := Eval vm_compute in resolve_string fo0 (sA tS).
Lemma readingS : exists T0, frag_reading fo0 C1s nA xsS toksS dcS ezP T0.
Proof. apply readingb_sound. vm_compute. reflexivity. Qed.

Example one_vs_two_nonvacuous :
  to_string (sA tS) = "{[#A]}.{#A=C(Cl)(/CC)=C(Br)/CCC}"%string /\
  (exists T0, frag_reading fo0 C1s nA xsS toksS dcS ezP T0) /\ c_parts C1s = [(nA, xsS)] /\
  wf_cut C1s /\ heavy_payload C1s /\ numeric_orders C1s /\ is_base C1s (next_meta baseA) /\
  ~ In ","%char tS /\ ~ In "}"%char tS /\
  let tk1 := tok1f xsS ezP in
  tk1 4 = Some (tok_of true (wb C1s 4 0)) /\ tk1 5 = Some (tok_of true (wb C1s 5 1)) /\ late_after C1s 4 0 1 5 = true /\
  exists o1, resolve_string fo0 (sA tS) = Ok o1 /\
    let m1 := mapping_of_out o1 in sort_mapping (fo_m4 o1) = Ok m1 /\
    is_new (fo_m5 o1) (fo_mol o1) (map_get m1 (phi C1s 4))
      (ez_tuple (map_get m1 (phi C1s 4)) (map_get m1 (phi C1s 0)) (map_get m1 (phi C1s 1)) (map_get m1 (phi C1s 5)) v_cis).
Proof.
  split; [vm_compute; reflexivity|]. split; [exact readingS|]. split; [reflexivity|].
  split; [apply wf_cutb_sound; vm_compute; reflexivity|]. split; [apply heavy_payloadb_sound; vm_compute; reflexivity|].
  split; [apply numeric_ordersb_sound; vm_compute; reflexivity|]. split; [apply is_baseb_sound; vm_compute; reflexivity|].
  split; [vm_compute; intuition discriminate|]. split; [vm_compute; intuition discriminate|]. cbv zeta.
  split; [vm_compute; reflexivity|]. split; [vm_compute; reflexivity|]. split; [vm_compute; reflexivity|].
  exists (get_out outS). split; [vm_compute; reflexivity|]. split; [vm_compute; reflexivity|].
  split; [apply existsb_In; vm_compute; reflexivity|vm_compute; tauto].
Qed.
