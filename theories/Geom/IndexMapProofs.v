(** IndexMapProofs: which node receives which RDKit atom's position (C18, index plumbing). *)
From Coq Require Import List ZArith Bool Lia FinFun.
From CGV Require Import Base.PyBase Gen.GeomGen Geom.IndexMap Geom.CoordDefs.
Import ListNotations.
Open Scope Z_scope.

(** ---------- look-up in association lists *)
Lemma lookup_last_app k l1 l2 :
  lookup_last k (l1 ++ l2) = match lookup_last k l2 with Some w => Some w | None => lookup_last k l1 end.
Proof.
  induction l1 as [|[k' v] l1 IH]; cbn.
  - destruct (lookup_last k l2); reflexivity.
  - rewrite IH. destruct (lookup_last k l2); reflexivity.
Qed.

Lemma lookup_last_none k l : ~ In k (map fst l) -> lookup_last k l = None.
Proof.
  induction l as [|[k' v] l IH]; cbn; [reflexivity|]. intros H.
  rewrite IH by tauto. destruct (Z.eqb_spec k k'); [subst; tauto|reflexivity].
Qed.

Lemma lookup_last_in k v l : lookup_last k l = Some v -> In (k, v) l.
Proof.
  induction l as [|[k' v'] l IH]; cbn; [discriminate|].
  destruct (lookup_last k l) eqn:E.
  - intros H; inversion H; subst. right. apply IH. reflexivity.
  - destruct (Z.eqb_spec k k'); [|discriminate]. intros H; inversion H; subst. left. reflexivity.
Qed.

Lemma lookup_last_nodup k v l : NoDup (map fst l) -> In (k, v) l -> lookup_last k l = Some v.
Proof.
  induction l as [|[k' v'] l IH]; cbn; [tauto|]. intros ND [H|H].
  - inversion H; subst. inversion ND; subst. rewrite lookup_last_none by assumption. rewrite Z.eqb_refl. reflexivity.
  - inversion ND; subst. rewrite (IH H3 H). reflexivity.
Qed.

(** ---------- node_to_idx is the enumeration *)
Lemma combine_seq_in (nodes : list Z) : forall s k i,
  In (k, i) (combine nodes (seq s (length nodes))) <-> (s <= i)%nat /\ nth_error nodes (i - s) = Some k.
Proof.
  induction nodes as [|a r IH]; intros s k i; cbn.
  - split; [tauto|]. intros [_ H]. destruct (i - s)%nat; discriminate.
  - rewrite IH. split.
    + intros [H|[H1 H2]].
      * inversion H; subst. split; [lia|]. replace (i - i)%nat with 0%nat by lia. reflexivity.
      * split; [lia|]. replace (i - s)%nat with (Datatypes.S (i - Datatypes.S s)) by lia. exact H2.
    + intros [H1 H2]. destruct (Nat.eq_dec i s) as [->|Hne].
      * left. replace (s - s)%nat with 0%nat in H2 by lia. cbn in H2. inversion H2. reflexivity.
      * right. split; [lia|]. replace (i - s)%nat with (Datatypes.S (i - Datatypes.S s)) in H2 by lia. exact H2.
Qed.

Lemma map_fst_combine_seq (nodes : list Z) s : map fst (combine nodes (seq s (length nodes))) = nodes.
Proof. revert s. induction nodes as [|a r IH]; intros s; cbn; [reflexivity|]. rewrite IH. reflexivity. Qed.

Lemma own_atom_spec nodes k i : NoDup nodes -> (own_atom nodes k = Some i <-> nth_error nodes i = Some k).
Proof.
  intros ND. unfold own_atom, node_to_idx. split.
  - intros H. apply lookup_last_in in H. apply combine_seq_in in H. destruct H as [_ H].
    rewrite Nat.sub_0_r in H. exact H.
  - intros H. apply lookup_last_nodup; [rewrite map_fst_combine_seq; exact ND|].
    apply combine_seq_in. rewrite Nat.sub_0_r. split; [lia|exact H].
Qed.

Lemma own_atom_some nodes k : NoDup nodes -> In k nodes -> exists i, own_atom nodes k = Some i.
Proof.
  intros ND H. apply In_nth_error in H. destruct H as [i H]. exists i. apply own_atom_spec; assumption.
Qed.

(** ---------- the observable after the call is the dict of writes restricted to the nodes *)
Lemma final_map_keys nodes w k : In k (map fst (final_map nodes w)) -> In k nodes.
Proof.
  unfold final_map. induction nodes as [|a r IH]; cbn; [tauto|].
  rewrite map_app, in_app_iff. intros [H|H]; [|right; apply IH; exact H].
  destruct (lookup_last a w); cbn in H; [|tauto]. destruct H as [H|[]]. left. exact H.
Qed.

Lemma final_map_lookup nodes w k : NoDup nodes -> In k nodes ->
  lookup_last k (final_map nodes w) = lookup_last k w.
Proof.
  unfold final_map. induction nodes as [|a r IH]; cbn; [tauto|]. intros ND Hin. inversion ND; subst.
  rewrite lookup_last_app. destruct (Z.eq_dec k a) as [->|Hne].
  - rewrite lookup_last_none by (intros H; apply final_map_keys in H; tauto).
    destruct (lookup_last a w); cbn; [rewrite Z.eqb_refl|]; reflexivity.
  - destruct Hin as [Hin|Hin]; [congruence|]. rewrite (IH H2 Hin).
    destruct (lookup_last k w) eqn:E; [reflexivity|].
    destruct (lookup_last a w); cbn; [|reflexivity]. destruct (Z.eqb_spec k a); [congruence|reflexivity].
Qed.

(** ---------- the node-key write-back (zip(mol_graph.nodes, atoms)): correct for EVERY node list *)
Lemma combine_seq_longer (nodes : list Z) : forall s m, (length nodes <= m)%nat ->
  combine nodes (seq s m) = combine nodes (seq s (length nodes)).
Proof.
  induction nodes as [|a r IH]; intros s m H; [reflexivity|].
  destruct m; cbn in *; [lia|]. rewrite (IH (Datatypes.S s) m) by lia. reflexivity.
Qed.

Theorem coords_on_own_atom_nodekey : forall nodes nrd, NoDup nodes -> (length nodes <= nrd)%nat ->
  exists m, embed_model WriteByNodeKey nodes nrd = Ok m /\ on_own_atoms nodes m.
Proof.
  intros nodes nrd ND Hn. unfold embed_model, embed_writes. cbn. eexists. split; [reflexivity|].
  intros k Hk. rewrite final_map_lookup by assumption. rewrite combine_seq_longer by assumption. reflexivity.
Qed.

(** ---------- the enumeration-index write-back (mol_graph.nodes[ndx]): correct IFF nodes = [0..n-1] *)
Definition id_writes (idxs : list nat) : list (Z * nat) := map (fun i => (Z.of_nat i, i)) idxs.

Lemma writes_enum_ok nodes idxs w : writes_enum nodes idxs = Ok w ->
  w = id_writes idxs /\ forall i, In i idxs -> In (Z.of_nat i) nodes.
Proof.
  revert w. induction idxs as [|i r IH]; cbn; intros w H.
  - inversion H. split; [reflexivity|tauto].
  - destruct (zmem (Z.of_nat i) nodes) eqn:E; [|discriminate].
    destruct (writes_enum nodes r) as [w'|] eqn:E'; cbn in H; [|discriminate]. inversion H; subst.
    destruct (IH w' eq_refl) as [-> Hr]. split; [reflexivity|].
    intros j [<-|Hj]; [|apply Hr; exact Hj].
    unfold zmem in E. apply existsb_exists in E. destruct E as [x [Hx Hx']]. apply Z.eqb_eq in Hx'. subst. exact Hx.
Qed.

Lemma writes_enum_complete nodes idxs : (forall i, In i idxs -> In (Z.of_nat i) nodes) ->
  writes_enum nodes idxs = Ok (id_writes idxs).
Proof.
  induction idxs as [|i r IH]; cbn; intros H; [reflexivity|].
  assert (E : zmem (Z.of_nat i) nodes = true).
  { unfold zmem. apply existsb_exists. exists (Z.of_nat i). split; [apply H; left; reflexivity|apply Z.eqb_refl]. }
  rewrite E, IH by (intros j Hj; apply H; right; exact Hj). reflexivity.
Qed.

Lemma id_writes_lookup k idxs : NoDup idxs ->
  lookup_last k (id_writes idxs) = if (0 <=? k) && existsb (Nat.eqb (Z.to_nat k)) idxs then Some (Z.to_nat k) else None.
Proof.
  intros ND. destruct ((0 <=? k) && existsb (Nat.eqb (Z.to_nat k)) idxs) eqn:E.
  - apply andb_true_iff in E. destruct E as [E1 E2]. apply Z.leb_le in E1.
    apply existsb_exists in E2. destruct E2 as [i [Hi Hi']]. apply Nat.eqb_eq in Hi'. subst i.
    apply lookup_last_nodup.
    + unfold id_writes. rewrite map_map. cbn. apply FinFun.Injective_map_NoDup; [|exact ND].
      intros a b Hab. lia.
    + unfold id_writes. apply in_map_iff. exists (Z.to_nat k). split; [|exact Hi]. f_equal. lia.
  - apply lookup_last_none. unfold id_writes. rewrite map_map. cbn. intros H. apply in_map_iff in H.
    destruct H as [i [Hi Hi']]. subst k. rewrite Nat2Z.id in E.
    assert (X : (0 <=? Z.of_nat i) = true) by (apply Z.leb_le; lia). rewrite X in E. cbn in E.
    assert (Y : existsb (Nat.eqb i) idxs = true) by (apply existsb_exists; exists i; split; [exact Hi'|apply Nat.eqb_refl]).
    congruence.
Qed.

Lemma existsb_seq i n : existsb (Nat.eqb i) (seq 0 n) = (i <? n)%nat.
Proof.
  destruct (Nat.ltb_spec i n) as [H|H].
  - apply existsb_exists. exists i. split; [apply in_seq; lia|apply Nat.eqb_refl].
  - destruct (existsb (Nat.eqb i) (seq 0 n)) eqn:E; [|reflexivity].
    apply existsb_exists in E. destruct E as [j [Hj Hj']]. apply Nat.eqb_eq in Hj'. subst. apply in_seq in Hj. lia.
Qed.

Lemma iota_nth n i : (i < n)%nat -> nth_error (iota n) i = Some (Z.of_nat i).
Proof.
  intros H. unfold iota. rewrite nth_error_map. rewrite (nth_error_nth' _ 0%nat) by (rewrite seq_length; exact H).
  rewrite seq_nth by exact H. reflexivity.
Qed.
Lemma iota_length n : length (iota n) = n.
Proof. unfold iota. rewrite map_length, seq_length. reflexivity. Qed.
Lemma iota_in n k : In k (iota n) <-> 0 <= k < Z.of_nat n.
Proof.
  unfold iota. rewrite in_map_iff. split.
  - intros [i [<- H]]. apply in_seq in H. lia.
  - intros H. exists (Z.to_nat k). split; [lia|apply in_seq; lia].
Qed.
Lemma iota_nodup n : NoDup (iota n).
Proof. unfold iota. apply FinFun.Injective_map_NoDup; [intros a b; lia|apply seq_NoDup]. Qed.

Lemma zlist_eqb_eq a : forall b, zlist_eqb a b = true <-> a = b.
Proof.
  induction a as [|x a IH]; destruct b as [|y b]; cbn; try (split; [discriminate|congruence]); [tauto|].
  rewrite andb_true_iff, Z.eqb_eq, IH. split; [intros [-> ->]; reflexivity|intros H; inversion H; tauto].
Qed.

Lemma nth_error_ext {A} (l l' : list A) : length l = length l' ->
  (forall i, (i < length l)%nat -> nth_error l i = nth_error l' i) -> l = l'.
Proof.
  revert l'. induction l as [|x l IH]; destruct l' as [|y l']; cbn; intros Hl H; try discriminate; [reflexivity|].
  f_equal.
  - specialize (H 0%nat ltac:(lia)). cbn in H. congruence.
  - apply IH; [lia|]. intros i Hi. apply (H (Datatypes.S i)). lia.
Qed.

Theorem coords_on_own_atom_enum : forall nodes nrd, NoDup nodes ->
  ((exists m, embed_model WriteByEnumIndex nodes nrd = Ok m /\ on_own_atoms nodes m)
   <-> (nodes = iota (length nodes) /\ nrd = length nodes)).
Proof.
  intros nodes nrd ND. unfold embed_model, embed_writes. split.
  - intros [m [Hm Hown]].
    destruct (writes_enum nodes (seq 0 nrd)) as [w|] eqn:Ew; cbn in Hm; [|discriminate]. inversion Hm; subst m. clear Hm.
    apply writes_enum_ok in Ew. destruct Ew as [-> Hin].
    (* every node k satisfies 0 <= k < nrd and sits at index k *)
    assert (Hk : forall k, In k nodes -> 0 <= k /\ (Z.to_nat k < nrd)%nat /\ nth_error nodes (Z.to_nat k) = Some k).
    { intros k Hk. specialize (Hown k Hk). rewrite final_map_lookup in Hown by assumption.
      rewrite id_writes_lookup in Hown by apply seq_NoDup. rewrite existsb_seq in Hown.
      destruct (own_atom_some nodes k ND Hk) as [i Hi]. rewrite Hi in Hown.
      destruct (0 <=? k) eqn:E1; [rewrite andb_true_l in Hown|rewrite andb_false_l in Hown; discriminate Hown].
      destruct (Z.to_nat k <? nrd)%nat eqn:E2; [|discriminate Hown]. apply Nat.ltb_lt in E2. inversion Hown; subst i.
      apply Z.leb_le in E1. apply own_atom_spec in Hi; [|exact ND]. tauto. }
    assert (Hnodes : nodes = iota (length nodes)).
    { apply nth_error_ext; [rewrite iota_length; reflexivity|]. intros i Hi.
      rewrite iota_nth by exact Hi. destruct (nth_error nodes i) as [k|] eqn:E; [|apply nth_error_None in E; lia].
      destruct (Hk k (nth_error_In _ _ E)) as [H0 [_ Hn]].
      assert (Z.to_nat k = i) by (eapply (proj1 (NoDup_nth_error nodes) ND); [apply nth_error_Some; congruence|congruence]).
      f_equal. lia. }
    split; [exact Hnodes|].
    assert (Hle : (nrd <= length nodes)%nat).
    { destruct nrd; [lia|]. specialize (Hin nrd ltac:(apply in_seq; lia)). rewrite Hnodes in Hin. apply iota_in in Hin. lia. }
    assert (Hge : (length nodes <= nrd)%nat).
    { destruct (length nodes) as [|n'] eqn:El; [lia|].
      assert (In (Z.of_nat n') nodes) by (rewrite Hnodes; apply iota_in; lia).
      destruct (Hk _ H) as [_ [H1 _]]. lia. }
    lia.
  - intros [Hnodes ->]. set (n := length nodes) in *.
    rewrite writes_enum_complete by (intros i Hi; rewrite Hnodes; apply iota_in; apply in_seq in Hi; lia).
    cbn. eexists. split; [reflexivity|]. intros k Hk. rewrite final_map_lookup by assumption.
    rewrite id_writes_lookup by apply seq_NoDup. rewrite existsb_seq.
    rewrite Hnodes in Hk. apply iota_in in Hk.
    assert (E1 : (0 <=? k) = true) by (apply Z.leb_le; lia). rewrite E1. rewrite andb_true_l.
    assert (E2 : (Z.to_nat k <? n)%nat = true) by (apply Nat.ltb_lt; lia). rewrite E2.
    symmetry. apply own_atom_spec; [exact ND|]. rewrite Hnodes. rewrite iota_nth by lia. f_equal. lia.
Qed.

(** the class predicate is exactly the negation of the right-hand side (for nrd = n) *)
Lemma cls_index_not_key_spec nodes : cls_index_not_key nodes = false <-> nodes = iota (length nodes).
Proof. unfold cls_index_not_key. rewrite negb_false_iff. apply zlist_eqb_eq. Qed.

(** C18, embedding clause, as it stands for the enumeration-index variant:
    outside the defect class every node is on its own atom; inside it the clause fails *)
Theorem coords_partial_enum : forall nodes, NoDup nodes -> cls_index_not_key nodes = false ->
  exists m, embed_model WriteByEnumIndex nodes (length nodes) = Ok m /\ on_own_atoms nodes m.
Proof.
  intros nodes ND H. apply coords_on_own_atom_enum; [exact ND|]. split; [apply cls_index_not_key_spec; exact H|reflexivity].
Qed.
Theorem coords_class_fails_enum : forall nodes, NoDup nodes -> cls_index_not_key nodes = true ->
  ~ exists m, embed_model WriteByEnumIndex nodes (length nodes) = Ok m /\ on_own_atoms nodes m.
Proof.
  intros nodes ND H C. apply coords_on_own_atom_enum in C; [|exact ND]. destruct C as [C _].
  apply cls_index_not_key_spec in C. congruence.
Qed.

(** witness: the node order of the resolved molecule {[#A][#B]}.{#A=[$]CO,#B=[$]CC} *)
Definition witness_nodes : list Z := [0; 1; 5; 6; 2; 3; 4; 7; 8; 9; 10; 11].
Theorem coords_refuted_enum :
  exists nodes, NoDup nodes /\ (exists m, embed_model WriteByEnumIndex nodes (length nodes) = Ok m /\
                                          on_own_atoms_b nodes m = false).
Proof.
  exists witness_nodes. split.
  - unfold witness_nodes. repeat (constructor; [cbn; intuition discriminate|]). constructor.
  - eexists. split; vm_compute; reflexivity.
Qed.

Lemma on_own_atoms_b_spec nodes m : NoDup nodes -> (on_own_atoms_b nodes m = true <-> on_own_atoms nodes m).
Proof.
  intros ND. unfold on_own_atoms_b, on_own_atoms. rewrite forallb_forall. split; intros H k Hk; specialize (H k Hk).
  - destruct (own_atom_some nodes k ND Hk) as [j Hj]. rewrite Hj in *.
    destruct (lookup_last k m); [|discriminate]. apply Nat.eqb_eq in H. congruence.
  - rewrite H. destruct (own_atom_some nodes k ND Hk) as [j Hj]. rewrite Hj. apply Nat.eqb_refl.
Qed.

(** rdkit_to_networkx with a conformer *)
Theorem r2n_unbound_is_nameerror : forall natoms, natoms <> 0%nat -> r2n_flow false true natoms = Err EName.
Proof. intros n H. unfold r2n_flow. destruct n; [congruence|reflexivity]. Qed.
Theorem r2n_bound_positions : forall has_conf natoms,
  r2n_positions true has_conf natoms = Ok (if has_conf then map (fun i => (Z.of_nat i, i)) (seq 0 natoms) else []).
Proof. intros. unfold r2n_positions, r2n_flow. rewrite andb_false_r. reflexivity. Qed.
Theorem r2n_no_conformer_ok : forall b natoms, r2n_positions b false natoms = Ok [].
Proof. intros. unfold r2n_positions, r2n_flow. reflexivity. Qed.
