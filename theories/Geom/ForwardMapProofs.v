(** ForwardMapProofs: the bead average of coordinates.forward_map_molecule (C18).
    Generic part (any carrier, Leibniz equality): a bead depends only on its own atoms.
    Algebraic part over the ordered field Q (setoid equality ==), axiom-free:
    translation equivariance  <->  sum of weights == number of weights   for the /len variant,
    unconditional (sum of weights =/= 0) for the /sum variant. *)
From Coq Require Import List ZArith Bool QArith Lia Setoid.
From CGV Require Import Base.PyBase Geom.Num Gen.GeomGen Geom.ForwardMap.
Import ListNotations.

(** ---------- a bead uses exactly its own atoms (generic carrier) *)
Section Own.
  Context {M : Type} (o : numops M).
  Lemma accumulate_own (pos pos' : Z -> res (@vec3 M)) ws : forall acc,
    (forall a, In a (map fst ws) -> pos a = pos' a) -> accumulate o pos ws acc = accumulate o pos' ws acc.
  Proof.
    induction ws as [|[a w] r IH]; intros acc H; cbn; [reflexivity|].
    rewrite <- (H a) by (left; reflexivity). destruct (pos a); cbn; [|reflexivity].
    apply IH. intros b Hb. apply H. right. exact Hb.
  Qed.
  Theorem bead_uses_own_atoms : forall mode (pos pos' : Z -> res (@vec3 M)) ws,
    (forall a, In a (map fst ws) -> pos a = pos' a) -> bead o mode pos ws = bead o mode pos' ws.
  Proof. intros. unfold bead. rewrite (accumulate_own pos pos') by assumption. reflexivity. Qed.
End Own.

(** ---------- over Q *)
Open Scope Q_scope.
Notation qvec := (@vec3 Q).
Definition veq (a b : qvec) : Prop :=
  let '(a1, a2, a3) := a in let '(b1, b2, b3) := b in a1 == b1 /\ a2 == b2 /\ a3 == b3.
Definition okpos (pos : Z -> qvec) : Z -> res qvec := fun k => Ok (pos k).
Definition shift (t : qvec) (pos : Z -> qvec) : Z -> qvec := fun k => v3add numQ (pos k) t.
Definition c1 (v : qvec) : Q := fst (fst v).
Definition c2 (v : qvec) : Q := snd (fst v).
Definition c3 (v : qvec) : Q := snd v.

(** scalar accumulation: one coordinate of the loop *)
Fixpoint accS (f : Z -> Q) (ws : list (Z * Q)) (acc : Q) : Q :=
  match ws with [] => acc | (a, w) :: r => accS f r (acc + f a * w) end.

Lemma accumulate_total pos ws : forall acc, exists s, accumulate numQ (okpos pos) ws acc = Ok s /\
  c1 s = accS (fun k => c1 (pos k)) ws (c1 acc) /\ c2 s = accS (fun k => c2 (pos k)) ws (c2 acc) /\
  c3 s = accS (fun k => c3 (pos k)) ws (c3 acc).
Proof.
  induction ws as [|[a w] r IH]; intros acc; cbn.
  - exists acc. tauto.
  - destruct (IH (v3add numQ acc (v3scale numQ (pos a) w))) as [s [Hs [H1 [H2 H3]]]].
    exists s. split; [exact Hs|]. rewrite H1, H2, H3.
    destruct acc as [[x y] z]. destruct (pos a) as [[p q] r']. cbn. tauto.
Qed.

Lemma accS_proper f ws : forall a b, a == b -> accS f ws a == accS f ws b.
Proof. induction ws as [|[k w] r IH]; intros a b H; cbn; [exact H|]. apply IH. rewrite H. reflexivity. Qed.

Lemma sum_from_spec (ws : list (Z * Q)) : forall s, sum_from numQ ws s == s + sum_weights numQ ws.
Proof.
  unfold sum_weights. induction ws as [|[k w] r IH]; intros s; cbn.
  - ring.
  - rewrite IH. rewrite (IH (0 + w)). ring.
Qed.

Lemma sumw_cons k w (r : list (Z * Q)) : sum_weights numQ ((k, w) :: r) == w + sum_weights numQ r.
Proof. unfold sum_weights at 1. cbn [sum_from]. rewrite sum_from_spec. cbn [nadd nzero numQ]. ring. Qed.
Lemma accS_cons f k w r acc : accS f ((k, w) :: r) acc = accS f r (acc + f k * w).
Proof. reflexivity. Qed.
Lemma accS_add f t w r : forall x, accS f r (x + t * w) == accS f r x + t * w.
Proof.
  induction r as [|[k' w'] r IH]; intros x; [reflexivity|]. rewrite !accS_cons.
  rewrite (accS_proper f r (x + t * w + f k' * w') ((x + f k' * w') + t * w)) by ring. apply IH.
Qed.

(** the key identity: accumulating translated positions adds t * (sum of weights) *)
Lemma accS_shift f t ws : forall acc,
  accS (fun k => f k + t) ws acc == accS f ws acc + t * sum_weights numQ ws.
Proof.
  induction ws as [|[k w] r IH]; intros acc.
  - unfold sum_weights. cbn. ring.
  - rewrite !accS_cons. rewrite IH. rewrite sumw_cons.
    rewrite (accS_proper f r (acc + (f k + t) * w) (acc + f k * w + t * w)) by ring.
    rewrite accS_add. ring.
Qed.

Definition beadT (mode : avg_mode) (pos : Z -> qvec) (ws : list (Z * Q)) : qvec :=
  match bead numQ mode (okpos pos) ws with Ok b => b | Err _ => v3zero numQ end.

Lemma bead_total mode pos ws : exists b, bead numQ mode (okpos pos) ws = Ok b /\ beadT mode pos ws = b /\
  c1 b = accS (fun k => c1 (pos k)) ws 0 / denom numQ mode ws /\
  c2 b = accS (fun k => c2 (pos k)) ws 0 / denom numQ mode ws /\
  c3 b = accS (fun k => c3 (pos k)) ws 0 / denom numQ mode ws.
Proof.
  unfold beadT, bead. destruct (accumulate_total pos ws (v3zero numQ)) as [s [Hs [H1 [H2 H3]]]].
  rewrite Hs. cbn. eexists. split; [reflexivity|]. split; [reflexivity|].
  destruct s as [[x y] z]. cbn in *. rewrite H1, H2, H3. tauto.
Qed.

Definition equivariant (mode : avg_mode) (ws : list (Z * Q)) : Prop :=
  forall pos t, veq (beadT mode (shift t pos) ws) (v3add numQ (beadT mode pos ws) t).

Lemma coord_equiv f t ws d : ~ d == 0 ->
  (accS (fun k => f k + t) ws 0 / d == accS f ws 0 / d + t <-> t * sum_weights numQ ws == t * d).
Proof.
  intros Hd. rewrite accS_shift. split; intros H.
  - assert (E : (accS f ws 0 + t * sum_weights numQ ws) / d * d == (accS f ws 0 / d + t) * d) by (rewrite H; reflexivity).
    assert (E1 : (accS f ws 0 + t * sum_weights numQ ws) / d * d == accS f ws 0 + t * sum_weights numQ ws) by (field; exact Hd).
    assert (E2 : (accS f ws 0 / d + t) * d == accS f ws 0 + t * d) by (field; exact Hd).
    rewrite E1, E2 in E. apply (Qplus_inj_l _ _ (accS f ws 0)). exact E.
  - assert (E : (accS f ws 0 + t * sum_weights numQ ws) / d == (accS f ws 0 + t * d) / d) by (rewrite H; reflexivity).
    rewrite E. field. exact Hd.
Qed.

Lemma veq_coords a b : veq a b <-> c1 a == c1 b /\ c2 a == c2 b /\ c3 a == c3 b.
Proof. destruct a as [[x y] z], b as [[x' y'] z']. cbn. tauto. Qed.

Lemma equivariant_iff mode ws : ~ denom numQ mode ws == 0 ->
  (equivariant mode ws <-> sum_weights numQ ws == denom numQ mode ws).
Proof.
  intros Hd. unfold equivariant. split.
  - intros H. specialize (H (fun _ => (0, 0, 0)) (1, 1, 1)). apply veq_coords in H. destruct H as [H _].
    destruct (bead_total mode (shift (1, 1, 1) (fun _ => (0, 0, 0))) ws) as [b [_ [Eb [H1 _]]]].
    destruct (bead_total mode (fun _ => (0, 0, 0)) ws) as [b' [_ [Eb' [H1' _]]]].
    rewrite Eb, Eb' in H. clear Eb Eb'.
    assert (X : c1 (v3add numQ b' (1, 1, 1)) = c1 b' + 1) by (destruct b' as [[x y] z]; reflexivity).
    rewrite X, H1, H1' in H. cbn in H.
    apply (coord_equiv (fun _ => 0) 1 ws _ Hd) in H. rewrite !Qmult_1_l in H. exact H.
  - intros HS pos t. destruct t as [[t1 t2] t3].
    destruct (bead_total mode (shift (t1, t2, t3) pos) ws) as [b [_ [-> [H1 [H2 H3]]]]].
    destruct (bead_total mode pos ws) as [b' [_ [-> [H1' [H2' H3']]]]].
    apply veq_coords.
    assert (X : forall v, c1 (v3add numQ v (t1, t2, t3)) = c1 v + t1 /\ c2 (v3add numQ v (t1, t2, t3)) = c2 v + t2 /\
                          c3 (v3add numQ v (t1, t2, t3)) = c3 v + t3) by (intros [[x y] z]; cbn; tauto).
    destruct (X b') as [X1 [X2 X3]]. rewrite X1, X2, X3, H1, H2, H3, H1', H2', H3'.
    unfold shift.
    assert (Y1 : forall k, c1 (v3add numQ (pos k) (t1, t2, t3)) = c1 (pos k) + t1) by (intros k; apply X).
    assert (Y2 : forall k, c2 (v3add numQ (pos k) (t1, t2, t3)) = c2 (pos k) + t2) by (intros k; apply X).
    assert (Y3 : forall k, c3 (v3add numQ (pos k) (t1, t2, t3)) = c3 (pos k) + t3) by (intros k; apply X).
    assert (Z1 : forall (g h : Z -> Q) l a, (forall k, g k = h k) -> accS g l a = accS h l a).
    { intros g h l. induction l as [|[k w] r IH]; intros a Hgh; cbn; [reflexivity|]. rewrite Hgh. apply IH. exact Hgh. }
    rewrite (Z1 _ _ ws 0 Y1), (Z1 _ _ ws 0 Y2), (Z1 _ _ ws 0 Y3).
    repeat split; apply coord_equiv; try exact Hd; rewrite HS; reflexivity.
Qed.

Lemma len_nonzero (ws : list (Z * Q)) : ws <> [] -> ~ denom numQ DivByLen ws == 0.
Proof.
  intros H. destruct ws as [|x r]; [congruence|]. cbn. unfold Qeq. cbn. lia.
Qed.

(** /len(weights): translation-equivariant IFF the weights sum to their number *)
Theorem forward_map_translation_len : forall ws, ws <> [] ->
  (equivariant DivByLen ws <-> sum_weights numQ ws == inject_Z (Z.of_nat (length ws))).
Proof. intros ws H. apply (equivariant_iff DivByLen ws (len_nonzero ws H)). Qed.

(** /sum(weights): translation-equivariant whenever the weights do not sum to zero *)
Theorem forward_map_translation_sum : forall ws, ~ sum_weights numQ ws == 0 -> equivariant DivBySum ws.
Proof. intros ws H. apply (equivariant_iff DivBySum ws); [exact H|reflexivity]. Qed.

(** corollary: unit weights are fine with either formula *)
Lemma sum_unit ws : (forall aw, In aw ws -> snd aw == 1) -> sum_weights numQ ws == inject_Z (Z.of_nat (length ws)).
Proof.
  intros H. induction ws as [|[k w] r IH]; [reflexivity|].
  unfold sum_weights. cbn [sum_from numQ nadd nzero length]. rewrite sum_from_spec.
  rewrite IH by (intros aw Haw; apply H; right; exact Haw).
  rewrite (H (k, w)) by (left; reflexivity). cbn [snd]. rewrite Nat2Z.inj_succ. unfold Z.succ. rewrite inject_Z_plus. ring.
Qed.
Theorem forward_map_unit_weights : forall ws, ws <> [] -> (forall aw, In aw ws -> snd aw == 1) -> equivariant DivByLen ws.
Proof. intros ws Hne H. apply forward_map_translation_len; [exact Hne|apply sum_unit; exact H]. Qed.

(** refutation witness for the /len variant: one atom of weight 2 *)
Theorem forward_map_refuted_len : exists ws, ws <> [] /\ ~ equivariant DivByLen ws.
Proof.
  exists [(0%Z, 2)]. split; [discriminate|]. intros H. apply forward_map_translation_len in H; [|discriminate].
  vm_compute in H. discriminate.
Qed.
