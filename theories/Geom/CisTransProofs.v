(** CisTransProofs: check_and_fix_cis_trans only rotates about EDGES of the graph, and (under the stated
    hypotheses: every call's rotation is an isometry fixing its origin; every picked component satisfies the
    connected_components contract) preserves every bond length. *)
From Coq Require Import List ZArith Bool Lia.
From CGV Require Import Base.PyBase Geom.IndexMap Geom.Rotate Geom.RotateProofs Geom.CisTrans.
Import ListNotations.
Open Scope Z_scope.

Definition call_on_edge (edges : list (Z * Z)) (c : call) : Prop :=
  let '(a, t, _, _) := c in has_edge edges a t = true.
Definition call_contract (edges : list (Z * Z)) (c : call) : Prop :=
  let '(a, t, _, comp) := c in comp_contract edges a t comp = true.

Section CisTransProofs.
  Context {P D : Type} (dist : P -> P -> D) (rotf : Z -> (Z -> P) -> ezitem -> P -> P -> P).

  Lemma rotate_ok_edge (rot : P -> P -> P) edges a t comps (pts : Z -> P) c pts' :
    rotate_subgraph rot edges a t comps pts = Ok (c, pts') -> has_edge edges a t = true.
  Proof.
    unfold rotate_subgraph. destruct (has_edge edges a t); [reflexivity|discriminate].
  Qed.

  (** generalised over the accumulated trace *)
  Lemma fix_items_trace edges items : forall closes tr pts trace pts' out,
    fix_items rotf edges items closes tr pts trace = Ok (pts', out) ->
    exists new, out = rev trace ++ new /\ Forall (call_on_edge edges) new.
  Proof.
    induction items as [|it r IH]; cbn; intros closes tr pts trace pts' out H.
    - inversion H; subst. exists []. rewrite app_nil_r. split; [reflexivity|constructor].
    - destruct (decide it closes) as [[d closes']|] eqn:Ed; cbn in H; [|discriminate]. destruct d as [|ang].
      + exact (IH _ _ _ _ _ _ H).
      + destruct tr as [|comps tr']; [discriminate|].
        destruct (rotate_subgraph (rotf ang pts it) edges (ez2 it) (ez1 it) comps pts) as [[c pts1]|] eqn:Er; cbn in H; [|discriminate].
        destruct (IH _ _ _ _ _ _ H) as [new [-> Hn]]. cbn. rewrite <- app_assoc. cbn.
        exists ((ez2 it, ez1 it, ang, c) :: new). split; [reflexivity|]. constructor; [|exact Hn].
        cbn. exact (rotate_ok_edge _ _ _ _ _ _ _ _ Er).
  Qed.

  (** every rotation that is executed is about an edge anchor-target of the graph *)
  Theorem fix_rotates_only_about_edges : forall edges items closes tr pts pts' trace,
    check_and_fix_cis_trans rotf edges items closes tr pts = Ok (pts', trace) -> Forall (call_on_edge edges) trace.
  Proof.
    intros edges items closes tr pts pts' trace H. unfold check_and_fix_cis_trans in H.
    destruct (fix_items_trace edges items closes tr pts [] pts' trace H) as [new [-> Hn]]. exact Hn.
  Qed.

  (** ... and an item whose n2-n1 is NOT an edge makes the call fail (networkx raises), unless it is skipped *)
  Theorem fix_fails_off_edge : forall edges it r closes closes' ang comps tr pts,
    decide it closes = Ok (DRotate ang, closes') -> has_edge edges (ez2 it) (ez1 it) = false ->
    check_and_fix_cis_trans rotf edges (it :: r) closes (comps :: tr) pts = Err ELookup.
  Proof.
    intros edges it r closes closes' ang comps tr pts Hd He. unfold check_and_fix_cis_trans. cbn.
    rewrite Hd. cbn. unfold rotate_subgraph. rewrite He. reflexivity.
  Qed.

  Hypothesis rot_isometry : forall ang pts it o p q, dist (rotf ang pts it o p) (rotf ang pts it o q) = dist p q.
  Hypothesis rot_fixes_origin : forall ang pts it o, rotf ang pts it o o = o.

  Lemma fix_items_bonds edges items : forall closes tr pts trace pts' out,
    fix_items rotf edges items closes tr pts trace = Ok (pts', out) ->
    (forall new, out = rev trace ++ new -> Forall (call_contract edges) new) ->
    forall e, In e edges -> dist (pts' (fst e)) (pts' (snd e)) = dist (pts (fst e)) (pts (snd e)).
  Proof.
    induction items as [|it r IH]; cbn; intros closes tr pts trace pts' out H Hc e He.
    - inversion H; subst. reflexivity.
    - destruct (decide it closes) as [[d closes']|] eqn:Ed; cbn in H; [|discriminate]. destruct d as [|ang].
      + exact (IH _ _ _ _ _ _ H Hc e He).
      + destruct tr as [|comps tr']; [discriminate|].
        destruct (rotate_subgraph (rotf ang pts it) edges (ez2 it) (ez1 it) comps pts) as [[c pts1]|] eqn:Er; cbn in H; [|discriminate].
        destruct (fix_items_trace edges r closes' tr' pts1 ((ez2 it, ez1 it, ang, c) :: trace) pts' out H) as [new [Hout Hn]].
        cbn in Hout. rewrite <- app_assoc in Hout. cbn in Hout.
        pose proof (Hc _ Hout) as Hall. inversion Hall as [|x l Hx Hl]; subst x l. cbn in Hx.
        rewrite (IH _ _ _ _ _ _ H).
        * exact (rotate_preserves_bonds dist (rotf ang pts it) (rot_isometry ang pts it) (rot_fixes_origin ang pts it)
                   edges (ez2 it) (ez1 it) comps pts c pts1 Er Hx e He).
        * intros new' Hn'. cbn in Hn'. rewrite <- app_assoc in Hn'. cbn in Hn'. rewrite Hout in Hn'.
          apply app_inv_head in Hn'. inversion Hn'; subst. exact Hl.
        * exact He.
  Qed.

  (** every bond length survives the whole cis/trans correction *)
  Theorem fix_preserves_bonds : forall edges items closes tr pts pts' trace,
    check_and_fix_cis_trans rotf edges items closes tr pts = Ok (pts', trace) ->
    Forall (call_contract edges) trace ->
    forall e, In e edges -> dist (pts' (fst e)) (pts' (snd e)) = dist (pts (fst e)) (pts (snd e)).
  Proof.
    intros edges items closes tr pts pts' trace H Hc e He. unfold check_and_fix_cis_trans in H.
    apply (fix_items_bonds edges items closes tr pts [] pts' trace H); [|exact He].
    intros new Hn. cbn in Hn. subst new. exact Hc.
  Qed.
End CisTransProofs.

(** non-vacuity: F-C=C-F drawn on a line, a 'trans' item that is not close to 120 degrees: one rotation,
    about the edge 1-0, of the component {0} *)
Example fix_nonvacuous :
  let edges := [(0, 1); (1, 2); (2, 3)] in
  let it := {| ez1 := 0; ez2 := 1; ez3 := 2; ez4 := 3; ezty := EzTrans; lt14 := true |} in
  exists pts', check_and_fix_cis_trans (fun _ _ _ o p => 2 * o - p) edges [it] [false] [[[0]; [1; 2; 3]]] (fun k => 10 * k)
               = Ok (pts', [(1, 0, 120, [0])]) /\ pts' 0 = 20 /\ pts' 3 = 30 /\
               call_contract edges (1, 0, 120, [0]).
Proof. cbn. eexists. split; [reflexivity|]. repeat split. Qed.
