(** PySumProofs: over Q (exact arithmetic) CPython's compensated sum() is the plain sum, whatever the comparisons decide
    (the compensation term stays 0), so forward_map_molecule with it ([bead_py]) returns the bead of Geom/ForwardMap.v
    up to Qeq and inherits its translation theorem.  Axiom-free. *)
From Coq Require Import List ZArith Bool QArith Lia PrimFloat.
From CGV Require Import Base.PyBase Geom.Num Gen.GeomGen Geom.ForwardMap Geom.ForwardMapProofs Geom.PySum.
Import ListNotations.
Open Scope Q_scope.

Section OverQ.
  Variable c : cmpops Q.

  Fixpoint qsum (xs : list (Q * bool)) : Q := match xs with [] => 0 | (x, _) :: r => x + qsum r end.

  Lemma float_loop_Q : forall xs f comp, comp == 0 -> float_loop numQ c xs f comp == f + qsum xs.
  Proof.
    induction xs as [|[x i] r IH]; intros f comp Hc; cbn [float_loop qsum].
    - destruct (comp_usable c comp); cbn; rewrite ?Hc; ring.
    - destruct i.
      + rewrite IH by exact Hc. cbn. ring.
      + rewrite IH.
        * cbn. ring.
        * destruct (abs_ge c f x); cbn; rewrite Hc; ring.
  Qed.
  Lemma int_loop_Q : forall xs i, int_loop numQ c xs i == i + qsum xs.
  Proof.
    induction xs as [|[x b] r IH]; intros i; cbn [int_loop qsum].
    - ring.
    - destruct b.
      + rewrite IH. cbn. ring.
      + rewrite float_loop_Q by reflexivity. cbn. ring.
  Qed.
  Theorem py_sum_Q : forall xs, py_sum numQ c xs == qsum xs.
  Proof. intros xs. unfold py_sum. rewrite int_loop_Q. cbn. ring. Qed.

  Lemma qsum_strip (ws : list (Z * (Q * bool))) : qsum (map snd ws) == sum_weights numQ (strip ws).
  Proof.
    induction ws as [|[a [w i]] r IH]; [reflexivity|].
    cbn [map snd qsum strip fst]. change (strip ((a, (w, i)) :: r)) with ((a, w) :: strip r).
    rewrite sumw_cons, IH. reflexivity.
  Qed.
  (** the denominator of the bead: CPython's sum(weights.values()) = the model's sum of weights *)
  Theorem denom_py_Q : forall mode (ws : list (Z * (Q * bool))), denom_py numQ c mode ws == denom numQ mode (strip ws).
  Proof.
    intros [] ws; cbn [denom_py denom].
    - unfold strip. rewrite map_length. reflexivity.
    - rewrite py_sum_Q. apply qsum_strip.
  Qed.

  Definition beadT_py (mode : avg_mode) (pos : Z -> qvec) (ws : list (Z * (Q * bool))) : qvec :=
    match bead_py numQ c mode (okpos pos) ws with Ok b => b | Err _ => v3zero numQ end.

  Lemma beadT_py_veq mode pos ws : ~ denom numQ mode (strip ws) == 0 -> veq (beadT_py mode pos ws) (beadT mode pos (strip ws)).
  Proof.
    intros Hd. unfold beadT_py, beadT, bead_py, bead.
    destruct (accumulate_total pos (strip ws) (v3zero numQ)) as [s [Hs _]]. rewrite Hs. cbn [bind].
    destruct s as [[x y] z]. cbn. pose proof (denom_py_Q mode ws) as E.
    repeat split; rewrite E; reflexivity.
  Qed.

  (** translation equivariance of the bead computed with CPython's sum *)
  Theorem forward_map_py_translation : forall (ws : list (Z * (Q * bool))),
    ~ sum_weights numQ (strip ws) == 0 ->
    forall pos t, veq (beadT_py DivBySum (shift t pos) ws) (v3add numQ (beadT_py DivBySum pos ws) t).
  Proof.
    intros ws Hs pos t.
    pose proof (forward_map_translation_sum (strip ws) Hs pos t) as H.
    pose proof (beadT_py_veq DivBySum (shift t pos) ws Hs) as H1.
    pose proof (beadT_py_veq DivBySum pos ws Hs) as H2.
    destruct (beadT_py DivBySum (shift t pos) ws) as [[a1 a2] a3], (beadT DivBySum (shift t pos) (strip ws)) as [[b1 b2] b3],
             (beadT_py DivBySum pos ws) as [[c1 c2] c3], (beadT DivBySum pos (strip ws)) as [[d1 d2] d3], t as [[t1 t2] t3].
    cbn in *. destruct H as [Ha [Hb Hc0]], H1 as [H1a [H1b H1c]], H2 as [H2a [H2b H2c]].
    repeat split.
    - rewrite H1a, Ha, H2a. reflexivity.
    - rewrite H1b, Hb, H2b. reflexivity.
    - rewrite H1c, Hc0, H2c. reflexivity.
  Qed.
End OverQ.

(** non-vacuity, and the float instance differs from the plain fold: 0.1 + 0.2 + 0.3 *)
Example py_sum_nonvacuous :
  ~ sum_weights numQ (strip [(0%Z, (1#2, false)); (1%Z, (2, true))]) == 0 /\
  py_sum numF cmpF [(0x1.999999999999ap-4, false); (0x1.999999999999ap-3, false); (0x1.3333333333333p-2, false)]%float
  = 0x1.3333333333333p-1%float /\
  sum_weights numF [(0%Z, 0x1.999999999999ap-4); (1%Z, 0x1.999999999999ap-3); (2%Z, 0x1.3333333333333p-2)]%float
  = 0x1.3333333333334p-1%float.
Proof. split; [vm_compute; discriminate|]. split; vm_compute; reflexivity. Qed.
