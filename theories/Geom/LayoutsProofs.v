(** LayoutsProofs: vespr_refined_layout and circular_layout (Geom/Layouts.v), any carrier, axiom-free.
    - one position per node: the returned dict has exactly graph.nodes as keys, in that order (refined); exactly the
      first nodes of the find_cycle edges (circular), hence every node once when the cycle visits every node once;
    - the i-th node receives the i-th row; when the dict of vespr_layout is in graph.nodes order (its key order is a
      transcript) every node therefore receives ITS OWN optimised row;
    - relabelling the nodes by an injective map commutes with both write-backs;
    - circular_layout's alignment block, for EVERY value of the generated fact [circ_align]. *)
From Coq Require Import List ZArith Bool Lia Permutation QArith.
From CGV Require Import Base.PyBase Geom.Num Gen.GeomGen Geom.Scale Geom.Tail Geom.TailProofs Geom.Layouts.
Import ListNotations.

Lemma dset_keys_new {A} k (v : A) l : ~ In k (map fst l) -> map fst (dset k v l) = map fst l ++ [k].
Proof.
  induction l as [|[k' v'] r IH]; cbn; [reflexivity|]. intros H. destruct (Z.eqb k k') eqn:E.
  - apply Z.eqb_eq in E. subst. tauto.
  - cbn. rewrite IH by tauto. reflexivity.
Qed.
Lemma plookup_dset_same {A} (d : A) k v l : plookup d k (dset k v l) = v.
Proof.
  induction l as [|[k' v'] r IH]; cbn; [rewrite Z.eqb_refl; reflexivity|]. destruct (Z.eqb k k') eqn:E; cbn.
  - rewrite Z.eqb_refl. reflexivity.
  - rewrite E. exact IH.
Qed.
Lemma plookup_dset_other {A} (d : A) k k' v l : k <> k' -> plookup d k (dset k' v l) = plookup d k l.
Proof.
  intros H. induction l as [|[k2 v2] r IH]; cbn.
  - destruct (Z.eqb k k') eqn:E; [apply Z.eqb_eq in E; tauto|reflexivity].
  - destruct (Z.eqb k' k2) eqn:E; cbn.
    + apply Z.eqb_eq in E. subst k2. destruct (Z.eqb k k') eqn:E2; [apply Z.eqb_eq in E2; tauto|reflexivity].
    + destruct (Z.eqb k k2); [reflexivity|exact IH].
Qed.
Lemma dset_relabel {A} (f : Z -> Z) k (v : A) l : (forall a b, f a = f b -> a = b) ->
  dset (f k) v (map (fun kv => (f (fst kv), snd kv)) l) = map (fun kv => (f (fst kv), snd kv)) (dset k v l).
Proof.
  intros Hf. induction l as [|[k' v'] r IH]; cbn; [reflexivity|].
  destruct (Z.eqb k k') eqn:E.
  - apply Z.eqb_eq in E. subst. rewrite Z.eqb_refl. reflexivity.
  - destruct (Z.eqb (f k) (f k')) eqn:E2.
    + apply Z.eqb_eq in E2. apply Hf in E2. subst. rewrite Z.eqb_refl in E. discriminate.
    + cbn. rewrite IH. reflexivity.
Qed.

Section Generic.
  Context {M : Type} (o : numops M).
  Notation vec := (@vec2 M).

  Lemma write_rows_keys_gen (rows : list vec) : forall nodes i acc pos,
    NoDup (map fst acc ++ nodes) -> write_rows nodes i rows acc = Ok pos -> map fst pos = map fst acc ++ nodes.
  Proof.
    induction nodes as [|k r IH]; intros i acc pos Hn H; cbn in H.
    - inversion H. rewrite app_nil_r. reflexivity.
    - destruct (nth_error rows i) as [v|]; [|discriminate].
      assert (Hk : ~ In k (map fst acc)).
      { intros Hin. apply NoDup_remove_2 in Hn. apply Hn. apply in_or_app. left. exact Hin. }
      apply IH in H.
      + rewrite H, dset_keys_new by exact Hk. rewrite <- app_assoc. reflexivity.
      + rewrite dset_keys_new by exact Hk. rewrite <- app_assoc. exact Hn.
  Qed.

  Lemma write_rows_lookup_gen (rows : list vec) d : forall nodes i acc pos,
    NoDup (map fst acc ++ nodes) -> write_rows nodes i rows acc = Ok pos ->
    (forall k, In k (map fst acc) -> plookup d k pos = plookup d k acc) /\
    (forall j k, nth_error nodes j = Some k -> nth_error rows (i + j) = Some (plookup d k pos)).
  Proof.
    induction nodes as [|k r IH]; intros i acc pos Hn H; cbn in H.
    - inversion H. subst. split; [reflexivity|]. intros [|j] k0 Hj; discriminate.
    - destruct (nth_error rows i) as [v|] eqn:Ev; [|discriminate].
      assert (Hk : ~ In k (map fst acc)).
      { intros Hin. apply NoDup_remove_2 in Hn. apply Hn. apply in_or_app. left. exact Hin. }
      assert (Hn' : NoDup (map fst (dset k v acc) ++ r)).
      { rewrite dset_keys_new by exact Hk. rewrite <- app_assoc. exact Hn. }
      destruct (IH (Datatypes.S i) (dset k v acc) pos Hn' H) as [I1 I2]. split.
      + intros k0 Hk0. rewrite I1.
        * apply plookup_dset_other. intros ->. tauto.
        * rewrite dset_keys_new by exact Hk. apply in_or_app. left. exact Hk0.
      + intros [|j] k0 Hj; cbn in Hj.
        * inversion Hj. subst k0. rewrite Nat.add_0_r, Ev. f_equal. rewrite I1.
          -- symmetry. apply plookup_dset_same.
          -- rewrite dset_keys_new by exact Hk. apply in_or_app. right. left. reflexivity.
        * replace (i + Datatypes.S j)%nat with (Datatypes.S i + j)%nat by lia. apply I2. exact Hj.
  Qed.

  (** ---------- vespr_refined_layout *)
  Theorem refined_one_position_per_node : forall al nodes opt (pos : list (Z * vec)),
    NoDup nodes -> refined_layout o al nodes opt = Ok pos -> map fst pos = nodes.
  Proof.
    intros al nodes [rows|e] pos Hn H; cbn in H; [|discriminate].
    apply (write_rows_keys_gen _ nodes 0%nat [] pos Hn H).
  Qed.
  Theorem refined_ith_row : forall al nodes rows (pos : list (Z * vec)) d j k,
    NoDup nodes -> refined_layout o al nodes (Ok rows) = Ok pos -> nth_error nodes j = Some k ->
    nth_error (align_rows o al rows) j = Some (plookup d k pos).
  Proof.
    intros al nodes rows pos d j k Hn H Hj. cbn in H.
    destruct (write_rows_lookup_gen _ d nodes 0%nat [] pos Hn H) as [_ I2]. apply (I2 j k Hj).
  Qed.
  (** the optimiser's row i belongs to the i-th key of the dict vespr_layout returned ([vkeys]); when that dict is
      in graph.nodes order every node receives its own row *)
  Theorem refined_own_row : forall al nodes vkeys rows (pos : list (Z * vec)) d j k,
    vkeys = nodes -> NoDup nodes -> refined_layout o al nodes (Ok rows) = Ok pos -> nth_error vkeys j = Some k ->
    nth_error (align_rows o al rows) j = Some (plookup d k pos).
  Proof. intros al nodes vkeys rows pos d j k -> Hn H Hj. apply (refined_ith_row al nodes rows pos d j k Hn H Hj). Qed.

  Lemma write_rows_relabel (f : Z -> Z) (rows : list vec) : (forall a b, f a = f b -> a = b) ->
    forall nodes i acc,
      write_rows (map f nodes) i rows (relabel_pos f acc)
      = res_map (relabel_pos f) (write_rows nodes i rows acc).
  Proof.
    intros Hf. induction nodes as [|k r IH]; intros i acc; cbn; [reflexivity|].
    destruct (nth_error rows i) as [v|]; [|reflexivity].
    unfold relabel_pos at 1. rewrite dset_relabel by exact Hf. apply IH.
  Qed.
  Theorem refined_relabel : forall (f : Z -> Z) al nodes opt,
    (forall a b, f a = f b -> a = b) ->
    refined_layout o al (map f nodes) opt
    = res_map (relabel_pos f) (refined_layout o al nodes opt).
  Proof.
    intros f al nodes [rows|e] Hf; cbn; [|reflexivity].
    apply (write_rows_relabel f _ Hf nodes 0%nat []).
  Qed.

  (** ---------- circular_layout *)
  Lemma write_cycle_rows (coords : list vec) : forall c i acc,
    write_cycle c i coords acc = write_rows (map fst c) i coords acc.
  Proof.
    induction c as [|[k x] r IH]; intros i acc; cbn; [reflexivity|].
    destruct (nth_error coords i); [apply IH|reflexivity].
  Qed.

  Theorem circular_keys : forall mode al coords c (pos : list (Z * vec)),
    NoDup (map fst c) -> circular_layout_with o mode al coords (Ok c) = Ok pos -> map fst pos = map fst c.
  Proof.
    intros mode al coords c pos Hn H.
    assert (G : forall rows, write_cycle c 0 rows [] = Ok pos -> map fst pos = map fst c).
    { intros rows Hw. rewrite write_cycle_rows in Hw. apply (write_rows_keys_gen _ (map fst c) 0%nat [] pos Hn Hw). }
    unfold circular_layout_with in H. destruct mode, al; cbn in H; try discriminate; eapply G; exact H.
  Qed.
  (** a cycle that visits every node exactly once gives every node exactly one position *)
  Theorem circular_one_position_per_node : forall mode al coords c nodes (pos : list (Z * vec)),
    NoDup (map fst c) -> Permutation (map fst c) nodes ->
    circular_layout_with o mode al coords (Ok c) = Ok pos -> Permutation (map fst pos) nodes.
  Proof. intros mode al coords c nodes pos Hn Hp H. rewrite (circular_keys mode al coords c pos Hn H). exact Hp. Qed.
  Theorem circular_ith_coordinate : forall mode coords c (pos : list (Z * vec)) d j k,
    NoDup (map fst c) -> circular_layout_with o mode None coords (Ok c) = Ok pos ->
    nth_error (map fst c) j = Some k -> nth_error coords j = Some (plookup d k pos).
  Proof.
    intros mode coords c pos d j k Hn H Hj.
    assert (Hw : write_cycle c 0 coords [] = Ok pos) by (destruct mode; exact H).
    rewrite write_cycle_rows in Hw.
    destruct (write_rows_lookup_gen _ d (map fst c) 0%nat [] pos Hn Hw) as [_ I2]. apply (I2 j k Hj).
  Qed.
  Theorem circular_relabel : forall (f : Z -> Z) mode al coords c,
    (forall a b, f a = f b -> a = b) ->
    circular_layout_with o mode al coords (Ok (relabel_edges f c))
    = res_map (relabel_pos f) (circular_layout_with o mode al coords (Ok c)).
  Proof.
    intros f mode al coords c Hf.
    assert (G : forall rows : list vec, write_cycle (relabel_edges f c) 0 rows []
                             = res_map (relabel_pos f) (write_cycle c 0 rows [])).
    { intros rows. rewrite !write_cycle_rows. unfold relabel_edges. rewrite map_map. cbn [fst].
      rewrite <- (map_map fst f). apply (write_rows_relabel f _ Hf (map fst c) 0%nat []). }
    unfold circular_layout_with. destruct mode, al; cbn; try reflexivity; apply G.
  Qed.

  (** the alignment block of circular_layout, for every value of the generated fact *)
  Definition circ_status (mode : circ_align_mode) : Prop :=
    match mode with
    | CircAlignUnbound => forall cs coords cyc, circular_layout_with o mode (Some cs) coords cyc = Err EUnbound
    | CircAlignIgnored => forall cs coords cyc,
        circular_layout_with o mode (Some cs) coords cyc = circular_layout_with o mode None coords cyc
    | CircAlignApplied => forall cs coords cyc,
        circular_layout_with o mode (Some cs) coords cyc = circular_layout_with o mode None (map (rot_cs o cs) coords) cyc
    end.
  Theorem circ_status_all : forall mode, circ_status mode.
  Proof. intros []; cbn; intros; reflexivity. Qed.
  Theorem circular_align_status : circ_status circ_align.
  Proof. apply circ_status_all. Qed.
End Generic.

(** non-vacuity: a triangle 10-11-12 (find_cycle from 10), three coordinates *)
Example layouts_nonvacuous :
  let c := [(10, 11); (11, 12); (12, 10)]%Z in
  NoDup (map fst c) /\ Permutation (map fst c) [12; 10; 11]%Z /\
  circular_layout_with numQ CircAlignIgnored None [(1, 0); (0, 1); (1, 1)]%Q (Ok c)
  = Ok [(10%Z, (1, 0)%Q); (11%Z, (0, 1)%Q); (12%Z, (1, 1)%Q)] /\
  refined_layout numQ None [10; 11; 12]%Z (Ok [(1, 0); (0, 1); (1, 1)]%Q) = Ok [(10%Z, (1, 0)%Q); (11%Z, (0, 1)%Q); (12%Z, (1, 1)%Q)].
Proof.
  cbn zeta. split; [|split; [|split; reflexivity]].
  - cbn. repeat constructor; cbn; intuition discriminate.
  - cbn. apply Permutation_sym. apply (Permutation_cons_append [10; 11]%Z 12%Z).
Qed.
