(** IndexMap: the index plumbing of cgsmiles/rdkit.py (model; NO proofs).

    networkx_to_rdkit:   node_to_idx[node] = mol.AddAtom(atom)   for node in mol_graph.nodes
                         => node_to_idx = enumeration of the node list (RDKit atom i <-> i-th node)
    Chem.AddHs           appends atoms after the existing ones (transcript: the atom count [nrd])
    embed_3d_via_rdkit:  for ndx, atom in enumerate(rdkit_mol.GetAtoms()):
                             mol_graph.nodes[ndx]['position'] = position of atom.GetIdx()
    rdkit_to_networkx:   reads conf.GetAtomPosition(<name>) when the molecule has a conformer

    The write-back shape and the boundness of the name are GENERATED facts (Gen/GeomGen.v):
    [embed_writes] and [r2n_flow] are parametrised by them. *)
From Coq Require Import List ZArith Bool.
From CGV Require Import Base.PyBase Gen.GeomGen.
Import ListNotations.
Open Scope Z_scope.

(** node_to_idx of networkx_to_rdkit: the i-th node of the iteration order becomes RDKit atom i *)
Definition node_to_idx (nodes : list Z) : list (Z * nat) := combine nodes (seq 0 (length nodes)).

(** dict look-up (keys of a graph are unique; for a list with duplicates the LAST binding wins,
    like repeated assignment) *)
Fixpoint lookup_last (k : Z) (l : list (Z * nat)) : option nat :=
  match l with
  | [] => None
  | (k', v) :: r => match lookup_last k r with Some w => Some w | None => if Z.eqb k k' then Some v else None end
  end.
Definition own_atom (nodes : list Z) (k : Z) : option nat := lookup_last k (node_to_idx nodes).

Definition zmem (k : Z) (l : list Z) : bool := existsb (Z.eqb k) l.

(** the write-back loop.  [nrd] = number of atoms of the RDKit molecule after AddHs.
    Result: the list of writes (node key, RDKit atom index whose position is stored), in order;
    KeyError when [mol_graph.nodes[ndx]] does not exist. *)
Fixpoint writes_enum (nodes : list Z) (idxs : list nat) : res (list (Z * nat)) :=
  match idxs with
  | [] => Ok []
  | i :: r => if zmem (Z.of_nat i) nodes
              then (w <- writes_enum nodes r ;; Ok ((Z.of_nat i, i) :: w))
              else Err EKey
  end.
Definition embed_writes (mode : write_mode) (nodes : list Z) (nrd : nat) : res (list (Z * nat)) :=
  match mode with
  | WriteByEnumIndex => writes_enum nodes (seq 0 nrd)
  | WriteByNodeKey => Ok (combine nodes (seq 0 nrd))        (* zip stops at the shorter *)
  end.

(** observable after the call: for every node (iteration order) that carries a position,
    the RDKit atom whose position it carries *)
Definition final_map (nodes : list Z) (w : list (Z * nat)) : list (Z * nat) :=
  flat_map (fun k => match lookup_last k w with Some i => [(k, i)] | None => [] end) nodes.
Definition embed_model (mode : write_mode) (nodes : list Z) (nrd : nat) : res (list (Z * nat)) :=
  w <- embed_writes mode nodes nrd ;; Ok (final_map nodes w).

(** rdkit_to_networkx, control flow of the conformer branch: an unbound name is a NameError
    as soon as the branch is entered (for the first atom). [natoms = 0]: the loop body never runs. *)
Definition r2n_flow (arg_bound : bool) (has_conf : bool) (natoms : nat) : res unit :=
  if has_conf && negb arg_bound && negb (Nat.eqb natoms 0) then Err EName else Ok tt.
(** with a bound argument (atom.GetIdx()) node i receives the position of atom i *)
Definition r2n_positions (arg_bound : bool) (has_conf : bool) (natoms : nat) : res (list (Z * nat)) :=
  _ <- r2n_flow arg_bound has_conf natoms ;;
  Ok (if has_conf then map (fun i => (Z.of_nat i, i)) (seq 0 natoms) else []).

(** bond order (half units) accepted by networkx_to_rdkit: BOND_TYPE_MAP.get(order, 1) *)
Definition order_supported (o2 : Z) : bool := zmem o2 bond_type_map_keys2 || bond_type_default_is_member.
