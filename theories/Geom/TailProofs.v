(** TailProofs: the end of vespr_layout (Geom/Tail.v) over ANY carrier, axiom-free:
    - the returned dict has exactly the keys of the dict returned by check_and_fix_cis_trans, in the same order;
    - the dict and the position function agree on every key;
    - relabelling the nodes by an injective map commutes with the whole tail (no label is compared or computed with);
    - a list of steps with exactly one rescale splits into alignments, the rescale, alignments. *)
From Coq Require Import List ZArith Bool Lia.
From CGV Require Import Base.PyBase Geom.Num Gen.GeomGen Geom.Scale Geom.ScaleProofs Geom.Tail.
Import ListNotations.

Lemma plookup_in {A} (d d' : A) k (l : list (Z * A)) : In k (map fst l) -> plookup d k l = plookup d' k l.
Proof.
  induction l as [|[k' v] r IH]; cbn; [tauto|]. intros H. destruct (Z.eqb k k') eqn:E; [reflexivity|].
  apply IH. destruct H as [H|H]; [|exact H]. subst. rewrite Z.eqb_refl in E. discriminate.
Qed.
Lemma plookup_map {A} (g : A -> A) d k (l : list (Z * A)) :
  plookup (g d) k (map (fun kv => (fst kv, g (snd kv))) l) = g (plookup d k l).
Proof. induction l as [|[k' v] r IH]; cbn; [reflexivity|]. destruct (Z.eqb k k'); [reflexivity|exact IH]. Qed.
Lemma plookup_relabel {A} (f : Z -> Z) (d : A) k (l : list (Z * A)) :
  (forall a b, f a = f b -> a = b) -> plookup d (f k) (map (fun kv => (f (fst kv), snd kv)) l) = plookup d k l.
Proof.
  intros Hf. induction l as [|[k' v] r IH]; cbn; [reflexivity|].
  destruct (Z.eqb k k') eqn:E.
  - apply Z.eqb_eq in E. subst. rewrite Z.eqb_refl. reflexivity.
  - destruct (Z.eqb (f k) (f k')) eqn:E2; [|exact IH]. apply Z.eqb_eq in E2. apply Hf in E2. subst.
    rewrite Z.eqb_refl in E. discriminate.
Qed.

Section Generic.
  Context {M : Type} (o : numops M) (sqrt : M -> M).
  Notation vec := (@vec2 M).

  Lemma step_keys d al db edges (pos : list (Z * vec)) st : map fst (step o sqrt d al db edges pos st) = map fst pos.
  Proof.
    destruct st; cbn.
    - destruct al; cbn; [|reflexivity]. rewrite map_map. reflexivity.
    - apply one_position_per_node.
  Qed.
  (** one position per node: exactly the keys of the input dict, in the same order *)
  Theorem tail_keys : forall d al db edges steps (pos : list (Z * vec)),
    map fst (run_tail o sqrt d al db edges steps pos) = map fst pos.
  Proof.
    intros d al db edges steps. unfold run_tail. induction steps as [|st r IH]; intros pos; cbn; [reflexivity|].
    rewrite IH. apply step_keys.
  Qed.

  Definition keys_cover (edges : list (Z * Z)) (pos : list (Z * vec)) : Prop :=
    forall e, In e edges -> In (fst e) (map fst pos) /\ In (snd e) (map fst pos).

  Lemma lens_of_ext (pf pg : Z -> vec) edges :
    (forall e, In e edges -> pf (fst e) = pg (fst e) /\ pf (snd e) = pg (snd e)) ->
    lens_of o sqrt pf edges = lens_of o sqrt pg edges.
  Proof.
    intros H. unfold lens_of. apply map_ext_in. intros e He. destruct (H e He) as [H1 H2].
    unfold bond_len. rewrite H1, H2. reflexivity.
  Qed.

  Lemma step_fun d al db edges (pos : list (Z * vec)) (pf : Z -> vec) st :
    keys_cover edges pos -> (forall k, In k (map fst pos) -> plookup d k pos = pf k) ->
    forall d' k, In k (map fst pos) -> plookup d' k (step o sqrt d al db edges pos st) = stepf o sqrt al db edges pf st k.
  Proof.
    intros Hc Hf d' k Hk. destruct st; cbn.
    - destruct al as [cs|]; cbn.
      + rewrite <- (Hf k Hk).
        rewrite (plookup_in d' (rot_cs o cs d)) by (rewrite map_map; exact Hk). apply plookup_map.
      + rewrite <- (Hf k Hk). apply plookup_in. exact Hk.
    - unfold rescale.
      assert (El : lens_of o sqrt (fun k0 => plookup d k0 pos) edges = lens_of o sqrt pf edges).
      { apply lens_of_ext. intros e He. destruct (Hc e He). split; apply Hf; assumption. }
      rewrite El. set (lens := lens_of o sqrt pf edges).
      rewrite (plookup_in d' (v2scale o d (factor_of o db lens))) by (rewrite one_position_per_node; exact Hk).
      rewrite plookup_rescale. rewrite (Hf k Hk). reflexivity.
  Qed.

  (** the dict and the position function agree on every key, whatever default the look-up uses *)
  Theorem tail_dict_fun : forall d al db edges steps (pos : list (Z * vec)) d' k,
    keys_cover edges pos -> In k (map fst pos) ->
    plookup d' k (run_tail o sqrt d al db edges steps pos)
    = run_tailf o sqrt al db edges steps (fun k => plookup d k pos) k.
  Proof.
    intros d al db edges steps pos d' k Hc Hk.
    assert (G : forall steps pos (pf : Z -> vec), keys_cover edges pos ->
                (forall k, In k (map fst pos) -> plookup d k pos = pf k) ->
                forall d' k, In k (map fst pos) ->
                plookup d' k (run_tail o sqrt d al db edges steps pos) = run_tailf o sqrt al db edges steps pf k).
    { clear. induction steps as [|st r IH]; intros pos pf Hc Hf d' k Hk; cbn.
      - rewrite <- (Hf k Hk). apply plookup_in. exact Hk.
      - unfold run_tail, run_tailf in *. cbn. apply IH.
        + intros e He. rewrite step_keys. apply Hc. exact He.
        + intros k0 Hk0. rewrite step_keys in Hk0. apply step_fun; assumption.
        + rewrite step_keys. exact Hk. }
    apply G; [exact Hc| reflexivity | exact Hk].
  Qed.

  (** label independence of the whole tail *)
  Definition relabel_pos (f : Z -> Z) (pos : list (Z * vec)) := map (fun kv => (f (fst kv), snd kv)) pos.
  Definition relabel_edges (f : Z -> Z) (edges : list (Z * Z)) := map (fun e => (f (fst e), f (snd e))) edges.

  Lemma step_relabel f d al db edges (pos : list (Z * vec)) st :
    (forall a b, f a = f b -> a = b) ->
    step o sqrt d al db (relabel_edges f edges) (relabel_pos f pos) st = relabel_pos f (step o sqrt d al db edges pos st).
  Proof.
    intros Hf. destruct st; cbn.
    - destruct al; cbn; [|reflexivity]. unfold relabel_pos. rewrite !map_map. reflexivity.
    - unfold rescale. unfold relabel_pos at 2. rewrite rescale_relabel. f_equal. f_equal.
      apply (lens_relabel o sqrt f). intros k. apply plookup_relabel. exact Hf.
  Qed.
  Theorem tail_relabel : forall (f : Z -> Z) d al db edges steps (pos : list (Z * vec)),
    (forall a b, f a = f b -> a = b) ->
    run_tail o sqrt d al db (relabel_edges f edges) steps (relabel_pos f pos)
    = relabel_pos f (run_tail o sqrt d al db edges steps pos).
  Proof.
    intros f d al db edges steps pos Hf. revert pos. unfold run_tail.
    induction steps as [|st r IH]; intros pos; cbn; [reflexivity|]. rewrite step_relabel by exact Hf. apply IH.
  Qed.
End Generic.

(** exactly one rescale: alignments, the rescale, alignments *)
Lemma tail_ok_split steps : tail_ok steps = true ->
  exists pre post, steps = pre ++ TRescale :: post /\ Forall (eq TAlign) pre /\ Forall (eq TAlign) post.
Proof.
  unfold tail_ok. induction steps as [|st r IH]; cbn; [discriminate|]. destruct st; cbn.
  - intros H. destruct (IH H) as [pre [post [-> [H1 H2]]]]. exists (TAlign :: pre), post.
    split; [reflexivity|]. split; [constructor; [reflexivity|exact H1]|exact H2].
  - intros H. exists [], r. split; [reflexivity|]. split; [constructor|].
    apply Nat.eqb_eq in H.
    clear IH. induction r as [|x r IH]; [constructor|]. destruct x; cbn in H; [|discriminate].
    constructor; [reflexivity|apply IH; exact H].
Qed.

(** the generated tail has this shape (breaks when graph_layout.py gains a second rescale or loses the one it has) *)
Lemma gen_tail_ok : tail_ok gen_vespr_tail = true.
Proof. reflexivity. Qed.
