(** ScaleProofsR: mean bond length after the rescale step = default_bond (C19), over the reals.
    The mean of Euclidean lengths needs square roots, so this ONE theorem is stated over Coq's
    standard-library [R] and inherits its axioms (ClassicalDedekindReals.sig_forall_dec, sig_not_dec,
    functional_extensionality_dep).  Everything else about Scale is axiom-free (ScaleProofs.v, over Q). *)
From Coq Require Import List ZArith Bool Reals Lra Lia.
From CGV Require Import Base.PyBase Geom.Num Gen.GeomGen Geom.Scale Geom.ScaleProofs.
Import ListNotations.
Open Scope R_scope.

Definition numR : numops R :=
  {| nzero := 0; nadd := Rplus; nsub := Rminus; nmul := Rmult; ndiv := Rdiv; nofnat := INR |}.
Notation rv := (@vec2 R).

Lemma norm2_scale (v : rv) c : norm2 numR sqrt (v2scale numR v c) = Rabs c * norm2 numR sqrt v.
Proof.
  destruct v as [x y]. unfold norm2, v2scale. cbn.
  replace (x * c * (x * c) + y * c * (y * c)) with (Rsqr c * (x * x + y * y)) by (unfold Rsqr; ring).
  rewrite sqrt_mult; [|apply Rle_0_sqr|nra]. rewrite sqrt_Rsqr_abs. reflexivity.
Qed.

Lemma bond_len_scale (posf : Z -> rv) c e :
  bond_len numR sqrt (fun k => v2scale numR (posf k) c) e = Rabs c * bond_len numR sqrt posf e.
Proof.
  unfold bond_len. rewrite <- norm2_scale. f_equal. unfold v2sub, v2scale. cbn. f_equal; ring.
Qed.

Lemma sum_list_spec (l : list R) : forall s, sum_list numR l s = s + sum_list numR l 0.
Proof.
  induction l as [|x r IH]; intros s; cbn; [ring|]. rewrite IH. rewrite (IH (0 + x)). ring.
Qed.
Lemma sum_list_scale k (l : list R) : sum_list numR (map (Rmult k) l) 0 = k * sum_list numR l 0.
Proof.
  induction l as [|x r IH]; cbn; [ring|]. rewrite sum_list_spec, IH. rewrite (sum_list_spec r (0 + x)). ring.
Qed.
Lemma sum_list_nonneg (l : list R) : (forall x, In x l -> 0 <= x) -> 0 <= sum_list numR l 0.
Proof.
  induction l as [|x r IH]; intros H; cbn; [lra|]. rewrite sum_list_spec.
  assert (0 <= x) by (apply H; left; reflexivity).
  assert (0 <= sum_list numR r 0) by (apply IH; intros y Hy; apply H; right; exact Hy). lra.
Qed.

Lemma norm2_nonneg (v : rv) : 0 <= norm2 numR sqrt v.
Proof. unfold norm2. apply sqrt_pos. Qed.

(** the GENERATED expressions, over R *)
Lemma gen_avg_final_R a n : gen_avg_final numR a n = a / n. Proof. reflexivity. Qed.
Lemma gen_scale_factor_R d a : gen_scale_factor numR d a = d / a. Proof. reflexivity. Qed.

Lemma mean_nonneg posf edges : 0 <= mean_bond numR sqrt posf edges.
Proof.
  unfold mean_bond, avg_of. rewrite gen_avg_final_R. unfold lens_of. rewrite map_length.
  destruct edges as [|e r].
  - cbn. unfold Rdiv. rewrite Rmult_0_l. lra.
  - apply Rmult_le_pos.
    + apply sum_list_nonneg. intros x Hx. apply in_map_iff in Hx. destruct Hx as [e' [<- _]]. apply norm2_nonneg.
    + left. apply Rinv_0_lt_compat. apply lt_0_INR. cbn. lia.
Qed.

(** mean bond length of the scaled layout *)
Lemma mean_bond_scale posf edges c :
  mean_bond numR sqrt (fun k => v2scale numR (posf k) c) edges = Rabs c * mean_bond numR sqrt posf edges.
Proof.
  unfold mean_bond, avg_of, lens_of. rewrite !gen_avg_final_R, !map_length.
  rewrite (map_ext _ (fun e => Rabs c * bond_len numR sqrt posf e)) by (intros; apply bond_len_scale).
  rewrite <- (map_map (bond_len numR sqrt posf) (Rmult (Rabs c))). rewrite sum_list_scale.
  unfold gen_avg_final. cbn [ndiv nzero nofnat numR]. unfold Rdiv. ring.
Qed.

Theorem rescale_mean : forall default_bond edges (posf : Z -> rv),
  mean_bond numR sqrt posf edges <> 0 ->
  mean_bond numR sqrt (fun k => v2scale numR (posf k) (factor_of numR default_bond (lens_of numR sqrt posf edges))) edges
  = Rabs default_bond.
Proof.
  intros db edges posf Hm. rewrite mean_bond_scale. unfold factor_of. rewrite gen_scale_factor_R.
  fold (mean_bond numR sqrt posf edges). set (m := mean_bond numR sqrt posf edges) in *.
  assert (0 < m) by (pose proof (mean_nonneg posf edges); fold m in H; lra).
  unfold Rdiv. rewrite Rabs_mult, Rabs_Rinv by lra. rewrite (Rabs_pos_eq m) by lra. field. lra.
Qed.

Corollary rescale_mean_pos : forall default_bond edges (posf : Z -> rv),
  0 <= default_bond -> mean_bond numR sqrt posf edges <> 0 ->
  mean_bond numR sqrt (fun k => v2scale numR (posf k) (factor_of numR default_bond (lens_of numR sqrt posf edges))) edges
  = default_bond.
Proof. intros. rewrite rescale_mean by assumption. apply Rabs_pos_eq. assumption. Qed.

(** the same statement for the dict that [rescale] returns (association list + look-up) *)
Theorem rescale_mean_dict : forall default_bond edges (pos : list (Z * rv)) d,
  let posf := fun k => plookup d k pos in
  let c := factor_of numR default_bond (lens_of numR sqrt posf edges) in
  0 <= default_bond -> mean_bond numR sqrt posf edges <> 0 ->
  mean_bond numR sqrt (fun k => plookup (v2scale numR d c) k (rescale numR sqrt default_bond edges posf pos)) edges
  = default_bond.
Proof.
  intros db edges pos d posf c Hd Hm.
  etransitivity; [|apply (rescale_mean_pos db edges posf Hd Hm)].
  unfold rescale, mean_bond, lens_of. f_equal. apply map_ext. intros e.
  unfold bond_len. subst c. cbv beta. unfold lens_of. rewrite !plookup_rescale. reflexivity.
Qed.

(** pre-scale mean is non-zero as soon as one bonded pair does not coincide *)
Lemma mean_nonzero posf edges e : In e edges -> bond_len numR sqrt posf e <> 0 -> mean_bond numR sqrt posf edges <> 0.
Proof.
  intros Hin Hne.
  assert (Hpos : 0 < bond_len numR sqrt posf e).
  { pose proof (norm2_nonneg (v2sub numR (posf (fst e)) (posf (snd e)))) as Hnn. fold (bond_len numR sqrt posf e) in Hnn.
    apply Rdichotomy in Hne. destruct Hne; lra. }
  clear Hne. unfold mean_bond, avg_of, lens_of. rewrite gen_avg_final_R, map_length.
  assert (Hn : 0 < INR (length edges)) by (apply lt_0_INR; destruct edges; [destruct Hin|cbn; lia]).
  assert (Hs : 0 < sum_list numR (map (bond_len numR sqrt posf) edges) 0).
  { clear Hn. induction edges as [|x r IH]; [destruct Hin|]. cbn. rewrite sum_list_spec.
    assert (0 <= bond_len numR sqrt posf x) by apply norm2_nonneg.
    assert (0 <= sum_list numR (map (bond_len numR sqrt posf) r) 0).
    { apply sum_list_nonneg. intros y Hy. apply in_map_iff in Hy. destruct Hy as [e' [<- _]]. apply norm2_nonneg. }
    destruct Hin as [->|Hin].
    - lra.
    - specialize (IH Hin). lra. }
  intros H. cbn [nzero nofnat numR] in H. apply Rmult_integral in H. destruct H as [H|H]; [lra|].
  pose proof (Rinv_0_lt_compat _ Hn). lra.
Qed.
