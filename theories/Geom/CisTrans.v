(** CisTrans: graph_layout_utils.check_and_fix_cis_trans (model; NO proofs).

      cis_trans = nx.get_node_attributes(graph, 'ez_isomer')
      for cis_trans_item in cis_trans.values():
          for n1, n2, n3, n4, _type in cis_trans_item:
              angle_init = _angle(n1, n2, n3, points) ; angle_compl = _angle(n4, n3, n2, points)
              if _type == 'trans' and np.isclose(angle_init, 120, atol=10): continue
              if _type == 'cis' and n1 < n4 and np.isclose(angle_init, 120, atol=10): continue
              if _type == 'trans': angle = 120
              elif n1 < n4:        angle = 120
              else:                angle = 240
              rotate_subgraph(graph, anchor=n2, reference=n3, target=n1, points=points, angle=angle)
      return points

    Third party, entering as TRANSCRIPTS consumed in call order: the results of np.isclose ([closes]; `and`
    short-circuits, so a call happens only for a 'trans' item, or a 'cis' item with n1 < n4) and the
    nx.connected_components results of the rotate_subgraph calls ([comps_tr]).  [lt14] = Python's `n1 < n4` on the
    labels (input data: labels may be strings).  The rotation of a call is abstract ([rotf angle points item]). *)
From Coq Require Import List ZArith Bool.
From CGV Require Import Base.PyBase Geom.IndexMap Geom.Rotate.
Import ListNotations.
Open Scope Z_scope.

Inductive eztype := EzTrans | EzCis | EzOther.
Record ezitem := { ez1 : Z; ez2 : Z; ez3 : Z; ez4 : Z; ezty : eztype; lt14 : bool }.

(** what one loop iteration decides: skip, or rotate by 120 / 240 (consuming at most one isclose result) *)
Inductive decision := DSkip | DRotate (angle : Z).
Definition decide (it : ezitem) (closes : list bool) : res (decision * list bool) :=
  match ezty it with
  | EzTrans => match closes with [] => Err EOutOfFuel | c :: r => Ok (if c then DSkip else DRotate 120, r) end
  | EzCis => if lt14 it
             then match closes with [] => Err EOutOfFuel | c :: r => Ok (if c then DSkip else DRotate 120, r) end
             else Ok (DRotate 240, closes)
  | EzOther => Ok (DRotate (if lt14 it then 120 else 240), closes)
  end.

(** one executed rotate_subgraph call: anchor, target, angle, the component that was rotated *)
Definition call := (Z * Z * Z * list Z)%type.

Section CisTrans.
  Context {P : Type} (rotf : Z -> (Z -> P) -> ezitem -> P -> P -> P).

  Fixpoint fix_items (edges : list (Z * Z)) (items : list ezitem) (closes : list bool) (comps_tr : list (list (list Z)))
           (pts : Z -> P) (trace : list call) : res ((Z -> P) * list call) :=
    match items with
    | [] => Ok (pts, rev trace)
    | it :: r =>
        '(d, closes') <- decide it closes ;;
        match d with
        | DSkip => fix_items edges r closes' comps_tr pts trace
        | DRotate ang =>
            match comps_tr with
            | [] => Err EOutOfFuel
            | comps :: tr' =>
                '(c, pts') <- rotate_subgraph (rotf ang pts it) edges (ez2 it) (ez1 it) comps pts ;;
                fix_items edges r closes' tr' pts' ((ez2 it, ez1 it, ang, c) :: trace)
            end
        end
    end.

  Definition check_and_fix_cis_trans (edges : list (Z * Z)) (items : list ezitem) (closes : list bool)
             (comps_tr : list (list (list Z))) (pts : Z -> P) : res ((Z -> P) * list call) :=
    fix_items edges items closes comps_tr pts [].
End CisTrans.
