(** TailProofsR: what vespr_layout RETURNS has mean bond length default_bond (C19), over the reals.
    The alignment (rotation about the origin [0, 0] by the matrix of linalg_functions.rotate, GENERATED as
    [gen_rot_xy]) preserves every bond length when c*c + s*s = 1; the rescale multiplies every bond length by
    default_bond / mean; for ANY list of steps with exactly one rescale (in particular the generated one) the returned
    positions therefore have every bond length = default_bond / mean * (length before the tail), hence
    mean = default_bond and bonded nodes that did not coincide do not coincide.
    Axioms: the standard-library reals, as Geom/ScaleProofsR.v. *)
From Coq Require Import List ZArith Bool Reals Lra Lia.
From CGV Require Import Base.PyBase Geom.Num Gen.GeomGen Geom.Scale Geom.ScaleProofs Geom.ScaleProofsR
     Geom.Tail Geom.TailProofs.
Import ListNotations.
Open Scope R_scope.

(** contract of the cos/sin transcript *)
Definition al_ok (al : option (R * R)) : Prop :=
  match al with None => True | Some (c, s) => c * c + s * s = 1 end.

Lemma rot_norm c s (a b : rv) : c * c + s * s = 1 ->
  norm2 numR sqrt (v2sub numR (rot_cs numR (c, s) a) (rot_cs numR (c, s) b)) = norm2 numR sqrt (v2sub numR a b).
Proof.
  intros H. destruct a as [ax ay], b as [bx by_]. unfold norm2, v2sub, rot_cs, gen_rot_xy. cbn.
  f_equal.
  replace ((ax * c + ay * (0 - s) - (bx * c + by_ * (0 - s))) * (ax * c + ay * (0 - s) - (bx * c + by_ * (0 - s)))
           + (ax * s + ay * c - (bx * s + by_ * c)) * (ax * s + ay * c - (bx * s + by_ * c)))
    with ((c * c + s * s) * ((ax - bx) * (ax - bx) + (ay - by_) * (ay - by_))) by ring.
  rewrite H. ring.
Qed.

Lemma align_bond_len al (pf : Z -> rv) db edges e : al_ok al ->
  bond_len numR sqrt (stepf numR sqrt al db edges pf TAlign) e = bond_len numR sqrt pf e.
Proof.
  intros H. unfold stepf. destruct al as [[c s]|]; [|reflexivity]. unfold bond_len. apply rot_norm. exact H.
Qed.

Lemma aligns_bond_len al db edges steps : al_ok al -> Forall (eq TAlign) steps ->
  forall (pf : Z -> rv) e, bond_len numR sqrt (run_tailf numR sqrt al db edges steps pf) e = bond_len numR sqrt pf e.
Proof.
  intros Ha Hs. unfold run_tailf. induction Hs as [|st r <- _ IH]; intros pf e; cbn [fold_left]; [reflexivity|].
  rewrite IH. apply align_bond_len. exact Ha.
Qed.
Lemma aligns_lens al db edges steps (pf : Z -> rv) edges' : al_ok al -> Forall (eq TAlign) steps ->
  lens_of numR sqrt (run_tailf numR sqrt al db edges steps pf) edges' = lens_of numR sqrt pf edges'.
Proof. intros Ha Hs. unfold lens_of. apply map_ext. intros e. apply aligns_bond_len; assumption. Qed.

Lemma run_tailf_app al db edges a b (pf : Z -> rv) :
  run_tailf numR sqrt al db edges (a ++ b) pf = run_tailf numR sqrt al db edges b (run_tailf numR sqrt al db edges a pf).
Proof. unfold run_tailf. apply fold_left_app. Qed.

(** EVERY bond length of the returned positions: default_bond / (mean before the tail) times the length before *)
Theorem tail_bond_len : forall al db edges steps (pf : Z -> rv) e,
  tail_ok steps = true -> al_ok al -> 0 <= db -> mean_bond numR sqrt pf edges <> 0 ->
  bond_len numR sqrt (run_tailf numR sqrt al db edges steps pf) e
  = db / mean_bond numR sqrt pf edges * bond_len numR sqrt pf e.
Proof.
  intros al db edges steps pf e Hok Ha Hd Hm.
  destruct (tail_ok_split steps Hok) as [pre [post [-> [Hpre Hpost]]]].
  rewrite run_tailf_app. change (TRescale :: post) with ([TRescale] ++ post). rewrite run_tailf_app.
  rewrite aligns_bond_len by assumption.
  set (pf1 := run_tailf numR sqrt al db edges pre pf).
  unfold run_tailf at 1. cbn [fold_left stepf]. rewrite bond_len_scale.
  unfold pf1 at 2. rewrite aligns_bond_len by assumption.
  unfold factor_of. rewrite gen_scale_factor_R. unfold pf1. rewrite aligns_lens by assumption.
  fold (mean_bond numR sqrt pf edges). f_equal.
  pose proof (mean_nonneg pf edges). apply Rabs_pos_eq. apply Rmult_le_pos; [exact Hd|].
  left. apply Rinv_0_lt_compat. lra.
Qed.

(** the mean bond length of the returned positions is default_bond *)
Theorem tail_mean : forall al db edges steps (pf : Z -> rv),
  tail_ok steps = true -> al_ok al -> 0 <= db -> mean_bond numR sqrt pf edges <> 0 ->
  mean_bond numR sqrt (run_tailf numR sqrt al db edges steps pf) edges = db.
Proof.
  intros al db edges steps pf Hok Ha Hd Hm.
  set (m := mean_bond numR sqrt pf edges) in *.
  assert (E : lens_of numR sqrt (run_tailf numR sqrt al db edges steps pf) edges
              = map (Rmult (db / m)) (lens_of numR sqrt pf edges)).
  { unfold lens_of. rewrite map_map. apply map_ext. intros e. apply tail_bond_len; assumption. }
  unfold mean_bond, avg_of. rewrite E. rewrite gen_avg_final_R, map_length, sum_list_scale.
  unfold m, mean_bond, avg_of. unfold gen_avg_final. cbn [ndiv nzero nofnat numR].
  set (s := sum_list numR (lens_of numR sqrt pf edges) 0). set (n := INR (length (lens_of numR sqrt pf edges))).
  assert (Hsn : s / n <> 0) by exact Hm. clearbody s n.
  assert (n <> 0). { intros Hn. apply Hsn. rewrite Hn. unfold Rdiv. rewrite Rinv_0. ring. }
  assert (s <> 0). { intros Hs0. apply Hsn. rewrite Hs0. unfold Rdiv. ring. }
  field. split; assumption.
Qed.

(** bonded nodes that did not coincide before the tail do not coincide in the returned positions (default_bond > 0) *)
Theorem tail_preserves_distinct : forall al db edges steps (pf : Z -> rv) e,
  tail_ok steps = true -> al_ok al -> 0 < db -> mean_bond numR sqrt pf edges <> 0 ->
  bond_len numR sqrt pf e <> 0 -> bond_len numR sqrt (run_tailf numR sqrt al db edges steps pf) e <> 0.
Proof.
  intros al db edges steps pf e Hok Ha Hd Hm He. rewrite tail_bond_len by (try assumption; lra).
  pose proof (mean_nonneg pf edges). apply Rmult_integral_contrapositive. split; [|exact He].
  unfold Rdiv. apply Rmult_integral_contrapositive. split; [apply Rgt_not_eq; exact Hd|]. apply Rinv_neq_0_compat. exact Hm.
Qed.
Lemma bond_len_zero_iff (pf : Z -> rv) e : bond_len numR sqrt pf e = 0 <-> pf (fst e) = pf (snd e).
Proof.
  unfold bond_len, norm2, v2sub. destruct (pf (fst e)) as [a b], (pf (snd e)) as [c d]. cbn. split.
  - intros H. pose proof (Rle_0_sqr (a - c)) as S1. pose proof (Rle_0_sqr (b - d)) as S2. unfold Rsqr in S1, S2.
    apply sqrt_eq_0 in H; [|lra].
    assert (E1 : (a - c) * (a - c) = 0) by lra. assert (E2 : (b - d) * (b - d) = 0) by lra.
    apply Rsqr_0_uniq in E1. apply Rsqr_0_uniq in E2. f_equal; lra.
  - intros H. injection H as -> ->. replace ((c - c) * (c - c) + (d - d) * (d - d)) with 0 by ring. apply sqrt_0.
Qed.

(** ---------- the GENERATED tail, on the dict that vespr_layout returns *)
Theorem vespr_returned_mean : forall d al db edges (pos : list (Z * rv)) d',
  keys_cover edges pos -> al_ok al -> 0 <= db -> mean_bond numR sqrt (fun k => plookup d k pos) edges <> 0 ->
  mean_bond numR sqrt (fun k => plookup d' k (vespr_tail numR sqrt d al db edges pos)) edges = db.
Proof.
  intros d al db edges pos d' Hc Ha Hd Hm.
  etransitivity; [|exact (tail_mean al db edges gen_vespr_tail (fun k => plookup d k pos) gen_tail_ok Ha Hd Hm)].
  unfold mean_bond. f_equal. apply lens_of_ext. intros e He. destruct (Hc e He) as [H1 H2].
  unfold vespr_tail. split; apply tail_dict_fun; assumption.
Qed.
Theorem vespr_returned_distinct : forall d al db edges (pos : list (Z * rv)) d' e,
  keys_cover edges pos -> al_ok al -> 0 < db -> In e edges ->
  plookup d (fst e) pos <> plookup d (snd e) pos ->
  plookup d' (fst e) (vespr_tail numR sqrt d al db edges pos) <> plookup d' (snd e) (vespr_tail numR sqrt d al db edges pos).
Proof.
  intros d al db edges pos d' e Hc Ha Hd He Hne.
  set (pf := fun k => plookup d k pos).
  assert (Hb : bond_len numR sqrt pf e <> 0) by (intros H; apply Hne; apply (bond_len_zero_iff pf e); exact H).
  assert (Hm : mean_bond numR sqrt pf edges <> 0) by (apply (mean_nonzero pf edges e); assumption).
  pose proof (tail_preserves_distinct al db edges gen_vespr_tail pf e gen_tail_ok Ha Hd Hm Hb) as H.
  intros Heq. apply H. destruct (Hc e He) as [H1 H2].
  apply (bond_len_zero_iff (run_tailf numR sqrt al db edges gen_vespr_tail pf) e).
  unfold vespr_tail in Heq. rewrite !(tail_dict_fun numR sqrt d al db edges gen_vespr_tail pos d') in Heq by assumption.
  exact Heq.
Qed.
Theorem vespr_returned_keys : forall {M} (o : numops M) sq d al db edges (pos : list (Z * @vec2 M)),
  map fst (vespr_tail o sq d al db edges pos) = map fst pos.
Proof. intros. apply tail_keys. Qed.

(** non-vacuity: two nodes, align by a quarter turn (c = 0, s = 1), requested bond 2 *)
Example tail_nonvacuous :
  let pos := [(0%Z, (0, 0)); (1%Z, (3, 4))] in
  keys_cover [(0, 1)%Z] pos /\ al_ok (Some (0, 1)) /\ 0 < 2 /\
  mean_bond numR sqrt (fun k => plookup (0, 0) k pos) [(0, 1)%Z] <> 0 /\
  plookup (0, 0) 0%Z pos <> plookup (0, 0) 1%Z pos /\ tail_ok [TAlign; TRescale; TAlign] = true.
Proof.
  cbn zeta. split; [|split; [|split; [|split; [|split]]]].
  - intros e [<-|[]]. cbn. tauto.
  - cbn. ring.
  - lra.
  - apply (mean_nonzero _ _ (0, 1)%Z); [left; reflexivity|]. unfold bond_len, norm2. cbn.
    apply Rgt_not_eq. apply sqrt_lt_R0. replace ((0 - 3) * (0 - 3) + (0 - 4) * (0 - 4)) with 25 by ring. lra.
  - cbn. intros H. injection H as H1 H2. lra.
  - reflexivity.
Qed.
