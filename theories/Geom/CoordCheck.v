(** CoordCheck: executable oracle of property C18 ([prop_fail], evaluated on what the
    IMPLEMENTATION returned) and correspondence of the Geom models with it ([corr_ok]).
    Imports only models and definitions (never a proof file). *)
From Coq Require Import List ZArith Bool PrimFloat.
From CGV Require Import Base.PyBase Geom.Num Gen.GeomGen Geom.IndexMap Geom.ForwardMap Geom.PySum Geom.CoordDefs.
Import ListNotations.
Open Scope Z_scope.

(** ---------- float helpers (binary64) *)
Definition fnan (x : float) : bool := negb (PrimFloat.eqb x x).
(** bit-for-bit up to the sign of zero and the NaN payload *)
Definition feqb (a b : float) : bool := PrimFloat.eqb a b || (fnan a && fnan b).
Definition fabs (x : float) : float := PrimFloat.abs x.
Definition ffinite (x : float) : bool := PrimFloat.ltb (fabs x) infinity.
Definition fvec3 := (float * float * float)%type.
Definition v3eqb (a b : fvec3) : bool :=
  let '(a1, a2, a3) := a in let '(b1, b2, b3) := b in feqb a1 b1 && feqb a2 b2 && feqb a3 b3.
(** |a-b| <= 1e-9 * (1 + |a| + |b|), false on NaN *)
Definition fclose (a b : float) : bool :=
  PrimFloat.leb (fabs (a - b)) (0x1.12e0be826d695p-30 * (1 + fabs a + fabs b))%float.
Definition v3close (a b : fvec3) : bool :=
  let '(a1, a2, a3) := a in let '(b1, b2, b3) := b in fclose a1 b1 && fclose a2 b2 && fclose a3 b3.
Definition dist3sq (a b : fvec3) : float :=
  let '(a1, a2, a3) := a in let '(b1, b2, b3) := b in
  ((a1 - b1) * (a1 - b1) + (a2 - b2) * (a2 - b2) + (a3 - b3) * (a3 - b3))%float.

Fixpoint map_eqb (a b : list (Z * nat)) : bool :=
  match a, b with
  | [], [] => true
  | (k, i) :: a', (l, j) :: b' => Z.eqb k l && Nat.eqb i j && map_eqb a' b'
  | _, _ => false
  end.
Fixpoint beads_eqb (a b : list (Z * fvec3)) : bool :=
  match a, b with
  | [], [] => true
  | (k, p) :: a', (l, q) :: b' => Z.eqb k l && v3eqb p q && beads_eqb a' b'
  | _, _ => false
  end.

(** |a-b| <= 1e-12 * (1 + |a| + |b|) *)
Definition ftight (a b : float) : bool :=
  PrimFloat.leb (fabs (a - b)) (0x1.19799812dea11p-40 * (1 + fabs a + fabs b))%float.
Definition v3tight (a b : fvec3) : bool :=
  let '(a1, a2, a3) := a in let '(b1, b2, b3) := b in ftight a1 b1 && ftight a2 b2 && ftight a3 b3.
Fixpoint beads_tight (a b : list (Z * fvec3)) : bool :=
  match a, b with
  | [], [] => true
  | (k, p) :: a', (l, q) :: b' => Z.eqb k l && v3tight p q && beads_tight a' b'
  | _, _ => false
  end.
(** numpy's element-wise operations are reproduced bit for bit; the denominator sum(weights.values()) is CPython's
    builtin sum() (ints exactly, floats Neumaier-compensated: Geom/PySum.v), so both shapes are compared bit for bit *)
Definition beads_agree (a b : list (Z * fvec3)) : bool := beads_eqb a b.

(** ---------- cases.  Exception codes: 0 none, 1 the exception the model can predict
    (KeyError for CEmbed/CFwd, NameError for CRound), 2 any other exception. *)
Definition atomobs := (pystr * Z * Z)%type.      (* element, formal charge, total H count *)
Inductive case :=
| CEmbed (nodes : list Z)                (* node list seen by networkx_to_rdkit (iteration order) *)
         (nrd : nat)                     (* atoms of the RDKit molecule after AddHs (transcript) *)
         (canon : list nat)              (* atom i -> the FIRST atom with exactly the same coordinates (RDKit embeds
                                            disconnected fragments independently: identical fragments, single atoms
                                            may coincide, so atoms are identified up to equal coordinates) *)
         (exc : nat)
         (obs : list (Z * nat))          (* node -> first RDKit atom whose position it carries *)
         (bonds : list (Z * Z * bool))   (* edges of order > 0; flag: one end is a hydrogen *)
         (pos : list (Z * fvec3))        (* positions stored on the nodes *)
| CRound (has_conf : bool) (nodes : list Z)
         (exc : nat)
         (orig_atoms : list (Z * atomobs)) (orig_edges : list (Z * Z * Z))     (* keys = node keys; order in half units *)
         (out_atoms : list (Z * atomobs)) (out_edges : list (Z * Z * Z))       (* keys = RDKit indices *)
         (canon : list nat)              (* as in CEmbed *)
         (out_pos : list (Z * nat))      (* output node -> first RDKit atom whose conformer position it carries *)
| CFwd (beads : list (Z * list (Z * float)))   (* coarse node -> weights dict of its `graph` *)
       (ints : list (list bool))               (* per bead, per weight: is the Python value an int (CPython's sum()) *)
       (pos : list (Z * fvec3))                (* atom positions *)
       (t : fvec3)                             (* translation *)
       (exc : nat)
       (out out_t : list (Z * fvec3))          (* beads from pos / from pos + t *)
       (own : Z) (out_p : list (Z * fvec3))    (* beads after moving every atom outside bead [own] *)
| CSkip.                                       (* input not judged (third-party failure before the code under test) *)

(** atoms up to equal coordinates *)
Definition cn (canon : list nat) (i : nat) : nat := nth i canon i.
Definition cmap (canon : list nat) (m : list (Z * nat)) : list (Z * nat) := map (fun ki => (fst ki, cn canon (snd ki))) m.
(** every node carries the coordinates of its own atom *)
Definition own_ok (canon : list nat) (nodes : list Z) (obs : list (Z * nat)) : bool :=
  forallb (fun k => match lookup_last k obs, own_atom nodes k with
                    | Some j, Some i => Nat.eqb j (cn canon i) | _, _ => false end) nodes.

(** ---------- correspondence *)
Definition translate (t : fvec3) (pos : list (Z * fvec3)) : list (Z * fvec3) :=
  map (fun kp => (fst kp, v3add numF (snd kp) t)) pos.
Definition fwd_model (beads : list (Z * list (Z * float))) (ints : list (list bool)) (pos : list (Z * fvec3))
  : res (list (Z * fvec3)) :=
  forward_map_py numF cmpF fm_avg_mode (fun k => alookup k pos) (tag_beads beads ints).

Definition corr_ok (c : case) : bool :=
  match c with
  | CEmbed nodes nrd canon exc obs _ _ =>
      match embed_model embed_write_mode nodes nrd with
      | Ok m => Nat.eqb exc 0 && map_eqb (cmap canon m) obs
      | Err EKey => Nat.eqb exc 1
      | Err _ => false
      end
  | CRound has_conf nodes exc _ _ out_atoms _ canon out_pos =>
      match r2n_positions r2n_pos_arg_bound has_conf (length nodes) with
      | Ok m => Nat.eqb exc 0 && map_eqb (cmap canon m) out_pos
      | Err EName => Nat.eqb exc 1
      | Err _ => false
      end
  | CFwd beads ints pos t exc out out_t _ _ =>
      match fwd_model beads ints pos, fwd_model beads ints (translate t pos) with
      | Ok m, Ok mt => Nat.eqb exc 0 && beads_agree m out && beads_agree mt out_t
      | Err EKey, _ | _, Err EKey => Nat.eqb exc 1
      | _, _ => false
      end
  | CSkip => true
  end.

(** ---------- the property's clauses on the implementation's output *)
Definition bond_ok (pos : list (Z * fvec3)) (b : Z * Z * bool) : bool :=
  let '(u, v, h) := b in
  match alookup u pos, alookup v pos with
  | Ok p, Ok q =>
      let d2 := dist3sq p q in
      if h then PrimFloat.leb 0x1.71eb851eb851fp-1%float d2 && PrimFloat.leb d2 0x1.b0a3d70a3d70ap+0%float        (* 0.85 .. 1.3 *)
      else PrimFloat.leb 0x1.9eb851eb851ecp-1%float d2 && PrimFloat.leb d2 4%float                  (* 0.9 .. 2.0 *)
  | _, _ => false
  end.

Definition atom_eqb (a b : atomobs) : bool :=
  let '(e, q, h) := a in let '(e', q', h') := b in str_eqb e e' && Z.eqb q q' && Z.eqb h h'.
Definition zlookup (k : Z) (l : list (Z * nat)) : option nat := lookup_last k l.
(** every original atom/bond is found, with equal attributes, at the index networkx_to_rdkit gave it;
    and nothing else exists *)
Definition chem_preserved (nodes : list Z) (oa : list (Z * atomobs)) (oe : list (Z * Z * Z))
           (ra : list (Z * atomobs)) (re : list (Z * Z * Z)) : bool :=
  let idx k := match own_atom nodes k with Some i => Z.of_nat i | None => (-1) end in
  Nat.eqb (length oa) (length ra) && Nat.eqb (length oe) (length re) &&
  forallb (fun ka => match alookup (idx (fst ka)) ra with Ok b => atom_eqb (snd ka) b | Err _ => false end) oa &&
  forallb (fun e => let '(u, v, o) := e in
             existsb (fun f => let '(i, j, p) := f in
                        ((Z.eqb i (idx u) && Z.eqb j (idx v)) || (Z.eqb i (idx v) && Z.eqb j (idx u))) && Z.eqb o p) re) oe.

Definition sub_keys (a b : list (Z * fvec3)) : bool :=
  Nat.eqb (length a) (length b) && forallb (fun kp => is_ok (alookup (fst kp) b)) a.

(** the weight-normalised average computed independently of the model: sum(w p)/sum(w) *)
Definition norm_avg (pos : list (Z * fvec3)) (ws : list (Z * float)) : res fvec3 := bead numF DivBySum (fun k => alookup k pos) ws.

Definition prop_fail (c : case) : nat :=
  match c with
  | CEmbed nodes nrd canon exc obs bonds pos =>
      if negb (Nat.eqb exc 0) then 1%nat
      else if negb (forallb (fun k => is_ok (alookup k pos)) nodes) then 2%nat
      else if negb (own_ok canon nodes obs) then 3%nat
      else if negb (forallb (bond_ok pos) bonds) then 4%nat
      else 0%nat
  | CRound has_conf nodes exc oa oe ra re canon out_pos =>
      if negb (Nat.eqb exc 0) then (if has_conf then 6%nat else 8%nat)
      else if negb (chem_preserved nodes oa oe ra re) then 5%nat
      else if has_conf && negb (forallb (fun ka => match lookup_last (fst ka) out_pos with
                                                   | Some i => Nat.eqb i (cn canon (Z.to_nat (fst ka))) && (0 <=? fst ka)
                                                   | None => false end) ra)
           then 7%nat
      else 0%nat
  | CFwd beads _ pos t exc out out_t own out_p =>
      if negb (Nat.eqb exc 0) then 9%nat
      else if negb (forallb (fun b => is_ok (alookup (fst b) out)) beads && forallb (fun b => is_ok (alookup (fst b) out_t)) beads)
           then 10%nat
      else if negb (forallb (fun b => match alookup (fst b) out, alookup (fst b) out_t with
                                      | Ok p, Ok q => v3close q (v3add numF p t) | _, _ => false end) beads) then 11%nat
      else if negb (match alookup own out, alookup own out_p with Ok p, Ok q => v3eqb p q | _, _ => false end) then 12%nat
      else if negb (forallb (fun b => match alookup (fst b) out, norm_avg pos (snd b) with
                                      | Ok p, Ok q => v3close p q | _, _ => false end) beads) then 13%nat
      else 0%nat
  | CSkip => 0%nat
  end.

(** defect classes evaluated on a case (mirrored by known_class in tools/props/c18.py) *)
Definition cls_weight_not_one (beads : list (Z * list (Z * float))) : bool :=
  existsb (fun b => existsb (fun aw => negb (PrimFloat.eqb (snd aw) 1%float)) (snd b)) beads.
Definition case_class (c : case) : nat :=
  match c with
  | CEmbed nodes _ _ _ _ _ _ => if cls_index_not_key nodes then 1%nat else 0%nat
  | CRound has_conf _ _ _ _ _ _ _ _ => if cls_has_conformer has_conf then 2%nat else 0%nat
  | CFwd beads _ _ _ _ _ _ _ _ => if cls_weight_not_one beads then 3%nat else 0%nat
  | CSkip => 0%nat
  end.
