(** Tail: graph_layout.vespr_layout from the result of check_and_fix_cis_trans to `return pos` (model; NO proofs).

      pos = check_and_fix_cis_trans(graph, pos)
      if align_with is not None:                                    (TAlign)
          pos_arr = np.array(list(pos.values()))
          pos_aligned = rotate_to_axis(pos_arr, align_with)         -> linalg_functions.rotate(positions, angle)
          for idx, node in enumerate(pos):                             about the origin [0, 0]
              pos[node] = pos_aligned[idx]
      avg_dist = 0 ... pos[node] *= default_bond / avg_dist         (TRescale, Geom/Scale.v)
      return pos

    The LIST of steps between the cis/trans correction and the return is GENERATED ([gen_vespr_tail]; tools/gen_geom.py
    accepts nothing but alignment blocks, one rescale step and the return, so a statement that moves atoms after the
    rescale makes the generation fail).  One row of the rotation is GENERATED from the matrix literal of
    linalg_functions.rotate ([gen_rot_xy]).  The angle (pdist/argmax/arctan2) and numpy's cos/sin are third party:
    [al] = None when align_with is None, otherwise Some (cos angle, sin angle) as a TRANSCRIPT; the theorems keep the
    contract c*c + s*s = 1 as a hypothesis, the harness evaluates it on every recorded call.

    Two levels: [run_tailf] on total position functions (statements about bond lengths), [run_tail] on the dict
    (association list in dict order; keys and their order). *)
From Coq Require Import List ZArith Bool.
From CGV Require Import Base.PyBase Geom.Num Gen.GeomGen Geom.Scale.
Import ListNotations.

Section Tail.
  Context {M : Type} (o : numops M) (sqrt : M -> M).
  Notation vec := (@vec2 M).

  Definition rot_cs (cs : M * M) (v : vec) : vec := gen_rot_xy o (fst cs) (snd cs) (fst v) (snd v).

  (** on position functions *)
  Definition stepf (al : option (M * M)) (db : M) (edges : list (Z * Z)) (pf : Z -> vec) (st : tail_step) : Z -> vec :=
    match st with
    | TAlign => match al with None => pf | Some cs => fun k => rot_cs cs (pf k) end
    | TRescale => fun k => v2scale o (pf k) (factor_of o db (lens_of o sqrt pf edges))
    end.
  Definition run_tailf al db edges (steps : list tail_step) (pf : Z -> vec) : Z -> vec :=
    fold_left (stepf al db edges) steps pf.

  (** on the dict *)
  Definition align_step (al : option (M * M)) (pos : list (Z * vec)) : list (Z * vec) :=
    match al with None => pos | Some cs => map (fun kv => (fst kv, rot_cs cs (snd kv))) pos end.
  Definition step (d : vec) al db edges (pos : list (Z * vec)) (st : tail_step) : list (Z * vec) :=
    match st with
    | TAlign => align_step al pos
    | TRescale => rescale o sqrt db edges (fun k => plookup d k pos) pos
    end.
  Definition run_tail d al db edges (steps : list tail_step) (pos : list (Z * vec)) : list (Z * vec) :=
    fold_left (step d al db edges) steps pos.

  (** what vespr_layout returns, given what check_and_fix_cis_trans returned *)
  Definition vespr_tailf al db edges pf := run_tailf al db edges gen_vespr_tail pf.
  Definition vespr_tail d al db edges pos := run_tail d al db edges gen_vespr_tail pos.
End Tail.

(** shape condition of the theorems: exactly one rescale step (all other steps are alignments) *)
Definition is_rescale (st : tail_step) : bool := match st with TRescale => true | TAlign => false end.
Definition tail_ok (steps : list tail_step) : bool := Nat.eqb (length (filter is_rescale steps)) 1.
Definition tail_eqb (a b : list tail_step) : bool :=
  Nat.eqb (length a) (length b) && forallb (fun p => Bool.eqb (is_rescale (fst p)) (is_rescale (snd p))) (combine a b).
