(** Scale: the rescale step of graph_layout.vespr_layout over the generic carrier (model; NO proofs).

      avg_dist = 0
      for edge in graph.edges:
          avg_dist += np.linalg.norm(pos[edge[0]]-pos[edge[1]])
      avg_dist = avg_dist / len(graph.edges)             (GENERATED: gen_avg_final)
      for node in pos:
          pos[node] *= default_bond / avg_dist          (GENERATED: gen_scale_factor)

    [sqrt] is a separate parameter (no square root in Q).  np.linalg.norm is numpy/BLAS code
    (x.dot(x) evaluated with a fused multiply-add, measured: fma(dy,dy,dx*dx)); the float
    correspondence therefore takes the recorded norms as a transcript ([rescale_with]) and checks
    the contract "within one ulp of sqrt(dx*dx+dy*dy)" separately. *)
From Coq Require Import List ZArith Bool.
From CGV Require Import Base.PyBase Geom.Num Gen.GeomGen.
Import ListNotations.

Section Scale.
  Context {M : Type} (o : numops M) (sqrt : M -> M).
  Notation vec := (@vec2 M).

  Definition norm2 (v : vec) : M := sqrt (nadd o (nmul o (fst v) (fst v)) (nmul o (snd v) (snd v))).
  Definition bond_len (pos : Z -> vec) (e : Z * Z) : M := norm2 (v2sub o (pos (fst e)) (pos (snd e))).

  (** avg_dist accumulation: left fold from 0 in graph.edges order *)
  Fixpoint sum_list (l : list M) (s : M) : M := match l with [] => s | x :: r => sum_list r (nadd o s x) end.
  Definition avg_of (lens : list M) : M := gen_avg_final o (sum_list lens (nzero o)) (nofnat o (length lens)).
  Definition factor_of (default_bond : M) (lens : list M) : M := gen_scale_factor o default_bond (avg_of lens).

  (** the update loop: every entry of the dict is multiplied by the same factor *)
  Definition rescale_with (default_bond : M) (lens : list M) (pos : list (Z * vec)) : list (Z * vec) :=
    let c := factor_of default_bond lens in map (fun kv => (fst kv, v2scale o (snd kv) c)) pos.

  Definition lens_of (posf : Z -> vec) (edges : list (Z * Z)) : list M := map (bond_len posf) edges.
  Definition rescale (default_bond : M) (edges : list (Z * Z)) (posf : Z -> vec) (pos : list (Z * vec))
    : list (Z * vec) := rescale_with default_bond (lens_of posf edges) pos.

  Definition mean_bond (posf : Z -> vec) (edges : list (Z * Z)) : M := avg_of (lens_of posf edges).
End Scale.

(** total look-up for executable instances (the layout dict has every node; default = first argument) *)
Fixpoint plookup {A} (d : A) (k : Z) (l : list (Z * A)) : A :=
  match l with [] => d | (k', v) :: r => if Z.eqb k k' then v else plookup d k r end.
